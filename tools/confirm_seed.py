#!/usr/bin/env python3
"""Confirm a seeded change produced by an independent sub-agent and run our checks against it.

usage: confirm_seed.py <prop> <seed_dir> <name> [--all]

1. in a scratch worktree of /repo: the demo passes on the pristine tree, the patch applies, the 151 tests pass with it,
   the demo fails with it;
2. the patch is applied to /repo, the quick check of <prop> (and with --all every other check) is run, /repo is restored;
3. the change is stored as /verif/seeded/<name>/ (patch.diff, demo.py, notes.md, meta.json).
"""
import json
import os
import shutil
import subprocess
import sys
import time

VERIF = os.path.dirname(os.path.dirname(os.path.abspath(__file__)))
ALL = ['C%02d' % i for i in range(1, 20)]


def sh(cmd, cwd=None, env=None, timeout=1800):
    p = subprocess.run(cmd, shell=True, cwd=cwd, env=env, capture_output=True, text=True, timeout=timeout)
    return p.returncode, p.stdout + p.stderr


def main():
    prop, seed_dir, name = sys.argv[1], sys.argv[2], sys.argv[3]
    run_all = '--all' in sys.argv
    patch = os.path.join(seed_dir, 'patch.diff')
    demo = os.path.join(seed_dir, 'demo.py')
    wt = '/tmp/cf_%s' % name
    sh('git -C /repo worktree remove --force %s' % wt)
    rc, out = sh('git -C /repo worktree add -q %s HEAD' % wt)
    if rc:
        print('cannot create worktree', out)
        return 2
    meta = dict(property=prop, name=name, confirmed=False)
    try:
        env = dict(os.environ, PYTHONPATH=wt, PYTHONDONTWRITEBYTECODE='1')
        rc0, out0 = sh('/venv/bin/python %s' % demo, cwd=wt, env=env)
        meta['demo_on_pristine_rc'] = rc0
        rc, out = sh('git apply %s' % patch, cwd=wt)
        if rc:
            print('patch does not apply:', out)
            return 2
        rct, outt = sh('/venv/bin/python -m pytest -q -p no:cacheprovider 2>&1 | tail -1', cwd=wt, env=env)
        meta['pytest_with_change'] = outt.strip()
        rc1, out1 = sh('/venv/bin/python %s' % demo, cwd=wt, env=env)
        meta['demo_with_change_rc'] = rc1
        meta['demo_with_change_output'] = out1[-600:]
        meta['confirmed'] = (rc0 == 0 and rc1 != 0 and '151 passed' in outt)
    finally:
        sh('git -C /repo worktree remove --force %s' % wt)
    print('confirmed' if meta['confirmed'] else 'NOT CONFIRMED', json.dumps({k: v for k, v in meta.items() if k != 'demo_with_change_output'}))
    if not meta['confirmed']:
        return 1
    # run our checks against the change
    rc, out = sh('git -C /repo status --porcelain')
    if out.strip():
        print('/repo is not clean; aborting')
        return 2
    rc, out = sh('git -C /repo apply %s' % patch)
    if rc:
        print('patch does not apply to /repo', out)
        return 2
    results = {}
    try:
        props = [prop] + ([p for p in ALL if p != prop] if run_all else [])
        for p in props:
            t = time.time()
            rc, out = sh('/venv/bin/python check.py %s --tier quick' % p, cwd=VERIF, env=dict(os.environ, VERIF_SEED='1'))
            lines = [l for l in out.split('\n') if l.startswith('VIOLATION') or l.startswith('KNOWN') or l.startswith('INFRA')]
            results[p] = dict(rc=rc, lines=lines[:3], wall=round(time.time() - t, 1))
            print(p, rc, lines[:2])
    finally:
        sh('git -C /repo checkout -- .')
    meta['checks'] = results
    meta['detected_by_target'] = results[prop]['rc'] == 1
    meta['also_fired'] = [p for p, r in results.items() if p != prop and r['rc'] == 1]
    meta['what_ran'] = ('scratch worktree: demo on pristine (rc 0), git apply, pytest (151 passed), demo with change (rc != 0); '
                        'then patch applied to /repo, `check.py <prop> --tier quick` with VERIF_SEED=1, /repo restored')
    dst = os.path.join(VERIF, 'seeded', name)
    os.makedirs(dst, exist_ok=True)
    for f in ('patch.diff', 'demo.py', 'notes.md'):
        if os.path.exists(os.path.join(seed_dir, f)):
            shutil.copy(os.path.join(seed_dir, f), os.path.join(dst, f))
    notes = open(os.path.join(seed_dir, 'notes.md')).read() if os.path.exists(os.path.join(seed_dir, 'notes.md')) else ''
    meta['needs_to_manifest'] = notes[:1500]
    json.dump(meta, open(os.path.join(dst, 'meta.json'), 'w'), indent=1)
    return 0


if __name__ == '__main__':
    sys.exit(main())
