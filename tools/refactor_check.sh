#!/bin/bash
# usage: refactor_check.sh <patch> <name> -- applies a behaviour-preserving refactoring to /repo and runs ALL quick checks; every one must exit 0
patch="$1"; name="$2"
cd /repo || exit 2
[ -n "$(git status --porcelain)" ] && { echo "/repo not clean"; exit 2; }
git apply "$patch" || { echo "patch does not apply"; exit 2; }
trap 'git -C /repo checkout -- . ; git -C /repo clean -fdq' EXIT
t=$(cd /repo && /venv/bin/python -m pytest -q -p no:cacheprovider 2>&1 | tail -1); echo "pytest: $t"
bad=0
for i in $(seq -w 1 19); do
  out=$(cd /verif && VERIF_SEED=2 /venv/bin/python check.py C$i 2>&1); rc=$?
  if [ $rc -ne 0 ]; then bad=$((bad+1)); echo "== C$i rc=$rc"; echo "$out" | grep -E "VIOLATION|INFRA" | head -3; fi
done
echo "$name: alarms=$bad"
