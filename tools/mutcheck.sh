#!/bin/bash
# usage: mutcheck.sh <patch-file> <prop> [<prop> ...]   -- applies a patch to /repo, runs quick checks, reverts
set -u
patch="$1"; shift
cd /repo || exit 2
if ! git apply --check "$patch" 2>/dev/null; then echo "patch does not apply"; exit 2; fi
git apply "$patch"
trap 'git -C /repo checkout -- . ' EXIT
for p in "$@"; do
  out=$(cd /verif && /venv/bin/python check.py "$p" 2>&1); rc=$?
  echo "== $p rc=$rc"; echo "$out" | grep -E "VIOLATION|KNOWN|INFRA|exit" | head -5
done
