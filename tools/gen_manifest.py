#!/usr/bin/env python3
"""Regenerate MANIFEST.json from the table below (keeps it valid and consistent)."""
import json
import os

HERE = os.path.dirname(os.path.dirname(os.path.abspath(__file__)))

NOTE = ("Theorem about a hand-written Lean 4 model (lean/QsModel), proved for all inputs/histories with axioms "
        "propext, Classical.choice, Quot.sound only; the model is tied to /repo on every run by a differential "
        "correspondence (real code vs compiled model, Float carrier bit-for-bit, Rat carrier exact) scoped to the "
        "property's component, plus an exact-arithmetic property oracle on the real traces. That tie is sampled. "
        "For the arithmetic kernels (Position, fee models, weight normalisation, sizing and fill kernels) a second, "
        "unsampled tie runs on every check: harness/translate.py re-translates the Python source of /repo's working tree "
        "to Lean and Lean proves the translation equal to the model (DESIGN.md 13). "
        "Float rounding, pandas/NumPy/CPython internals are modelled, not verified (DESIGN.md 9, 10).")

CLAIMED = {
    'C01': ('K3', 'ledger invariant by induction over operation sequences (Lean) + stepwise correspondence of cash, history and aggregates + structural tie for the Portfolio cash arithmetic and history events', '6 C01'),
    'C02': ('K3', 'holdings invariant by induction over fill/mark sequences (Lean) + stepwise correspondence of quantities and valuation + structural tie (source translated to Lean, proved equal to the model) for Position quantities and valuation', '6 C02'),
    'C03': ('K3', 'P&L identity by reachability invariant and field algebra (Lean) + bit-exact correspondence of Position P&L + structural tie for every Position formula', '6 C03'),
    'C04': ('K3', 'queue conservation / exactly-once by induction over op sequences (Lean) + stepwise correspondence of queues and fill order + structural tie for the fill kernel', '6 C04'),
    'C05': ('K3', 'execution and fee-model theorems (Lean) + correspondence of each recorded Transaction with the model + structural tie for the fill kernel and the fee models', '6 C05'),
    'C06': ('K2', 'refinement of the sort/expand/forward-fill/pad-lookup pipeline to "latest observed row at or before t" (Lean) + correspondence of CSV data source and handler', '6 C06'),
    'C07': ('K7', 'causality by induction over the event list: the step function receives the market only at the event time (Lean) + read-log check and paired real runs on rewritten futures', '6 C07'),
    'C08': ('K7', 'refinement of the operational session model to the day-indexed reference (Lean) + whole-run correspondence of implementation, operational model and reference + structural tie for the fill, sizing and fee kernels', '6 C08'),
    'C09': ('K4+K7', 'order-diff and asset-union theorems over association lists (Lean) + correspondence of PortfolioConstructionModel.__call__', '6 C09'),
    'C10': ('K4', 'floor/budget inequalities over ordered fields with a floor (Lean) + exact correspondence of target quantities + structural tie for weight normalisation, the per-asset kernel and the fee models', '6 C10'),
    'C11': ('K4', 'truncation/sign/gross-exposure inequalities over ordered fields (Lean) + exact correspondence of target quantities + structural tie for gross-leverage scaling, the per-asset kernel and the fee models', '6 C11'),
    'C12': ('K1', 'generative date_range = filter over the day range, by induction (Lean) + correspondence of the event list with pandas', '6 C12'),
    'C13': ('K1+K7', 'schedule = declarative calendar filter, structural months (Lean) + correspondence with the four Rebalance classes and the schedule a session builds', '6 C13'),
    'C16': ('K5+K7', 'deque-window lemma and telescoping product (Lean) + correspondence of buffers and signal values', '6 C16'),
    'C17': ('K6', 'compounding/drawdown/scale-invariance theorems (Lean) + correspondence of every reported statistic', '6 C17'),
    'C19': ('K4+K7', 'universe membership and PCM composition invariant (Lean) + correspondence of universes, alpha keys, optimisers', '6 C19'),
    'C14': ('K7', 'fold invariant over the event list: rebalances = clock ∩ schedule ∩ burn-in, equity at closes, allocation table (Lean) + structural correspondence of sessions', '6 C14'),
    'C18': ('K7+K3D', 'independence of set-enumeration order, memo table and order ids (Lean) + repeated real runs: same process, reused data source, fresh interpreters under different hash seeds', '6 C18'),
    'C15': ('K3', 'case analysis of the step function: refusal leaves the observable state unchanged (Lean) + stepwise correspondence of refusals + structural tie for the refusal paths of Position', '6 C15'),
}

NOT_YET = {}

ALL = ['C%02d' % i for i in range(1, 20)]


def main():
    checks = []
    for pid in ALL:
        if pid not in CLAIMED:
            continue
        harness, tech, ref = CLAIMED[pid]
        checks.append(dict(
            property_id=pid,
            quick_cmd='/venv/bin/python check.py %s --tier quick' % pid,
            thorough_cmd='/venv/bin/python check.py %s --tier thorough' % pid,
            evidence_file='evidence/%s.json' % pid,
            replay_cmd_template='/venv/bin/python check.py %s --replay {path}' % pid,
            engine='lean4-model+correspondence',
            level_claimed=dict(category='proof',
                               text='Machine-checked Lean 4 theorems about the executable model of the anchored code '
                                    '(unbounded: induction / invariants / algebra), with the model checked against the '
                                    'real code on every run (harness %s).' % harness,
                               design_ref='DESIGN.md section ' + ref),
            level_note=NOTE,
            technique='Lean 4 proof: ' + tech,
        ))
    na = []
    for pid in ALL:
        if pid not in CLAIMED:
            na.append(dict(property_id=pid, reason=NOT_YET.get(pid, 'check under construction in this round: model and '
                                                                     'theorems not yet registered (see DESIGN.md 11)')))
    m = dict(
        version=1,
        setup_cmd='cd lean && lake build QsModel QsProofs qsdriver && (cd .. && python3 harness/translate.py > /dev/null 2>&1; cd lean && lake build QsGen QsProofs.Tie.PositionGen QsProofs.Tie.KernelsGen QsProofs.Tie.PlanGen QsProofs.Tie.HandlerGen QsProofs.Tie.Lifted QsProofs.Tie.LiftedBroker QsProofs.Tie.Source.C01 > /dev/null 2>&1 || true)',
        hooks=dict(guard='QSTRADER_VERIF', enable='no source hooks are needed: all observation points are reached from '
                   'outside (instance-level taps installed by the harness); the guard names no code',
                   baseline_off_cmd='cd /repo && /venv/bin/python -m pytest -ra -q -p no:cacheprovider --timeout=900 '
                                    '--continue-on-collection-errors',
                   source_commits=[], add_only=True),
        engines=[dict(name='lean4-model+correspondence', path='check.py',
                      serves_properties=sorted(CLAIMED),
                      kind_free_text='Lean 4.33 + Mathlib modules: theorems over the model; compiled driver qsdriver; '
                                     'Python differential harness and exact oracles')],
        checks=checks,
        notes='See DESIGN.md. known_findings.txt lists fixed defects (fix: commits in /repo) and recorded findings.',
        not_applicable=na,
    )
    with open(os.path.join(HERE, 'MANIFEST.json'), 'w') as f:
        json.dump(m, f, indent=1)
    print('wrote MANIFEST.json with %d checks, %d not_applicable' % (len(checks), len(na)))


if __name__ == '__main__':
    main()
