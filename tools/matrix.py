#!/usr/bin/env python3
"""Run every quick check against every seeded change (checks of one seed run concurrently); writes seeded/MATRIX.json."""
import concurrent.futures
import glob
import json
import os
import subprocess
import sys
import time

VERIF = os.path.dirname(os.path.dirname(os.path.abspath(__file__)))
ALL = ['C%02d' % i for i in range(1, 20)]


def sh(cmd, cwd=None, env=None, timeout=2400):
    p = subprocess.run(cmd, shell=True, cwd=cwd, env=env, capture_output=True, text=True, timeout=timeout)
    return p.returncode, p.stdout + p.stderr


COPY = os.environ.get('MATRIX_REPO_COPY')      # run against a scratch copy of /repo instead of /repo itself


def one(prop):
    env = dict(os.environ, VERIF_SEED='4')
    if COPY:
        env.update(QSTRADER_REPO=COPY, PYTHONPATH=COPY)
    rc, out = sh('/venv/bin/python check.py %s --tier quick' % prop, cwd=VERIF, env=env)
    line = [l for l in out.split('\n') if l.startswith('VIOLATION')]
    if rc not in (0, 1):
        open('/tmp/matrix_infra_%s.log' % prop, 'w').write(out[-3000:])
    return prop, rc, (line[0] if line else '')


def main():
    names = sys.argv[1:] or sorted(os.path.basename(os.path.dirname(p)) for p in glob.glob(os.path.join(VERIF, 'seeded', 'C*', 'patch.diff')))
    path = os.path.join(VERIF, 'seeded', 'MATRIX.json')
    matrix = json.load(open(path)) if os.path.exists(path) else {}
    for name in names:
        patch = os.path.join(VERIF, 'seeded', name, 'patch.diff')
        if COPY:
            sh('rm -rf %s && mkdir -p %s && git -C /repo archive HEAD | tar -x -C %s' % (COPY, COPY, COPY))
            rc, out = sh('patch -p1 -s < %s' % patch, cwd=COPY)
        else:
            rc, out = sh('git -C /repo status --porcelain')
            if out.strip():
                print('/repo not clean')
                return 2
            rc, out = sh('git -C /repo apply %s' % patch)
        if rc:
            print(name, 'patch does not apply', out)
            continue
        t = time.time()
        try:
            with concurrent.futures.ThreadPoolExecutor(6) as ex:
                res = list(ex.map(one, ALL))
        finally:
            if not COPY:
                sh('git -C /repo checkout -- .')
        fired = {p: ('no-failing-input-found' if 'no-failing-input-found' in line else 'violation') for p, rc, line in res if rc == 1}
        infra = [p for p, rc, line in res if rc not in (0, 1)]
        matrix[name] = dict(fired=fired, infra=infra)
        print(name, fired, 'infra', infra, '%.0fs' % (time.time() - t), flush=True)
        json.dump(matrix, open(path, 'w'), indent=1, sort_keys=True)
    return 0


if __name__ == '__main__':
    sys.exit(main())
