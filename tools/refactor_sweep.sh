#!/bin/bash
# usage: refactor_sweep.sh <verif dir> <repo copy dir> [seed]   -- every seeded/refactor-* against every quick check, on a scratch copy
V="$1"; C="$2"; S="${3:-2}"
for d in "$V"/seeded/refactor-*; do
  name=$(basename "$d")
  rm -rf "$C"; mkdir -p "$C"; git -C /repo archive HEAD | tar -x -C "$C"
  (cd "$C" && patch -p1 -s < "$d/patch.diff") || { echo "$name: patch does not apply"; continue; }
  bad=0
  for i in $(seq -w 1 19); do
    out=$(cd "$V" && QSTRADER_REPO="$C" PYTHONPATH="$C" VERIF_SEED=$S /venv/bin/python check.py C$i 2>&1); rc=$?
    if [ $rc -ne 0 ]; then bad=$((bad+1)); echo "== $name C$i rc=$rc"; echo "$out" | grep -E "VIOLATION|INFRA" | head -3; fi
  done
  echo "$name: alarms=$bad"
done
