#!/usr/bin/env python3
"""Target-check detection of every seeded change under several VERIF_SEED values, against a scratch copy of /repo.

usage: detect.py <repo copy dir> <seed,seed,...> [names...]      writes seeded/DETECT.json
"""
import glob
import json
import os
import subprocess
import sys
import time

VERIF = os.path.dirname(os.path.dirname(os.path.abspath(__file__)))


def sh(cmd, cwd=None, env=None, timeout=3000):
    p = subprocess.run(cmd, shell=True, cwd=cwd, env=env, capture_output=True, text=True, timeout=timeout)
    return p.returncode, p.stdout + p.stderr


def main():
    copy = sys.argv[1]
    seeds = sys.argv[2].split(',')
    names = sys.argv[3:] or sorted(os.path.basename(os.path.dirname(p)) for p in glob.glob(os.path.join(VERIF, 'seeded', 'C*', 'patch.diff')))
    path = os.path.join(VERIF, 'seeded', 'DETECT.json')
    res = json.load(open(path)) if os.path.exists(path) else {}
    for name in names:
        prop = name.split('-')[0]
        sh('rm -rf %s && mkdir -p %s && git -C /repo archive HEAD | tar -x -C %s' % (copy, copy, copy))
        rc, out = sh('patch -p1 -s < %s' % os.path.join(VERIF, 'seeded', name, 'patch.diff'), cwd=copy)
        if rc:
            print(name, 'patch does not apply')
            continue
        row = {}
        for s in seeds:
            env = dict(os.environ, VERIF_SEED=s, QSTRADER_REPO=copy, PYTHONPATH=copy)
            t = time.time()
            rc, out = sh('/venv/bin/python check.py %s --tier quick' % prop, cwd=VERIF, env=env)
            line = [l for l in out.split('\n') if l.startswith('VIOLATION')]
            row[s] = ('nfif' if line and 'no-failing-input-found' in line[0] else 'violation') if rc == 1 else ('miss' if rc == 0 else 'infra')
        res[name] = row
        print(name, row, flush=True)
        json.dump(res, open(path, 'w'), indent=1, sort_keys=True)
    return 0


if __name__ == '__main__':
    sys.exit(main())
