import QsModel.Num
import QsModel.Position
import QsModel.Portfolio
import QsModel.Broker
import QsModel.Proto
import QsModel.DriverK3
