import QsGen.Position
