import QsGen.Position
import QsGen.Kernels
