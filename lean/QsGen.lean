import QsGen.Position
import QsGen.Kernels
import QsGen.Plan
import QsGen.Handler
