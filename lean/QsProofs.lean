import QsProofs.Inst
import QsProofs.Lemmas.Position
import QsProofs.Props.C03
