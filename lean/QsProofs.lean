import QsProofs.Inst
