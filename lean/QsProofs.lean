import QsProofs.Inst
import QsProofs.Lemmas.Position
import QsProofs.Props.C03
import QsProofs.Lemmas.Holdings
import QsProofs.Lemmas.HoldingsBroker
import QsProofs.Props.C02
