import QsModel.Portfolio

/-!
# Views (hand-written, Mathlib-free)

What a `Portfolio` method leaves behind, as the flat record that both the translated Python method
(`QsGen/Kernels.lean`, generated) and the model's method (through `pfView`) are projected to.
-/

namespace Qs.Gen
open NumOps Num

/-- the observable effect of one `Portfolio` method call: outcome, clock, cash and the history event it appended (if any) -/
structure PfView (α : Type) where
  err : Option Err
  clock : Int
  cash : α
  appended : Bool
  evTime : Int
  evKind : String
  evDebit : α
  evCredit : α
  evBalance : α

section
variable {α : Type} [Add α] [Sub α] [Mul α] [Div α] [Neg α] [NumOps α]

/-- the view of a model step `old → r` -/
def pfView (old : Portfolio α) (r : Portfolio α × Option Err) : PfView α :=
  let grew := r.1.history.length == old.history.length + 1
  match (if grew then r.1.history.getLast? else none) with
  | some ev =>
    { err := r.2, clock := r.1.clock, cash := r.1.cash, appended := true, evTime := ev.time, evKind := ev.kind.name,
      evDebit := ev.debit, evCredit := ev.credit, evBalance := ev.balance }
  | none =>
    { err := r.2, clock := r.1.clock, cash := r.1.cash, appended := false, evTime := 0, evKind := "",
      evDebit := ofInt 0, evCredit := ofInt 0, evBalance := ofInt 0 }

end
end Qs.Gen
