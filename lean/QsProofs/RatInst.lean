import QsProofs.Inst
import Mathlib.Data.Rat.Floor

/-!
# The executable `NumOps Rat` instance of the model is lawful

Core `Rat` is Mathlib's `ℚ`.  `instNumOpsRat` is the `instance : NumOps Rat` of `QsModel/Num.lean`
(the one compiled into the driver).  We prove it satisfies `LawfulNumOps` with respect to Mathlib's
field / order / floor structure on `ℚ`.
-/

namespace Qs.RatInst
open NumOps

/-- The model's executable instance (definitionally what instance resolution finds). -/
@[reducible] def ratNumOps : NumOps ℚ := instNumOpsRat

example : (inferInstance : NumOps Rat) = ratNumOps := rfl
example : (inferInstanceAs (NumOps Rat)) = instNumOpsRat := rfl

/-! ## floor / ceil -/

theorem floor_eq (a : ℚ) : Rat.floor a = ⌊a⌋ := rfl

theorem ceil_eq (a : ℚ) : Rat.ceil a = ⌈a⌉ := by
  rw [Rat.ceil_eq_neg_floor_neg, floor_eq, Int.floor_neg, neg_neg]

/-! ## abs -/

theorem abs_eq (a : ℚ) : (if a < 0 then -a else a) = |a| := by
  split
  · next h => exact (abs_of_neg h).symm
  · next h => exact (abs_of_nonneg (not_lt.mp h)).symm

/-! ## tiny: the exact rational value of the double `1e-8` (bits `0x3E45798EE2308C3A`) -/

theorem tiny_bits : (1e-8 : Float).toBits = 0x3E45798EE2308C3A := by decide +kernel

theorem tiny_value : RatBits.ofFloat 1e-8 = (3022314549036573 : ℚ) / 2 ^ 78 := by decide +kernel

theorem tiny_nonneg' : (0 : ℚ) ≤ RatBits.ofFloat 1e-8 := by
  rw [tiny_value]; positivity

/-! ## round half even -/

/-- The model's integer round-half-even on `n / d` agrees with the generic `Num.roundHalfEvenI`
evaluated under the model's own instance. -/
theorem rhe_eq (q : ℚ) : RatBits.rhe q = @Num.roundHalfEvenI ℚ _ _ instNumOpsRat q := by
  have hd : (0 : ℚ) < (q.den : ℚ) := by exact_mod_cast q.den_pos
  have hdz : (0 : ℤ) ≤ (q.den : ℤ) := Int.natCast_nonneg _
  have hf : Rat.floor q = q.num / (q.den : ℤ) := Rat.floor_def q
  have hq : q = (q.num : ℚ) / (q.den : ℚ) := (Rat.num_div_den q).symm
  -- the fractional part as an exact quotient
  have hfrac : q - ((q.num / (q.den : ℤ) : ℤ) : ℚ)
      = ((q.num - q.num / (q.den : ℤ) * (q.den : ℤ) : ℤ) : ℚ) / (q.den : ℚ) := by
    have key : ∀ (n f : ℤ) (d : ℚ), 0 < d → (n : ℚ) / d - (f : ℚ) = ((n : ℚ) - f * d) / d := by
      intro n f d h; field_simp
    calc q - ((q.num / (q.den : ℤ) : ℤ) : ℚ)
        = (q.num : ℚ) / (q.den : ℚ) - ((q.num / (q.den : ℤ) : ℤ) : ℚ) := by rw [← hq]
      _ = _ := by rw [key _ _ _ hd]; push_cast; rfl
  have hlt : (q - ((q.num / (q.den : ℤ) : ℤ) : ℚ) < 1 / 2)
      ↔ 2 * (q.num - q.num / (q.den : ℤ) * (q.den : ℤ)) < (q.den : ℤ) := by
    rw [hfrac, div_lt_iff₀ hd]
    constructor
    · intro h
      have : ((2 * (q.num - q.num / (q.den : ℤ) * (q.den : ℤ)) : ℤ) : ℚ) < ((q.den : ℤ) : ℚ) := by
        push_cast at h ⊢; linarith
      exact_mod_cast this
    · intro h
      have : ((2 * (q.num - q.num / (q.den : ℤ) * (q.den : ℤ)) : ℤ) : ℚ) < ((q.den : ℤ) : ℚ) := by
        exact_mod_cast h
      push_cast at this ⊢; linarith
  have hgt : (1 / 2 < q - ((q.num / (q.den : ℤ) : ℤ) : ℚ))
      ↔ (q.den : ℤ) < 2 * (q.num - q.num / (q.den : ℤ) * (q.den : ℤ)) := by
    rw [hfrac, lt_div_iff₀ hd]
    constructor
    · intro h
      have : ((q.den : ℤ) : ℚ) < ((2 * (q.num - q.num / (q.den : ℤ) * (q.den : ℤ)) : ℤ) : ℚ) := by
        push_cast at h ⊢; linarith
      exact_mod_cast this
    · intro h
      have : ((q.den : ℤ) : ℚ) < ((2 * (q.num - q.num / (q.den : ℤ) * (q.den : ℤ)) : ℤ) : ℚ) := by
        exact_mod_cast h
      push_cast at this ⊢; linarith
  show FloatBits.rheRat q.num q.den = _
  unfold FloatBits.rheRat Num.roundHalfEvenI
  simp only [NumOps.floorI, NumOps.lt, NumOps.ofInt, hf, Int.fdiv_eq_ediv_of_nonneg _ hdz]
  have h12 : ((1 : ℤ) : ℚ) / ((2 : ℤ) : ℚ) = 1 / 2 := by norm_num
  rw [h12]
  simp only [decide_eq_true_eq, hlt, hgt, gt_iff_lt, beq_iff_eq]

theorem round2_eq (a : ℚ) :
    (RatBits.rhe (a * 100) : ℚ) / 100
      = ((@Num.roundHalfEvenI ℚ _ _ instNumOpsRat (a * 100) : ℤ) : ℚ) / 100 := by
  rw [rhe_eq]

/-! ## Main theorem -/

/-- The executable instance `instance : NumOps Rat` of `QsModel/Num.lean` is lawful. -/
theorem ratNumOps_lawful : @LawfulNumOps ℚ _ _ _ _ instNumOpsRat :=
  @LawfulNumOps.mk ℚ _ _ _ _ instNumOpsRat
    (fun _ => rfl)
    (fun a b => by show decide (a < b) = true ↔ a < b; simp)
    (fun a b => by show decide (a ≤ b) = true ↔ a ≤ b; simp)
    (fun a b => by show decide (a = b) = true ↔ a = b; simp)
    (fun a => abs_eq a)
    (fun a => floor_eq a)
    (fun a => ceil_eq a)
    tiny_nonneg'
    (fun a => round2_eq a)

/-- Same statement, with the instance found by instance resolution at core's name `Rat`. -/
theorem ratNumOps_lawful' : @LawfulNumOps ℚ _ _ _ _ (inferInstanceAs (NumOps Rat)) := ratNumOps_lawful

/-- The conditional form (the hypothesis is in fact provable: `tiny_nonneg'`). -/
theorem ratNumOps_lawful_of_tiny (h : (0 : ℚ) ≤ (@NumOps.tiny ℚ instNumOpsRat)) :
    @LawfulNumOps ℚ _ _ _ _ instNumOpsRat :=
  @LawfulNumOps.mk ℚ _ _ _ _ instNumOpsRat
    (fun _ => rfl)
    (fun a b => by show decide (a < b) = true ↔ a < b; simp)
    (fun a b => by show decide (a ≤ b) = true ↔ a ≤ b; simp)
    (fun a b => by show decide (a = b) = true ↔ a = b; simp)
    (fun a => abs_eq a) (fun a => floor_eq a) (fun a => ceil_eq a) h (fun a => round2_eq a)

/-- Registering the result lets every theorem of the project be instantiated at the driver's carrier. -/
instance : LawfulNumOps ℚ := ratNumOps_lawful

/-- The instance with `tiny` replaced by the literal rational value of the double `1e-8`
(does not depend on kernel evaluation of `Float.toBits`). -/
@[reducible] def ratNumOps' : NumOps ℚ :=
  { instNumOpsRat with tiny := (3022314549036573 : ℚ) / 2 ^ 78 }

theorem ratNumOps'_eq : ratNumOps' = instNumOpsRat := by
  show ({ instNumOpsRat with tiny := (3022314549036573 : ℚ) / 2 ^ 78 } : NumOps ℚ) = _
  rw [← tiny_value]
  rfl

theorem ratNumOps'_lawful : @LawfulNumOps ℚ _ _ _ _ ratNumOps' :=
  @LawfulNumOps.mk ℚ _ _ _ _ ratNumOps'
    (fun _ => rfl)
    (fun a b => by show decide (a < b) = true ↔ a < b; simp)
    (fun a b => by show decide (a ≤ b) = true ↔ a ≤ b; simp)
    (fun a b => by show decide (a = b) = true ↔ a = b; simp)
    (fun a => abs_eq a) (fun a => floor_eq a) (fun a => ceil_eq a)
    (by show (0 : ℚ) ≤ 3022314549036573 / 2 ^ 78; positivity)
    (fun a => round2_eq a)

/-! ## Non-vacuity: the laws compute the expected values on concrete inputs -/

example : (NumOps.round2 (5 / 1000 : ℚ)) = 0 := by decide +kernel         -- 0.5 cents: tie → even (0)
example : (NumOps.round2 (15 / 1000 : ℚ)) = 2 / 100 := by decide +kernel  -- 1.5 cents: tie → even (2)
example : (NumOps.round2 (-126 / 10000 : ℚ)) = -1 / 100 := by decide +kernel
example : RatBits.rhe (-5 / 2) = -2 ∧ RatBits.rhe (7 / 2) = 4 ∧ RatBits.rhe (-7 / 3) = -2 := by decide +kernel
example : Num.roundHalfEvenI (-5 / 2 : ℚ) = -2 := by rw [← rhe_eq]; decide +kernel

#print axioms tiny_bits
#print axioms tiny_value
#print axioms rhe_eq
#print axioms ratNumOps_lawful
#print axioms ratNumOps_lawful'
#print axioms ratNumOps_lawful_of_tiny
#print axioms ratNumOps'_lawful
#print axioms ratNumOps'_eq

end Qs.RatInst
