import QsModel.Num
import Mathlib.Algebra.Order.Field.Basic
import Mathlib.Algebra.Order.Floor.Ring
import Mathlib.Algebra.Order.Floor.Defs
import Mathlib.Tactic.Ring
import Mathlib.Tactic.FieldSimp
import Mathlib.Tactic.Linarith
import Mathlib.Tactic.Positivity

/-!
# The carrier of every theorem

Any linear ordered field with a floor, together with a `NumOps` instance that obeys `LawfulNumOps`
(the Boolean comparisons decide the order, `floorI`/`ceilI` are the floor and ceiling, `round2` is
round-half-even to two decimals, the `isclose` tolerance is non-negative).  `TransOps`
(`sqrt`/`exp`/`log`/`pow`) is left completely uninterpreted: theorems quantify over every instance.
-/

open NumOps

/-- Laws tying `NumOps` to the order and field structure. -/
class LawfulNumOps (α : Type) [Field α] [LinearOrder α] [IsStrictOrderedRing α] [FloorRing α] [NumOps α] : Prop where
  ofInt_eq : ∀ n : Int, (NumOps.ofInt n : α) = (n : α)
  lt_iff : ∀ a b : α, NumOps.lt a b = true ↔ a < b
  le_iff : ∀ a b : α, NumOps.le a b = true ↔ a ≤ b
  beq_iff : ∀ a b : α, NumOps.beq a b = true ↔ a = b
  abs_eq : ∀ a : α, NumOps.abs a = |a|
  floorI_eq : ∀ a : α, NumOps.floorI a = ⌊a⌋
  ceilI_eq : ∀ a : α, NumOps.ceilI a = ⌈a⌉
  tiny_nonneg : (0 : α) ≤ NumOps.tiny
  round2_eq : ∀ a : α, NumOps.round2 a = ((Num.roundHalfEvenI (a * 100) : Int) : α) / 100

section
variable {α : Type} [Field α] [LinearOrder α] [IsStrictOrderedRing α] [FloorRing α] [NumOps α] [LawfulNumOps α]

@[simp] theorem ofInt_eq (n : Int) : (NumOps.ofInt n : α) = (n : α) := LawfulNumOps.ofInt_eq n

@[simp] theorem lt_eq (a b : α) : NumOps.lt a b = decide (a < b) := by
  by_cases h : a < b
  · simp [h, (LawfulNumOps.lt_iff a b).mpr h]
  · have : NumOps.lt a b = false := by
      cases hh : NumOps.lt a b with
      | false => rfl
      | true => exact absurd ((LawfulNumOps.lt_iff a b).mp hh) h
    simp [h, this]

@[simp] theorem le_eq (a b : α) : NumOps.le a b = decide (a ≤ b) := by
  by_cases h : a ≤ b
  · simp [h, (LawfulNumOps.le_iff a b).mpr h]
  · have : NumOps.le a b = false := by
      cases hh : NumOps.le a b with
      | false => rfl
      | true => exact absurd ((LawfulNumOps.le_iff a b).mp hh) h
    simp [h, this]

@[simp] theorem beq_eq (a b : α) : NumOps.beq a b = decide (a = b) := by
  by_cases h : a = b
  · simp [h, (LawfulNumOps.beq_iff b b).mpr rfl]
  · have : NumOps.beq a b = false := by
      cases hh : NumOps.beq a b with
      | false => rfl
      | true => exact absurd ((LawfulNumOps.beq_iff a b).mp hh) h
    simp [h, this]

@[simp] theorem abs_eq' (a : α) : NumOps.abs a = |a| := LawfulNumOps.abs_eq a
@[simp] theorem floorI_eq (a : α) : NumOps.floorI a = ⌊a⌋ := LawfulNumOps.floorI_eq a
@[simp] theorem ceilI_eq (a : α) : NumOps.ceilI a = ⌈a⌉ := LawfulNumOps.ceilI_eq a
theorem tiny_nonneg : (0 : α) ≤ NumOps.tiny := LawfulNumOps.tiny_nonneg

@[simp] theorem zero_eq : (Num.zero : α) = 0 := by simp [Num.zero]
@[simp] theorem one_eq : (Num.one : α) = 1 := by simp [Num.one]

end

/-- The canonical lawful instance on any linear ordered field with a floor (used for non-vacuity
examples; the theorems themselves hold for every lawful instance, this one included). -/
@[reducible] noncomputable def fieldNumOps (α : Type) [Field α] [LinearOrder α] [FloorRing α] : NumOps α where
  ofInt n := (n : α)
  lt a b := decide (a < b)
  le a b := decide (a ≤ b)
  beq a b := decide (a = b)
  abs a := |a|
  floorI a := ⌊a⌋
  ceilI a := ⌈a⌉
  tiny := 1 / 100000000
  round2 a :=
    let x := a * 100
    let f := ⌊x⌋
    let d := x - (f : α)
    let half : α := ((1 : Int) : α) / ((2 : Int) : α)
    let r : Int := if decide (d < half) = true then f else if decide (half < d) = true then f + 1
                   else if f % 2 = 0 then f else f + 1
    (r : α) / 100

theorem fieldNumOps_lawful (α : Type) [Field α] [LinearOrder α] [IsStrictOrderedRing α] [FloorRing α] :
    @LawfulNumOps α _ _ _ _ (fieldNumOps α) :=
  @LawfulNumOps.mk α _ _ _ _ (fieldNumOps α)
    (fun _ => rfl)
    (fun a b => by show decide (a < b) = true ↔ a < b; simp)
    (fun a b => by show decide (a ≤ b) = true ↔ a ≤ b; simp)
    (fun a b => by show decide (a = b) = true ↔ a = b; simp)
    (fun _ => rfl) (fun _ => rfl) (fun _ => rfl)
    (by show (0 : α) ≤ 1 / 100000000; positivity)
    (fun a => by
      show _ = ((@Num.roundHalfEvenI α _ _ (fieldNumOps α) (a * 100) : Int) : α) / 100
      rfl)
