import QsProofs.Lemmas.Broker
import QsProofs.Lemmas.BrokerObs
import Mathlib.Data.Rat.Floor
import Mathlib.Tactic.NormNum

/-!
# C01 — Cash is conserved across master account, portfolios and fills

All theorems are about `Qs.step` / `Qs.run` of `QsModel/Broker.lean`, for every finite list of ops, any
number of portfolios and any fee model, starting from any well-formed broker state

  `WF_c01 b := UniqueIds b ∧ ∀ e ∈ b.entries, PfLedger e.pf`

(portfolio ids pairwise distinct; every portfolio's history consistent with its cash).  `Broker.new`
produces such a state (`C01_new_wf`).  Definitions used in the statements (all in
`QsProofs/Lemmas/Broker.lean`, `QsProofs/Lemmas/BrokerObs.lean`):

* `signedAmount e` : `+rawAmount` for a subscription, `-rawAmount` for a withdrawal or an asset transaction;
  `histSum h = Σ e ∈ h, signedAmount e`;
* `EventOK e` : cents fields are `round2` of the raw ones, in the documented column (`C01_eventOK_iff`);
* `PfLedger p` : `p.cash = histSum p.history`, and for each index `i`,
  `history[i].rawBalance = histSum (history.take (i+1))` and `EventOK history[i]`;
* `fillsIn log pid` : the transactions of `log` for portfolio `pid`, in order; `isTxnEv` : asset-transaction events;
* `total b = b.master + Σ_p cash p`; `extFlow b op` / `flows b ops` : external flow of a step / along a run;
* `cashView b = (master, [(id, cash) per portfolio])`.

What is proved (all at full strength, no `_partial`):
* `C01_history_ledger`   — `WF_c01` is invariant along every run; unpacked form per portfolio and index.
* `C01_fills_in_history` — asset-transaction events ↔ `fillLog` entries of the portfolio, one-to-one in order
                           (invariant `FillsOK`), and `C01_history_grows` (per step) /
                           `C01_history_grows_run` (per run): histories only grow, by exactly one event per
                           accepted transfer op and per logged fill.
* `C01_zero_sum`         — `total (run b ops) = total b + Σ flows`; `C01_extFlow_table` spells the flow out per op;
                           `C01_transfer_between_accounts` : `subPf`/`wdPf` move `a` between master and that one
                           portfolio and nothing else.
* `C01_only_these`       — refused ops, `create`, `submit`, `setClock`, `applyMark`, the marking part of `update`
                           (and a whole `update` while the exchange is closed) change no cash balance.
* `C01_totals`           — account totals are the sums of the per-portfolio figures.
-/

set_option linter.unusedSectionVars false

namespace Qs
open NumOps Num

section
variable {α : Type} [Field α] [LinearOrder α] [IsStrictOrderedRing α] [FloorRing α] [NumOps α]
  [LawfulNumOps α]

/-! ## Well-formed start states -/

/-- A freshly constructed broker is well formed (and its fill log is consistent with its histories). -/
theorem C01_new_wf {t : Int} {funds : α} {fee : FeeModel α} {b : Broker α}
    (h : Broker.new t funds fee = .ok b) : WF_c01 b ∧ FillsOK b :=
  ⟨(new_inv h).1, (new_inv h).2.1⟩

/-- `EventOK` spelled out: documented placement of the rounded amounts. -/
theorem C01_eventOK_iff (e : Event α) :
    EventOK e ↔
      e.balance = round2 e.rawBalance ∧
      (e.kind = .subscription → e.credit = round2 e.rawAmount ∧ e.debit = 0) ∧
      (e.kind = .withdrawal → e.debit = round2 e.rawAmount ∧ e.credit = 0) ∧
      (e.kind = .assetTransaction → 0 ≤ e.qty →
        e.long = true ∧ e.debit = round2 e.rawAmount ∧ e.credit = 0) ∧
      (e.kind = .assetTransaction → e.qty < 0 →
        e.long = false ∧ e.credit = -(round2 e.rawAmount) ∧ e.debit = 0) := by
  unfold EventOK
  cases e.kind <;> simp

/-- `signedAmount` spelled out. -/
theorem C01_signedAmount (e : Event α) :
    signedAmount e = if e.kind = .subscription then e.rawAmount else -e.rawAmount := by
  unfold signedAmount
  cases e.kind <;> simp

/-! ## C01_history_ledger -/

/-- **C01 (ledger).** Along every run from a well-formed state the state stays well formed, i.e. for every
portfolio `p` of the reached state: `p.cash = Σ e ∈ p.history, signedAmount e`; every event's
`rawBalance` is the running sum up to and including it; its cents fields are `round2` of the raw values
in the documented column (`EventOK`). -/
theorem C01_history_ledger (b : Broker α) (hw : WF_c01 b) (ops : List (Op α)) :
    WF_c01 (run b ops) ∧
    ∀ e ∈ (run b ops).entries,
      e.pf.cash = histSum e.pf.history ∧
      ∀ i (hi : i < e.pf.history.length),
        e.pf.history[i].rawBalance = histSum (e.pf.history.take (i + 1)) ∧
        e.pf.history[i].balance = round2 e.pf.history[i].rawBalance ∧
        EventOK e.pf.history[i] := by
  have h := run_wf_c01 b ops hw
  refine ⟨h, fun e he => ⟨(h.2 e he).1, fun i hi => ?_⟩⟩
  have := (h.2 e he).2 i hi
  exact ⟨this.1, this.2.1, this.2⟩

/-- the same from `Broker.new` -/
theorem C01_history_ledger_new {t : Int} {funds : α} {fee : FeeModel α} {b : Broker α}
    (h : Broker.new t funds fee = .ok b) (ops : List (Op α)) :
    ∀ e ∈ (run b ops).entries, PfLedger e.pf :=
  (run_wf_c01 b ops (new_inv h).1).2

/-! ## C01_fills_in_history -/

theorem map_eq_map_iff_forall₂ {β γ δ : Type} (f : β → δ) (g : γ → δ) (l : List β) (l' : List γ) :
    l.map f = l'.map g ↔ List.Forall₂ (fun x y => f x = g y) l l' := by
  rw [← List.forall₂_eq_eq_eq, List.forall₂_map_left_iff, List.forall₂_map_right_iff]

/-- **C01 (fills ↔ history).** Along every run (from a state whose log is consistent, e.g. a new broker) the
asset-transaction events of each portfolio's history correspond one-to-one, in order, to the `fillLog`
entries of that portfolio: same time, quantity, asset, and `rawAmount = price * qty + commission`. -/
theorem C01_fills_in_history (b : Broker α) (hu : UniqueIds b) (hf : FillsOK b) (ops : List (Op α)) :
    ∀ e ∈ (run b ops).entries,
      List.Forall₂
        (fun (ev : Event α) (t : Txn α) =>
          ev.time = t.time ∧ ev.qty = t.qty ∧ ev.asset = t.asset ∧
          ev.rawAmount = t.price * (t.qty : α) + t.commission)
        (e.pf.history.filter isTxnEv) (fillsIn (run b ops).fillLog e.pf.id) := by
  intro e he
  have := (run_fillsOK b ops hu hf).2 e he
  rw [map_eq_map_iff_forall₂] at this
  refine this.imp ?_
  intro ev t h
  simpa [evKey, txnKey] using h

/-- every logged fill belongs to an existing portfolio -/
theorem C01_fills_have_portfolio (b : Broker α) (hu : UniqueIds b) (hf : FillsOK b) (ops : List (Op α)) :
    ∀ x ∈ (run b ops).fillLog, (run b ops).has x.1 = true :=
  (run_fillsOK b ops hu hf).1

/-- **C01 (history only grows, one event per accepted op).** One step of any op: every portfolio is still
there (same id), its history is the old one followed by new events `ev`; the asset-transaction events
among `ev` are exactly the fills this step logged for it, and the other events number `xferCount`
(1 for an accepted `subPf`/`wdPf`/`pfSubscribe`/`pfWithdraw` aimed at it, otherwise 0). -/
theorem C01_history_grows (b : Broker α) (hu : UniqueIds b) (op : Op α) :
    (step b op).1.fillLog = b.fillLog ++ newFills b op ∧
    ∀ e ∈ b.entries, ∃ e' ∈ (step b op).1.entries, e'.pf.id = e.pf.id ∧
      ∃ ev, e'.pf.history = e.pf.history ++ ev ∧
        (ev.filter isTxnEv).map evKey = (fillsIn (newFills b op) e.pf.id).map txnKey ∧
        (ev.filter (fun x => !isTxnEv x)).length = xferCount op (step b op).2 e.pf.id ∧
        ev.length = xferCount op (step b op).2 e.pf.id + (fillsIn (newFills b op) e.pf.id).length := by
  have hfl := step_fillLog b op hu
  refine ⟨hfl, ?_⟩
  intro e he
  by_cases hc : ∀ pid, op ≠ .create pid
  · obtain ⟨nf, h1, -, hall⟩ := step_ext b op hu hc
    have hnf : nf = newFills b op := List.append_cancel_left (h1.symm.trans hfl)
    subst hnf
    obtain ⟨e', he', hr⟩ := forall₂_mem_left_c01 hall he
    obtain ⟨ev, k1, -, -, k4, k5⟩ := hr.hist
    refine ⟨e', he', hr.id, ev, k1, k4, k5, ?_⟩
    have := List.length_eq_length_filter_add (l := ev) isTxnEv
    rw [this, k5, add_comm]
    congr 1
    have := congrArg List.length k4
    simpa using this
  · push Not at hc
    obtain ⟨pid, rfl⟩ := hc
    have hnf : newFills b (.create pid) = [] := newFills_other b _ (by simp) (by simp)
    refine ⟨e, ?_, rfl, [], by simp, by simp [hnf, fillsIn], by simp [xferCount], by simp [xferCount, hnf, fillsIn]⟩
    simp only [step]
    obtain ⟨-, -, ⟨-, -, h⟩ | ⟨-, -, h⟩⟩ := create_entries b pid <;> rw [h]
    · exact he
    · exact List.mem_append_left _ he

/-- which fills a single op logs: `applyTxn` logs its transaction iff it is accepted; no other op except
`update` logs anything -/
theorem C01_newFills (b : Broker α) :
    (∀ pid t, newFills b (.applyTxn pid t) =
        match (step b (.applyTxn pid t)).2 with | none => [(pid, t)] | some _ => []) ∧
    (∀ op, (∀ pid t, op ≠ .applyTxn pid t) → (∀ t q, op ≠ .update t q) → newFills b op = []) := by
  refine ⟨fun pid t => ?_, fun op h1 h2 => newFills_other b op h1 h2⟩
  rw [newFills_applyTxn]
  cases (step b (.applyTxn pid t)).2 <;> rfl

/-! ## C01_zero_sum -/

/-- **C01 (zero-sum).** Along any run, `master + Σ_p cash p` changes by exactly the external flows:
`+a` / `−a` for an accepted `subAcct` / `wdAcct`, `+a` / `−a` for an accepted direct `pfSubscribe` /
`pfWithdraw`, `−(price * qty + commission)` for every logged fill; `subPf` / `wdPf` contribute `0`. -/
theorem C01_zero_sum (b : Broker α) (hu : UniqueIds b) (ops : List (Op α)) :
    (run b ops).master + cashSum (run b ops) = b.master + cashSum b + (flows b ops).sum :=
  run_zero_sum b ops hu

/-- the external flow of each op, spelled out -/
theorem C01_extFlow_table (b : Broker α) :
    (∀ a, extFlow b (.subAcct a) = match (step b (.subAcct a)).2 with | none => a | some _ => 0) ∧
    (∀ a, extFlow b (.wdAcct a) = match (step b (.wdAcct a)).2 with | none => -a | some _ => 0) ∧
    (∀ pid t a, extFlow b (.pfSubscribe pid t a) =
        match (step b (.pfSubscribe pid t a)).2 with | none => a | some _ => 0) ∧
    (∀ pid t a, extFlow b (.pfWithdraw pid t a) =
        match (step b (.pfWithdraw pid t a)).2 with | none => -a | some _ => 0) ∧
    (∀ pid t, extFlow b (.applyTxn pid t) =
        match (step b (.applyTxn pid t)).2 with
        | none => -(t.price * (t.qty : α) + t.commission) | some _ => 0) ∧
    (∀ pid a, extFlow b (.subPf pid a) = 0) ∧ (∀ pid a, extFlow b (.wdPf pid a) = 0) ∧
    (∀ pid, extFlow b (.create pid) = 0) ∧ (∀ pid o, extFlow b (.submit pid o) = 0) ∧
    (∀ t, extFlow b (.setClock t) = 0) ∧ (∀ pid a p t, extFlow b (.applyMark pid a p t) = 0) ∧
    (∀ t q, extFlow b (.update t q) =
        -((newFills b (.update t q)).map (fun x => x.2.price * (x.2.qty : α) + x.2.commission)).sum) := by
  refine ⟨?_, ?_, ?_, ?_, ?_, ?_, ?_, ?_, ?_, ?_, ?_, ?_⟩
  · intro a
    simp only [extFlow, newFills_other b (.subAcct a) (by simp) (by simp)]
    cases (step b (.subAcct a)).2 <;> simp [transferFlow]
  · intro a
    simp only [extFlow, newFills_other b (.wdAcct a) (by simp) (by simp)]
    cases (step b (.wdAcct a)).2 <;> simp [transferFlow]
  · intro pid t a
    simp only [extFlow, newFills_other b (.pfSubscribe pid t a) (by simp) (by simp)]
    cases (step b (.pfSubscribe pid t a)).2 <;> simp [transferFlow]
  · intro pid t a
    simp only [extFlow, newFills_other b (.pfWithdraw pid t a) (by simp) (by simp)]
    cases (step b (.pfWithdraw pid t a)).2 <;> simp [transferFlow]
  · intro pid t
    simp only [extFlow, newFills_applyTxn]
    cases (step b (.applyTxn pid t)).2 <;> simp [transferFlow, okFill, fillCost]
  · intro pid a; simp [extFlow, newFills_other b (.subPf pid a) (by simp) (by simp), transferFlow]
  · intro pid a; simp [extFlow, newFills_other b (.wdPf pid a) (by simp) (by simp), transferFlow]
  · intro pid; simp [extFlow, newFills_other b (.create pid) (by simp) (by simp), transferFlow]
  · intro pid o; simp [extFlow, newFills_other b (.submit pid o) (by simp) (by simp), transferFlow]
  · intro t; simp [extFlow, newFills_other b (.setClock t) (by simp) (by simp), transferFlow]
  · intro pid a p t
    simp [extFlow, newFills_other b (.applyMark pid a p t) (by simp) (by simp), transferFlow]
  · intro t q
    simp only [extFlow, transferFlow, zero_sub]
    rfl

theorem cashView_setPf_move {b : Broker α} {pid : String} {e : PfEntry α} (hu : UniqueIds b)
    (hf : b.find? pid = some e) (p : Portfolio α) (hid : p.id = e.pf.id) (d : α)
    (hc : p.cash = e.pf.cash + d) (b' : Broker α) (he : b'.entries = (b.setPf p).entries) :
    cashView b' =
      (b'.master, (cashView b).2.map (fun x => if x.1 = pid then (x.1, x.2 + d) else x)) := by
  have hpid := (find?_spec hf).2
  obtain ⟨l1, l2, hl, hl', h1, h2, -⟩ := setPf_split hu hf p (hid.trans hpid)
  have hsame : ∀ l : List (PfEntry α), (∀ x ∈ l, x.pf.id ≠ pid) →
      (l.map (fun e => (e.pf.id, e.pf.cash))).map (fun x => if x.1 = pid then (x.1, x.2 + d) else x) =
        l.map (fun e => (e.pf.id, e.pf.cash)) := by
    intro l hl
    rw [List.map_map]
    apply List.map_congr_left
    intro x hx
    simp [hl x hx]
  unfold cashView
  rw [he, hl, hl']
  simp only [List.map_append, List.map_cons, hsame l1 h1, hsame l2 h2, hid, hc, hpid, if_true]

/-- **C01 (transfers are zero-sum between the two accounts).** An accepted `subPf pid a` takes `a` from the
master account and adds `a` to portfolio `pid`'s cash; an accepted `wdPf pid a` does the reverse; no other
balance moves. -/
theorem C01_transfer_between_accounts (b : Broker α) (hu : UniqueIds b) (pid : String) (a : α) :
    ((step b (.subPf pid a)).2 = none →
      cashView (step b (.subPf pid a)).1 =
        (b.master - a, (cashView b).2.map (fun x => if x.1 = pid then (x.1, x.2 + a) else x))) ∧
    ((step b (.wdPf pid a)).2 = none →
      cashView (step b (.wdPf pid a)).1 =
        (b.master + a, (cashView b).2.map (fun x => if x.1 = pid then (x.1, x.2 - a) else x))) := by
  constructor
  · intro h
    simp only [step] at h ⊢
    unfold Broker.subscribePortfolio at h ⊢
    split
    · rename_i h1; rw [if_pos h1] at h; cases h
    · rename_i h1; rw [if_neg h1] at h
      split
      · rename_i hf; rw [hf] at h; cases h
      · rename_i en hf
        rw [hf] at h
        simp only at h
        split
        · rename_i h2; rw [if_pos h2] at h; cases h
        · rename_i h2; rw [if_neg h2] at h
          obtain ⟨p', ⟨h', -⟩ | ⟨h', -, -, hid, hc, -⟩⟩ := subscribe_cases en.pf b.clock a <;>
            rw [h'] at h ⊢ <;> simp only at h ⊢
          · cases h
          · exact cashView_setPf_move hu hf p' hid a hc _ rfl
  · intro h
    simp only [step] at h ⊢
    unfold Broker.withdrawPortfolio at h ⊢
    split
    · rename_i h1; rw [if_pos h1] at h; cases h
    · rename_i h1; rw [if_neg h1] at h
      split
      · rename_i hf; rw [hf] at h; cases h
      · rename_i en hf
        rw [hf] at h
        simp only at h
        split
        · rename_i h2; rw [if_pos h2] at h; cases h
        · rename_i h2; rw [if_neg h2] at h
          obtain ⟨p', ⟨h', -⟩ | ⟨h', -, -, -, hid, hc, -⟩⟩ := withdraw_cases en.pf b.clock a <;>
            rw [h'] at h ⊢ <;> simp only at h ⊢
          · cases h
          · have := cashView_setPf_move hu hf p' hid (-a) (by rw [hc]; ring)
              { (b.setPf p') with master := b.master + a } rfl
            simpa [sub_eq_add_neg] using this

/-! ## C01_only_these -/

/-- **C01 (nothing else moves cash).**
1. an op other than `update` whose outcome is an error changes no cash balance;
2. `create pid` changes no existing balance; if accepted the new portfolio has cash `0`;
3. `submit`, `setClock`, `applyMark` never change a cash balance;
4. the marking part of `update` (`marked`: set the clock, mark every held asset) changes no cash balance;
   `update` is `marked` followed — only if the marks succeeded and the exchange is open — by the fills
   (`update_eq_c01`), so an `update` whose marks are refused or at a closed exchange changes no cash balance.
(A refused `update` at an open exchange may have executed some fills before the refusal: those are logged
in `fillLog` and accounted for by `C01_zero_sum`.) -/
theorem C01_only_these (b : Broker α) (hu : UniqueIds b) :
    (∀ op e, (∀ t q, op ≠ .update t q) → (step b op).2 = some e →
        cashView (step b op).1 = cashView b) ∧
    (∀ pid, cashView (step b (.create pid)).1 =
        if b.has pid then cashView b else (b.master, (cashView b).2 ++ [(pid, 0)])) ∧
    (∀ pid o, cashView (step b (.submit pid o)).1 = cashView b) ∧
    (∀ t, cashView (step b (.setClock t)).1 = cashView b) ∧
    (∀ pid a p t, cashView (step b (.applyMark pid a p t)).1 = cashView b) ∧
    (∀ t q, cashView (marked b t q).1 = cashView b) ∧
    (∀ t q, (marked b t q).2 ≠ none ∨ isOpen t = false →
        cashView (step b (.update t q)).1 = cashView b) :=
  ⟨fun op _ hnu h => step_err_cashView b op hu hnu h,
   fun pid => create_cashView b pid,
   fun pid o => submit_cashView b pid o hu,
   fun _ => rfl,
   fun pid a p t => applyMark_cashView b pid a p t hu,
   fun t q => (marked_cashView b t q hu).2,
   fun t q h => update_closed_cashView b t q hu h⟩

/-! ## C01_totals -/

/-- **C01 (account totals).** Total equity / total market value of the account are defined for every state
(total functions) and equal the sum of the per-portfolio figures; the per-portfolio list is exactly
`(id, figure)` for each portfolio in order.  Moreover total equity = total market value + all portfolio cash. -/
theorem C01_totals (σ : Broker α) :
    σ.accountTotalEquity.1 = σ.entries.map (fun e => (e.pf.id, e.pf.totalEquity)) ∧
    σ.accountTotalEquity.2 = (σ.entries.map (fun e => e.pf.totalEquity)).sum ∧
    σ.accountTotalMarketValue.1 = σ.entries.map (fun e => (e.pf.id, e.pf.totalMarketValue)) ∧
    σ.accountTotalMarketValue.2 = (σ.entries.map (fun e => e.pf.totalMarketValue)).sum ∧
    σ.accountTotalEquity.2 = σ.accountTotalMarketValue.2 + cashSum σ := by
  have h1 : σ.accountTotalEquity.2 = (σ.entries.map (fun e => e.pf.totalEquity)).sum := by
    simp [Broker.accountTotalEquity, sumNaive_eq_sum, List.map_map, Function.comp_def]
  have h2 : σ.accountTotalMarketValue.2 = (σ.entries.map (fun e => e.pf.totalMarketValue)).sum := by
    simp [Broker.accountTotalMarketValue, sumNaive_eq_sum, List.map_map, Function.comp_def]
  refine ⟨rfl, h1, rfl, h2, ?_⟩
  rw [h1, h2]
  unfold cashSum Portfolio.totalEquity
  induction σ.entries with
  | nil => simp
  | cons x xs ih => simp only [List.map_cons, List.sum_cons, ih]; ring

/-! ## history growth along a run -/

/-- number of transfer events a run appends to portfolio `id` (one per accepted transfer aimed at it) -/
def xfers (b : Broker α) : List (Op α) → String → Nat
  | [], _ => 0
  | o :: os, id => xferCount o (step b o).2 id + xfers (step b o).1 os id

/-- **C01 (history only grows), run form.** Along any run the fill log and every history only grow; the
asset-transaction events appended to a portfolio are exactly the fills logged for it during the run, in
order, and the other appended events number one per accepted transfer op aimed at it. -/
theorem C01_history_grows_run (b : Broker α) (hu : UniqueIds b) (ops : List (Op α)) :
    ∃ nf, (run b ops).fillLog = b.fillLog ++ nf ∧
      ∀ e ∈ b.entries, ∃ e' ∈ (run b ops).entries, e'.pf.id = e.pf.id ∧
        ∃ ev, e'.pf.history = e.pf.history ++ ev ∧
          (ev.filter isTxnEv).map evKey = (fillsIn nf e.pf.id).map txnKey ∧
          (ev.filter (fun x => !isTxnEv x)).length = xfers b ops e.pf.id := by
  induction ops generalizing b with
  | nil => exact ⟨[], by simp [run], fun e he => ⟨e, he, rfl, [], by simp, by simp [fillsIn], rfl⟩⟩
  | cons o os ih =>
    obtain ⟨h1, hstep⟩ := C01_history_grows b hu o
    obtain ⟨nf2, h2, hrun⟩ := ih (step b o).1 (step_total b o hu).1
    refine ⟨newFills b o ++ nf2, by simp only [run]; rw [h2, h1, List.append_assoc], ?_⟩
    intro e he
    obtain ⟨e', he', hid', ev1, k1, k2, k3, -⟩ := hstep e he
    obtain ⟨e'', he'', hid'', ev2, j1, j2, j3⟩ := hrun e' he'
    refine ⟨e'', he'', hid''.trans hid', ev1 ++ ev2, ?_, ?_, ?_⟩
    · rw [j1, k1, List.append_assoc]
    · rw [List.filter_append, List.map_append, fillsIn_append, List.map_append, k2, j2, hid']
    · rw [List.filter_append, List.length_append, k3, j3, hid']; rfl

end
end Qs

/-! ## Non-vacuity: a concrete run at `α := ℚ`

Two portfolios, a short sale opened from flat (`X`, −10), a flip through zero (+15), a purchase driving the
cash negative, and a refused over-withdrawal.  `fieldNumOps ℚ` is the lawful carrier instance of
`QsProofs/Inst.lean` (it takes priority here over the driver's unverified `NumOps Rat`). -/

namespace Qs.C01Example
open Qs NumOps Num

noncomputable local instance (priority := high) ratOps : NumOps ℚ := fieldNumOps ℚ
local instance : LawfulNumOps ℚ := fieldNumOps_lawful ℚ

noncomputable def b0 : Broker ℚ := { clock := 0, master := 1000, fee := .zero }

noncomputable def ops : List (Op ℚ) :=
  [ .create "A", .create "B", .subPf "A" 500, .subPf "B" 100,
    .applyTxn "A" { asset := "X", qty := -10, time := 1, price := 10, commission := 1 },
    .applyTxn "A" { asset := "X", qty := 15, time := 2, price := 11, commission := 0 },
    .applyTxn "A" { asset := "Y", qty := 100, time := 3, price := 100, commission := 0 },
    .wdPf "B" 1000 ]

/-- the start state is what `Broker.new` returns, hence well formed: the hypotheses of every theorem hold -/
example : Broker.new 0 (1000 : ℚ) .zero = .ok b0 := by simp [Broker.new, b0]
example : WF_c01 b0 ∧ FillsOK b0 := C01_new_wf (t := 0) (funds := 1000) (fee := .zero) (by simp [Broker.new, b0])

/-- final balances: master 400, A = −9566 (negative cash), B = 100 -/
example : cashView (run b0 ops) = (400, [("A", -9566), ("B", 100)]) := by decide +kernel
/-- A is long 5 `X` after having been short 10 (flip through zero), and long 100 `Y` -/
example : (run b0 ops).entries.map (fun e => (e.pf.id, e.pf.positions.map (fun p => (p.asset, p.net)))) =
    [("A", [("X", 5), ("Y", 100)]), ("B", [])] := by decide +kernel
/-- the external flows: only the three fills; the last op is refused -/
example : flows b0 ops = [0, 0, 0, 0, 99, -165, -10000, 0] := by decide +kernel
example : (step (run b0 (ops.take 7)) (.wdPf "B" 1000)).2 = some .value := by decide +kernel
/-- `C01_zero_sum` on this run: 400 + (−9566 + 100) = 1000 + 0 + (99 − 165 − 10000) -/
example : (run b0 ops).master + cashSum (run b0 ops) = 1000 + 0 + (99 - 165 - 10000) := by
  have h := C01_zero_sum b0 (new_inv (t := 0) (funds := (1000 : ℚ)) (fee := .zero)
    (by simp [Broker.new, b0])).1.1 ops
  rw [h]; decide +kernel
/-- the histories: kind, LONG?, debit, credit, balance (the short sale is a credit of 99) -/
example : (run b0 ops).entries.map
      (fun e => e.pf.history.map (fun ev => (ev.kind, ev.long, ev.debit, ev.credit, ev.balance))) =
    [[(.subscription, true, 0, 500, 500), (.assetTransaction, false, 0, 99, 599),
      (.assetTransaction, true, 165, 0, 434), (.assetTransaction, true, 10000, 0, -9566)],
     [(.subscription, true, 0, 100, 100)]] := by decide +kernel
/-- the fill log: three fills, all of portfolio A -/
example : (run b0 ops).fillLog.map (fun x => (x.1, x.2.asset, x.2.qty)) =
    [("A", "X", -10), ("A", "X", 15), ("A", "Y", 100)] := by decide +kernel
/-- account totals (`C01_totals`): equity = market value + cash -/
example : (run b0 ops).accountTotalEquity.2 = (5 * 11 + 100 * 100) + (-9566 + 100) := by
  rw [(C01_totals (run b0 ops)).2.1]; decide +kernel

/-- Why clause 1 of `C01_only_these` excludes `update`: a refused `update` at an open exchange may already have
executed fills.  Two buy orders are pending, the first asset has a quote, the second has none: the first
order is filled (cash −11), then the missing quote raises `ValueError`.  The fill is in `fillLog` and is
accounted for by `C01_zero_sum` (`extFlow` of the `update` is −11). -/
noncomputable def quotes : Quotes ℚ := fun a => if a = "X" then some (10, 11) else none
noncomputable def σq : Broker ℚ :=
  run b0 (ops ++ [.submit "A" { id := 1, asset := "X", qty := 1 }, .submit "A" { id := 2, asset := "Z", qty := 1 }])

example : isOpen 54000 = true := by decide
example : (step σq (.update 54000 quotes)).2 = some .value := by decide +kernel
example : cashView σq = (400, [("A", -9566), ("B", 100)]) := by decide +kernel
example : cashView (step σq (.update 54000 quotes)).1 = (400, [("A", -9577), ("B", 100)]) := by
  decide +kernel
example : extFlow σq (.update 54000 quotes) = -11 := by decide +kernel

end Qs.C01Example
