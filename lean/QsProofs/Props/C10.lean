import QsProofs.Lemmas.Sizer
import Mathlib.Data.Rat.Floor
import Mathlib.Tactic.NormNum

/-!
# C10 — Long-only sizing never budgets more than the cash-buffered equity

For any non-negative weights, positive prices, positive equity, cash buffer in [0,1] and fee rates, each
target quantity is a non-negative whole number whose cost plus estimated fees at the sizing price does
not exceed the asset's normalised share of (1 − buffer) × equity while one more share would, so the whole
target costs at most (1 − buffer) × equity.  A negative weight, a buffer outside [0,1] or an unavailable
(NaN) price is rejected with an error, and all-zero weights give an all-zero target.

All theorems are about `Qs.dwSize`, `Qs.dwCheckBuffer` of `QsModel/Sizer.lean`.

Notation: `S = Σ wᵢ` is `(w.map (·.2)).sum`; the allocation of asset `a` with weight `wa` is
`A = E * (1 - b) * (wa / S)`; the total fee rate is `feeRate fee` (`c + τ` for `FeeModel.percent c τ`, `0` for
`FeeModel.zero`; `QsProofs/Lemmas/Sizer.lean`, `totalCost_eq : fee.totalCost x = feeRate fee * |x|`);
`FeeNonneg fee` says both rates are `≥ 0`.  A NaN price is `price a = none`.

Two hypotheses are forced by the proofs and are known findings about the real code:
* `tiny < S` (`np.isclose(S, 0)` is false).  With `0 < S ≤ tiny` the weights are used unnormalised:
  `C10_floor_fails_tiny_sum`.
* `feeRate fee ≤ 1`.  With a total fee rate above 100 % the quantity is negative: `C10_neg_qty_fee_gt_one`.

`C10_floor` needs neither `0 ≤ b` nor non-negative fee rates (only `b ≤ 1`, `feeRate fee ≤ 1`); `C10_budget`
needs `0 ≤ feeRate fee` in addition.  `dwSize` itself never looks at the sign of `b`: the range check is
`dwCheckBuffer` (constructor time), see `C10_reject_buffer`.
-/

set_option linter.unusedSectionVars false

namespace Qs
open NumOps Num

section
variable {α : Type} [Field α] [LinearOrder α] [IsStrictOrderedRing α] [FloorRing α] [NumOps α] [LawfulNumOps α]

/-- C10 (floor): every target quantity is the largest non-negative whole number whose cost plus the fee
estimate fits the asset's normalised share of the buffered equity. -/
theorem C10_floor (fee : FeeModel α) (E b : α) (price : String → Option α) (w : Weights α) (q : Quantities)
    (hw : ∀ x ∈ w, 0 ≤ x.2) (hnd : (w.map (·.1)).Nodup)
    (hp : ∀ a p, price a = some p → 0 < p) (hE : 0 < E) (hb1 : b ≤ 1)
    (hf1 : feeRate fee ≤ 1) (hS : tiny < (w.map (·.2)).sum)
    (hq : dwSize fee E b price w = .ok q) :
    ∀ a qa, (a, qa) ∈ q → ∀ wa pa, (a, wa) ∈ w → price a = some pa →
      let A := E * (1 - b) * (wa / (w.map (·.2)).sum)
      0 ≤ qa ∧ (qa : α) * pa + feeRate fee * A ≤ A ∧ A < ((qa : α) + 1) * pa + feeRate fee * A := by
  intro a qa hm wa pa hwa hpa
  have hSpos : 0 < (w.map (·.2)).sum := lt_of_le_of_lt tiny_nonneg hS
  rw [dwSize_mem fee E b price w q hw hnd hS hq hm hwa hpa]
  exact dwQuantity_spec fee (E * (1 - b)) _ pa
    (mul_nonneg (mul_nonneg hE.le (sub_nonneg.mpr hb1)) (div_nonneg (hw _ hwa) hSpos.le))
    (hp _ pa hpa) hf1

/-- C10 (budget): the whole target costs at most `(1 − buffer) × equity` at the sizing prices. -/
theorem C10_budget (fee : FeeModel α) (E b : α) (price : String → Option α) (w : Weights α) (q : Quantities)
    (hw : ∀ x ∈ w, 0 ≤ x.2)
    (hp : ∀ a p, price a = some p → 0 < p) (hE : 0 < E) (hb1 : b ≤ 1)
    (hfee : FeeNonneg fee) (hf1 : feeRate fee ≤ 1) (hS : tiny < (w.map (·.2)).sum)
    (hq : dwSize fee E b price w = .ok q) :
    (q.map fun x => (x.2 : α) * (price x.1).getD 0).sum ≤ (1 - b) * E := by
  have hne : w ≠ [] := by rintro rfl; simp at hS; exact absurd hS (not_lt.mpr tiny_nonneg)
  have hSpos : 0 < (w.map (·.2)).sum := lt_of_le_of_lt tiny_nonneg hS
  have hB : 0 ≤ E * (1 - b) := mul_nonneg hE.le (sub_nonneg.mpr hb1)
  rcases dwSize_cases fee E b price w hne hw with ⟨h1, h2⟩ | ⟨_, h2⟩
  · rw [h2] at hq; cases hq
    rw [List.map_map]
    have hle : ((sortByKey (dwNorm w)).map ((fun x : String × Int => (x.2 : α) * (price x.1).getD 0) ∘
        fun x => (x.1, dwQuantity fee (E * (1 - b)) x.2 ((price x.1).getD 0)))).sum ≤
        ((sortByKey (dwNorm w)).map fun x => E * (1 - b) * x.2).sum := by
      apply List.sum_le_sum
      rintro ⟨k, v⟩ hx
      have hv := mem_sortByKey.mp hx
      rw [dwNorm_of_tiny_lt w hS] at hv
      obtain ⟨⟨k', wa⟩, hy, e⟩ := List.mem_map.mp hv
      obtain ⟨rfl, rfl⟩ := Prod.mk.inj e
      obtain ⟨pa, hpa⟩ := h1 _ hy
      simp only [] at hpa
      simp only [Function.comp, hpa, Option.getD_some]
      have hA : 0 ≤ E * (1 - b) * (wa / (w.map (·.2)).sum) :=
        mul_nonneg hB (div_nonneg (hw _ hy) hSpos.le)
      have := (dwQuantity_spec fee (E * (1 - b)) (wa / (w.map (·.2)).sum) pa hA (hp _ pa hpa) hf1).2.1
      have := mul_nonneg (feeRate_nonneg hfee) hA
      linarith
    have hperm : ((sortByKey (dwNorm w)).map fun x => E * (1 - b) * x.2).sum =
        ((dwNorm w).map fun x => E * (1 - b) * x.2).sum := ((sortByKey_perm _).map _).sum_eq
    have hsum : ((dwNorm w).map fun x => E * (1 - b) * x.2).sum = E * (1 - b) := by
      rw [dwNorm_of_tiny_lt w hS, List.map_map]
      have := sum_map_mul_div w (E * (1 - b)) (w.map (·.2)).sum
      rw [div_self hSpos.ne', mul_one] at this
      exact this
    rw [hperm, hsum] at hle
    linarith
  · rw [h2] at hq; cases hq

/-! ## Rejections -/

/-- C10 (reject, negative weight): any negative weight is a `ValueError`. -/
theorem C10_reject_negative (fee : FeeModel α) (E b : α) (price : String → Option α) (w : Weights α)
    (hneg : ∃ x ∈ w, x.2 < 0) : dwSize fee E b price w = .error .value := by
  have hne : w ≠ [] := by rintro rfl; simp at hneg
  unfold dwSize
  simp only [isEmpty_false_of_ne_nil hne, Bool.false_eq_true, if_false, dwNormalise_neg w hneg]
  rfl

/-- C10 (reject, NaN price): with no negative weight, a key without a price is a `ValueError`. -/
theorem C10_reject_price (fee : FeeModel α) (E b : α) (price : String → Option α) (w : Weights α)
    (hw : ∀ x ∈ w, 0 ≤ x.2) (hmiss : ∃ x ∈ w, price x.1 = none) :
    dwSize fee E b price w = .error .value := by
  have hne : w ≠ [] := by rintro rfl; simp at hmiss
  rcases dwSize_cases fee E b price w hne hw with ⟨h1, _⟩ | ⟨_, h2⟩
  · obtain ⟨x, hx, hxn⟩ := hmiss
    obtain ⟨p, hp⟩ := h1 x hx
    rw [hxn] at hp; cases hp
  · exact h2

/-- C10 (reject, buffer): a cash buffer outside `[0, 1]` is a `ValueError`, one inside is accepted. -/
theorem C10_reject_buffer (b : α) :
    ((b < 0 ∨ 1 < b) → dwCheckBuffer b = .error .value) ∧
    (0 ≤ b → b ≤ 1 → dwCheckBuffer b = .ok b) := by
  unfold dwCheckBuffer
  simp only [lt_eq, zero_eq, one_eq, Bool.or_eq_true, decide_eq_true_eq]
  constructor
  · intro h; rw [if_pos h]
  · intro h0 h1; rw [if_neg]; rintro (h | h)
    · exact absurd h (not_lt.mpr h0)
    · exact absurd h (not_lt.mpr h1)

/-- C10 (empty): empty weights give the empty target. -/
theorem C10_empty (fee : FeeModel α) (E b : α) (price : String → Option α) :
    dwSize fee E b price [] = .ok [] := rfl

/-- C10 (reject): all rejection / degenerate clauses together. -/
theorem C10_reject (fee : FeeModel α) (E b : α) (price : String → Option α) (w : Weights α) :
    ((∃ x ∈ w, x.2 < 0) → dwSize fee E b price w = .error .value) ∧
    ((∀ x ∈ w, 0 ≤ x.2) → (∃ x ∈ w, price x.1 = none) → dwSize fee E b price w = .error .value) ∧
    ((b < 0 ∨ 1 < b) → dwCheckBuffer b = .error .value) ∧
    (0 ≤ b → b ≤ 1 → dwCheckBuffer b = .ok b) ∧
    dwSize fee E b price [] = .ok [] :=
  ⟨C10_reject_negative fee E b price w, C10_reject_price fee E b price w,
   (C10_reject_buffer b).1, (C10_reject_buffer b).2, C10_empty fee E b price⟩

/-! ## Keys and order -/

/-- C10 (keys): a successful call returns exactly the input's keys, in ascending order, one entry per
input entry; every key has a price and no weight is negative.  With pairwise-distinct input keys the
order is strictly ascending (so the key list is uniquely determined). -/
theorem C10_keys (fee : FeeModel α) (E b : α) (price : String → Option α) (w : Weights α) (q : Quantities)
    (hq : dwSize fee E b price w = .ok q) :
    (q.map (·.1)).Perm (w.map (·.1)) ∧ (q.map (·.1)).Pairwise (· ≤ ·) ∧ q.length = w.length ∧
    ((w.map (·.1)).Nodup → (q.map (·.1)).Pairwise (· < ·)) ∧
    (∀ x ∈ w, ∃ p, price x.1 = some p) ∧ (∀ x ∈ w, 0 ≤ x.2) := by
  have main : (q.map (·.1)).Perm (w.map (·.1)) ∧ (q.map (·.1)).Pairwise (· ≤ ·) ∧ q.length = w.length ∧
      (∀ x ∈ w, ∃ p, price x.1 = some p) ∧ (∀ x ∈ w, 0 ≤ x.2) := by
    by_cases hne : w = []
    · subst hne
      rw [C10_empty] at hq; cases hq
      simp
    · by_cases hw : ∀ x ∈ w, 0 ≤ x.2
      · rcases dwSize_cases fee E b price w hne hw with ⟨h1, h2⟩ | ⟨_, h2⟩
        · rw [h2] at hq; cases hq
          obtain ⟨k1, k2, k3⟩ := sized_keys w (dwNorm w) (dwNorm_keys w)
            (fun x => dwQuantity fee (E * (1 - b)) x.2 ((price x.1).getD 0))
          exact ⟨k1, k2, k3, h1, hw⟩
        · rw [h2] at hq; cases hq
      · have hneg : ∃ x ∈ w, x.2 < 0 := by
          by_contra hcon
          exact hw (fun x hx => not_lt.mp (fun h => hcon ⟨x, hx, h⟩))
        rw [C10_reject_negative fee E b price w hneg] at hq; cases hq
  obtain ⟨k1, k2, k3, k4, k5⟩ := main
  exact ⟨k1, k2, k3, fun hnd => pairwise_lt_of_le_of_nodup k2 (k1.nodup_iff.mpr hnd), k4, k5⟩

/-! ## All-zero weights -/

/-- C10 (zero): all-zero weights (every key priced) give an all-zero target.  (`S = 0` is `isclose` to zero,
the weights are used as they are, `floor(0 / p) = 0`.)  The positive-price hypothesis is the domain of the
real code (`0.0 / 0.0` is NaN there); the model's field arithmetic does not need it. -/
theorem C10_zero (fee : FeeModel α) (E b : α) (price : String → Option α) (w : Weights α)
    (h0 : ∀ x ∈ w, x.2 = 0) (hpr : ∀ x ∈ w, ∃ p, price x.1 = some p)
    (_hp : ∀ a p, price a = some p → 0 < p) :
    ∃ q, dwSize fee E b price w = .ok q ∧ (∀ x ∈ q, x.2 = 0) ∧ q.length = w.length := by
  by_cases hne : w = []
  · subst hne; exact ⟨[], rfl, by simp, rfl⟩
  · have hw : ∀ x ∈ w, 0 ≤ x.2 := fun x hx => (h0 x hx).ge
    rcases dwSize_cases fee E b price w hne hw with ⟨_, h2⟩ | ⟨⟨x, hx, hxn⟩, _⟩
    · refine ⟨_, h2, ?_, ?_⟩
      · rintro ⟨a, qa⟩ hm
        obtain ⟨v, hv, rfl⟩ := mem_sized hm
        rw [dwNorm_of_zero w h0] at hv
        have : v = 0 := h0 _ hv
        subst this
        exact dwQuantity_zero fee _ _
      · simp [dwNorm_of_zero w h0]
    · obtain ⟨p, hp⟩ := hpr x hx
      rw [hxn] at hp; cases hp

end
/-! ## Non-vacuity and negative witnesses at `ℚ` -/

section Examples

noncomputable local instance instNumOpsQ10 : NumOps ℚ := fieldNumOps ℚ
local instance instLawfulQ10 : LawfulNumOps ℚ := fieldNumOps_lawful ℚ

theorem floor_eq_of_C10 {x : ℚ} {z : Int} (h1 : (z : ℚ) ≤ x) (h2 : x < z + 1) : ⌊x⌋ = z :=
  Int.floor_eq_iff.mpr ⟨h1, h2⟩

/-- weights 3 : 1 given out of key order -/
def exW10 : Weights ℚ := [("B", 3), ("A", 1)]
def exPrice10 : String → Option ℚ := fun a =>
  if a = "A" then some 17 else if a = "B" then some (123 / 10) else none
/-- 0.1 % commission, 0.05 % tax -/
def exFee10 : FeeModel ℚ := .percent (1 / 1000) (1 / 2000)

theorem exPrice10_pos : ∀ a p, exPrice10 a = some p → 0 < p := by
  intro a p h
  unfold exPrice10 at h
  split at h
  · cases h; norm_num
  · split at h
    · cases h; norm_num
    · cases h

theorem exW10_sum : (exW10.map (·.2)).sum = 4 := by simp [exW10]; norm_num
theorem exW10_tiny : (NumOps.tiny : ℚ) < (exW10.map (·.2)).sum := by
  rw [exW10_sum]; show (1 / 100000000 : ℚ) < 4; norm_num
theorem exW10_nonneg : ∀ x ∈ exW10, (0 : ℚ) ≤ x.2 := by simp [exW10]
theorem exW10_nodup : (exW10.map (·.1)).Nodup := by simp [exW10]
theorem exFee10_le : feeRate exFee10 ≤ 1 := by simp [exFee10]; norm_num
theorem exFee10_nonneg : FeeNonneg exFee10 := by simp [exFee10]

/-- The call computed: equity 100 000, buffer 5 %, so 95 000 is split 23 750 / 71 250;
`floor(23 750 · 0.9985 / 17) = 1394`, `floor(71 250 · 0.9985 / 12.3) = 5783`; keys come out sorted. -/
theorem exOut10 : dwSize exFee10 100000 (1 / 20) exPrice10 exW10 = .ok [("A", 1394), ("B", 5783)] := by
  rcases dwSize_cases exFee10 100000 (1 / 20) exPrice10 exW10 (by simp [exW10]) exW10_nonneg with ⟨_, h⟩ | ⟨h, _⟩
  · rw [h, dwNorm_of_tiny_lt _ exW10_tiny, exW10_sum]
    have hs : sortByKey [("B", (3 : ℚ) / 4), ("A", (1 : ℚ) / 4)] = [("A", 1 / 4), ("B", 3 / 4)] := by
      rw [sortByKey_pair, if_neg (by decide)]
    simp only [exW10, List.map_cons, List.map_nil, hs]
    have hA : exPrice10 "A" = some 17 := by simp [exPrice10]
    have hB : exPrice10 "B" = some (123 / 10) := by simp [exPrice10]
    simp only [hA, hB, Option.getD_some, dwQuantity_eq, exFee10, feeRate_percent]
    have e1 : ⌊((100000 : ℚ) * (1 - 1 / 20) * (1 / 4) -
        (1 / 1000 + 1 / 2000) * |(100000 : ℚ) * (1 - 1 / 20) * (1 / 4)|) / 17⌋ = 1394 := by
      rw [abs_of_nonneg (by norm_num)]
      apply floor_eq_of_C10 <;> norm_num
    have e2 : ⌊((100000 : ℚ) * (1 - 1 / 20) * (3 / 4) -
        (1 / 1000 + 1 / 2000) * |(100000 : ℚ) * (1 - 1 / 20) * (3 / 4)|) / (123 / 10)⌋ = 5783 := by
      rw [abs_of_nonneg (by norm_num)]
      apply floor_eq_of_C10 <;> norm_num
    rw [e1, e2]
  · exfalso
    simp [exW10, exPrice10] at h

/-- non-vacuity of `C10_floor`: all hypotheses hold on the example -/
example := C10_floor exFee10 100000 (1 / 20) exPrice10 exW10 _ exW10_nonneg exW10_nodup exPrice10_pos
  (by norm_num) (by norm_num) exFee10_le exW10_tiny exOut10

/-- non-vacuity of `C10_budget`, and the bound it gives: `1394 · 17 + 5783 · 12.3 ≤ 95 000` -/
example : ((1394 : Int) : ℚ) * 17 + (((5783 : Int) : ℚ) * (123 / 10) + 0) ≤ (1 - 1 / 20) * 100000 := by
  have h := C10_budget exFee10 100000 (1 / 20) exPrice10 exW10 _ exW10_nonneg exPrice10_pos
    (by norm_num) (by norm_num) exFee10_nonneg exFee10_le exW10_tiny exOut10
  have hA : exPrice10 "A" = some 17 := by simp [exPrice10]
  have hB : exPrice10 "B" = some (123 / 10) := by simp [exPrice10]
  simpa only [List.map_cons, List.map_nil, List.sum_cons, List.sum_nil, hA, hB, Option.getD_some] using h

/-- non-vacuity of `C10_keys` -/
example := C10_keys exFee10 100000 (1 / 20) exPrice10 exW10 _ exOut10

/-- non-vacuity of `C10_zero`: two priced assets with zero weight -/
example : ∃ q, dwSize exFee10 100000 (1 / 20) exPrice10 [("B", 0), ("A", 0)] = .ok q ∧
    (∀ x ∈ q, x.2 = 0) ∧ q.length = 2 :=
  C10_zero exFee10 100000 (1 / 20) exPrice10 [("B", 0), ("A", 0)] (by simp) (by simp [exPrice10]) exPrice10_pos

/-- non-vacuity of the rejections: a negative weight; an unpriced key -/
example : dwSize exFee10 100000 (1 / 20) exPrice10 [("B", 3), ("A", -1)] = .error .value :=
  C10_reject_negative _ _ _ _ _ ⟨("A", -1), by simp, by norm_num⟩
example : dwSize exFee10 100000 (1 / 20) exPrice10 [("B", 3), ("Z", 1)] = .error .value :=
  C10_reject_price _ _ _ _ _ (by simp) ⟨("Z", 1), by simp, by simp [exPrice10]⟩

/-- **Negative witness (fee rate above 100 %).**  Commission 80 % + tax 80 %, equity 1 000 000, no buffer,
one asset of weight 1 at price 1: the target quantity is `-600 000`.  Hence `feeRate fee ≤ 1` cannot be
dropped from `C10_floor` / `C10_budget`'s non-negativity clause. -/
theorem C10_neg_qty_fee_gt_one :
    dwSize (FeeModel.percent (4 / 5 : ℚ) (4 / 5)) 1000000 0 (fun _ => some 1) [("A", 1)] =
      .ok [("A", -600000)] := by
  rcases dwSize_cases (FeeModel.percent (4 / 5 : ℚ) (4 / 5)) 1000000 0 (fun _ => some 1) [("A", 1)]
    (by simp) (by simp) with ⟨_, h⟩ | ⟨h, _⟩
  · have hS : (NumOps.tiny : ℚ) < (([("A", 1)] : Weights ℚ).map (·.2)).sum := by
      show (1 / 100000000 : ℚ) < _; simp; norm_num
    rw [h, dwNorm_of_tiny_lt _ hS]
    simp only [List.map_cons, List.map_nil, List.sum_cons, List.sum_nil, sortByKey_singleton,
      Option.getD_some, dwQuantity_eq, feeRate_percent]
    have e1 : ⌊((1000000 : ℚ) * (1 - 0) * (1 / (1 + 0)) -
        (4 / 5 + 4 / 5) * |(1000000 : ℚ) * (1 - 0) * (1 / (1 + 0))|) / 1⌋ = -600000 := by
      rw [abs_of_nonneg (by norm_num)]
      apply floor_eq_of_C10 <;> norm_num
    rw [e1]
  · exfalso; simp at h

/-- **Negative witness (`0 < S ≤ 1e-8`).**  One asset of weight `1e-9`, equity 1 000 000, no buffer, no fees,
price `1e-6`: `np.isclose(S, 0)` holds, the weight is used unnormalised and the target quantity is `1000`,
whereas the asset's normalised share is the whole 1 000 000 (`10¹²` shares): the "one more share would
exceed the share" clause of `C10_floor` fails.  Hence `tiny < S` cannot be dropped. -/
theorem C10_floor_fails_tiny_sum :
    dwSize (FeeModel.zero : FeeModel ℚ) 1000000 0 (fun _ => some (1 / 1000000)) [("A", 1 / 1000000000)] =
      .ok [("A", 1000)] ∧
    ¬ ((1000000 : ℚ) * (1 - 0) * ((1 / 1000000000) / (1 / 1000000000)) <
        (((1000 : Int) : ℚ) + 1) * (1 / 1000000) +
          feeRate (FeeModel.zero : FeeModel ℚ) * ((1000000 : ℚ) * (1 - 0) * ((1 / 1000000000) / (1 / 1000000000)))) := by
  constructor
  · rcases dwSize_cases (FeeModel.zero : FeeModel ℚ) 1000000 0 (fun _ => some (1 / 1000000))
      [("A", 1 / 1000000000)] (by simp) (by simp) with ⟨_, h⟩ | ⟨h, _⟩
    · have hS : |(([("A", 1 / 1000000000)] : Weights ℚ).map (·.2)).sum| ≤ (NumOps.tiny : ℚ) := by
        show _ ≤ (1 / 100000000 : ℚ)
        simp only [List.map_cons, List.map_nil, List.sum_cons, List.sum_nil]
        rw [abs_of_nonneg (by norm_num)]; norm_num
      rw [h, dwNorm_of_le_tiny _ hS]
      simp only [List.map_cons, List.map_nil, sortByKey_singleton,
        Option.getD_some, dwQuantity_eq, feeRate_zero]
      have e1 : ⌊((1000000 : ℚ) * (1 - 0) * (1 / 1000000000) -
          0 * |(1000000 : ℚ) * (1 - 0) * (1 / 1000000000)|) / (1 / 1000000)⌋ = 1000 := by
        apply floor_eq_of_C10 <;> norm_num
      rw [e1]
    · exfalso; simp at h
  · simp only [feeRate_zero]; norm_num

end Examples

end Qs
