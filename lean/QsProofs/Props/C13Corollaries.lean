import QsProofs.Props.C12
import QsProofs.Props.C13

/-!
# C13 / C14 — calendar corollaries

* `C13_weekly_subset_daily`, `C13_eom_subset_daily`  every weekly / end-of-month instant is a daily instant
  (for ANY `start`, `end`: the time-of-day precondition `todOf start ≤ todOf end` is not needed, because the daily
  schedule normalises both ends and so reaches at least as far; `C13_weekly_subset_daily'` is the stated form);
* `C13_in_range_weekly`, `C13_in_range_daily`, `C13_in_range_eom`, `C13_in_range`  every instant lies on a date of
  `[dayOf start, dayOf end]` (weekly / eom: and its date stamped with the start's time of day is `≤ end`);
* `C13_bh_meets`  the buy-and-hold instant `x` coincides with a clock event of `simEvents start end false false`
  IFF `todOf start ∈ {OPEN, CLOSE}` and `x ≤ end`;
  `C13_bh_meets_bday`  (start on a business day, `start ≤ end`, 14:30 or 21:00 start): it does, and the event is the
  open resp. close event of the start day;
  `C13_bh_misses`  with any other time of day it coincides with NO clock event: a buy-and-hold session started
  at, say, 00:00 never rebalances — which is why the property's quantifier asks a 14:30 start;
* `C13_eom_distinct_months`, `C13_eom_month_unique`, `C13_eom_one_per_month`  two distinct end-of-month instants lie
  in different months, and every month whose last business day lies in the range contributes exactly one.
-/

namespace Qs.C13
open Qs Qs.Cal

/-! ## weekly ⊆ daily, end-of-month ⊆ daily -/

/-- every weekly instant is a daily instant (any `start`, `end`) -/
theorem C13_weekly_subset_daily (start end_ : Int) (s : String) (pre : Bool) (l : List Int)
    (h : weeklyRebalances start end_ s pre = .ok l) : ∀ x ∈ l, x ∈ dailyRebalances start end_ pre := by
  intro x hx
  cases hp : parseWeekday s with
  | none => rw [C13_reject start end_ s pre hp] at h; cases h
  | some k =>
    have hk := C13_parseWeekday_range s k hp
    rw [weekly_general start end_ s k pre hp] at h
    injection h with h
    subst h
    obtain ⟨d, hd, rfl⟩ := List.mem_map.1 hx
    rw [mem_filter_daysFrom] at hd
    rw [C13_daily]
    refine List.mem_map.2 ⟨d, ?_, rfl⟩
    rw [mem_filter_daysFrom]
    have hle := hiOf_le start end_
    have := hd.2.2
    simp only [decide_eq_true_eq] at this
    refine ⟨hd.1, by omega, ?_⟩
    simp only [isBDay, decide_eq_true_eq]
    omega

/-- the stated form (with the time-of-day precondition, which the proof does not use) -/
theorem C13_weekly_subset_daily' (start end_ : Int) (s : String) (pre : Bool) (l : List Int)
    (_htod : todOf start ≤ todOf end_) (h : weeklyRebalances start end_ s pre = .ok l) :
    ∀ x ∈ l, x ∈ dailyRebalances start end_ pre :=
  C13_weekly_subset_daily start end_ s pre l h

/-- every end-of-month instant is a daily instant -/
theorem C13_eom_subset_daily (start end_ : Int) (pre : Bool) (h0 : M0 ≤ dayOf start) :
    ∀ x ∈ eomRebalances start end_ pre, x ∈ dailyRebalances start end_ pre := by
  intro x hx
  rw [eom_general start end_ pre h0] at hx
  obtain ⟨d, hd, rfl⟩ := List.mem_map.1 hx
  rw [mem_filter_daysFrom] at hd
  rw [C13_daily]
  refine List.mem_map.2 ⟨d, ?_, rfl⟩
  rw [mem_filter_daysFrom]
  have hle := hiOf_le start end_
  have hd0 : M0 ≤ d := by omega
  exact ⟨hd.1, by omega, ((isBMonthEnd_char hd0).1 hd.2.2).1⟩

/-! ## every instant lies in the range -/

theorem C13_in_range_weekly (start end_ : Int) (s : String) (pre : Bool) (l : List Int)
    (h : weeklyRebalances start end_ s pre = .ok l) (x : Int) (hx : x ∈ l) :
    dayOf start ≤ dayOf x ∧ dayOf x ≤ dayOf end_ ∧ dayOf x * 86400 + todOf start ≤ end_ := by
  cases hp : parseWeekday s with
  | none => rw [C13_reject start end_ s pre hp] at h; cases h
  | some k =>
    rw [weekly_general start end_ s k pre hp] at h
    injection h with h
    subst h
    obtain ⟨d, hd, rfl⟩ := List.mem_map.1 hx
    rw [mem_filter_daysFrom] at hd
    rw [dayOf_stamp]
    have hle := hiOf_le start end_
    have hd2 : d ≤ hiOf start end_ := by omega
    exact ⟨hd.1, by omega, (hiOf_spec start end_ d).2 hd2⟩

theorem C13_in_range_daily (start end_ : Int) (pre : Bool) (x : Int) (hx : x ∈ dailyRebalances start end_ pre) :
    dayOf start ≤ dayOf x ∧ dayOf x ≤ dayOf end_ := by
  rw [C13_daily] at hx
  obtain ⟨d, hd, rfl⟩ := List.mem_map.1 hx
  rw [mem_filter_daysFrom] at hd
  rw [dayOf_stamp]
  exact ⟨hd.1, by omega⟩

theorem C13_in_range_eom (start end_ : Int) (pre : Bool) (h0 : M0 ≤ dayOf start) (x : Int)
    (hx : x ∈ eomRebalances start end_ pre) :
    dayOf start ≤ dayOf x ∧ dayOf x ≤ dayOf end_ ∧ dayOf x * 86400 + todOf start ≤ end_ := by
  rw [eom_general start end_ pre h0] at hx
  obtain ⟨d, hd, rfl⟩ := List.mem_map.1 hx
  rw [mem_filter_daysFrom] at hd
  rw [dayOf_stamp]
  have hle := hiOf_le start end_
  have hd2 : d ≤ hiOf start end_ := by omega
  exact ⟨hd.1, by omega, (hiOf_spec start end_ d).2 hd2⟩

/-- C13: every weekly / daily / end-of-month instant lies on a date of the range -/
theorem C13_in_range (start end_ : Int) (s : String) (pre : Bool) (x : Int)
    (hx : (∃ l, weeklyRebalances start end_ s pre = .ok l ∧ x ∈ l) ∨ x ∈ dailyRebalances start end_ pre ∨
      (M0 ≤ dayOf start ∧ x ∈ eomRebalances start end_ pre)) :
    dayOf start ≤ dayOf x ∧ dayOf x ≤ dayOf end_ := by
  rcases hx with ⟨l, hl, hx⟩ | hx | ⟨h0, hx⟩
  · have := C13_in_range_weekly start end_ s pre l hl x hx; exact ⟨this.1, this.2.1⟩
  · exact C13_in_range_daily start end_ pre x hx
  · have := C13_in_range_eom start end_ pre h0 x hx; exact ⟨this.1, this.2.1⟩

/-! ## buy and hold against the clock -/

/-- the buy-and-hold instant: a business day `dx ≥ dayOf start` (the start's own date when that is a business
day) at the start's time of day -/
theorem bh_form (start : Int) :
    ∃ dx, buyAndHold start = [dx * 86400 + todOf start] ∧ dayOf start ≤ dx ∧ isBDay dx = true ∧
      (isBDay (dayOf start) = true → dx = dayOf start) := by
  unfold buyAndHold
  cases hb : isBDay (dayOf start) with
  | true =>
    refine ⟨dayOf start, ?_, Int.le_refl _, hb, fun _ => rfl⟩
    simp only [if_true]
    congr 1
    unfold dayOf todOf; omega
  | false =>
    obtain ⟨n1, n2, _⟩ := nextBDay_spec (dayOf start)
    refine ⟨nextBDay (dayOf start), by simp, by omega, n2, fun h => by cases h⟩

/-- an event of the clock without pre/post events: the open or the close of a business day of the range -/
theorem mem_simEvents_ff (start end_ : Int) (hle : start ≤ end_) (e : SimEvent) :
    (∃ evs, simEvents start end_ false false = .ok evs ∧ e ∈ evs) ↔
    ∃ d, dayOf start ≤ d ∧ d ≤ hiOf start end_ ∧ isBDay d = true ∧
      (e = ⟨d * 86400 + OPEN, .marketOpen⟩ ∨ e = ⟨d * 86400 + CLOSE, .marketClose⟩) := by
  have hev : simEvents start end_ false false = .ok ((bdayRange start end_).flatMap (dayTemplate false false)) := by
    unfold simEvents; rw [if_neg (by omega)]
  constructor
  · rintro ⟨evs, h, he⟩
    rw [hev] at h
    injection h with h
    subst h
    rw [List.mem_flatMap] at he
    obtain ⟨d, hd, he⟩ := he
    rw [bdayRange_eq, mem_filter_daysFrom] at hd
    refine ⟨d, hd.1, by omega, hd.2.2, ?_⟩
    simpa [dayTemplate] using he
  · rintro ⟨d, h1, h2, h3, he⟩
    refine ⟨_, hev, ?_⟩
    rw [List.mem_flatMap]
    refine ⟨d, ?_, by simpa [dayTemplate] using he⟩
    rw [bdayRange_eq, mem_filter_daysFrom]
    exact ⟨h1, by omega, h3⟩

/-- **C13 (buy and hold meets the clock, characterisation).** For `start ≤ end`, the buy-and-hold instant `x` is
the time of some event of the simulation clock iff the start's time of day is 14:30 or 21:00 and `x ≤ end`. -/
theorem C13_bh_meets (start end_ : Int) (hle : start ≤ end_) (x : Int) (hx : x ∈ buyAndHold start) :
    (∃ evs, simEvents start end_ false false = .ok evs ∧ ∃ e ∈ evs, e.time = x) ↔
    (todOf start = OPEN ∨ todOf start = CLOSE) ∧ x ≤ end_ := by
  obtain ⟨dx, hbh, hdx, hbd, _⟩ := bh_form start
  rw [hbh, List.mem_singleton] at hx
  subst hx
  have htod : 0 ≤ todOf start ∧ todOf start < 86400 := by unfold todOf; omega
  constructor
  · rintro ⟨evs, hev, e, he, het⟩
    obtain ⟨d, h1, h2, h3, he'⟩ := (mem_simEvents_ff start end_ hle e).1 ⟨evs, hev, he⟩
    have h2' := (hiOf_spec start end_ d).2 h2
    rcases he' with rfl | rfl
    · simp only at het
      unfold OPEN at het ⊢
      have : d = dx := by omega
      subst this
      exact ⟨Or.inl (by omega), h2'⟩
    · simp only at het
      unfold CLOSE at het ⊢
      have : d = dx := by omega
      subst this
      exact ⟨Or.inr (by omega), h2'⟩
  · rintro ⟨ht, hxe⟩
    have h2 := (hiOf_spec start end_ dx).1 hxe
    rcases ht with ht | ht
    · obtain ⟨evs, hev, he⟩ := (mem_simEvents_ff start end_ hle ⟨dx * 86400 + OPEN, .marketOpen⟩).2
        ⟨dx, hdx, h2, hbd, Or.inl rfl⟩
      exact ⟨evs, hev, _, he, by rw [ht]⟩
    · obtain ⟨evs, hev, he⟩ := (mem_simEvents_ff start end_ hle ⟨dx * 86400 + CLOSE, .marketClose⟩).2
        ⟨dx, hdx, h2, hbd, Or.inr rfl⟩
      exact ⟨evs, hev, _, he, by rw [ht]⟩

/-- **C13 (buy and hold, documented usage).** `start ≤ end`, the start on a business day at 14:30 or 21:00: the
buy-and-hold schedule is `[start]`, and `start` is the time of the market-open (resp. market-close) event of the
start day. -/
theorem C13_bh_meets_bday (start end_ : Int) (hle : start ≤ end_) (hb : isBDay (dayOf start) = true)
    (ht : todOf start = OPEN ∨ todOf start = CLOSE) :
    buyAndHold start = [start] ∧
    ∃ evs, simEvents start end_ false false = .ok evs ∧
      ∃ e ∈ evs, e.time = start ∧ dayOf e.time = dayOf start ∧
        e.kind = (if todOf start = OPEN then EvKind.marketOpen else EvKind.marketClose) := by
  refine ⟨C13_bh_bday start hb, ?_⟩
  have hst : dayOf start * 86400 + todOf start = start := by unfold dayOf todOf; omega
  have h2 : dayOf start ≤ hiOf start end_ := (hiOf_spec start end_ (dayOf start)).1 (by rw [hst]; exact hle)
  rcases ht with ht | ht
  · obtain ⟨evs, hev, he⟩ := (mem_simEvents_ff start end_ hle ⟨dayOf start * 86400 + OPEN, .marketOpen⟩).2
      ⟨_, Int.le_refl _, h2, hb, Or.inl rfl⟩
    refine ⟨evs, hev, _, he, ?_, ?_, ?_⟩
    · show dayOf start * 86400 + OPEN = start
      rw [← ht, hst]
    · show dayOf (dayOf start * 86400 + OPEN) = dayOf start
      rw [← ht, hst]
    · rw [if_pos ht]
  · obtain ⟨evs, hev, he⟩ := (mem_simEvents_ff start end_ hle ⟨dayOf start * 86400 + CLOSE, .marketClose⟩).2
      ⟨_, Int.le_refl _, h2, hb, Or.inr rfl⟩
    refine ⟨evs, hev, _, he, ?_, ?_, ?_⟩
    · show dayOf start * 86400 + CLOSE = start
      rw [← ht, hst]
    · show dayOf (dayOf start * 86400 + CLOSE) = dayOf start
      rw [← ht, hst]
    · rw [if_neg (by rw [ht]; decide)]

/-- **C13 (buy and hold misses the clock).** With a start time of day other than 14:30 and 21:00 the buy-and-hold
instant coincides with NO event of the clock (any `end`): such a session never rebalances. -/
theorem C13_bh_misses (start end_ : Int) (ht : todOf start ≠ OPEN ∧ todOf start ≠ CLOSE)
    (evs : List SimEvent) (hev : simEvents start end_ false false = .ok evs) :
    ∀ x ∈ buyAndHold start, ∀ e ∈ evs, e.time ≠ x := by
  intro x hx e he heq
  have hle : start ≤ end_ := by
    unfold simEvents at hev
    split at hev
    · cases hev
    · omega
  exact absurd ((C13_bh_meets start end_ hle x hx).1 ⟨evs, hev, e, he, heq⟩).1 (by
    rintro (h | h)
    · exact ht.1 h
    · exact ht.2 h)

/-! ## end of month: one instant per month -/

theorem findMonth_lbd (k : Nat) : (findMonth (lastBDayOfMonth k (monthStart k))).1 = k := by
  have := findMonth_eq (lbd_inMonth k)
  unfold lbd at this
  rw [this]

/-- two distinct end-of-month instants lie in different months -/
theorem C13_eom_distinct_months (start end_ : Int) (pre : Bool) (h0 : M0 ≤ dayOf start) (x y : Int)
    (hx : x ∈ eomRebalances start end_ pre) (hy : y ∈ eomRebalances start end_ pre) (hne : x ≠ y) :
    (findMonth (dayOf x)).1 ≠ (findMonth (dayOf y)).1 := by
  rw [eom_general start end_ pre h0] at hx hy
  obtain ⟨d1, hd1, rfl⟩ := List.mem_map.1 hx
  obtain ⟨d2, hd2, rfl⟩ := List.mem_map.1 hy
  rw [mem_filter_daysFrom] at hd1 hd2
  rw [dayOf_stamp, dayOf_stamp]
  intro hm
  have e1 := (isBMonthEnd_iff_lbd (by omega : M0 ≤ d1)).1 hd1.2.2
  have e2 := (isBMonthEnd_iff_lbd (by omega : M0 ≤ d2)).1 hd2.2.2
  rw [hm] at e1
  exact hne (by rw [e1, ← e2])

/-- every instant of the end-of-month schedule is the stamped last business day of its own month -/
theorem C13_eom_is_last (start end_ : Int) (pre : Bool) (h0 : M0 ≤ dayOf start) (x : Int)
    (hx : x ∈ eomRebalances start end_ pre) :
    x = stamp pre (lastBDayOfMonth (findMonth (dayOf x)).1 (monthStart (findMonth (dayOf x)).1)) := by
  rw [eom_general start end_ pre h0] at hx
  obtain ⟨d, hd, rfl⟩ := List.mem_map.1 hx
  rw [mem_filter_daysFrom] at hd
  rw [dayOf_stamp]
  have e := (isBMonthEnd_iff_lbd (by omega : M0 ≤ d)).1 hd.2.2
  unfold lbd at e
  rw [← e]

/-- a month `k` whose last business day `L` lies in the range (`dayOf start ≤ L`, and `L` at the start's time of
day is `≤ end`) contributes exactly one instant: `stamp pre L` is scheduled, lies in month `k`, and is the only
scheduled instant of month `k`. -/
theorem C13_eom_month_unique (start end_ : Int) (pre : Bool) (h0 : M0 ≤ dayOf start) (k : Nat)
    (hlo : dayOf start ≤ lastBDayOfMonth k (monthStart k))
    (hhi : lastBDayOfMonth k (monthStart k) * 86400 + todOf start ≤ end_) :
    stamp pre (lastBDayOfMonth k (monthStart k)) ∈ eomRebalances start end_ pre ∧
    (findMonth (dayOf (stamp pre (lastBDayOfMonth k (monthStart k))))).1 = k ∧
    ∀ y ∈ eomRebalances start end_ pre, (findMonth (dayOf y)).1 = k →
      y = stamp pre (lastBDayOfMonth k (monthStart k)) := by
  refine ⟨?_, by rw [dayOf_stamp, findMonth_lbd], ?_⟩
  · rw [eom_general start end_ pre h0]
    refine List.mem_map.2 ⟨_, ?_, rfl⟩
    rw [mem_filter_daysFrom]
    have := (hiOf_spec start end_ _).1 hhi
    exact ⟨hlo, by omega, isBMonthEnd_lbd k⟩
  · intro y hy hm
    have := C13_eom_is_last start end_ pre h0 y hy
    rw [hm] at this
    exact this

/-- **C13 (end of month: one per month).** Distinct instants lie in different months; a month contributes an
instant iff its last business day lies in the range, and then exactly that one.  (With `todOf start ≤ todOf end`
the condition `L * 86400 + todOf start ≤ end` is `L ≤ dayOf end`.) -/
theorem C13_eom_one_per_month (start end_ : Int) (pre : Bool) (h0 : M0 ≤ dayOf start)
    (htod : todOf start ≤ todOf end_) :
    (∀ x ∈ eomRebalances start end_ pre, ∀ y ∈ eomRebalances start end_ pre, x ≠ y →
      (findMonth (dayOf x)).1 ≠ (findMonth (dayOf y)).1) ∧
    (∀ k : Nat, (∃ x ∈ eomRebalances start end_ pre, (findMonth (dayOf x)).1 = k) ↔
      (dayOf start ≤ lastBDayOfMonth k (monthStart k) ∧ lastBDayOfMonth k (monthStart k) ≤ dayOf end_)) ∧
    (∀ k : Nat, dayOf start ≤ lastBDayOfMonth k (monthStart k) → lastBDayOfMonth k (monthStart k) ≤ dayOf end_ →
      ∃ x ∈ eomRebalances start end_ pre, (findMonth (dayOf x)).1 = k ∧
        ∀ y ∈ eomRebalances start end_ pre, (findMonth (dayOf y)).1 = k → y = x) := by
  have hhi : ∀ k : Nat, lastBDayOfMonth k (monthStart k) ≤ dayOf end_ →
      lastBDayOfMonth k (monthStart k) * 86400 + todOf start ≤ end_ := by
    intro k h
    rw [hiOf_spec, hiOf_eq start end_ htod]
    exact h
  refine ⟨fun x hx y hy hne => C13_eom_distinct_months start end_ pre h0 x y hx hy hne, ?_, ?_⟩
  · intro k
    constructor
    · rintro ⟨x, hx, hm⟩
      have hr := C13_in_range_eom start end_ pre h0 x hx
      have hl := C13_eom_is_last start end_ pre h0 x hx
      rw [hm] at hl
      have : dayOf x = lastBDayOfMonth k (monthStart k) := by rw [hl, dayOf_stamp]
      rw [← this]
      exact ⟨hr.1, hr.2.1⟩
    · rintro ⟨h1, h2⟩
      obtain ⟨a, b, _⟩ := C13_eom_month_unique start end_ pre h0 k h1 (hhi k h2)
      exact ⟨_, a, b⟩
  · intro k h1 h2
    obtain ⟨a, b, c⟩ := C13_eom_month_unique start end_ pre h0 k h1 (hhi k h2)
    exact ⟨_, a, b, c⟩

/-! ## Non-vacuity -/

section Examples

/-- 2020-02-24 (Mon, day 18316) 09:00 … 2020-03-31 (Tue, day 18352) 17:00: the Wednesdays and the two business
month ends are daily instants; hypotheses of the subset lemmas hold -/
example :
    let start : Int := 18316 * 86400 + 32400
    let end_ : Int := 18352 * 86400 + 61200
    todOf start ≤ todOf end_ ∧ M0 ≤ dayOf start ∧
    eomRebalances start end_ false = [18320 * 86400 + 75600, 18352 * 86400 + 75600] ∧
    (18320 * 86400 + 75600 ∈ dailyRebalances start end_ false) ∧
    (18352 * 86400 + 75600 ∈ dailyRebalances start end_ false) ∧
    (18318 * 86400 + 75600 ∈ dailyRebalances start end_ false) ∧
    -- the two instants lie in February (month 5041) and March (month 5042) 2020
    (findMonth (dayOf (18320 * 86400 + 75600))).1 = 5041 ∧ (findMonth (dayOf (18352 * 86400 + 75600))).1 = 5042 ∧
    lastBDayOfMonth (findMonth 18320).1 (findMonth 18320).2 = 18320 ∧ lastBDayOfMonth (findMonth 18352).1 (findMonth 18352).2 = 18352 := by
  refine ⟨by decide, by decide, by decide +kernel, by decide +kernel, by decide +kernel, by decide +kernel,
    by decide +kernel, by decide +kernel, by decide +kernel, by decide +kernel⟩

/-- `C13_weekly_subset_daily` / `C13_in_range_weekly` applied through the public function -/
example : ∃ l, weeklyRebalances (18316 * 86400 + 32400) (18330 * 86400 + 61200) "wed" false = .ok l ∧
    l = [18318 * 86400 + 75600, 18325 * 86400 + 75600] ∧
    (∀ x ∈ l, x ∈ dailyRebalances (18316 * 86400 + 32400) (18330 * 86400 + 61200) false) ∧
    (∀ x ∈ l, dayOf (18316 * 86400 + 32400) ≤ dayOf x ∧ dayOf x ≤ dayOf (18330 * 86400 + 61200)) := by
  have hp : parseWeekday "wed" = some 2 := by decide +kernel
  have hl := C13_weekly _ _ "wed" 2 false (by decide : todOf (18316 * 86400 + 32400) ≤ todOf (18330 * 86400 + 61200)) hp
  refine ⟨_, hl, by rfl, C13_weekly_subset_daily _ _ _ _ _ hl, fun x hx => ?_⟩
  have := C13_in_range_weekly _ _ _ _ _ hl x hx
  exact ⟨this.1, this.2.1⟩

/-- buy and hold started Monday 2021-01-04 14:30 (day 18631): hypotheses of `C13_bh_meets_bday` hold and the
schedule is the first open of the clock -/
example :
    let start : Int := 18631 * 86400 + 52200
    let end_ : Int := 18632 * 86400 + 52200
    start ≤ end_ ∧ isBDay (dayOf start) = true ∧ todOf start = OPEN ∧ buyAndHold start = [start] ∧
    simEvents start end_ false false = .ok
      [⟨start, .marketOpen⟩, ⟨18631 * 86400 + 75600, .marketClose⟩,
       ⟨18632 * 86400 + 52200, .marketOpen⟩, ⟨18632 * 86400 + 75600, .marketClose⟩] := by
  refine ⟨by decide, by decide, by decide, by rfl, by rfl⟩

/-- the same session started at 00:00: hypotheses of `C13_bh_misses` hold; the schedule `[start]` is disjoint from
the clock's event times -/
example :
    let start : Int := 18631 * 86400
    let end_ : Int := 18632 * 86400
    todOf start ≠ OPEN ∧ todOf start ≠ CLOSE ∧ buyAndHold start = [start] ∧
    simEvents start end_ false false = .ok
      [⟨18631 * 86400 + 52200, .marketOpen⟩, ⟨18631 * 86400 + 75600, .marketClose⟩,
       ⟨18632 * 86400 + 52200, .marketOpen⟩, ⟨18632 * 86400 + 75600, .marketClose⟩] := by
  refine ⟨by decide, by decide, by rfl, by rfl⟩

/-- a Saturday 14:30 start (2020-02-29, day 18321) with the end on the same day: `x ≤ end` fails (the instant is
Monday 14:30) and the clock is empty — the second conjunct of `C13_bh_meets` matters -/
example :
    let start : Int := 18321 * 86400 + 52200
    let end_ : Int := 18321 * 86400 + 60000
    start ≤ end_ ∧ todOf start = OPEN ∧ buyAndHold start = [18323 * 86400 + 52200] ∧
    ¬ (18323 * 86400 + 52200 ≤ end_) ∧ simEvents start end_ false false = .ok [] := by
  refine ⟨by decide, by decide, by rfl, by decide, by rfl⟩

end Examples

end Qs.C13
