import QsProofs.Lemmas.Determinism
import Mathlib.Data.Rat.Floor
import Mathlib.Tactic.NormNum

/-!
# C18 — Identical inputs give identical results

*English.* Running the same backtest again — in the same process, in a fresh interpreter with a different
string-hash seed, or with data-source objects that already served an earlier session — produces the same fills
(apart from order identifiers), the same equity curve and the same target allocations, bit for bit.

The Lean model is a pure function, so "same inputs, same outputs" holds by `rfl`.  The content of C18 is that
the **hidden inputs** of a Python run do not influence the observable result:

1. the enumeration order of Python `set`s (which depends on the string-hash seed):
   `set(held) | set(universe)` in the PCM (`C18_sorted`), the key order of the dictionaries handed to the order
   sizers and to the order generation (`C18_sizer_order`, `C18_orders_sorted`),
   `set(universe) - set(assets)` in `Signal.update_assets` (`C18_buffers`);
2. the memo table of the price lookups (`functools.lru_cache`): what an earlier session left in it, what was
   evicted (`C18_memo`, `C18_memo_sequence`);
3. the order identifiers (`uuid4().hex` in the code, a counter in the model) (`C18_ids…`).

`C18_independent` composes 2 and 3 for `Session.runEvents`: the observable
`(fills without ids, equity curve, target allocations, error)` is the same for every start value of the id
counter and when the market view is served through any coherent memo table.

**Carrier remark (sizers).** `C18_sizer_order` is stated over the lawful *field* carrier, where the normalising
sum `Σ w` is permutation invariant (`List.Perm.sum_eq`).  At the `Float` carrier the order of summation matters;
the code is deterministic there only because it iterates `weights.items()` of a `dict`, and the insertion order
of a `dict` is deterministic in CPython (unlike the enumeration order of a `set`): the dictionary is built from
the *sorted* asset list (`C18_sorted`) overlaid with alpha's own insertion order.  So at the Float carrier the
determinism of the sum rests on `C18_sorted` (equal lists, not merely permutations), and the present theorem is
the additional statement that even a permuted dictionary could not change the sized target in exact arithmetic.

All theorems are about the `Qs.*` functions of the model.  `Det.eraseIds`/`Det.eraseIdsS` (forget every order
identifier) and `Det.updateAssetsWith` (`update_assets` with an explicit enumeration of the set difference) are
the only auxiliary definitions; `Signal.updateAssets` is definitionally the instance
`updateAssetsWith s ((uni.filter …).eraseDups)`.
-/

set_option linter.unusedSectionVars false
set_option linter.unusedVariables false

namespace Qs
open NumOps Num Det

/-! ## 1a. sorted asset unions -/

section Sorted
variable {α : Type} [NumOps α]

/-- **C18_sorted.** `sorted(set(xs))` does not depend on the order in which the elements are enumerated. -/
theorem C18_sorted {l l' : List String} (h : l.Perm l') : sortDedup l = sortDedup l' :=
  sortDedup_perm h

/-- **C18_sorted** (set form): it depends on the member *set* only — neither order nor multiplicity. -/
theorem C18_sorted_set {l l' : List String} (h : ∀ a, a ∈ l ↔ a ∈ l') : sortDedup l = sortDedup l' :=
  sortDedup_congr h

/-- **C18_sorted** (uniqueness, from `C09_sortDedup`): a strictly ascending list is determined by its members. -/
theorem C18_sorted_unique {l₁ l₂ : List String} (h₁ : l₁.Pairwise (· < ·)) (h₂ : l₂.Pairwise (· < ·))
    (hm : ∀ a, a ∈ l₁ ↔ a ∈ l₂) : l₁ = l₂ :=
  eq_of_pairwise_lt_of_mem_iff h₁ h₂ hm

/-- **C18_sorted** (`_obtain_full_asset_list`): invariant under permuting the universe and the key order of the
holdings dictionary. -/
theorem C18_sorted_assets {held held' : List (String × Int)} {uni uni' : List String}
    (hh : held.Perm held') (hu : uni.Perm uni') : fullAssetList held uni = fullAssetList held' uni' :=
  fullAssetList_perm hh hu

/-- **C18_sorted** (`_obtain_full_asset_list`, set form). -/
theorem C18_sorted_assets_set {held held' : List (String × Int)} {uni uni' : List String}
    (hh : ∀ a, a ∈ held.map (·.1) ↔ a ∈ held'.map (·.1)) (hu : ∀ a, a ∈ uni ↔ a ∈ uni') :
    fullAssetList held uni = fullAssetList held' uni' :=
  fullAssetList_congr hh hu

/-- **C18_sorted** (recorded allocation): for the *same* optimiser output `alpha` (whose extra keys keep alpha's
own insertion order) the full weight vector is invariant under permuting the universe and the holdings. -/
theorem C18_sorted_weights {held held' : List (String × Int)} {uni uni' : List String}
    (hh : held.Perm held') (hu : uni.Perm uni') (alpha : List (String × α)) :
    fullWeightVector held uni alpha = fullWeightVector held' uni' alpha := by
  unfold fullWeightVector
  rw [fullAssetList_perm hh hu]

/-- **C18_sorted** (the whole PCM call): same recorded weights and same orders for permuted universe and permuted
holdings dictionary (pairwise distinct keys — it is a dictionary), for any sizer. -/
theorem C18_sorted_pcm {held held' : List (String × Int)} {uni uni' : List String}
    (hh : held.Perm held') (hhk : (held.map (·.1)).Nodup) (hu : uni.Perm uni') (alpha : List (String × α))
    (sizer : List (String × α) → Except Err (List (String × Int))) :
    pcmCall held uni alpha sizer = pcmCall held' uni' alpha sizer := by
  unfold pcmCall
  rw [C18_sorted_weights hh hu]
  simp only [fun t => rebalanceOrders_held_perm t hh hhk]

end Sorted

/-! ## 1b. the sizers and the order list -/

section SizerOrder
variable {α : Type} [Field α] [LinearOrder α] [IsStrictOrderedRing α] [FloorRing α] [NumOps α] [LawfulNumOps α]

/-- **C18_sizer_order** (`sorted(weights.items())`): with pairwise distinct keys the sorted item list does not
depend on the insertion order. -/
theorem C18_sizer_order_sort {β : Type} {w w' : List (String × β)} (hp : w.Perm w')
    (hk : (w.map (·.1)).Nodup) : sortByKey w = sortByKey w' :=
  sortByKey_perm_eq hp hk

/-- **C18_sizer_order** (normalising sums, field carrier): permutation invariant. -/
theorem C18_sizer_order_sum {l l' : List α} (hp : l.Perm l') :
    sumNeumaier l = sumNeumaier l' ∧ sumNaive l = sumNaive l' :=
  ⟨sumNeumaier_perm hp, sumNaive_perm hp⟩

/-- **C18_sizer_order.** Both order sizers give the same result (target or error) for permuted weight
dictionaries. `x` is the cash buffer resp. the gross leverage. -/
theorem C18_sizer_order (fee : FeeModel α) (E x : α) (price : String → Option α) {w w' : Weights α}
    (hp : w.Perm w') (hk : (w.map (·.1)).Nodup) :
    dwSize fee E x price w = dwSize fee E x price w' ∧ lsSize fee E x price w = lsSize fee E x price w' :=
  ⟨dwSize_perm fee E x price hp hk, lsSize_perm fee E x price hp hk⟩

end SizerOrder

/-- **C18_orders_sorted.** `_generate_rebalance_orders` is invariant under permuting the target dictionary and the
holdings dictionary (pairwise distinct keys), and its result is strictly ascending by asset: the order list is
determined by the two dictionaries as *functions*. -/
theorem C18_orders_sorted {target target' held held' : List (String × Int)}
    (ht : target.Perm target') (htk : (target.map (·.1)).Nodup)
    (hh : held.Perm held') (hhk : (held.map (·.1)).Nodup) :
    rebalanceOrders target held = rebalanceOrders target' held' ∧
    ((rebalanceOrders target held).map (·.1)).Pairwise (· < ·) :=
  ⟨rebalanceOrders_perm ht htk hh hhk, rebalanceOrders_keys_pairwise_lt htk held⟩

/-- **C18_orders_sorted** (holdings only through `lookup`). -/
theorem C18_orders_sorted_lookup (target : List (String × Int)) {held held' : List (String × Int)}
    (h : ∀ a, held.lookup a = held'.lookup a) : rebalanceOrders target held = rebalanceOrders target held' := by
  rw [rebalanceOrders_eq, rebalanceOrders_eq]
  have : diffOf held = diffOf held' := by
    funext x
    simp only [diffOf, h]
  rw [this]

/-! ## 2. the memo table of the price lookups -/

section Memo
variable {α : Type} [Add α] [Sub α] [Mul α] [Div α] [Neg α] [NumOps α]

/-- the key of the memoised `get_bid`/`get_ask`: `(data source, time, asset)`; sources are numbered -/
abbrev PxKey := Nat × Int × String

/-- the uncached lookup: the point-in-time pipeline `barLookup` on the file the source holds for the asset -/
def rawPx (adjust : Nat → Bool) (file : Nat → String → List (Bar α)) (k : PxKey) : Option α :=
  barLookup (adjust k.1) (file k.1 k.2.2) k.2.1

/-- the lookup as the code performs it: through the `lru_cache` memo table -/
def cachedPx (adjust : Nat → Bool) (file : Nat → String → List (Bar α)) (tbl : List (PxKey × Option α))
    (k : PxKey) : Option α × List (PxKey × Option α) :=
  cachedGet (rawPx adjust file) tbl k

/-- **C18_memo.** For any coherent memo table — the empty one, one left by earlier sessions over the same data
source objects, or any sub-table after evictions — the cached lookup returns the uncached value, and the
updated table is coherent again. -/
theorem C18_memo (adjust : Nat → Bool) (file : Nat → String → List (Bar α)) (tbl : List (PxKey × Option α))
    (k : PxKey) (hc : ∀ p ∈ tbl, p.2 = rawPx adjust file p.1) :
    (cachedPx adjust file tbl k).1 = barLookup (adjust k.1) (file k.1 k.2.2) k.2.1 ∧
    ∀ p ∈ (cachedPx adjust file tbl k).2, p.2 = rawPx adjust file p.1 :=
  C06_memo (rawPx adjust file) tbl k hc

/-- **C18_memo** (which tables are coherent): the empty table; any sub-table of a coherent table. -/
theorem C18_memo_tables (adjust : Nat → Bool) (file : Nat → String → List (Bar α)) :
    (∀ p ∈ ([] : List (PxKey × Option α)), p.2 = rawPx adjust file p.1) ∧
    (∀ tbl tbl' : List (PxKey × Option α), (∀ p ∈ tbl', p ∈ tbl) →
      (∀ p ∈ tbl, p.2 = rawPx adjust file p.1) → ∀ p ∈ tbl', p.2 = rawPx adjust file p.1) :=
  ⟨C06_memo_empty _, fun tbl tbl' hs hc => C06_memo_evict _ tbl tbl' hs hc⟩

/-- **C18_memo_sequence** (generic). A whole sequence of memoised calls that threads the table, started from any
coherent table, returns exactly the uncached values; the final table is coherent. -/
theorem C18_memo_sequence_gen {κ ν : Type} [BEq κ] [LawfulBEq κ] (f : κ → ν) (tbl : List (κ × ν)) (ks : List κ)
    (hc : ∀ p ∈ tbl, p.2 = f p.1) :
    (cachedSeq f tbl ks).1 = ks.map f ∧ ∀ p ∈ (cachedSeq f tbl ks).2, p.2 = f p.1 :=
  cachedSeq_spec f tbl ks hc

/-- **C18_memo_sequence.** The price lookups of a run, in any order and number, served from any coherent table. -/
theorem C18_memo_sequence (adjust : Nat → Bool) (file : Nat → String → List (Bar α))
    (tbl : List (PxKey × Option α)) (ks : List PxKey) (hc : ∀ p ∈ tbl, p.2 = rawPx adjust file p.1) :
    (cachedSeq (rawPx adjust file) tbl ks).1 = ks.map (fun k => barLookup (adjust k.1) (file k.1 k.2.2) k.2.1) ∧
    ∀ p ∈ (cachedSeq (rawPx adjust file) tbl ks).2, p.2 = rawPx adjust file p.1 :=
  cachedSeq_spec (rawPx adjust file) tbl ks hc

/-- **C18_memo_sequence** (two runs): the values served do not depend on the table the run started with. -/
theorem C18_memo_two_tables {κ ν : Type} [BEq κ] [LawfulBEq κ] (f : κ → ν) (tbl tbl' : List (κ × ν))
    (ks : List κ) (hc : ∀ p ∈ tbl, p.2 = f p.1) (hc' : ∀ p ∈ tbl', p.2 = f p.1) :
    (cachedSeq f tbl ks).1 = (cachedSeq f tbl' ks).1 := by
  rw [(cachedSeq_spec f tbl ks hc).1, (cachedSeq_spec f tbl' ks hc').1]

/-- a market view served through a memo table keyed by `(time, asset)` -/
def pxVia (px : Px α) (tbl : List ((Int × String) × Option α)) : Px α :=
  fun t a => (cachedGet (fun k : Int × String => px k.1 k.2) tbl (t, a)).1

/-- **C18_memo** (market view): served through any coherent table it is the same function. -/
theorem C18_memo_view (px : Px α) (tbl : List ((Int × String) × Option α))
    (hc : ∀ p ∈ tbl, p.2 = px p.1.1 p.1.2) : pxVia px tbl = px := by
  funext t a
  exact (C06_memo (fun k : Int × String => px k.1 k.2) tbl (t, a) hc).1

end Memo

/-! ## 1c. the enumeration of `set(universe) - set(assets)` in `Signal.update_assets` -/

section Buffers
variable {α : Type} [Field α] [LinearOrder α] [IsStrictOrderedRing α] [FloorRing α] [NumOps α] [LawfulNumOps α]

/-- the model's `updateAssets` is the instance of `updateAssetsWith` that enumerates in universe order -/
theorem C18_buffers_instance (s : Signal α) (uni : List String) :
    s.updateAssets uni = updateAssetsWith s ((uni.filter fun a => !s.assets.contains a).eraseDups) := rfl

/-- **C18_buffers.** Track the new assets in the enumeration order `extra` resp. `extra'` (permutations of each
other, duplicate-free), then feed the day's prices (all positive) to every tracked asset: the buffer lookup
function, the lookbacks, the kind, the *set* of tracked assets and the outcome are the same. -/
theorem C18_buffers (mid : String → α) (s : Signal α) {extra extra' : List String}
    (hp : extra.Perm extra') (hnd : extra.Nodup) (hpos : ∀ a ∈ s.assets ++ extra, 0 < mid a) :
    let r := Signal.feed mid (updateAssetsWith s extra) (updateAssetsWith s extra).assets
    let r' := Signal.feed mid (updateAssetsWith s extra') (updateAssetsWith s extra').assets
    (∀ a l, r.1.findBuffer a l = r'.1.findBuffer a l) ∧ (∀ a, a ∈ r.1.assets ↔ a ∈ r'.1.assets) ∧
    r.1.lookbacks = r'.1.lookbacks ∧ r.1.kind = r'.1.kind ∧ r.2 = r'.2 := by
  intro r r'
  obtain ⟨h1, h2⟩ := feed_with_perm mid s hp hnd hpos
  refine ⟨h1.2, ?_, h1.1, ?_, h2⟩
  · intro a
    simp only [r, r', feed_assets, updateAssetsWith, List.mem_append, hp.mem_iff]
  · simp only [r, r', feed_kind, updateAssetsWith]

/-- **C18_buffers** (signal values): every `signal(asset, lookback)` call gives the same value or `KeyError`. -/
theorem C18_buffers_call [TransOps α] (mid : String → α) (s : Signal α) {extra extra' : List String}
    (hp : extra.Perm extra') (hnd : extra.Nodup) (hpos : ∀ a ∈ s.assets ++ extra, 0 < mid a)
    (a : String) (l : Nat) :
    (Signal.feed mid (updateAssetsWith s extra) (updateAssetsWith s extra).assets).1.call a l =
      (Signal.feed mid (updateAssetsWith s extra') (updateAssetsWith s extra').assets).1.call a l := by
  obtain ⟨h1, _, _, h4, _⟩ := C18_buffers mid s hp hnd hpos
  exact call_congr h4 h1 a l

/-- **C18_buffers** (against the model): whatever duplicate-free enumeration `extra` of the set difference
`set(universe) - set(assets)` Python happens to produce, the day's update of the signal agrees with the model's
`updateAssets` in buffers, tracked set and outcome. -/
theorem C18_buffers_model (mid : String → α) (s : Signal α) (uni extra : List String) (hnd : extra.Nodup)
    (hm : ∀ a, a ∈ extra ↔ a ∈ uni ∧ a ∉ s.assets) (hpos : ∀ a ∈ s.assets ++ uni, 0 < mid a) :
    let r := Signal.feed mid (updateAssetsWith s extra) (updateAssetsWith s extra).assets
    let r' := Signal.feed mid (s.updateAssets uni) (s.updateAssets uni).assets
    (∀ a l, r.1.findBuffer a l = r'.1.findBuffer a l) ∧ (∀ a, a ∈ r.1.assets ↔ a ∈ r'.1.assets) ∧
    r.1.lookbacks = r'.1.lookbacks ∧ r.1.kind = r'.1.kind ∧ r.2 = r'.2 := by
  have hpos' : ∀ a ∈ s.assets ++ extra, 0 < mid a := fun a ha => hpos a (by
    rcases List.mem_append.mp ha with h | h
    · exact List.mem_append_left _ h
    · exact List.mem_append_right _ ((hm a).mp h).1)
  exact C18_buffers mid s (enum_perm s uni extra hnd hm) hnd hpos'

/-- **C18_buffers** (the whole `SignalsCollection.update`): let every signal `s` enumerate its new assets as
`enum s` resp. `enum' s` (permutations of each other, duplicate-free; prices of all tracked assets positive).
Then signal by signal the buffers, lookbacks, kind and tracked set agree, and so do the warm-up counter and the
outcome.  `SignalsCollection.update` is definitionally `updateWith` at the universe-order enumeration. -/
theorem C18_buffers_collection (c : SignalsCollection α) (mid : String → α) (enum enum' : Signal α → List String)
    (H : ∀ s ∈ c.signals, (enum s).Perm (enum' s) ∧ (enum s).Nodup ∧ ∀ a ∈ s.assets ++ enum s, 0 < mid a) :
    List.Forall₂ SigEq (updateWith c enum mid).1.signals (updateWith c enum' mid).1.signals ∧
    (updateWith c enum mid).1.warmup = (updateWith c enum' mid).1.warmup ∧
    (updateWith c enum mid).2 = (updateWith c enum' mid).2 :=
  updateWith_perm c mid enum enum' H

theorem C18_buffers_collection_instance (c : SignalsCollection α) (uni : List String) (mid : String → α) :
    c.update uni mid = updateWith c (fun s => (uni.filter fun a => !s.assets.contains a).eraseDups) mid := rfl

end Buffers

/-! ## 3. order identifiers -/

section Ids
variable {α : Type} [Add α] [Sub α] [Mul α] [Div α] [Neg α] [NumOps α]

/-- what `eraseIds` keeps: clock, master account, fee model, every portfolio, the asset and quantity of every
queued order (in order), and every field of every fill other than `orderId` -/
theorem C18_ids_erase_keeps (b : Broker α) :
    (eraseIds b).clock = b.clock ∧ (eraseIds b).master = b.master ∧
    (eraseIds b).entries.map (·.pf) = b.entries.map (·.pf) ∧
    (eraseIds b).entries.map (fun e => e.queue.map fun o => (o.asset, o.qty)) =
      b.entries.map (fun e => e.queue.map fun o => (o.asset, o.qty)) ∧
    (eraseIds b).fillLog.map (fun x => (x.1, x.2.asset, x.2.qty, x.2.time, x.2.price, x.2.commission)) =
      b.fillLog.map (fun x => (x.1, x.2.asset, x.2.qty, x.2.time, x.2.price, x.2.commission)) := by
  refine ⟨rfl, rfl, ?_, ?_, ?_⟩ <;>
    simp only [eraseIds, List.map_map, Function.comp_def, eraseEntry, eraseId, eraseTxn]

/-- **C18_ids** (`transact_asset`): the portfolio does not read the order id of a transaction. -/
theorem C18_ids_transact (p : Portfolio α) (t : Txn α) (k : Nat) :
    p.transactAsset { t with orderId := k } = p.transactAsset t :=
  transactAsset_orderId p t k

/-- **C18_ids** (submit): the id of a submitted order influences neither the outcome nor anything but the
stored id. -/
theorem C18_ids_submit (b : Broker α) (pid : String) (o : Order) (k : Nat) :
    eraseIds (b.submitOrder pid o).1 = eraseIds (b.submitOrder pid { o with id := k }).1 ∧
    (b.submitOrder pid o).2 = (b.submitOrder pid { o with id := k }).2 :=
  submitOrder_sim rfl pid rfl rfl

/-- **C18_ids** (`applyTxn`): transactions that differ only in `orderId` yield brokers that differ only in the
`orderId` of the appended fill-log entry, with the same outcome. -/
theorem C18_ids_applyTxn (b : Broker α) (pid : String) (t : Txn α) (k : Nat) :
    eraseIds (b.applyTxn pid t).1 = eraseIds (b.applyTxn pid { t with orderId := k }).1 ∧
    (b.applyTxn pid t).2 = (b.applyTxn pid { t with orderId := k }).2 := by
  obtain ⟨h1, h2⟩ := applyTxn_eraseIds b pid t
  obtain ⟨h1', h2'⟩ := applyTxn_eraseIds b pid { t with orderId := k }
  rw [h1, h2, h1', h2']
  exact ⟨rfl, rfl⟩

/-- **C18_ids** (`makeTxn`): the order id is copied into `orderId` and read nowhere else. -/
theorem C18_ids_makeTxn (b : Broker α) (q : Quotes α) (o : Order) :
    (eraseIds b).makeTxn q (eraseId o) = (b.makeTxn q o).map eraseTxn :=
  makeTxn_eraseIds b q o

/-- **C18_ids** (batch order): the stable sells-first sort looks at the quantity only. -/
theorem C18_ids_batch (l : List (String × Order)) :
    sellsFirst (fun (x : String × Order) => x.2.isSell) (l.map fun x => (x.1, eraseId x.2)) =
      (sellsFirst (fun (x : String × Order) => x.2.isSell) l).map fun x => (x.1, eraseId x.2) :=
  sellsFirst_map _ _ _ (fun _ => rfl) l

/-- **C18_ids** (`update` commutes with id erasure). -/
theorem C18_ids_update_comm (b : Broker α) (t : Int) (q : Quotes α) :
    eraseIds (b.update t q).1 = ((eraseIds b).update t q).1 ∧ (b.update t q).2 = ((eraseIds b).update t q).2 :=
  update_eraseIds b t q

/-- **C18_ids** (`update`): brokers equal up to ids stay equal up to ids, with equal outcomes. -/
theorem C18_ids_update {b b' : Broker α} (h : eraseIds b = eraseIds b') (t : Int) (q : Quotes α) :
    eraseIds (b.update t q).1 = eraseIds (b'.update t q).1 ∧ (b.update t q).2 = (b'.update t q).2 :=
  update_sim h t q

/-- **C18_ids** (`ExecutionHandler.__call__`): two id streams `n, n+1, …` and `m, m+1, …`. -/
theorem C18_ids_execute (px : Px α) (t : Int) {b b' : Broker α} (h : eraseIds b = eraseIds b') (n m : Nat)
    (os : List (String × Int)) :
    eraseIds (executeOrders px t b n os).1 = eraseIds (executeOrders px t b' m os).1 ∧
    (executeOrders px t b n os).2.2 = (executeOrders px t b' m os).2.2 :=
  executeOrders_sim px t h n m os

/-- **C18_ids** (`QuantTradingSystem.__call__`). -/
theorem C18_ids_rebalance (cfg : SessionCfg α) (alpha : Alpha α) (px : Px α) (t : Int) {s s' : Session α}
    (h : eraseIdsS s = eraseIdsS s') :
    eraseIdsS (rebalanceAt cfg alpha px t s).1 = eraseIdsS (rebalanceAt cfg alpha px t s').1 ∧
    (rebalanceAt cfg alpha px t s).2 = (rebalanceAt cfg alpha px t s').2 :=
  rebalanceAt_blind cfg alpha px t s s' h

/-- **C18_ids** (one simulation event). -/
theorem C18_ids_step (cfg : SessionCfg α) (alpha : Alpha α) (px : Px α) (sched : List Int) (ev : SimEvent)
    {s s' : Session α} (h : eraseIdsS s = eraseIdsS s') :
    eraseIdsS (s.step cfg alpha px sched ev).1 = eraseIdsS (s'.step cfg alpha px sched ev).1 ∧
    (s.step cfg alpha px sched ev).2 = (s'.step cfg alpha px sched ev).2 :=
  step_blind cfg alpha px sched ev s s' h

/-- **C18_ids** (the run): two sessions that are equal after forgetting the ids stay equal after forgetting the
ids along any event list, and stop with the same error at the same time. -/
theorem C18_ids_run (cfg : SessionCfg α) (alpha : Alpha α) (px : Px α) (sched : List Int) (evs : List SimEvent)
    {s s' : Session α} (h : eraseIdsS s = eraseIdsS s') :
    eraseIdsS (Session.runEvents cfg alpha px sched s evs).1 =
      eraseIdsS (Session.runEvents cfg alpha px sched s' evs).1 ∧
    (Session.runEvents cfg alpha px sched s evs).2 = (Session.runEvents cfg alpha px sched s' evs).2 :=
  runEvents_sim cfg alpha px sched evs h

/-- what two sessions that are equal up to ids have in common: fills (the `Fill` record has no id), equity curve,
target allocations, signals, and the table getter -/
theorem C18_ids_observable {s s' : Session α} (h : eraseIdsS s = eraseIdsS s') (cfg : SessionCfg α) :
    s.fills = s'.fills ∧ s.equity = s'.equity ∧ s.allocations = s'.allocations ∧ s.signals = s'.signals ∧
    targetAllocationTable cfg s = targetAllocationTable cfg s' := by
  obtain ⟨_, hsig, hal, heq⟩ := (eraseIdsS_eq_iff s s').mp h
  refine ⟨?_, heq, hal, hsig, ?_⟩
  · rw [← fills_eraseIdsS s, h, fills_eraseIdsS]
  · unfold targetAllocationTable
    rw [heq, hal]

/-- **C18_ids.** Fills (without ids), equity curve, target allocations and the error of a run are independent of
the id stream: start the counter at any `n` or `m`. -/
theorem C18_ids (cfg : SessionCfg α) (alpha : Alpha α) (px : Px α) (sched : List Int) (evs : List SimEvent)
    (s : Session α) (n m : Nat) :
    let r := Session.runEvents cfg alpha px sched { s with nextId := n } evs
    let r' := Session.runEvents cfg alpha px sched { s with nextId := m } evs
    r.1.fills = r'.1.fills ∧ r.1.equity = r'.1.equity ∧ r.1.allocations = r'.1.allocations ∧ r.2 = r'.2 := by
  intro r r'
  obtain ⟨h1, h2⟩ := C18_ids_run cfg alpha px sched evs
    (s := { s with nextId := n }) (s' := { s with nextId := m }) rfl
  obtain ⟨h3, h4, h5, _⟩ := C18_ids_observable h1 cfg
  exact ⟨h3, h4, h5, h2⟩

/-! ## Summary -/

/-- **C18_independent.** For the composed run, the observable `(fills without ids, equity curve, target
allocations, allocation table, error)` is the same for any two initial states that agree up to ids (in particular
for any two start values of the id counter), with the market view served directly or through any coherent memo
table (empty, left by an earlier session, or partially evicted). -/
theorem C18_independent (cfg : SessionCfg α) (alpha : Alpha α) (px : Px α) (sched : List Int)
    (evs : List SimEvent) {s s' : Session α} (h : eraseIdsS s = eraseIdsS s')
    (tbl : List ((Int × String) × Option α)) (hc : ∀ p ∈ tbl, p.2 = px p.1.1 p.1.2) :
    let r := Session.runEvents cfg alpha px sched s evs
    let r' := Session.runEvents cfg alpha (pxVia px tbl) sched s' evs
    r.1.fills = r'.1.fills ∧ r.1.equity = r'.1.equity ∧ r.1.allocations = r'.1.allocations ∧
    targetAllocationTable cfg r.1 = targetAllocationTable cfg r'.1 ∧ r.2 = r'.2 := by
  intro r r'
  have hr' : r' = Session.runEvents cfg alpha px sched s' evs := by
    simp only [r', C18_memo_view px tbl hc]
  obtain ⟨h1, h2⟩ := C18_ids_run cfg alpha px sched evs h
  obtain ⟨h3, h4, h5, _, h6⟩ := C18_ids_observable h1 cfg
  rw [hr']
  exact ⟨h3, h4, h5, h6, h2⟩

/-- **C18_independent** (id counter form). -/
theorem C18_independent_nextId (cfg : SessionCfg α) (alpha : Alpha α) (px : Px α) (sched : List Int)
    (evs : List SimEvent) (s : Session α) (n m : Nat)
    (tbl : List ((Int × String) × Option α)) (hc : ∀ p ∈ tbl, p.2 = px p.1.1 p.1.2) :
    let r := Session.runEvents cfg alpha px sched { s with nextId := n } evs
    let r' := Session.runEvents cfg alpha (pxVia px tbl) sched { s with nextId := m } evs
    r.1.fills = r'.1.fills ∧ r.1.equity = r'.1.equity ∧ r.1.allocations = r'.1.allocations ∧
    targetAllocationTable cfg r.1 = targetAllocationTable cfg r'.1 ∧ r.2 = r'.2 :=
  C18_independent cfg alpha px sched evs (s := { s with nextId := n }) (s' := { s with nextId := m }) rfl tbl hc

/-- **C18_independent** (whole session, construction included): serving the market through a coherent memo table
gives literally the same result. -/
theorem C18_independent_run (cfg : SessionCfg α) (alpha : Alpha α) (px : Px α)
    (tbl : List ((Int × String) × Option α)) (hc : ∀ p ∈ tbl, p.2 = px p.1.1 p.1.2) :
    Session.run cfg alpha (pxVia px tbl) = Session.run cfg alpha px := by
  rw [C18_memo_view px tbl hc]

end Ids

/-! ## Non-vacuity -/

section ExamplesGeneric

/-- `C18_sorted`: two enumerations of the same set, with different order and multiplicity -/
example : sortDedup ["XOM", "SPY", "SPY", "AGG"] = sortDedup ["AGG", "XOM", "SPY"] :=
  C18_sorted_set (by intro a; simp only [List.mem_cons, List.not_mem_nil, or_false]; tauto)

example : ["XOM", "SPY", "AGG"].Perm ["AGG", "XOM", "SPY"] ∧ ["XOM", "SPY", "AGG"] ≠ ["AGG", "XOM", "SPY"] := by
  refine ⟨?_, by decide⟩
  exact ((List.Perm.swap "SPY" "XOM" ["AGG"]).trans ((List.Perm.swap "AGG" "XOM" []).cons "SPY")).trans
    (List.Perm.swap "AGG" "SPY" ["XOM"]) |>.trans ((List.Perm.swap "XOM" "SPY" []).cons "AGG")

/-- … and the value both sides take -/
example : sortDedup ["XOM", "SPY", "SPY", "AGG"] = ["AGG", "SPY", "XOM"] := by
  simp [sortDedup, List.mergeSort]; decide

/-- `C18_sorted_assets`: holdings dictionary and universe enumerated in two different orders -/
example : fullAssetList [("XOM", 7), ("SPY", -5)] ["SPY", "AGG"] = fullAssetList [("SPY", -5), ("XOM", 7)] ["AGG", "SPY"] :=
  C18_sorted_assets (List.Perm.swap _ _ _) (List.Perm.swap _ _ _)

/-- `C18_orders_sorted`: the hypotheses hold for permuted dictionaries, and the order list is the sorted one -/
example : rebalanceOrders [("SPY", 10), ("AGG", 5)] [("XOM", 7), ("SPY", -5)] =
    rebalanceOrders [("AGG", 5), ("SPY", 10)] [("SPY", -5), ("XOM", 7)] :=
  (C18_orders_sorted (List.Perm.swap _ _ _) (by simp) (List.Perm.swap _ _ _) (by simp)).1

example : rebalanceOrders [("SPY", 10), ("AGG", 5)] [("XOM", 7), ("SPY", -5)] = [("AGG", 5), ("SPY", 15)] := by
  simp [rebalanceOrders, sortByKey, List.mergeSort, List.lookup]

/-- without distinct keys the hypothesis of `C18_sizer_order_sort` fails and so does the conclusion (stable sort) -/
example : sortByKey [("A", 1), ("A", 2)] ≠ sortByKey [("A", 2), ("A", 1)] := by
  simp [sortByKey, List.mergeSort]

end ExamplesGeneric

/-! the memo table at the driver's `Rat` carrier, on the shuffled file of C06 -/
section ExamplesRat

/-- a table left by an "earlier session": one entry for source 0, 14:30 of day 10, asset `"A"` -/
def exTbl18 : List (PxKey × Option Rat) := [((0, 10 * 86400 + 52200, "A"), some 100)]

theorem exTbl18_coherent : ∀ p ∈ exTbl18, p.2 = rawPx (fun _ => false) (fun _ _ => exFile) p.1 := by
  intro p hp
  simp only [exTbl18, List.mem_singleton] at hp
  subst hp
  show some 100 = barLookup false exFile (10 * 86400 + 52200)
  unfold barLookup; rw [exFrame_raw]; decide

/-- a hit and a miss on that table return the uncached values (theorem, not evaluation) -/
example : (cachedPx (fun _ => false) (fun _ _ => exFile) exTbl18 (0, 10 * 86400 + 52200, "A")).1 =
    barLookup false exFile (10 * 86400 + 52200) :=
  (C18_memo _ _ exTbl18 _ exTbl18_coherent).1

example : (cachedPx (fun _ => false) (fun _ _ => exFile) exTbl18 (0, 11 * 86400 + 75600, "A")).1 = some 210 := by
  rw [(C18_memo _ _ exTbl18 _ exTbl18_coherent).1]
  unfold barLookup; rw [exFrame_raw]; decide

/-- a sequence of lookups from the warm table and from the empty table serve the same values -/
example (ks : List PxKey) :
    (cachedSeq (rawPx (fun _ => false) (fun _ _ => exFile)) exTbl18 ks).1 =
      (cachedSeq (rawPx (fun _ => false) (fun _ _ => exFile)) [] ks).1 :=
  C18_memo_two_tables _ _ _ ks exTbl18_coherent (C06_memo_empty _)

/-- the tables themselves differ: the hidden state is really there -/
example : (cachedSeq (fun n : Nat => n * n) [(3, 9)] [3, 4]) = ([9, 16], [(4, 16), (3, 9)]) ∧
    (cachedSeq (fun n : Nat => n * n) [] [3, 4]) = ([9, 16], [(4, 16), (3, 9)]) ∧
    (cachedSeq (fun n : Nat => n * n) [(4, 16)] [3, 4]) = ([9, 16], [(3, 9), (4, 16)]) := by decide

/-- an incoherent table is excluded by the hypothesis, and would change the answer -/
example : (cachedSeq (fun n : Nat => n * n) [(3, 10)] [3]).1 ≠ [3].map (fun n : Nat => n * n) := by decide

/-- order ids at work: a funded broker, two orders at 14:30 on 1970-01-01 (a Thursday), every price 10 -/
def exB18 : Broker Rat :=
  { clock := 0, master := 0, fee := .zero, entries := [{ pf := { id := "000001", clock := 0, cash := 1000 } }] }
def exPx18 : Px Rat := fun _ _ => some 10

/-- the ids are stored in the fill log: the two id streams give different brokers … -/
example : (executeOrders exPx18 52200 exB18 1 [("A", 5), ("B", -3)]).1.fillLog.map (·.2.orderId) = [1, 2] ∧
    (executeOrders exPx18 52200 exB18 100 [("A", 5), ("B", -3)]).1.fillLog.map (·.2.orderId) = [100, 101] ∧
    (executeOrders exPx18 52200 exB18 100 [("A", 5), ("B", -3)]).2.2 = none := by decide +kernel

/-- … that agree after `eraseIds` (`C18_ids_execute`), e.g. in the fills -/
example : eraseIds (executeOrders exPx18 52200 exB18 1 [("A", 5), ("B", -3)]).1 =
    eraseIds (executeOrders exPx18 52200 exB18 100 [("A", 5), ("B", -3)]).1 :=
  (C18_ids_execute exPx18 52200 rfl 1 100 _).1

example : (executeOrders exPx18 52200 exB18 100 [("A", 5), ("B", -3)]).1.fillLog.map
    (fun x => (x.2.asset, x.2.qty, x.2.price)) = [("A", 5, 10), ("B", -3, 10)] := by decide +kernel

/-- ids in a queue (exchange closed at midnight): submitted with id 7 or id 9 -/
example : ((exB18.submitOrder "000001" ⟨7, "A", 5⟩).1.entries.map (·.queue)) = [[⟨7, "A", 5⟩]] ∧
    ((exB18.submitOrder "000001" ⟨9, "A", 5⟩).1.entries.map (·.queue)) = [[⟨9, "A", 5⟩]] := by decide +kernel

/-- two sessions that differ in a queued id and in the counter satisfy the hypothesis of `C18_ids_run` -/
example : eraseIdsS ({ broker := (exB18.submitOrder "000001" ⟨7, "A", 5⟩).1, nextId := 8 } : Session Rat) =
    eraseIdsS { broker := (exB18.submitOrder "000001" ⟨9, "A", 5⟩).1, nextId := 10 } := by
  rw [eraseIdsS_eq_iff]
  exact ⟨(C18_ids_submit exB18 "000001" ⟨7, "A", 5⟩ 9).1, rfl, rfl, rfl⟩

end ExamplesRat

/-! the sizers and the signal buffers at the lawful field instance on `ℚ` -/
section ExamplesField
noncomputable local instance (priority := high) c18RatOps : NumOps ℚ := fieldNumOps ℚ
local instance (priority := high) c18RatLawful : LawfulNumOps ℚ := fieldNumOps_lawful ℚ

/-- `C18_sizer_order`: the recorded allocation of C09's example in reverse insertion order gives the same
target as computed there -/
example : dwSize (.zero) (1000 : ℚ) 0 exPrice [("GLD", 1), ("XOM", 0), ("SPY", 0), ("AGG", 3)] =
    .ok [("AGG", 75), ("GLD", 25), ("SPY", 0), ("XOM", 0)] := by
  rw [← (C18_sizer_order (.zero) (1000 : ℚ) 0 exPrice
    (w := [("AGG", 3), ("SPY", 0), ("XOM", 0), ("GLD", 1)]) (w' := [("GLD", 1), ("XOM", 0), ("SPY", 0), ("AGG", 3)])
    (List.reverse_perm [("GLD", 1), ("XOM", 0), ("SPY", 0), ("AGG", 3)]) (by simp)).1]
  exact exDw

/-- `C18_buffers`: a momentum signal tracking `"A"`; the universe gains `"B"` and `"C"`; every price is 1 -/
def exSig18 : Signal ℚ := Signal.new .momentum [1] ["A"]

/-- the two enumerations give different `assets` lists (the hidden order is really there) … -/
example : (updateAssetsWith exSig18 ["B", "C"]).assets = ["A", "B", "C"] ∧
    (updateAssetsWith exSig18 ["C", "B"]).assets = ["A", "C", "B"] := ⟨rfl, rfl⟩

/-- … and the hypotheses of `C18_buffers` hold, so buffers, tracked set and outcome agree -/
example := C18_buffers (fun _ => (1 : ℚ)) exSig18 (List.Perm.swap "C" "B" [])
  (by simp) (fun _ _ => one_pos)

/-- the model's own enumeration is one of them -/
example : exSig18.updateAssets ["C", "A", "B", "C"] = updateAssetsWith exSig18 ["C", "B"] := by
  rw [C18_buffers_instance]
  simp [exSig18, Signal.new, List.eraseDups_cons]

end ExamplesField

end Qs
