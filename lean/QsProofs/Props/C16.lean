import QsProofs.Lemmas.Signals
import Mathlib.Data.Rat.Floor
import Mathlib.Tactic.NormNum

/-!
# C16 — Signals equal their definitions over the trailing window of supplied closes

After any stream of positive prices, N-period momentum equals last/first − 1 over the most recent N+1
prices, the N-period moving average equals the mean of the most recent N prices, and N-period volatility
equals the population standard deviation of the most recent N simple returns times sqrt(252), each using
the shorter available window while warming up (0 when no return exists yet); different lookbacks and assets
never influence each other.  During a backtest every signal receives exactly one observation per asset per
business day — that day's close — and an asset that enters a dynamic universe later starts with an empty
window.

All theorems are about `Qs.dequePush`, `Qs.lastN`, `Qs.Signal.new/append/findBuffer/call/updateAssets/feed`,
`Qs.feedAll`, `Qs.SignalsCollection.update`, `Qs.pctChanges`, `Qs.momentumOf`, `Qs.meanOf`, `Qs.popVar`,
`Qs.smaOf`, `Qs.volOf` of `QsModel/Signals.lean`.

Vocabulary (definitions in `QsProofs/Lemmas/Signals.lean`, all of them iterate or observe model functions):
* `Sig.appendAll s ops` — `Signal.append` applied to the `(asset, price)` pairs `ops` in order;
  `Sig.streamOf a ops` — the prices of `ops` supplied for asset `a`, in order.
* `Sig.dayStep uni mid s` — what `SignalsCollection.update c uni mid` does to the signal `s` of `c`
  (`updateAssets uni`, then `feed mid` over the tracked assets); `Sig.runDays s days` iterates it over
  `days : List (universe × mid prices)`; `Sig.updateAll c days` iterates `SignalsCollection.update`,
  stopping at the first error.
* `Sig.dayStream tracked0 a days` — one mid price `mid a` per day, starting with the first day on which
  `a` is tracked (`tracked0 = true`: from the first day; otherwise from the first day whose universe has `a`).
* `Sig.DaysPos A days` — on every day, every asset tracked on that day has a positive mid price.
* `Sig.Holds s σ` — the signal `s` stores, for its (pairwise distinct) tracked assets `s.assets` and every
  stored lookback `l`, exactly one buffer `(a, l)` holding `lastN l (σ a)`, and nothing else
  (`σ a = []` for untracked `a`).  `Signal.new` satisfies it with empty streams (`Sig.holds_new`) and
  `SignalsCollection.update` preserves it (`C16_collection_signal`).

Hypotheses forced by the proofs beyond positivity of the supplied prices:
* `lbs ≠ []` — a signal without lookbacks raises on every append (`self.lookbacks[0]`).
* collection level only: the tracked assets of a signal are pairwise distinct (`assets.Nodup`).  With the
  initial asset list `["A", "A"]` the update feeds `A` twice per day, so "exactly one observation per day"
  fails; `updateAssets` never introduces a duplicate (`Sig.updateAssets_nodup`).
The lookbacks need not be distinct.
-/

set_option linter.unusedSectionVars false

namespace Qs
open NumOps Num

/-! ## The bounded window -/

/-- C16 (window): a `deque(maxlen = k)` fed a stream holds exactly the last `k` items of the stream. -/
theorem C16_window {β : Type} (k : Nat) (xs : List β) : xs.foldl (dequePush k) [] = lastN k xs :=
  Sig.window k xs

/-- C16 (window), from a buffer that already holds the window of an earlier stream `pre`. -/
theorem C16_window_from {β : Type} (k : Nat) (pre xs : List β) :
    xs.foldl (dequePush k) (lastN k pre) = lastN k (pre ++ xs) :=
  Sig.window_gen k xs pre

/-- the window is the whole stream while warming up, and has `k` items afterwards -/
theorem C16_window_length {β : Type} (k : Nat) (xs : List β) :
    (lastN k xs).length = min k xs.length ∧ lastN k xs <:+ xs ∧ (xs.length ≤ k → lastN k xs = xs) :=
  ⟨Sig.lastN_length k xs, Sig.lastN_suffix k xs, Sig.lastN_of_length_le k xs⟩

example : [1, 2, 3, 4, 5].foldl (dequePush 3) [] = [3, 4, 5] := by decide
example : [1, 2].foldl (dequePush 3) [] = [1, 2] := by decide
example : lastN 3 [1, 2, 3, 4, 5] = [3, 4, 5] := by decide

section
variable {α : Type} [Field α] [LinearOrder α] [IsStrictOrderedRing α] [FloorRing α] [NumOps α] [LawfulNumOps α]

/-! ## The buffers of one signal -/

/-- C16 (append): with at least one lookback configured, an append is accepted iff the price is positive;
a refused price changes nothing and reports `ValueError`; an accepted one keeps kind, lookbacks, assets. -/
theorem C16_append_ok (s : Signal α) (a : String) (p : α) (hL : s.lookbacks ≠ []) :
    ((s.append a p).2 = none ↔ 0 < p) ∧ (¬ 0 < p → s.append a p = (s, some .value)) ∧
    (s.append a p).1.kind = s.kind ∧ (s.append a p).1.lookbacks = s.lookbacks ∧
    (s.append a p).1.assets = s.assets :=
  ⟨Sig.append_snd s a p hL, Sig.append_refuse s a p, Sig.append_kind s a p, Sig.append_lookbacks s a p,
    Sig.append_assets s a p⟩

/-- C16 (independence): appending to asset `a` leaves every buffer of every other asset unchanged —
for every signal state, every price, every lookback. -/
theorem C16_indep (s : Signal α) (a b : String) (p : α) (l : Nat) (hb : b ≠ a) :
    (s.append a p).1.findBuffer b l = s.findBuffer b l :=
  Sig.append_findBuffer_ne s a b p l hb

/-- every append of a sequence of positive prices is accepted -/
theorem C16_buffer_no_error (kind : SignalKind) (lbs : List Nat) (assets : List String)
    (ops : List (String × α)) (hl : lbs ≠ []) (hpos : ∀ op ∈ ops, 0 < op.2)
    (pre post : List (String × α)) (op : String × α) (hsplit : ops = pre ++ op :: post) :
    ((Sig.appendAll (Signal.new kind lbs assets) pre).append op.1 op.2).2 = none := by
  apply (Sig.append_snd _ _ _ _).mpr (hpos op (by rw [hsplit]; simp))
  rw [Sig.appendAll_lookbacks]
  simpa [Signal.new] using hl

/-- C16 (buffer): after any sequence of appends with positive prices to a fresh signal, every asset that
is tracked from the start or has received a price has, for every configured lookback `l`, the buffer
`(a, bump kind l)` holding exactly the last `bump kind l` prices supplied for `a` (`bump` is `l + 1` for
momentum and volatility, `l` for the moving average).  All lookbacks of `a` see the same stream, and
only `a`'s own prices enter it. -/
theorem C16_buffer (kind : SignalKind) (lbs : List Nat) (assets : List String) (ops : List (String × α))
    (hl : lbs ≠ []) (hpos : ∀ op ∈ ops, 0 < op.2)
    (a : String) (ha : a ∈ assets ∨ a ∈ ops.map (·.1)) (l : Nat) (hl' : l ∈ lbs) :
    (Sig.appendAll (Signal.new kind lbs assets) ops).findBuffer a (Signal.bump kind l) =
      some { asset := a, lookback := Signal.bump kind l,
             items := lastN (Signal.bump kind l) (Sig.streamOf a ops) } := by
  have h := Sig.appendAll_store (Sig.store_new (α := α) kind lbs assets hl) ops hpos
  rw [h.findBuffer, if_pos]
  · simp
  · refine ⟨(Sig.mem_trackAll _ _ _).mpr ha, ?_⟩
    rw [Sig.appendAll_lookbacks]
    exact List.mem_map.mpr ⟨l, hl', rfl⟩

/-- an asset that is neither tracked from the start nor has received a price has no buffer (`KeyError`) -/
theorem C16_untracked (kind : SignalKind) (lbs : List Nat) (assets : List String) (ops : List (String × α))
    (hl : lbs ≠ []) (hpos : ∀ op ∈ ops, 0 < op.2)
    (a : String) (ha : a ∉ assets) (ha' : a ∉ ops.map (·.1)) (l : Nat) :
    (Sig.appendAll (Signal.new kind lbs assets) ops).findBuffer a l = none := by
  have h := Sig.appendAll_store (Sig.store_new (α := α) kind lbs assets hl) ops hpos
  rw [h.findBuffer, if_neg]
  rintro ⟨h1, _⟩
  rcases (Sig.mem_trackAll _ _ _).mp h1 with h2 | h2
  · exact ha h2
  · exact ha' h2

/-- C16 (late entrant): an asset first seen after any number of appends to other assets (whether or not it
was in the start universe) starts from the empty window: after its first price `p` its buffers hold `[p]`
(the last `bump kind l` items of `[p]`). -/
theorem C16_late (kind : SignalKind) (lbs : List Nat) (assets : List String) (ops : List (String × α))
    (hl : lbs ≠ []) (hpos : ∀ op ∈ ops, 0 < op.2)
    (a : String) (ha' : a ∉ ops.map (·.1)) (p : α) (hp : 0 < p) (l : Nat) (hl' : l ∈ lbs) :
    ((Sig.appendAll (Signal.new kind lbs assets) ops).append a p).1.findBuffer a (Signal.bump kind l) =
      some { asset := a, lookback := Signal.bump kind l, items := lastN (Signal.bump kind l) [p] } := by
  have h := C16_buffer kind lbs assets (ops ++ [(a, p)]) hl
    (by
      intro op hop
      rcases List.mem_append.mp hop with h | h
      · exact hpos op h
      · simp only [List.mem_singleton] at h; subst h; exact hp)
    a (Or.inr (by simp)) l hl'
  rw [Sig.appendAll_append] at h
  have hs : Sig.streamOf a (ops ++ [(a, p)]) = [p] := by
    rw [Sig.streamOf_append]
    have : Sig.streamOf a ops = [] := by
      unfold Sig.streamOf
      rw [List.map_eq_nil_iff, List.filter_eq_nil_iff]
      intro op hop hc
      apply ha'
      simp only [beq_iff_eq] at hc
      exact List.mem_map.mpr ⟨op, hop, hc⟩
    rw [this]
    simp [Sig.streamOf]
  rw [hs] at h
  exact h

/-- refused prices (`≤ 0`) can be dropped from the sequence: they change nothing -/
theorem C16_refused_skipped (s : Signal α) (ops : List (String × α)) :
    Sig.appendAll s ops = Sig.appendAll s (ops.filter fun op => decide (0 < op.2)) :=
  Sig.appendAll_filter_pos s ops

/-! ## Momentum -/

/-- C16 (momentum): on a window of positive prices the momentum is `last / first − 1`, and `0` while
fewer than two prices are available. -/
theorem C16_momentum (w : List α) (hpos : ∀ x ∈ w, 0 < x) :
    momentumOf w = if h : w.length < 2 then 0
      else w.getLast (Sig.ne_nil_of_not_lt_two h) / w.head (Sig.ne_nil_of_not_lt_two h) - 1 :=
  Sig.momentumOf_eq w hpos

/-- C16 (momentum, as called): `signal(asset, N)` of a momentum signal evaluates `last / first − 1` on the
most recent `N + 1` prices supplied for the asset (fewer while warming up). -/
theorem C16_momentum_call [TransOps α] (lbs : List Nat) (assets : List String) (ops : List (String × α))
    (hl : lbs ≠ []) (hpos : ∀ op ∈ ops, 0 < op.2)
    (a : String) (ha : a ∈ assets ∨ a ∈ ops.map (·.1)) (N : Nat) (hN : N ∈ lbs) :
    (Sig.appendAll (Signal.new .momentum lbs assets) ops).call a N =
      .ok (if h : (lastN (N + 1) (Sig.streamOf a ops)).length < 2 then 0
           else (lastN (N + 1) (Sig.streamOf a ops)).getLast (Sig.ne_nil_of_not_lt_two h) /
                (lastN (N + 1) (Sig.streamOf a ops)).head (Sig.ne_nil_of_not_lt_two h) - 1) := by
  have hb := C16_buffer .momentum lbs assets ops hl hpos a ha N hN
  unfold Signal.call
  rw [Sig.appendAll_kind]
  simp only [Signal.new]
  simp only [Signal.new] at hb
  rw [hb]
  simp only [Signal.bump]
  rw [C16_momentum _ (Sig.lastN_pos _ _ (Sig.streamOf_pos a ops hpos))]

/-! ## Moving average -/

/-- C16 (moving average): the arithmetic mean of the window. -/
theorem C16_sma (w : List α) : smaOf w = w.sum / (w.length : α) := Sig.smaOf_eq w

/-- C16 (moving average, as called): `signal(asset, N)` of an SMA signal is the mean of the most recent `N`
prices supplied for the asset (fewer while warming up). -/
theorem C16_sma_call [TransOps α] (lbs : List Nat) (assets : List String) (ops : List (String × α))
    (hl : lbs ≠ []) (hpos : ∀ op ∈ ops, 0 < op.2)
    (a : String) (ha : a ∈ assets ∨ a ∈ ops.map (·.1)) (N : Nat) (hN : N ∈ lbs) :
    (Sig.appendAll (Signal.new .sma lbs assets) ops).call a N =
      .ok ((lastN N (Sig.streamOf a ops)).sum / ((lastN N (Sig.streamOf a ops)).length : α)) := by
  have hb := C16_buffer .sma lbs assets ops hl hpos a ha N hN
  unfold Signal.call
  rw [Sig.appendAll_kind]
  simp only [Signal.new]
  simp only [Signal.new] at hb
  rw [hb]
  simp only [Signal.bump]
  rw [C16_sma]

/-! ## Volatility -/

/-- the simple returns of a window: one fewer than prices, the `i`-th is `w[i+1] / w[i] − 1` -/
theorem C16_returns (w : List α) :
    (pctChanges w).length = w.length - 1 ∧
    ∀ i x y, w[i]? = some x → w[i + 1]? = some y → (pctChanges w)[i]? = some (y / x - 1) :=
  ⟨Sig.pctChanges_length w, fun i x y => Sig.pctChanges_getElem? w i x y⟩

/-- population variance: the mean squared deviation from the mean -/
theorem C16_popVar (l : List α) :
    popVar l = (l.map fun x => (x - l.sum / (l.length : α)) ^ 2).sum / (l.length : α) ∧
    meanOf l = l.sum / (l.length : α) :=
  ⟨Sig.popVar_eq l, Sig.meanOf_eq l⟩

/-- C16 (volatility): `sqrt` of the population variance of the window's simple returns times `sqrt 252`
(for every interpretation of `sqrt`), and `0` when the window has no return yet. -/
theorem C16_vol [TransOps α] (w : List α) :
    volOf w = if pctChanges w = [] then 0
      else TransOps.sqrt (popVar (pctChanges w)) * TransOps.sqrt (252 : α) :=
  Sig.volOf_eq w

/-- C16 (volatility, as called): `signal(asset, N)` of a volatility signal uses the most recent `N + 1`
prices supplied for the asset, i.e. the most recent `N` simple returns (fewer while warming up). -/
theorem C16_vol_call [TransOps α] (lbs : List Nat) (assets : List String) (ops : List (String × α))
    (hl : lbs ≠ []) (hpos : ∀ op ∈ ops, 0 < op.2)
    (a : String) (ha : a ∈ assets ∨ a ∈ ops.map (·.1)) (N : Nat) (hN : N ∈ lbs) :
    (Sig.appendAll (Signal.new .vol lbs assets) ops).call a N =
      .ok (if pctChanges (lastN (N + 1) (Sig.streamOf a ops)) = [] then 0
           else TransOps.sqrt (popVar (pctChanges (lastN (N + 1) (Sig.streamOf a ops)))) *
                TransOps.sqrt (252 : α)) ∧
    (pctChanges (lastN (N + 1) (Sig.streamOf a ops))).length = min (N + 1) (Sig.streamOf a ops).length - 1 := by
  have hb := C16_buffer .vol lbs assets ops hl hpos a ha N hN
  refine ⟨?_, by rw [Sig.pctChanges_length, Sig.lastN_length]⟩
  unfold Signal.call
  rw [Sig.appendAll_kind]
  simp only [Signal.new]
  simp only [Signal.new] at hb
  rw [hb]
  simp only [Signal.bump]
  rw [C16_vol]

/-- a signal called for an asset without buffers raises `KeyError` -/
theorem C16_call_untracked [TransOps α] (kind : SignalKind) (lbs : List Nat) (assets : List String)
    (ops : List (String × α)) (hl : lbs ≠ []) (hpos : ∀ op ∈ ops, 0 < op.2)
    (a : String) (ha : a ∉ assets) (ha' : a ∉ ops.map (·.1)) (N : Nat) :
    (Sig.appendAll (Signal.new kind lbs assets) ops).call a N = .error .key := by
  unfold Signal.call
  rw [C16_untracked kind lbs assets ops hl hpos a ha ha']

/-! ## The collection: one observation per tracked asset per update -/

/-- C16 (collection): when every tracked asset (old or newly entering) of every signal has a positive mid
price, `SignalsCollection.update` reports no error, increases `warmup` by exactly one and applies
`Sig.dayStep uni mid` to every signal. -/
theorem C16_collection (c : SignalsCollection α) (uni : List String) (mid : String → α)
    (hwf : ∀ s ∈ c.signals, ∃ σ, Sig.Holds s σ)
    (hmid : ∀ s ∈ c.signals, ∀ a, a ∈ s.assets ∨ a ∈ uni → 0 < mid a) :
    c.update uni mid =
      ({ signals := c.signals.map (Sig.dayStep uni mid), warmup := c.warmup + 1 }, none) :=
  Sig.update_ok c uni mid fun s hs => by
    obtain ⟨σ, hσ⟩ := hwf s hs
    exact (Sig.dayStep_spec hσ uni mid (hmid s hs)).1

/-- C16 (collection, per signal): the update keeps kind and lookbacks, extends the tracked assets by the
universe members not yet tracked (deduplicated), pushes exactly one observation `mid a` into every buffer
of every previously tracked asset, gives every newly tracked asset buffers holding exactly that one
observation (window started empty), creates no buffer for any other asset, and the result is again a
well-formed store (for the streams extended by one observation). -/
theorem C16_collection_signal (s : Signal α) (σ : String → List α) (hs : Sig.Holds s σ)
    (uni : List String) (mid : String → α) (hmid : ∀ a, a ∈ s.assets ∨ a ∈ uni → 0 < mid a) :
    let s' := Sig.dayStep uni mid s
    s'.kind = s.kind ∧ s'.lookbacks = s.lookbacks ∧
    s'.assets = s.assets ++ (uni.filter fun a => !s.assets.contains a).eraseDups ∧
    (∀ a ∈ s.assets, ∀ l b, s.findBuffer a l = some b →
        s'.findBuffer a l = some { b with items := dequePush l b.items (mid a) }) ∧
    (∀ a ∈ s'.assets, a ∉ s.assets → ∀ l ∈ s.lookbacks,
        s'.findBuffer a l = some { asset := a, lookback := l, items := dequePush l [] (mid a) }) ∧
    (∀ a, a ∉ s'.assets → ∀ l, s'.findBuffer a l = none) ∧
    Sig.Holds s' (fun a => if a ∈ s.assets ∨ a ∈ uni then σ a ++ [mid a] else []) := by
  obtain ⟨_, hk, hl, has, hh⟩ := Sig.dayStep_spec hs uni mid hmid
  have hmem : ∀ a, a ∈ (Sig.dayStep uni mid s).assets ↔ a ∈ s.assets ∨ a ∈ uni := by
    intro a; rw [has, Sig.mem_updateAssets]
  refine ⟨hk, hl, has, ?_, ?_, ?_, hh⟩
  · intro a ha l b hb
    rw [hs.store.findBuffer] at hb
    split at hb
    · rename_i hc
      cases hb
      rw [hh.store.findBuffer, if_pos ⟨(hmem a).mpr (Or.inl ha), by rw [hl]; exact hc.2⟩]
      simp [ha, Sig.dequePush_lastN]
    · cases hb
  · intro a ha hna l hlm
    rw [hh.store.findBuffer, if_pos ⟨ha, by rw [hl]; exact hlm⟩]
    simp only [(hmem a).mp ha, if_true, hs.store.fresh a hna, List.nil_append]
    rfl
  · intro a ha l
    rw [hh.store.findBuffer, if_neg (fun hc => ha hc.1)]

/-- C16 (cadence, one signal): over any number of updates, the buffer `(a, bump kind l)` of a signal created
with the assets `A` holds the last `bump kind l` items of the stream "`mid a` of every day from the first day on
which `a` is tracked (in `A`, or in the universe of that or an earlier day), one per day, in order". -/
theorem C16_cadence (kind : SignalKind) (lbs : List Nat) (A : List String)
    (days : List (List String × (String → α))) (hl : lbs ≠ []) (hA : A.Nodup) (hpos : Sig.DaysPos A days)
    (a : String) (ha : a ∈ A ∨ ∃ d ∈ days, a ∈ d.1) (l : Nat) (hl' : l ∈ lbs) :
    (Sig.runDays (Signal.new kind lbs A) days).findBuffer a (Signal.bump kind l) =
      some { asset := a, lookback := Signal.bump kind l,
             items := lastN (Signal.bump kind l) (Sig.dayStream (decide (a ∈ A)) a days) } := by
  obtain ⟨_, hlb, hmem, hh⟩ := Sig.runDays_spec (Sig.holds_new (α := α) kind lbs A hl hA) days hpos
  rw [hh.store.findBuffer, if_pos]
  · simp [Signal.new]
  · refine ⟨(hmem a).mpr ha, ?_⟩
    rw [hlb]
    exact List.mem_map.mpr ⟨l, hl', rfl⟩

/-- C16 (cadence, collection): iterating `SignalsCollection.update` over the days never fails, `warmup`
counts the days, and every signal evolves by `Sig.runDays` independently of the other signals. -/
theorem C16_cadence_collection (c : SignalsCollection α) (days : List (List String × (String → α)))
    (hwf : ∀ s ∈ c.signals, ∃ σ, Sig.Holds s σ) (hpos : ∀ s ∈ c.signals, Sig.DaysPos s.assets days) :
    Sig.updateAll c days =
      ({ signals := c.signals.map fun s => Sig.runDays s days, warmup := c.warmup + days.length }, none) :=
  Sig.updateAll_spec c days hwf hpos

/-- a freshly configured collection is well formed -/
theorem C16_collection_new (specs : List (SignalKind × List Nat × List String))
    (h : ∀ sp ∈ specs, sp.2.1 ≠ [] ∧ sp.2.2.Nodup) :
    ∀ s ∈ specs.map (fun sp => (Signal.new sp.1 sp.2.1 sp.2.2 : Signal α)), ∃ σ, Sig.Holds s σ := by
  intro s hs
  obtain ⟨sp, hsp, rfl⟩ := List.mem_map.mp hs
  exact ⟨_, Sig.holds_new sp.1 sp.2.1 sp.2.2 (h sp hsp).1 (h sp hsp).2⟩

end

/-! ## Non-vacuity: prices 10, 11, 12.1 -/

section Examples

noncomputable local instance instNumOpsQ16 : NumOps ℚ := fieldNumOps ℚ
local instance instLawfulQ16 : LawfulNumOps ℚ := fieldNumOps_lawful ℚ

/-- the appends of the example: asset `A` receives 10, 11, 12.1, asset `B` (not in the start universe)
receives 7 in between -/
def exOps16 : List (String × ℚ) := [("A", 10), ("A", 11), ("B", 7), ("A", 121 / 10)]

theorem exOps16_pos : ∀ op ∈ exOps16, 0 < op.2 := by
  intro op hop
  simp only [exOps16, List.mem_cons, List.not_mem_nil, or_false] at hop
  rcases hop with rfl | rfl | rfl | rfl <;> norm_num

theorem exStreamA : Sig.streamOf "A" exOps16 = [10, 11, 121 / 10] := by
  simp [Sig.streamOf, exOps16]

theorem exStreamB : Sig.streamOf "B" exOps16 = [7] := by
  simp [Sig.streamOf, exOps16]

/-- lookback 1: the buffer holds the last 2 prices; momentum `12.1 / 11 − 1 = 1/10` -/
example [TransOps ℚ] :
    (Sig.appendAll (Signal.new .momentum [1, 2] ["A"]) exOps16).call "A" 1 = .ok (1 / 10 : ℚ) := by
  rw [C16_momentum_call [1, 2] ["A"] exOps16 (by simp) exOps16_pos "A" (by simp) 1 (by simp)]
  simp only [exStreamA]
  have : lastN 2 [(10 : ℚ), 11, 121 / 10] = [11, 121 / 10] := by simp [lastN]
  simp only [this]
  norm_num

/-- lookback 2: the buffer holds all 3 prices; momentum `12.1 / 10 − 1 = 21/100` -/
example [TransOps ℚ] :
    (Sig.appendAll (Signal.new .momentum [1, 2] ["A"]) exOps16).call "A" 2 = .ok (21 / 100 : ℚ) := by
  rw [C16_momentum_call [1, 2] ["A"] exOps16 (by simp) exOps16_pos "A" (by simp) 2 (by simp)]
  simp only [exStreamA]
  have : lastN 3 [(10 : ℚ), 11, 121 / 10] = [10, 11, 121 / 10] := by simp [lastN]
  simp only [this]
  norm_num

/-- the late entrant `B` has one price: momentum `0` (no return yet) -/
example [TransOps ℚ] :
    (Sig.appendAll (Signal.new .momentum [1, 2] ["A"]) exOps16).call "B" 2 = .ok (0 : ℚ) := by
  rw [C16_momentum_call [1, 2] ["A"] exOps16 (by simp) exOps16_pos "B" (by simp [exOps16]) 2 (by simp)]
  simp only [exStreamB]
  have : lastN 3 [(7 : ℚ)] = [7] := by simp [lastN]
  simp only [this]
  simp

/-- an asset never seen raises `KeyError` -/
example [TransOps ℚ] :
    (Sig.appendAll (Signal.new .momentum [1, 2] ["A"]) exOps16).call "C" 2 = .error .key :=
  C16_call_untracked .momentum [1, 2] ["A"] exOps16 (by simp) exOps16_pos "C" (by simp) (by simp [exOps16]) 2

/-- SMA lookback 2: mean of 11 and 12.1 -/
example [TransOps ℚ] :
    (Sig.appendAll (Signal.new .sma [1, 2] ["A"]) exOps16).call "A" 2 = .ok (231 / 20 : ℚ) := by
  rw [C16_sma_call [1, 2] ["A"] exOps16 (by simp) exOps16_pos "A" (by simp) 2 (by simp)]
  simp only [exStreamA]
  have : lastN 2 [(10 : ℚ), 11, 121 / 10] = [11, 121 / 10] := by simp [lastN]
  simp only [this]
  norm_num

/-- the returns of the window 10, 11, 12.1 are 1/10, 1/10: population variance 0 -/
example : pctChanges [(10 : ℚ), 11, 121 / 10] = [1 / 10, 1 / 10] ∧ popVar [(1 : ℚ) / 10, 1 / 10] = 0 := by
  constructor
  · rw [Sig.pctChanges_cons_cons, Sig.pctChanges_cons_cons, Sig.pctChanges_single]; norm_num
  · rw [Sig.popVar_eq]; norm_num

/-- volatility lookback 2 uses the two returns 1/10, 1/10, whatever `sqrt` is -/
example [TransOps ℚ] :
    (Sig.appendAll (Signal.new .vol [1, 2] ["A"]) exOps16).call "A" 2 =
      .ok (TransOps.sqrt (0 : ℚ) * TransOps.sqrt 252) := by
  rw [(C16_vol_call [1, 2] ["A"] exOps16 (by simp) exOps16_pos "A" (by simp) 2 (by simp)).1]
  simp only [exStreamA]
  have h1 : lastN 3 [(10 : ℚ), 11, 121 / 10] = [10, 11, 121 / 10] := by simp [lastN]
  have h2 : pctChanges [(10 : ℚ), 11, 121 / 10] = [1 / 10, 1 / 10] := by
    rw [Sig.pctChanges_cons_cons, Sig.pctChanges_cons_cons, Sig.pctChanges_single]; norm_num
  have h3 : popVar [(1 : ℚ) / 10, 1 / 10] = 0 := by rw [Sig.popVar_eq]; norm_num
  rw [h1, h2, h3]
  simp

/-- a refused price: nothing changes -/
example (s : Signal ℚ) : s.append "A" (-1) = (s, some .value) := Sig.append_refuse s "A" (-1) (by norm_num)

/-- two days; `B` enters the universe on day 2.  `A` has the stream 10, 11; `B` has the stream 7. -/
def exDays16 : List (List String × (String → ℚ)) :=
  [(["A"], fun a => if a = "A" then 10 else 5), (["A", "B"], fun a => if a = "A" then 11 else 7)]

theorem exDays16_pos : Sig.DaysPos ["A"] exDays16 := by
  intro pre d post hsplit a _
  have hd : d ∈ exDays16 := by rw [hsplit]; simp
  simp only [exDays16, List.mem_cons, List.not_mem_nil, or_false] at hd
  rcases hd with rfl | rfl <;> simp only <;> split <;> norm_num

example : (Sig.runDays (Signal.new .momentum [1] ["A"]) exDays16).findBuffer "A" 2 =
    some { asset := "A", lookback := 2, items := [10, 11] } := by
  have h := C16_cadence .momentum [1] ["A"] exDays16 (by simp) (by simp) exDays16_pos "A" (by simp) 1 (by simp)
  simpa [Signal.bump, Sig.dayStream, exDays16, lastN] using h

example : (Sig.runDays (Signal.new .momentum [1] ["A"]) exDays16).findBuffer "B" 2 =
    some { asset := "B", lookback := 2, items := [7] } := by
  have h := C16_cadence .momentum [1] ["A"] exDays16 (by simp) (by simp) exDays16_pos "B"
    (Or.inr ⟨(["A", "B"], fun a => if a = "A" then 11 else 7), by simp [exDays16], by simp⟩) 1 (by simp)
  simpa [Signal.bump, Sig.dayStream, exDays16, lastN] using h

/-- one update of a fresh collection whose universe gains `B`: no error, `warmup` becomes 1, and the SMA
signal now tracks `A, B` with one observation each -/
example :
    let c : SignalsCollection ℚ := { signals := [Signal.new .sma [2] ["A"]], warmup := 0 }
    (c.update ["A", "B"] (fun a => if a = "A" then 10 else 7)).2 = none ∧
    (c.update ["A", "B"] (fun a => if a = "A" then 10 else 7)).1.warmup = 1 := by
  intro c
  have h := C16_collection c ["A", "B"] (fun a => if a = "A" then 10 else 7)
    (C16_collection_new [(.sma, [2], ["A"])] (by simp))
    (by intro s _ a _; show (0 : ℚ) < if a = "A" then 10 else 7; split <;> norm_num)
  rw [h]
  exact ⟨rfl, rfl⟩

example :
    let s' := Sig.dayStep ["A", "B"] (fun a => if a = "A" then (10 : ℚ) else 7) (Signal.new .sma [2] ["A"])
    s'.assets = ["A", "B"] ∧ s'.findBuffer "B" 2 = some { asset := "B", lookback := 2, items := [7] } := by
  intro s'
  obtain ⟨_, _, h3, _, h5, _⟩ := C16_collection_signal (Signal.new .sma [2] ["A"]) _
    (Sig.holds_new (α := ℚ) .sma [2] ["A"] (by simp) (by simp)) ["A", "B"]
    (fun a => if a = "A" then (10 : ℚ) else 7) (by intro a _; show (0 : ℚ) < if a = "A" then 10 else 7; split <;> norm_num)
  have hA : s'.assets = ["A", "B"] := by
    rw [h3]; simp [Signal.new, List.eraseDups_cons]
  refine ⟨hA, ?_⟩
  have := h5 "B" (by rw [hA]; simp) (by simp [Signal.new]) 2 (by simp [Signal.new, Signal.bump])
  simpa [dequePush] using this

/-- the collection of one momentum and one SMA signal over the two days: no error, `warmup = 2` -/
example :
    (Sig.updateAll { signals := [Signal.new .momentum [1] ["A"], Signal.new .sma [2] ["A"]], warmup := 0 }
      exDays16).2 = none ∧
    (Sig.updateAll { signals := [Signal.new .momentum [1] ["A"], Signal.new .sma [2] ["A"]], warmup := 0 }
      exDays16).1.warmup = 2 := by
  have h := C16_cadence_collection
    { signals := [Signal.new .momentum [1] ["A"], Signal.new .sma [2] ["A"]], warmup := 0 } exDays16
    (C16_collection_new [(.momentum, [1], ["A"]), (.sma, [2], ["A"])] (by simp))
    (by
      intro s hs
      simp only [List.mem_cons, List.not_mem_nil, or_false] at hs
      rcases hs with rfl | rfl <;> exact exDays16_pos)
  rw [h]
  simp [exDays16]

end Examples

end Qs
