import QsProofs.Lemmas.Pcm
import Mathlib.Data.Rat.Floor
import Mathlib.Tactic.NormNum

/-!
# C09 — Rebalancing trades the portfolio exactly onto its target

At every rebalance the generated orders are exactly target quantity minus currently held quantity for
every asset that is in the current universe, currently held, or given a weight by the alpha model, with
no zero-quantity or duplicate orders and in ascending asset order; once those orders fill, holdings equal
the target.  Any held asset that receives no weight is fully liquidated, and the weights recorded as the
target allocation cover exactly that asset set (zero where the alpha model is silent).

All theorems are about `Qs.sortDedup / fullAssetList / fullWeightVector / rebalanceOrders / pcmCall`
(`QsModel/Pcm.lean`) and `Qs.sortByKey / dwSize / lsSize` (`QsModel/Sizer.lean`).

* Python dictionaries are association lists.  `held` and `alpha` are dicts, hence the hypotheses
  `(held.map (·.1)).Nodup`, `(alpha.map (·.1)).Nodup` where a theorem needs them; "`held a`" is
  `(held.lookup a).getD 0`.  The universe `uni` is an arbitrary list (duplicates allowed).
* `SizerKeys sizer` / `SizerZero sizer` (`QsProofs/Lemmas/Pcm.lean`) are the two facts used about an order
  sizer: it returns exactly the keys it is given in ascending order, and a zero weight gets quantity 0.
  `C09_sizer_keys` / `C09_sizer_zero` prove them for `dwSize` and `lsSize`; each sizer-dependent property is
  proved once generically and then instantiated (`…_dw`, `…_ls`).
* `applyOrders held orders a = held a + Σ (quantities of the orders for a)` (`QsProofs/Lemmas/Pcm.lean`)
  is the arithmetic effect of filling every order in full (that the broker does fill every queued order in
  full is property C04).
-/

set_option linter.unusedSectionVars false
set_option linter.unusedVariables false

namespace Qs
open NumOps Num

/-! ## The asset set and the recorded weights (any carrier, no laws needed) -/

section Generic
variable {α : Type} [NumOps α]

/-- `sortDedup` (`sorted(set(xs))`): strictly ascending, same members as its input. -/
theorem C09_sortDedup (xs : List String) :
    (sortDedup xs).Pairwise (· < ·) ∧ (sortDedup xs).Nodup ∧ ∀ a, a ∈ sortDedup xs ↔ a ∈ xs :=
  ⟨sortDedup_pairwise_lt xs, sortDedup_nodup xs, fun _ => mem_sortDedup⟩

/-- C09 (asset set): the keys `K` of the full weight vector are, as a set, held ∪ universe ∪ alpha keys; they are
pairwise distinct; the first `|fullAssetList|` of them are `sortDedup (held.keys ++ uni)` — strictly ascending,
exactly the held-or-universe assets — and the rest are the alpha-only keys in alpha's order. -/
theorem C09_assets (held : List (String × Int)) (uni : List String) (alpha : List (String × α))
    (hα : (alpha.map (·.1)).Nodup) :
    let K := (fullWeightVector held uni alpha).map (·.1)
    let n := (fullAssetList held uni).length
    (∀ a, a ∈ K ↔ a ∈ held.map (·.1) ∨ a ∈ uni ∨ a ∈ alpha.map (·.1)) ∧
    K.Nodup ∧
    K.take n = sortDedup (held.map (·.1) ++ uni) ∧
    (sortDedup (held.map (·.1) ++ uni)).Pairwise (· < ·) ∧
    (∀ a, a ∈ sortDedup (held.map (·.1) ++ uni) ↔ a ∈ held.map (·.1) ∨ a ∈ uni) ∧
    K.drop n = (alpha.map (·.1)).filter (fun k => decide (k ∉ held.map (·.1) ∧ k ∉ uni)) := by
  intro K n
  have hK : K = fullAssetList held uni ++
      (alpha.map (·.1)).filter (fun k => decide (k ∉ fullAssetList held uni)) :=
    fullWeightVector_keys held uni alpha
  refine ⟨fun a => mem_fullWeightVector_keys, fullWeightVector_keys_nodup hα, ?_, sortDedup_pairwise_lt _,
    fun a => by rw [mem_sortDedup, List.mem_append], ?_⟩
  · rw [hK, List.take_left' rfl]; rfl
  · rw [hK, List.drop_left' rfl]
    apply List.filter_congr
    intro k _
    simp only [mem_fullAssetList, not_or]

/-- C09 (recorded allocation): every entry `(a, w)` of the full weight vector carries alpha's weight for `a` if
alpha has one, and zero where the alpha model is silent.  (The vector is what `pcmCall` records: `C09_orders`.) -/
theorem C09_record (held : List (String × Int)) (uni : List String) (alpha : List (String × α))
    (hα : (alpha.map (·.1)).Nodup) (a : String) (w : α)
    (h : (a, w) ∈ fullWeightVector held uni alpha) :
    w = (alpha.lookup a).getD Num.zero ∧
    (∀ v, (a, v) ∈ alpha → w = v) ∧
    (a ∉ alpha.map (·.1) → w = Num.zero) := by
  have hw := fullWeightVector_weight hα h
  refine ⟨hw, fun v hv => ?_, fun hn => ?_⟩
  · rw [hw, lookup_eq_some_of_mem hα hv]; rfl
  · rw [hw, (lookup_eq_none_iff alpha a).mpr hn]; rfl

/-- every asset of the set has exactly one recorded weight -/
theorem C09_record_total (held : List (String × Int)) (uni : List String) (alpha : List (String × α))
    (hα : (alpha.map (·.1)).Nodup) (a : String)
    (ha : a ∈ held.map (·.1) ∨ a ∈ uni ∨ a ∈ alpha.map (·.1)) :
    (a, (alpha.lookup a).getD Num.zero) ∈ fullWeightVector held uni alpha := by
  obtain ⟨⟨a', w⟩, hm, rfl⟩ := List.mem_map.mp (mem_fullWeightVector_keys.mpr ha)
  rw [← fullWeightVector_weight hα hm]
  exact hm

/-- C09 (orders): if the sizer returns `target` (a dict: keys pairwise distinct), `pcmCall` records the full weight
vector and its orders are, in ascending asset order, `target a − held a` for every target asset where that
difference is non-zero; order assets are strictly ascending (so no duplicates), no order has quantity 0, and an
order `(a, d)` exists iff `a` is a target asset with `d = target a − held a ≠ 0`. -/
theorem C09_orders (held : List (String × Int)) (uni : List String) (alpha : List (String × α))
    (sizer : List (String × α) → Except Err (List (String × Int))) (target : List (String × Int))
    (r : PcmResult α)
    (hs : sizer (fullWeightVector held uni alpha) = .ok target)
    (ht : (target.map (·.1)).Nodup)
    (hr : pcmCall held uni alpha sizer = .ok r) :
    r.fullWeights = fullWeightVector held uni alpha ∧
    r.orders = (sortByKey target).filterMap (fun x =>
      if x.2 - (held.lookup x.1).getD 0 ≠ 0 then some (x.1, x.2 - (held.lookup x.1).getD 0) else none) ∧
    (r.orders.map (·.1)).Pairwise (· < ·) ∧
    (r.orders.map (·.1)).Nodup ∧
    (∀ o ∈ r.orders, o.2 ≠ 0) ∧
    (∀ a d, (a, d) ∈ r.orders ↔ ∃ q, (a, q) ∈ target ∧ d = q - (held.lookup a).getD 0 ∧ d ≠ 0) := by
  obtain ⟨t', ht', rfl⟩ := pcmCall_ok_iff.mp hr
  rw [hs] at ht'; cases ht'
  exact ⟨rfl, rebalanceOrders_eq_filterMap target held, rebalanceOrders_keys_pairwise_lt ht held,
    nodup_of_pairwise_lt (rebalanceOrders_keys_pairwise_lt ht held),
    fun o ho => rebalanceOrders_ne_zero ho, fun a d => mem_rebalanceOrders⟩

/-- C09 (orders cover the whole asset set), generic in a sizer that returns exactly the keys it is given
(`SizerKeys`; true of `dwSize` and `lsSize`, see `C09_sizer_keys`): the target has exactly one quantity for every
asset that is held, in the universe or weighted by alpha, its keys are that set in strictly ascending order, and
the order for such an asset is `target a − held a` exactly when that is non-zero; no other asset is ordered. -/
theorem C09_orders_exact {held : List (String × Int)} {uni : List String} {alpha : List (String × α)}
    {sizer : List (String × α) → Except Err (List (String × Int))} (hk : SizerKeys sizer)
    (hα : (alpha.map (·.1)).Nodup) {r : PcmResult α}
    (hr : pcmCall held uni alpha sizer = .ok r) :
    ∃ target, sizer (fullWeightVector held uni alpha) = .ok target ∧
      target.map (·.1) = sortDedup (held.map (·.1) ++ uni ++ alpha.map (·.1)) ∧
      (target.map (·.1)).Pairwise (· < ·) ∧
      (∀ a, a ∈ held.map (·.1) ∨ a ∈ uni ∨ a ∈ alpha.map (·.1) →
        ∃ q, (a, q) ∈ target ∧ (∀ q', (a, q') ∈ target → q' = q) ∧
          ∀ d, (a, d) ∈ r.orders ↔ d = q - (held.lookup a).getD 0 ∧ d ≠ 0) ∧
      (∀ o ∈ r.orders, o.1 ∈ held.map (·.1) ∨ o.1 ∈ uni ∨ o.1 ∈ alpha.map (·.1)) ∧
      r.orders = target.filterMap (fun x =>
        if x.2 - (held.lookup x.1).getD 0 ≠ 0 then some (x.1, x.2 - (held.lookup x.1).getD 0) else none) := by
  obtain ⟨target, hs, rfl⟩ := pcmCall_ok_iff.mp hr
  have hfw := fullWeightVector_keys_nodup (held := held) (uni := uni) hα
  have hkeys : target.map (·.1) = sortDedup (held.map (·.1) ++ uni ++ alpha.map (·.1)) := by
    rw [hk _ _ hs, sortByKey_keys_eq_sortDedup hfw]
    apply sortDedup_eq_of (sortDedup_pairwise_lt _)
    intro a
    rw [mem_sortDedup, mem_fullWeightVector_keys, List.mem_append, List.mem_append, or_assoc]
  have hlt : (target.map (·.1)).Pairwise (· < ·) := by rw [hkeys]; exact sortDedup_pairwise_lt _
  have hnd := nodup_of_pairwise_lt hlt
  have hmem : ∀ a, a ∈ target.map (·.1) ↔ a ∈ held.map (·.1) ∨ a ∈ uni ∨ a ∈ alpha.map (·.1) := by
    intro a
    rw [hkeys, mem_sortDedup, List.mem_append, List.mem_append, or_assoc]
  refine ⟨target, hs, hkeys, hlt, ?_, ?_, ?_⟩
  · intro a ha
    obtain ⟨⟨a', q⟩, hq, rfl⟩ := List.mem_map.mp ((hmem a).mpr ha)
    refine ⟨q, hq, fun q' hq' => val_unique hnd hq' hq, fun d => ?_⟩
    show (a', d) ∈ rebalanceOrders target held ↔ _
    rw [mem_rebalanceOrders]
    constructor
    · rintro ⟨q', hq', rfl, hd⟩
      rw [val_unique hnd hq' hq] at hd ⊢
      exact ⟨rfl, hd⟩
    · rintro ⟨rfl, hd⟩
      exact ⟨q, hq, rfl, hd⟩
  · rintro ⟨a, d⟩ ho
    obtain ⟨q, hq, _, _⟩ := mem_rebalanceOrders.mp ho
    exact (hmem a).mp (List.mem_map.mpr ⟨(a, q), hq, rfl⟩)
  · show rebalanceOrders target held = _
    rw [rebalanceOrders_eq_filterMap, sortByKey_of_pairwise_lt hlt]

/-- C09 (liquidation), generic in a sizer with `SizerKeys` and `SizerZero`: a held asset that alpha does not
weight has target quantity 0 (and only that), so its order is exactly `−held a` when `held a ≠ 0` and there is no
order for it when `held a = 0`. -/
theorem C09_liquid {held : List (String × Int)} {uni : List String} {alpha : List (String × α)}
    {sizer : List (String × α) → Except Err (List (String × Int))} (hk : SizerKeys sizer)
    (hz : SizerZero sizer) (hα : (alpha.map (·.1)).Nodup) (hh : (held.map (·.1)).Nodup) {r : PcmResult α}
    (hr : pcmCall held uni alpha sizer = .ok r) {a : String} {h : Int}
    (ha : (a, h) ∈ held) (hna : a ∉ alpha.map (·.1)) :
    ∃ target, sizer (fullWeightVector held uni alpha) = .ok target ∧
      (a, 0) ∈ target ∧ (∀ q, (a, q) ∈ target → q = 0) ∧
      (a, (Num.zero : α)) ∈ r.fullWeights ∧
      (∀ d, (a, d) ∈ r.orders ↔ d = -h ∧ h ≠ 0) := by
  obtain ⟨target, hs, _, _, hall, _, _⟩ := C09_orders_exact hk hα hr
  have hr' := pcmCall_ok_iff.mp hr
  obtain ⟨t', ht', hrr⟩ := hr'
  rw [hs] at ht'; cases ht'
  have hak : a ∈ held.map (·.1) := List.mem_map.mpr ⟨(a, h), ha, rfl⟩
  have hfw : (a, (Num.zero : α)) ∈ fullWeightVector held uni alpha := by
    have := C09_record_total held uni alpha hα a (Or.inl hak)
    rwa [(lookup_eq_none_iff alpha a).mpr hna] at this
  have h0 : (a, (0 : Int)) ∈ target := hz _ _ a hs hfw
  obtain ⟨q, hq, huniq, hord⟩ := hall a (Or.inl hak)
  have hq0 : q = 0 := (huniq 0 h0).symm
  subst hq0
  refine ⟨target, hs, h0, huniq, by rw [hrr]; exact hfw, fun d => ?_⟩
  rw [hord d, lookup_eq_some_of_mem hh ha]
  simp only [Option.getD_some, zero_sub]
  constructor
  · rintro ⟨rfl, hd⟩; exact ⟨rfl, fun e => hd (by rw [e]; rfl)⟩
  · rintro ⟨rfl, hd⟩; exact ⟨rfl, fun e => hd (by simpa using e)⟩

/-- C09 (reach, arithmetic): filling the rebalance orders moves every target asset to its target quantity and
leaves every other asset's holding unchanged. -/
theorem C09_reach (target held : List (String × Int)) (ht : (target.map (·.1)).Nodup) :
    (∀ a q, (a, q) ∈ target → applyOrders held (rebalanceOrders target held) a = q) ∧
    (∀ a, a ∉ target.map (·.1) →
      applyOrders held (rebalanceOrders target held) a = (held.lookup a).getD 0) := by
  constructor
  · intro a q hm
    unfold applyOrders
    rw [orderedQty_rebalanceOrders, orderedQty_diff_of_mem ht hm]
    omega
  · intro a hn
    unfold applyOrders
    rw [orderedQty_rebalanceOrders, orderedQty_of_not_mem]
    · omega
    · simpa [List.map_map, Function.comp_def] using hn

/-- C09 (reach, through `pcmCall`, any sizer returning a dict). -/
theorem C09_reach_pcm (held : List (String × Int)) (uni : List String) (alpha : List (String × α))
    (sizer : List (String × α) → Except Err (List (String × Int))) (target : List (String × Int))
    (r : PcmResult α)
    (hs : sizer (fullWeightVector held uni alpha) = .ok target)
    (ht : (target.map (·.1)).Nodup)
    (hr : pcmCall held uni alpha sizer = .ok r) :
    (∀ a q, (a, q) ∈ target → applyOrders held r.orders a = q) ∧
    (∀ a, a ∉ target.map (·.1) → applyOrders held r.orders a = (held.lookup a).getD 0) := by
  obtain ⟨t', ht', rfl⟩ := pcmCall_ok_iff.mp hr
  rw [hs] at ht'; cases ht'
  exact C09_reach target held ht

/-- C09 (reach, whole book), sizer with `SizerKeys`: after the fills the holding of *every* asset equals the target
(`0` for an asset the target does not mention — such an asset is not held either). -/
theorem C09_reach_exact {held : List (String × Int)} {uni : List String} {alpha : List (String × α)}
    {sizer : List (String × α) → Except Err (List (String × Int))} (hk : SizerKeys sizer)
    (hα : (alpha.map (·.1)).Nodup) {r : PcmResult α}
    (hr : pcmCall held uni alpha sizer = .ok r) :
    ∃ target, sizer (fullWeightVector held uni alpha) = .ok target ∧
      ∀ a, applyOrders held r.orders a = (target.lookup a).getD 0 := by
  obtain ⟨target, hs, hkeys, hlt, _, _, _⟩ := C09_orders_exact hk hα hr
  have hnd := nodup_of_pairwise_lt hlt
  obtain ⟨h1, h2⟩ := C09_reach_pcm held uni alpha sizer target r hs hnd hr
  refine ⟨target, hs, fun a => ?_⟩
  by_cases ha : a ∈ target.map (·.1)
  · obtain ⟨⟨a', q⟩, hq, rfl⟩ := List.mem_map.mp ha
    rw [h1 a' q hq, lookup_eq_some_of_mem hnd hq]; rfl
  · rw [h2 a ha, (lookup_eq_none_iff target a).mpr ha]
    have : a ∉ held.map (·.1) := by
      intro hh
      apply ha
      rw [hkeys, mem_sortDedup]
      exact List.mem_append_left _ (List.mem_append_left _ hh)
    rw [(lookup_eq_none_iff held a).mpr this]

end Generic

/-! ## The two order sizers (lawful field carrier) -/

section Lawful
variable {α : Type} [Field α] [LinearOrder α] [IsStrictOrderedRing α] [FloorRing α] [NumOps α] [LawfulNumOps α]

/-- `sizer_keys`: a successful `dwSize` / `lsSize` call returns exactly the keys of the weight vector it is given,
in `sortByKey` order. -/
theorem C09_sizer_keys (fee : FeeModel α) (E x : α) (price : String → Option α) (w : Weights α)
    (target : Quantities) :
    (dwSize fee E x price w = .ok target → target.map (·.1) = (sortByKey w).map (·.1)) ∧
    (lsSize fee E x price w = .ok target → target.map (·.1) = (sortByKey w).map (·.1)) :=
  ⟨dwSize_keys fee E x price w target, lsSize_keys fee E x price w target⟩

/-- a zero weight is sized to quantity zero by both sizers: `dwQuantity fee E' 0 p = 0`, `lsQuantity fee E 0 p = 0`
for every fee model and price, and normalisation (or its `isclose` bypass) keeps a zero weight zero. -/
theorem C09_sizer_zero (fee : FeeModel α) (E x : α) (price : String → Option α) (w : Weights α)
    (target : Quantities) (a : String) (hm : (a, (Num.zero : α)) ∈ w) :
    (∀ p : α, dwQuantity fee E 0 p = 0 ∧ lsQuantity fee E 0 p = 0) ∧
    (dwSize fee E x price w = .ok target → (a, 0) ∈ target) ∧
    (lsSize fee E x price w = .ok target → (a, 0) ∈ target) :=
  ⟨fun p => ⟨dwQuantity_zero fee E p, lsQuantity_zero fee E p⟩,
   fun h => dwSize_zero fee E x price w target a h hm,
   fun h => lsSize_zero fee E x price w target a h hm⟩

variable (fee : FeeModel α) (E buffer leverage : α) (price : String → Option α)
variable {held : List (String × Int)} {uni : List String} {alpha : List (String × α)} {r : PcmResult α}

/-- C09 (orders are exactly target − held over the whole asset set), long-only sizer -/
theorem C09_orders_dw (hα : (alpha.map (·.1)).Nodup)
    (hr : pcmCall held uni alpha (dwSize fee E buffer price) = .ok r) :
    ∃ target, dwSize fee E buffer price (fullWeightVector held uni alpha) = .ok target ∧
      target.map (·.1) = sortDedup (held.map (·.1) ++ uni ++ alpha.map (·.1)) ∧
      (target.map (·.1)).Pairwise (· < ·) ∧
      (∀ a, a ∈ held.map (·.1) ∨ a ∈ uni ∨ a ∈ alpha.map (·.1) →
        ∃ q, (a, q) ∈ target ∧ (∀ q', (a, q') ∈ target → q' = q) ∧
          ∀ d, (a, d) ∈ r.orders ↔ d = q - (held.lookup a).getD 0 ∧ d ≠ 0) ∧
      (∀ o ∈ r.orders, o.1 ∈ held.map (·.1) ∨ o.1 ∈ uni ∨ o.1 ∈ alpha.map (·.1)) ∧
      r.orders = target.filterMap (fun x =>
        if x.2 - (held.lookup x.1).getD 0 ≠ 0 then some (x.1, x.2 - (held.lookup x.1).getD 0) else none) :=
  C09_orders_exact (dwSize_keys fee E buffer price) hα hr

/-- C09 (orders are exactly target − held over the whole asset set), long/short sizer -/
theorem C09_orders_ls (hα : (alpha.map (·.1)).Nodup)
    (hr : pcmCall held uni alpha (lsSize fee E leverage price) = .ok r) :
    ∃ target, lsSize fee E leverage price (fullWeightVector held uni alpha) = .ok target ∧
      target.map (·.1) = sortDedup (held.map (·.1) ++ uni ++ alpha.map (·.1)) ∧
      (target.map (·.1)).Pairwise (· < ·) ∧
      (∀ a, a ∈ held.map (·.1) ∨ a ∈ uni ∨ a ∈ alpha.map (·.1) →
        ∃ q, (a, q) ∈ target ∧ (∀ q', (a, q') ∈ target → q' = q) ∧
          ∀ d, (a, d) ∈ r.orders ↔ d = q - (held.lookup a).getD 0 ∧ d ≠ 0) ∧
      (∀ o ∈ r.orders, o.1 ∈ held.map (·.1) ∨ o.1 ∈ uni ∨ o.1 ∈ alpha.map (·.1)) ∧
      r.orders = target.filterMap (fun x =>
        if x.2 - (held.lookup x.1).getD 0 ≠ 0 then some (x.1, x.2 - (held.lookup x.1).getD 0) else none) :=
  C09_orders_exact (lsSize_keys fee E leverage price) hα hr

/-- C09 (liquidation), long-only sizer: a held asset without an alpha weight is recorded with weight zero, sized
to 0 and sold (bought back, if short) in full. -/
theorem C09_liquid_dw (hα : (alpha.map (·.1)).Nodup) (hh : (held.map (·.1)).Nodup)
    (hr : pcmCall held uni alpha (dwSize fee E buffer price) = .ok r) {a : String} {h : Int}
    (ha : (a, h) ∈ held) (hna : a ∉ alpha.map (·.1)) :
    ∃ target, dwSize fee E buffer price (fullWeightVector held uni alpha) = .ok target ∧
      (a, 0) ∈ target ∧ (∀ q, (a, q) ∈ target → q = 0) ∧
      (a, (Num.zero : α)) ∈ r.fullWeights ∧
      (∀ d, (a, d) ∈ r.orders ↔ d = -h ∧ h ≠ 0) :=
  C09_liquid (dwSize_keys fee E buffer price) (dwSize_zero fee E buffer price) hα hh hr ha hna

/-- C09 (liquidation), long/short sizer -/
theorem C09_liquid_ls (hα : (alpha.map (·.1)).Nodup) (hh : (held.map (·.1)).Nodup)
    (hr : pcmCall held uni alpha (lsSize fee E leverage price) = .ok r) {a : String} {h : Int}
    (ha : (a, h) ∈ held) (hna : a ∉ alpha.map (·.1)) :
    ∃ target, lsSize fee E leverage price (fullWeightVector held uni alpha) = .ok target ∧
      (a, 0) ∈ target ∧ (∀ q, (a, q) ∈ target → q = 0) ∧
      (a, (Num.zero : α)) ∈ r.fullWeights ∧
      (∀ d, (a, d) ∈ r.orders ↔ d = -h ∧ h ≠ 0) :=
  C09_liquid (lsSize_keys fee E leverage price) (lsSize_zero fee E leverage price) hα hh hr ha hna

/-- C09 (reach, whole book), long-only sizer -/
theorem C09_reach_dw (hα : (alpha.map (·.1)).Nodup)
    (hr : pcmCall held uni alpha (dwSize fee E buffer price) = .ok r) :
    ∃ target, dwSize fee E buffer price (fullWeightVector held uni alpha) = .ok target ∧
      ∀ a, applyOrders held r.orders a = (target.lookup a).getD 0 :=
  C09_reach_exact (dwSize_keys fee E buffer price) hα hr

/-- C09 (reach, whole book), long/short sizer -/
theorem C09_reach_ls (hα : (alpha.map (·.1)).Nodup)
    (hr : pcmCall held uni alpha (lsSize fee E leverage price) = .ok r) :
    ∃ target, lsSize fee E leverage price (fullWeightVector held uni alpha) = .ok target ∧
      ∀ a, applyOrders held r.orders a = (target.lookup a).getD 0 :=
  C09_reach_exact (lsSize_keys fee E leverage price) hα hr

end Lawful

/-! ## Non-vacuity

Holdings: long 7 `XOM` (not in the universe, not weighted: must be liquidated) and short 5 `SPY` (in the universe,
not weighted: must be bought back).  Universe `SPY, AGG` (with a duplicate).  Alpha weights `GLD` (outside both the
holdings and the universe) and `AGG`. -/

section Examples

noncomputable local instance instNumOpsQ09 : NumOps ℚ := fieldNumOps ℚ
local instance instLawfulQ09 : LawfulNumOps ℚ := fieldNumOps_lawful ℚ

def exHeld : List (String × Int) := [("XOM", 7), ("SPY", -5)]
def exUni : List String := ["SPY", "AGG", "SPY"]
def exAlpha : List (String × ℚ) := [("GLD", 1), ("AGG", 3)]
def exPrice : String → Option ℚ := fun _ => some 10
/-- a stub sizer that ignores the weights (its answer is not even sorted) -/
def exStub : List (String × ℚ) → Except Err (List (String × Int)) :=
  fun _ => .ok [("SPY", 0), ("GLD", 4), ("AGG", 3), ("XOM", 7)]

theorem exSortDedup : sortDedup ["XOM", "SPY", "SPY", "AGG", "SPY"] = ["AGG", "SPY", "XOM"] := by
  simp [sortDedup, List.mergeSort]; decide

/-- the recorded allocation: held/universe assets ascending (zero unless alpha speaks), then alpha-only `GLD` -/
theorem exFw : fullWeightVector exHeld exUni exAlpha = [("AGG", 3), ("SPY", 0), ("XOM", 0), ("GLD", 1)] := by
  have : fullAssetList exHeld exUni = ["AGG", "SPY", "XOM"] := exSortDedup
  unfold fullWeightVector
  rw [this]
  simp [dictOverlay, List.lookup, exAlpha]

theorem exAlphaNodup : (exAlpha.map (·.1)).Nodup := by simp [exAlpha]
theorem exHeldNodup : (exHeld.map (·.1)).Nodup := by simp [exHeld]

/-- `pcmCall` with the stub sizer, computed: `XOM` (target = held) gets no order, the short `SPY` is bought back -/
theorem exPcmStub : pcmCall exHeld exUni exAlpha exStub =
    .ok ⟨[("AGG", 3), ("SPY", 0), ("XOM", 0), ("GLD", 1)], [("AGG", 3), ("GLD", 4), ("SPY", 5)]⟩ := by
  apply pcmCall_ok_iff.mpr
  refine ⟨_, rfl, ?_⟩
  rw [exFw]
  simp [rebalanceOrders, sortByKey, List.mergeSort, exHeld, List.lookup]

example := C09_assets exHeld exUni exAlpha exAlphaNodup
example := C09_orders exHeld exUni exAlpha exStub _ _ rfl (by simp) exPcmStub
example := C09_reach_pcm exHeld exUni exAlpha exStub _ _ rfl (by simp) exPcmStub

theorem exTiny : (NumOps.tiny : ℚ) = 1 / 100000000 := rfl

/-- the long-only sizer on the recorded allocation: equity 1000, no buffer, no fees, every price 10;
weights `3, 0, 0, 1` normalise to `3/4, 0, 0, 1/4` -/
theorem exDw : dwSize (.zero) (1000 : ℚ) 0 exPrice [("AGG", 3), ("SPY", 0), ("XOM", 0), ("GLD", 1)] =
    .ok [("AGG", 75), ("GLD", 25), ("SPY", 0), ("XOM", 0)] := by
  have f1 : ⌊(1000 : ℚ) * (3 / 4) / 10⌋ = 75 := by rw [Int.floor_eq_iff]; norm_num
  have f3 : ⌊(1000 : ℚ) * 4⁻¹ / 10⌋ = 25 := by rw [Int.floor_eq_iff]; norm_num
  norm_num [dwSize, dwNormalise, sumNeumaier, neumaierStep, isCloseZero, sortByKey, dwQuantity,
    FeeModel.totalCost, exPrice, bind, Except.bind, exTiny, List.mergeSort]
  simp [f1, f3, bind, Except.bind, pure, Except.pure]

/-- `pcmCall` with the long-only sizer, computed: orders are target − held for all four assets, ascending;
`XOM` is sold in full (−7), the short `SPY` is bought back in full (+5) -/
theorem exPcmDw : pcmCall exHeld exUni exAlpha (dwSize (.zero) (1000 : ℚ) 0 exPrice) =
    .ok ⟨[("AGG", 3), ("SPY", 0), ("XOM", 0), ("GLD", 1)],
         [("AGG", 75), ("GLD", 25), ("SPY", 5), ("XOM", -7)]⟩ := by
  apply pcmCall_ok_iff.mpr
  refine ⟨_, by rw [exFw]; exact exDw, ?_⟩
  rw [exFw]
  simp [rebalanceOrders, sortByKey, List.mergeSort, exHeld, List.lookup]

example := C09_orders_dw (.zero) (1000 : ℚ) 0 exPrice exAlphaNodup exPcmDw
example := C09_reach_dw (.zero) (1000 : ℚ) 0 exPrice exAlphaNodup exPcmDw
/-- `XOM` (held 7, no weight) is liquidated: its only order is `−7` -/
example := C09_liquid_dw (.zero) (1000 : ℚ) 0 exPrice exAlphaNodup exHeldNodup exPcmDw
  (a := "XOM") (h := 7) (by simp [exHeld]) (by simp [exAlpha])
/-- the short `SPY` (held −5, no weight) is bought back: its only order is `+5` -/
example := C09_liquid_dw (.zero) (1000 : ℚ) 0 exPrice exAlphaNodup exHeldNodup exPcmDw
  (a := "SPY") (h := -5) (by simp [exHeld]) (by simp [exAlpha])

/-- the long/short sizer on the same allocation: equity 1000, gross leverage 1, no fees, every price 10 -/
theorem exLs : lsSize (.zero) (1000 : ℚ) 1 exPrice [("AGG", 3), ("SPY", 0), ("XOM", 0), ("GLD", 1)] =
    .ok [("AGG", 75), ("GLD", 25), ("SPY", 0), ("XOM", 0)] := by
  norm_num [lsSize, lsNormalise, sumNaive, isCloseZero, sortByKey, lsQuantity, truncI,
    FeeModel.totalCost, exPrice, bind, Except.bind, exTiny, List.mergeSort]
  have g1 : ⌊(1000 : ℚ) * (3 / 4)⌋ = 750 := by rw [Int.floor_eq_iff]; norm_num
  have g2 : ⌊(1000 : ℚ) * 4⁻¹⌋ = 250 := by rw [Int.floor_eq_iff]; norm_num
  have g3 : ⌊(750 : ℚ) / 10⌋ = 75 := by rw [Int.floor_eq_iff]; norm_num
  have g4 : ⌊(250 : ℚ) / 10⌋ = 25 := by rw [Int.floor_eq_iff]; norm_num
  have p1 : (0 : ℚ) ≤ 3 / 4 := by norm_num
  have p2 : (0 : ℚ) ≤ 750 / 10 := by norm_num
  have p3 : (0 : ℚ) ≤ 250 / 10 := by norm_num
  simp [g1, g2, bind, Except.bind, pure, Except.pure]
  simp only [p1, p2, p3, if_true, g3, g4, and_self]

theorem exPcmLs : pcmCall exHeld exUni exAlpha (lsSize (.zero) (1000 : ℚ) 1 exPrice) =
    .ok ⟨[("AGG", 3), ("SPY", 0), ("XOM", 0), ("GLD", 1)],
         [("AGG", 75), ("GLD", 25), ("SPY", 5), ("XOM", -7)]⟩ := by
  apply pcmCall_ok_iff.mpr
  refine ⟨_, by rw [exFw]; exact exLs, ?_⟩
  rw [exFw]
  simp [rebalanceOrders, sortByKey, List.mergeSort, exHeld, List.lookup]

example := C09_orders_ls (.zero) (1000 : ℚ) 1 exPrice exAlphaNodup exPcmLs
example := C09_reach_ls (.zero) (1000 : ℚ) 1 exPrice exAlphaNodup exPcmLs
example := C09_liquid_ls (.zero) (1000 : ℚ) 1 exPrice exAlphaNodup exHeldNodup exPcmLs
  (a := "XOM") (h := 7) (by simp [exHeld]) (by simp [exAlpha])

end Examples

end Qs
