import QsProofs.Lemmas.Calendar

/-!
# C12 — The simulation clock is strictly increasing and covers exactly business days

For any `start ≤ end` whose end time-of-day is not before the start's, `Qs.simEvents start end pre post`
emits, for each Monday–Friday date `d` with `dayOf start ≤ d ≤ dayOf end` and for no other date, the day
template: market open at 14:30 (`d*86400 + 52200`) then market close at 21:00 (`d*86400 + 75600`), preceded by
the 00:00 pre-market event / followed by the 23:59 post-market event iff enabled; all event times are strictly
increasing.  `end < start` is rejected with `Err.value`.

* `C12_events`, `C12_mem_bdayRange`   exactly the business days of the range, each with its template;
* `C12_events_general`                 the same without the time-of-day precondition: the last date is then
                                       `hiOf start end = (end - todOf start) / 86400` (pandas drops the end date
                                       when its stamp `date + todOf start` exceeds `end`);
* `C12_sorted`                         event times strictly increasing (all flag combinations, any input);
* `C12_reject`                         `end < start` is an error;
* `C12_template`, `C12_template_tod`   the per-day template and its times of day.
-/

namespace Qs.C12
open Qs Qs.Cal

/-- the dates of the clock: the business days `d` with `dayOf start ≤ d ≤ dayOf end` -/
theorem C12_bdayRange (start end_ : Int) (htod : todOf start ≤ todOf end_) :
    bdayRange start end_ =
      (daysFrom (dayOf start) (dayOf end_ + 1 - dayOf start).toNat).filter isBDay := by
  rw [bdayRange_eq, hiOf_eq start end_ htod]

/-- membership form: exactly the Monday–Friday dates of the range -/
theorem C12_mem_bdayRange (start end_ d : Int) (htod : todOf start ≤ todOf end_) :
    d ∈ bdayRange start end_ ↔ dayOf start ≤ d ∧ d ≤ dayOf end_ ∧ weekday d ≤ 4 := by
  rw [C12_bdayRange start end_ htod, mem_filter_daysFrom]
  simp only [isBDay, decide_eq_true_eq]
  omega

/-- C12: the clock emits exactly the template of each Monday–Friday date of the range, in date order -/
theorem C12_events (start end_ : Int) (pre post : Bool) (hle : start ≤ end_) (htod : todOf start ≤ todOf end_) :
    simEvents start end_ pre post =
      .ok (((daysFrom (dayOf start) (dayOf end_ + 1 - dayOf start).toNat).filter isBDay).flatMap
        (dayTemplate pre post)) := by
  unfold simEvents
  rw [if_neg (by omega), C12_bdayRange start end_ htod]

/-- without the time-of-day precondition the last date is `hiOf start end` (`= dayOf end` or `dayOf end - 1`) -/
theorem C12_events_general (start end_ : Int) (pre post : Bool) (hle : start ≤ end_) :
    simEvents start end_ pre post =
      .ok (((daysFrom (dayOf start) (hiOf start end_ + 1 - dayOf start).toNat).filter isBDay).flatMap
        (dayTemplate pre post)) := by
  unfold simEvents
  rw [if_neg (by omega), bdayRange_eq]

/-- an event list is emitted for an event `e` iff `e` is in the template of a business day of the range -/
theorem C12_mem_events (start end_ : Int) (pre post : Bool) (hle : start ≤ end_)
    (htod : todOf start ≤ todOf end_) :
    ∃ evs, simEvents start end_ pre post = .ok evs ∧
      ∀ e, e ∈ evs ↔ ∃ d, dayOf start ≤ d ∧ d ≤ dayOf end_ ∧ weekday d ≤ 4 ∧ e ∈ dayTemplate pre post d := by
  refine ⟨_, C12_events start end_ pre post hle htod, fun e => ?_⟩
  rw [List.mem_flatMap, ← C12_bdayRange start end_ htod]
  constructor
  · rintro ⟨d, hd, he⟩
    have := (C12_mem_bdayRange start end_ d htod).1 hd
    exact ⟨d, this.1, this.2.1, this.2.2, he⟩
  · rintro ⟨d, h1, h2, h3, he⟩
    exact ⟨d, (C12_mem_bdayRange start end_ d htod).2 ⟨h1, h2, h3⟩, he⟩

/-- C12: event times are strictly increasing (any flags, any accepted input) -/
theorem C12_sorted (start end_ : Int) (pre post : Bool) (evs : List SimEvent)
    (h : simEvents start end_ pre post = .ok evs) :
    (evs.map (·.time)).Pairwise (· < ·) := by
  unfold simEvents at h
  split at h
  · cases h
  · injection h with h
    subst h
    rw [bdayRange_eq]
    exact template_flatMap_sorted pre post _ (filter_daysFrom_pairwise _ _ _)

/-- C12: an end earlier than the start is rejected -/
theorem C12_reject (start end_ : Int) (pre post : Bool) (h : end_ < start) :
    simEvents start end_ pre post = .error .value := by
  unfold simEvents
  rw [if_pos h]

/-- C12: the template of day `d` — open 14:30 then close 21:00, bracketed by 00:00 / 23:59 iff enabled -/
theorem C12_template (pre post : Bool) (d : Int) :
    dayTemplate pre post d =
      (if pre then [⟨d * 86400, .preMarket⟩] else []) ++
      [⟨d * 86400 + 52200, .marketOpen⟩, ⟨d * 86400 + 75600, .marketClose⟩] ++
      (if post then [⟨d * 86400 + 86340, .postMarket⟩] else []) := rfl

theorem C12_template_cases (d : Int) :
    dayTemplate false false d = [⟨d * 86400 + 52200, .marketOpen⟩, ⟨d * 86400 + 75600, .marketClose⟩] ∧
    dayTemplate true false d =
      [⟨d * 86400, .preMarket⟩, ⟨d * 86400 + 52200, .marketOpen⟩, ⟨d * 86400 + 75600, .marketClose⟩] ∧
    dayTemplate false true d =
      [⟨d * 86400 + 52200, .marketOpen⟩, ⟨d * 86400 + 75600, .marketClose⟩, ⟨d * 86400 + 86340, .postMarket⟩] ∧
    dayTemplate true true d =
      [⟨d * 86400, .preMarket⟩, ⟨d * 86400 + 52200, .marketOpen⟩, ⟨d * 86400 + 75600, .marketClose⟩,
        ⟨d * 86400 + 86340, .postMarket⟩] :=
  ⟨rfl, rfl, rfl, rfl⟩

/-- every event of day `d`'s template lies on date `d`; the four times of day are 00:00, 14:30, 21:00, 23:59 -/
theorem C12_template_tod (d : Int) :
    (∀ pre post e, e ∈ dayTemplate pre post d → dayOf e.time = d) ∧
    todOf (d * 86400) = 0 ∧ todOf (d * 86400 + 52200) = 14 * 3600 + 30 * 60 ∧
    todOf (d * 86400 + 75600) = 21 * 3600 ∧ todOf (d * 86400 + 86340) = 23 * 3600 + 59 * 60 := by
  refine ⟨fun pre post e he => ?_, ?_, ?_, ?_, ?_⟩
  · have := template_time_bounds he
    unfold dayOf; omega
  all_goals (unfold todOf; omega)

/-! ## Non-vacuity -/

/-- 2020-02-28 (Fri, day 18320) 09:00:00 … 2020-03-02 (Mon, day 18323) 17:00:00: the weekend 02-29 / 03-01 is
skipped; hypotheses of `C12_events` hold. -/
example :
    let start : Int := 18320 * 86400 + 32400
    let end_ : Int := 18323 * 86400 + 61200
    start ≤ end_ ∧ todOf start ≤ todOf end_ ∧
    simEvents start end_ true true = .ok
      [⟨18320 * 86400, .preMarket⟩, ⟨18320 * 86400 + 52200, .marketOpen⟩,
       ⟨18320 * 86400 + 75600, .marketClose⟩, ⟨18320 * 86400 + 86340, .postMarket⟩,
       ⟨18323 * 86400, .preMarket⟩, ⟨18323 * 86400 + 52200, .marketOpen⟩,
       ⟨18323 * 86400 + 75600, .marketClose⟩, ⟨18323 * 86400 + 86340, .postMarket⟩] ∧
    bdayRange start end_ = [18320, 18323] := by
  refine ⟨by decide, by decide, by rfl, by rfl⟩

/-- the reject branch is reachable -/
example : simEvents 100 99 false false = .error .value := C12_reject 100 99 false false (by decide)

/-- the time-of-day precondition matters: with an end time-of-day before the start's the end date is dropped
(pandas' `date_range` keeps the start's time of day), as `C12_events_general` says. -/
example : bdayRange (18320 * 86400 + 61200) (18323 * 86400 + 32400) = [18320] := by rfl

end Qs.C12
