import QsProofs.Lemmas.Pcm
import Mathlib.Data.Rat.Floor
import Mathlib.Tactic.NormNum
import Mathlib.Algebra.BigOperators.Group.List.Basic

/-!
# C19 — Assets trade only while they belong to the universe (unit level)

With a universe-driven alpha model, an asset receives a target weight, an order or a position only at
rebalances at or after its universe entry time (entry ≤ t, inclusive), and it is included from the first such
rebalance onward; an asset with no entry date is never included, and a static universe always yields exactly
its configured list.  The fixed-weight optimiser returns its input weights unchanged and the equal-weight
optimiser returns equal weights summing to the configured scale, each for exactly the assets it is given.

All theorems are about `Qs.dynamicAssets / staticAssets / singleSignal / fixedWeight / equalWeight`
(`QsModel/Sizer.lean`) and `Qs.fullWeightVector / pcmCall` (`QsModel/Pcm.lean`).

* `Entered dates t a` is the English "`a` has an entry date `e` with `e ≤ t`": `∃ e, (a, some e) ∈ dates ∧ e ≤ t`.
* The composition theorems use the two facts `SizerKeys` (the sizer returns exactly the keys it is given) about
  the order sizer; `dwSize_keys` / `lsSize_keys` prove it for the two sizers and the `…_dw` / `…_ls` corollaries
  instantiate.
* The session-level statement (over a whole backtest) is the induction whose step is `C19_pcm_invariant`: the
  positions after the fills are the held assets plus the ordered assets.
-/

set_option linter.unusedSectionVars false
set_option linter.unusedVariables false

namespace Qs
open NumOps Num

/-- `a` has an entry date at or before `t` -/
def Entered (dates : List (String × Option Int)) (t : Int) (a : String) : Prop :=
  ∃ e, (a, some e) ∈ dates ∧ e ≤ t

theorem Entered.mono {dates : List (String × Option Int)} {t t' : Int} (h : t ≤ t') {a : String}
    (ha : Entered dates t a) : Entered dates t' a := by
  obtain ⟨e, he, het⟩ := ha
  exact ⟨e, he, le_trans het h⟩

/-! ## Universes -/

theorem mem_dynamicAssets {dates : List (String × Option Int)} {t : Int} {a : String} :
    a ∈ dynamicAssets dates t ↔ Entered dates t a := by
  unfold dynamicAssets Entered
  rw [List.mem_filterMap]
  constructor
  · rintro ⟨⟨a', d⟩, hm, hf⟩
    cases d with
    | none => simp at hf
    | some e =>
      simp only at hf
      by_cases he : e ≤ t
      · simp only [he, if_true, Option.some.injEq] at hf
        subst hf
        exact ⟨e, hm, he⟩
      · simp [he] at hf
  · rintro ⟨e, hm, he⟩
    exact ⟨(a, some e), hm, by simp [he]⟩

theorem dynamicAssets_sublist_mono (dates : List (String × Option Int)) {t t' : Int} (h : t ≤ t') :
    (dynamicAssets dates t).Sublist (dynamicAssets dates t') := by
  unfold dynamicAssets
  induction dates with
  | nil => simp
  | cons x xs ih =>
    obtain ⟨a, d⟩ := x
    cases d with
    | none => simpa [List.filterMap_cons] using ih
    | some e =>
      by_cases he : e ≤ t
      · have he' : e ≤ t' := le_trans he h
        simp only [List.filterMap_cons, he, he', if_true]
        exact ih.cons_cons a
      · by_cases he' : e ≤ t'
        · simp only [List.filterMap_cons, he, he', if_true, if_false]
          exact ih.cons a
        · simp only [List.filterMap_cons, he, he', if_false]
          exact ih

theorem dynamicAssets_eq_filter (dates : List (String × Option Int)) (t : Int) :
    dynamicAssets dates t =
      (dates.filter fun x => match x.2 with
        | some e => decide (e ≤ t)
        | none => false).map (·.1) := by
  unfold dynamicAssets
  induction dates with
  | nil => rfl
  | cons x xs ih =>
    obtain ⟨a, d⟩ := x
    cases d with
    | none => simpa [List.filterMap_cons, List.filter_cons] using ih
    | some e =>
      by_cases he : e ≤ t
      · simp only [List.filterMap_cons, List.filter_cons, he, if_true, decide_true, List.map_cons, ih]
      · simp only [List.filterMap_cons, List.filter_cons, he, if_false, decide_false, ih]
        rfl

/-- C19 (dynamic universe): membership is exactly "entry date present and `entry ≤ t`" (inclusive); the result
keeps the dictionary order (it is the key list of a filter of `dates`, a sublist of all keys); it only grows
with `t`, keeping the order ("included from the first such rebalance onward"). -/
theorem C19_dynamic (dates : List (String × Option Int)) (t : Int) :
    (∀ a, a ∈ dynamicAssets dates t ↔ ∃ e, (a, some e) ∈ dates ∧ e ≤ t) ∧
    dynamicAssets dates t =
      (dates.filter fun x => match x.2 with
        | some e => decide (e ≤ t)
        | none => false).map (·.1) ∧
    (dynamicAssets dates t).Sublist (dates.map (·.1)) ∧
    (∀ t', t ≤ t' → (dynamicAssets dates t).Sublist (dynamicAssets dates t')) ∧
    (∀ t', t ≤ t' → ∀ a, a ∈ dynamicAssets dates t → a ∈ dynamicAssets dates t') := by
  refine ⟨fun a => mem_dynamicAssets, dynamicAssets_eq_filter dates t, ?_,
    fun t' h => dynamicAssets_sublist_mono dates h,
    fun t' h a ha => (dynamicAssets_sublist_mono dates h).subset ha⟩
  rw [dynamicAssets_eq_filter]
  exact List.filter_sublist.map _

/-- C19 (no entry date): an asset whose entries (if any) carry no date is in the universe at no time. -/
theorem C19_never (dates : List (String × Option Int)) (a : String) (h : ∀ e, (a, some e) ∉ dates) (t : Int) :
    a ∉ dynamicAssets dates t := by
  rw [mem_dynamicAssets]
  rintro ⟨e, he, _⟩
  exact h e he

/-- C19 (inclusion is from the entry time on, inclusive): an asset with entry date `e` is in the universe at every
`t ≥ e`, in particular at `t = e`. -/
theorem C19_from_entry (dates : List (String × Option Int)) (a : String) (e : Int) (h : (a, some e) ∈ dates)
    (t : Int) (ht : e ≤ t) : a ∈ dynamicAssets dates t :=
  mem_dynamicAssets.mpr ⟨e, h, ht⟩

/-- C19 (static universe): always exactly the configured list. -/
theorem C19_static (l : List String) (t : Int) : staticAssets l t = l := rfl

/-! ## Alpha model and optimisers -/

/-- C19 (single-signal alpha model): one weight per universe asset, in universe order, every weight the signal. -/
theorem C19_alpha {α : Type} (U : List String) (s : α) :
    (singleSignal U s).map (·.1) = U ∧ (∀ x ∈ singleSignal U s, x.2 = s) ∧
    (∀ a, a ∈ U → (a, s) ∈ singleSignal U s) := by
  unfold singleSignal
  refine ⟨by simp [List.map_map, Function.comp_def], ?_, ?_⟩
  · intro x hx
    obtain ⟨a, _, rfl⟩ := List.mem_map.mp hx
    rfl
  · intro a ha
    exact List.mem_map.mpr ⟨a, ha, rfl⟩

section Opt
variable {α : Type} [Field α] [LinearOrder α] [IsStrictOrderedRing α] [FloorRing α] [NumOps α] [LawfulNumOps α]

/-- C19 (fixed-weight optimiser): the input, unchanged. -/
theorem C19_fixed (w : Weights α) : fixedWeight w = w := rfl

/-- C19 (equal-weight optimiser): same keys in the same order, every weight `scale * (1 / n)`, and — for a
non-empty input — the weights sum to `scale`. -/
theorem C19_equal (scale : α) (w : Weights α) :
    (equalWeight scale w).map (·.1) = w.map (·.1) ∧
    (∀ x ∈ equalWeight scale w, x.2 = scale * (1 / (w.length : α))) ∧
    (w ≠ [] → ((equalWeight scale w).map (·.2)).sum = scale) := by
  unfold equalWeight
  refine ⟨by simp [List.map_map, Function.comp_def], ?_, ?_⟩
  · intro x hx
    obtain ⟨y, _, rfl⟩ := List.mem_map.mp hx
    simp
  · intro hw
    have hn : (w.length : α) ≠ 0 := by
      have : w.length ≠ 0 := fun h => hw (List.length_eq_zero_iff.mp h)
      exact_mod_cast this
    have : (w.map fun x => (x.1, scale * (one / ofInt (w.length : Int)))).map (·.2)
        = List.replicate w.length (scale * (1 / (w.length : α))) := by
      rw [List.map_map]
      simp only [Function.comp_def, ofInt_eq, Int.cast_natCast, Int.cast_one]
      exact List.map_const' ..
    rw [this, List.sum_replicate, nsmul_eq_mul]
    field_simp

end Opt

/-! ## Composition at one rebalance -/

section Pcm
variable {α : Type} [NumOps α]

/-- C19 (inductive step for sessions), any sizer that returns exactly the keys it is given: if every held asset
entered the universe by `t₀ ≤ t`, then at the rebalance at `t` with the universe-driven alpha model every key of
the full weight vector / recorded allocation, every target asset and every order asset has entered by `t`; so the
positions after the fills (held assets ∪ ordered assets) again satisfy the invariant, at `t`. -/
theorem C19_pcm_invariant (dates : List (String × Option Int)) (t₀ t : Int) (htt : t₀ ≤ t)
    (held : List (String × Int)) (hheld : ∀ a ∈ held.map (·.1), ∃ e, (a, some e) ∈ dates ∧ e ≤ t₀)
    (s : α) (sizer : List (String × α) → Except Err (List (String × Int))) (hk : SizerKeys sizer)
    (r : PcmResult α)
    (hr : pcmCall held (dynamicAssets dates t) (singleSignal (dynamicAssets dates t) s) sizer = .ok r) :
    (∀ a ∈ (fullWeightVector held (dynamicAssets dates t)
        (singleSignal (dynamicAssets dates t) s)).map (·.1), ∃ e, (a, some e) ∈ dates ∧ e ≤ t) ∧
    (∀ x ∈ r.fullWeights, ∃ e, (x.1, some e) ∈ dates ∧ e ≤ t) ∧
    (∃ target, sizer (fullWeightVector held (dynamicAssets dates t)
        (singleSignal (dynamicAssets dates t) s)) = .ok target ∧
      ∀ y ∈ target, ∃ e, (y.1, some e) ∈ dates ∧ e ≤ t) ∧
    (∀ o ∈ r.orders, ∃ e, (o.1, some e) ∈ dates ∧ e ≤ t) ∧
    (∀ a, a ∈ held.map (·.1) ∨ a ∈ r.orders.map (·.1) → ∃ e, (a, some e) ∈ dates ∧ e ≤ t) := by
  obtain ⟨target, hs, rfl⟩ := pcmCall_ok_iff.mp hr
  have hheld' : ∀ a ∈ held.map (·.1), Entered dates t a := fun a ha => Entered.mono htt (hheld a ha)
  have hK : ∀ a ∈ (fullWeightVector held (dynamicAssets dates t)
      (singleSignal (dynamicAssets dates t) s)).map (·.1), Entered dates t a := by
    intro a ha
    rcases mem_fullWeightVector_keys.mp ha with h | h | h
    · exact hheld' a h
    · exact mem_dynamicAssets.mp h
    · rw [(C19_alpha _ s).1] at h
      exact mem_dynamicAssets.mp h
  have hT : ∀ y ∈ target, Entered dates t y.1 := by
    intro y hy
    apply hK
    have : y.1 ∈ target.map (·.1) := List.mem_map.mpr ⟨y, hy, rfl⟩
    rw [hk _ _ hs] at this
    exact (sortByKey_keys_perm _).mem_iff.mp this
  have hO : ∀ o ∈ rebalanceOrders target held, Entered dates t o.1 := by
    rintro ⟨a, d⟩ ho
    obtain ⟨q, hq, _, _⟩ := mem_rebalanceOrders.mp ho
    exact hT (a, q) hq
  refine ⟨hK, fun x hx => hK x.1 (List.mem_map.mpr ⟨x, hx, rfl⟩), ⟨target, hs, hT⟩, hO, ?_⟩
  rintro a (ha | ha)
  · exact hheld' a ha
  · obtain ⟨o, ho, rfl⟩ := List.mem_map.mp ha
    exact hO o ho

/-- C19 (only after entry), empty holdings: every key of the full weight vector — hence every recorded allocation
key, every target asset and every order asset — has an entry date `e ≤ t`. -/
theorem C19_pcm_only (dates : List (String × Option Int)) (t : Int)
    (s : α) (sizer : List (String × α) → Except Err (List (String × Int))) (hk : SizerKeys sizer)
    (r : PcmResult α)
    (hr : pcmCall [] (dynamicAssets dates t) (singleSignal (dynamicAssets dates t) s) sizer = .ok r) :
    (∀ a ∈ (fullWeightVector [] (dynamicAssets dates t)
        (singleSignal (dynamicAssets dates t) s)).map (·.1), ∃ e, (a, some e) ∈ dates ∧ e ≤ t) ∧
    (∀ x ∈ r.fullWeights, ∃ e, (x.1, some e) ∈ dates ∧ e ≤ t) ∧
    (∃ target, sizer (fullWeightVector [] (dynamicAssets dates t)
        (singleSignal (dynamicAssets dates t) s)) = .ok target ∧
      ∀ y ∈ target, ∃ e, (y.1, some e) ∈ dates ∧ e ≤ t) ∧
    (∀ o ∈ r.orders, ∃ e, (o.1, some e) ∈ dates ∧ e ≤ t) := by
  obtain ⟨h1, h2, h3, h4, _⟩ :=
    C19_pcm_invariant dates t t (le_refl t) [] (by simp) s sizer hk r hr
  exact ⟨h1, h2, h3, h4⟩

/-- C19 (included from entry onward): at a rebalance at `t`, every asset with an entry date `e ≤ t` is a key of the
recorded allocation, with the signal as its weight, and (sizer with `SizerKeys`) is given a target quantity —
whatever is held. -/
theorem C19_from (dates : List (String × Option Int)) (t : Int) (held : List (String × Int))
    (s : α) (sizer : List (String × α) → Except Err (List (String × Int))) (hk : SizerKeys sizer)
    (r : PcmResult α)
    (hr : pcmCall held (dynamicAssets dates t) (singleSignal (dynamicAssets dates t) s) sizer = .ok r)
    (a : String) (e : Int) (hae : (a, some e) ∈ dates) (het : e ≤ t) :
    a ∈ r.fullWeights.map (·.1) ∧ (a, s) ∈ r.fullWeights ∧
    ∃ target, sizer (fullWeightVector held (dynamicAssets dates t)
        (singleSignal (dynamicAssets dates t) s)) = .ok target ∧ a ∈ target.map (·.1) := by
  obtain ⟨target, hs, rfl⟩ := pcmCall_ok_iff.mp hr
  have hU : a ∈ dynamicAssets dates t := mem_dynamicAssets.mpr ⟨e, hae, het⟩
  have hmem : (a, s) ∈ fullWeightVector held (dynamicAssets dates t)
      (singleSignal (dynamicAssets dates t) s) := by
    rw [mem_fullWeightVector]
    left
    refine ⟨mem_fullAssetList.mpr (Or.inr hU), ?_⟩
    have hk' : a ∈ (singleSignal (dynamicAssets dates t) s).map (·.1) := by
      rw [(C19_alpha _ s).1]; exact hU
    obtain ⟨v, hv⟩ := lookup_isSome_of_mem_keys hk'
    rw [hv]
    exact ((C19_alpha _ s).2.1 _ (mem_of_lookup_eq_some hv)).symm
  have hkey : a ∈ (fullWeightVector held (dynamicAssets dates t)
      (singleSignal (dynamicAssets dates t) s)).map (·.1) := List.mem_map.mpr ⟨(a, s), hmem, rfl⟩
  refine ⟨hkey, hmem, target, hs, ?_⟩
  rw [hk _ _ hs]
  exact (sortByKey_keys_perm _).mem_iff.mpr hkey

end Pcm

/-! ## Instantiation at the two order sizers -/

section Lawful
variable {α : Type} [Field α] [LinearOrder α] [IsStrictOrderedRing α] [FloorRing α] [NumOps α] [LawfulNumOps α]
variable (fee : FeeModel α) (E buffer leverage : α) (price : String → Option α)

theorem C19_pcm_invariant_dw (dates : List (String × Option Int)) (t₀ t : Int) (htt : t₀ ≤ t)
    (held : List (String × Int)) (hheld : ∀ a ∈ held.map (·.1), ∃ e, (a, some e) ∈ dates ∧ e ≤ t₀)
    (s : α) (r : PcmResult α)
    (hr : pcmCall held (dynamicAssets dates t) (singleSignal (dynamicAssets dates t) s)
      (dwSize fee E buffer price) = .ok r) :
    (∀ x ∈ r.fullWeights, ∃ e, (x.1, some e) ∈ dates ∧ e ≤ t) ∧
    (∀ o ∈ r.orders, ∃ e, (o.1, some e) ∈ dates ∧ e ≤ t) ∧
    (∀ a, a ∈ held.map (·.1) ∨ a ∈ r.orders.map (·.1) → ∃ e, (a, some e) ∈ dates ∧ e ≤ t) := by
  obtain ⟨_, h2, _, h4, h5⟩ :=
    C19_pcm_invariant dates t₀ t htt held hheld s _ (dwSize_keys fee E buffer price) r hr
  exact ⟨h2, h4, h5⟩

theorem C19_pcm_invariant_ls (dates : List (String × Option Int)) (t₀ t : Int) (htt : t₀ ≤ t)
    (held : List (String × Int)) (hheld : ∀ a ∈ held.map (·.1), ∃ e, (a, some e) ∈ dates ∧ e ≤ t₀)
    (s : α) (r : PcmResult α)
    (hr : pcmCall held (dynamicAssets dates t) (singleSignal (dynamicAssets dates t) s)
      (lsSize fee E leverage price) = .ok r) :
    (∀ x ∈ r.fullWeights, ∃ e, (x.1, some e) ∈ dates ∧ e ≤ t) ∧
    (∀ o ∈ r.orders, ∃ e, (o.1, some e) ∈ dates ∧ e ≤ t) ∧
    (∀ a, a ∈ held.map (·.1) ∨ a ∈ r.orders.map (·.1) → ∃ e, (a, some e) ∈ dates ∧ e ≤ t) := by
  obtain ⟨_, h2, _, h4, h5⟩ :=
    C19_pcm_invariant dates t₀ t htt held hheld s _ (lsSize_keys fee E leverage price) r hr
  exact ⟨h2, h4, h5⟩

theorem C19_from_dw (dates : List (String × Option Int)) (t : Int) (held : List (String × Int))
    (s : α) (r : PcmResult α)
    (hr : pcmCall held (dynamicAssets dates t) (singleSignal (dynamicAssets dates t) s)
      (dwSize fee E buffer price) = .ok r)
    (a : String) (e : Int) (hae : (a, some e) ∈ dates) (het : e ≤ t) :
    a ∈ r.fullWeights.map (·.1) ∧ (a, s) ∈ r.fullWeights :=
  let ⟨h1, h2, _⟩ := C19_from dates t held s _ (dwSize_keys fee E buffer price) r hr a e hae het
  ⟨h1, h2⟩

theorem C19_from_ls (dates : List (String × Option Int)) (t : Int) (held : List (String × Int))
    (s : α) (r : PcmResult α)
    (hr : pcmCall held (dynamicAssets dates t) (singleSignal (dynamicAssets dates t) s)
      (lsSize fee E leverage price) = .ok r)
    (a : String) (e : Int) (hae : (a, some e) ∈ dates) (het : e ≤ t) :
    a ∈ r.fullWeights.map (·.1) ∧ (a, s) ∈ r.fullWeights :=
  let ⟨h1, h2, _⟩ := C19_from dates t held s _ (lsSize_keys fee E leverage price) r hr a e hae het
  ⟨h1, h2⟩

end Lawful

/-! ## Non-vacuity

`D` enters at 7, `C` at 10, `A` at 5, `B` has no entry date (dictionary order `D, B, C, A`). -/

section Examples

noncomputable local instance instNumOpsQ19 : NumOps ℚ := fieldNumOps ℚ
local instance instLawfulQ19 : LawfulNumOps ℚ := fieldNumOps_lawful ℚ

def exDates : List (String × Option Int) := [("D", some 7), ("B", none), ("C", some 10), ("A", some 5)]

example : dynamicAssets exDates 4 = [] := by decide
example : dynamicAssets exDates 5 = ["A"] := by decide
/-- inclusive at the entry time 7, dictionary order kept -/
example : dynamicAssets exDates 7 = ["D", "A"] := by decide
/-- `B` (no entry date) never appears -/
example : dynamicAssets exDates 1000 = ["D", "C", "A"] := by decide
example : staticAssets ["X", "Y", "X"] 3 = ["X", "Y", "X"] := rfl
example : singleSignal (dynamicAssets exDates 7) (1 : ℚ) = [("D", 1), ("A", 1)] := by decide

example : equalWeight (2 : ℚ) [("A", 5), ("B", 7), ("C", 0)] = [("A", 2 / 3), ("B", 2 / 3), ("C", 2 / 3)] := by
  norm_num [equalWeight]
example : ((equalWeight (2 : ℚ) [("A", 5), ("B", 7), ("C", 0)]).map (·.2)).sum = 2 :=
  (C19_equal (2 : ℚ) [("A", 5), ("B", 7), ("C", 0)]).2.2 (by simp)

def exHeld19 : List (String × Int) := [("A", 3)]
def exPrice19 : String → Option ℚ := fun _ => some 10

theorem exFw19 : fullWeightVector exHeld19 (dynamicAssets exDates 7) (singleSignal (dynamicAssets exDates 7) (1 : ℚ))
    = [("A", 1), ("D", 1)] := by
  have h1 : dynamicAssets exDates 7 = ["D", "A"] := by decide
  have h2 : fullAssetList exHeld19 ["D", "A"] = ["A", "D"] := by
    simp [fullAssetList, exHeld19, sortDedup, List.mergeSort]; decide
  rw [h1]
  unfold fullWeightVector
  rw [h2]
  simp [dictOverlay, List.lookup, singleSignal]

theorem exTiny19 : (NumOps.tiny : ℚ) = 1 / 100000000 := rfl

theorem exDw19 : dwSize (.zero) (1000 : ℚ) 0 exPrice19 [("A", 1), ("D", 1)] = .ok [("A", 50), ("D", 50)] := by
  have f1 : ⌊(1000 : ℚ) * 2⁻¹ / 10⌋ = 50 := by rw [Int.floor_eq_iff]; norm_num
  norm_num [dwSize, dwNormalise, sumNeumaier, neumaierStep, isCloseZero, sortByKey, dwQuantity,
    FeeModel.totalCost, exPrice19, bind, Except.bind, exTiny19, List.mergeSort]
  simp [f1, bind, Except.bind, pure, Except.pure]

/-- the rebalance at `t = 7` with `A` (entered at 5) held: `D` is weighted and ordered from its entry time on,
`C` (enters at 10) and `B` (never) are neither weighted nor ordered -/
theorem exPcm19 : pcmCall exHeld19 (dynamicAssets exDates 7) (singleSignal (dynamicAssets exDates 7) (1 : ℚ))
      (dwSize (.zero) (1000 : ℚ) 0 exPrice19) =
    .ok ⟨[("A", 1), ("D", 1)], [("A", 47), ("D", 50)]⟩ := by
  apply pcmCall_ok_iff.mpr
  refine ⟨_, by rw [exFw19]; exact exDw19, ?_⟩
  rw [exFw19]
  simp [rebalanceOrders, sortByKey, List.mergeSort, exHeld19, List.lookup]

example := C19_pcm_invariant_dw (.zero) (1000 : ℚ) 0 exPrice19 exDates 6 7 (by decide) exHeld19
  (by simp [exHeld19, exDates]) 1 _ exPcm19
example := C19_from_dw (.zero) (1000 : ℚ) 0 exPrice19 exDates 7 exHeld19 1 _ exPcm19 "D" 7
  (by simp [exDates]) (le_refl _)

/-- empty holdings, a sizer that returns one share for every key it is given -/
def exStub19 : List (String × ℚ) → Except Err (List (String × Int)) :=
  fun w => .ok ((sortByKey w).map fun x => (x.1, 1))

theorem exStub19_keys : SizerKeys exStub19 := by
  intro w target h
  cases h
  simp [List.map_map, Function.comp_def]

example := C19_pcm_only exDates 7 (1 : ℚ) exStub19 exStub19_keys _ (pcmCall_ok_iff.mpr ⟨_, rfl, rfl⟩)

end Examples

end Qs
