import QsProofs.Lemmas.Sizer
import Mathlib.Data.Rat.Floor
import Mathlib.Tactic.NormNum

/-!
# C11 — Long/short sizing respects gross leverage and the sign of every weight

For any signed weights, positive prices, positive equity, leverage L > 0 and fee rate f, each target
quantity is a whole number carrying the sign of its weight (or zero), obtained by truncation toward zero,
and is the largest such number affordable within the asset's leverage-scaled allocation to within one
currency unit; the sum of |quantity| × price never exceeds L × equity × (1 + f).  A non-positive leverage
or an unavailable price is rejected with an error.

All theorems are about `Qs.lsSize`, `Qs.lsCheckLeverage` of `QsModel/Sizer.lean`.

Notation: `G = Σ |wᵢ|` is `(w.map fun x => |x.2|).sum`; the allocation of asset `a` with weight `wa` is
`A = E * wa * (L / G)`; the after-cost dollars are `D = A − f·|A|` with `f = feeRate fee` (`c + τ` for
`FeeModel.percent c τ`, `0` for `FeeModel.zero`; `totalCost_eq : fee.totalCost x = feeRate fee * |x|`);
`FeeNonneg fee` says both rates are `≥ 0`.  `Num.truncI` is Python's `int()` (truncation toward zero).
A NaN price is `price a = none`.

Hypotheses forced by the proofs (known findings about the real code):
* `tiny < G` (`np.isclose(G, 0)` is false) in all three main theorems.  With `0 < G ≤ tiny` the weights are
  used unscaled: `C11_gross_fails_tiny_sum`.
* `feeRate fee ≤ 1` in `C11_sign` only.  With a total fee rate above 100 % a positive weight gets a negative
  quantity: `C11_sign_fails_fee_gt_one`.

`C11_afford` needs no sign condition on `E`, `L` or the fee rates; `C11_gross` needs no upper bound on the
fee rate.  The bound `L * E * (1 + f)` of `C11_gross` cannot be improved to `L * E`: for a short position
`|D| = (1 + f)·|A|` (the fee estimate is *added* to the short dollars), see `exGross_exceeds_LE`.
-/

set_option linter.unusedSectionVars false

namespace Qs
open NumOps Num

section
variable {α : Type} [Field α] [LinearOrder α] [IsStrictOrderedRing α] [FloorRing α] [NumOps α] [LawfulNumOps α]

/-- C11 (sign): every target quantity is the double truncation toward zero of the after-cost dollars over
the price, and carries the sign of its weight (or is zero). -/
theorem C11_sign (fee : FeeModel α) (E L : α) (price : String → Option α) (w : Weights α) (q : Quantities)
    (hnd : (w.map (·.1)).Nodup)
    (hp : ∀ a p, price a = some p → 0 < p) (hE : 0 < E) (hL : 0 < L)
    (hfee : FeeNonneg fee) (hf1 : feeRate fee ≤ 1) (hG : tiny < (w.map fun x => |x.2|).sum)
    (hq : lsSize fee E L price w = .ok q) :
    ∀ a qa, (a, qa) ∈ q → ∀ wa pa, (a, wa) ∈ w → price a = some pa →
      let A := E * wa * (L / (w.map fun x => |x.2|).sum)
      let D := A - feeRate fee * |A|
      qa = truncI (((truncI D : Int) : α) / pa) ∧
      (qa = 0 ∨ (0 < qa ↔ 0 < wa)) ∧ (0 ≤ wa → 0 ≤ qa) ∧ (wa ≤ 0 → qa ≤ 0) := by
  intro a qa hm wa pa hwa hpa
  have hqa := lsSize_mem fee E L price w q hnd hG hq hm hwa hpa
  have hGpos : 0 < (w.map fun x => |x.2|).sum := lt_of_le_of_lt tiny_nonneg hG
  have hr : 0 < L / (w.map fun x => |x.2|).sum := div_pos hL hGpos
  have hassoc : E * (wa * (L / (w.map fun x => |x.2|).sum)) = E * wa * (L / (w.map fun x => |x.2|).sum) :=
    (mul_assoc _ _ _).symm
  obtain ⟨s1, s2⟩ := lsQuantity_sign fee E (wa * (L / (w.map fun x => |x.2|).sum)) pa (hp _ _ hpa)
    (feeRate_nonneg hfee) hf1
  rw [← hqa] at s1 s2
  have hpos : 0 ≤ wa → 0 ≤ qa := fun h => s1 (mul_nonneg hE.le (mul_nonneg h hr.le))
  have hneg : wa ≤ 0 → qa ≤ 0 := fun h =>
    s2 (mul_nonpos_of_nonneg_of_nonpos hE.le (mul_nonpos_of_nonpos_of_nonneg h hr.le))
  refine ⟨?_, ?_, hpos, hneg⟩
  · rw [hqa, lsQuantity_eq, hassoc]
  · rcases lt_trichotomy wa 0 with h | h | h
    · have := hneg h.le
      right
      constructor
      · intro h'; omega
      · intro h'; exact absurd h' (not_lt.mpr h.le)
    · left
      have h1 := hpos h.ge
      have h2 := hneg h.le
      omega
    · have := hpos h.le
      by_cases hz : qa = 0
      · left; exact hz
      · right
        constructor
        · intro _; exact h
        · intro _; omega

/-- C11 (afford): the quantity is the largest affordable within the after-cost dollars to within one
currency unit: `|q|·p ≤ |D|` and `|D| − 1 < (|q| + 1)·p`. -/
theorem C11_afford (fee : FeeModel α) (E L : α) (price : String → Option α) (w : Weights α) (q : Quantities)
    (hnd : (w.map (·.1)).Nodup)
    (hp : ∀ a p, price a = some p → 0 < p)
    (hG : tiny < (w.map fun x => |x.2|).sum)
    (hq : lsSize fee E L price w = .ok q) :
    ∀ a qa, (a, qa) ∈ q → ∀ wa pa, (a, wa) ∈ w → price a = some pa →
      let A := E * wa * (L / (w.map fun x => |x.2|).sum)
      let D := A - feeRate fee * |A|
      |(qa : α)| * pa ≤ |D| ∧ |D| - 1 < (|(qa : α)| + 1) * pa := by
  intro a qa hm wa pa hwa hpa
  have hqa := lsSize_mem fee E L price w q hnd hG hq hm hwa hpa
  have hassoc : E * (wa * (L / (w.map fun x => |x.2|).sum)) = E * wa * (L / (w.map fun x => |x.2|).sum) :=
    (mul_assoc _ _ _).symm
  have := lsQuantity_afford fee E (wa * (L / (w.map fun x => |x.2|).sum)) pa (hp _ _ hpa)
  rw [← hqa, hassoc] at this
  exact this

/-- C11 (gross): the gross value of the target at the sizing prices is at most `L × equity × (1 + f)`. -/
theorem C11_gross (fee : FeeModel α) (E L : α) (price : String → Option α) (w : Weights α) (q : Quantities)
    (hp : ∀ a p, price a = some p → 0 < p) (hE : 0 < E) (hL : 0 < L)
    (hfee : FeeNonneg fee) (hG : tiny < (w.map fun x => |x.2|).sum)
    (hq : lsSize fee E L price w = .ok q) :
    (q.map fun x => |(x.2 : α)| * (price x.1).getD 0).sum ≤ L * E * (1 + feeRate fee) := by
  have hne : w ≠ [] := by rintro rfl; simp at hG; exact absurd hG (not_lt.mpr tiny_nonneg)
  have hGpos : 0 < (w.map fun x => |x.2|).sum := lt_of_le_of_lt tiny_nonneg hG
  have hf0 := feeRate_nonneg hfee
  rcases lsSize_cases fee E L price w hne with ⟨h1, h2⟩ | ⟨_, h2⟩
  · rw [h2] at hq; cases hq
    rw [List.map_map]
    have hle : ((sortByKey (lsNorm L w)).map ((fun x : String × Int => |(x.2 : α)| * (price x.1).getD 0) ∘
        fun x => (x.1, lsQuantity fee E x.2 ((price x.1).getD 0)))).sum ≤
        ((sortByKey (lsNorm L w)).map fun x => (1 + feeRate fee) * |E * x.2|).sum := by
      apply List.sum_le_sum
      rintro ⟨k, v⟩ hx
      have hv := mem_sortByKey.mp hx
      have hk : k ∈ (lsNorm L w).map (·.1) := List.mem_map_of_mem (f := (·.1)) hv
      rw [lsNorm_keys] at hk
      obtain ⟨y, hy, e⟩ := List.mem_map.mp hk
      obtain ⟨pa, hpa⟩ := h1 _ hy
      rw [show y.1 = k from e] at hpa
      simp only [Function.comp, hpa, Option.getD_some]
      exact le_trans (lsQuantity_afford fee E v pa (hp _ pa hpa)).1 (afterCost_abs_le _ _ hf0)
    have hperm : ((sortByKey (lsNorm L w)).map fun x => (1 + feeRate fee) * |E * x.2|).sum =
        ((lsNorm L w).map fun x => (1 + feeRate fee) * |E * x.2|).sum := ((sortByKey_perm _).map _).sum_eq
    have hsum : ((lsNorm L w).map fun x => (1 + feeRate fee) * |E * x.2|).sum = L * E * (1 + feeRate fee) := by
      rw [lsNorm_of_tiny_lt L w hG, List.map_map]
      have := sum_map_abs_scaled w (1 + feeRate fee) E (L / (w.map fun x => |x.2|).sum)
      rw [Function.comp_def]
      simp only [] at this ⊢
      rw [this, abs_of_pos hE, abs_of_pos (div_pos hL hGpos)]
      field_simp
    rw [hperm, hsum] at hle
    exact hle
  · rw [h2] at hq; cases hq

/-! ## Rejections and degenerate inputs -/

/-- C11 (reject, leverage): a non-positive gross leverage is a `ValueError`, a positive one is accepted. -/
theorem C11_reject_leverage (L : α) :
    (L ≤ 0 → lsCheckLeverage L = .error .value) ∧ (0 < L → lsCheckLeverage L = .ok L) := by
  unfold lsCheckLeverage
  simp only [le_eq, zero_eq, decide_eq_true_eq]
  exact ⟨fun h => by rw [if_pos h], fun h => by rw [if_neg (not_le.mpr h)]⟩

/-- C11 (reject, NaN price): a key without a price is a `ValueError`. -/
theorem C11_reject_price (fee : FeeModel α) (E L : α) (price : String → Option α) (w : Weights α)
    (hmiss : ∃ x ∈ w, price x.1 = none) : lsSize fee E L price w = .error .value := by
  have hne : w ≠ [] := by rintro rfl; simp at hmiss
  rcases lsSize_cases fee E L price w hne with ⟨h1, _⟩ | ⟨_, h2⟩
  · obtain ⟨x, hx, hxn⟩ := hmiss
    obtain ⟨p, hp⟩ := h1 x hx
    rw [hxn] at hp; cases hp
  · exact h2

/-- C11 (empty): empty weights give the empty target. -/
theorem C11_empty (fee : FeeModel α) (E L : α) (price : String → Option α) :
    lsSize fee E L price [] = .ok [] := rfl

/-- C11 (zero): all-zero weights (every key priced) give an all-zero target.  (`G = 0` is `isclose` to zero,
the weights are used as they are, `int(int(0) / p) = 0`.)  The positive-price hypothesis is the domain of
the real code (`0.0 / 0.0` is NaN there); the model's field arithmetic does not need it. -/
theorem C11_zero (fee : FeeModel α) (E L : α) (price : String → Option α) (w : Weights α)
    (h0 : ∀ x ∈ w, x.2 = 0) (hpr : ∀ x ∈ w, ∃ p, price x.1 = some p)
    (_hp : ∀ a p, price a = some p → 0 < p) :
    ∃ q, lsSize fee E L price w = .ok q ∧ (∀ x ∈ q, x.2 = 0) ∧ q.length = w.length := by
  by_cases hne : w = []
  · subst hne; exact ⟨[], rfl, by simp, rfl⟩
  · rcases lsSize_cases fee E L price w hne with ⟨_, h2⟩ | ⟨⟨x, hx, hxn⟩, _⟩
    · refine ⟨_, h2, ?_, ?_⟩
      · rintro ⟨a, qa⟩ hm
        obtain ⟨v, hv, rfl⟩ := mem_sized hm
        rw [lsNorm_of_zero L w h0] at hv
        have : v = 0 := h0 _ hv
        subst this
        exact lsQuantity_zero fee _ _
      · simp [lsNorm_of_zero L w h0]
    · obtain ⟨p, hp⟩ := hpr x hx
      rw [hxn] at hp; cases hp

/-- C11 (reject): all rejection / degenerate clauses together. -/
theorem C11_reject (fee : FeeModel α) (E L : α) (price : String → Option α) (w : Weights α) :
    (L ≤ 0 → lsCheckLeverage L = .error .value) ∧ (0 < L → lsCheckLeverage L = .ok L) ∧
    ((∃ x ∈ w, price x.1 = none) → lsSize fee E L price w = .error .value) ∧
    lsSize fee E L price [] = .ok [] ∧
    ((∀ x ∈ w, x.2 = 0) → (∀ x ∈ w, ∃ p, price x.1 = some p) → (∀ a p, price a = some p → 0 < p) →
      ∃ q, lsSize fee E L price w = .ok q ∧ (∀ x ∈ q, x.2 = 0) ∧ q.length = w.length) :=
  ⟨(C11_reject_leverage L).1, (C11_reject_leverage L).2, C11_reject_price fee E L price w,
   C11_empty fee E L price, C11_zero fee E L price w⟩

/-! ## Keys and order -/

/-- C11 (keys): a successful call returns exactly the input's keys, in ascending order, one entry per
input entry, and every key has a price.  With pairwise-distinct input keys the order is strictly
ascending. -/
theorem C11_keys (fee : FeeModel α) (E L : α) (price : String → Option α) (w : Weights α) (q : Quantities)
    (hq : lsSize fee E L price w = .ok q) :
    (q.map (·.1)).Perm (w.map (·.1)) ∧ (q.map (·.1)).Pairwise (· ≤ ·) ∧ q.length = w.length ∧
    ((w.map (·.1)).Nodup → (q.map (·.1)).Pairwise (· < ·)) ∧
    (∀ x ∈ w, ∃ p, price x.1 = some p) := by
  have main : (q.map (·.1)).Perm (w.map (·.1)) ∧ (q.map (·.1)).Pairwise (· ≤ ·) ∧ q.length = w.length ∧
      (∀ x ∈ w, ∃ p, price x.1 = some p) := by
    by_cases hne : w = []
    · subst hne
      rw [C11_empty] at hq; cases hq
      simp
    · rcases lsSize_cases fee E L price w hne with ⟨h1, h2⟩ | ⟨_, h2⟩
      · rw [h2] at hq; cases hq
        obtain ⟨k1, k2, k3⟩ := sized_keys w (lsNorm L w) (lsNorm_keys L w)
          (fun x => lsQuantity fee E x.2 ((price x.1).getD 0))
        exact ⟨k1, k2, k3, h1⟩
      · rw [h2] at hq; cases hq
  obtain ⟨k1, k2, k3, k4⟩ := main
  exact ⟨k1, k2, k3, fun hnd => pairwise_lt_of_le_of_nodup k2 (k1.nodup_iff.mpr hnd), k4⟩

end
/-! ## Non-vacuity and negative witnesses at `ℚ` -/

section Examples

noncomputable local instance instNumOpsQ11 : NumOps ℚ := fieldNumOps ℚ
local instance instLawfulQ11 : LawfulNumOps ℚ := fieldNumOps_lawful ℚ

/-- one long, one short (three times the size), given out of key order -/
def exW11 : Weights ℚ := [("B", -3), ("A", 1)]
def exPrice11 : String → Option ℚ := fun a =>
  if a = "A" then some 17 else if a = "B" then some (123 / 10) else none
/-- 0.1 % commission, 0.05 % tax -/
def exFee11 : FeeModel ℚ := .percent (1 / 1000) (1 / 2000)

theorem exPrice11_pos : ∀ a p, exPrice11 a = some p → 0 < p := by
  intro a p h
  unfold exPrice11 at h
  split at h
  · cases h; norm_num
  · split at h
    · cases h; norm_num
    · cases h

theorem exW11_sum : (exW11.map fun x => |x.2|).sum = 4 := by
  simp only [exW11, List.map_cons, List.map_nil, List.sum_cons, List.sum_nil]
  rw [abs_of_neg (by norm_num), abs_of_pos (by norm_num)]; norm_num
theorem exW11_tiny : (NumOps.tiny : ℚ) < (exW11.map fun x => |x.2|).sum := by
  rw [exW11_sum]; show (1 / 100000000 : ℚ) < 4; norm_num
theorem exW11_nodup : (exW11.map (·.1)).Nodup := by simp [exW11]
theorem exFee11_le : feeRate exFee11 ≤ 1 := by simp [exFee11]; norm_num
theorem exFee11_nonneg : FeeNonneg exFee11 := by simp [exFee11]

/-- The call computed: equity 100 001, leverage 2, `L / G = 1/2`.
`A`: allocation 50 000.5, after costs 49 925.49925 → 49 925 dollars → `int(49925 / 17) = 2936`.
`B`: allocation −150 001.5, after costs −150 226.50225 → −150 226 dollars → `int(−150226 / 12.3) = −12213`. -/
theorem exOut11 : lsSize exFee11 100001 2 exPrice11 exW11 = .ok [("A", 2936), ("B", -12213)] := by
  rcases lsSize_cases exFee11 100001 2 exPrice11 exW11 (by simp [exW11]) with ⟨_, h⟩ | ⟨h, _⟩
  · rw [h, lsNorm_of_tiny_lt _ _ exW11_tiny, exW11_sum]
    have hs : sortByKey [("B", (-3 : ℚ) * (2 / 4)), ("A", (1 : ℚ) * (2 / 4))] =
        [("A", (1 : ℚ) * (2 / 4)), ("B", (-3 : ℚ) * (2 / 4))] := by
      rw [sortByKey_pair, if_neg (by decide)]
    simp only [exW11, List.map_cons, List.map_nil, hs]
    have hA : exPrice11 "A" = some 17 := by simp [exPrice11]
    have hB : exPrice11 "B" = some (123 / 10) := by simp [exPrice11]
    simp only [hA, hB, Option.getD_some, lsQuantity_eq, exFee11, feeRate_percent]
    have a1 : truncI ((100001 : ℚ) * (1 * (2 / 4)) - (1 / 1000 + 1 / 2000) * |(100001 : ℚ) * (1 * (2 / 4))|)
        = 49925 := by
      rw [abs_of_nonneg (by norm_num)]
      apply truncI_of_nonneg_eq <;> norm_num
    have a2 : truncI (((49925 : Int) : ℚ) / 17) = 2936 := by
      apply truncI_of_nonneg_eq <;> norm_num
    have b1 : truncI ((100001 : ℚ) * (-3 * (2 / 4)) - (1 / 1000 + 1 / 2000) * |(100001 : ℚ) * (-3 * (2 / 4))|)
        = -150226 := by
      rw [abs_of_nonpos (by norm_num)]
      apply truncI_of_neg_eq <;> norm_num
    have b2 : truncI (((-150226 : Int) : ℚ) / (123 / 10)) = -12213 := by
      apply truncI_of_neg_eq <;> norm_num
    rw [a1, a2, b1, b2]
  · exfalso
    simp [exW11, exPrice11] at h

/-- non-vacuity of `C11_sign`, `C11_afford`, `C11_keys`: all hypotheses hold on the example -/
example := C11_sign exFee11 100001 2 exPrice11 exW11 _ exW11_nodup exPrice11_pos
  (by norm_num) (by norm_num) exFee11_nonneg exFee11_le exW11_tiny exOut11
example := C11_afford exFee11 100001 2 exPrice11 exW11 _ exW11_nodup exPrice11_pos exW11_tiny exOut11
example := C11_keys exFee11 100001 2 exPrice11 exW11 _ exOut11

/-- the gross value of the example target: `2936 · 17 + 12213 · 12.3 = 200 131.9` -/
theorem exGross : (([("A", 2936), ("B", -12213)] : Quantities).map
    fun x => |(x.2 : ℚ)| * (exPrice11 x.1).getD 0).sum = 2001319 / 10 := by
  have hA : exPrice11 "A" = some 17 := by simp [exPrice11]
  have hB : exPrice11 "B" = some (123 / 10) := by simp [exPrice11]
  simp only [List.map_cons, List.map_nil, List.sum_cons, List.sum_nil, hA, hB, Option.getD_some]
  rw [abs_of_nonneg (by norm_num), abs_of_nonpos (by norm_num)]
  norm_num

/-- non-vacuity of `C11_gross`, and the bound it gives: `200 131.9 ≤ 2 · 100 001 · 1.0015` -/
example : (2001319 / 10 : ℚ) ≤ 2 * 100001 * (1 + feeRate exFee11) := by
  have h := C11_gross exFee11 100001 2 exPrice11 exW11 _ exPrice11_pos
    (by norm_num) (by norm_num) exFee11_nonneg exW11_tiny exOut11
  rwa [exGross] at h

/-- the bound of `C11_gross` cannot be tightened to `L × equity`: here the gross value `200 131.9` exceeds
`2 · 100 001 = 200 002` (the fee estimate is added to the short dollars). -/
theorem exGross_exceeds_LE : (2 : ℚ) * 100001 <
    (([("A", 2936), ("B", -12213)] : Quantities).map fun x => |(x.2 : ℚ)| * (exPrice11 x.1).getD 0).sum := by
  rw [exGross]; norm_num

/-- non-vacuity of `C11_zero` and of the price rejection -/
example : ∃ q, lsSize exFee11 100001 2 exPrice11 [("B", 0), ("A", 0)] = .ok q ∧
    (∀ x ∈ q, x.2 = 0) ∧ q.length = 2 :=
  C11_zero exFee11 100001 2 exPrice11 [("B", 0), ("A", 0)] (by simp) (by simp [exPrice11]) exPrice11_pos
example : lsSize exFee11 100001 2 exPrice11 [("B", -3), ("Z", 1)] = .error .value :=
  C11_reject_price _ _ _ _ _ ⟨("Z", 1), by simp, by simp [exPrice11]⟩

/-- **Negative witness (fee rate above 100 %).**  Commission 80 % + tax 80 %, equity 1 000 000, leverage 1,
one asset of weight `+1` at price 1: the target quantity is `-600 000` — a positive weight gets a short
target.  Hence `feeRate fee ≤ 1` cannot be dropped from `C11_sign`. -/
theorem C11_sign_fails_fee_gt_one :
    lsSize (FeeModel.percent (4 / 5 : ℚ) (4 / 5)) 1000000 1 (fun _ => some 1) [("A", 1)] =
      .ok [("A", -600000)] := by
  rcases lsSize_cases (FeeModel.percent (4 / 5 : ℚ) (4 / 5)) 1000000 1 (fun _ => some 1) [("A", 1)]
    (by simp) with ⟨_, h⟩ | ⟨h, _⟩
  · have hG : (NumOps.tiny : ℚ) < (([("A", 1)] : Weights ℚ).map fun x => |x.2|).sum := by
      show (1 / 100000000 : ℚ) < _; simp; norm_num
    rw [h, lsNorm_of_tiny_lt _ _ hG]
    simp only [List.map_cons, List.map_nil, List.sum_cons, List.sum_nil, sortByKey_singleton,
      Option.getD_some, lsQuantity_eq, feeRate_percent, abs_one, add_zero]
    have a1 : truncI ((1000000 : ℚ) * (1 * (1 / 1)) - (4 / 5 + 4 / 5) * |(1000000 : ℚ) * (1 * (1 / 1))|)
        = -600000 := by
      rw [abs_of_nonneg (by norm_num)]
      apply truncI_of_neg_eq <;> norm_num
    have a2 : truncI (((-600000 : Int) : ℚ) / 1) = -600000 := by
      apply truncI_of_neg_eq <;> norm_num
    rw [a1, a2]
  · exfalso; simp at h

/-- **Negative witness (`0 < G ≤ 1e-8`).**  One asset of weight `1e-9`, equity `10¹²`, leverage `1e-10`, no
fees, price 1: `np.isclose(G, 0)` holds, the weight is used unscaled, the target is `1000` shares worth
`1000`, whereas `L × equity × (1 + f) = 100`.  Hence `tiny < G` cannot be dropped from `C11_gross`. -/
theorem C11_gross_fails_tiny_sum :
    lsSize (FeeModel.zero : FeeModel ℚ) 1000000000000 (1 / 10000000000) (fun _ => some 1)
      [("A", 1 / 1000000000)] = .ok [("A", 1000)] ∧
    ¬ (|((1000 : Int) : ℚ)| * 1 ≤
      (1 / 10000000000 : ℚ) * 1000000000000 * (1 + feeRate (FeeModel.zero : FeeModel ℚ))) := by
  constructor
  · rcases lsSize_cases (FeeModel.zero : FeeModel ℚ) 1000000000000 (1 / 10000000000) (fun _ => some 1)
      [("A", 1 / 1000000000)] (by simp) with ⟨_, h⟩ | ⟨h, _⟩
    · have hG : |(([("A", 1 / 1000000000)] : Weights ℚ).map fun x => |x.2|).sum| ≤ (NumOps.tiny : ℚ) := by
        show _ ≤ (1 / 100000000 : ℚ)
        simp only [List.map_cons, List.map_nil, List.sum_cons, List.sum_nil]
        rw [abs_of_nonneg (by positivity), abs_of_nonneg (by norm_num)]; norm_num
      rw [h, lsNorm_of_le_tiny _ _ hG]
      simp only [List.map_cons, List.map_nil, sortByKey_singleton,
        Option.getD_some, lsQuantity_eq, feeRate_zero]
      have a1 : truncI ((1000000000000 : ℚ) * (1 / 1000000000) -
          0 * |(1000000000000 : ℚ) * (1 / 1000000000)|) = 1000 := by
        apply truncI_of_nonneg_eq <;> norm_num
      have a2 : truncI (((1000 : Int) : ℚ) / 1) = 1000 := by
        apply truncI_of_nonneg_eq <;> norm_num
      rw [a1, a2]
    · exfalso; simp at h
  · simp only [feeRate_zero]; norm_num

end Examples

end Qs
