import QsProofs.Lemmas.SessionLifts
import QsProofs.Props.C19
import QsProofs.Props.C14
import QsProofs.Props.C08
import Mathlib.Data.Rat.Floor
import Mathlib.Tactic.NormNum

/-!
# C19 (session level) — assets trade only while they belong to the universe, over a whole backtest

Property C19: "With a universe-driven alpha model, an asset receives a target weight, an order or a position only at
rebalances at or after its universe entry time (entry ≤ t, inclusive), and it is included from the first such
rebalance onward; an asset with no entry date is never included."

`Props/C19.lean` proves this for one portfolio-construction call (`C19_pcm_invariant`, `C19_from`).  Here it is an
invariant of `Session.runEvents` for `cfg.uni = .dynamic dates` and `alpha = singleAlpha sig`:

* `C19_session_only`   from a session with no position, no pending order, no fill and no allocation record, over any
                       event list in non-decreasing time order, *whether or not the run raises*: every asset that is
                       held (any stored position; in particular `heldOf`), queued in a pending order, a key of a
                       recorded allocation vector, or filled, has an entry date `e` with `e ≤` the time of a rebalance
                       that has happened: the latest one for positions and pending orders, the record's own time for
                       allocation keys, and for a fill a rebalance made at or before the fill time.
* `C19_session_from`   every allocation record `(t, fw)` contains every asset with an entry date `e ≤ t`, with the
                       signal as its weight — so an asset is included at the first rebalance at or after its entry
                       and at every later one.
* `C19_session_never`  an asset without entry date is never held, queued, weighted or filled.
* `C19_session`        the same from `Session.init`, together with "the record times are exactly the rebalance
                       instants of the clock" (C14) for a run without error.

The rebalance step uses `C19_pcm_invariant`; the broker steps use the frame lemmas `Lift.update_occ`,
`Lift.submit_occ`, `Lift.executeOrders_occ` ("`update` only marks positions and moves queued orders into positions
and the fill log").
-/

set_option linter.unusedSectionVars false
set_option linter.unusedVariables false

namespace Qs
open NumOps Num Qs.Sess Qs.Lift

section
variable {α : Type} [Field α] [LinearOrder α] [IsStrictOrderedRing α] [FloorRing α] [NumOps α] [LawfulNumOps α]

/-- **C19 (session, only after entry).** Dynamic universe `dates`, universe-driven alpha model `singleAlpha sig`,
any schedule / sizer / fee model / prices.  Start from a session that stores no position, no pending order, no fill and
no allocation record; run any events in non-decreasing time order; let `s'` be the state the run leaves (at its end
or at the first error).  Then, writing "entered by `t`" for `∃ e, (a, some e) ∈ dates ∧ e ≤ t`:
1. every stored position's asset — in particular every asset of `heldOf s'.broker` — has entered by the time of the
   latest allocation record (the latest rebalance so far), and so has
2. the asset of every pending order (`pendingOf s'.broker`, and the queue of any portfolio);
3. every key of a recorded allocation vector `(t, fw)` has entered by its record time `t`;
4. every fill's asset had entered by a rebalance made at or before the fill time (the one that ordered it, or an
   earlier one);
5. the record times are non-decreasing, so "latest" in 1–2 is also "largest". -/
theorem C19_session_only (cfg : SessionCfg α) (dates : List (String × Option Int))
    (huni : cfg.uni = .dynamic dates) (sig : α) (px : Px α) (sched : List Int) (s : Session α)
    (hpos : ∀ e ∈ s.broker.entries, e.pf.positions = [] ∧ e.queue = []) (hlog : s.broker.fillLog = [])
    (halloc : s.allocations = [])
    (events : List SimEvent) (hsorted : (events.map (·.time)).Pairwise (· ≤ ·)) :
    let s' := (Session.runEvents cfg (singleAlpha sig) px sched s events).1
    (∀ a, (a ∈ (heldOf s'.broker).map (·.1) ∨ ∃ e ∈ s'.broker.entries, ∃ p ∈ e.pf.positions, p.asset = a) →
      ∃ r, s'.allocations.getLast? = some r ∧ ∃ e, (a, some e) ∈ dates ∧ e ≤ r.1) ∧
    (∀ a, (a ∈ (pendingOf s'.broker).map (·.1) ∨ ∃ e ∈ s'.broker.entries, ∃ o ∈ e.queue, o.asset = a) →
      ∃ r, s'.allocations.getLast? = some r ∧ ∃ e, (a, some e) ∈ dates ∧ e ≤ r.1) ∧
    (∀ r ∈ s'.allocations, ∀ k ∈ r.2.map (·.1), ∃ e, (k, some e) ∈ dates ∧ e ≤ r.1) ∧
    (∀ f ∈ s'.fills, ∃ r ∈ s'.allocations, r.1 ≤ f.time ∧ ∃ e, (f.asset, some e) ∈ dates ∧ e ≤ r.1) ∧
    (s'.allocations.map (·.1)).Pairwise (· ≤ ·) := by
  intro s'
  obtain ⟨⟨lo', hg⟩, hsort⟩ := good_of_fresh_run sig cfg huni px sched s hpos hlog halloc events hsorted
  refine ⟨?_, ?_, ?_, ?_, hsort⟩
  · rintro a (ha | ⟨e, he, p, hp, rfl⟩)
    · exact hg.occ.held a ha
    · exact hg.occ.pos e he p hp
  · rintro a (ha | ⟨e, he, o, ho, rfl⟩)
    · unfold pendingOf at ha
      split at ha
      · simp at ha
      · rename_i e hf
        simp only [List.map_map, List.mem_map, Function.comp_def] at ha
        obtain ⟨o, ho, rfl⟩ := ha
        exact hg.occ.queue e (find_mem hf) o ho
    · exact hg.occ.queue e he o ho
  · intro r hr
    exact (hg.recs r hr).2.1
  · intro f hf
    simp only [Session.fills, List.mem_map] at hf
    obtain ⟨x, hx, rfl⟩ := hf
    exact hg.occ.log x hx

/-- **C19 (session, included from entry onward).** Under the same conditions every allocation record `(t, fw)` made
during the run has, for every asset `a` with an entry date `e ≤ t` (inclusive), the key `a` with the signal as its
weight.  So `a` is weighted at the first rebalance at or after its entry time and at every later one. -/
theorem C19_session_from (cfg : SessionCfg α) (dates : List (String × Option Int))
    (huni : cfg.uni = .dynamic dates) (sig : α) (px : Px α) (sched : List Int) (s : Session α)
    (hpos : ∀ e ∈ s.broker.entries, e.pf.positions = [] ∧ e.queue = []) (hlog : s.broker.fillLog = [])
    (halloc : s.allocations = [])
    (events : List SimEvent) (hsorted : (events.map (·.time)).Pairwise (· ≤ ·)) :
    ∀ r ∈ (Session.runEvents cfg (singleAlpha sig) px sched s events).1.allocations,
      ∀ a e, (a, some e) ∈ dates → e ≤ r.1 → a ∈ r.2.map (·.1) ∧ (a, sig) ∈ r.2 := by
  obtain ⟨⟨lo', hg⟩, _⟩ := good_of_fresh_run sig cfg huni px sched s hpos hlog halloc events hsorted
  intro r hr a e hae het
  have := (hg.recs r hr).2.2 a ⟨e, hae, het⟩
  exact ⟨List.mem_map.mpr ⟨(a, sig), this, rfl⟩, this⟩

/-- **C19 (session, no entry date).** An asset whose dictionary entries (if any) carry no date is never held, never
queued, never a key of a recorded allocation, never filled. -/
theorem C19_session_never (cfg : SessionCfg α) (dates : List (String × Option Int))
    (huni : cfg.uni = .dynamic dates) (sig : α) (px : Px α) (sched : List Int) (s : Session α)
    (hpos : ∀ e ∈ s.broker.entries, e.pf.positions = [] ∧ e.queue = []) (hlog : s.broker.fillLog = [])
    (halloc : s.allocations = [])
    (events : List SimEvent) (hsorted : (events.map (·.time)).Pairwise (· ≤ ·))
    (a : String) (hnever : ∀ e, (a, some e) ∉ dates) :
    let s' := (Session.runEvents cfg (singleAlpha sig) px sched s events).1
    a ∉ (heldOf s'.broker).map (·.1) ∧ a ∉ (pendingOf s'.broker).map (·.1) ∧
    (∀ r ∈ s'.allocations, a ∉ r.2.map (·.1)) ∧ (∀ f ∈ s'.fills, f.asset ≠ a) := by
  intro s'
  obtain ⟨h1, h2, h3, h4, _⟩ := C19_session_only cfg dates huni sig px sched s hpos hlog halloc events hsorted
  refine ⟨?_, ?_, ?_, ?_⟩
  · intro ha
    obtain ⟨_, _, e, he, _⟩ := h1 a (Or.inl ha)
    exact hnever e he
  · intro ha
    obtain ⟨_, _, e, he, _⟩ := h2 a (Or.inl ha)
    exact hnever e he
  · intro r hr ha
    obtain ⟨e, he, _⟩ := h3 r hr a ha
    exact hnever e he
  · rintro f hf rfl
    obtain ⟨_, _, _, e, he, _⟩ := h4 f hf
    exact hnever e he

/-- **C19 for a constructed session.** `Session.init`, then any event list `evs` in non-decreasing time order (the
session's own clock, or a prefix of it): the conclusions of `C19_session_only` / `C19_session_from`; and when the run returns
normally, the record times are exactly the event times that are scheduled instants past the burn-in (C14), so
"a rebalance" and "an allocation record" are the same thing. -/
theorem C19_session (cfg : SessionCfg α) (dates : List (String × Option Int))
    (huni : cfg.uni = .dynamic dates) (sig : α) (px : Px α)
    (s0 : Session α) (events : List SimEvent) (sched : List Int)
    (hinit : Session.init cfg = .ok (s0, events, sched))
    (evs : List SimEvent) (hsorted : (evs.map (·.time)).Pairwise (· ≤ ·)) :
    let s' := (Session.runEvents cfg (singleAlpha sig) px sched s0 evs).1
    (∀ a ∈ (heldOf s'.broker).map (·.1),
      ∃ r, s'.allocations.getLast? = some r ∧ ∃ e, (a, some e) ∈ dates ∧ e ≤ r.1) ∧
    (∀ a ∈ (pendingOf s'.broker).map (·.1),
      ∃ r, s'.allocations.getLast? = some r ∧ ∃ e, (a, some e) ∈ dates ∧ e ≤ r.1) ∧
    (∀ r ∈ s'.allocations, ∀ k ∈ r.2.map (·.1), ∃ e, (k, some e) ∈ dates ∧ e ≤ r.1) ∧
    (∀ f ∈ s'.fills, ∃ r ∈ s'.allocations, r.1 ≤ f.time ∧ ∃ e, (f.asset, some e) ∈ dates ∧ e ≤ r.1) ∧
    (∀ r ∈ s'.allocations, ∀ a e, (a, some e) ∈ dates → e ≤ r.1 → a ∈ r.2.map (·.1) ∧ (a, sig) ∈ r.2) ∧
    ((Session.runEvents cfg (singleAlpha sig) px sched s0 evs).2 = none →
      s'.allocations.map (·.1) = (evs.map (·.time)).filter (fun t => burnOk cfg t && sched.contains t)) := by
  intro s'
  have hocc := init_occ cfg s0 events sched hinit
  obtain ⟨hq, hf, ha, _, _, _⟩ := init_fresh cfg s0 events sched hinit
  have hpos := empty_of_occ s0.broker hocc hq
  obtain ⟨h1, h2, h3, h4, _⟩ := C19_session_only cfg dates huni sig px sched s0 hpos hf ha evs hsorted
  refine ⟨fun a h => h1 a (Or.inl h), fun a h => h2 a (Or.inl h), h3, h4,
    C19_session_from cfg dates huni sig px sched s0 hpos hf ha evs hsorted, ?_⟩
  intro hnone
  have := runEvents_allocations cfg (singleAlpha sig) px sched evs s0 s' (Prod.ext rfl hnone)
  rw [ha] at this
  exact this

end

/-! ## Non-vacuity at `α := ℚ` (`fieldNumOps ℚ`)

Monday 2021-01-04 00:00 … Wednesday 2021-01-06 23:59:59, daily rebalance (at every close), long-only without cash
buffer, no fees, cash 1000.  Dynamic universe: `A` enters on Tuesday 00:00, `B` enters after the end of the backtest,
`C` has no entry date.  `A` trades at 9 at every open and at 10 otherwise.
Monday's close: the universe is empty — an empty allocation record, no order.  Tuesday's close (the first rebalance at
or after `A`'s entry): `A` gets weight 1 and an order of 100; it fills on Wednesday's open, where the example stops
(the kernel cannot unfold `List.mergeSort` on the two-element list of Wednesday's close).  `B` and `C` never appear. -/

section nonvacuity

noncomputable local instance (priority := high) ratOps19s : NumOps ℚ := fieldNumOps ℚ
local instance (priority := high) ratLawful19s : LawfulNumOps ℚ := fieldNumOps_lawful ℚ

def exDates19s : List (String × Option Int) :=
  [("A", some (18632 * 86400)), ("B", some (18640 * 86400)), ("C", none)]

def exPx19s : Px ℚ := fun t a => if a = "A" then (if t % 86400 = 52200 then some 9 else some 10) else none

noncomputable def exCfg19s : SessionCfg ℚ :=
  { start := 18631 * 86400, end_ := 18633 * 86400 + 86399, rebalance := .daily, longOnly := true, param := 0,
    fee := .zero, initialCash := 1000, uni := .dynamic exDates19s, nan := 0 }

def exEvents19s : List SimEvent :=
  [⟨18631 * 86400 + 52200, .marketOpen⟩, ⟨18631 * 86400 + 75600, .marketClose⟩,
   ⟨18632 * 86400 + 52200, .marketOpen⟩, ⟨18632 * 86400 + 75600, .marketClose⟩,
   ⟨18633 * 86400 + 52200, .marketOpen⟩, ⟨18633 * 86400 + 75600, .marketClose⟩]

def okInit19s {β : Type} (evs : List SimEvent) : Except Err (β × List SimEvent × List Int) → Bool
  | .ok (_, e, _) => decide (e = evs)
  | _ => false

theorem exInit19s : ∃ s0 sched, Session.init exCfg19s = .ok (s0, exEvents19s, sched) := by
  have h : okInit19s exEvents19s (Session.init exCfg19s) = true := by decide +kernel
  rcases hi : Session.init exCfg19s with e | ⟨s0, evs, sc⟩
  · rw [hi] at h; cases h
  · rw [hi] at h
    simp only [okInit19s, decide_eq_true_eq] at h
    subst h
    exact ⟨s0, sc, rfl⟩

/-- the clock up to Wednesday's open -/
def exEvs19s : List SimEvent := exEvents19s.take 5

/-- the example run over `exEvs19s` from the constructed session -/
noncomputable def exAfter19s : Option (Session ℚ × Option (Int × Err)) :=
  (Session.init exCfg19s).toOption.map fun r =>
    Session.runEvents exCfg19s (singleAlpha 1) exPx19s r.2.2 r.1 exEvs19s

/-- the observables of the example run, evaluated by the kernel -/
theorem exRun19s_ok : exAfter19s.map (fun r => r.2.isNone) = some true := by decide +kernel
theorem exRun19s_alloc : exAfter19s.map (fun r => r.1.allocations) =
    some [(18631 * 86400 + 75600, []), (18632 * 86400 + 75600, [("A", 1)])] := by
  decide +kernel
theorem exRun19s_held : exAfter19s.map (fun r => heldOf r.1.broker) = some [("A", 100)] := by decide +kernel
theorem exRun19s_fills : exAfter19s.map (fun r => r.1.fills.map fun f => (f.time, f.asset, f.qty)) =
    some [(18633 * 86400 + 52200, "A", 100)] := by
  decide +kernel

/-- all hypotheses of `C19_session` hold on the example (construction by `Session.init`, the events are in time
order), and its conclusions are about a non-trivial final state: one held asset, two records (the first one empty:
`A` had not entered on Monday), one fill -/
example : ∃ s0 sched, Session.init exCfg19s = .ok (s0, exEvents19s, sched) ∧
    (exEvs19s.map (·.time)).Pairwise (· ≤ ·) ∧
    let s' := (Session.runEvents exCfg19s (singleAlpha 1) exPx19s sched s0 exEvs19s).1
    heldOf s'.broker = [("A", 100)] ∧ s'.allocations.length = 2 ∧ s'.fills.length = 1 ∧
    (∀ f ∈ s'.fills, ∃ r ∈ s'.allocations, r.1 ≤ f.time ∧ ∃ e, (f.asset, some e) ∈ exDates19s ∧ e ≤ r.1) ∧
    (∀ r ∈ s'.allocations, "B" ∉ r.2.map (·.1) ∧ "C" ∉ r.2.map (·.1)) := by
  obtain ⟨s0, sched, h0⟩ := exInit19s
  have hal := exRun19s_alloc
  have hheld := exRun19s_held
  have hfills := exRun19s_fills
  simp only [exAfter19s, h0, Except.toOption, Option.map_some, Option.some.injEq] at hal hheld hfills
  have hs : (exEvs19s.map (·.time)).Pairwise (· ≤ ·) := by decide
  obtain ⟨_, _, h3, h4, _, _⟩ := C19_session exCfg19s exDates19s rfl 1 exPx19s s0 exEvents19s sched h0 exEvs19s hs
  refine ⟨s0, sched, h0, hs, hheld, by rw [hal]; rfl, ?_, h4, ?_⟩
  · have := congrArg List.length hfills
    simpa using this
  · intro r hr
    constructor
    · intro hB
      obtain ⟨e, he, hle⟩ := h3 r hr "B" hB
      have hrt : r.1 ≤ 18633 * 86400 + 75600 := by
        rw [hal] at hr
        simp only [List.mem_cons, List.not_mem_nil, or_false] at hr
        rcases hr with rfl | rfl <;> decide
      simp only [exDates19s, List.mem_cons, Prod.mk.injEq, List.not_mem_nil, or_false] at he
      rcases he with ⟨h, _⟩ | ⟨_, h⟩ | ⟨h, _⟩
      · exact absurd h (by decide)
      · cases h; omega
      · exact absurd h (by decide)
    · intro hC
      obtain ⟨e, he, _⟩ := h3 r hr "C" hC
      simp [exDates19s] at he

end nonvacuity

end Qs
