import QsProofs.Lemmas.Converse
import QsProofs.Props.C08

/-!
# C08, converse direction — whenever the documented rules are applicable the backtest does not raise

`C08_refines` (in `C08.lean`) says: if the operational session finishes without error, the reference backtest is
defined and agrees.  Here the other direction: if the reference backtest `referenceRun cfg w px` is DEFINED (every
needed price exists, every sizing succeeds), then the operational session `Session.run cfg (fixedAlpha w) px`
finishes WITHOUT error — and therefore agrees with the reference on every observable.

* `C08_refines_converse`       the whole-run converse (hypothesis `hinit`: the session can be constructed);
* `C08_refines_converse_init`  the same with `hinit` replaced by the four checks of `__init__` that the reference
                               does not see (`0 ≤ initialCash`, `start ≤ end`, sizer parameter valid; the fourth,
                               a valid schedule, follows from the reference being defined);
* `C08_refines_converse_strong` the converse WITHOUT `hquoted`: in this direction the reference being defined
                               already supplies every quote the session's result depends on;
* `C08_equiv`                  the combined equivalence, with agreement;
* `C08_init_ok`                `Session.init` succeeds under those checks;
* `C08_conv_update`, `C08_conv_rebalance`, `C08_conv_open`, `C08_conv_close`, `C08_conv_day`
                               the per-event no-error lemmas;
* `C08_conv_open_strong`, `C08_conv_close_strong`, `C08_conv_day_strong`
                               the per-event lemmas without quote hypotheses (no error + abstraction relation).

`hinit` cannot be dropped: `Session.init` also refuses `end < start`, a negative initial cash, a cash buffer outside
`[0,1]` / a non-positive gross leverage, none of which makes the reference undefined (example at the end).
-/

set_option linter.unusedSectionVars false

namespace Qs
open NumOps Num Qs.Ref Qs.Conv

section
variable {α : Type} [Field α] [LinearOrder α] [IsStrictOrderedRing α] [FloorRing α] [NumOps α] [LawfulNumOps α]

/-- **C08 (converse of the refinement).** For any market data `px` with positive prices, any target weights `w`,
any rebalance schedule, fee model, sizing mode and universe: if the session can be constructed and the reference
backtest is defined, the session runs to the end without error, and its fills, equity curve, allocation dates,
final cash, final holdings and pending orders are exactly the reference's.

Side conditions are those of `C08_refines` (`hnosig`, `hpos`, `hstart`, `hquoted`).  `hinit` — the constructor
`Session.init cfg` returns — is needed because construction checks things the reference never looks at
(`end < start`, negative initial cash, invalid cash buffer / leverage); see `C08_refines_converse_init` for the
explicit form. -/
theorem C08_refines_converse (cfg : SessionCfg α) (w : List (String × α)) (px : Px α)
    (hnosig : cfg.signalSpecs = none)
    (hpos : ∀ t a p, px t a = some p → 0 < p)
    (hstart : todOf cfg.start ≤ OPEN)
    (hquoted : ∀ d ∈ bdayRange cfg.start cfg.end_, ∀ a, ((∃ t, a ∈ cfg.uni.assets t) ∨ a ∈ w.map (·.1)) →
        (px (d * 86400 + OPEN) a).isSome ∧ (px (d * 86400 + CLOSE) a).isSome)
    (s0 : Session α) (events : List SimEvent) (sched : List Int)
    (hinit : Session.init cfg = .ok (s0, events, sched))
    (r : RefState α) (href : referenceRun cfg w px = some r) :
    ∃ s, Session.run cfg (fixedAlpha w) px = .ok (s, none) ∧
      s.fills = r.fills ∧ s.equity = r.equity ∧ s.allocations.map (·.1) = r.allocDates ∧
      s.broker.portfolioCash PORTFOLIO_ID = .ok r.cash ∧ heldOf s.broker = r.hold ∧
      pendingOf s.broker = r.pending := by
  obtain ⟨hsr0, hev, hsc⟩ := init_sim cfg hnosig s0 events sched hinit
  unfold referenceRun at href
  rw [hsc] at href
  simp only at href
  unfold simEvents at hev
  split at hev
  · cases hev
  · simp only [Except.ok.injEq] at hev
    subst hev
    have hmem : ∀ d ∈ bdayRange cfg.start cfg.end_, weekday d ≤ 4 ∧ cfg.start ≤ d * 86400 + OPEN := by
      intro d hd
      rw [Cal.bdayRange_eq, Cal.mem_filter_daysFrom] at hd
      obtain ⟨h1, _, h3⟩ := hd
      refine ⟨by simpa [isBDay] using h3, ?_⟩
      unfold dayOf at h1
      unfold todOf at hstart
      omega
    have hpw : (bdayRange cfg.start cfg.end_).Pairwise (· < ·) := by
      rw [Cal.bdayRange_eq]; exact Cal.filter_daysFrom_pairwise _ _ _
    obtain ⟨s, t', hrun, hsr, _⟩ :=
      days_conv cfg w px hpos sched (fun a => (∃ t, a ∈ cfg.uni.assets t) ∨ a ∈ w.map (·.1))
        (fun t a h => Or.inl ⟨t, h⟩) (fun a h => Or.inr h)
        (bdayRange cfg.start cfg.end_) s0 { cash := cfg.initialCash } cfg.start hsr0
        ⟨(by intro k hk; cases hk), (by intro k hk; cases hk)⟩ hpw hmem hquoted r href
    refine ⟨s, ?_, observables_of_SR cfg s r t' hsr⟩
    unfold Session.run
    rw [hinit]
    simp only [bind, Except.bind, pure, Except.pure]
    rw [hrun]

/-- **C08 (converse, strong form: no `hquoted`).** If the session can be constructed and the reference backtest is
defined, the session runs to the end without error and agrees with the reference on every observable — with NO
assumption that held assets are quoted.  (`hquoted` is needed only in the forward direction `C08_refines`, where a
held asset without a quote makes the reference undefined while the session carries on with a stale mark.  Here the
reference being defined supplies the quotes that matter: `refFillAll` for every filled order, `refEquity` for every
sizing and every equity record; a held asset that is unquoted at some market open is left unmarked by the session
and re-marked at the close, and nothing observable depends on the stale price in between.) -/
theorem C08_refines_converse_strong (cfg : SessionCfg α) (w : List (String × α)) (px : Px α)
    (hnosig : cfg.signalSpecs = none)
    (hpos : ∀ t a p, px t a = some p → 0 < p)
    (hstart : todOf cfg.start ≤ OPEN)
    (s0 : Session α) (events : List SimEvent) (sched : List Int)
    (hinit : Session.init cfg = .ok (s0, events, sched))
    (r : RefState α) (href : referenceRun cfg w px = some r) :
    ∃ s, Session.run cfg (fixedAlpha w) px = .ok (s, none) ∧
      s.fills = r.fills ∧ s.equity = r.equity ∧ s.allocations.map (·.1) = r.allocDates ∧
      s.broker.portfolioCash PORTFOLIO_ID = .ok r.cash ∧ heldOf s.broker = r.hold ∧
      pendingOf s.broker = r.pending := by
  obtain ⟨hsr0, hev, hsc⟩ := init_sim cfg hnosig s0 events sched hinit
  unfold referenceRun at href
  rw [hsc] at href
  simp only at href
  unfold simEvents at hev
  split at hev
  · cases hev
  · simp only [Except.ok.injEq] at hev
    subst hev
    have hmem : ∀ d ∈ bdayRange cfg.start cfg.end_, weekday d ≤ 4 ∧ cfg.start ≤ d * 86400 + OPEN := by
      intro d hd
      rw [Cal.bdayRange_eq, Cal.mem_filter_daysFrom] at hd
      obtain ⟨h1, _, h3⟩ := hd
      refine ⟨by simpa [isBDay] using h3, ?_⟩
      unfold dayOf at h1
      unfold todOf at hstart
      omega
    have hpw : (bdayRange cfg.start cfg.end_).Pairwise (· < ·) := by
      rw [Cal.bdayRange_eq]; exact Cal.filter_daysFrom_pairwise _ _ _
    obtain ⟨s, t', hrun, hsr⟩ :=
      days_conv' cfg w px hpos sched (bdayRange cfg.start cfg.end_) s0 { cash := cfg.initialCash } cfg.start hsr0
        hpw hmem r href
    refine ⟨s, ?_, observables_of_SR cfg s r t' hsr⟩
    unfold Session.run
    rw [hinit]
    simp only [bind, Except.bind, pure, Except.pure]
    rw [hrun]

/-- strong converse with the constructor checks explicit -/
theorem C08_refines_converse_strong_init (cfg : SessionCfg α) (w : List (String × α)) (px : Px α)
    (hnosig : cfg.signalSpecs = none)
    (hpos : ∀ t a p, px t a = some p → 0 < p)
    (hstart : todOf cfg.start ≤ OPEN)
    (hcash : 0 ≤ cfg.initialCash) (hrange : cfg.start ≤ cfg.end_) (hparam : ParamOK cfg)
    (r : RefState α) (href : referenceRun cfg w px = some r) :
    ∃ s, Session.run cfg (fixedAlpha w) px = .ok (s, none) ∧
      s.fills = r.fills ∧ s.equity = r.equity ∧ s.allocations.map (·.1) = r.allocDates ∧
      s.broker.portfolioCash PORTFOLIO_ID = .ok r.cash ∧ heldOf s.broker = r.hold ∧
      pendingOf s.broker = r.pending := by
  cases hsc : scheduleOf cfg with
  | error e =>
    unfold referenceRun at href
    rw [hsc] at href
    cases href
  | ok sched =>
    obtain ⟨s0, hinit⟩ := init_ok cfg hcash hrange sched hsc hparam
    exact C08_refines_converse_strong cfg w px hnosig hpos hstart s0 _ sched hinit r href

/-- **`Session.init` succeeds** under the four checks of `BacktestTradingSession.__init__`. -/
theorem C08_init_ok (cfg : SessionCfg α) (hcash : 0 ≤ cfg.initialCash) (hrange : cfg.start ≤ cfg.end_)
    (sched : List Int) (hsched : scheduleOf cfg = .ok sched) (hparam : ParamOK cfg) :
    ∃ s0, Session.init cfg = .ok (s0, (bdayRange cfg.start cfg.end_).flatMap (dayTemplate false false), sched) :=
  init_ok cfg hcash hrange sched hsched hparam

/-- a defined reference has a valid schedule (the constructor's fourth check) -/
theorem C08_ref_sched (cfg : SessionCfg α) (w : List (String × α)) (px : Px α) (r : RefState α)
    (href : referenceRun cfg w px = some r) : ∃ sched, scheduleOf cfg = .ok sched := by
  cases hsc : scheduleOf cfg with
  | error e =>
    unfold referenceRun at href
    rw [hsc] at href
    cases href
  | ok sched => exact ⟨sched, rfl⟩

/-- **C08 converse, constructor checks explicit**: `hinit` replaced by non-negative initial cash, `start ≤ end` and a
valid sizer parameter (`ParamOK`: cash buffer in `[0,1]` for long-only, gross leverage `> 0` for long/short).  The
remaining constructor check — the schedule (weekday name) — follows from the reference being defined. -/
theorem C08_refines_converse_init (cfg : SessionCfg α) (w : List (String × α)) (px : Px α)
    (hnosig : cfg.signalSpecs = none)
    (hpos : ∀ t a p, px t a = some p → 0 < p)
    (hstart : todOf cfg.start ≤ OPEN)
    (hquoted : ∀ d ∈ bdayRange cfg.start cfg.end_, ∀ a, ((∃ t, a ∈ cfg.uni.assets t) ∨ a ∈ w.map (·.1)) →
        (px (d * 86400 + OPEN) a).isSome ∧ (px (d * 86400 + CLOSE) a).isSome)
    (hcash : 0 ≤ cfg.initialCash) (hrange : cfg.start ≤ cfg.end_) (hparam : ParamOK cfg)
    (r : RefState α) (href : referenceRun cfg w px = some r) :
    ∃ s, Session.run cfg (fixedAlpha w) px = .ok (s, none) ∧
      s.fills = r.fills ∧ s.equity = r.equity ∧ s.allocations.map (·.1) = r.allocDates ∧
      s.broker.portfolioCash PORTFOLIO_ID = .ok r.cash ∧ heldOf s.broker = r.hold ∧
      pendingOf s.broker = r.pending := by
  cases hsc : scheduleOf cfg with
  | error e =>
    unfold referenceRun at href
    rw [hsc] at href
    cases href
  | ok sched =>
    obtain ⟨s0, hinit⟩ := init_ok cfg hcash hrange sched hsc hparam
    exact C08_refines_converse cfg w px hnosig hpos hstart hquoted s0 _ sched hinit r href

/-- **C08 (equivalence).** Under the side conditions and a constructible session: the session finishes without
error IFF the reference backtest is defined; and whenever both hold, all observables agree. -/
theorem C08_equiv (cfg : SessionCfg α) (w : List (String × α)) (px : Px α)
    (hnosig : cfg.signalSpecs = none)
    (hpos : ∀ t a p, px t a = some p → 0 < p)
    (hstart : todOf cfg.start ≤ OPEN)
    (hquoted : ∀ d ∈ bdayRange cfg.start cfg.end_, ∀ a, ((∃ t, a ∈ cfg.uni.assets t) ∨ a ∈ w.map (·.1)) →
        (px (d * 86400 + OPEN) a).isSome ∧ (px (d * 86400 + CLOSE) a).isSome)
    (s0 : Session α) (events : List SimEvent) (sched : List Int)
    (hinit : Session.init cfg = .ok (s0, events, sched)) :
    ((∃ s, Session.run cfg (fixedAlpha w) px = .ok (s, none)) ↔ (∃ r, referenceRun cfg w px = some r)) ∧
    ∀ s r, Session.run cfg (fixedAlpha w) px = .ok (s, none) → referenceRun cfg w px = some r →
      s.fills = r.fills ∧ s.equity = r.equity ∧ s.allocations.map (·.1) = r.allocDates ∧
      s.broker.portfolioCash PORTFOLIO_ID = .ok r.cash ∧ heldOf s.broker = r.hold ∧
      pendingOf s.broker = r.pending := by
  refine ⟨⟨?_, ?_⟩, ?_⟩
  · rintro ⟨s, hs⟩
    obtain ⟨r, hr, _⟩ := C08_refines cfg w px hnosig hpos hstart hquoted s hs
    exact ⟨r, hr⟩
  · rintro ⟨r, hr⟩
    obtain ⟨s, hs, _⟩ := C08_refines_converse cfg w px hnosig hpos hstart hquoted s0 events sched hinit r hr
    exact ⟨s, hs⟩
  · intro s r hs hr
    obtain ⟨r', hr', h⟩ := C08_refines cfg w px hnosig hpos hstart hquoted s hs
    rw [hr] at hr'
    simp only [Option.some.injEq] at hr'
    subst hr'
    exact h

/-! ## The per-event no-error lemmas (abstraction relation `Ref.SR` / `Ref.BR` as in `C08.lean`) -/

/-- **C08_conv_update**: one `broker.update(dt)` on a broker that represents a reference state returns normally
when time does not go backwards and — in exchange hours — every pending order's asset has a price. -/
theorem C08_conv_update (fee : FeeModel α) (px : Px α) (hpos : ∀ t a p, px t a = some p → 0 < p)
    (b : Broker α) (st : RefState α) (t0 t : Int) (hbr : BR fee b st t0) (ht : t0 ≤ t)
    (hq : isOpen t = true → ∀ o ∈ st.pending, (px t o.1).isSome) :
    (b.update t (quotesAt px t)).2 = none :=
  update_noerr fee px hpos b st t0 t hbr ht hq

/-- a defined `refFillAll` says exactly that every order's asset is priced -/
theorem C08_conv_fill_quoted (fee : FeeModel α) (px : Px α) (t : Int) (os : List (String × Int))
    (st st' : RefState α) (h : refFillAll fee px t st os = some st') : ∀ o ∈ os, (px t o.1).isSome :=
  refFillAll_quoted h

/-- **C08_conv_rebalance**: `QuantTradingSystem.__call__` returns normally when the reference's sizing is defined
and (exchange open) the reference fills the resulting orders. -/
theorem C08_conv_rebalance (cfg : SessionCfg α) (w : List (String × α)) (px : Px α)
    (hpos : ∀ t a p, px t a = some p → 0 < p) (t : Int) (s : Session α) (st : RefState α)
    (hbr : BR cfg.fee s.broker st t) (hm : Marked px t s.broker)
    (os : List (String × Int)) (hos : refOrders cfg w px t st = some os)
    (hopen : isOpen t = true → st.pending = [] ∧ ∃ st', refFillAll cfg.fee px t st os = some st') :
    (rebalanceAt cfg (fixedAlpha w) px t s).2 = none :=
  rebalanceAt_noerr cfg w px hpos t s st hbr hm os hos hopen

/-- **C08_conv_open**: the market-open event returns normally when stages 1–2 of `refDay` are defined. -/
theorem C08_conv_open (cfg : SessionCfg α) (w : List (String × α)) (px : Px α)
    (hpos : ∀ t a p, px t a = some p → 0 < p) (sched : List Int) (A : String → Prop)
    (s : Session α) (st : RefState α) (t0 t : Int) (hsr : SR cfg s st t0) (ht : t0 ≤ t)
    (ho : isOpen t = true) (hq : ∀ a, A a → (px t a).isSome) (has : Assets A st)
    (st1 st2 : RefState α)
    (h1 : refFillAll cfg.fee px t { st with pending := [] }
          (sellsFirst (fun (o : String × Int) => decide (o.2 < 0)) st.pending) = some st1)
    (h2 : refOpenReb cfg w px sched t st1 = some st2) :
    (s.step cfg (fixedAlpha w) px sched ⟨t, .marketOpen⟩).2 = none :=
  step_open_noerr cfg w px hpos sched A s st t0 t hsr ht ho hq has st1 st2 h1 h2

/-- **C08_conv_close**: the market-close event returns normally when stage 3 of `refDay` is defined. -/
theorem C08_conv_close (cfg : SessionCfg α) (w : List (String × α)) (px : Px α)
    (hpos : ∀ t a p, px t a = some p → 0 < p) (sched : List Int) (A : String → Prop)
    (s : Session α) (st : RefState α) (t0 t : Int) (hsr : SR cfg s st t0) (ht : t0 ≤ t)
    (ho : isOpen t = false) (hq : ∀ a, A a → (px t a).isSome) (has : Assets A st)
    (st3 : RefState α) (h3 : refCloseReb cfg w px sched t st = some st3) :
    (s.step cfg (fixedAlpha w) px sched ⟨t, .marketClose⟩).2 = none :=
  step_close_noerr cfg w px hpos sched A s st t0 t hsr ht ho hq has st3 h3

/-- **C08_conv_day**: when `refDay … d` is defined, both events of business day `d` return normally and the
session then represents the reference's next state. -/
theorem C08_conv_day (cfg : SessionCfg α) (w : List (String × α)) (px : Px α)
    (hpos : ∀ t a p, px t a = some p → 0 < p) (sched : List Int) (A : String → Prop)
    (hA : ∀ t a, a ∈ cfg.uni.assets t → A a) (hAw : ∀ a ∈ w.map (·.1), A a)
    (s : Session α) (st : RefState α) (t0 d : Int) (hsr : SR cfg s st t0) (ht : t0 ≤ d * 86400 + OPEN)
    (hd : weekday d ≤ 4)
    (hq : ∀ a, A a → (px (d * 86400 + OPEN) a).isSome ∧ (px (d * 86400 + CLOSE) a).isSome) (has : Assets A st)
    (st' : RefState α) (hday : refDay cfg w px sched st d = some st') :
    ∃ s1 s2, s.step cfg (fixedAlpha w) px sched ⟨d * 86400 + OPEN, .marketOpen⟩ = (s1, none) ∧
      s1.step cfg (fixedAlpha w) px sched ⟨d * 86400 + CLOSE, .marketClose⟩ = (s2, none) ∧
      SR cfg s2 st' (d * 86400 + CLOSE) ∧ Assets A st' :=
  day_conv cfg w px hpos sched A hA hAw s st t0 d hsr ht hd hq has st' hday

/-- **C08_conv_open_strong**: stages 1–2 of `refDay` defined ⇒ the market-open event returns normally and the
session represents the state after stage 2 (no quote hypothesis). -/
theorem C08_conv_open_strong (cfg : SessionCfg α) (w : List (String × α)) (px : Px α)
    (hpos : ∀ t a p, px t a = some p → 0 < p) (sched : List Int)
    (s : Session α) (st : RefState α) (t0 t : Int) (hsr : SR cfg s st t0) (ht : t0 ≤ t)
    (ho : isOpen t = true) (st1 st2 : RefState α)
    (h1 : refFillAll cfg.fee px t { st with pending := [] }
          (sellsFirst (fun (o : String × Int) => decide (o.2 < 0)) st.pending) = some st1)
    (h2 : refOpenReb cfg w px sched t st1 = some st2) :
    (s.step cfg (fixedAlpha w) px sched ⟨t, .marketOpen⟩).2 = none ∧
    SR cfg (s.step cfg (fixedAlpha w) px sched ⟨t, .marketOpen⟩).1 st2 t ∧ st2.pending = [] :=
  step_open_conv cfg w px hpos sched s st t0 t hsr ht ho st1 st2 h1 h2

/-- **C08_conv_close_strong**: stages 3–4 of `refDay` defined ⇒ the market-close event returns normally and the
session represents the state after stage 4 (no quote hypothesis). -/
theorem C08_conv_close_strong (cfg : SessionCfg α) (w : List (String × α)) (px : Px α)
    (hpos : ∀ t a p, px t a = some p → 0 < p) (sched : List Int)
    (s : Session α) (st : RefState α) (t0 t : Int) (hsr : SR cfg s st t0) (ht : t0 ≤ t)
    (ho : isOpen t = false) (st3 st4 : RefState α)
    (h3 : refCloseReb cfg w px sched t st = some st3) (h4 : refCloseEq cfg px t st3 = some st4) :
    (s.step cfg (fixedAlpha w) px sched ⟨t, .marketClose⟩).2 = none ∧
    SR cfg (s.step cfg (fixedAlpha w) px sched ⟨t, .marketClose⟩).1 st4 t :=
  step_close_conv cfg w px hpos sched s st t0 t hsr ht ho st3 st4 h3 h4

/-- **C08_conv_day_strong**: `refDay … d` defined ⇒ both events of day `d` return normally and the session
represents the reference's next state (no quote hypothesis). -/
theorem C08_conv_day_strong (cfg : SessionCfg α) (w : List (String × α)) (px : Px α)
    (hpos : ∀ t a p, px t a = some p → 0 < p) (sched : List Int)
    (s : Session α) (st : RefState α) (t0 d : Int) (hsr : SR cfg s st t0) (ht : t0 ≤ d * 86400 + OPEN)
    (hd : weekday d ≤ 4) (st' : RefState α) (hday : refDay cfg w px sched st d = some st') :
    ∃ s1 s2, s.step cfg (fixedAlpha w) px sched ⟨d * 86400 + OPEN, .marketOpen⟩ = (s1, none) ∧
      s1.step cfg (fixedAlpha w) px sched ⟨d * 86400 + CLOSE, .marketClose⟩ = (s2, none) ∧
      SR cfg s2 st' (d * 86400 + CLOSE) :=
  day_conv' cfg w px hpos sched s st t0 d hsr ht hd st' hday

end

/-! ## Non-vacuity at `α := ℚ` (the examples of `C08.lean`) -/

section nonvacuity

noncomputable local instance (priority := high) ratOps08c : NumOps ℚ := fieldNumOps ℚ
local instance (priority := high) ratLawful08c : LawfulNumOps ℚ := fieldNumOps_lawful ℚ

/-- the reference backtest of the weekly example is defined (kernel evaluation of the ten-line specification) -/
theorem exRef08 : ∃ r, referenceRun exCfg08 exW08 exPx08 = some r :=
  Option.isSome_iff_exists.mp (by decide +kernel)

theorem exParamOK08 : ParamOK exCfg08 := by
  unfold ParamOK exCfg08
  norm_num

/-- all hypotheses of `C08_refines_converse_init` hold on the example; its conclusion — the session does not
raise — is obtained FROM the reference here (not by running the session), with the observables read off the
reference: one fill of 100 `A` at 9, final cash 100, holdings `A ↦ 100`. -/
example : ∃ s r, referenceRun exCfg08 exW08 exPx08 = some r ∧
    Session.run exCfg08 (fixedAlpha exW08) exPx08 = .ok (s, none) ∧
    s.fills = r.fills ∧ s.equity = r.equity ∧ heldOf s.broker = r.hold ∧
    s.broker.portfolioCash PORTFOLIO_ID = .ok 100 ∧ heldOf s.broker = [("A", 100)] := by
  obtain ⟨r, hr⟩ := exRef08
  obtain ⟨s, hs, h1, h2, _, h4, h5, _⟩ :=
    C08_refines_converse_init exCfg08 exW08 exPx08 rfl exPx08_pos (by decide) exQuoted08
      (by unfold exCfg08; norm_num) (by decide) exParamOK08 r hr
  have get : ∀ {β : Type} (f : RefState ℚ → β) (v : β),
      (referenceRun exCfg08 exW08 exPx08).map f = some v → f r = v := by
    intro β f v h; rw [hr] at h; simpa using h
  have v1 := get (·.cash) 100 (by decide +kernel)
  have v2 := get (·.hold) [("A", 100)] (by decide +kernel)
  exact ⟨s, r, hr, hs, h1, h2, h5, by rw [h4, v1], by rw [h5, v2]⟩

/-- the equivalence on the example: both sides hold -/
example : (∃ s, Session.run exCfg08 (fixedAlpha exW08) exPx08 = .ok (s, none)) ∧
    (∃ r, referenceRun exCfg08 exW08 exPx08 = some r) := by
  obtain ⟨r0, hr0⟩ := exRef08
  obtain ⟨sched, hsc⟩ := C08_ref_sched exCfg08 exW08 exPx08 r0 hr0
  obtain ⟨s0, hinit⟩ := C08_init_ok exCfg08 (by unfold exCfg08; norm_num) (by decide) sched hsc exParamOK08
  have h := (C08_equiv exCfg08 exW08 exPx08 rfl exPx08_pos (by decide) exQuoted08 s0 _ _ hinit).1
  exact ⟨h.mpr exRef08, exRef08⟩

/-! ### the equivalence on a case where both sides FAIL: sizing is refused

Long-only sizing refuses a negative weight (`dwNormalise`).  With weight `A ↦ -1` the Tuesday rebalance raises in
the session and the reference is undefined; all side conditions and `hinit` hold. -/

def exW08neg : List (String × ℚ) := [("A", -1)]

example : (¬ ∃ s, Session.run exCfg08 (fixedAlpha exW08neg) exPx08 = .ok (s, none)) ∧
    referenceRun exCfg08 exW08neg exPx08 = none := by
  have hnone : referenceRun exCfg08 exW08neg exPx08 = none :=
    Option.isNone_iff_eq_none.mp (by decide +kernel)
  refine ⟨?_, hnone⟩
  obtain ⟨r0, hr0⟩ := exRef08
  obtain ⟨sched, hsc⟩ := C08_ref_sched exCfg08 exW08 exPx08 r0 hr0
  obtain ⟨s0, hinit⟩ := C08_init_ok exCfg08 (by unfold exCfg08; norm_num) (by decide) sched hsc exParamOK08
  have hq : ∀ d ∈ bdayRange exCfg08.start exCfg08.end_, ∀ a,
      ((∃ t, a ∈ exCfg08.uni.assets t) ∨ a ∈ exW08neg.map (·.1)) →
        (exPx08 (d * 86400 + OPEN) a).isSome ∧ (exPx08 (d * 86400 + CLOSE) a).isSome := by
    intro d _ a ha
    have : a = "A" := by
      rcases ha with ⟨t, ht⟩ | ha
      · simpa [exCfg08, UniverseSpec.assets, staticAssets] using ht
      · simpa [exW08neg] using ha
    subst this
    exact ⟨exPx08_quoted _, exPx08_quoted _⟩
  have h := (C08_equiv exCfg08 exW08neg exPx08 rfl exPx08_pos (by decide) hq s0 _ _ hinit).1
  intro hs
  obtain ⟨r, hr⟩ := h.mp hs
  rw [hnone] at hr
  cases hr

/-! ### the strong converse where `hquoted` FAILS

Monday … Thursday, rebalanced on Tuesday; `A` has no price at Thursday's open (and only there).  `A` is held at that
instant, so `hquoted` is false; the reference is nevertheless defined (nothing is pending or scheduled at that
open), and `C08_refines_converse_strong` gives the error-free session and the agreement. -/

def exPx08f : Px ℚ := fun t a =>
  if a = "A" then (if t = 18634 * 86400 + 52200 then none else if t % 86400 = 52200 then some 9 else some 10) else none

noncomputable def exCfg08f : SessionCfg ℚ := { exCfg08 with end_ := 18634 * 86400 }

theorem exPx08f_pos : ∀ t a p, exPx08f t a = some p → 0 < p := by
  intro t a p h
  unfold exPx08f at h
  split at h
  · split at h
    · cases h
    · split at h <;> (cases h; norm_num)
  · cases h

example : ∃ s r, referenceRun exCfg08f exW08 exPx08f = some r ∧
    Session.run exCfg08f (fixedAlpha exW08) exPx08f = .ok (s, none) ∧
    s.fills = r.fills ∧ s.equity = r.equity ∧ heldOf s.broker = [("A", 100)] ∧
    r.equity.map (·.2) = [1000, 1000, 1100, 1100] ∧
    -- `hquoted` fails: Thursday is a business day of the range, `A` is a universe asset, no price at its open
    (18634 ∈ bdayRange exCfg08f.start exCfg08f.end_ ∧ (∃ t, "A" ∈ exCfg08f.uni.assets t) ∧
      (exPx08f (18634 * 86400 + OPEN) "A").isSome = false) := by
  obtain ⟨r, hr⟩ : ∃ r, referenceRun exCfg08f exW08 exPx08f = some r :=
    Option.isSome_iff_exists.mp (by decide +kernel)
  have hpar : ParamOK exCfg08f := by unfold ParamOK exCfg08f exCfg08; norm_num
  obtain ⟨s, hs, h1, h2, _, _, h5, _⟩ :=
    C08_refines_converse_strong_init exCfg08f exW08 exPx08f rfl exPx08f_pos (by decide)
      (by unfold exCfg08f exCfg08; norm_num) (by decide) hpar r hr
  have get : ∀ {β : Type} (f : RefState ℚ → β) (v : β),
      (referenceRun exCfg08f exW08 exPx08f).map f = some v → f r = v := by
    intro β f v h; rw [hr] at h; simpa using h
  have v2 := get (·.hold) [("A", 100)] (by decide +kernel)
  have v3 := get (fun r => r.equity.map (·.2)) [1000, 1000, 1100, 1100] (by decide +kernel)
  refine ⟨s, r, hr, hs, h1, h2, by rw [h5, v2], v3, by decide, ⟨0, by decide⟩, by decide⟩

/-! ### `hinit` cannot be dropped

The same configuration with `end < start`: the reference is defined (no business day: it returns the initial
state), every side condition of `C08_refines_converse` holds (`hquoted` vacuously), but the constructor raises
(`simEvents`: "end before start"), so the session does not finish. -/

noncomputable def exCfg08d : SessionCfg ℚ := { exCfg08 with end_ := 18630 * 86400 }

example : (∃ r, referenceRun exCfg08d exW08 exPx08 = some r) ∧
    (¬ ∃ s, Session.run exCfg08d (fixedAlpha exW08) exPx08 = .ok (s, none)) ∧
    exCfg08d.signalSpecs = none ∧ todOf exCfg08d.start ≤ OPEN ∧ bdayRange exCfg08d.start exCfg08d.end_ = [] := by
  refine ⟨Option.isSome_iff_exists.mp (by decide +kernel), ?_, rfl, by decide, by decide⟩
  rintro ⟨s, hs⟩
  have : okNoErr (Session.run exCfg08d (fixedAlpha exW08) exPx08) = true := (okNoErr_iff _).mpr ⟨s, hs⟩
  have hf : okNoErr (Session.run exCfg08d (fixedAlpha exW08) exPx08) = false := by decide +kernel
  rw [hf] at this
  cases this

/-- likewise an invalid cash buffer (`param = 2 > 1`) is refused by the constructor only -/
noncomputable def exCfg08e : SessionCfg ℚ := { exCfg08 with param := 2, rebalance := .weekly "FRI" }

example : (∃ r, referenceRun exCfg08e exW08 exPx08 = some r) ∧
    (¬ ∃ s, Session.run exCfg08e (fixedAlpha exW08) exPx08 = .ok (s, none)) ∧ ¬ ParamOK exCfg08e := by
  refine ⟨Option.isSome_iff_exists.mp (by decide +kernel), ?_, ?_⟩
  · rintro ⟨s, hs⟩
    have : okNoErr (Session.run exCfg08e (fixedAlpha exW08) exPx08) = true := (okNoErr_iff _).mpr ⟨s, hs⟩
    have hf : okNoErr (Session.run exCfg08e (fixedAlpha exW08) exPx08) = false := by decide +kernel
    rw [hf] at this
    cases this
  · unfold ParamOK exCfg08e exCfg08
    norm_num

end nonvacuity
end Qs
