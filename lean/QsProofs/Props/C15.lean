import QsProofs.Lemmas.Broker
import QsProofs.Lemmas.BrokerObs
import QsProofs.Lemmas.BrokerSim
import Mathlib.Data.Rat.Floor
import Mathlib.Tactic.NormNum

/-!
# C15 — Rejected operations change nothing

Observable state (`QsProofs/Lemmas/BrokerObs.lean`):

  `obs σ = (σ.master, [ (id, cash, [(asset, net quantity) per position], pending queue, history) per portfolio ])`

The portfolio / position clocks and the position prices are deliberately *not* observed: the code advances
the clock before some of its checks (e.g. `subscribe_funds` with a negative amount).

Standing hypothesis `WF15 σ := UniqueIds σ ∧ PosUnique σ`: portfolio ids pairwise distinct, and inside each
portfolio the held assets pairwise distinct (both are dictionaries in the Python code).  `WF15` holds for a
new broker and is preserved by every op, `update` included (`C15_wf_new`, `C15_wf_run`).

What is proved
* `C15_broker`   — every op except `update`, refused with any error, leaves `obs` unchanged.  No side
                   condition on `applyTxn` any more: since fix F4 `Position.transact` validates the trade's
                   price and time *before* it moves the running quantities, so a refusal raised from inside
                   it changes at most that position's clock (not observed).
* `C15_applyTxn_refused` — the `applyTxn` instance, stated on its own: a refused `applyTxn` of any kind
                   (unknown portfolio; time earlier than the portfolio's clock; time earlier than the
                   *position's* clock; non-positive price) leaves `obs` unchanged.
                   `C15_applyTxn_position_refusal` identifies the refusals that come from inside
                   `Position.transact` (formerly a partial update — `obs` did change; now it does not).
* `C15_outcomes` — closed form of the outcome of every op except `update` (the complete error-kind table,
                   both directions).  `C15_kind` / `C15_refuses` list the documented refusals one by one
                   (`PreconditionFails` now also lists the two refusals raised by `Position.transact`).
* `C15_getters`  — kinds of the getter errors.
* `C15_sequences`— FULL FORM PROVED: deleting from a run every op that is refused when its turn comes
                   (`acceptedOps`) gives a run with the same final `obs`, for every run without `update`
                   (`NoUpdate`; no condition on refused `applyTxn`s any more).  `obs`-equality alone is not
                   preserved by `step` (a refused op may advance a clock, which is not in `obs`, and change
                   whether a later op is refused: `C15Example.obs_not_a_congruence`); the proof uses the
                   simulation `Le` of `QsProofs/Lemmas/BrokerSim.lean` ("equal up to clocks, the filtered run
                   has the earlier clocks": every clock test of the model is `t < clock ⇒ refuse`).
                   Corollary `C15_sequences_all_refused`: a run of refused ops only leaves `obs` unchanged.
-/

set_option linter.unusedSectionVars false

namespace Qs
open NumOps Num

section
variable {α : Type} [Field α] [LinearOrder α] [IsStrictOrderedRing α] [FloorRing α] [NumOps α]
  [LawfulNumOps α]

/-- ids pairwise distinct, held assets pairwise distinct inside each portfolio -/
def WF15 (b : Broker α) : Prop := UniqueIds b ∧ PosUnique b

theorem C15_wf_new {t : Int} {funds : α} {fee : FeeModel α} {b : Broker α}
    (h : Broker.new t funds fee = .ok b) : WF15 b :=
  ⟨(new_inv h).1.1, (new_inv h).2.2.1⟩

theorem C15_wf_step (b : Broker α) (op : Op α) (hw : WF15 b) : WF15 (step b op).1 :=
  ⟨(step_total b op hw.1).1, step_posUnique b op hw.1 hw.2⟩

theorem C15_wf_run (b : Broker α) (ops : List (Op α)) (hw : WF15 b) : WF15 (run b ops) :=
  ⟨run_unique b ops hw.1, run_posUnique b ops hw.1 hw.2⟩

/-- **C15 (broker).** Any op other than `update` that is refused — with whatever error, for whatever
reason — leaves the observable state unchanged. -/
theorem C15_broker (σ : Broker α) (hw : WF15 σ) (op : Op α) (e : Err)
    (hnu : ∀ t q, op ≠ .update t q)
    (h : (step σ op).2 = some e) : obs (step σ op).1 = obs σ := by
  cases op with
  | subAcct a => simp only [step] at h ⊢; rw [subAcct_err σ a h]
  | wdAcct a => simp only [step] at h ⊢; rw [wdAcct_err σ a h]
  | create pid => simp only [step] at h ⊢; rw [create_err σ pid h]
  | subPf pid a => exact subPf_err_obs σ pid a hw.1 h
  | wdPf pid a => exact wdPf_err_obs σ pid a hw.1 h
  | submit pid o => simp only [step] at h ⊢; rw [submit_err σ pid o h]
  | update t q => exact absurd rfl (hnu t q)
  | setClock t => cases h
  | applyTxn pid t => exact applyTxn_refused_obs σ pid t hw.1 hw.2 h
  | applyMark pid a p t => exact applyMark_obs σ pid a p t hw.1 hw.2
  | pfSubscribe pid t a => exact pfSubscribe_err_obs σ pid t a hw.1 h
  | pfWithdraw pid t a => exact pfWithdraw_err_obs σ pid t a hw.1 h

/-- `applyMark` is unobservable whatever its outcome (it only moves prices and clocks) -/
theorem C15_applyMark_unobservable (σ : Broker α) (hw : WF15 σ) (pid asset : String) (price : α) (t : Int) :
    obs (step σ (.applyMark pid asset price t)).1 = obs σ :=
  applyMark_obs σ pid asset price t hw.1 hw.2

/-- **C15 (`applyTxn`).** A refused `applyTxn` of any kind leaves the observable state unchanged — also
when the error is raised from inside `Position.transact` (time earlier than the position's clock, or a
non-positive price): the validation precedes the update of the running quantities, so such a refusal
changes at most the position's (and the portfolio's) clock, which `obs` does not contain. -/
theorem C15_applyTxn_refused (σ : Broker α) (hw : WF15 σ) (pid : String) (t : Txn α) (e : Err)
    (h : (step σ (.applyTxn pid t)).2 = some e) : obs (step σ (.applyTxn pid t)).1 = obs σ :=
  applyTxn_refused_obs σ pid t hw.1 hw.2 h

/-- **C15 (the refusal from inside `Position.transact`, formerly the one partial update).** If
`applyTxn pid t` passes the portfolio's own checks (portfolio exists, `t.time` not before the portfolio
clock) and is nevertheless refused, then the refusal comes from `Position.transact`: the asset is held,
`t.qty ≠ 0`, and `t.time` is before the *position's* clock or `t.price ≤ 0`; the error is a `ValueError`;
and the observable state has NOT changed (in particular the net quantity of that position is what it was). -/
theorem C15_applyTxn_position_refusal (σ : Broker α) (hw : WF15 σ) (pid : String) (t : Txn α)
    (en : PfEntry α) (hf : σ.find? pid = some en) (ht : ¬ t.time < en.pf.clock) (e : Err)
    (h : (step σ (.applyTxn pid t)).2 = some e) :
    ∃ pos, Positions.find? en.pf.positions t.asset = some pos ∧ t.qty ≠ 0 ∧
      (t.time < pos.clock ∨ t.price ≤ 0) ∧ e = .value ∧
      obs (step σ (.applyTxn pid t)).1 = obs σ := by
  obtain ⟨pos, h1, h2, h3, h4⟩ := applyTxn_position_err σ pid t hf ht h
  exact ⟨pos, h1, h2, h3, h4, C15_applyTxn_refused σ hw pid t e h⟩

/-! ## Outcomes -/

/-- **C15 (closed form of every outcome).** The complete decision table of the refusals, in the order in
which the code checks them. -/
theorem C15_outcomes (σ : Broker α) :
    (∀ a, (step σ (.subAcct a)).2 = if a < 0 then some .value else none) ∧
    (∀ a, (step σ (.wdAcct a)).2 = if a < 0 ∨ σ.master < a then some .value else none) ∧
    (∀ pid, (step σ (.create pid)).2 = if σ.has pid then some .value else none) ∧
    (∀ pid a, (step σ (.subPf pid a)).2 =
        if a < 0 then some .value else
        match σ.find? pid with
        | none => some .key
        | some en => if σ.master < a ∨ σ.clock < en.pf.clock then some .value else none) ∧
    (∀ pid a, (step σ (.wdPf pid a)).2 =
        if a < 0 then some .value else
        match σ.find? pid with
        | none => some .key
        | some en => if en.pf.cash < a ∨ σ.clock < en.pf.clock then some .value else none) ∧
    (∀ pid o, (step σ (.submit pid o)).2 =
        match σ.find? pid with | none => some .key | some _ => none) ∧
    (∀ t, (step σ (.setClock t)).2 = none) ∧
    (∀ pid t, (step σ (.applyTxn pid t)).2 =
        match σ.find? pid with
        | none => some .key
        | some en =>
          if t.time < en.pf.clock then some .value else
          match Positions.find? en.pf.positions t.asset with
          | none => none
          | some pos =>
            if t.qty = 0 then none
            else if t.time < pos.clock ∨ t.price ≤ 0 then some .value else none) ∧
    (∀ pid asset price t, (step σ (.applyMark pid asset price t)).2 =
        match σ.find? pid with
        | none => some .key
        | some en =>
          match Positions.find? en.pf.positions asset with
          | none => none
          | some pos =>
            if price < 0 ∨ t < en.pf.clock then some .value
            else if t < pos.clock ∨ price ≤ 0 then some .value else none) ∧
    (∀ pid t a, (step σ (.pfSubscribe pid t a)).2 =
        match σ.find? pid with
        | none => some .key
        | some en => if t < en.pf.clock ∨ a < 0 then some .value else none) ∧
    (∀ pid t a, (step σ (.pfWithdraw pid t a)).2 =
        match σ.find? pid with
        | none => some .key
        | some en => if t < en.pf.clock ∨ a < 0 ∨ en.pf.cash < a then some .value else none) := by
  refine ⟨subAcct_out σ, wdAcct_out σ, create_out σ, subPf_out σ, wdPf_out σ, submit_out σ,
    fun _ => rfl, ?_, ?_, pfSubscribe_out σ, pfWithdraw_out σ⟩
  · intro pid t
    simp only [step]
    rw [applyTxn_out]
    cases σ.find? pid with
    | none => rfl
    | some en =>
      simp only
      rw [transactAsset_out, transactPosition_out]
      cases Positions.find? en.pf.positions t.asset with
      | none => rfl
      | some pos => simp only; rw [transact_out]
  · intro pid asset price t
    simp only [step]
    rw [applyMark_out]
    cases σ.find? pid with
    | none => rfl
    | some en =>
      simp only
      rw [mark_out]
      cases Positions.find? en.pf.positions asset with
      | none => rfl
      | some pos => simp only; rw [updatePrice_out]

/-- **C15 (error kinds).** The documented refusals and their exception classes (`value` = `ValueError`,
`key` = `KeyError`). -/
theorem C15_kind (σ : Broker α) :
    -- negative amount → ValueError
    (∀ a, a < 0 → (step σ (.subAcct a)).2 = some .value) ∧
    (∀ a, a < 0 → (step σ (.wdAcct a)).2 = some .value) ∧
    (∀ pid a, a < 0 → (step σ (.subPf pid a)).2 = some .value) ∧
    (∀ pid a, a < 0 → (step σ (.wdPf pid a)).2 = some .value) ∧
    (∀ pid t a en, σ.find? pid = some en → a < 0 → (step σ (.pfSubscribe pid t a)).2 = some .value) ∧
    (∀ pid t a en, σ.find? pid = some en → a < 0 → (step σ (.pfWithdraw pid t a)).2 = some .value) ∧
    -- withdrawal / transfer beyond the available cash → ValueError
    (∀ a, σ.master < a → (step σ (.wdAcct a)).2 = some .value) ∧
    (∀ pid a en, σ.find? pid = some en → σ.master < a → (step σ (.subPf pid a)).2 = some .value) ∧
    (∀ pid a en, σ.find? pid = some en → en.pf.cash < a → (step σ (.wdPf pid a)).2 = some .value) ∧
    (∀ pid t a en, σ.find? pid = some en → en.pf.cash < a →
        (step σ (.pfWithdraw pid t a)).2 = some .value) ∧
    -- duplicate portfolio id → ValueError
    (∀ pid, σ.has pid = true → (step σ (.create pid)).2 = some .value) ∧
    -- unknown portfolio id → KeyError
    (∀ pid a, 0 ≤ a → σ.find? pid = none → (step σ (.subPf pid a)).2 = some .key) ∧
    (∀ pid a, 0 ≤ a → σ.find? pid = none → (step σ (.wdPf pid a)).2 = some .key) ∧
    (∀ pid o, σ.find? pid = none → (step σ (.submit pid o)).2 = some .key) ∧
    (∀ pid t, σ.find? pid = none → (step σ (.applyTxn pid t)).2 = some .key) ∧
    (∀ pid asset price t, σ.find? pid = none → (step σ (.applyMark pid asset price t)).2 = some .key) ∧
    (∀ pid t a, σ.find? pid = none → (step σ (.pfSubscribe pid t a)).2 = some .key) ∧
    (∀ pid t a, σ.find? pid = none → (step σ (.pfWithdraw pid t a)).2 = some .key) ∧
    -- timestamp earlier than the portfolio's clock → ValueError
    (∀ pid t a en, σ.find? pid = some en → t < en.pf.clock →
        (step σ (.pfSubscribe pid t a)).2 = some .value) ∧
    (∀ pid t a en, σ.find? pid = some en → t < en.pf.clock →
        (step σ (.pfWithdraw pid t a)).2 = some .value) ∧
    (∀ pid t en, σ.find? pid = some en → t.time < en.pf.clock →
        (step σ (.applyTxn pid t)).2 = some .value) ∧
    (∀ pid a en, σ.find? pid = some en → σ.clock < en.pf.clock →
        (step σ (.subPf pid a)).2 = some .value) ∧
    (∀ pid a en, σ.find? pid = some en → σ.clock < en.pf.clock →
        (step σ (.wdPf pid a)).2 = some .value) ∧
    -- negative price mark of a held asset → ValueError
    (∀ pid asset price t en pos, σ.find? pid = some en →
        Positions.find? en.pf.positions asset = some pos → price < 0 →
        (step σ (.applyMark pid asset price t)).2 = some .value) := by
  obtain ⟨o1, o2, o3, o4, o5, o6, -, o8, o9, o10, o11⟩ := C15_outcomes σ
  refine ⟨?_, ?_, ?_, ?_, ?_, ?_, ?_, ?_, ?_, ?_, ?_, ?_, ?_, ?_, ?_, ?_, ?_, ?_, ?_, ?_, ?_, ?_, ?_, ?_⟩
  · intro a h; rw [o1]; simp [h]
  · intro a h; rw [o2]; simp [h]
  · intro pid a h; rw [o4]; simp [h]
  · intro pid a h; rw [o5]; simp [h]
  · intro pid t a en hf h; rw [o10, hf]; simp [h]
  · intro pid t a en hf h; rw [o11, hf]; simp [h]
  · intro a h; rw [o2]; simp [h]
  · intro pid a en hf h; rw [o4, hf]; simp [h]
  · intro pid a en hf h; rw [o5, hf]; simp [h]
  · intro pid t a en hf h; rw [o11, hf]; simp [h]
  · intro pid h; rw [o3]; simp [h]
  · intro pid a h hf; rw [o4, hf]; simp [not_lt.mpr h]
  · intro pid a h hf; rw [o5, hf]; simp [not_lt.mpr h]
  · intro pid o hf; rw [o6, hf]
  · intro pid t hf; rw [o8, hf]
  · intro pid asset price t hf; rw [o9, hf]
  · intro pid t a hf; rw [o10, hf]
  · intro pid t a hf; rw [o11, hf]
  · intro pid t a en hf h; rw [o10, hf]; simp [h]
  · intro pid t a en hf h; rw [o11, hf]; simp [h]
  · intro pid t en hf h; rw [o8, hf]; simp [h]
  · intro pid a en hf h; rw [o4, hf]; simp [h]
  · intro pid a en hf h; rw [o5, hf]; simp [h]
  · intro pid asset price t en pos hf hp h; rw [o9, hf]; simp [hp, h]

/-- **C15 (getters).** `portfolioCash` of an unknown id raises `ValueError`; `portfolioMarketValue` and
`portfolioEquity` raise `KeyError`; for a known id they return the portfolio's figures. -/
theorem C15_getters (σ : Broker α) (pid : String) :
    (σ.find? pid = none →
      σ.portfolioCash pid = .error .value ∧ σ.portfolioMarketValue pid = .error .key ∧
      σ.portfolioEquity pid = .error .key) ∧
    (∀ en, σ.find? pid = some en →
      σ.portfolioCash pid = .ok en.pf.cash ∧ σ.portfolioMarketValue pid = .ok en.pf.totalMarketValue ∧
      σ.portfolioEquity pid = .ok en.pf.totalEquity) := by
  constructor
  · intro h; simp [Broker.portfolioCash, Broker.portfolioMarketValue, Broker.portfolioEquity, h]
  · intro en h; simp [Broker.portfolioCash, Broker.portfolioMarketValue, Broker.portfolioEquity, h]

/-- The documented precondition failures of the broker / portfolio requests. -/
inductive PreconditionFails (σ : Broker α) : Op α → Prop
  | subAcct_negative (a : α) : a < 0 → PreconditionFails σ (.subAcct a)
  | wdAcct_negative (a : α) : a < 0 → PreconditionFails σ (.wdAcct a)
  | wdAcct_exceeds (a : α) : σ.master < a → PreconditionFails σ (.wdAcct a)
  | create_duplicate (pid : String) : σ.has pid = true → PreconditionFails σ (.create pid)
  | subPf_negative (pid : String) (a : α) : a < 0 → PreconditionFails σ (.subPf pid a)
  | subPf_unknown (pid : String) (a : α) : σ.find? pid = none → PreconditionFails σ (.subPf pid a)
  | subPf_exceeds (pid : String) (a : α) (en : PfEntry α) :
      σ.find? pid = some en → σ.master < a → PreconditionFails σ (.subPf pid a)
  | subPf_earlier (pid : String) (a : α) (en : PfEntry α) :
      σ.find? pid = some en → σ.clock < en.pf.clock → PreconditionFails σ (.subPf pid a)
  | wdPf_negative (pid : String) (a : α) : a < 0 → PreconditionFails σ (.wdPf pid a)
  | wdPf_unknown (pid : String) (a : α) : σ.find? pid = none → PreconditionFails σ (.wdPf pid a)
  | wdPf_exceeds (pid : String) (a : α) (en : PfEntry α) :
      σ.find? pid = some en → en.pf.cash < a → PreconditionFails σ (.wdPf pid a)
  | wdPf_earlier (pid : String) (a : α) (en : PfEntry α) :
      σ.find? pid = some en → σ.clock < en.pf.clock → PreconditionFails σ (.wdPf pid a)
  | submit_unknown (pid : String) (o : Order) : σ.find? pid = none → PreconditionFails σ (.submit pid o)
  | applyTxn_unknown (pid : String) (t : Txn α) :
      σ.find? pid = none → PreconditionFails σ (.applyTxn pid t)
  | applyTxn_earlier (pid : String) (t : Txn α) (en : PfEntry α) :
      σ.find? pid = some en → t.time < en.pf.clock → PreconditionFails σ (.applyTxn pid t)
  | applyTxn_position_earlier (pid : String) (t : Txn α) (en : PfEntry α) (pos : Position α) :
      σ.find? pid = some en → Positions.find? en.pf.positions t.asset = some pos → t.qty ≠ 0 →
      t.time < pos.clock → PreconditionFails σ (.applyTxn pid t)
  | applyTxn_nonpositive_price (pid : String) (t : Txn α) (en : PfEntry α) (pos : Position α) :
      σ.find? pid = some en → Positions.find? en.pf.positions t.asset = some pos → t.qty ≠ 0 →
      t.price ≤ 0 → PreconditionFails σ (.applyTxn pid t)
  | applyMark_unknown (pid asset : String) (price : α) (t : Int) :
      σ.find? pid = none → PreconditionFails σ (.applyMark pid asset price t)
  | applyMark_negative (pid asset : String) (price : α) (t : Int) (en : PfEntry α) (pos : Position α) :
      σ.find? pid = some en → Positions.find? en.pf.positions asset = some pos → price < 0 →
      PreconditionFails σ (.applyMark pid asset price t)
  | pfSubscribe_unknown (pid : String) (t : Int) (a : α) :
      σ.find? pid = none → PreconditionFails σ (.pfSubscribe pid t a)
  | pfSubscribe_earlier (pid : String) (t : Int) (a : α) (en : PfEntry α) :
      σ.find? pid = some en → t < en.pf.clock → PreconditionFails σ (.pfSubscribe pid t a)
  | pfSubscribe_negative (pid : String) (t : Int) (a : α) (en : PfEntry α) :
      σ.find? pid = some en → a < 0 → PreconditionFails σ (.pfSubscribe pid t a)
  | pfWithdraw_unknown (pid : String) (t : Int) (a : α) :
      σ.find? pid = none → PreconditionFails σ (.pfWithdraw pid t a)
  | pfWithdraw_earlier (pid : String) (t : Int) (a : α) (en : PfEntry α) :
      σ.find? pid = some en → t < en.pf.clock → PreconditionFails σ (.pfWithdraw pid t a)
  | pfWithdraw_negative (pid : String) (t : Int) (a : α) (en : PfEntry α) :
      σ.find? pid = some en → a < 0 → PreconditionFails σ (.pfWithdraw pid t a)
  | pfWithdraw_exceeds (pid : String) (t : Int) (a : α) (en : PfEntry α) :
      σ.find? pid = some en → en.pf.cash < a → PreconditionFails σ (.pfWithdraw pid t a)

theorem PreconditionFails.not_update {σ : Broker α} {op : Op α} (h : PreconditionFails σ op) :
    ∀ t q, op ≠ .update t q := by
  intro t q; cases h <;> simp

/-- a documented precondition failure is always refused, never silently accepted -/
theorem PreconditionFails.refused {σ : Broker α} {op : Op α} (h : PreconditionFails σ op) :
    ∃ e, (step σ op).2 = some e := by
  obtain ⟨k1, k2, k3, k4, k5, k6, k7, k8, k9, k10, k11, k12, k13, k14, k15, k16, k17, k18, k19, k20,
    k21, k22, k23, k24⟩ := C15_kind σ
  obtain ⟨-, -, -, o4, o5, -, -, o8, -⟩ := C15_outcomes σ
  cases h with
  | subAcct_negative a h => exact ⟨_, k1 a h⟩
  | wdAcct_negative a h => exact ⟨_, k2 a h⟩
  | wdAcct_exceeds a h => exact ⟨_, k7 a h⟩
  | create_duplicate pid h => exact ⟨_, k11 pid h⟩
  | subPf_negative pid a h => exact ⟨_, k3 pid a h⟩
  | subPf_unknown pid a h =>
    rw [o4, h]; by_cases ha : a < 0
    · exact ⟨_, if_pos ha⟩
    · exact ⟨_, if_neg ha⟩
  | subPf_exceeds pid a en hf h => exact ⟨_, k8 pid a en hf h⟩
  | subPf_earlier pid a en hf h => exact ⟨_, k22 pid a en hf h⟩
  | wdPf_negative pid a h => exact ⟨_, k4 pid a h⟩
  | wdPf_unknown pid a h =>
    rw [o5, h]; by_cases ha : a < 0
    · exact ⟨_, if_pos ha⟩
    · exact ⟨_, if_neg ha⟩
  | wdPf_exceeds pid a en hf h => exact ⟨_, k9 pid a en hf h⟩
  | wdPf_earlier pid a en hf h => exact ⟨_, k23 pid a en hf h⟩
  | submit_unknown pid o h => exact ⟨_, k14 pid o h⟩
  | applyTxn_unknown pid t h => exact ⟨_, k15 pid t h⟩
  | applyTxn_earlier pid t en hf h => exact ⟨_, k21 pid t en hf h⟩
  | applyTxn_position_earlier pid t en pos hf hp hq h =>
    rw [o8, hf]; simp only [hp]
    by_cases hc : t.time < en.pf.clock
    · exact ⟨_, if_pos hc⟩
    · rw [if_neg hc, if_neg hq, if_pos (Or.inl h)]; exact ⟨_, rfl⟩
  | applyTxn_nonpositive_price pid t en pos hf hp hq h =>
    rw [o8, hf]; simp only [hp]
    by_cases hc : t.time < en.pf.clock
    · exact ⟨_, if_pos hc⟩
    · rw [if_neg hc, if_neg hq, if_pos (Or.inr h)]; exact ⟨_, rfl⟩
  | applyMark_unknown pid asset price t h => exact ⟨_, k16 pid asset price t h⟩
  | applyMark_negative pid asset price t en pos hf hp h => exact ⟨_, k24 pid asset price t en pos hf hp h⟩
  | pfSubscribe_unknown pid t a h => exact ⟨_, k17 pid t a h⟩
  | pfSubscribe_earlier pid t a en hf h => exact ⟨_, k19 pid t a en hf h⟩
  | pfSubscribe_negative pid t a en hf h => exact ⟨_, k5 pid t a en hf h⟩
  | pfWithdraw_unknown pid t a h => exact ⟨_, k18 pid t a h⟩
  | pfWithdraw_earlier pid t a en hf h => exact ⟨_, k20 pid t a en hf h⟩
  | pfWithdraw_negative pid t a en hf h => exact ⟨_, k6 pid t a en hf h⟩
  | pfWithdraw_exceeds pid t a en hf h => exact ⟨_, k10 pid t a en hf h⟩

/-- **C15 (refuses).** Every documented precondition failure is refused with an error (never silently
accepted) and the refusal leaves the observable state exactly as it was (never a partial update). The
error kind is given by `C15_kind` / `C15_outcomes`. -/
theorem C15_refuses (σ : Broker α) (hw : WF15 σ) (op : Op α) (h : PreconditionFails σ op) :
    ∃ e, (step σ op).2 = some e ∧ obs (step σ op).1 = obs σ := by
  obtain ⟨e, he⟩ := h.refused
  exact ⟨e, he, C15_broker σ hw op e h.not_update he⟩

/-! ## Sequences -/

/-- every op of the list is refused when its turn comes (none is `update`) -/
def AllRefused (σ : Broker α) : List (Op α) → Prop
  | [] => True
  | o :: os => (∃ e, (step σ o).2 = some e) ∧ (∀ t q, o ≠ .update t q) ∧
      AllRefused (step σ o).1 os

/-- **C15 (sequences).** Deleting from a run all the ops that are refused when their turn comes
(`acceptedOps σ ops`) gives a run with the same final observable state, for every run without `update`
(`NoUpdate ops`).  (The clocks of the two final states may differ — the filtered run has the earlier ones:
`run_accepted_le`.) -/
theorem C15_sequences (σ : Broker α) (hw : WF15 σ) (ops : List (Op α)) (hnu : NoUpdate ops) :
    obs (run σ ops) = obs (run σ (acceptedOps σ ops)) :=
  (run_accepted_le σ σ (Le.refl σ) hw.1 hw.2 ops hnu).obs

/-- `acceptedOps` and `NoUpdate` spelled out -/
theorem C15_acceptedOps_cons (σ : Broker α) (o : Op α) (os : List (Op α)) :
    acceptedOps σ (o :: os) =
      if (step σ o).2 = none then o :: acceptedOps (step σ o).1 os else acceptedOps (step σ o).1 os := by
  simp only [acceptedOps]
  cases (step σ o).2 <;> simp

theorem C15_noUpdate_iff (ops : List (Op α)) :
    NoUpdate ops ↔ ∀ o ∈ ops, ∀ t q, o ≠ .update t q := Iff.rfl

theorem noUpdate_of_allRefused (σ : Broker α) (ops : List (Op α)) (h : AllRefused σ ops) :
    NoUpdate ops := by
  induction ops generalizing σ with
  | nil => intro o ho; cases ho
  | cons o os ih =>
    obtain ⟨-, hnu, hrest⟩ := h
    intro o' ho'
    rcases List.mem_cons.mp ho' with rfl | ho'
    · exact hnu
    · exact ih _ hrest o' ho'

theorem acceptedOps_allRefused (σ : Broker α) (ops : List (Op α)) (h : AllRefused σ ops) :
    acceptedOps σ ops = [] := by
  induction ops generalizing σ with
  | nil => rfl
  | cons o os ih =>
    obtain ⟨⟨e, he⟩, -, hrest⟩ := h
    simp only [acceptedOps, he]
    exact ih _ hrest

/-- corollary: a run consisting only of refused ops leaves `obs` unchanged -/
theorem C15_sequences_all_refused (σ : Broker α) (hw : WF15 σ) (ops : List (Op α))
    (h : AllRefused σ ops) : obs (run σ ops) = obs σ := by
  rw [C15_sequences σ hw ops (noUpdate_of_allRefused σ ops h), acceptedOps_allRefused σ ops h]
  rfl

/-! ### construction and the account-level cash getter: the supported-currency test -/

/-- **C15 (construction).** The constructor yields a broker exactly when the base currency is one of the
supported ones (list membership: equality with an element, not containment in some rendering of the list) and
the initial funds are not negative; every other call is refused with `ValueError` and no broker exists. -/
theorem C15_create (supported : List String) (cur : String) (t : Int) (funds : α) (fee : FeeModel α) :
    (cur ∈ supported ∧ ¬ funds < 0 →
      ∃ b, Broker.create supported cur t funds fee = .ok b ∧ WF15 b ∧ b.entries = [] ∧
        b.master = (if 0 < funds then funds else 0)) ∧
    (¬ (cur ∈ supported ∧ ¬ funds < 0) → Broker.create supported cur t funds fee = .error .value) := by
  constructor
  · rintro ⟨hc, hf⟩
    have hn : Broker.new t funds fee =
        .ok { clock := t, master := (if 0 < funds then funds else 0), fee := fee } := by
      simp [Broker.new, lt_eq, hf]
    refine ⟨_, ?_, C15_wf_new hn, rfl, rfl⟩
    simp [Broker.create, hc, hn]
  · intro h
    by_cases hc : cur ∈ supported
    · have hf : funds < 0 := by
        by_contra hf; exact h ⟨hc, hf⟩
      simp [Broker.create, hc, Broker.new, lt_eq, hf]
    · simp [Broker.create, hc]

/-- **C15 (account cash getter).** An unsupported currency is refused with `ValueError`; a supported one
gives the master balance for the base currency and zero for the others. -/
theorem C15_accountCash (σ : Broker α) (supported : List String) (base cur : String) :
    (cur ∉ supported → σ.accountCash supported base cur = .error .value) ∧
    (cur ∈ supported → σ.accountCash supported base cur = .ok (if cur = base then σ.master else 0)) := by
  constructor
  · intro h; simp [Broker.accountCash, h]
  · intro h
    by_cases hb : cur = base
    · subst hb; simp [Broker.accountCash, h]
    · simp [Broker.accountCash, h, hb]

end
end Qs

/-! ## Non-vacuity at `α := ℚ` -/

namespace Qs.C15Example
open Qs NumOps Num

noncomputable local instance (priority := high) ratOps : NumOps ℚ := fieldNumOps ℚ
local instance : LawfulNumOps ℚ := fieldNumOps_lawful ℚ

noncomputable def b0 : Broker ℚ := { clock := 0, master := 1000, fee := .zero }

/-- two portfolios; A sells 10 `X` short from flat, flips through zero to +5, then buys `Y` into negative cash -/
noncomputable def σ : Broker ℚ :=
  run b0
    [ .create "A", .create "B", .subPf "A" 500, .subPf "B" 100,
      .applyTxn "A" { asset := "X", qty := -10, time := 1, price := 10, commission := 1 },
      .applyTxn "A" { asset := "X", qty := 15, time := 2, price := 11, commission := 0 },
      .applyTxn "A" { asset := "Y", qty := 100, time := 3, price := 100, commission := 0 } ]

theorem wf_b0 : WF15 b0 := C15_wf_new (t := 0) (funds := 1000) (fee := .zero) (by simp [Broker.new, b0])
theorem wf_σ : WF15 σ := C15_wf_run _ _ wf_b0

example : cashView σ = (400, [("A", -9566), ("B", 100)]) := by decide +kernel
example : σ.entries.map (fun e => (e.pf.id, e.pf.positions.map (fun p => (p.asset, p.net)))) =
    [("A", [("X", 5), ("Y", 100)]), ("B", [])] := by decide +kernel

/-- a concrete refused op: withdrawing 1000 from portfolio B (cash 100): `ValueError`, `obs` unchanged -/
example : (step σ (.wdPf "B" 1000)).2 = some .value ∧ obs (step σ (.wdPf "B" 1000)).1 = obs σ := by
  refine ⟨by decide +kernel, ?_⟩
  have h : (σ.find? "B").map (fun e => e.pf.cash) = some 100 := by decide +kernel
  cases hf : σ.find? "B" with
  | none => rw [hf] at h; cases h
  | some en =>
    rw [hf] at h
    have hc : en.pf.cash = 100 := by simpa using h
    obtain ⟨e, -, ho⟩ := C15_refuses σ wf_σ _ (.wdPf_exceeds "B" 1000 en hf (by rw [hc]; norm_num))
    exact ho

/-- more refused ops on the same state, with their kinds -/
example : (step σ (.subAcct (-1))).2 = some .value := by decide +kernel
example : (step σ (.create "A")).2 = some .value := by decide +kernel
example : (step σ (.subPf "C" 1)).2 = some .key := by decide +kernel
example : (step σ (.submit "C" { id := 1, asset := "X", qty := 1 })).2 = some .key := by decide +kernel
example : (step σ (.pfSubscribe "A" 2 1)).2 = some .value := by decide +kernel   -- A's clock is 3
example : (step σ (.applyMark "A" "X" (-1) 4)).2 = some .value := by decide +kernel
example : (step σ (.applyTxn "A" { asset := "X", qty := 1, time := 2, price := 11, commission := 0 })).2 =
    some .value := by decide +kernel
example : σ.portfolioCash "C" = .error .value := by decide +kernel
example : (σ.portfolioEquity "C").toOption = none := by decide +kernel

/-- The refusal from inside `Position.transact` (`C15_applyTxn_position_refusal`) does occur — and is no
longer a partial update: mark `X` at time 100 (the position's clock becomes 100, the portfolio's stays 3),
then a transaction at time 50 passes the portfolio check and is refused by the position; the held quantity
of `X` is still 5 (before fix F4 it had moved to 6), cash is unchanged, `obs` is unchanged. -/
noncomputable def σm : Broker ℚ := (step σ (.applyMark "A" "X" 12 100)).1
noncomputable def lateTxn : Txn ℚ := { asset := "X", qty := 1, time := 50, price := 12, commission := 0 }
/-- a sale at price 0 of a held asset: refused by `Position.transact` as well -/
noncomputable def freeTxn : Txn ℚ := { asset := "Y", qty := -7, time := 200, price := 0, commission := 0 }

theorem wf_σm : WF15 σm := C15_wf_step _ _ wf_σ

example : (step σ (.applyMark "A" "X" 12 100)).2 = none := by decide +kernel
example : (step σm (.applyTxn "A" lateTxn)).2 = some .value := by decide +kernel
example : (step σm (.applyTxn "A" freeTxn)).2 = some .value := by decide +kernel
example : σm.entries.map (fun e => e.pf.positions.map (fun p => (p.asset, p.net))) =
    [[("X", 5), ("Y", 100)], []] := by decide +kernel
example : (step σm (.applyTxn "A" lateTxn)).1.entries.map
      (fun e => e.pf.positions.map (fun p => (p.asset, p.net))) =
    [[("X", 5), ("Y", 100)], []] := by decide +kernel
example : (step σm (.applyTxn "A" freeTxn)).1.entries.map
      (fun e => e.pf.positions.map (fun p => (p.asset, p.net))) =
    [[("X", 5), ("Y", 100)], []] := by decide +kernel
example : cashView (step σm (.applyTxn "A" lateTxn)).1 = cashView σm := by decide +kernel
example : obs (step σm (.applyTxn "A" lateTxn)).1 = obs σm :=
  C15_applyTxn_refused σm wf_σm "A" lateTxn .value (by decide +kernel)
example : obs (step σm (.applyTxn "A" freeTxn)).1 = obs σm :=
  C15_broker σm wf_σm _ .value (by simp) (by decide +kernel)
/-- the refused transaction has moved clocks (A's portfolio clock 3 → 50), which `obs` does not contain -/
example : (step σm (.applyTxn "A" lateTxn)).1.entries.map (fun e => e.pf.clock) = [50, 0]
    ∧ σm.entries.map (fun e => e.pf.clock) = [3, 0] := by decide +kernel

/-- Why `C15_sequences` is stated for runs of refused ops only: `obs`-equal states need not react alike.
`pfSubscribe "A" 10 (-1)` is refused (negative amount) but has advanced A's clock to 10; the states before
and after have the same `obs`, yet `pfSubscribe "A" 5 1` is accepted by the first and refused by the second. -/
theorem obs_not_a_congruence :
    ∃ σ₁ σ₂ : Broker ℚ, ∃ op : Op ℚ, WF15 σ₁ ∧ WF15 σ₂ ∧ obs σ₁ = obs σ₂ ∧
      (step σ₁ op).2 = none ∧ (step σ₂ op).2 = some .value := by
  refine ⟨σ, (step σ (.pfSubscribe "A" 10 (-1))).1, .pfSubscribe "A" 5 1, wf_σ, C15_wf_step _ _ wf_σ, ?_,
    by decide +kernel, by decide +kernel⟩
  have h : (σ.find? "A").isSome = true := by decide +kernel
  cases hf : σ.find? "A" with
  | none => rw [hf] at h; cases h
  | some en =>
    obtain ⟨e, -, ho⟩ := C15_refuses σ wf_σ _ (.pfSubscribe_negative "A" 10 (-1) en hf (by norm_num))
    exact ho.symm

/-- `C15_sequences` on a run mixing refused and accepted ops: the negative subscription is refused but moves
A's clock to 10, the next subscription is accepted, the over-withdrawal is refused, the account subscription
is accepted.  Deleting the two refused ops gives the same `obs`. -/
noncomputable def mixed : List (Op ℚ) :=
  [ .pfSubscribe "A" 10 (-1), .pfSubscribe "A" 12 7, .wdPf "B" 1000, .subAcct 5 ]

example : (acceptedOps σ mixed).length = 2 := by decide +kernel
example : obs (run σ mixed) = obs (run σ [.pfSubscribe "A" 12 7, .subAcct 5]) := by
  have h := C15_sequences σ wf_σ mixed (by
    intro o ho
    simp only [mixed, List.mem_cons, List.mem_nil_iff, or_false] at ho
    rcases ho with rfl | rfl | rfl | rfl <;> simp)
  have h2 : acceptedOps σ mixed = [.pfSubscribe "A" 12 7, .subAcct 5] := by
    have e1 : (step σ (.pfSubscribe "A" 10 (-1))).2 = some .value := by decide +kernel
    have e2 : (step (step σ (.pfSubscribe "A" 10 (-1))).1 (.pfSubscribe "A" 12 7)).2 = none := by
      decide +kernel
    have e3 : (step (step (step σ (.pfSubscribe "A" 10 (-1))).1 (.pfSubscribe "A" 12 7)).1
        (.wdPf "B" 1000)).2 = some .value := by decide +kernel
    have e4 : (step (step (step (step σ (.pfSubscribe "A" 10 (-1))).1 (.pfSubscribe "A" 12 7)).1
        (.wdPf "B" 1000)).1 (.subAcct 5)).2 = none := by decide +kernel
    simp only [mixed, acceptedOps, e1, e2, e3, e4]
  rw [h, h2]
example : cashView (run σ mixed) = (405, [("A", -9559), ("B", 100)]) := by decide +kernel

/-- `C15_sequences` on a run containing an `applyTxn` refused from inside `Position.transact` (formerly
excluded by `Admissible`): `lateTxn` is refused, the purchase of 2 `X` at time 100 is accepted. -/
noncomputable def okTxn : Txn ℚ := { asset := "X", qty := 2, time := 100, price := 12, commission := 0 }
noncomputable def mixedTxn : List (Op ℚ) := [ .applyTxn "A" lateTxn, .applyTxn "A" okTxn ]

example : obs (run σm mixedTxn) = obs (run σm [.applyTxn "A" okTxn]) := by
  have h := C15_sequences σm wf_σm mixedTxn (by
    intro o ho
    simp only [mixedTxn, List.mem_cons, List.mem_nil_iff, or_false] at ho
    rcases ho with rfl | rfl <;> simp)
  have h2 : acceptedOps σm mixedTxn = [.applyTxn "A" okTxn] := by
    have e1 : (step σm (.applyTxn "A" lateTxn)).2 = some .value := by decide +kernel
    have e2 : (step (step σm (.applyTxn "A" lateTxn)).1 (.applyTxn "A" okTxn)).2 = none := by
      decide +kernel
    simp only [mixedTxn, acceptedOps, e1, e2]
  rw [h, h2]
example : (run σm mixedTxn).entries.map (fun e => e.pf.positions.map (fun p => (p.asset, p.net))) =
    [[("X", 7), ("Y", 100)], []] := by decide +kernel

/-- construction: a code that is *contained in* the text "USD, GBP, EUR" but is not one of the three codes is refused -/
example : Broker.create ["USD", "GBP", "EUR"] "US" 0 (1000 : ℚ) .zero = .error .value :=
  (C15_create _ _ _ _ _).2 (by decide)
example : Broker.create ["USD", "GBP", "EUR"] "D, G" 0 (1000 : ℚ) .zero = .error .value :=
  (C15_create _ _ _ _ _).2 (by decide)
example : ∃ b, Broker.create ["USD", "GBP", "EUR"] "GBP" 0 (1000 : ℚ) .zero = .ok b ∧ b.master = 1000 := by
  obtain ⟨b, h, _, _, hm⟩ := (C15_create ["USD", "GBP", "EUR"] "GBP" 0 (1000 : ℚ) .zero).1 ⟨by decide, by norm_num⟩
  exact ⟨b, h, by simpa using hm⟩

end Qs.C15Example
