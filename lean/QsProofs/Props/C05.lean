import QsProofs.Lemmas.OrdersExample

/-!
# C05 — Fills use the current quote and charge exactly the fee model's commission

All theorems are about the real model (`Qs.Broker.makeTxn`, `Qs.Broker.applyTxn`, `Qs.Broker.executeOrder`,
`Qs.FeeModel.totalCost`, `Num.roundHalfEvenI`).
-/

set_option linter.unusedSectionVars false

namespace Qs
open NumOps Num

section
variable {α : Type} [Field α] [LinearOrder α] [IsStrictOrderedRing α] [FloorRing α] [NumOps α] [LawfulNumOps α]

/-- **C05_fill** (no side condition). The transaction `_execute_order` builds exists iff the asset is quoted;
it is stamped with the broker clock, carries the order's asset, id and full quantity, is priced at the bid
for a sell (`qty < 0`) and at the ask otherwise, and its commission is the fee model applied to the
consideration `round(price × qty)`. (A zero-quantity order has direction `copysign(1, 0) = +1` and so is
priced at the ask.) -/
theorem C05_fill_general (b : Broker α) (q : Quotes α) (o : Order) (tx : Txn α) (h : b.makeTxn q o = .ok tx) :
    ∃ bid ask, q o.asset = some (bid, ask) ∧ tx.time = b.clock ∧
      tx.price = (if o.qty < 0 then bid else ask) ∧ tx.qty = o.qty ∧ tx.asset = o.asset ∧
      tx.orderId = o.id ∧
      tx.commission = b.fee.totalCost ((roundHalfEvenI (tx.price * (o.qty : α)) : Int) : α) :=
  makeTxn_spec h

/-- **C05_fill.** For a non-zero order: ask for a buy (`0 < qty`), bid for a sell. -/
theorem C05_fill (b : Broker α) (q : Quotes α) (o : Order) (tx : Txn α) (hq : o.qty ≠ 0)
    (h : b.makeTxn q o = .ok tx) :
    ∃ bid ask, q o.asset = some (bid, ask) ∧ tx.time = b.clock ∧
      tx.price = (if 0 < o.qty then ask else bid) ∧ tx.qty = o.qty ∧
      tx.commission = b.fee.totalCost ((roundHalfEvenI (tx.price * (o.qty : α)) : Int) : α) := by
  obtain ⟨bid, ask, h1, h2, h3, h4, _, _, h7⟩ := makeTxn_spec h
  refine ⟨bid, ask, h1, h2, ?_, h4, h7⟩
  rw [h3]
  by_cases hneg : o.qty < 0
  · rw [if_pos hneg, if_neg (by omega)]
  · rw [if_neg hneg, if_pos (by omega)]

/-- **C05_fill**, missing quote: `_execute_order` raises `ValueError`. -/
theorem C05_fill_unquoted (b : Broker α) (q : Quotes α) (o : Order) (h : q o.asset = none) :
    b.makeTxn q o = .error .value :=
  makeTxn_none h

/-- a quoted asset always yields a transaction -/
theorem C05_fill_quoted (b : Broker α) (q : Quotes α) (o : Order) (bid ask : α) (h : q o.asset = some (bid, ask)) :
    ∃ tx, b.makeTxn q o = .ok tx := by
  obtain ⟨tx, htx, _⟩ := makeTxn_quote (b := b) h
  exact ⟨tx, htx⟩

/-- **C05_zero.** -/
theorem C05_zero (x : α) : (FeeModel.zero : FeeModel α).totalCost x = 0 := totalCost_zero x

/-- **C05_percent.** -/
theorem C05_percent (c τ x : α) (hc : 0 ≤ c) (hτ : 0 ≤ τ) :
    (FeeModel.percent c τ).totalCost x = (c + τ) * |x| ∧ 0 ≤ (FeeModel.percent c τ).totalCost x ∧
    (FeeModel.percent c τ).totalCost (-x) = (FeeModel.percent c τ).totalCost x :=
  ⟨totalCost_percent c τ x, totalCost_nonneg (.percent c τ) ⟨hc, hτ⟩ x, totalCost_neg _ x⟩

/-- **C05_round.** `roundHalfEvenI` on the field carrier is round-to-nearest, ties to even, and odd. -/
theorem C05_round (x : α) :
    |((roundHalfEvenI x : Int) : α) - x| ≤ 1 / 2 ∧
    (∀ n : Int, |(n : α) - x| < 1 / 2 → roundHalfEvenI x = n) ∧
    (|((roundHalfEvenI x : Int) : α) - x| = 1 / 2 → roundHalfEvenI x % 2 = 0) ∧
    roundHalfEvenI (-x) = - roundHalfEvenI x :=
  ⟨rhe_dist x, rhe_nearest x, rhe_tie x, rhe_neg x⟩

/-- a buy and a sell of the same size at the same price pay the same commission -/
theorem C05_symmetric (f : FeeModel α) (price : α) (n : Int) :
    f.totalCost ((roundHalfEvenI (price * ((-n : Int) : α)) : Int) : α)
      = f.totalCost ((roundHalfEvenI (price * (n : α)) : Int) : α) := by
  have : price * ((-n : Int) : α) = -(price * (n : α)) := by push_cast; ring
  rw [this, rhe_neg]
  push_cast
  exact totalCost_neg f _

/-- **C05_debit** (`applyTxn`). An accepted transaction debits exactly `price × qty + commission` from the
cash of portfolio `pid`; no other portfolio's cash and not the master account changes. -/
theorem C05_debit (b : Broker α) (hwf : WF b) (pid : String) (t : Txn α) (h : (b.applyTxn pid t).2 = none) :
    (b.applyTxn pid t).1.entries.map (fun e => (e.pf.id, e.pf.cash))
      = b.entries.map (fun e => (e.pf.id,
          if e.pf.id = pid then e.pf.cash - (t.price * (t.qty : α) + t.commission) else e.pf.cash)) ∧
    (b.applyTxn pid t).1.master = b.master ∧
    (b.applyTxn pid t).1.cashOf pid = (b.cashOf pid).map (fun c => c - (t.price * (t.qty : α) + t.commission)) ∧
    ∀ p, p ≠ pid → (b.applyTxn pid t).1.cashOf p = b.cashOf p := by
  obtain ⟨h1, h2⟩ := applyTxn_cash b hwf pid t h
  refine ⟨h1, h2, ?_, ?_⟩
  · rw [applyTxn_cashOf b hwf pid t h]; simp
  · intro p hp; rw [applyTxn_cashOf b hwf pid t h]; simp [hp]

/-- **C05_debit** (`executeOrder`). A successful execution debits the portfolio by the fill's
`price × qty + commission`, where the fill is the transaction of `C05_fill`, and logs that fill. -/
theorem C05_debit_exec (b : Broker α) (hwf : WF b) (q : Quotes α) (pid : String) (o : Order)
    (h : (b.executeOrder q pid o).2 = none) :
    ∃ tx, b.makeTxn q o = .ok tx ∧
      (b.executeOrder q pid o).1.fillLog = b.fillLog ++ [(pid, tx)] ∧
      (b.executeOrder q pid o).1.entries.map (fun e => (e.pf.id, e.pf.cash))
        = b.entries.map (fun e => (e.pf.id,
            if e.pf.id = pid then e.pf.cash - (tx.price * (o.qty : α) + tx.commission) else e.pf.cash)) ∧
      (b.executeOrder q pid o).1.master = b.master := by
  obtain ⟨tx, htx, hlog⟩ := executeOrder_log b q pid o h
  have hqty : tx.qty = o.qty := by
    obtain ⟨_, _, _, _, _, h4, _⟩ := makeTxn_spec htx; exact h4
  have he : b.executeOrder q pid o = b.applyTxn pid tx := by simp only [Broker.executeOrder, htx]
  rw [he] at h ⊢
  obtain ⟨h1, h2⟩ := applyTxn_cash b hwf pid tx h
  rw [hqty] at h1
  refine ⟨tx, htx, ?_, h1, h2⟩
  rw [← he]; exact hlog

/-- **C05 at the level of `update`.** Every transaction logged by an update in exchange hours that returns
normally is stamped with the update time `t`, priced at the quote of that update (bid for a sell, ask
otherwise), for the full quantity, and carries the fee model's commission on the rounded consideration. -/
theorem C05_update_fills (σ : Broker α) (t : Int) (q : Quotes α) (hopen : isOpen t = true)
    (hret : (σ.update t q).2 = none) :
    ∃ fills : List (String × Txn α), (σ.update t q).1.fillLog = σ.fillLog ++ fills ∧
      List.Forall₂ (fun (x : String × Order) (f : String × Txn α) =>
        f.1 = x.1 ∧ ∃ bid ask, q x.2.asset = some (bid, ask) ∧ f.2.time = t ∧
          f.2.price = (if x.2.qty < 0 then bid else ask) ∧ f.2.qty = x.2.qty ∧ f.2.asset = x.2.asset ∧
          f.2.orderId = x.2.id ∧
          f.2.commission = σ.fee.totalCost ((roundHalfEvenI (f.2.price * (x.2.qty : α)) : Int) : α))
        (sellsFirst (fun (x : String × Order) => x.2.isSell) σ.drained) fills := by
  obtain ⟨⟨fills, hlog, hf2⟩, _⟩ := update_open_spec σ t q hopen hret
  refine ⟨fills, hlog, hf2.imp ?_⟩
  intro x f ⟨h1, h2⟩
  exact ⟨h1, makeTxn_spec h2⟩

end

/-! ## Non-vacuity at `α := ℚ` (`fieldNumOps ℚ`), on the concrete broker `Ex.σ₀`
(percentage fee model 0.1 % + 0.5 %; quotes `A ↦ (99, 101)`, `B ↦ (49, 51)`; queued: buy 10 `A`, sell 5 `B`) -/

section examples
open Ex

/-- the buy of 10 `A` is priced at the ask 101; consideration 1010; commission 0.6 % of it = 6.06 -/
theorem Ex.fill_buyA (tx : Txn ℚ) (h : σ₀.makeTxn quotes oBuyA = .ok tx) :
    tx.price = 101 ∧ tx.time = tClosed ∧ tx.commission = 606 / 100 := by
  obtain ⟨bid, ask, hq, ht, hp, _, hc⟩ := C05_fill σ₀ quotes oBuyA tx (by decide) h
  have hq' : quotes oBuyA.asset = some (99, 101) := rfl
  rw [hq'] at hq
  simp only [Option.some.injEq, Prod.mk.injEq] at hq
  obtain ⟨rfl, rfl⟩ := hq
  rw [if_pos (by decide)] at hp
  refine ⟨hp, ht, ?_⟩
  have hr : roundHalfEvenI ((101 : ℚ) * ((10 : Int) : ℚ)) = 1010 :=
    (C05_round _).2.1 1010 (by norm_num)
  rw [hc, hp]
  show (FeeModel.percent (1 / 1000 : ℚ) (5 / 1000)).totalCost
    ((roundHalfEvenI ((101 : ℚ) * ((10 : Int) : ℚ)) : Int) : ℚ) = 606 / 100
  rw [hr, (C05_percent _ _ _ (by norm_num) (by norm_num)).1]
  norm_num

/-- the sell of 5 `B` is priced at the bid 49; consideration −245; commission 0.6 % of 245 = 1.47 -/
theorem Ex.fill_sellB (tx : Txn ℚ) (h : σ₀.makeTxn quotes oSellB = .ok tx) :
    tx.price = 49 ∧ tx.commission = 147 / 100 := by
  obtain ⟨bid, ask, hq, _, hp, _, hc⟩ := C05_fill σ₀ quotes oSellB tx (by decide) h
  have hq' : quotes oSellB.asset = some (49, 51) := rfl
  rw [hq'] at hq
  simp only [Option.some.injEq, Prod.mk.injEq] at hq
  obtain ⟨rfl, rfl⟩ := hq
  rw [if_neg (by decide)] at hp
  refine ⟨hp, ?_⟩
  have hr : roundHalfEvenI ((49 : ℚ) * ((-5 : Int) : ℚ)) = -245 :=
    (C05_round _).2.1 (-245) (by norm_num)
  rw [hc, hp]
  show (FeeModel.percent (1 / 1000 : ℚ) (5 / 1000)).totalCost
    ((roundHalfEvenI ((49 : ℚ) * ((-5 : Int) : ℚ)) : Int) : ℚ) = 147 / 100
  rw [hr, (C05_percent _ _ _ (by norm_num) (by norm_num)).1]
  norm_num [abs_of_neg]

-- C05_fill: both orders yield a transaction; buy at the ask, sell at the bid, bid ≠ ask
example : (∃ tx, σ₀.makeTxn quotes oBuyA = .ok tx ∧ tx.price = 101 ∧ tx.commission = 606 / 100) ∧
    (∃ tx, σ₀.makeTxn quotes oSellB = .ok tx ∧ tx.price = 49 ∧ tx.commission = 147 / 100) ∧
    σ₀.makeTxn quotes ⟨9, "C", 1⟩ = .error .value := by
  refine ⟨?_, ?_, C05_fill_unquoted σ₀ quotes ⟨9, "C", 1⟩ rfl⟩
  · obtain ⟨tx, h⟩ := C05_fill_quoted σ₀ quotes oBuyA 99 101 rfl
    exact ⟨tx, h, (Ex.fill_buyA tx h).1, (Ex.fill_buyA tx h).2.2⟩
  · obtain ⟨tx, h⟩ := C05_fill_quoted σ₀ quotes oSellB 49 51 rfl
    exact ⟨tx, h, (Ex.fill_sellB tx h).1, (Ex.fill_sellB tx h).2⟩

-- C05_round: a tie goes to the even neighbour, in both directions
example : roundHalfEvenI (5 / 2 : ℚ) = 2 ∧ roundHalfEvenI (7 / 2 : ℚ) = 4 ∧ roundHalfEvenI (-5 / 2 : ℚ) = -2 := by
  have h52 : roundHalfEvenI (5 / 2 : ℚ) = 2 := by
    have hf : ⌊(5 / 2 : ℚ)⌋ = 2 := by rw [Int.floor_eq_iff]; norm_num
    have := (rhe_spec (5 / 2 : ℚ)).2.2 (by rw [hf]; norm_num)
    rw [this, hf]; decide
  have h72 : roundHalfEvenI (7 / 2 : ℚ) = 4 := by
    have hf : ⌊(7 / 2 : ℚ)⌋ = 3 := by rw [Int.floor_eq_iff]; norm_num
    have := (rhe_spec (7 / 2 : ℚ)).2.2 (by rw [hf]; norm_num)
    rw [this, hf]; decide
  refine ⟨h52, h72, ?_⟩
  have : (-5 / 2 : ℚ) = -(5 / 2) := by norm_num
  rw [this, (C05_round _).2.2.2, h52]

-- C05_debit: executing the buy of 10 `A` for `p1` returns normally, debits 1010 + 6.06 from `p1` only
example : (σ₀.executeOrder quotes "p1" oBuyA).2 = none ∧
    (σ₀.executeOrder quotes "p1" oBuyA).1.entries.map (fun e => (e.pf.id, e.pf.cash))
      = [("p1", 10000 - (1010 + 606 / 100)), ("p2", 500)] ∧
    (σ₀.executeOrder quotes "p1" oBuyA).1.master = 0 := by
  have hret := (executeOrder_ok σ₀ quotes "p1" oBuyA clocksOK (by decide) ⟨99, 101, rfl⟩ quotesPos).1
  obtain ⟨tx, htx, _, hcash, hm⟩ := C05_debit_exec σ₀ wf quotes "p1" oBuyA hret
  obtain ⟨hp, _, hc⟩ := Ex.fill_buyA tx htx
  refine ⟨hret, ?_, hm⟩
  rw [hcash, hp, hc]
  simp [σ₀, oBuyA]
  norm_num

end examples
end Qs
