import QsProofs.Lemmas.Stats
import Mathlib.Data.Rat.Floor
import Mathlib.Tactic.NormNum

/-!
# C17 — Performance statistics match their definitions for every equity curve

For any positive equity curve, period returns and cumulative returns compound consistently (weekly, monthly
and yearly aggregates each compound to the same total return as the daily series), the drawdown at each date
equals 1 − value / running maximum with the running maximum including the first observation, and maximum
drawdown and its duration are the maximum and the longest consecutive under-water run of that series.  CAGR
equals final cumulative return ^ (periods / number of observations) − 1, Sharpe and Sortino equal
sqrt(periods) × mean return / population deviation of all (resp. negative) returns; all of them are unchanged
when equity is multiplied by a positive constant, and the tearsheet and JSON export report the same numbers.

All theorems are about `Qs.returnsOf`, `Qs.cumProd`, `Qs.cumReturnsOf`, `Qs.compound`, `Qs.groupByKey`,
`Qs.aggregateReturns`, `Qs.highWaterMarks`, `Qs.drawdownsOf`, `Qs.maxOf`, `Qs.longestRun`,
`Qs.createDrawdowns`, `Qs.createCagr`, `Qs.createSharpe`, `Qs.createSortino` of `QsModel/Stats.lean`.

Notes.
* "The tearsheet and the JSON export report the same numbers": in the model both reporters are the same
  functions (`createDrawdowns`, `createCagr`, …) applied to `cumReturnsOf (returnsOf equity)`, so that clause
  is a statement about the Python code (both call `performance.py`), not about the model; nothing to prove here.
* The entries of a list are addressed with `l[t]?`; the running maximum at `t` is characterised as the
  greatest element of the prefix `cum.take (t + 1)`, which contains `cum[0]`.
* `C17_returns`, `C17_compound`, `C17_maxdd`, `C17_duration`, `C17_defs`, `C17_scale` need no positivity;
  `C17_scale` only needs `k ≠ 0`.  Positivity of the curve is used for `C17_cum` (division by `eq[t]`) and for
  the form `1 − value / running maximum` and the range `[0, 1)` in `C17_drawdown`.
-/

set_option linter.unusedSectionVars false

namespace Qs
open NumOps Num

section
variable {α : Type} [Field α] [LinearOrder α] [IsStrictOrderedRing α] [FloorRing α] [NumOps α] [LawfulNumOps α]

/-! ## Returns and cumulative returns -/

/-- C17 (returns): one return per observation, the first is `0`, the others are `eq[t+1] / eq[t] − 1`. -/
theorem C17_returns (eq : List α) (h : eq ≠ []) :
    (returnsOf eq).length = eq.length ∧ (returnsOf eq)[0]? = some 0 ∧
    ∀ (t : Nat) (x y : α), eq[t]? = some x → eq[t + 1]? = some y → (returnsOf eq)[t + 1]? = some (y / x - 1) :=
  ⟨St.returnsOf_length eq, St.returnsOf_zero eq h, St.returnsOf_succ eq⟩

/-- C17 (cumulative returns, definition): entry `t` is the product of the first `t + 1` gross returns. -/
theorem C17_cum_def (rs : List α) (t : Nat) (ht : t < rs.length) :
    (cumReturnsOf rs)[t]? = some ((rs.take (t + 1)).map (1 + ·)).prod := by
  unfold cumReturnsOf
  rw [St.cumProd_getElem? _ rs t ht]
  simp

/-- C17 (cumulative returns): for a positive curve the cumulative return at `t` is `eq[t] / eq[0]`. -/
theorem C17_cum (eq : List α) (h : eq ≠ []) (hpos : ∀ x ∈ eq, 0 < x) :
    cumReturnsOf (returnsOf eq) = eq.map (· / eq.head h) ∧
    ∀ (t : Nat) (x : α), eq[t]? = some x → (cumReturnsOf (returnsOf eq))[t]? = some (x / eq.head h) := by
  have hall : cumReturnsOf (returnsOf eq) = eq.map (· / eq.head h) := by
    cases eq with
    | nil => exact absurd rfl h
    | cons e es => exact St.cum_returns e es hpos
  refine ⟨hall, ?_⟩
  intro t x hx
  rw [hall, List.getElem?_map, hx]
  rfl

/-! ## Aggregation compounds consistently -/

/-- C17 (compounding, any grouping): for every key function, compounding each group and then compounding
the groups gives the same total as compounding the whole series. -/
theorem C17_compound_any {γ : Type} (key : γ → List Int) (val : γ → α) (l : List γ) :
    ((groupByKey key l).map fun g => 1 + compound (g.2.map val)).prod = (l.map fun x => 1 + val x).prod :=
  St.prod_groupByKey key val l

/-- `groupByKey` is a partition of its input: the keys of the groups are pairwise distinct and are exactly
the keys occurring in the input, each group holds exactly the elements with its key (in input order, so it is
non-empty), and the groups concatenated are a permutation of the input. -/
theorem C17_partition {γ : Type} (key : γ → List Int) (l : List γ) :
    ((groupByKey key l).map (·.1)).Nodup ∧
    (∀ k, k ∈ (groupByKey key l).map (·.1) ↔ k ∈ l.map key) ∧
    (∀ g ∈ groupByKey key l, g.2 = l.filter (fun x => key x == g.1) ∧ g.2 ≠ []) ∧
    ((groupByKey key l).flatMap (·.2)).Perm l :=
  ⟨St.keys_nodup key l, St.mem_keys_groupByKey key l,
    fun g hg => ⟨St.group_eq_filter key l g hg, St.group_ne_nil key l g hg⟩, St.groupByKey_perm key l⟩

/-- one plus the compounded return of a group is the product of its gross returns -/
theorem C17_compound_group (rs : List α) : 1 + compound rs = (rs.map (1 + ·)).prod := St.one_add_compound rs

/-- C17 (compounding): the weekly, monthly and yearly aggregates each compound to the same total as the daily
returns, and that total is the last cumulative return. -/
theorem C17_compound (p : Period) (dated : List (Int × α)) :
    ((aggregateReturns p dated).map fun g => 1 + g.2).prod = (dated.map fun x => 1 + x.2).prod ∧
    (dated ≠ [] →
      (cumReturnsOf (dated.map (·.2))).getLastD zero = (dated.map fun x => 1 + x.2).prod) := by
  refine ⟨St.prod_aggregateReturns p dated, ?_⟩
  intro h
  unfold cumReturnsOf
  rw [St.cumProd_getLastD _ _ _ (by simpa using h), List.map_map]
  simp only [one_eq, one_mul]
  rfl

/-- the aggregate has one entry per calendar period that occurs, and its value is the compounded return of
exactly the returns dated in that period, in date order -/
theorem C17_aggregate (p : Period) (dated : List (Int × α)) :
    ((aggregateReturns p dated).map (·.1)).Nodup ∧
    (∀ k, k ∈ (aggregateReturns p dated).map (·.1) ↔ k ∈ dated.map (fun x => periodKey p x.1)) ∧
    ∀ g ∈ aggregateReturns p dated,
      g.2 = compound ((dated.filter fun x => periodKey p x.1 == g.1).map (·.2)) := by
  have hperm := St.aggregateReturns_perm p dated
  have hkeys : ((aggregateReturns p dated).map (·.1)).Perm
      ((groupByKey (fun (x : Int × α) => periodKey p x.1) dated).map (·.1)) := by
    have := hperm.map (·.1)
    rwa [List.map_map] at this
  refine ⟨hkeys.nodup_iff.mpr (St.keys_nodup _ dated), ?_, ?_⟩
  · intro k
    rw [hkeys.mem_iff, St.mem_keys_groupByKey]
  · intro g hg
    obtain ⟨g0, hg0, rfl⟩ := List.mem_map.mp (hperm.mem_iff.mp hg)
    simp only
    rw [St.group_eq_filter _ dated g0 hg0]

/-! ## Drawdowns -/

/-- C17 (drawdown, general form): one drawdown per observation; the first is `0`; the one at `t + 1` is
`(M − cum[t+1]) / M` where `M` is the greatest of `cum[0], …, cum[t+1]`. -/
theorem C17_drawdown_def (cum : List α) :
    (drawdownsOf cum).length = cum.length ∧ (cum ≠ [] → (drawdownsOf cum)[0]? = some 0) ∧
    ∀ (t : Nat) (v : α), cum[t + 1]? = some v →
      ∃ M, (∀ u ∈ cum.take (t + 2), u ≤ M) ∧ M ∈ cum.take (t + 2) ∧
        (highWaterMarks cum)[t + 1]? = some M ∧ (drawdownsOf cum)[t + 1]? = some ((M - v) / M) := by
  refine ⟨St.drawdownsOf_length cum, St.drawdownsOf_zero cum, ?_⟩
  intro t v hv
  have ht : t + 1 < cum.length := by
    by_contra hc
    rw [List.getElem?_eq_none (not_lt.mp hc)] at hv
    cases hv
  obtain ⟨M, hM, h1, h2⟩ := St.highWaterMarks_spec cum (t + 1) ht
  exact ⟨M, h1, h2, hM, St.drawdownsOf_succ cum t M v hM hv⟩

/-- C17 (drawdown): for a positive series the drawdown at every `t` (including `t = 0`) is
`1 − cum[t] / M_t`, where the running maximum `M_t` is the greatest of `cum[0], …, cum[t]` (the first
observation included), and it lies in `[0, 1)`. -/
theorem C17_drawdown (cum : List α) (hpos : ∀ x ∈ cum, 0 < x) (t : Nat) (v : α) (hv : cum[t]? = some v) :
    ∃ M, (∀ u ∈ cum.take (t + 1), u ≤ M) ∧ M ∈ cum.take (t + 1) ∧
      (highWaterMarks cum)[t]? = some M ∧
      (drawdownsOf cum)[t]? = some (1 - v / M) ∧ 0 ≤ 1 - v / M ∧ 1 - v / M < 1 := by
  have ht : t < cum.length := by
    by_contra hc
    rw [List.getElem?_eq_none (not_lt.mp hc)] at hv
    cases hv
  obtain ⟨M, hM, h1, h2⟩ := St.highWaterMarks_spec cum t ht
  have hMpos : 0 < M := hpos M (List.mem_of_mem_take h2)
  have hvpos : 0 < v := hpos v (List.mem_of_getElem? hv)
  have hvM : v ≤ M := by
    apply h1
    rw [List.mem_iff_getElem?]
    exact ⟨t, by rw [List.getElem?_take_of_lt (Nat.lt_succ_self t)]; exact hv⟩
  refine ⟨M, h1, h2, hM, ?_, ?_, ?_⟩
  · cases t with
    | zero =>
      cases cum with
      | nil => simp at ht
      | cons x xs =>
        simp only [List.getElem?_cons_zero, Option.some.injEq] at hv
        rw [St.highWaterMarks_cons, List.getElem?_cons_zero, Option.some.injEq] at hM
        subst hv; subst hM
        rw [St.drawdownsOf_cons, List.getElem?_cons_zero, div_self hMpos.ne', sub_self]
    | succ t =>
      rw [St.drawdownsOf_succ cum t M v hM hv, sub_div, div_self hMpos.ne']
  · rw [sub_nonneg, div_le_one hMpos]; exact hvM
  · have : 0 < v / M := div_pos hvpos hMpos
    linarith

/-- C17 (drawdown of an equity curve): for a positive equity curve the drawdown reported at `t` is
`1 − eq[t] / max (eq[0], …, eq[t])`. -/
theorem C17_drawdown_equity (eq : List α) (hpos : ∀ x ∈ eq, 0 < x) (t : Nat) (v : α) (hv : eq[t]? = some v) :
    ∃ M, (∀ u ∈ eq.take (t + 1), u ≤ M) ∧ M ∈ eq.take (t + 1) ∧
      (drawdownsOf (cumReturnsOf (returnsOf eq)))[t]? = some (1 - v / M) := by
  have hne : eq ≠ [] := by rintro rfl; simp at hv
  have he : 0 < eq.head hne := hpos _ (List.head_mem hne)
  rw [(C17_cum eq hne hpos).1]
  obtain ⟨M', h1, h2, _, h4, _⟩ := C17_drawdown (eq.map (· / eq.head hne))
    (by
      intro x hx
      obtain ⟨y, hy, rfl⟩ := List.mem_map.mp hx
      exact div_pos (hpos y hy) he)
    t (v / eq.head hne) (by rw [List.getElem?_map, hv]; rfl)
  rw [← List.map_take] at h1 h2
  obtain ⟨M, hM, rfl⟩ := List.mem_map.mp h2
  refine ⟨M, ?_, hM, ?_⟩
  · intro u hu
    have := h1 (u / eq.head hne) (List.mem_map.mpr ⟨u, hu, rfl⟩)
    exact (div_le_div_iff_of_pos_right he).mp this
  · rw [h4]
    congr 2
    have hMpos : 0 < M := hpos M (List.mem_of_mem_take hM)
    field_simp

/-- C17 (maximum drawdown): `create_drawdowns` returns the drawdown series, its maximum (an entry that no
entry exceeds) and `longestRun` of it. -/
theorem C17_maxdd (cum : List α) (h : cum ≠ []) :
    (createDrawdowns cum).1 = drawdownsOf cum ∧
    (∀ d ∈ drawdownsOf cum, d ≤ (createDrawdowns cum).2.1) ∧ (createDrawdowns cum).2.1 ∈ drawdownsOf cum ∧
    (createDrawdowns cum).2.2 = longestRun (drawdownsOf cum) := by
  have hne : drawdownsOf cum ≠ [] := by
    intro e
    have := St.drawdownsOf_length cum
    rw [e] at this
    exact h (List.length_eq_zero_iff.mp this.symm)
  obtain ⟨h1, h2⟩ := St.maxOf_spec (drawdownsOf cum) hne
  exact ⟨rfl, h1, h2, rfl⟩

/-- C17 (duration): `longestRun dd` is the length of the longest block of consecutive non-zero entries of
`dd`: some contiguous sublist of that length has only non-zero entries, and no contiguous sublist with only
non-zero entries is longer. -/
theorem C17_duration (dd : List α) :
    (∃ run, run <:+: dd ∧ (∀ x ∈ run, x ≠ 0) ∧ run.length = longestRun dd) ∧
    (∀ run, run <:+: dd → (∀ x ∈ run, x ≠ 0) → run.length ≤ longestRun dd) := by
  rw [St.longestRun_eq]
  obtain ⟨_, _, h3, h4⟩ := St.lr_invariant dd
  exact ⟨h3, h4⟩

/-! ## CAGR, Sharpe, Sortino -/

/-- C17 (definitions): CAGR is `last cumulative return ^ (1 / (n / P)) − 1` with `1 / (n / P) = P / n`, for any number of periods `P` (an integer or not: `P` is used as it is, never truncated);
Sharpe is `sqrt P · mean / sqrt (population variance)`; Sortino uses the population variance of the negative
returns only — for every interpretation of `sqrt` and `pow`. -/
theorem C17_defs [TransOps α] (cum rs : List α) (P : α) :
    createCagr cum P = TransOps.pow (cum.getLastD 0) (1 / ((cum.length : α) / P)) - 1 ∧
    (1 / ((cum.length : α) / P) = P / (cum.length : α)) ∧
    createSharpe rs P =
      TransOps.sqrt P * (rs.sum / (rs.length : α)) / TransOps.sqrt (popVar rs) ∧
    createSortino rs P =
      TransOps.sqrt P * (rs.sum / (rs.length : α)) / TransOps.sqrt (popVar (rs.filter (· < 0))) ∧
    popVar rs = (rs.map fun x => (x - rs.sum / (rs.length : α)) ^ 2).sum / (rs.length : α) := by
  refine ⟨?_, one_div_div _ _, ?_, ?_, Sig.popVar_eq rs⟩
  · simp [createCagr]
  · simp [createSharpe, popStd, Sig.meanOf_eq]
  · simp [createSortino, popStd, Sig.meanOf_eq]

/-! ## Scale invariance -/

/-- C17 (scale): multiplying the equity curve by a non-zero constant leaves the returns unchanged. -/
theorem C17_scale_ne (k : α) (hk : k ≠ 0) (eq : List α) : returnsOf (eq.map (k * ·)) = returnsOf eq :=
  St.returnsOf_scale k hk eq

/-- C17 (scale): multiplying the equity curve by a positive constant leaves the returns, and with them every
statistic (all are functions of the returns), unchanged. -/
theorem C17_scale [TransOps α] (k : α) (hk : 0 < k) (eq : List α) (P : α) (p : Period) (dates : List Int) :
    returnsOf (eq.map (k * ·)) = returnsOf eq ∧
    cumReturnsOf (returnsOf (eq.map (k * ·))) = cumReturnsOf (returnsOf eq) ∧
    createDrawdowns (cumReturnsOf (returnsOf (eq.map (k * ·)))) =
      createDrawdowns (cumReturnsOf (returnsOf eq)) ∧
    createCagr (cumReturnsOf (returnsOf (eq.map (k * ·)))) P = createCagr (cumReturnsOf (returnsOf eq)) P ∧
    createSharpe (returnsOf (eq.map (k * ·))) P = createSharpe (returnsOf eq) P ∧
    createSortino (returnsOf (eq.map (k * ·))) P = createSortino (returnsOf eq) P ∧
    aggregateReturns p (dates.zip (returnsOf (eq.map (k * ·)))) = aggregateReturns p (dates.zip (returnsOf eq)) := by
  have h := C17_scale_ne k hk.ne' eq
  rw [h]
  exact ⟨rfl, rfl, rfl, rfl, rfl, rfl, rfl⟩

end

/-! ## Non-vacuity: the curve 1 000 000, 900 000, 800 000, 850 000, 700 000 (the first point is the peak) -/

section Examples

noncomputable local instance instNumOpsQ17 : NumOps ℚ := fieldNumOps ℚ
local instance instLawfulQ17 : LawfulNumOps ℚ := fieldNumOps_lawful ℚ

def exCurve17 : List ℚ := [1000000, 900000, 800000, 850000, 700000]

theorem exCurve17_pos : ∀ x ∈ exCurve17, 0 < x := by
  intro x hx
  simp only [exCurve17, List.mem_cons, List.not_mem_nil, or_false] at hx
  rcases hx with rfl | rfl | rfl | rfl | rfl <;> norm_num

theorem exCum17 : cumReturnsOf (returnsOf exCurve17) = [1, 9 / 10, 4 / 5, 17 / 20, 7 / 10] := by
  rw [(C17_cum exCurve17 (by simp [exCurve17]) exCurve17_pos).1]
  simp only [exCurve17, List.map_cons, List.map_nil, List.head_cons]
  norm_num

theorem exRet17 : returnsOf exCurve17 = [0, -1 / 10, -1 / 9, 1 / 16, -3 / 17] := by
  simp only [exCurve17, St.returnsOf_cons, Sig.pctChanges_cons_cons, Sig.pctChanges_single]
  norm_num

theorem exDD17 : drawdownsOf [(1 : ℚ), 9 / 10, 4 / 5, 17 / 20, 7 / 10] = [0, 1 / 10, 1 / 5, 3 / 20, 3 / 10] := by
  have m1 : max (1 : ℚ) (9 / 10) = 1 := max_eq_left (by norm_num)
  have m2 : max (1 : ℚ) (4 / 5) = 1 := max_eq_left (by norm_num)
  have m3 : max (1 : ℚ) (17 / 20) = 1 := max_eq_left (by norm_num)
  have m4 : max (1 : ℚ) (7 / 10) = 1 := max_eq_left (by norm_num)
  simp only [St.drawdownsOf_cons, St.hwmFrom_cons, St.hwmFrom_nil, m1, m2, m3, m4, List.zipWith_cons_cons,
    List.zipWith_nil_right]
  norm_num

/-- the drawdown series of the example, its maximum `3/10` and its duration `4` (the curve never recovers
its first value) -/
example : createDrawdowns (cumReturnsOf (returnsOf exCurve17)) =
    ([0, 1 / 10, 1 / 5, 3 / 20, 3 / 10], 3 / 10, 4) := by
  rw [exCum17]
  unfold createDrawdowns
  simp only [exDD17]
  refine Prod.ext rfl (Prod.ext ?_ ?_)
  · have m1 : max (0 : ℚ) (1 / 10) = 1 / 10 := max_eq_right (by norm_num)
    have m2 : max (1 / 10 : ℚ) (1 / 5) = 1 / 5 := max_eq_right (by norm_num)
    have m3 : max (1 / 5 : ℚ) (3 / 20) = 1 / 5 := max_eq_left (by norm_num)
    have m4 : max (1 / 5 : ℚ) (3 / 10) = 3 / 10 := max_eq_right (by norm_num)
    simp only [St.maxOf_cons, List.foldl_cons, List.foldl_nil, m1, m2, m3, m4]
  · simp only [St.longestRun_eq, List.foldl_cons, List.foldl_nil, St.lrStep]
    norm_num

/-- `C17_drawdown` at `t = 3` of the example: running maximum `1` (the first observation), drawdown `3/20` -/
example : ∃ M : ℚ, (∀ u ∈ [(1 : ℚ), 9 / 10, 4 / 5, 17 / 20], u ≤ M) ∧ M ∈ [(1 : ℚ), 9 / 10, 4 / 5, 17 / 20] ∧
    (drawdownsOf [(1 : ℚ), 9 / 10, 4 / 5, 17 / 20, 7 / 10])[3]? = some (1 - 17 / 20 / M) := by
  obtain ⟨M, h1, h2, _, h4, _⟩ := C17_drawdown [(1 : ℚ), 9 / 10, 4 / 5, 17 / 20, 7 / 10]
    (by
      intro x hx
      simp only [List.mem_cons, List.not_mem_nil, or_false] at hx
      rcases hx with rfl | rfl | rfl | rfl | rfl <;> norm_num)
    3 (17 / 20) rfl
  exact ⟨M, h1, h2, h4⟩

/-- scaling the example curve by 3 changes nothing -/
example [TransOps ℚ] : createSharpe (returnsOf (exCurve17.map (3 * ·))) 252 = createSharpe (returnsOf exCurve17) 252 :=
  (C17_scale 3 (by norm_num) exCurve17 252 .monthly []).2.2.2.2.1

/-- compounding: the dated returns `0, +10 %, −10 %` compound to `0.99` under every aggregation -/
example (p : Period) :
    ((aggregateReturns p [(0, (0 : ℚ)), (1, 1 / 10), (40, -1 / 10)]).map fun g => 1 + g.2).prod = 99 / 100 := by
  rw [(C17_compound p _).1]
  norm_num

/-- a concrete grouping: keys are pairwise distinct, each group keeps input order -/
example : groupByKey (fun x : Int × Int => [x.1 / 7]) [(0, 5), (8, 6), (1, 7)] =
    [([1], [(8, 6)]), ([0], [(0, 5), (1, 7)])] := by decide

/-- a run of three non-zero entries between zeros, then one of two -/
example : longestRun [(0 : ℚ), 1, 2, 3, 0, 4, 5] = 3 := by
  simp only [St.longestRun_eq, List.foldl_cons, List.foldl_nil, St.lrStep]
  norm_num

end Examples

end Qs
