import QsProofs.Lemmas.Session
import QsProofs.Props.C12

/-!
# C14 — A session trades only at scheduled rebalances after burn-in; equity is daily

All theorems are about the real model (`Qs.Session.step`, `Qs.Session.runEvents`, `Qs.rebalanceAt`,
`Qs.targetAllocationTable`, `Qs.Session.init`) for EVERY configuration, alpha model, market view, schedule,
event list and starting state, over EVERY carrier `α` (no numeric law is used: the facts are structural).

* `C14_pcm`, `C14_pcm_err`, `C14_pcm_err_prefix`  `rebalanceAt` records one allocation `(t, weights)` each time it
  runs (before sizing); the recorded instants of a run are exactly the event times that are scheduled instants
  not earlier than the burn-in, in order (a prefix of them if the run raises, all `≤` the error time);
* `C14_equity_step`, `C14_equity_step_other`, `C14_equity`, `C14_equity_values`, `C14_equity_clock`,
  `C14_equity_days`  one equity point per market-close event past the burn-in, equal to the account equity of the
  state right after that event; on the session's own clock: exactly one point per business day of the range whose
  21:00 close is past the burn-in;
* `C14_fills`, `C14_hours`, `C14_fills_clock`, `C14_fills_idle`, `C14_fills_after_first`  fills carry the time of an
  event inside exchange hours — on the session clock a 14:30 market-open event — and none precedes the first
  rebalance instant;
* `C14_table_dates`, `C14_table_row`, `C14_table_some`, `C14_table_none`, `C14_table_run`  the target-allocation
  table;
* `C14_session`  everything together for a constructed session (`Session.init`).
-/

set_option linter.unusedSectionVars false

namespace Qs.C14
open Qs Qs.Sess Qs.Cal NumOps Num

section
variable {α : Type} [Add α] [Sub α] [Mul α] [Div α] [Neg α] [NumOps α]

/-! ## Portfolio construction runs exactly at the scheduled instants past the burn-in -/

/-- **C14_pcm** (one call). `rebalanceAt` records exactly one allocation, stamped `t`, whether or not sizing or
execution then raises — so the allocation records count the portfolio-construction calls. -/
theorem C14_pcm_call (cfg : SessionCfg α) (alpha : Alpha α) (px : Px α) (t : Int) (s : Session α) :
    ∃ w, (rebalanceAt cfg alpha px t s).1.allocations = s.allocations ++ [(t, w)] :=
  ⟨_, (rebalanceAt_frame cfg alpha px t s).1⟩

/-- **C14_pcm.** In a run that returns normally, the recorded allocation instants are exactly the event times that
are scheduled rebalance instants not earlier than the burn-in (all scheduled ones when there is no burn-in), in
event order, once each — and nothing else. -/
theorem C14_pcm (cfg : SessionCfg α) (alpha : Alpha α) (px : Px α) (sched : List Int) (s s' : Session α)
    (events : List SimEvent) (h : Session.runEvents cfg alpha px sched s events = (s', none)) :
    s'.allocations.map (·.1) =
      s.allocations.map (·.1) ++ (events.map (·.time)).filter (fun t => burnOk cfg t && sched.contains t) :=
  runEvents_allocations cfg alpha px sched events s s' h

/-- **C14_pcm** (error case, exact). If the run raises at `te`, then `te` is the time of an event `ev`, every
rebalance instant among the earlier events was recorded, and `ev`'s own instant was recorded iff the step got as
far as the portfolio construction (which requires it to be a scheduled instant past the burn-in). -/
theorem C14_pcm_err (cfg : SessionCfg α) (alpha : Alpha α) (px : Px α) (sched : List Int) (s s' : Session α)
    (events : List SimEvent) (te : Int) (e : Err)
    (h : Session.runEvents cfg alpha px sched s events = (s', some (te, e))) :
    ∃ pre ev post, events = pre ++ ev :: post ∧ te = ev.time ∧
      (s'.allocations.map (·.1) =
          s.allocations.map (·.1) ++ (pre.map (·.time)).filter (fun t => burnOk cfg t && sched.contains t) ∨
       ((burnOk cfg ev.time && sched.contains ev.time) = true ∧
        s'.allocations.map (·.1) =
          s.allocations.map (·.1) ++
            ((pre ++ [ev]).map (·.time)).filter (fun t => burnOk cfg t && sched.contains t))) := by
  obtain ⟨pre, ev, post, sm, h1, h2, h3, h4⟩ := runEvents_err_split cfg alpha px sched events s s' te e h
  have hpre := runEvents_allocations cfg alpha px sched pre s sm h3
  obtain ⟨ea, a1, a2, _⟩ := step_allocations cfg alpha px sched sm ev
  rw [h4] at a1
  simp only at a1
  refine ⟨pre, ev, post, h1, h2, ?_⟩
  rcases a2 with rfl | ⟨hr, w, rfl⟩
  · left
    rw [a1, List.append_nil, hpre]; rfl
  · right
    refine ⟨hr, ?_⟩
    show _ = _ ++ List.filter (isReb cfg sched) ((pre ++ [ev]).map (·.time))
    rw [a1, List.map_append, hpre, List.map_append, List.filter_append, List.append_assoc]
    simp [hr]

/-- **C14_pcm** (error case, prefix form). The recorded instants are a prefix of the scheduled-and-past-burn-in
event times; each is an event time that is a scheduled instant past the burn-in, and (events sorted by time) is
not later than the error time. -/
theorem C14_pcm_err_prefix (cfg : SessionCfg α) (alpha : Alpha α) (px : Px α) (sched : List Int)
    (s s' : Session α) (events : List SimEvent) (te : Int) (e : Err)
    (h : Session.runEvents cfg alpha px sched s events = (s', some (te, e))) :
    ∃ l, s'.allocations.map (·.1) = s.allocations.map (·.1) ++ l ∧
      l <+: (events.map (·.time)).filter (fun t => burnOk cfg t && sched.contains t) ∧
      (∀ t ∈ l, (burnOk cfg t && sched.contains t) = true ∧ ∃ ev ∈ events, t = ev.time) ∧
      ((events.map (·.time)).Pairwise (· < ·) → ∀ t ∈ l, t ≤ te) := by
  obtain ⟨pre, ev, post, h1, h2, h3⟩ := C14_pcm_err cfg alpha px sched s s' events te e h
  have key : ∀ part : List SimEvent, (∃ rest, events = part ++ rest) →
      (∀ x ∈ part, (events.map (·.time)).Pairwise (· < ·) → x.time ≤ te) →
      ∃ l, l = (part.map (·.time)).filter (fun t => burnOk cfg t && sched.contains t) ∧
        l <+: (events.map (·.time)).filter (fun t => burnOk cfg t && sched.contains t) ∧
        (∀ t ∈ l, (burnOk cfg t && sched.contains t) = true ∧ ∃ ev ∈ events, t = ev.time) ∧
        ((events.map (·.time)).Pairwise (· < ·) → ∀ t ∈ l, t ≤ te) := by
    rintro part ⟨rest, hrest⟩ hle
    refine ⟨_, rfl, ?_, ?_, ?_⟩
    · rw [hrest, List.map_append, List.filter_append]
      exact List.prefix_append _ _
    · intro t ht
      rw [List.mem_filter, List.mem_map] at ht
      obtain ⟨⟨x, hx, rfl⟩, hp⟩ := ht
      exact ⟨hp, x, by rw [hrest]; exact List.mem_append_left _ hx, rfl⟩
    · intro hs t ht
      rw [List.mem_filter, List.mem_map] at ht
      obtain ⟨⟨x, hx, rfl⟩, _⟩ := ht
      exact hle x hx hs
  have hsorted : ∀ x ∈ pre, (events.map (·.time)).Pairwise (· < ·) → x.time ≤ te := by
    intro x hx hs
    rw [h1, List.map_append, List.map_cons, List.pairwise_append] at hs
    have := hs.2.2 x.time (List.mem_map.2 ⟨x, hx, rfl⟩) ev.time (List.mem_cons_self ..)
    omega
  rcases h3 with h3 | ⟨_, h3⟩
  · obtain ⟨l, hl, r⟩ := key pre ⟨ev :: post, h1⟩ hsorted
    exact ⟨l, by rw [h3, hl], r⟩
  · obtain ⟨l, hl, r⟩ := key (pre ++ [ev]) ⟨post, by rw [h1]; simp⟩ (by
      intro x hx hs
      rcases List.mem_append.1 hx with hx | hx
      · exact hsorted x hx hs
      · simp only [List.mem_singleton] at hx; subst hx; omega)
    exact ⟨l, by rw [h3, hl], r⟩

/-! ## The equity curve -/

/-- **C14_equity** (one step). For a market-close event past the burn-in, a step that returns normally appends
exactly the point `(ev.time, account equity of the state it leaves)`; a step that raises appends nothing. -/
theorem C14_equity_step (cfg : SessionCfg α) (alpha : Alpha α) (px : Px α) (sched : List Int) (s : Session α)
    (ev : SimEvent) (hc : ev.kind = .marketClose) (hb : burnOk cfg ev.time = true) :
    ((s.step cfg alpha px sched ev).2 = none →
      (s.step cfg alpha px sched ev).1.equity =
        s.equity ++ [(ev.time, ((s.step cfg alpha px sched ev).1.broker.accountTotalEquity).2)]) ∧
    ((s.step cfg alpha px sched ev).2 ≠ none → (s.step cfg alpha px sched ev).1.equity = s.equity) := by
  have h := step_equity cfg alpha px sched s ev
  have hq : isEq cfg ev = true := by simp [isEq, hc, hb]
  refine ⟨fun hn => ?_, h.2⟩
  have := h.1 hn
  rw [hq] at this
  exact this

/-- **C14_equity** (one step, other events). Any other event — not a market close, or before the burn-in — leaves
the equity curve alone. -/
theorem C14_equity_step_other (cfg : SessionCfg α) (alpha : Alpha α) (px : Px α) (sched : List Int)
    (s : Session α) (ev : SimEvent) (hne : ¬ (ev.kind = .marketClose ∧ burnOk cfg ev.time = true)) :
    (s.step cfg alpha px sched ev).1.equity = s.equity := by
  have h := step_equity cfg alpha px sched s ev
  have hq : isEq cfg ev = false := by
    simp only [isEq, Bool.and_eq_false_iff, decide_eq_false_iff_not]
    by_cases hk : ev.kind = .marketClose
    · right
      cases hb : burnOk cfg ev.time with
      | false => rfl
      | true => exact absurd ⟨hk, hb⟩ hne
    · left; exact hk
  by_cases hn : (s.step cfg alpha px sched ev).2 = none
  · have := h.1 hn
    rw [hq] at this
    simpa using this
  · exact h.2 hn

/-- **C14_equity.** In a run that returns normally the equity curve gains exactly one point per market-close
event whose time is not earlier than the burn-in, in event order. -/
theorem C14_equity (cfg : SessionCfg α) (alpha : Alpha α) (px : Px α) (sched : List Int) (s s' : Session α)
    (events : List SimEvent) (h : Session.runEvents cfg alpha px sched s events = (s', none)) :
    s'.equity.map (·.1) =
      s.equity.map (·.1) ++
        (events.filter (fun ev => ev.kind = .marketClose && burnOk cfg ev.time)).map (·.time) :=
  runEvents_equity cfg alpha px sched events s s' h

/-- **C14_equity** (values). Each appended point is `(ev.time, v)` where `ev` is a market-close event past the
burn-in and `v` is the account equity (`accountTotalEquity`) of the session state right after `ev` was processed
(`sm` is the state reached by the events before `ev`). -/
theorem C14_equity_values (cfg : SessionCfg α) (alpha : Alpha α) (px : Px α) (sched : List Int)
    (s s' : Session α) (events : List SimEvent)
    (h : Session.runEvents cfg alpha px sched s events = (s', none)) :
    ∃ ee, s'.equity = s.equity ++ ee ∧
      ∀ p ∈ ee, ∃ pre ev post sm, events = pre ++ ev :: post ∧
        ev.kind = .marketClose ∧ burnOk cfg ev.time = true ∧
        Session.runEvents cfg alpha px sched s pre = (sm, none) ∧
        (sm.step cfg alpha px sched ev).2 = none ∧
        p = (ev.time, ((sm.step cfg alpha px sched ev).1.broker.accountTotalEquity).2) := by
  obtain ⟨ee, h1, h2⟩ := runEvents_equity_points cfg alpha px sched events s s' h
  refine ⟨ee, h1, fun p hp => ?_⟩
  obtain ⟨pre, ev, post, sm, e1, e2, e3, e4, e5⟩ := h2 p hp
  simp only [isEq, Bool.and_eq_true, decide_eq_true_eq] at e2
  exact ⟨pre, ev, post, sm, e1, e2.1, e2.2, e3, e4, e5⟩

/-- **C14_equity** (the session's own clock). With the events of `simEvents start end false false` (`start ≤ end`
is forced by `simEvents` succeeding; the end's time of day is not before the start's), the new equity times are
the 21:00 closes `d * 86400 + CLOSE` of exactly the Monday–Friday dates `d` of `[dayOf start, dayOf end]` whose
close is not earlier than the burn-in, in date order. -/
theorem C14_equity_clock (cfg : SessionCfg α) (alpha : Alpha α) (px : Px α) (sched : List Int)
    (start end_ : Int) (events : List SimEvent) (s s' : Session α)
    (hsim : simEvents start end_ false false = .ok events) (htod : todOf start ≤ todOf end_)
    (h : Session.runEvents cfg alpha px sched s events = (s', none)) :
    s'.equity.map (·.1) =
      s.equity.map (·.1) ++
        (((daysFrom (dayOf start) (dayOf end_ + 1 - dayOf start).toNat).filter isBDay).filter
          (fun d => burnOk cfg (d * 86400 + CLOSE))).map (fun d => d * 86400 + CLOSE) := by
  rw [C14_equity cfg alpha px sched s s' events h]
  have hle : start ≤ end_ := by
    unfold simEvents at hsim
    split at hsim
    · cases hsim
    · omega
  rw [C12.C12_events start end_ false false hle htod] at hsim
  injection hsim with hsim
  rw [← hsim]
  exact congrArg _ (filter_isEq_templates cfg _)

/-- **C14_equity** (one point per business day). Same setting: the new equity times are `d * 86400 + CLOSE` for
a strictly increasing list of dates `d`, which are exactly the dates with `dayOf start ≤ d ≤ dayOf end`,
Monday–Friday, whose 21:00 close is not earlier than the burn-in. -/
theorem C14_equity_days (cfg : SessionCfg α) (alpha : Alpha α) (px : Px α) (sched : List Int)
    (start end_ : Int) (events : List SimEvent) (s s' : Session α)
    (hsim : simEvents start end_ false false = .ok events) (htod : todOf start ≤ todOf end_)
    (h : Session.runEvents cfg alpha px sched s events = (s', none)) :
    ∃ days : List Int,
      s'.equity.map (·.1) = s.equity.map (·.1) ++ days.map (fun d => d * 86400 + CLOSE) ∧
      days.Pairwise (· < ·) ∧
      ∀ d, d ∈ days ↔ dayOf start ≤ d ∧ d ≤ dayOf end_ ∧ weekday d ≤ 4 ∧ burnOk cfg (d * 86400 + CLOSE) = true := by
  refine ⟨_, C14_equity_clock cfg alpha px sched start end_ events s s' hsim htod h, ?_, ?_⟩
  · exact ((daysFrom_pairwise _ _).filter _).filter _
  · intro d
    rw [List.mem_filter, ← C12.C12_bdayRange start end_ htod, C12.C12_mem_bdayRange start end_ d htod]
    simp only [and_assoc]

/-! ## Fills -/

/-- **C14_fills.** Every fill a run adds (whether or not it raises) carries the time of one of its events, and
that event lies inside exchange hours. -/
theorem C14_fills (cfg : SessionCfg α) (alpha : Alpha α) (px : Px α) (sched : List Int) (s : Session α)
    (events : List SimEvent) :
    ∃ ef, (Session.runEvents cfg alpha px sched s events).1.fills = s.fills ++ ef ∧
      ∀ f ∈ ef, ∃ ev ∈ events, f.time = ev.time ∧ isOpen ev.time = true := by
  obtain ⟨ef, f1, f2⟩ := (runEvents_ext cfg alpha px sched events s).2.2.1
  refine ⟨ef.map fun (x : String × Txn α) =>
    { time := x.2.time, asset := x.2.asset, qty := x.2.qty, price := x.2.price, commission := x.2.commission },
    by simp only [Session.fills, f1, List.map_append], ?_⟩
  intro f hf
  simp only [List.mem_map] at hf
  obtain ⟨x, hx, rfl⟩ := hf
  exact f2 x hx

/-- **C14_hours.** A 21:00 close is never inside exchange hours; the 14:30 open of a Monday–Friday date is. -/
theorem C14_hours (d : Int) :
    isOpen (d * 86400 + CLOSE) = false ∧ (isBDay d = true → isOpen (d * 86400 + OPEN) = true) :=
  ⟨isOpen_close d, isOpen_open d⟩

/-- **C14_fills** (the session's own clock). With the events of `simEvents start end false false`, every fill of
the run is stamped with the time of a market-open event: 14:30:00 on a Monday–Friday date. -/
theorem C14_fills_clock (cfg : SessionCfg α) (alpha : Alpha α) (px : Px α) (sched : List Int) (s : Session α)
    (start end_ : Int) (events : List SimEvent) (hsim : simEvents start end_ false false = .ok events) :
    ∃ ef, (Session.runEvents cfg alpha px sched s events).1.fills = s.fills ++ ef ∧
      ∀ f ∈ ef, ∃ ev ∈ events, f.time = ev.time ∧ ev.kind = .marketOpen ∧ todOf f.time = OPEN ∧
        weekday (dayOf f.time) ≤ 4 := by
  obtain ⟨ef, f1, f2⟩ := C14_fills cfg alpha px sched s events
  refine ⟨ef, f1, fun f hf => ?_⟩
  obtain ⟨ev, hm, ht, ho⟩ := f2 f hf
  have hk := (open_of_simEvents_ff hsim hm).1 ho
  obtain ⟨d, _, hd, rfl | rfl⟩ := mem_simEvents_ff hsim hm
  · have ht' : f.time = d * 86400 + OPEN := ht
    refine ⟨_, hm, ht, rfl, ?_, ?_⟩
    · rw [ht']; unfold todOf OPEN; omega
    · rw [ht']
      rw [isBDay_iff] at hd
      unfold weekday dayOf OPEN; omega
  · cases hk

/-- **C14_fills** (nothing before the first rebalance). Started with no pending order, a run over events none of
which is a scheduled instant past the burn-in adds no fill, records no allocation and leaves no pending order —
also when it raises. -/
theorem C14_fills_idle (cfg : SessionCfg α) (alpha : Alpha α) (px : Px α) (sched : List Int) (s : Session α)
    (pre : List SimEvent) (hq : ∀ e ∈ s.broker.entries, e.queue = [])
    (hn : ∀ ev ∈ pre, (burnOk cfg ev.time && sched.contains ev.time) = false) :
    (Session.runEvents cfg alpha px sched s pre).1.fills = s.fills ∧
    (Session.runEvents cfg alpha px sched s pre).1.allocations = s.allocations ∧
    ∀ e ∈ (Session.runEvents cfg alpha px sched s pre).1.broker.entries, e.queue = [] := by
  have h := runEvents_idle cfg alpha px sched pre s hq hn
  exact ⟨by simp only [Session.fills, h.1], h.2.2, h.2.1⟩

/-- **C14_fills** (no fill precedes the first rebalance instant). Over events sorted by time, started with no
pending order: every fill of the run is dated at or after the time of an event that is a scheduled rebalance
instant past the burn-in — in particular at or after the first one. -/
theorem C14_fills_after_first (cfg : SessionCfg α) (alpha : Alpha α) (px : Px α) (sched : List Int)
    (s : Session α) (events : List SimEvent) (hq : ∀ e ∈ s.broker.entries, e.queue = [])
    (hs : (events.map (·.time)).Pairwise (· < ·)) :
    ∃ ef, (Session.runEvents cfg alpha px sched s events).1.fills = s.fills ++ ef ∧
      ∀ f ∈ ef, ∃ ev0 ∈ events, (burnOk cfg ev0.time && sched.contains ev0.time) = true ∧ ev0.time ≤ f.time := by
  obtain ⟨ef, f1, f2⟩ := runEvents_fills_after_reb cfg alpha px sched events s hq hs
  refine ⟨ef.map fun (x : String × Txn α) =>
    { time := x.2.time, asset := x.2.asset, qty := x.2.qty, price := x.2.price, commission := x.2.commission },
    by simp only [Session.fills, f1, List.map_append], ?_⟩
  intro f hf
  simp only [List.mem_map] at hf
  obtain ⟨x, hx, rfl⟩ := hf
  exact f2 x hx

/-! ## The target-allocation table -/

/-- the burn-in date filter of `get_target_allocations` -/
def pastBurnDate (cfg : SessionCfg α) (d : Int) : Bool :=
  match cfg.burnIn with
  | none => true
  | some b => decide (dayOf b ≤ d)

/-- **C14_table** (dates). The table has one row per equity point, dated with the point's date, restricted to
dates on or after the burn-in date when a burn-in is given — in equity order. -/
theorem C14_table_dates (cfg : SessionCfg α) (s : Session α) :
    (targetAllocationTable cfg s).map (·.1) =
      (s.equity.map (fun p => dayOf p.1)).filter (pastBurnDate cfg) := by
  unfold targetAllocationTable pastBurnDate
  cases cfg.burnIn with
  | none => simp [List.map_map, Function.comp_def]
  | some b =>
    simp only [List.filter_map, List.map_map]
    rfl

/-- **C14_table** (rows). The row of date `d` carries the weights of the LAST allocation record dated on or
before `d` (`none` if there is none). -/
theorem C14_table_row (cfg : SessionCfg α) (s : Session α) (row : Int × Option (List (String × α)))
    (hrow : row ∈ targetAllocationTable cfg s) :
    (∃ p ∈ s.equity, row.1 = dayOf p.1) ∧ pastBurnDate cfg row.1 = true ∧
    row.2 = ((s.allocations.filter (fun x => decide (dayOf x.1 ≤ row.1))).getLast?).map (·.2) := by
  unfold targetAllocationTable at hrow
  unfold pastBurnDate
  cases hb : cfg.burnIn with
  | none =>
    rw [hb] at hrow
    simp only [List.mem_map] at hrow
    obtain ⟨p, hp, rfl⟩ := hrow
    exact ⟨⟨p, hp, rfl⟩, rfl, rfl⟩
  | some b =>
    rw [hb] at hrow
    simp only [List.mem_filter, List.mem_map] at hrow
    obtain ⟨⟨p, hp, rfl⟩, hd⟩ := hrow
    exact ⟨⟨p, hp, rfl⟩, hd, rfl⟩

/-- **C14_table** (`some`). The row of date `d` is `some w` iff `(ta, w)` is the last allocation record with
`dayOf ta ≤ d`: every later record is dated after `d`. -/
theorem C14_table_some (cfg : SessionCfg α) (s : Session α) (row : Int × Option (List (String × α)))
    (hrow : row ∈ targetAllocationTable cfg s) (w : List (String × α)) :
    row.2 = some w ↔
      ∃ pre ta post, s.allocations = pre ++ (ta, w) :: post ∧ dayOf ta ≤ row.1 ∧
        ∀ x ∈ post, row.1 < dayOf x.1 := by
  rw [(C14_table_row cfg s row hrow).2.2, Option.map_eq_some_iff]
  constructor
  · rintro ⟨⟨ta, w'⟩, hx, rfl⟩
    obtain ⟨pre, post, h1, h2, h3⟩ := (getLast?_filter_eq_some _ _ _).1 hx
    refine ⟨pre, ta, post, h1, by simpa using h2, fun x hx => ?_⟩
    have := h3 x hx
    simp only [decide_eq_false_iff_not] at this
    omega
  · rintro ⟨pre, ta, post, h1, h2, h3⟩
    refine ⟨(ta, w), (getLast?_filter_eq_some _ _ _).2 ⟨pre, post, h1, by simpa using h2, fun x hx => ?_⟩, rfl⟩
    have := h3 x hx
    simp only [decide_eq_false_iff_not]
    omega

/-- **C14_table** (`none`). The row of date `d` is empty iff no allocation record is dated on or before `d`. -/
theorem C14_table_none (cfg : SessionCfg α) (s : Session α) (row : Int × Option (List (String × α)))
    (hrow : row ∈ targetAllocationTable cfg s) :
    row.2 = none ↔ ∀ x ∈ s.allocations, row.1 < dayOf x.1 := by
  rw [(C14_table_row cfg s row hrow).2.2, Option.map_eq_none_iff, getLast?_filter_eq_none]
  constructor
  · intro h x hx
    have := h x hx
    simp only [decide_eq_false_iff_not] at this
    omega
  · intro h x hx
    have := h x hx
    simp only [decide_eq_false_iff_not]
    omega

/-- an instant not earlier than the burn-in lies on a date not earlier than the burn-in date -/
theorem pastBurnDate_of_burnOk (cfg : SessionCfg α) (t : Int) (h : burnOk cfg t = true) :
    pastBurnDate cfg (dayOf t) = true := by
  unfold burnOk at h
  unfold pastBurnDate
  cases hb : cfg.burnIn with
  | none => rfl
  | some b =>
    rw [hb] at h
    simp only [decide_eq_true_eq] at h ⊢
    unfold dayOf; omega

/-- **C14_table** (with `C14_equity`). After a run that returns normally from a state whose equity points are all
past the burn-in (e.g. a fresh session), the burn-in date filter removes nothing: the table has exactly one row
per equity point, dated with that point's date — the dates of the market-close events past the burn-in. -/
theorem C14_table_run (cfg : SessionCfg α) (alpha : Alpha α) (px : Px α) (sched : List Int) (s s' : Session α)
    (events : List SimEvent) (hs : ∀ p ∈ s.equity, burnOk cfg p.1 = true)
    (h : Session.runEvents cfg alpha px sched s events = (s', none)) :
    (targetAllocationTable cfg s').map (·.1) = s'.equity.map (fun p => dayOf p.1) ∧
    (targetAllocationTable cfg s').map (·.1) =
      s.equity.map (fun p => dayOf p.1) ++
        (events.filter (fun ev => ev.kind = .marketClose && burnOk cfg ev.time)).map (fun ev => dayOf ev.time) := by
  have he := C14_equity cfg alpha px sched s s' events h
  have hall : ∀ t ∈ s'.equity.map (·.1), burnOk cfg t = true := by
    intro t ht
    rw [he, List.mem_append] at ht
    rcases ht with ht | ht
    · simp only [List.mem_map] at ht
      obtain ⟨p, hp, rfl⟩ := ht
      exact hs p hp
    · simp only [List.mem_map, List.mem_filter, Bool.and_eq_true] at ht
      obtain ⟨ev, ⟨_, _, hb⟩, rfl⟩ := ht
      exact hb
  have h1 : (targetAllocationTable cfg s').map (·.1) = s'.equity.map (fun p => dayOf p.1) := by
    rw [C14_table_dates, List.filter_eq_self]
    intro d hd
    simp only [List.mem_map] at hd
    obtain ⟨p, hp, rfl⟩ := hd
    exact pastBurnDate_of_burnOk cfg p.1 (hall p.1 (List.mem_map.2 ⟨p, hp, rfl⟩))
  refine ⟨h1, ?_⟩
  rw [h1]
  have : s'.equity.map (fun p => dayOf p.1) = (s'.equity.map (·.1)).map dayOf := by
    simp [List.map_map, Function.comp_def]
  rw [this, he]
  simp [List.map_map, Function.comp_def]

/-! ## A constructed session -/

/-- **C14** (all together, for `Session.init`). For a session constructed by `Session.init cfg` and run to the end
without error (the end's time of day not before the start's): portfolio construction ran at exactly the event
times that are scheduled instants past the burn-in; there is exactly one equity point per business day whose
21:00 close is past the burn-in, and one table row per equity point; every fill is stamped 14:30 on a business
day, at or after the first rebalance instant. -/
theorem C14_session (cfg : SessionCfg α) (alpha : Alpha α) (px : Px α) (s0 s' : Session α)
    (events : List SimEvent) (sched : List Int) (hinit : Session.init cfg = .ok (s0, events, sched))
    (htod : todOf cfg.start ≤ todOf cfg.end_)
    (h : Session.runEvents cfg alpha px sched s0 events = (s', none)) :
    s'.allocations.map (·.1) = (events.map (·.time)).filter (fun t => burnOk cfg t && sched.contains t) ∧
    (∃ days : List Int, s'.equity.map (·.1) = days.map (fun d => d * 86400 + CLOSE) ∧ days.Pairwise (· < ·) ∧
      (∀ d, d ∈ days ↔ dayOf cfg.start ≤ d ∧ d ≤ dayOf cfg.end_ ∧ weekday d ≤ 4 ∧
        burnOk cfg (d * 86400 + CLOSE) = true) ∧
      (targetAllocationTable cfg s').map (·.1) = days) ∧
    (∀ f ∈ s'.fills, todOf f.time = OPEN ∧ weekday (dayOf f.time) ≤ 4 ∧
      (∃ ev ∈ events, ev.kind = .marketOpen ∧ f.time = ev.time) ∧
      ∃ ev0 ∈ events, (burnOk cfg ev0.time && sched.contains ev0.time) = true ∧ ev0.time ≤ f.time) := by
  obtain ⟨hq, hf0, ha0, he0, hsim, _⟩ := init_fresh cfg s0 events sched hinit
  have hfills0 : s0.fills = [] := by simp [Session.fills, hf0]
  refine ⟨?_, ?_, ?_⟩
  · have := C14_pcm cfg alpha px sched s0 s' events h
    rw [ha0] at this
    simpa using this
  · obtain ⟨days, d1, d2, d3⟩ := C14_equity_days cfg alpha px sched cfg.start cfg.end_ events s0 s' hsim htod h
    rw [he0] at d1
    simp only [List.map_nil, List.nil_append] at d1
    refine ⟨days, d1, d2, d3, ?_⟩
    have ht := (C14_table_run cfg alpha px sched s0 s' events (by rw [he0]; simp) h).1
    rw [ht]
    have : s'.equity.map (fun p => dayOf p.1) = (s'.equity.map (·.1)).map dayOf := by
      simp [List.map_map, Function.comp_def]
    rw [this, d1, List.map_map]
    conv_rhs => rw [← List.map_id days]
    apply List.map_congr_left
    intro d _
    simp only [Function.comp_def, id]
    unfold dayOf CLOSE; omega
  · intro f hf
    obtain ⟨ef, f1, f2⟩ := C14_fills_clock cfg alpha px sched s0 cfg.start cfg.end_ events hsim
    obtain ⟨ef', g1, g2⟩ := C14_fills_after_first cfg alpha px sched s0 events hq
      (C12.C12_sorted cfg.start cfg.end_ false false events hsim)
    rw [h, hfills0, List.nil_append] at f1 g1
    simp only at f1 g1
    obtain ⟨ev, hm, ht, hk, htod', hwd⟩ := f2 f (by rw [← f1]; exact hf)
    exact ⟨htod', hwd, ⟨ev, hm, hk, ht⟩, g2 f (by rw [← g1]; exact hf)⟩

end

/-! ## Non-vacuity

A concrete session at `α := Rat` (the executable carrier of the model): Monday 2020-03-02 00:00:00 (day 18323) to
Wednesday 2020-03-04 23:59:59, daily rebalance, long-only sizer with no cash buffer, no fees, cash 1000, one asset
`"A"` quoted at a constant 10, fixed weight 1.  `cfgB` is the same with a burn-in at Wednesday 00:00:00. -/

namespace Ex

def cfg : SessionCfg Rat :=
  { start := 18323 * 86400, end_ := 18325 * 86400 + 86399, burnIn := none, rebalance := .daily,
    longOnly := true, param := 0, fee := .zero, initialCash := 1000, uni := .static ["A"], nan := 0 }

def cfgB : SessionCfg Rat := { cfg with burnIn := some (18325 * 86400) }

def px : Px Rat := fun _ a => if a = "A" then some 10 else none
def alpha : Alpha Rat := fixedAlpha [("A", 1)]

/-- the clock: 14:30 and 21:00 of Monday, Tuesday, Wednesday -/
def events : List SimEvent :=
  [⟨1583159400, .marketOpen⟩, ⟨1583182800, .marketClose⟩, ⟨1583245800, .marketOpen⟩,
   ⟨1583269200, .marketClose⟩, ⟨1583332200, .marketOpen⟩, ⟨1583355600, .marketClose⟩]

/-- the daily schedule: the three 21:00 closes -/
def sched : List Int := [1583182800, 1583269200, 1583355600]

theorem clock_eq : simEvents cfg.start cfg.end_ false false = .ok events := by rfl
theorem sched_eq : scheduleOf cfg = .ok sched := by decide +kernel
theorem schedB_eq : scheduleOf cfgB = .ok sched := by decide +kernel

/-- hypotheses of `C14_equity_clock` / `C14_session` hold -/
example : cfg.start ≤ cfg.end_ ∧ todOf cfg.start ≤ todOf cfg.end_ := by decide

/-- the instants `C14_pcm` predicts: all three closes without burn-in, only Wednesday's with it -/
example : (events.map (·.time)).filter (fun t => burnOk cfg t && sched.contains t) = sched := by decide
example : (events.map (·.time)).filter (fun t => burnOk cfgB t && sched.contains t) = [1583355600] := by decide

/-- the equity dates `C14_equity_days` predicts: Mon, Tue, Wed without burn-in; Wed only with it -/
example : ((daysFrom (dayOf cfg.start) (dayOf cfg.end_ + 1 - dayOf cfg.start).toNat).filter isBDay).filter
    (fun d => burnOk cfg (d * 86400 + CLOSE)) = [18323, 18324, 18325] := by decide
example : ((daysFrom (dayOf cfgB.start) (dayOf cfgB.end_ + 1 - dayOf cfgB.start).toNat).filter isBDay).filter
    (fun d => burnOk cfgB (d * 86400 + CLOSE)) = [18325] := by decide

def isOk {β : Type} (r : Except Err β) : Bool := match r with | .ok _ => true | .error _ => false

/-- construction succeeds, with the clock and schedule above -/
theorem init_ok (c : SessionCfg Rat) (hok : isOk (Session.init c) = true)
    (hc : simEvents c.start c.end_ false false = .ok events) (hs : scheduleOf c = .ok sched) :
    ∃ s0, Session.init c = .ok (s0, events, sched) := by
  rcases h : Session.init c with e | ⟨s0, evs, sc⟩
  · rw [h] at hok; cases hok
  · obtain ⟨_, _, _, _, h1, h2⟩ := init_fresh c s0 evs sc h
    rw [hc] at h1; rw [hs] at h2
    injection h1 with h1; injection h2 with h2
    subst h1; subst h2
    exact ⟨s0, rfl⟩

theorem initA : ∃ s0, Session.init cfg = .ok (s0, events, sched) :=
  init_ok cfg (by decide +kernel) clock_eq sched_eq

theorem initB : ∃ s0, Session.init cfgB = .ok (s0, events, sched) :=
  init_ok cfgB (by decide +kernel) clock_eq schedB_eq

/-- the state after the first `n` events of the constructed session `c` -/
def after (c : SessionCfg Rat) (n : Nat) : Option (Session Rat × Option (Int × Err)) :=
  (Session.init c).toOption.map fun r => Session.runEvents c alpha px r.2.2 r.1 (r.2.1.take n)

/-- **without burn-in**, the first three events evaluated by the kernel: nothing at Monday's open; the first
portfolio construction at Monday's 21:00 close (one allocation record, one equity point of 1000); its order of
100 `A` fills at Tuesday's 14:30 open — no fill before the first rebalance, fills only at market opens. -/
example : (after cfg 1).map (fun r => (r.1.allocations.length, r.1.equity.length, r.1.fills.length)) = some (0, 0, 0) := by
  decide +kernel
example : (after cfg 3).map (fun r => r.1.allocations) = some [(1583182800, [("A", 1)])] := by decide +kernel
example : (after cfg 3).map (fun r => r.1.equity) = some [(1583182800, 1000)] := by decide +kernel
example : (after cfg 3).map (fun r => r.1.fills.map fun f => (f.time, f.asset, f.qty, f.price, f.commission)) =
    some [(1583245800, "A", 100, 10, 0)] := by decide +kernel
example : (after cfg 3).map (fun r => r.2.isNone) = some true := by decide +kernel

/-- **with the burn-in**, the whole run evaluated by the kernel: it returns normally; the only portfolio
construction is at Wednesday's close; one equity point; one table row (date 18325) carrying that allocation. -/
theorem runB_ok : (Session.run cfgB alpha px).toOption.map (fun r => r.2.isNone) = some true := by decide +kernel
example : (Session.run cfgB alpha px).toOption.map (fun r => r.1.allocations) = some [(1583355600, [("A", 1)])] := by
  decide +kernel
example : (Session.run cfgB alpha px).toOption.map (fun r => r.1.equity) = some [(1583355600, 1000)] := by
  decide +kernel
example : (Session.run cfgB alpha px).toOption.map (fun r => r.1.fills.length) = some 0 := by decide +kernel
example : (Session.run cfgB alpha px).toOption.map (fun r => targetAllocationTable cfgB r.1) =
    some [(18325, some [("A", 1)])] := by decide +kernel

/-- the hypotheses of `C14_session` are met by `cfgB`, and its conclusion specialises to the values above -/
example : ∃ s0 s', Session.init cfgB = .ok (s0, events, sched) ∧ todOf cfgB.start ≤ todOf cfgB.end_ ∧
    Session.runEvents cfgB alpha px sched s0 events = (s', none) ∧
    s'.allocations.map (·.1) = [1583355600] ∧
    (∃ days : List Int, s'.equity.map (·.1) = days.map (fun d => d * 86400 + CLOSE) ∧
      (targetAllocationTable cfgB s').map (·.1) = days) := by
  obtain ⟨s0, h0⟩ := initB
  have hr := runB_ok
  simp only [Session.run, h0, bind, Except.bind, pure, Except.pure, Except.toOption, Option.map_some,
    Option.some.injEq, Option.isNone_iff_eq_none] at hr
  refine ⟨s0, (Session.runEvents cfgB alpha px sched s0 events).1, h0, by decide, Prod.ext rfl hr, ?_⟩
  obtain ⟨h1, ⟨days, d1, _, _, d4⟩, _⟩ := C14_session cfgB alpha px s0 _ events sched h0 (by decide)
    (Prod.ext rfl hr)
  refine ⟨?_, days, d1, d4⟩
  rw [h1]; decide

/-- `C14_fills_idle` on a concrete prefix: without burn-in, Monday's open is not a rebalance instant -/
example : ∀ ev ∈ events.take 1, (burnOk cfg ev.time && sched.contains ev.time) = false := by decide

end Ex

end Qs.C14
