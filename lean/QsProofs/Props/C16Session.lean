import QsProofs.Lemmas.SessionLifts
import QsProofs.Props.C16
import Mathlib.Data.Rat.Floor
import Mathlib.Tactic.NormNum

/-!
# C16 (session level) — one observation per asset per business day, that day's close

Last sentence of property C16: "During a backtest every signal receives exactly one observation per asset per
business day — that day's close — and an asset that enters a dynamic universe later starts with an empty window."

The component theorems of `Props/C16.lean` are about `SignalsCollection.update` iterated over an abstract list of
days (`Sig.updateAll`, `Sig.runDays`).  Here they are tied to the event loop:

* `C16_session_step`     one event: `Session.step` changes the `signals` component only at a market-close event, by
                         exactly one `SignalsCollection.update` with the universe `cfg.uni.assets ev.time` and the
                         prices `fun a => (px ev.time a).getD cfg.nan` of that instant; the broker update,
                         `rebalanceAt` (hence order execution) and the equity stage never touch it.
* `C16_session_cadence`  a run without error: the collection after the run is `Sig.updateAll` over
                         `Lift.closeDays cfg px events` — the `(universe, prices)` of exactly the market-close events,
                         in event order — and none of those updates raised.
* `C16_session_windows`  from `Session.init`, for a run without error (which forces the fed prices of tracked assets
                         to be positive — this is proved, not assumed): `warmup` = number of close events,
                         every signal is `Sig.runDays (Signal.new kind lookbacks A₀) days`, and the buffer of asset `a`
                         and lookback `l` holds the last `bump kind l` closes of the days since `a` was first tracked
                         (`Sig.dayStream`): in the start universe, or from the first close at which the (dynamic)
                         universe contains it — with nothing from before that day (empty window at entry).

Hypotheses of `C16_session_windows` (inherited from `C16_cadence`): every configured lookback list is non-empty and
the start universe has no duplicate (`["A","A"]` would feed `A` twice a day).  `Sig.DaysPos` (on every close event
every tracked asset has a positive fed price) is derived from the absence of an error (`Lift.updateAll_daysPos`).
-/

set_option linter.unusedSectionVars false
set_option linter.unusedVariables false

namespace Qs
open NumOps Num Qs.Sess Qs.Lift

section Structural
variable {α : Type} [Add α] [Sub α] [Mul α] [Div α] [Neg α] [NumOps α]

/-- **C16 (session, one event).**
(1) At an event that is not a market close (or when no collection is configured) the `signals` component is
    untouched — whether the step returns or raises.
(2) At a market close, a step that returns normally has applied exactly one `SignalsCollection.update`, with the
    universe and the prices (a missing price reads `cfg.nan`) of that instant, and that update returned normally.
(3) The other stages are frames for `signals`: `rebalanceAt` (weights, sizing, order execution) at any time and the
    equity stage leave it as it is; the broker update does not have access to it. -/
theorem C16_session_step (cfg : SessionCfg α) (alpha : Alpha α) (px : Px α) (sched : List Int) (s : Session α)
    (ev : SimEvent) :
    ((ev.kind ≠ .marketClose ∨ s.signals = none) → (s.step cfg alpha px sched ev).1.signals = s.signals) ∧
    (∀ c s', s.signals = some c → ev.kind = .marketClose → s.step cfg alpha px sched ev = (s', none) →
      ∃ c', c.update (cfg.uni.assets ev.time) (fun a => (px ev.time a).getD cfg.nan) = (c', none) ∧
        s'.signals = some c') ∧
    (∀ t s₂, (rebalanceAt cfg alpha px t s₂).1.signals = s₂.signals) ∧
    (∀ s₃, (eqStage cfg ev s₃).1.signals = s₃.signals) :=
  ⟨step_signals_other cfg alpha px sched s ev,
   fun c s' hc hk h => step_signals_close cfg alpha px sched s s' ev c hc hk h,
   fun t s₂ => (rebalanceAt_frame cfg alpha px t s₂).2.2.1,
   fun s₃ => (eqStage_frame cfg ev s₃).2.2.1⟩

/-- **C16 (session cadence).** Over any event list, from any session state holding a collection `c`: if the run
returns normally, the collection it leaves is the result of `Sig.updateAll c days` where `days` lists, in event
order, the `(universe at ev.time, prices at ev.time)` of exactly the events `ev` with `ev.kind = marketClose` —
one `SignalsCollection.update` per close event and nothing else — and no update raised. -/
theorem C16_session_cadence (cfg : SessionCfg α) (alpha : Alpha α) (px : Px α) (sched : List Int)
    (events : List SimEvent) (s s' : Session α) (c : SignalsCollection α) (hc : s.signals = some c)
    (hrun : Session.runEvents cfg alpha px sched s events = (s', none)) :
    ∃ c', s'.signals = some c' ∧
      Sig.updateAll c ((events.filter fun ev => decide (ev.kind = .marketClose)).map fun ev =>
        (cfg.uni.assets ev.time, fun a => (px ev.time a).getD cfg.nan)) = (c', none) := by
  obtain ⟨c', h1, h2⟩ := runEvents_signals cfg alpha px sched events s s' c hc hrun
  exact ⟨c', h2, h1⟩

/-- without a configured collection there is never one -/
theorem C16_session_none (cfg : SessionCfg α) (alpha : Alpha α) (px : Px α) (sched : List Int)
    (events : List SimEvent) (s : Session α) (hc : s.signals = none) :
    (Session.runEvents cfg alpha px sched s events).1.signals = none :=
  runEvents_signals_none cfg alpha px sched events s hc

end Structural

section Lawful
variable {α : Type} [Field α] [LinearOrder α] [IsStrictOrderedRing α] [FloorRing α] [NumOps α] [LawfulNumOps α]

/-- **C16 (session windows).** A session constructed by `Session.init` with signal configurations `specs`, run over
any event list `evs` (e.g. a prefix of its own clock) without error.  Let `A₀ = cfg.uni.assets cfg.start` be the start
universe and `days = Lift.closeDays cfg px evs` the `(universe, prices)` of the close events.  Then after the run:
* `warmup` is the number of market-close events;
* the signals are, in configuration order, `Sig.runDays (Signal.new kind lookbacks A₀) days`: each signal evolves
  independently of the others;
* for every asset `a` in the start universe or in the universe of some close event, and every configured lookback
  `l`, the buffer `(a, bump kind l)` holds exactly the last `bump kind l` items of `Sig.dayStream (a ∈ A₀) a days` —
  one close per business-day close event, starting with the first close event at which `a` is tracked; an asset that
  enters a dynamic universe later starts from the empty window;
* positivity of the fed prices is not a hypothesis but a consequence of "the run returned normally": when at least
  one signal is configured, every tracked asset had a positive fed price at every close event (`Sig.DaysPos`) —
  otherwise `AssetPriceBuffers.append` would have raised. -/
theorem C16_session_windows (cfg : SessionCfg α) (alpha : Alpha α) (px : Px α)
    (specs : List (SignalKind × List Nat)) (hspecs : cfg.signalSpecs = some specs)
    (s0 : Session α) (events : List SimEvent) (sched : List Int)
    (hinit : Session.init cfg = .ok (s0, events, sched))
    (hl : ∀ sp ∈ specs, sp.2 ≠ []) (hA : (cfg.uni.assets cfg.start).Nodup)
    (evs : List SimEvent)
    (s' : Session α) (hrun : Session.runEvents cfg alpha px sched s0 evs = (s', none)) :
    ∃ c', s'.signals = some c' ∧
      c'.warmup = (evs.filter fun ev => decide (ev.kind = .marketClose)).length ∧
      c'.signals = specs.map (fun sp =>
        Sig.runDays (Signal.new sp.1 sp.2 (cfg.uni.assets cfg.start)) (closeDays cfg px evs)) ∧
      (∀ sp ∈ specs, ∀ a, (a ∈ cfg.uni.assets cfg.start ∨ ∃ d ∈ closeDays cfg px evs, a ∈ d.1) → ∀ l ∈ sp.2,
        (Sig.runDays (Signal.new sp.1 sp.2 (cfg.uni.assets cfg.start) : Signal α)
            (closeDays cfg px evs)).findBuffer a (Signal.bump sp.1 l) =
          some { asset := a, lookback := Signal.bump sp.1 l,
                 items := lastN (Signal.bump sp.1 l)
                   (Sig.dayStream (decide (a ∈ cfg.uni.assets cfg.start)) a (closeDays cfg px evs)) }) ∧
      (specs ≠ [] → Sig.DaysPos (cfg.uni.assets cfg.start) (closeDays cfg px evs)) := by
  have h0 := init_signals cfg s0 events sched hinit
  rw [hspecs] at h0
  simp only [Option.map_some] at h0
  obtain ⟨c', hall, hc'⟩ := runEvents_signals cfg alpha px sched evs s0 s' _ h0 hrun
  have hwf : ∀ s ∈ ({ signals := specs.map fun sp => Signal.new sp.1 sp.2 (cfg.uni.assets cfg.start) } :
      SignalsCollection α).signals, ∃ σ, Sig.Holds s σ := by
    intro s hs
    obtain ⟨sp, hsp, rfl⟩ := List.mem_map.mp hs
    exact ⟨_, Sig.holds_new sp.1 sp.2 _ (hl sp hsp) hA⟩
  -- the run returned normally, so every fed price was positive
  have hposAll := updateAll_daysPos (closeDays cfg px evs) _ c' hwf hall
  have hpos : ∀ sp ∈ specs, Sig.DaysPos (cfg.uni.assets cfg.start) (closeDays cfg px evs) := by
    intro sp hsp
    exact hposAll (Signal.new sp.1 sp.2 (cfg.uni.assets cfg.start)) (List.mem_map.mpr ⟨sp, hsp, rfl⟩)
  have hcad := C16_cadence_collection
    ({ signals := specs.map fun sp => Signal.new sp.1 sp.2 (cfg.uni.assets cfg.start) } : SignalsCollection α)
    (closeDays cfg px evs) hwf hposAll
  rw [hall] at hcad
  simp only [Prod.mk.injEq, and_true] at hcad
  refine ⟨c', hc', ?_, ?_, ?_, ?_⟩
  · rw [hcad]
    simp only [Nat.zero_add]
    exact closeDays_length cfg px evs
  · rw [hcad]
    simp only [List.map_map, Function.comp_def]
  · intro sp hsp a ha l hlm
    exact C16_cadence sp.1 sp.2 _ _ (hl sp hsp) hA (hpos sp hsp) a ha l hlm
  · intro hne
    obtain ⟨sp, hsp⟩ := List.exists_mem_of_ne_nil specs hne
    exact hpos sp hsp

/-- an event-level sufficient condition for `Sig.DaysPos` (the conclusion of `C16_session_windows`, hypothesis of
`C16_cadence`): at every market-close event of the run, every asset of the start universe or of the universe at some
event of the run has a positive fed price -/
theorem C16_session_daysPos (cfg : SessionCfg α) (px : Px α) (evs : List SimEvent)
    (h : ∀ ev ∈ evs, ev.kind = .marketClose → ∀ a,
      (a ∈ cfg.uni.assets cfg.start ∨ ∃ ev' ∈ evs, a ∈ cfg.uni.assets ev'.time) →
        0 < (px ev.time a).getD cfg.nan) :
    Sig.DaysPos (cfg.uni.assets cfg.start) (closeDays cfg px evs) := by
  intro pre d post hsplit a ha
  have hmemd : ∀ e ∈ closeDays cfg px evs, ∃ ev ∈ evs, ev.kind = .marketClose ∧ e = dayOfEvent cfg px ev := by
    intro e he
    unfold closeDays at he
    obtain ⟨ev, hev, rfl⟩ := List.mem_map.mp he
    rw [List.mem_filter] at hev
    exact ⟨ev, hev.1, by simpa [isClose] using hev.2, rfl⟩
  obtain ⟨ev, hev, hk, rfl⟩ := hmemd d (by rw [hsplit]; simp)
  apply h ev hev hk a
  rcases ha with ha | ⟨e, he, hae⟩
  · exact Or.inl ha
  · right
    obtain ⟨ev', hev', _, rfl⟩ := hmemd e (by
      rw [hsplit]
      rcases List.mem_append.mp he with h1 | h1
      · exact List.mem_append_left _ h1
      · simp only [List.mem_singleton] at h1; subst h1; simp)
    exact ⟨ev', hev', hae⟩

end Lawful

/-! ## Non-vacuity at `α := ℚ` (`fieldNumOps ℚ`)

Monday 2021-01-04 00:00 … Wednesday 2021-01-06 00:00 (three business days).  Dynamic universe: `A` from the epoch,
`B` from Tuesday 00:00.  One momentum signal (lookback 1: two-price windows) and one moving average (lookback 2).
`A` closes at 10, 11, 12; `B` closes at 7 every day (opens: `A` 9, `B` 7).  The weekly (Friday) rebalance does not
occur inside the range, so the run exercises the signal path only.  The kernel evaluates the whole run. -/

section nonvacuity

noncomputable local instance (priority := high) ratOps16s : NumOps ℚ := fieldNumOps ℚ
local instance (priority := high) ratLawful16s : LawfulNumOps ℚ := fieldNumOps_lawful ℚ

def exPx16s : Px ℚ := fun t a =>
  if a = "A" then (if t % 86400 = 52200 then some 9 else some ((t / 86400 - 18621 : Int) : ℚ))
  else if a = "B" then some 7 else none

noncomputable def exCfg16s : SessionCfg ℚ :=
  { start := 18631 * 86400, end_ := 18633 * 86400, rebalance := .weekly "FRI", longOnly := true, param := 0,
    fee := .zero, initialCash := 1000, uni := .dynamic [("A", some 0), ("B", some (18632 * 86400))],
    signalSpecs := some [(.momentum, [1]), (.sma, [2])], nan := 0 }

/-- the session's own clock: open and close of Monday, Tuesday, Wednesday -/
def exEvents16s : List SimEvent :=
  [⟨18631 * 86400 + 52200, .marketOpen⟩, ⟨18631 * 86400 + 75600, .marketClose⟩,
   ⟨18632 * 86400 + 52200, .marketOpen⟩, ⟨18632 * 86400 + 75600, .marketClose⟩,
   ⟨18633 * 86400 + 52200, .marketOpen⟩, ⟨18633 * 86400 + 75600, .marketClose⟩]

def okInit16s {β : Type} (evs : List SimEvent) : Except Err (β × List SimEvent × List Int) → Bool
  | .ok (_, e, _) => decide (e = evs)
  | _ => false

theorem exInit16s : ∃ s0 sched, Session.init exCfg16s = .ok (s0, exEvents16s, sched) := by
  have h : okInit16s exEvents16s (Session.init exCfg16s) = true := by decide +kernel
  rcases hi : Session.init exCfg16s with e | ⟨s0, evs, sc⟩
  · rw [hi] at h; cases h
  · rw [hi] at h
    simp only [okInit16s, decide_eq_true_eq] at h
    subst h
    exact ⟨s0, sc, rfl⟩

/-- the whole example run returns normally (kernel evaluation of the model) -/
theorem exRun16s : (Session.run exCfg16s (singleAlpha 1) exPx16s).toOption.map (fun r => r.2.isNone) = some true := by
  decide +kernel

/-- the three days the signals see: universe `[A]` on Monday, `[A, B]` from Tuesday; closes 10/11/12 and 7 -/
theorem exDays16s : (closeDays exCfg16s exPx16s exEvents16s).map (fun d => (d.1, d.2 "A", d.2 "B")) =
    [(["A"], 10, 7), (["A", "B"], 11, 7), (["A", "B"], 12, 7)] := by
  decide +kernel

theorem exPos16s : Sig.DaysPos (exCfg16s.uni.assets exCfg16s.start) (closeDays exCfg16s exPx16s exEvents16s) := by
  apply C16_session_daysPos
  intro ev hev hk a ha
  have hAB : a = "A" ∨ a = "B" := by
    rcases ha with ha | ⟨ev', _, ha⟩
    · simp only [exCfg16s, UniverseSpec.assets] at ha
      rw [mem_dynamicAssets] at ha
      obtain ⟨e, he, _⟩ := ha
      simp only [List.mem_cons, Prod.mk.injEq, List.not_mem_nil, or_false] at he
      rcases he with ⟨rfl, _⟩ | ⟨rfl, _⟩ <;> simp
    · simp only [exCfg16s, UniverseSpec.assets] at ha
      rw [mem_dynamicAssets] at ha
      obtain ⟨e, he, _⟩ := ha
      simp only [List.mem_cons, Prod.mk.injEq, List.not_mem_nil, or_false] at he
      rcases he with ⟨rfl, _⟩ | ⟨rfl, _⟩ <;> simp
  simp only [exEvents16s, List.mem_cons, List.not_mem_nil, or_false] at hev
  rcases hev with rfl | rfl | rfl | rfl | rfl | rfl <;> simp at hk <;>
    rcases hAB with rfl | rfl <;> simp [exPx16s]

/-- all hypotheses of `C16_session_windows` hold on the example; its conclusion, read off: `warmup = 3`; the momentum
buffer (two prices) of `A` holds the last two closes `[11, 12]`; the late entrant `B` (in the universe from Tuesday)
has the window `[7, 7]` — Tuesday's and Wednesday's close, nothing from Monday; the moving-average buffer of `B`
holds the same two closes. -/
example : ∃ s0 sched s' c', Session.init exCfg16s = .ok (s0, exEvents16s, sched) ∧
    Session.runEvents exCfg16s (singleAlpha 1) exPx16s sched s0 exEvents16s = (s', none) ∧
    s'.signals = some c' ∧ c'.warmup = 3 ∧
    (∃ sm ss, c'.signals = [sm, ss] ∧
      sm.findBuffer "A" 2 = some { asset := "A", lookback := 2, items := [11, 12] } ∧
      sm.findBuffer "B" 2 = some { asset := "B", lookback := 2, items := [7, 7] } ∧
      ss.findBuffer "B" 2 = some { asset := "B", lookback := 2, items := [7, 7] }) := by
  obtain ⟨s0, sched, h0⟩ := exInit16s
  have hr := exRun16s
  simp only [Session.run, h0, bind, Except.bind, pure, Except.pure, Except.toOption, Option.map_some,
    Option.some.injEq, Option.isNone_iff_eq_none] at hr
  have hrun : Session.runEvents exCfg16s (singleAlpha 1) exPx16s sched s0 exEvents16s =
      ((Session.runEvents exCfg16s (singleAlpha 1) exPx16s sched s0 exEvents16s).1, none) := Prod.ext rfl hr
  obtain ⟨c', hc', hw, hsig, hbuf, _⟩ := C16_session_windows exCfg16s (singleAlpha 1) exPx16s
    [(.momentum, [1]), (.sma, [2])] rfl s0 exEvents16s sched h0 (by simp) (by decide) exEvents16s _ hrun
  refine ⟨s0, sched, _, c', h0, hrun, hc', by rw [hw]; decide, _, _, by rw [hsig]; rfl, ?_, ?_, ?_⟩
  · have := hbuf (.momentum, [1]) (by simp) "A" (Or.inl (by decide)) 1 (by simp)
    refine this.trans ?_
    have hs : Sig.dayStream (decide ("A" ∈ exCfg16s.uni.assets exCfg16s.start)) "A"
        (closeDays exCfg16s exPx16s exEvents16s) = [10, 11, 12] := by decide +kernel
    rw [hs]
    simp [Signal.bump, lastN]
  · have := hbuf (.momentum, [1]) (by simp) "B" (Or.inr (by
      have : (closeDays exCfg16s exPx16s exEvents16s).any (fun d => decide ("B" ∈ d.1)) = true := by decide +kernel
      obtain ⟨d, hd, hb⟩ := List.any_eq_true.mp this
      exact ⟨d, hd, by simpa using hb⟩)) 1 (by simp)
    refine this.trans ?_
    have hs : Sig.dayStream (decide ("B" ∈ exCfg16s.uni.assets exCfg16s.start)) "B"
        (closeDays exCfg16s exPx16s exEvents16s) = [7, 7] := by decide +kernel
    rw [hs]
    simp [Signal.bump, lastN]
  · have := hbuf (.sma, [2]) (by simp) "B" (Or.inr (by
      have : (closeDays exCfg16s exPx16s exEvents16s).any (fun d => decide ("B" ∈ d.1)) = true := by decide +kernel
      obtain ⟨d, hd, hb⟩ := List.any_eq_true.mp this
      exact ⟨d, hd, by simpa using hb⟩)) 2 (by simp)
    refine this.trans ?_
    have hs : Sig.dayStream (decide ("B" ∈ exCfg16s.uni.assets exCfg16s.start)) "B"
        (closeDays exCfg16s exPx16s exEvents16s) = [7, 7] := by decide +kernel
    rw [hs]
    simp [Signal.bump, lastN]

end nonvacuity

end Qs
