import QsProofs.Lemmas.Position
import Mathlib.Data.Rat.Floor
import Mathlib.Tactic.NormNum

/-!
# C03 — Position P&L reconciles exactly to the cash flows of its fills

For any buys and sells, at any prices and commissions, made since a position was opened, and any
current price, the reported total P&L equals realised plus unrealised P&L and equals current market
value minus the sum of price × signed quantity of those fills minus their commissions; unrealised
P&L equals (current price − average cost including the open side's commission) × net quantity.
Re-marking the price changes unrealised P&L only, never realised P&L or quantities.

All theorems are about the model functions `Qs.Position.openFrom / transact / updatePrice / realised /
unrealised / totalPnl / avgPrice / net` of `QsModel/Position.lean`.

* The position reached is `Position.reached f fs ms` (`QsProofs/Lemmas/Position.lean`): open with the
  fill `f` (`openFrom`), apply the fills `fs` with `transact` (`.1` component), then the re-marks
  `ms : List (price × time)` with `updatePrice` (`.1` component).
* The domain is `ValidRun f fs ms`: every fill has `qty ≠ 0` and `0 < price`, every re-mark has
  `0 < price`, and the times of `f :: fs` followed by those of `ms` are non-decreasing.
  `C03_no_error` shows that inside the domain every `transact` / `updatePrice` call returns `none`.
* **Flat states are included.**  `C03_reconcile` holds for fill lists of every length and every sign
  pattern of the running net quantity: long, short, flat (`net = 0`), flips through zero, and runs
  that pass through a flat state and *continue* (the `Position` object keeps its cumulative
  accumulators; the code's `realised` has a branch for `net = 0`).  No restriction to non-flat
  intermediate states was needed.  (In the real system the handler deletes a flat position; the
  theorem is about the `Position` object itself.)
* Outside the domain (`C03_reconcile_strong`, only `qty ≠ 0` assumed; times and prices arbitrary, so
  `transact` / `updatePrice` calls may return errors): `transact` validates the trade's price and time
  *before* it touches the accumulators (fix F4), so a refused fill leaves the running quantities,
  averages and commissions unchanged and changes at most the `clock`.  The identity then holds with the
  cash-flow sums taken over the opening fill and the **accepted** later fills
  (`Position.accepted (openFrom f) fs`: the fills whose `transact` call returned no error) — a refused
  fill is not a cash flow of the position.  Inside the domain every fill is accepted
  (`C03_accepted_all`), which gives `C03_reconcile` over all fills.  `qty ≠ 0` is genuinely needed:
  `transact` ignores a zero-quantity fill entirely (and reports no error), so its commission would
  appear in the cash flows but not in the position.
-/

set_option linter.unusedSectionVars false

namespace Qs
open NumOps Num Position

/-! ## Re-marking (holds for every carrier, no laws needed, error outcomes included) -/

section Remark
variable {α : Type} [Add α] [Sub α] [Mul α] [Div α] [Neg α] [NumOps α]

/-- C03 (re-mark): `updatePrice` — in each of its three outcomes (time error, price error, success) —
leaves realised P&L, net quantity, both cumulative quantities and the average cost unchanged. -/
theorem C03_remark (P : Position α) (p : α) (t : Int) :
    (P.updatePrice p t).1.realised = P.realised ∧
    (P.updatePrice p t).1.net = P.net ∧
    (P.updatePrice p t).1.buyQ = P.buyQ ∧
    (P.updatePrice p t).1.sellQ = P.sellQ ∧
    (P.updatePrice p t).1.avgPrice = P.avgPrice := by
  obtain ⟨pr, c, e⟩ := Position.updatePrice_fst P p t
  rw [e]
  exact ⟨rfl, rfl, rfl, rfl, rfl⟩

/-- C03 (total): total P&L is realised plus unrealised. -/
theorem C03_total (P : Position α) : P.totalPnl = P.realised + P.unrealised := rfl

/-- C03 (unrealised): unrealised P&L is (current price − average cost) × net quantity.
True for every `Position`, also when `net = 0` (then `avgPrice = 0` and the product is `0`), so the
hypothesis `P.net ≠ 0` of the English statement is not needed. -/
theorem C03_unrealised (P : Position α) : P.unrealised = (P.price - P.avgPrice) * P.net := rfl

end Remark

section Carrier
variable {α : Type} [Field α] [LinearOrder α] [IsStrictOrderedRing α] [FloorRing α] [NumOps α] [LawfulNumOps α]

/-- C03 (re-mark, success case): a re-mark inside the domain sets the price, so unrealised P&L becomes
`(p − avgPrice) × net` with the old average cost and net quantity. -/
theorem C03_remark_unrealised (P : Position α) (p : α) (t : Int) (hc : P.clock ≤ t) (hp : 0 < p) :
    (P.updatePrice p t).2 = none ∧
    (P.updatePrice p t).1.unrealised = (p - P.avgPrice) * P.net := by
  obtain ⟨h1, _, h3⟩ := updatePrice_noerr P p t hc hp
  obtain ⟨_, h5, _, _, h6⟩ := C03_remark P p t
  refine ⟨h1, ?_⟩
  rw [C03_unrealised, h3, h5, h6]

/-- Inside the domain no call of the run returns an error: every `transact` (first component) and
every `updatePrice` (second component), each applied to the position reached by the calls before it. -/
theorem C03_no_error (f : Txn α) (fs : List (Txn α)) (ms : List (α × Int)) (h : ValidRun f fs ms) :
    (∀ pre t post, fs = pre ++ t :: post →
        (((openFrom f).applyFills pre).transact t).2 = none) ∧
    (∀ pre m post, ms = pre ++ m :: post →
        ((((openFrom f).applyFills fs).applyMarks pre).updatePrice m.1 m.2).2 = none) := by
  have hpw := h.times
  rw [List.pairwise_append] at hpw
  obtain ⟨hF, hM, hFM⟩ := hpw
  simp only [List.map_cons, List.pairwise_cons] at hF
  have hclk : (openFrom f).clock = f.time := by
    unfold openFrom; split <;> rfl
  constructor
  · apply applyFills_noerr
    · exact fun t ht => h.qty_ne t (List.mem_cons_of_mem _ ht)
    · exact fun t ht => h.price_pos t (List.mem_cons_of_mem _ ht)
    · intro t ht; rw [hclk]; exact hF.1 _ (List.mem_map_of_mem ht)
    · exact hF.2
  · apply applyMarks_noerr _ _ h.mark_pos _ hM
    intro m hm
    have hm' : m.2 ∈ ms.map (fun m => m.2) := List.mem_map_of_mem hm
    apply applyFills_clock_le
    · rw [hclk]; exact hFM _ (by simp) _ hm'
    · intro t ht
      exact hFM _ (List.mem_map_of_mem (List.mem_cons_of_mem _ ht)) _ hm'

/-- Inside the domain every later fill is accepted: the list of accepted fills is the whole list. -/
theorem C03_accepted_all (f : Txn α) (fs : List (Txn α)) (ms : List (α × Int)) (h : ValidRun f fs ms) :
    accepted (openFrom f) fs = fs :=
  accepted_eq_self (openFrom f) fs (C03_no_error f fs ms h).1

/-- The reachability invariant (`Inv`, see `QsProofs/Lemmas/Position.lean`) of every reached position:
`avgB·buyQ`, `comB`, `buyQ` (resp. sell side) are the sums over the buy (sell) fills, both
quantities are non-negative, and an empty side carries no commission. -/
theorem C03_invariant (f : Txn α) (fs : List (Txn α)) (ms : List (α × Int)) (h : ValidRun f fs ms) :
    Inv (reached f fs ms) (f :: fs) := by
  have := inv_reached f fs ms h.qty_ne
  rwa [C03_accepted_all f fs ms h] at this

/-- The invariant outside the domain (only `qty ≠ 0`; calls may be refused): the accumulators are the
sums over the opening fill and the accepted later fills — a refused fill is not counted. -/
theorem C03_invariant_strong (f : Txn α) (fs : List (Txn α)) (ms : List (α × Int))
    (hq : ∀ t ∈ f :: fs, t.qty ≠ 0) :
    Inv (reached f fs ms) (f :: accepted (openFrom f) fs) :=
  inv_reached f fs ms hq

/-- C03 (a refused fill is not a cash flow): a `transact` call that returns an error leaves both
cumulative quantities, both averages and both commission totals — hence net quantity, realised P&L and
average cost — exactly as they were; at most the `clock` moved. -/
theorem C03_refused (P : Position α) (t : Txn α) (e : Err) (h : (P.transact t).2 = some e) :
    ∃ c, (P.transact t).1 = { P with clock := c } :=
  transact_refused P t e h

/-- `C03_reconcile` under `qty ≠ 0` only; times and prices are arbitrary, so `transact` and
`updatePrice` calls of the run may be refused.  The cash-flow sums run over the opening fill and the
**accepted** later fills `accepted (openFrom f) fs` (a refused `transact` does not touch the
accumulators, so its fill must not be counted). -/
theorem C03_reconcile_strong (f : Txn α) (fs : List (Txn α)) (ms : List (α × Int))
    (hq : ∀ t ∈ f :: fs, t.qty ≠ 0) :
    (reached f fs ms).totalPnl =
      (reached f fs ms).price * (reached f fs ms).net
        - ((f :: accepted (openFrom f) fs).map (fun t => t.price * (t.qty : α))).sum
        - ((f :: accepted (openFrom f) fs).map (fun t => t.commission)).sum := by
  have I := inv_reached f fs ms hq
  have hq' : ∀ t ∈ f :: accepted (openFrom f) fs, t.qty ≠ 0 := by
    intro t ht
    rcases List.mem_cons.mp ht with rfl | ht
    · exact hq _ (List.mem_cons_self ..)
    · exact hq t (List.mem_cons_of_mem _ ((accepted_sublist _ _).subset ht))
  rw [totalPnl_eq _ I.buyQ_nonneg I.sellQ_nonneg I.buy_zero (fun h => (I.sell_zero h).1),
    I.buyCons, I.sellCons, I.buyCom, I.sellCom]
  have h1 := consid_split (f :: accepted (openFrom f) fs) hq'
  have h2 := commis_split (f :: accepted (openFrom f) fs) hq'
  unfold consid at h1
  unfold commis at h2
  rw [h1, h2]
  unfold consid commis
  ring

/-- C03 (reconcile): total P&L = market value − Σ price × signed quantity − Σ commission, for every
fill list of the domain, of any length, through long, short and flat states. -/
theorem C03_reconcile (f : Txn α) (fs : List (Txn α)) (ms : List (α × Int)) (h : ValidRun f fs ms) :
    (reached f fs ms).totalPnl =
      (reached f fs ms).price * (reached f fs ms).net
        - ((f :: fs).map (fun t => t.price * (t.qty : α))).sum
        - ((f :: fs).map (fun t => t.commission)).sum := by
  have := C03_reconcile_strong f fs ms h.qty_ne
  rwa [C03_accepted_all f fs ms h] at this

/-- the net quantity of a reached position is the sum of the signed fill quantities -/
theorem C03_net (f : Txn α) (fs : List (Txn α)) (ms : List (α × Int)) (h : ValidRun f fs ms) :
    (reached f fs ms).net = ((f :: fs).map (fun t => (t.qty : α))).sum := by
  have I := C03_invariant f fs ms h
  have h3 := qtySum_split (f :: fs) h.qty_ne
  unfold qtySum at h3
  unfold Position.net
  rw [I.buyQty, I.sellQty, h3]
  unfold qtySum
  ring

/-- C03 (average cost, long): for `net > 0` the average cost is
`(Σ buys price·qty + Σ buys commission) / Σ buys qty`  (`buys l = l.filter (0 < ·.qty)`). -/
theorem C03_avgPrice_long (f : Txn α) (fs : List (Txn α)) (ms : List (α × Int)) (h : ValidRun f fs ms)
    (hlong : 0 < (reached f fs ms).net) :
    (reached f fs ms).avgPrice =
      (((buys (f :: fs)).map (fun t => t.price * (t.qty : α))).sum
          + ((buys (f :: fs)).map (fun t => t.commission)).sum)
        / ((buys (f :: fs)).map (fun t => (t.qty : α))).sum := by
  have I := C03_invariant f fs ms h
  rw [avgPrice_long _ hlong, I.buyCons, I.buyCom]
  conv_lhs => rw [I.buyQty]
  rfl

/-- C03 (average cost, short): for `net < 0` the average cost is
`(Σ sells price·|qty| − Σ sells commission) / Σ sells |qty|`  (`sells l = l.filter (·.qty < 0)`). -/
theorem C03_avgPrice_short (f : Txn α) (fs : List (Txn α)) (ms : List (α × Int)) (h : ValidRun f fs ms)
    (hshort : (reached f fs ms).net < 0) :
    (reached f fs ms).avgPrice =
      (((sells (f :: fs)).map (fun t => t.price * |(t.qty : α)|)).sum
          - ((sells (f :: fs)).map (fun t => t.commission)).sum)
        / ((sells (f :: fs)).map (fun t => |(t.qty : α)|)).sum := by
  have I := C03_invariant f fs ms h
  rw [avgPrice_short _ hshort, I.sellCons, I.sellCom, sells_abs_consid, sells_abs_qty]
  conv_lhs => rw [I.sellQty]
  rfl

/-- C03 (average cost, flat): for `net = 0` the code reports average cost `0` (and unrealised P&L `0`). -/
theorem C03_avgPrice_flat (P : Position α) (hflat : P.net = 0) :
    P.avgPrice = 0 ∧ P.unrealised = 0 := by
  have : P.avgPrice = 0 := by
    unfold Position.avgPrice
    simp only [beq_eq, zero_eq, decide_eq_true_eq]
    rw [if_pos hflat]
  refine ⟨this, ?_⟩
  rw [C03_unrealised, hflat, mul_zero]

end Carrier

/-! ## Non-vacuity at `α := ℚ`

buy 100 @ 10 (commission 1), sell 150 @ 11 (commission 2) — a flip through zero —, buy 20 @ 9
(commission 1/2), then a re-mark to 12.  A second run passes through a flat state and continues. -/

section Examples

noncomputable local instance instNumOpsQ : NumOps ℚ := fieldNumOps ℚ
local instance instLawfulQ : LawfulNumOps ℚ := fieldNumOps_lawful ℚ

def exF0 : Txn ℚ := { asset := "A", qty := 100, time := 1, price := 10, commission := 1 }
def exF1 : Txn ℚ := { asset := "A", qty := -150, time := 2, price := 11, commission := 2 }
def exF2 : Txn ℚ := { asset := "A", qty := 20, time := 3, price := 9, commission := 1 / 2 }
/-- closes `exF0` exactly: the position is flat after it -/
def exF1' : Txn ℚ := { asset := "A", qty := -100, time := 2, price := 11, commission := 2 }

/-- the flip-through-zero run is inside the domain -/
theorem exValid : ValidRun exF0 [exF1, exF2] [((12 : ℚ), (5 : Int))] := by
  constructor
  · simp [exF0, exF1, exF2]
  · simp [exF0, exF1, exF2]
  · simp
  · simp [exF0, exF1, exF2]

/-- the run through a flat intermediate state is inside the domain -/
theorem exValid' : ValidRun exF0 [exF1', exF2] [] := by
  constructor
  · simp [exF0, exF1', exF2]
  · simp [exF0, exF1', exF2]
  · simp
  · simp [exF0, exF1', exF2]

/-! Both sides of `C03_reconcile` evaluated on the flip-through-zero run, after the re-mark to 12:
net = −30, market value = −360, Σ price·qty = −470, Σ commission = 7/2, total P&L = 213/2. -/

example : (reached exF0 [exF1, exF2] [((12 : ℚ), (5 : Int))]).totalPnl = 213 / 2 := by
  norm_num [reached, applyFills, applyMarks, transact, updatePrice, transactBuy, transactSell, openFrom,
    totalPnl, realised, unrealised, avgPrice, net, exF0, exF1, exF2]

example : (reached exF0 [exF1, exF2] [((12 : ℚ), (5 : Int))]).price
      * (reached exF0 [exF1, exF2] [((12 : ℚ), (5 : Int))]).net
      - (([exF0, exF1, exF2]).map (fun t => t.price * (t.qty : ℚ))).sum
      - (([exF0, exF1, exF2]).map (fun t => t.commission)).sum = 213 / 2 := by
  norm_num [reached, applyFills, applyMarks, transact, updatePrice, transactBuy, transactSell, openFrom,
    net, exF0, exF1, exF2]

/-- the state is short (net = −30), realised and unrealised are both non-trivial, and the average
cost is `(Σ sells price·|qty| − Σ sells commission) / Σ sells |qty| = (1650 − 2) / 150` -/
example : (reached exF0 [exF1, exF2] [((12 : ℚ), (5 : Int))]).net = -30
    ∧ (reached exF0 [exF1, exF2] [((12 : ℚ), (5 : Int))]).realised = 1369 / 10
    ∧ (reached exF0 [exF1, exF2] [((12 : ℚ), (5 : Int))]).unrealised = -152 / 5
    ∧ (reached exF0 [exF1, exF2] [((12 : ℚ), (5 : Int))]).avgPrice = 1648 / 150 := by
  norm_num [reached, applyFills, applyMarks, transact, updatePrice, transactBuy, transactSell, openFrom,
    realised, unrealised, avgPrice, net, exF0, exF1, exF2]

/-- the intermediate state after the first sell really is on the other side of zero (net = −50) -/
example : (reached exF0 [exF1] []).net = -50 := by
  norm_num [reached, applyFills, applyMarks, transact, updatePrice, transactBuy, transactSell, openFrom,
    net, exF0, exF1]

/-- run through a flat intermediate state: flat after `exF1'`, then long 20 -/
example : (reached exF0 [exF1'] []).net = 0 ∧ (reached exF0 [exF1'] []).totalPnl = 97
    ∧ (reached exF0 [exF1', exF2] []).net = 20
    ∧ (reached exF0 [exF1', exF2] []).totalPnl = 193 / 2 := by
  norm_num [reached, applyFills, applyMarks, transact, updatePrice, transactBuy, transactSell, openFrom,
    totalPnl, realised, unrealised, avgPrice, net, netInclCommission, netTotal, commission, totalSold,
    totalBought, exF0, exF1', exF2]

/-- the theorems instantiate at `ℚ` -/
example : (reached exF0 [exF1', exF2] []).totalPnl =
    (reached exF0 [exF1', exF2] []).price * (reached exF0 [exF1', exF2] []).net
      - (([exF0, exF1', exF2]).map (fun t => t.price * (t.qty : ℚ))).sum
      - (([exF0, exF1', exF2]).map (fun t => t.commission)).sum :=
  C03_reconcile exF0 [exF1', exF2] [] exValid'

example := C03_reconcile _ _ _ exValid
example := C03_no_error _ _ _ exValid
example := C03_invariant _ _ _ exValid
example := C03_net _ _ _ exValid
example := C03_avgPrice_short _ _ _ exValid (by
  norm_num [reached, applyFills, applyMarks, transact, updatePrice, transactBuy, transactSell, openFrom,
    net, exF0, exF1, exF2])
example := C03_avgPrice_long _ _ _ exValid' (by
  norm_num [reached, applyFills, applyMarks, transact, updatePrice, transactBuy, transactSell, openFrom,
    net, exF0, exF1', exF2])

/-! A run *outside* the domain: `exBad` (time 0 < clock 1) and `exBad'` (price 0) are refused by
`transact`; they leave the accumulators untouched and are not among the accepted fills, so
`C03_reconcile_strong` counts only `exF0` and `exF1`.  Counting the refused fills (as the sums over
all of `fs` would) gives a different, wrong figure. -/

def exBad : Txn ℚ := { asset := "A", qty := 500, time := 0, price := 7, commission := 3 }
def exBad' : Txn ℚ := { asset := "A", qty := -40, time := 2, price := 0, commission := 5 }

example : ((openFrom exF0).transact exBad).2 = some Err.value
    ∧ ((openFrom exF0).transact exBad).1 = openFrom exF0 := by
  norm_num [transact, updatePrice, openFrom, exF0, exBad]

example : accepted (openFrom exF0) [exBad, exF1, exBad'] = [exF1] := by
  norm_num [accepted, transact, updatePrice, transactBuy, transactSell, openFrom, exF0, exF1, exBad,
    exBad']

example : (reached exF0 [exBad, exF1, exBad'] []).totalPnl = 97
    ∧ (reached exF0 [exBad, exF1, exBad'] []).price * (reached exF0 [exBad, exF1, exBad'] []).net
        - (([exF0, exF1]).map (fun t => t.price * (t.qty : ℚ))).sum
        - (([exF0, exF1]).map (fun t => t.commission)).sum = 97
    ∧ (reached exF0 [exBad, exF1, exBad'] []).price * (reached exF0 [exBad, exF1, exBad'] []).net
        - (([exF0, exBad, exF1, exBad']).map (fun t => t.price * (t.qty : ℚ))).sum
        - (([exF0, exBad, exF1, exBad']).map (fun t => t.commission)).sum ≠ 97 := by
  norm_num [reached, applyFills, applyMarks, transact, updatePrice, transactBuy, transactSell, openFrom,
    totalPnl, realised, unrealised, avgPrice, net, exF0, exF1, exBad, exBad']

example := C03_reconcile_strong exF0 [exBad, exF1, exBad'] [] (by simp [exF0, exF1, exBad, exBad'])
example := C03_invariant_strong exF0 [exBad, exF1, exBad'] [] (by simp [exF0, exF1, exBad, exBad'])
example := C03_refused (openFrom exF0) exBad Err.value (by
  norm_num [transact, updatePrice, openFrom, exF0, exBad])
example := C03_accepted_all _ _ _ exValid

end Examples

end Qs
