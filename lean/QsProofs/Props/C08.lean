import QsProofs.Lemmas.RefinementRun
import QsProofs.Props.C12
import Mathlib.Data.Rat.Floor

/-!
# C08 — A fixed-weight backtest reproduces the documented trading rules exactly

The operational model of the backtest (`Session.run`: event loop → `Broker.update` (marks, exchange hours,
order queue, sells first) → position handler → rebalance test → alpha → portfolio construction → order
submission) REFINES the ten-line day-indexed specification `referenceRun` (`QsModel/Reference.lean`):
every observable of the session — fills (time, asset, quantity, price, commission), daily equity, the dates
of the allocation records, final cash, final holdings (as a dictionary, in order) and the still-pending orders —
is the one the reference computes, and the reference is defined whenever the session finishes without error.

* `C08_refines`          the whole-run theorem (any universe specification, any weights list);
* `C08_refines_static`   the same in the form of the property's plan (static universe, the documented usage
                         conditions on the date range);
* `C08_sim_update`, `C08_sim_rebalance`, `C08_sim_open`, `C08_sim_close`, `C08_sim_day`, `C08_sim_init`
                         the per-event simulation lemmas (abstraction relation `Ref.SR` / `Ref.BR`).
-/

namespace Qs
open NumOps Num Qs.Ref

section
variable {α : Type} [Field α] [LinearOrder α] [IsStrictOrderedRing α] [FloorRing α] [NumOps α] [LawfulNumOps α]

/-- the pending orders of the session's portfolio as `(asset, quantity)` pairs, oldest first -/
def pendingOf (b : Broker α) : List (String × Int) :=
  match b.find? PORTFOLIO_ID with
  | none => []
  | some e => e.queue.map fun o => (o.asset, o.qty)

/-- what the abstraction relation says about the observables -/
theorem observables_of_SR (cfg : SessionCfg α) (s : Session α) (r : RefState α) (t : Int) (h : SR cfg s r t) :
    s.fills = r.fills ∧ s.equity = r.equity ∧ s.allocations.map (·.1) = r.allocDates ∧
    s.broker.portfolioCash PORTFOLIO_ID = .ok r.cash ∧ heldOf s.broker = r.hold ∧ pendingOf s.broker = r.pending := by
  obtain ⟨hbr, heq, hal, _⟩ := h
  refine ⟨(fills_eq s).trans hbr.log, heq, hal, ?_, heldOf_sim cfg.fee s.broker r t hbr, ?_⟩
  · obtain ⟨⟨e, he, her⟩, _, _, _⟩ := hbr
    unfold Broker.portfolioCash
    rw [find?_single he her.id]
    show Except.ok e.pf.cash = _
    rw [her.cash]
  · obtain ⟨⟨e, he, her⟩, _, _, _⟩ := hbr
    unfold pendingOf
    rw [find?_single he her.id]
    exact her.queue

/-- **C08 (refinement).** For any market data `px` with positive prices, any target weights `w`, any rebalance
schedule, fee model, sizing mode and universe: if the session runs to the end without error, the reference
backtest is defined and the session's fills, equity curve, allocation dates, final cash, final holdings and
pending orders are exactly the reference's.

Hypotheses beyond "the run finishes without error":
* `hnosig`  — a fixed-weight strategy has no signals collection;
* `hpos`    — prices are positive;
* `hstart`  — documented usage: the start stamp's time of day is not after 14:30 (the first market open is not
              before the broker's start clock);
* `hquoted` — every asset that can ever be held (a universe asset or an asset with a target weight) has a price
              at every market open and close of the range.  The model leaves a held asset without a quote
              unmarked (stale price) while the reference's equity is undefined there, so the claim is false
              without it (see the report). -/
theorem C08_refines (cfg : SessionCfg α) (w : List (String × α)) (px : Px α)
    (hnosig : cfg.signalSpecs = none)
    (hpos : ∀ t a p, px t a = some p → 0 < p)
    (hstart : todOf cfg.start ≤ OPEN)
    (hquoted : ∀ d ∈ bdayRange cfg.start cfg.end_, ∀ a, ((∃ t, a ∈ cfg.uni.assets t) ∨ a ∈ w.map (·.1)) →
        (px (d * 86400 + OPEN) a).isSome ∧ (px (d * 86400 + CLOSE) a).isSome)
    (s : Session α) (hrun : Session.run cfg (fixedAlpha w) px = .ok (s, none)) :
    ∃ r, referenceRun cfg w px = some r ∧
      s.fills = r.fills ∧ s.equity = r.equity ∧ s.allocations.map (·.1) = r.allocDates ∧
      s.broker.portfolioCash PORTFOLIO_ID = .ok r.cash ∧ heldOf s.broker = r.hold ∧
      pendingOf s.broker = r.pending := by
  unfold Session.run at hrun
  cases hinit : Session.init cfg with
  | error e => rw [hinit] at hrun; simp [bind, Except.bind] at hrun
  | ok tr =>
    obtain ⟨s0, events, sched⟩ := tr
    rw [hinit] at hrun
    simp only [bind, Except.bind, pure, Except.pure, Except.ok.injEq] at hrun
    obtain ⟨hsr0, hev, hsc⟩ := init_sim cfg hnosig s0 events sched hinit
    unfold simEvents at hev
    split at hev
    · cases hev
    · simp only [Except.ok.injEq] at hev
      subst hev
      have hmem : ∀ d ∈ bdayRange cfg.start cfg.end_, weekday d ≤ 4 ∧ cfg.start ≤ d * 86400 + OPEN := by
        intro d hd
        rw [Cal.bdayRange_eq, Cal.mem_filter_daysFrom] at hd
        obtain ⟨h1, _, h3⟩ := hd
        refine ⟨by simpa [isBDay] using h3, ?_⟩
        unfold dayOf at h1
        unfold todOf at hstart
        omega
      have hpw : (bdayRange cfg.start cfg.end_).Pairwise (· < ·) := by
        rw [Cal.bdayRange_eq]; exact Cal.filter_daysFrom_pairwise _ _ _
      obtain ⟨r, t', hdays, hsr, _⟩ :=
        days_sim cfg w px hpos sched (fun a => (∃ t, a ∈ cfg.uni.assets t) ∨ a ∈ w.map (·.1))
          (fun t a h => Or.inl ⟨t, h⟩) (fun a h => Or.inr h)
          (bdayRange cfg.start cfg.end_) s0 { cash := cfg.initialCash } cfg.start hsr0
          ⟨(by intro k hk; cases hk), (by intro k hk; cases hk)⟩ hpw hmem hquoted s hrun
      refine ⟨r, ?_, observables_of_SR cfg s r t' hsr⟩
      unfold referenceRun
      rw [hsc]
      exact hdays

/-- **C08 in the form of the property's plan**: static universe `l`, the documented usage conditions on the date
range (`start ≤ end`, end time of day not before the start's, start time of day 00:00–14:30); the business
days are then exactly the Monday–Friday dates `d` with `dayOf start ≤ d ≤ dayOf end`, and `hquoted` asks a
price for every universe/weighted asset at the open and close of each of them. -/
theorem C08_refines_static (cfg : SessionCfg α) (w : List (String × α)) (px : Px α)
    (hstatic : ∃ l, cfg.uni = .static l) (hnosig : cfg.signalSpecs = none)
    (hpos : ∀ t a p, px t a = some p → 0 < p)
    (hrange : cfg.start ≤ cfg.end_ ∧ todOf cfg.start ≤ todOf cfg.end_ ∧ todOf cfg.start ≤ OPEN)
    (hquoted : ∀ d, dayOf cfg.start ≤ d → d ≤ dayOf cfg.end_ → weekday d ≤ 4 →
        ∀ a, (a ∈ cfg.uni.assets 0 ∨ a ∈ w.map (·.1)) →
          (px (d * 86400 + OPEN) a).isSome ∧ (px (d * 86400 + CLOSE) a).isSome)
    (s : Session α) (hrun : Session.run cfg (fixedAlpha w) px = .ok (s, none)) :
    ∃ r, referenceRun cfg w px = some r ∧
      s.fills = r.fills ∧ s.equity = r.equity ∧ s.allocations.map (·.1) = r.allocDates ∧
      s.broker.portfolioCash PORTFOLIO_ID = .ok r.cash ∧ heldOf s.broker = r.hold ∧
      pendingOf s.broker = r.pending := by
  obtain ⟨l, hl⟩ := hstatic
  refine C08_refines cfg w px hnosig hpos hrange.2.2 ?_ s hrun
  intro d hd a ha
  obtain ⟨h1, h2, h3⟩ := (C12.C12_mem_bdayRange cfg.start cfg.end_ d hrange.2.1).mp hd
  refine hquoted d h1 h2 h3 a ?_
  rcases ha with ⟨t, ht⟩ | ha
  · left
    rw [hl] at ht ⊢
    exact ht
  · exact Or.inr ha

/-! ## The per-event simulation lemmas (abstraction relation `Ref.SR cfg s st t`: one portfolio `PORTFOLIO_ID`,
broker clock `t`, cash / holdings (as lists) / queue / fills / equity / allocation dates equal to `st`'s) -/

/-- **C08_sim_init**: the constructed session represents `{ cash := initialCash }`. -/
theorem C08_sim_init (cfg : SessionCfg α) (hnosig : cfg.signalSpecs = none) (s0 : Session α)
    (events : List SimEvent) (sched : List Int) (h : Session.init cfg = .ok (s0, events, sched)) :
    SR cfg s0 { cash := cfg.initialCash } cfg.start ∧
    simEvents cfg.start cfg.end_ false false = .ok events ∧ scheduleOf cfg = .ok sched :=
  init_sim cfg hnosig s0 events sched h

/-- **C08_sim_update**: one `broker.update(dt)`; closed exchange: prices only; open exchange: the queue fills
at the prices of `t`, sells first, exactly as `refFillAll`. -/
theorem C08_sim_update (fee : FeeModel α) (px : Px α) (hpos : ∀ t a p, px t a = some p → 0 < p)
    (b : Broker α) (st : RefState α) (t0 t : Int)
    (hbr : BR fee b st t0) (ht : t0 ≤ t) (hq : ∀ x ∈ st.hold, (px t x.1).isSome)
    (hret : (b.update t (quotesAt px t)).2 = none) :
    (isOpen t = false →
      BR fee (b.update t (quotesAt px t)).1 st t ∧ Marked px t (b.update t (quotesAt px t)).1) ∧
    (isOpen t = true →
      ∃ st', refFillAll fee px t { st with pending := [] }
            (sellsFirst (fun (o : String × Int) => decide (o.2 < 0)) st.pending) = some st' ∧
        BR fee (b.update t (quotesAt px t)).1 st' t ∧ Marked px t (b.update t (quotesAt px t)).1 ∧
        st'.pending = [] ∧ st'.equity = st.equity ∧ st'.allocDates = st.allocDates ∧
        (∀ k ∈ st'.hold.map (·.1), k ∈ st.hold.map (·.1) ∨ k ∈ st.pending.map (·.1))) :=
  update_sim fee px hpos b st t0 t hbr ht hq hret

/-- **C08_sim_open**: the market-open event = stages 1–2 of `refDay` (pending orders fill sells first at the
open prices; a rebalance scheduled at the open instant sizes from the open prices and fills at once). -/
theorem C08_sim_open (cfg : SessionCfg α) (w : List (String × α)) (px : Px α)
    (hpos : ∀ t a p, px t a = some p → 0 < p) (sched : List Int) (A : String → Prop)
    (hA : ∀ t a, a ∈ cfg.uni.assets t → A a) (hAw : ∀ a ∈ w.map (·.1), A a)
    (s : Session α) (st : RefState α) (t0 t : Int) (hsr : SR cfg s st t0) (ht : t0 ≤ t)
    (ho : isOpen t = true) (hq : ∀ a, A a → (px t a).isSome) (has : Assets A st)
    (hret : (s.step cfg (fixedAlpha w) px sched ⟨t, .marketOpen⟩).2 = none) :
    ∃ st1 st2, refFillAll cfg.fee px t { st with pending := [] }
          (sellsFirst (fun (o : String × Int) => decide (o.2 < 0)) st.pending) = some st1 ∧
      refOpenReb cfg w px sched t st1 = some st2 ∧
      SR cfg (s.step cfg (fixedAlpha w) px sched ⟨t, .marketOpen⟩).1 st2 t ∧
      Marked px t (s.step cfg (fixedAlpha w) px sched ⟨t, .marketOpen⟩).1.broker ∧
      st2.pending = [] ∧ Assets A st2 :=
  step_open cfg w px hpos sched A hA hAw s st t0 t hsr ht ho hq has hret

/-- **C08_sim_close**: the market-close event = stages 3–4 of `refDay` (a scheduled rebalance sizes from equity
and closing prices and queues target − holdings; then the equity record). -/
theorem C08_sim_close (cfg : SessionCfg α) (w : List (String × α)) (px : Px α)
    (hpos : ∀ t a p, px t a = some p → 0 < p) (sched : List Int) (A : String → Prop)
    (hA : ∀ t a, a ∈ cfg.uni.assets t → A a) (hAw : ∀ a ∈ w.map (·.1), A a)
    (s : Session α) (st : RefState α) (t0 t : Int) (hsr : SR cfg s st t0) (ht : t0 ≤ t)
    (ho : isOpen t = false) (hq : ∀ a, A a → (px t a).isSome) (has : Assets A st)
    (hret : (s.step cfg (fixedAlpha w) px sched ⟨t, .marketClose⟩).2 = none) :
    ∃ st3 st4, refCloseReb cfg w px sched t st = some st3 ∧ refCloseEq cfg px t st3 = some st4 ∧
      SR cfg (s.step cfg (fixedAlpha w) px sched ⟨t, .marketClose⟩).1 st4 t ∧ Assets A st4 :=
  step_close cfg w px hpos sched A hA hAw s st t0 t hsr ht ho hq has hret

/-- **C08_sim_day**: the two events of business day `d` = `refDay … d`. -/
theorem C08_sim_day (cfg : SessionCfg α) (w : List (String × α)) (px : Px α)
    (hpos : ∀ t a p, px t a = some p → 0 < p) (sched : List Int) (A : String → Prop)
    (hA : ∀ t a, a ∈ cfg.uni.assets t → A a) (hAw : ∀ a ∈ w.map (·.1), A a)
    (s : Session α) (st : RefState α) (t0 d : Int) (hsr : SR cfg s st t0) (ht : t0 ≤ d * 86400 + OPEN)
    (hd : weekday d ≤ 4)
    (hq : ∀ a, A a → (px (d * 86400 + OPEN) a).isSome ∧ (px (d * 86400 + CLOSE) a).isSome) (has : Assets A st)
    (s1 s2 : Session α)
    (h1 : s.step cfg (fixedAlpha w) px sched ⟨d * 86400 + OPEN, .marketOpen⟩ = (s1, none))
    (h2 : s1.step cfg (fixedAlpha w) px sched ⟨d * 86400 + CLOSE, .marketClose⟩ = (s2, none)) :
    ∃ st', refDay cfg w px sched st d = some st' ∧ SR cfg s2 st' (d * 86400 + CLOSE) ∧ Assets A st' :=
  day_sim cfg w px hpos sched A hA hAw s st t0 d hsr ht hd hq has s1 s2 h1 h2

end

/-! ## Non-vacuity at `α := ℚ` (`fieldNumOps ℚ`)

Monday 2021-01-04 00:00 … Wednesday 2021-01-06 00:00 (three business days), universe `["A"]`, weight `A ↦ 1`,
weekly rebalance on Tuesday, long-only without cash buffer, no fees, initial cash 1000; `A` trades at 9 at every
open and at 10 otherwise.  Tuesday's close sizes `⌊1000 / 10⌋ = 100` shares; they fill at Wednesday's open at 9
(cash `1000 − 900 = 100`); Wednesday's equity is `100 + 100 × 10 = 1100`. -/

section nonvacuity

noncomputable local instance (priority := high) ratOps08 : NumOps ℚ := fieldNumOps ℚ
local instance (priority := high) ratLawful08 : LawfulNumOps ℚ := fieldNumOps_lawful ℚ

def exPx08 : Px ℚ := fun t a => if a = "A" then (if t % 86400 = 52200 then some 9 else some 10) else none

noncomputable def exCfg08 : SessionCfg ℚ :=
  { start := 18631 * 86400, end_ := 18633 * 86400, rebalance := .weekly "TUE", longOnly := true, param := 0,
    fee := .zero, initialCash := 1000, uni := .static ["A"], nan := 0 }

def exW08 : List (String × ℚ) := [("A", 1)]

/-- "finished without error" as a Boolean -/
def okNoErr {β γ : Type} : Except Err (β × Option γ) → Bool
  | .ok (_, none) => true
  | _ => false

theorem okNoErr_iff {β γ : Type} (x : Except Err (β × Option γ)) : okNoErr x = true ↔ ∃ s, x = .ok (s, none) := by
  constructor
  · intro h
    match x, h with
    | .ok (s, none), _ => exact ⟨s, rfl⟩
  · rintro ⟨s, rfl⟩; rfl

/-- the example session runs to the end without error (kernel evaluation of the model) -/
theorem exRun08 : ∃ s, Session.run exCfg08 (fixedAlpha exW08) exPx08 = .ok (s, none) :=
  (okNoErr_iff _).mp (by decide +kernel)

theorem exPx08_pos : ∀ t a p, exPx08 t a = some p → 0 < p := by
  intro t a p h
  unfold exPx08 at h
  split at h
  · split at h <;> (cases h; norm_num)
  · cases h

theorem exPx08_quoted (t : Int) : (exPx08 t "A").isSome = true := by
  unfold exPx08
  simp only [if_true]
  split <;> rfl

theorem exQuoted08 : ∀ d ∈ bdayRange exCfg08.start exCfg08.end_, ∀ a,
    ((∃ t, a ∈ exCfg08.uni.assets t) ∨ a ∈ exW08.map (·.1)) →
      (exPx08 (d * 86400 + OPEN) a).isSome ∧ (exPx08 (d * 86400 + CLOSE) a).isSome := by
  intro d _ a ha
  have : a = "A" := by
    rcases ha with ⟨t, ht⟩ | ha
    · simpa [exCfg08, UniverseSpec.assets, staticAssets] using ht
    · simpa [exW08] using ha
  subst this
  exact ⟨exPx08_quoted _, exPx08_quoted _⟩

/-- all hypotheses of `C08_refines` hold on the example, and its conclusion, read off the reference
(evaluated by the kernel): one fill of 100 `A` at 9 on Wednesday's open, final cash 100, holdings `A ↦ 100`,
nothing pending, equity 1000, 1000, 1100, one allocation record dated Tuesday's close. -/
example : ∃ s r, Session.run exCfg08 (fixedAlpha exW08) exPx08 = .ok (s, none) ∧
    referenceRun exCfg08 exW08 exPx08 = some r ∧
    s.fills = r.fills ∧ s.equity = r.equity ∧ s.allocations.map (·.1) = r.allocDates ∧
    s.broker.portfolioCash PORTFOLIO_ID = .ok r.cash ∧ heldOf s.broker = r.hold ∧ pendingOf s.broker = r.pending ∧
    r.cash = 100 ∧ r.hold = [("A", 100)] ∧ r.pending = [] ∧
    r.equity = [(18631 * 86400 + 75600, 1000), (18632 * 86400 + 75600, 1000), (18633 * 86400 + 75600, 1100)] ∧
    r.allocDates = [18632 * 86400 + 75600] ∧
    r.fills.map (fun f => (f.time, f.asset, f.qty, f.price, f.commission)) = [(18633 * 86400 + 52200, "A", 100, 9, 0)] := by
  obtain ⟨s, hs⟩ := exRun08
  obtain ⟨r, hr, h1, h2, h3, h4, h5, h6⟩ :=
    C08_refines exCfg08 exW08 exPx08 rfl exPx08_pos (by decide) exQuoted08 s hs
  have get : ∀ {β : Type} (f : RefState ℚ → β) (v : β),
      (referenceRun exCfg08 exW08 exPx08).map f = some v → f r = v := by
    intro β f v h; rw [hr] at h; simpa using h
  have v1 := get (·.cash) 100 (by decide +kernel)
  have v2 := get (·.hold) [("A", 100)] (by decide +kernel)
  have v3 := get (·.pending) [] (by decide +kernel)
  have v4 := get (·.equity) [(18631 * 86400 + 75600, 1000), (18632 * 86400 + 75600, 1000),
    (18633 * 86400 + 75600, 1100)] (by decide +kernel)
  have v5 := get (·.allocDates) [18632 * 86400 + 75600] (by decide +kernel)
  have v6 := get (fun r => r.fills.map (fun f => (f.time, f.asset, f.qty, f.price, f.commission)))
    [(18633 * 86400 + 52200, "A", 100, 9, 0)] (by decide +kernel)
  exact ⟨s, r, hs, hr, h1, h2, h3, h4, h5, h6, v1, v2, v3, v4, v5, v6⟩

/-- the hypotheses of the plan-form theorem hold as well (static universe, documented date range) -/
example : (∃ l, exCfg08.uni = .static l) ∧
    (exCfg08.start ≤ exCfg08.end_ ∧ todOf exCfg08.start ≤ todOf exCfg08.end_ ∧ todOf exCfg08.start ≤ OPEN) :=
  ⟨⟨["A"], rfl⟩, by decide, by decide, by decide⟩

/-! ### the rebalance-at-the-open branch (buy and hold started at 14:30) -/

/-- Monday 14:30 … Tuesday 14:30, buy-and-hold: the schedule is the first open itself -/
noncomputable def exCfg08b : SessionCfg ℚ :=
  { exCfg08 with start := 18631 * 86400 + 52200, end_ := 18632 * 86400 + 52200, rebalance := .buyAndHold }

theorem exRun08b : ∃ s, Session.run exCfg08b (fixedAlpha exW08) exPx08 = .ok (s, none) :=
  (okNoErr_iff _).mp (by decide +kernel)

/-- sized at Monday's open from the open price 9 (`⌊1000 / 9⌋ = 111`) and filled at that very instant -/
example : ∃ s r, Session.run exCfg08b (fixedAlpha exW08) exPx08 = .ok (s, none) ∧
    referenceRun exCfg08b exW08 exPx08 = some r ∧ s.fills = r.fills ∧ s.equity = r.equity ∧
    heldOf s.broker = r.hold ∧ r.hold = [("A", 111)] ∧ r.cash = 1 ∧ r.allocDates = [18631 * 86400 + 52200] ∧
    r.fills.map (fun f => (f.time, f.asset, f.qty, f.price)) = [(18631 * 86400 + 52200, "A", 111, 9)] ∧
    r.equity = [(18631 * 86400 + 75600, 1111), (18632 * 86400 + 75600, 1111)] := by
  obtain ⟨s, hs⟩ := exRun08b
  have hq : ∀ d ∈ bdayRange exCfg08b.start exCfg08b.end_, ∀ a,
      ((∃ t, a ∈ exCfg08b.uni.assets t) ∨ a ∈ exW08.map (·.1)) →
        (exPx08 (d * 86400 + OPEN) a).isSome ∧ (exPx08 (d * 86400 + CLOSE) a).isSome := by
    intro d _ a ha
    have : a = "A" := by
      rcases ha with ⟨t, ht⟩ | ha
      · simpa [exCfg08b, exCfg08, UniverseSpec.assets, staticAssets] using ht
      · simpa [exW08] using ha
    subst this
    exact ⟨exPx08_quoted _, exPx08_quoted _⟩
  obtain ⟨r, hr, h1, h2, _, _, h5, _⟩ :=
    C08_refines exCfg08b exW08 exPx08 rfl exPx08_pos (by decide) hq s hs
  have get : ∀ {β : Type} (f : RefState ℚ → β) (v : β),
      (referenceRun exCfg08b exW08 exPx08).map f = some v → f r = v := by
    intro β f v h; rw [hr] at h; simpa using h
  exact ⟨s, r, hs, hr, h1, h2, h5,
    get (·.hold) [("A", 111)] (by decide +kernel), get (·.cash) 1 (by decide +kernel),
    get (·.allocDates) [18631 * 86400 + 52200] (by decide +kernel),
    get (fun r => r.fills.map (fun f => (f.time, f.asset, f.qty, f.price))) [(18631 * 86400 + 52200, "A", 111, 9)]
      (by decide +kernel),
    get (·.equity) [(18631 * 86400 + 75600, 1111), (18632 * 86400 + 75600, 1111)] (by decide +kernel)⟩

/-! ### `hquoted` cannot be dropped

Same strategy rebalanced on Monday, but the price of `A` is missing at Tuesday's close (and only there).
The session still finishes without error — the model leaves the held, unquoted asset unmarked and records an
equity from the stale price — while the reference backtest is undefined.  All other hypotheses of `C08_refines`
hold. -/

def exPx08c : Px ℚ := fun t a =>
  if a = "A" then (if t = 18632 * 86400 + 75600 then none else if t % 86400 = 52200 then some 9 else some 10) else none

noncomputable def exCfg08c : SessionCfg ℚ :=
  { exCfg08 with end_ := 18632 * 86400, rebalance := .weekly "MON" }

example : (∃ s, Session.run exCfg08c (fixedAlpha exW08) exPx08c = .ok (s, none)) ∧
    referenceRun exCfg08c exW08 exPx08c = none ∧
    exCfg08c.signalSpecs = none ∧ (∀ t a p, exPx08c t a = some p → 0 < p) ∧ todOf exCfg08c.start ≤ OPEN := by
  refine ⟨(okNoErr_iff _).mp (by decide +kernel), ?_, rfl, ?_, by decide⟩
  · have : (referenceRun exCfg08c exW08 exPx08c).isNone = true := by decide +kernel
    exact Option.isNone_iff_eq_none.mp this
  · intro t a p h
    unfold exPx08c at h
    split at h
    · split at h
      · cases h
      · split at h <;> (cases h; norm_num)
    · cases h

end nonvacuity
end Qs
