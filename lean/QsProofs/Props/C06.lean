import QsProofs.Lemmas.Market
import Mathlib.Data.Rat.Floor

/-!
# C06 — Market data is point-in-time: a price query never sees a later bar

All theorems are about the real model (`Qs.barLookup`, `Qs.bidAskFrame`, `Qs.expandBar`, `Qs.ffill`,
`Qs.padLookup`, `Qs.DataSource.getBid`, `Qs.handlerBid`, `Qs.handlerBidAsk`, `Qs.handlerMid`, `Qs.cachedGet`).

The pipeline theorems hold for **every** value type `α` carrying the notation classes (so for the field
carrier, for `Rat` and for `Float`): the only arithmetic is the adjusted open `(adj / close) * open`, which is
kept opaque — the theorems say *which row's value* is returned.  `IsLatest rows t r` / `NoneObserved rows t`
(`QsProofs/Lemmas/Market.lean`) are the specification: `r` is the latest row with a non-missing value at or
before `t` / no row at or before `t` has a value.  They are stated over `bars.flatMap (expandBar adjust)`,
the expanded rows **in file order** (no sort).

Domain: bar files with pairwise distinct dates (`bars.Pairwise (fun a b => a.day ≠ b.day)`), any number of
rows, gaps, any row order, any missing cells, adjusted or not; every query instant `t : Int`.
-/

set_option linter.unusedSectionVars false

namespace Qs
open NumOps Num

section
variable {α : Type} [Add α] [Sub α] [Mul α] [Div α] [Neg α] [NumOps α]

/-- **C06_char.** With `rows` the expanded open/close rows of the file (any order): the answer is the value of
the latest observed row at or before `t`; it is `none` (NaN) when nothing is observed at or before `t`; and
exactly one of the two cases applies. -/
theorem C06_char (adjust : Bool) (bars : List (Bar α)) (t : Int)
    (hd : bars.Pairwise (fun a b => a.day ≠ b.day)) :
    let rows := bars.flatMap (expandBar adjust)
    (∀ r, IsLatest rows t r → barLookup adjust bars t = r.val) ∧
    (NoneObserved rows t → barLookup adjust bars t = none) ∧
    ((∃ r, IsLatest rows t r) ∨ NoneObserved rows t) ∧
    ¬ ((∃ r, IsLatest rows t r) ∧ NoneObserved rows t) :=
  ⟨fun r h => barLookup_latest adjust bars t hd r h,
   fun h => barLookup_noneObserved adjust bars t hd h,
   latest_or_none _ t,
   fun ⟨⟨_, h⟩, hn⟩ => not_latest_and_none h hn⟩

/-- **C06_char**, as equivalences: a value `v` is returned iff the latest observed row at or before `t` carries
`v`; NaN is returned iff no row at or before `t` is observed. -/
theorem C06_char_iff (adjust : Bool) (bars : List (Bar α)) (t : Int)
    (hd : bars.Pairwise (fun a b => a.day ≠ b.day)) :
    (∀ v, barLookup adjust bars t = some v ↔
        ∃ r, IsLatest (bars.flatMap (expandBar adjust)) t r ∧ r.val = some v) ∧
    (barLookup adjust bars t = none ↔ NoneObserved (bars.flatMap (expandBar adjust)) t) := by
  obtain ⟨h1, h2, h3, _⟩ := C06_char adjust bars t hd
  have hsome : ∀ r, IsLatest (bars.flatMap (expandBar adjust)) t r → ∃ v, r.val = some v :=
    fun r hr => Option.isSome_iff_exists.mp hr.2.2.1
  constructor
  · intro v
    constructor
    · intro hv
      rcases h3 with ⟨r, hr⟩ | hn
      · exact ⟨r, hr, by rw [← h1 r hr]; exact hv⟩
      · rw [h2 hn] at hv; cases hv
    · rintro ⟨r, hr, hv⟩
      rw [h1 r hr, hv]
  · constructor
    · intro hv
      rcases h3 with ⟨r, hr⟩ | hn
      · obtain ⟨v, hv'⟩ := hsome r hr
        rw [h1 r hr, hv'] at hv; cases hv
      · exact hn
    · exact h2

/-- **C06_char_dense**, core form: let `b` be the bar with the greatest day among those opened at or before `t`.
If the row of `b` that is consulted (its open row before its 21:00 close, else its close row) is present, the
answer is that row's value; `o`, `c` are the two values `expandBar adjust b` produces. Missing cells elsewhere in
the file are irrelevant. -/
theorem C06_char_at_bar (adjust : Bool) (bars : List (Bar α)) (t : Int)
    (hd : bars.Pairwise (fun a b => a.day ≠ b.day)) (b : Bar α) (hb : b ∈ bars)
    (hbt : b.day * 86400 + OPEN ≤ t)
    (hmax : ∀ b' ∈ bars, b'.day * 86400 + OPEN ≤ t → b'.day ≤ b.day)
    (o c : Option α)
    (he : expandBar adjust b = [⟨b.day * 86400 + OPEN, o⟩, ⟨b.day * 86400 + CLOSE, c⟩])
    (hobs : (if t < b.day * 86400 + CLOSE then o else c).isSome) :
    barLookup adjust bars t = if t < b.day * 86400 + CLOSE then o else c :=
  barLookup_at_bar adjust bars t hd b hb hbt hmax o c he hobs

/-- **C06_char_dense**, unadjusted: the raw open before the close time, the raw close from then on. -/
theorem C06_char_dense_raw (bars : List (Bar α)) (t : Int)
    (hd : bars.Pairwise (fun a b => a.day ≠ b.day)) (b : Bar α) (hb : b ∈ bars)
    (hbt : b.day * 86400 + OPEN ≤ t)
    (hmax : ∀ b' ∈ bars, b'.day * 86400 + OPEN ≤ t → b'.day ≤ b.day)
    (o c : α) (ho : b.open_ = some o) (hc : b.close = some c) :
    barLookup false bars t = some (if t < b.day * 86400 + CLOSE then o else c) := by
  rw [barLookup_at_bar false bars t hd b hb hbt hmax (some o) (some c) (by rw [expandBar_false, ho, hc])
    (by split <;> rfl)]
  split <;> rfl

/-- **C06_char_dense**, adjusted: `(adj / close) * open` before the close time, `adj` from then on. -/
theorem C06_char_dense_adj (bars : List (Bar α)) (t : Int)
    (hd : bars.Pairwise (fun a b => a.day ≠ b.day)) (b : Bar α) (hb : b ∈ bars)
    (hbt : b.day * 86400 + OPEN ≤ t)
    (hmax : ∀ b' ∈ bars, b'.day * 86400 + OPEN ≤ t → b'.day ≤ b.day)
    (o c a : α) (ho : b.open_ = some o) (hc : b.close = some c) (ha : b.adj = some a) :
    barLookup true bars t = some (if t < b.day * 86400 + CLOSE then (a / c) * o else a) := by
  rw [barLookup_at_bar true bars t hd b hb hbt hmax (some ((a / c) * o)) (some a)
    (by rw [expandBar_true, ho, hc, ha]; rfl) (by split <;> rfl)]
  split <;> rfl

/-- **C06_char_dense** (the English sentence when nothing is missing). If every expanded row of the file has a
value and `b` is the bar with the greatest day among those with `b.day*86400+OPEN ≤ t`, then the cells of `b`
that are used are present and the answer is the open value of `b` when `t` precedes its close time, otherwise
its close value — raw `open`/`close` when not adjusting, `(adj/close)*open` / `adj` when adjusting. -/
theorem C06_char_dense (adjust : Bool) (bars : List (Bar α)) (t : Int)
    (hd : bars.Pairwise (fun a b => a.day ≠ b.day))
    (hall : ∀ r ∈ bars.flatMap (expandBar adjust), r.val.isSome)
    (b : Bar α) (hb : b ∈ bars) (hbt : b.day * 86400 + OPEN ≤ t)
    (hmax : ∀ b' ∈ bars, b'.day * 86400 + OPEN ≤ t → b'.day ≤ b.day) :
    ∃ o c : α,
      expandBar adjust b = [⟨b.day * 86400 + OPEN, some o⟩, ⟨b.day * 86400 + CLOSE, some c⟩] ∧
      (adjust = false → b.open_ = some o ∧ b.close = some c) ∧
      (adjust = true → ∃ op cl, b.open_ = some op ∧ b.close = some cl ∧ b.adj = some c ∧ o = (c / cl) * op) ∧
      barLookup adjust bars t = some (if t < b.day * 86400 + CLOSE then o else c) := by
  have hrow : ∀ r ∈ expandBar adjust b, r.val.isSome :=
    fun r hr => hall r (List.mem_flatMap.mpr ⟨b, hb, hr⟩)
  cases adjust with
  | false =>
    rw [expandBar_false] at hrow
    obtain ⟨o, ho⟩ := Option.isSome_iff_exists.mp (hrow ⟨b.day * 86400 + OPEN, b.open_⟩ (by simp))
    obtain ⟨c, hc⟩ := Option.isSome_iff_exists.mp (hrow ⟨b.day * 86400 + CLOSE, b.close⟩ (by simp))
    simp only at ho hc
    refine ⟨o, c, by rw [expandBar_false, ho, hc], fun _ => ⟨ho, hc⟩, fun h => absurd h (by decide), ?_⟩
    exact C06_char_dense_raw bars t hd b hb hbt hmax o c ho hc
  | true =>
    rw [expandBar_true] at hrow
    have h1 := hrow ⟨_, _⟩ (List.mem_cons_self ..)
    obtain ⟨a, ha⟩ := Option.isSome_iff_exists.mp (hrow ⟨b.day * 86400 + CLOSE, b.adj⟩ (by simp))
    simp only at ha h1
    cases hc : b.close with
    | none => rw [ha, hc] at h1; simp at h1
    | some cl =>
      cases ho : b.open_ with
      | none => rw [ha, hc, ho] at h1; simp at h1
      | some op =>
        refine ⟨(a / cl) * op, a, by rw [expandBar_true, ho, hc, ha]; rfl, fun h => absurd h (by decide),
          fun _ => ⟨op, cl, rfl, rfl, ha, rfl⟩, ?_⟩
        exact C06_char_dense_adj bars t hd b hb hbt hmax op cl a ho hc ha

/-- **C06_none.** A query before the first bar's open gives NaN (no hypothesis on the file at all: this is the
behaviour after the repair of defect F2, where the *last* bar leaked). -/
theorem C06_none (adjust : Bool) (bars : List (Bar α)) (t : Int)
    (h : ∀ b ∈ bars, t < b.day * 86400 + OPEN) : barLookup adjust bars t = none :=
  barLookup_before adjust bars t h

/-- **C06_order.** The row order in the file is irrelevant. -/
theorem C06_order (adjust : Bool) (bars bars' : List (Bar α)) (t : Int)
    (hd : bars.Pairwise (fun a b => a.day ≠ b.day)) (hp : bars.Perm bars') :
    barLookup adjust bars t = barLookup adjust bars' t :=
  barLookup_bars_causal adjust bars bars' t hd
    (List.Perm.pairwise (R := fun a b => a.day ≠ b.day) hp hd (fun h => Ne.symm h))
    (fun b => by rw [hp.mem_iff])

/-- **C06_causal.** If two files have the same bars opened at or before `t`, they give the same answer at `t`,
whatever their later bars are. (Per bar, not per cell: the close/adj cells of a bar whose open is `≤ t` enter
its adjusted open.) -/
theorem C06_causal (adjust : Bool) (bars bars' : List (Bar α)) (t : Int)
    (hd : bars.Pairwise (fun a b => a.day ≠ b.day)) (hd' : bars'.Pairwise (fun a b => a.day ≠ b.day))
    (h : ∀ b, (b ∈ bars ∧ b.day * 86400 + OPEN ≤ t) ↔ (b ∈ bars' ∧ b.day * 86400 + OPEN ≤ t)) :
    barLookup adjust bars t = barLookup adjust bars' t :=
  barLookup_bars_causal adjust bars bars' t hd hd' h

/-- **C06_causal**, row form (also across adjustment flags): only the *set* of expanded rows dated at or before
`t` matters. -/
theorem C06_causal_rows (adjust adjust' : Bool) (bars bars' : List (Bar α)) (t : Int)
    (hd : bars.Pairwise (fun a b => a.day ≠ b.day)) (hd' : bars'.Pairwise (fun a b => a.day ≠ b.day))
    (h : ∀ r, (r ∈ bars.flatMap (expandBar adjust) ∧ r.time ≤ t) ↔
              (r ∈ bars'.flatMap (expandBar adjust') ∧ r.time ≤ t)) :
    barLookup adjust bars t = barLookup adjust' bars' t :=
  barLookup_rows_causal adjust adjust' bars bars' t hd hd' h

/-- **C06_causal**, the usual reading: appending or altering bars dated after `t` changes nothing. -/
theorem C06_causal_future (adjust : Bool) (bars later later' : List (Bar α)) (t : Int)
    (hd : (bars ++ later).Pairwise (fun a b => a.day ≠ b.day))
    (hd' : (bars ++ later').Pairwise (fun a b => a.day ≠ b.day))
    (hl : ∀ b ∈ later, t < b.day * 86400 + OPEN) (hl' : ∀ b ∈ later', t < b.day * 86400 + OPEN) :
    barLookup adjust (bars ++ later) t = barLookup adjust (bars ++ later') t := by
  apply C06_causal adjust _ _ t hd hd'
  intro b
  simp only [List.mem_append]
  constructor
  · rintro ⟨h | h, ht⟩
    · exact ⟨Or.inl h, ht⟩
    · have := hl b h; omega
  · rintro ⟨h | h, ht⟩
    · exact ⟨Or.inl h, ht⟩
    · have := hl' b h; omega

/-! ## The data handler -/

/-- **C06_handler** (source level). `get_bid` raises `KeyError` exactly for an asset the source does not list;
otherwise it is the point-in-time lookup in that asset's file. -/
theorem C06_handler_source (ds : DataSource α) (t : Int) (a : String) :
    (ds.assets.lookup a = none ∧ ds.getBid t a = .error .key) ∨
    (∃ bars, ds.assets.lookup a = some bars ∧ ds.getBid t a = .ok (barLookup ds.adjust bars t)) :=
  getBid_cases ds t a

/-- **C06_handler** (ask = bid). -/
theorem C06_handler_bidask (sources : List (DataSource α)) (t : Int) (a : String) :
    handlerBidAsk sources t a = (handlerBid sources t a).map (fun b => (b, b)) := rfl

/-- **C06_handler** (mid, any carrier). -/
theorem C06_handler_mid (sources : List (DataSource α)) (t : Int) (a : String) :
    handlerMid sources t a = (handlerBid sources t a).map (fun b => (b + b) / NumOps.ofInt 2) := by
  unfold handlerMid handlerBidAsk
  cases handlerBid sources t a <;> rfl

/-- **C06_handler** (bid). `handlerBid` is the value of the first source, in list order, that lists the asset
and has an observation: every earlier source raises `KeyError` or returns NaN. -/
theorem C06_handler_bid_some (sources : List (DataSource α)) (t : Int) (a : String) (v : α) :
    handlerBid sources t a = some v ↔
      ∃ pre ds post, sources = pre ++ ds :: post ∧
        (∀ d ∈ pre, d.getBid t a = .error .key ∨ d.getBid t a = .ok none) ∧
        ds.getBid t a = .ok (some v) :=
  handlerBid_some_iff sources t a v

/-- **C06_handler** (bid, in terms of the files). -/
theorem C06_handler_bid_some_bars (sources : List (DataSource α)) (t : Int) (a : String) (v : α) :
    handlerBid sources t a = some v ↔
      ∃ pre ds post bars, sources = pre ++ ds :: post ∧
        (∀ d ∈ pre, d.assets.lookup a = none ∨
            ∃ bs, d.assets.lookup a = some bs ∧ barLookup d.adjust bs t = none) ∧
        ds.assets.lookup a = some bars ∧ barLookup ds.adjust bars t = some v := by
  rw [handlerBid_some_iff]
  have hskip : ∀ d : DataSource α, (d.getBid t a = .error .key ∨ d.getBid t a = .ok none) ↔
      (d.assets.lookup a = none ∨ ∃ bs, d.assets.lookup a = some bs ∧ barLookup d.adjust bs t = none) := by
    intro d
    rcases getBid_cases d t a with ⟨h1, h2⟩ | ⟨bs, h1, h2⟩
    · rw [h1, h2]; simp
    · rw [h1, h2]; simp
  have hhit : ∀ d : DataSource α, d.getBid t a = .ok (some v) ↔
      ∃ bars, d.assets.lookup a = some bars ∧ barLookup d.adjust bars t = some v := by
    intro d
    rcases getBid_cases d t a with ⟨h1, h2⟩ | ⟨bs, h1, h2⟩
    · rw [h1, h2]; simp
    · rw [h1, h2]; simp
  constructor
  · rintro ⟨pre, ds, post, h1, h2, h3⟩
    obtain ⟨bars, hb1, hb2⟩ := (hhit ds).mp h3
    exact ⟨pre, ds, post, bars, h1, fun d hd => (hskip d).mp (h2 d hd), hb1, hb2⟩
  · rintro ⟨pre, ds, post, bars, h1, h2, h3, h4⟩
    exact ⟨pre, ds, post, h1, fun d hd => (hskip d).mpr (h2 d hd), (hhit ds).mpr ⟨bars, h3, h4⟩⟩

/-- **C06_handler** (bid is NaN iff every source is unknown or unobserved). -/
theorem C06_handler_bid_none (sources : List (DataSource α)) (t : Int) (a : String) :
    handlerBid sources t a = none ↔
      ∀ d ∈ sources, d.getBid t a = .error .key ∨ d.getBid t a = .ok none :=
  handlerBid_none_iff sources t a

/-- **C06_handler**: a source that does not list the asset raises `KeyError` and is skipped. -/
theorem C06_handler_skip_unknown (ds : DataSource α) (rest : List (DataSource α)) (t : Int) (a : String)
    (h : ds.assets.lookup a = none) :
    ds.getBid t a = .error .key ∧ handlerBid (ds :: rest) t a = handlerBid rest t a := by
  have hk : ds.getBid t a = .error .key := by unfold DataSource.getBid; rw [h]
  refine ⟨hk, ?_⟩
  rw [handlerBid_cons, (srcVal_eq_none ds t a).mpr (Or.inl hk)]
  rfl

/-- **C06_handler**: a source whose file has no observation at or before `t` is skipped as well. -/
theorem C06_handler_skip_nan (ds : DataSource α) (rest : List (DataSource α)) (t : Int) (a : String)
    (bars : List (Bar α)) (h : ds.assets.lookup a = some bars) (hn : barLookup ds.adjust bars t = none) :
    handlerBid (ds :: rest) t a = handlerBid rest t a := by
  have hk : ds.getBid t a = .ok none := by
    have : ds.getBid t a = .ok (barLookup ds.adjust bars t) := by unfold DataSource.getBid; rw [h]
    rw [this, hn]
  rw [handlerBid_cons, (srcVal_eq_none ds t a).mpr (Or.inr hk)]
  rfl

/-- **C06_handler**: the first source that lists the asset and has an observation answers — with its own
point-in-time lookup. -/
theorem C06_handler_first (ds : DataSource α) (rest : List (DataSource α)) (t : Int) (a : String)
    (bars : List (Bar α)) (v : α) (h : ds.assets.lookup a = some bars)
    (hv : barLookup ds.adjust bars t = some v) :
    handlerBid (ds :: rest) t a = some v := by
  have hk : ds.getBid t a = .ok (some v) := by
    have : ds.getBid t a = .ok (barLookup ds.adjust bars t) := by unfold DataSource.getBid; rw [h]
    rw [this, hv]
  rw [handlerBid_cons, (srcVal_eq_some ds t a v).mpr hk]
  rfl

/-- **C06_handler**, one source: the handler's bid *is* the file lookup. -/
theorem C06_handler_single (ds : DataSource α) (t : Int) (a : String) (bars : List (Bar α))
    (h : ds.assets.lookup a = some bars) :
    handlerBid [ds] t a = barLookup ds.adjust bars t := by
  cases hv : barLookup ds.adjust bars t with
  | none => rw [C06_handler_skip_nan ds [] t a bars h hv]; rfl
  | some v => exact C06_handler_first ds [] t a bars v h hv

end

section
variable {α : Type} [Field α] [LinearOrder α] [IsStrictOrderedRing α] [FloorRing α] [NumOps α] [LawfulNumOps α]

/-- **C06_handler** (mid = bid over the field carrier). -/
theorem C06_handler_mid_eq_bid (sources : List (DataSource α)) (t : Int) (a : String) :
    handlerMid sources t a = handlerBid sources t a := by
  rw [C06_handler_mid]
  cases handlerBid sources t a with
  | none => rfl
  | some b =>
    simp only [Option.map_some, ofInt_eq, Option.some.injEq]
    push_cast
    have h2 : (2 : α) ≠ 0 := two_ne_zero
    field_simp
    ring

/-- **C06_handler.** Bid, ask and mid agree: ask = bid, mid = `(bid + bid) / 2` = bid, and the bid is the
point-in-time lookup of the first source that lists the asset and has an observation. -/
theorem C06_handler (sources : List (DataSource α)) (t : Int) (a : String) :
    handlerBidAsk sources t a = (handlerBid sources t a).map (fun b => (b, b)) ∧
    handlerMid sources t a = (handlerBid sources t a).map (fun b => (b + b) / NumOps.ofInt 2) ∧
    handlerMid sources t a = handlerBid sources t a ∧
    (∀ v, handlerBid sources t a = some v ↔
      ∃ pre ds post bars, sources = pre ++ ds :: post ∧
        (∀ d ∈ pre, d.assets.lookup a = none ∨
            ∃ bs, d.assets.lookup a = some bs ∧ barLookup d.adjust bs t = none) ∧
        ds.assets.lookup a = some bars ∧ barLookup ds.adjust bars t = some v) ∧
    (handlerBid sources t a = none ↔
      ∀ d ∈ sources, d.getBid t a = .error .key ∨ d.getBid t a = .ok none) :=
  ⟨C06_handler_bidask sources t a, C06_handler_mid sources t a, C06_handler_mid_eq_bid sources t a,
   fun v => C06_handler_bid_some_bars sources t a v, C06_handler_bid_none sources t a⟩

end

/-! ## The memo table (`functools.lru_cache`) -/

section
variable {κ ν : Type} [BEq κ] [LawfulBEq κ]

/-- **C06_memo.** On a coherent table (every stored value is `f` of its key) the cached call returns `f k`, and
the new table is coherent. -/
theorem C06_memo (f : κ → ν) (tbl : List (κ × ν)) (k : κ) (hc : ∀ p ∈ tbl, p.2 = f p.1) :
    (cachedGet f tbl k).1 = f k ∧ ∀ p ∈ (cachedGet f tbl k).2, p.2 = f p.1 :=
  cachedGet_spec f tbl k hc

/-- **C06_memo** (eviction): any sub-table of a coherent table is coherent — whatever the eviction policy. -/
theorem C06_memo_evict (f : κ → ν) (tbl tbl' : List (κ × ν)) (hsub : ∀ p ∈ tbl', p ∈ tbl)
    (hc : ∀ p ∈ tbl, p.2 = f p.1) : ∀ p ∈ tbl', p.2 = f p.1 :=
  fun p hp => hc p (hsub p hp)

/-- **C06_memo** (eviction, `Sublist` form) and the empty table is coherent. -/
theorem C06_memo_sublist (f : κ → ν) (tbl tbl' : List (κ × ν)) (hsub : tbl'.Sublist tbl)
    (hc : ∀ p ∈ tbl, p.2 = f p.1) : ∀ p ∈ tbl', p.2 = f p.1 :=
  C06_memo_evict f tbl tbl' (fun _ hp => hsub.subset hp) hc

theorem C06_memo_empty (f : κ → ν) : ∀ p ∈ ([] : List (κ × ν)), p.2 = f p.1 :=
  fun _ hp => absurd hp (by simp)

/-- **C06_memo** (shape of the table): a hit leaves the table alone, a miss prepends `(k, f k)`. -/
theorem C06_memo_table (f : κ → ν) (tbl : List (κ × ν)) (k : κ) :
    (cachedGet f tbl k).2 = tbl ∨ (cachedGet f tbl k).2 = (k, f k) :: tbl := by
  unfold cachedGet
  cases tbl.lookup k with
  | some v => exact Or.inl rfl
  | none => exact Or.inr rfl

end

/-! ## Non-vacuity: a concrete shuffled file with a missing cell, at the driver's `Rat` carrier -/

section Examples

/-- three bars in shuffled order (days 12, 10, 11); the open of day 11 is missing -/
def exFile : List (Bar Rat) :=
  [⟨12, some 300, some 310, some 155⟩, ⟨10, some 100, some 110, some 55⟩, ⟨11, none, some 210, some 105⟩]

def exSorted : List (Bar Rat) :=
  [⟨10, some 100, some 110, some 55⟩, ⟨11, none, some 210, some 105⟩, ⟨12, some 300, some 310, some 155⟩]

/-- the hypothesis of every theorem holds for the file -/
theorem exFile_distinct : exFile.Pairwise (fun a b => a.day ≠ b.day) := by
  simp [exFile]

theorem exFile_sort : exFile.mergeSort barLe = exSorted := by
  simp [exFile, exSorted, List.mergeSort, List.MergeSort.Internal.splitInTwo, barLe]

/-- the unadjusted frame the model computes: day 11's missing open is filled with day 10's close -/
theorem exFrame_raw : bidAskFrame false exFile =
    [⟨10 * 86400 + 52200, some 100⟩, ⟨10 * 86400 + 75600, some 110⟩, ⟨11 * 86400 + 52200, some 110⟩,
     ⟨11 * 86400 + 75600, some 210⟩, ⟨12 * 86400 + 52200, some 300⟩, ⟨12 * 86400 + 75600, some 310⟩] := by
  unfold bidAskFrame; rw [exFile_sort]; rfl

/-- queries (unadjusted): NaN before the first open; the open from 14:30; the close from 21:00; the missing
open of day 11 answered by day 10's close; the last bar only from its own open -/
example : barLookup false exFile (10 * 86400 + 52199) = none := by
  unfold barLookup; rw [exFrame_raw]; decide
example : barLookup false exFile (10 * 86400 + 52200) = some 100 := by
  unfold barLookup; rw [exFrame_raw]; decide
example : barLookup false exFile (10 * 86400 + 75599) = some 100 := by
  unfold barLookup; rw [exFrame_raw]; decide
example : barLookup false exFile (10 * 86400 + 75600) = some 110 := by
  unfold barLookup; rw [exFrame_raw]; decide
example : barLookup false exFile (11 * 86400 + 60000) = some 110 := by
  unfold barLookup; rw [exFrame_raw]; decide
example : barLookup false exFile (11 * 86400 + 75600) = some 210 := by
  unfold barLookup; rw [exFrame_raw]; decide
example : barLookup false exFile (12 * 86400 + 52199) = some 210 := by
  unfold barLookup; rw [exFrame_raw]; decide
example : barLookup false exFile (99 * 86400) = some 310 := by
  unfold barLookup; rw [exFrame_raw]; decide

/-- the adjusted frame: opens scaled by adj/close (`55/110*100 = 50`, `155/310*300 = 150`), closes = adj -/
theorem exFrame_adj : bidAskFrame true exFile =
    [⟨10 * 86400 + 52200, some 50⟩, ⟨10 * 86400 + 75600, some 55⟩, ⟨11 * 86400 + 52200, some 55⟩,
     ⟨11 * 86400 + 75600, some 105⟩, ⟨12 * 86400 + 52200, some 150⟩, ⟨12 * 86400 + 75600, some 155⟩] := by
  unfold bidAskFrame; rw [exFile_sort]
  have h1 : (55 / 110 * 100 : Rat) = 50 := by norm_num
  have h2 : (155 / 310 * 300 : Rat) = 150 := by norm_num
  simp [exSorted, ffill, expandBar, List.flatMap, h1, h2, OPEN, CLOSE]

example : barLookup true exFile (12 * 86400 + 60000) = some 150 := by
  unfold barLookup; rw [exFrame_adj]; decide

/-- `C06_char` applies: at 16:40 of day 11 (open missing) the latest observed row is day 10's close … -/
example : IsLatest (exFile.flatMap (expandBar false)) (11 * 86400 + 60000) ⟨10 * 86400 + 75600, some 110⟩ := by
  refine ⟨by simp [exFile, expandBar, OPEN, CLOSE], by decide, rfl, ?_⟩
  intro r' hr' h1 h2
  simp only [exFile, expandBar, List.flatMap_cons, List.flatMap_nil, List.cons_append, List.nil_append,
    List.mem_cons, List.not_mem_nil, or_false, OPEN, CLOSE] at hr'
  rcases hr' with rfl | rfl | rfl | rfl | rfl | rfl <;> simp_all

/-- … so the theorem (not evaluation) gives the answer -/
example : barLookup false exFile (11 * 86400 + 60000) = some 110 := by
  refine (C06_char false exFile _ exFile_distinct).1 ⟨10 * 86400 + 75600, some 110⟩ ?_
  refine ⟨by simp [exFile, expandBar, OPEN, CLOSE], by decide, rfl, ?_⟩
  intro r' hr' h1 h2
  simp only [exFile, expandBar, List.flatMap_cons, List.flatMap_nil, List.cons_append, List.nil_append,
    List.mem_cons, List.not_mem_nil, or_false, OPEN, CLOSE] at hr'
  rcases hr' with rfl | rfl | rfl | rfl | rfl | rfl <;> simp_all

/-- `C06_none` applies before 14:30 of day 10 -/
example : barLookup true exFile (10 * 86400 + 52199) = none :=
  C06_none true exFile _ (by simp [exFile, OPEN])

/-- `C06_char_dense_adj` applies to the last bar (day 12) although day 11 has a missing cell -/
example : barLookup true exFile (12 * 86400 + 60000) = some (155 / 310 * 300) := by
  have := C06_char_dense_adj exFile (12 * 86400 + 60000) exFile_distinct ⟨12, some 300, some 310, some 155⟩
    (by simp [exFile]) (by decide) (by simp [exFile, OPEN]) 300 310 155 rfl rfl rfl
  simpa [CLOSE] using this

/-- `C06_order`: the shuffled and the sorted file agree -/
example (t : Int) : barLookup false exFile t = barLookup false exSorted t :=
  C06_order false exFile exSorted t exFile_distinct
    ((List.Perm.swap _ _ _).trans ((List.Perm.swap _ _ _).cons _))

/-- `C06_causal`: changing the bar of day 12 (and adding day 13) does not change any answer before day 12's
open -/
example : barLookup true exFile (11 * 86400 + 80000) =
    barLookup true (⟨13, some 1, some 2, some 3⟩ :: ⟨12, some 999, none, some 7⟩ :: exSorted.take 2)
      (11 * 86400 + 80000) := by
  apply C06_causal true _ _ _ exFile_distinct (by simp [exSorted])
  intro b
  simp only [exFile, exSorted, List.take, List.mem_cons, List.not_mem_nil, or_false, OPEN]
  constructor
  · rintro ⟨rfl | rfl | rfl, h⟩ <;> simp_all
  · rintro ⟨rfl | rfl | rfl | rfl, h⟩ <;> simp_all

/-- the handler: the first source does not list `"B"`, the second has no observation yet at `t`, the third
answers -/
def exSources : List (DataSource Rat) :=
  [⟨false, [("A", exFile)]⟩, ⟨false, [("B", [⟨20, some 7, some 8, some 9⟩])]⟩, ⟨false, [("B", exFile)]⟩]

example : handlerBid exSources (10 * 86400 + 60000) "B" = some 100 := by
  have h3 : barLookup false exFile (10 * 86400 + 60000) = some 100 := by
    unfold barLookup; rw [exFrame_raw]; decide
  unfold exSources
  rw [(C06_handler_skip_unknown _ _ _ "B" (by decide)).2,
    C06_handler_skip_nan _ _ _ "B" [⟨20, some 7, some 8, some 9⟩] rfl
      (C06_none _ _ _ (by simp [OPEN]))]
  exact C06_handler_first _ _ _ "B" exFile 100 rfl h3

/-- `C06_char_dense` applies to a dense shuffled two-bar file (gap on day 11), query on day 11: day 10's close -/
example : ∃ o c : Rat, barLookup false [⟨12, some 300, some 310, some 155⟩, ⟨10, some 100, some 110, some 55⟩]
    (11 * 86400 + 60000) = some (if 11 * 86400 + 60000 < (10 : Int) * 86400 + CLOSE then o else c) ∧ c = 110 := by
  obtain ⟨o, c, _, h2, _, h4⟩ := C06_char_dense false
    [⟨12, some 300, some 310, some 155⟩, ⟨10, some 100, some 110, some 55⟩] (11 * 86400 + 60000)
    (by simp) (by simp [expandBar]) (⟨10, some 100, some 110, some (55 : Rat)⟩) (by simp) (by decide)
    (by simp [OPEN])
  refine ⟨o, c, h4, ?_⟩
  have := (h2 rfl).2
  simpa using this.symm

/-- the memo table: a hit and a miss on a coherent table, and an incoherent table is excluded by the hypothesis -/
example : cachedGet (fun n : Nat => n * n) [(3, 9)] 3 = (9, [(3, 9)]) := by decide
example : cachedGet (fun n : Nat => n * n) [(3, 9)] 4 = (16, [(4, 16), (3, 9)]) := by decide
example : ∀ p ∈ [((3 : Nat), (9 : Nat))], p.2 = (fun n : Nat => n * n) p.1 := by simp
example : (cachedGet (fun n : Nat => n * n) [(3, 10)] 3).1 ≠ 3 * 3 := by decide

end Examples

/-! mid = bid at the lawful field instance on `ℚ` -/
section ExamplesField
noncomputable local instance (priority := high) c06RatOps : NumOps ℚ := fieldNumOps ℚ
local instance (priority := high) c06RatLawful : LawfulNumOps ℚ := fieldNumOps_lawful ℚ

example (t : Int) (a : String) : handlerMid exSources t a = handlerBid exSources t a :=
  C06_handler_mid_eq_bid exSources t a

end ExamplesField

end Qs
