import QsModel.Broker
namespace Qs
theorem Smoke_open_mon : isOpen (1546819200 + 52200) = true := by decide
end Qs
