import QsProofs.Lemmas.Session
import QsProofs.Props.C06
import QsProofs.Props.C12

/-!
# C07 — Backtest results up to any date do not depend on later market data

All theorems are about the real model (`Qs.Session.step`, `Qs.Session.runEvents`, `Qs.Session.run`,
`Qs.barLookup`, `Qs.handlerBid`), for EVERY configuration (static and dynamic universes, every schedule kind, both
sizers, fees, burn-in), EVERY alpha model `alpha : Alpha α` — any function of the time, the signals' state and the
universe, which covers fixed weights and every momentum / moving-average / volatility rule, because the signals'
state is itself fed only with `px t` — and over EVERY carrier `α` (no numeric law is used).

* `C07_step`       one event reads the market only at its own time;
* `C07_runEvents`  a run reads the market only at its event times;
* `C07_session`    over time-sorted events, two markets that agree up to `T` give runs that agree on everything
                   dated `≤ T` (`upTo T`: allocations, fills, equity points, and the error if raised at or before `T`);
* `C07_market`, `C07_handler`  the data source: bars dated after the day of `T` are never read at a time `≤ T`;
* `C07_backtest`   all together for `Session.run` on two lists of CSV sources.
-/

set_option linter.unusedSectionVars false

namespace Qs.C07
open Qs Qs.Sess NumOps Num

section
variable {α : Type} [Add α] [Sub α] [Mul α] [Div α] [Neg α] [NumOps α]

/-- **C07_step.** One simulation event uses the market view only at the event's own time. -/
theorem C07_step (cfg : SessionCfg α) (alpha : Alpha α) (px₁ px₂ : Px α) (sched : List Int) (s : Session α)
    (ev : SimEvent) (h : ∀ a, px₁ ev.time a = px₂ ev.time a) :
    s.step cfg alpha px₁ sched ev = s.step cfg alpha px₂ sched ev :=
  step_congr (funext h) cfg alpha sched s

/-- the three places where `step` reads the market: the broker's quotes, the sizer's prices and the order
execution (`rebalanceAt`), each at `t` only -/
theorem C07_reads (cfg : SessionCfg α) (alpha : Alpha α) (px₁ px₂ : Px α) (t : Int)
    (h : ∀ a, px₁ t a = px₂ t a) :
    quotesAt px₁ t = quotesAt px₂ t ∧
    (∀ s, rebalanceAt cfg alpha px₁ t s = rebalanceAt cfg alpha px₂ t s) ∧
    (∀ b n l, executeOrders px₁ t b n l = executeOrders px₂ t b n l) :=
  ⟨quotesAt_congr (funext h), fun s => rebalanceAt_congr (funext h) cfg alpha s,
    fun b n l => executeOrders_congr (funext h) l b n⟩

/-- **C07_runEvents.** A run uses the market view only at the times of its events: two views that agree there
give the same final state and the same error. -/
theorem C07_runEvents (cfg : SessionCfg α) (alpha : Alpha α) (px₁ px₂ : Px α) (sched : List Int) (s : Session α)
    (events : List SimEvent) (h : ∀ ev ∈ events, ∀ a, px₁ ev.time a = px₂ ev.time a) :
    Session.runEvents cfg alpha px₁ sched s events = Session.runEvents cfg alpha px₂ sched s events :=
  runEvents_congr cfg alpha sched events s (fun ev hev => funext (h ev hev))

/-- the observable part of a run result dated on or before `T` (`Qs.Sess.upTo`, restated):
allocation records, fills and equity points with time `≤ T`, and the error if its time is `≤ T` -/
theorem C07_upTo_def (T : Int) (r : Session α × Option (Int × Err)) :
    upTo T r =
      (r.1.allocations.filter (fun x => decide (x.1 ≤ T)),
       r.1.fills.filter (fun f => decide (f.time ≤ T)),
       r.1.equity.filter (fun x => decide (x.1 ≤ T)),
       r.2.filter (fun x => decide (x.1 ≤ T))) := rfl

/-- **C07_session** (late events). Events later than `T` change nothing dated `≤ T`: every record they append is
stamped with an event time, and an error they raise is dated after `T` — whatever the market. -/
theorem C07_late (cfg : SessionCfg α) (alpha : Alpha α) (px : Px α) (sched : List Int) (T : Int)
    (s : Session α) (events : List SimEvent) (hl : ∀ ev ∈ events, T < ev.time) :
    upTo T (Session.runEvents cfg alpha px sched s events) = upTo T (s, none) :=
  upTo_late cfg alpha px sched T events s hl

/-- **C07_session.** Over events sorted by time (true of the simulation clock, `C12_sorted`), if two markets
agree at every time `≤ T`, then every allocation record, fill and equity point dated `≤ T` is identical in the
two runs, and a run that fails at a time `≤ T` fails identically in both. -/
theorem C07_session (cfg : SessionCfg α) (alpha : Alpha α) (px₁ px₂ : Px α) (sched : List Int) (s : Session α)
    (events : List SimEvent) (T : Int) (hs : (events.map (·.time)).Pairwise (· < ·))
    (h : ∀ t, t ≤ T → ∀ a, px₁ t a = px₂ t a) :
    upTo T (Session.runEvents cfg alpha px₁ sched s events) =
      upTo T (Session.runEvents cfg alpha px₂ sched s events) :=
  runEvents_upTo cfg alpha sched T (fun t ht => funext (h t ht)) events s hs

/-- **C07_session** (prefix form). Splitting the events at `T`: the two runs over the events `≤ T` are EQUAL
(final state and error), and the whole run restricted to `≤ T` is the restriction of that common prefix run
unless it already failed. -/
theorem C07_session_split (cfg : SessionCfg α) (alpha : Alpha α) (px₁ px₂ : Px α) (sched : List Int)
    (s : Session α) (pre post : List SimEvent) (T : Int)
    (hpre : ∀ ev ∈ pre, ev.time ≤ T) (hpost : ∀ ev ∈ post, T < ev.time)
    (h : ∀ t, t ≤ T → ∀ a, px₁ t a = px₂ t a) :
    Session.runEvents cfg alpha px₁ sched s pre = Session.runEvents cfg alpha px₂ sched s pre ∧
    upTo T (Session.runEvents cfg alpha px₁ sched s (pre ++ post)) =
      upTo T (Session.runEvents cfg alpha px₁ sched s pre) := by
  refine ⟨C07_runEvents cfg alpha px₁ px₂ sched s pre (fun ev hev => h _ (hpre ev hev)), ?_⟩
  rw [runEvents_append]
  rcases hr : Session.runEvents cfg alpha px₁ sched s pre with ⟨s1, _ | e⟩
  · exact upTo_late cfg alpha px₁ sched T post s1 hpost
  · rfl

/-! ## The data source -/

/-- **C07_market.** Two bar files (distinct days each) with the same bars dated on or before day `dayT` answer
every lookup at a time up to the end of that day identically — whatever later bars they hold, or none. -/
theorem C07_market (adjust : Bool) (bars bars' : List (Bar α)) (dayT t : Int)
    (hd : bars.Pairwise (fun a b => a.day ≠ b.day)) (hd' : bars'.Pairwise (fun a b => a.day ≠ b.day))
    (h : ∀ b, (b ∈ bars ∧ b.day ≤ dayT) ↔ (b ∈ bars' ∧ b.day ≤ dayT))
    (ht : t ≤ dayT * 86400 + 86399) :
    barLookup adjust bars t = barLookup adjust bars' t :=
  barLookup_upTo adjust bars bars' dayT t hd hd' h ht

/-- **C07_handler.** Two lists of CSV sources that agree source by source on the bars dated on or before `dayT`
(`AgreeUpTo`: same adjustment flag, and for every asset the same such bars — an asset unknown to a source counts
as having no bars, since the handler skips it either way) give the same handler price at every time up to the end
of day `dayT`. -/
theorem C07_handler (sources sources' : List (DataSource α)) (dayT t : Int) (a : String)
    (h : List.Forall₂ (AgreeUpTo dayT) sources sources')
    (hd : ∀ ds ∈ sources, DistinctDays ds) (hd' : ∀ ds ∈ sources', DistinctDays ds)
    (ht : t ≤ dayT * 86400 + 86399) :
    handlerBid sources t a = handlerBid sources' t a :=
  handlerBid_upTo h hd hd' ht a

/-- **C07** (end to end). Two backtests of the same configuration and alpha model whose data sources agree on all
bars dated on or before day `dayT` agree on everything dated `≤ T`, for every `T` up to the end of day `dayT`:
either both constructions fail identically (the construction reads no market data), or both run and
`upTo T` of the two results coincide. -/
theorem C07_backtest (cfg : SessionCfg α) (alpha : Alpha α) (sources sources' : List (DataSource α))
    (dayT T : Int) (h : List.Forall₂ (AgreeUpTo dayT) sources sources')
    (hd : ∀ ds ∈ sources, DistinctDays ds) (hd' : ∀ ds ∈ sources', DistinctDays ds)
    (hT : T ≤ dayT * 86400 + 86399) :
    (Session.run cfg alpha (handlerBid sources)).map (upTo T) =
      (Session.run cfg alpha (handlerBid sources')).map (upTo T) := by
  rw [run_eq, run_eq]
  rcases hi : Session.init cfg with e | ⟨s0, events, sched⟩
  · simp only [Except.map]
  · obtain ⟨_, _, _, _, hsim, _⟩ := init_fresh cfg s0 events sched hi
    have hs := C12.C12_sorted cfg.start cfg.end_ false false events hsim
    have key := C07_session cfg alpha (handlerBid sources) (handlerBid sources') sched s0 events T hs
      (fun t ht a => C07_handler sources sources' dayT t a h hd hd' (Int.le_trans ht hT))
    show Except.ok _ = Except.ok _
    exact congrArg Except.ok key

end

/-! ## Non-vacuity -/

namespace Ex

/-- Monday 2020-03-02 … Wednesday 2020-03-04, daily rebalance, one asset, fixed weight -/
def cfg : SessionCfg Rat :=
  { start := 18323 * 86400, end_ := 18325 * 86400 + 86399, burnIn := none, rebalance := .daily,
    longOnly := true, param := 0, fee := .zero, initialCash := 1000, uni := .static ["A"], nan := 0 }

def alpha : Alpha Rat := fixedAlpha [("A", 1)]

/-- world 1: the full file; world 2: Wednesday's bar replaced by other values; world 3: Wednesday's bar removed -/
def bars₁ : List (Bar Rat) :=
  [⟨18323, some 10, some 11, some 11⟩, ⟨18324, some 12, some 13, some 13⟩, ⟨18325, some 14, some 15, some 15⟩]
def bars₂ : List (Bar Rat) :=
  [⟨18323, some 10, some 11, some 11⟩, ⟨18324, some 12, some 13, some 13⟩, ⟨18325, some 999, none, some 1⟩]
def bars₃ : List (Bar Rat) :=
  [⟨18323, some 10, some 11, some 11⟩, ⟨18324, some 12, some 13, some 13⟩]

def src (bars : List (Bar Rat)) : List (DataSource Rat) := [⟨false, [("A", bars)]⟩]

theorem barsOf_src (bars : List (Bar Rat)) (a : String) :
    barsOf ⟨false, [("A", bars)]⟩ a = if a = "A" then bars else [] := by
  unfold barsOf
  by_cases h : a = "A"
  · subst h; simp [List.lookup]
  · have : (a == "A") = false := by simpa using h
    simp [List.lookup, this, h]

theorem distinct (bars : List (Bar Rat)) (hb : bars.Pairwise (fun x y => x.day ≠ y.day)) :
    ∀ ds ∈ src bars, DistinctDays ds := by
  intro ds hds
  simp only [src, List.mem_singleton] at hds
  subst hds
  intro a
  rw [barsOf_src]
  split
  · exact hb
  · exact List.Pairwise.nil

theorem d₁ : bars₁.Pairwise (fun x y => x.day ≠ y.day) := by simp [bars₁]
theorem d₂ : bars₂.Pairwise (fun x y => x.day ≠ y.day) := by simp [bars₂]
theorem d₃ : bars₃.Pairwise (fun x y => x.day ≠ y.day) := by simp [bars₃]

/-- the hypothesis of `C07_market` / `C07_handler` holds with `dayT` = Tuesday (18324): the worlds differ on
Wednesday only -/
theorem agree (bars bars' : List (Bar Rat))
    (h : ∀ b, (b ∈ bars ∧ b.day ≤ 18324) ↔ (b ∈ bars' ∧ b.day ≤ 18324)) :
    List.Forall₂ (AgreeUpTo 18324) (src bars) (src bars') := by
  refine List.Forall₂.cons ⟨rfl, fun a b => ?_⟩ List.Forall₂.nil
  rw [barsOf_src, barsOf_src]
  split
  · exact h b
  · simp

theorem agree₁₂ : ∀ b : Bar Rat, (b ∈ bars₁ ∧ b.day ≤ 18324) ↔ (b ∈ bars₂ ∧ b.day ≤ 18324) := by
  intro b
  simp only [bars₁, bars₂, List.mem_cons, List.not_mem_nil, or_false]
  constructor
  · rintro ⟨rfl | rfl | rfl, h⟩
    · exact ⟨Or.inl rfl, h⟩
    · exact ⟨Or.inr (Or.inl rfl), h⟩
    · simp at h
  · rintro ⟨rfl | rfl | rfl, h⟩
    · exact ⟨Or.inl rfl, h⟩
    · exact ⟨Or.inr (Or.inl rfl), h⟩
    · simp at h

theorem agree₁₃ : ∀ b : Bar Rat, (b ∈ bars₁ ∧ b.day ≤ 18324) ↔ (b ∈ bars₃ ∧ b.day ≤ 18324) := by
  intro b
  simp only [bars₁, bars₃, List.mem_cons, List.not_mem_nil, or_false]
  constructor
  · rintro ⟨rfl | rfl | rfl, h⟩
    · exact ⟨Or.inl rfl, h⟩
    · exact ⟨Or.inr rfl, h⟩
    · simp at h
  · rintro ⟨rfl | rfl, h⟩
    · exact ⟨Or.inl rfl, h⟩
    · exact ⟨Or.inr (Or.inl rfl), h⟩

/-- `C07_backtest` instantiated: replacing (world 2) or removing (world 3) Wednesday's data leaves everything
dated up to Tuesday 23:59:59 unchanged -/
example : (Session.run cfg alpha (handlerBid (src bars₁))).map (upTo (18324 * 86400 + 86399)) =
    (Session.run cfg alpha (handlerBid (src bars₂))).map (upTo (18324 * 86400 + 86399)) :=
  C07_backtest cfg alpha _ _ 18324 _ (agree _ _ agree₁₂) (distinct _ d₁) (distinct _ d₂) (by decide)

example : (Session.run cfg alpha (handlerBid (src bars₁))).map (upTo (18324 * 86400 + 86399)) =
    (Session.run cfg alpha (handlerBid (src bars₃))).map (upTo (18324 * 86400 + 86399)) :=
  C07_backtest cfg alpha _ _ 18324 _ (agree _ _ agree₁₃) (distinct _ d₁) (distinct _ d₃) (by decide)

/-- the hypothesis of `C07_session` in the `Px` form, and a pair of market views that really differ after `T` -/
def px₁ : Px Rat := fun _ a => if a = "A" then some 10 else none
def px₂ : Px Rat := fun t a => if a = "A" then (if t ≤ 1583269200 then some 10 else some 77) else none

example : (∀ t, t ≤ 1583269200 → ∀ a, px₁ t a = px₂ t a) ∧ px₁ 1583332200 "A" ≠ px₂ 1583332200 "A" := by
  refine ⟨fun t ht a => ?_, by decide⟩
  unfold px₁ px₂
  simp only [ht, if_true]

/-- the conclusion is not trivial: in world `px₁` the part of the run dated up to Tuesday's close holds one
allocation record per close, one fill and two equity points (kernel evaluation of the first four events) -/
def after (px : Px Rat) (n : Nat) : Option (Session Rat × Option (Int × Err)) :=
  (Session.init cfg).toOption.map fun r => Session.runEvents cfg alpha px r.2.2 r.1 (r.2.1.take n)

example : (after px₁ 3).map (fun r => (upTo 1583269200 r).1) = some [(1583182800, [("A", 1)])] := by decide +kernel
example : (after px₁ 3).map (fun r => (upTo 1583269200 r).2.1.map fun f => (f.time, f.asset, f.qty, f.price)) =
    some [(1583245800, "A", 100, 10)] := by decide +kernel
example : (after px₁ 3).map (fun r => (upTo 1583269200 r).2.2.1) = some [(1583182800, 1000)] := by decide +kernel
/-- … while restricted to Monday's close the Tuesday fill is cut off -/
example : (after px₁ 3).map (fun r => (upTo 1583182800 r).2.1.length) = some 0 := by decide +kernel

end Ex

end Qs.C07
