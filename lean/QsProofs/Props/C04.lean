import QsProofs.Lemmas.OrdersExample

/-!
# C04 — Orders fill exactly once, in full, only in exchange hours, sells first

All theorems are about the real model (`Qs.step`, `Qs.Broker.update`, `Qs.run`).
Observation functions (`Broker.queueOf`, `Broker.cashOf`, `Broker.filled`, `Txn.order`, `WF`, `UpdateOK`, …)
are defined in `QsProofs/Lemmas/Orders.lean`.
-/

set_option linter.unusedSectionVars false

namespace Qs
open NumOps Num

/-- **C04_hours.** The exchange is open exactly Monday–Friday, 14:30:00 ≤ time of day < 21:00:00 (UTC). -/
theorem C04_hours (t : Int) :
    isOpen t = true ↔ (dayOf t + 3) % 7 ≤ 4 ∧ 52200 ≤ t % 86400 ∧ t % 86400 < 75600 :=
  isOpen_iff t

-- non-vacuity: Monday 2021-01-04 15:00:00 UTC is open, Saturday 2021-01-02 15:00:00 and Monday 21:00:00 are closed
example : isOpen 1609772400 = true ∧ isOpen 1609599600 = false ∧ isOpen 1609794000 = false := by decide

section structural
variable {α : Type} [Add α] [Sub α] [Mul α] [Div α] [Neg α] [NumOps α]

/-- **C04_submit_pure.** Submitting changes nothing but the queue of `pid`, at whose END the order is
appended; it is refused with `KeyError` if `pid` does not exist. -/
theorem C04_submit_pure (σ : Broker α) (pid : String) (o : Order) (hwf : WF σ) :
    (σ.has pid = false → step σ (.submit pid o) = (σ, some .key)) ∧
    (σ.has pid = true →
      (step σ (.submit pid o)).2 = none ∧
      (step σ (.submit pid o)).1.master = σ.master ∧
      (step σ (.submit pid o)).1.clock = σ.clock ∧
      (step σ (.submit pid o)).1.fee = σ.fee ∧
      (step σ (.submit pid o)).1.fillLog = σ.fillLog ∧
      (step σ (.submit pid o)).1.entries.map (·.pf) = σ.entries.map (·.pf) ∧
      (step σ (.submit pid o)).1.queueOf pid = σ.queueOf pid ++ [o] ∧
      ∀ p, p ≠ pid → (step σ (.submit pid o)).1.queueOf p = σ.queueOf p) := by
  refine ⟨submit_refused σ pid o, fun h => ?_⟩
  obtain ⟨h1, h2, h3, h4, h5, h6⟩ := submit_accepted σ pid o hwf h
  refine ⟨h1, h3, h4, h5, h6, ?_, ?_, ?_⟩
  · show (σ.submitOrder pid o).1.entries.map (·.pf) = _
    rw [h2, List.map_map]
    apply List.map_congr_left
    intro x _
    simp only [Function.comp_def]
    split <;> rfl
  · show (σ.submitOrder pid o).1.queueOf pid = _
    rw [queueOf_submit σ pid o hwf h]; simp
  · intro p hp
    show (σ.submitOrder pid o).1.queueOf p = _
    rw [queueOf_submit σ pid o hwf h]; simp [hp]

/-- **C04_closed.** An update outside exchange hours (whatever its outcome) leaves every queue, every cash
balance, every history, the master account and the fill log unchanged. -/
theorem C04_closed (σ : Broker α) (t : Int) (q : Quotes α) (hwf : WF σ) (hclosed : isOpen t = false) :
    (σ.update t q).1.entries.map (fun e => (e.pf.id, e.queue, e.pf.cash, e.pf.history))
      = σ.entries.map (fun e => (e.pf.id, e.queue, e.pf.cash, e.pf.history)) ∧
    (σ.update t q).1.fillLog = σ.fillLog ∧ (σ.update t q).1.master = σ.master ∧
    (∀ pid, (σ.update t q).1.queueOf pid = σ.queueOf pid) ∧
    (∀ pid, (σ.update t q).1.cashOf pid = σ.cashOf pid) := by
  rw [update_closed σ t q hclosed]
  have hv := marked_view σ hwf t q
  have hf := marked_frame σ t q
  exact ⟨hv, hf.2.1, hf.2.2.1, queueOf_congr hf.1, cashOf_congr hv⟩

/-- **C04_open.** An update in exchange hours that returns normally fills the whole drained batch, sells
first, each order in full (`qty`, `asset`, `orderId` of the order, stamped `t`), appends exactly these
transactions to the fill log, and leaves every queue empty. Per portfolio the fills are
`queue.filter isSell ++ queue.filter (not isSell)`. -/
theorem C04_open (σ : Broker α) (t : Int) (q : Quotes α) (hwf : WF σ) (hopen : isOpen t = true)
    (hret : (σ.update t q).2 = none) :
    (∃ fills : List (String × Txn α),
      (σ.update t q).1.fillLog = σ.fillLog ++ fills ∧
      List.Forall₂ (fun (x : String × Order) (f : String × Txn α) =>
          f.1 = x.1 ∧ f.2.qty = x.2.qty ∧ f.2.orderId = x.2.id ∧ f.2.asset = x.2.asset ∧ f.2.time = t ∧
          Broker.makeTxn { σ with clock := t } q x.2 = .ok f.2)
        (sellsFirst (fun (x : String × Order) => x.2.isSell) σ.drained) fills ∧
      fills.map (fun f => (f.1, f.2.order)) = sellsFirst (fun (x : String × Order) => x.2.isSell) σ.drained ∧
      ∀ pid, (fills.filter (fun f => f.1 == pid)).map (fun f => f.2.order)
                = (σ.queueOf pid).filter Order.isSell ++ (σ.queueOf pid).filter (fun o => !o.isSell)) ∧
    (σ.update t q).1.entries.map (fun e => (e.pf.id, e.queue)) = σ.entries.map (fun e => (e.pf.id, [])) ∧
    (∀ pid, (σ.update t q).1.queueOf pid = []) ∧ (σ.update t q).1.drained = [] := by
  obtain ⟨⟨fills, hlog, hf2⟩, hq, _⟩ := update_open_spec σ t q hopen hret
  have hfields : List.Forall₂ (fun (x : String × Order) (f : String × Txn α) =>
          f.1 = x.1 ∧ f.2.qty = x.2.qty ∧ f.2.orderId = x.2.id ∧ f.2.asset = x.2.asset ∧ f.2.time = t ∧
          Broker.makeTxn { σ with clock := t } q x.2 = .ok f.2)
        (sellsFirst (fun (x : String × Order) => x.2.isSell) σ.drained) fills := by
    refine hf2.imp ?_
    intro x f ⟨h1, h2⟩
    have := makeTxn_fields h2
    have ho : f.2.order = x.2 := this.1
    refine ⟨h1, ?_, ?_, ?_, this.2, h2⟩
    · rw [← ho]; rfl
    · rw [← ho]; rfl
    · rw [← ho]; rfl
  have hmap : fills.map (fun f => (f.1, f.2.order)) = sellsFirst (fun (x : String × Order) => x.2.isSell) σ.drained :=
    filled_of_forall₂ hf2 (fun x f h => ⟨h.1, (makeTxn_fields h.2).1⟩)
  have hqv : ∀ v ∈ (σ.update t q).1.qview, v.2 = [] := by
    rw [hq]; intro v hv
    simp only [List.mem_map] at hv
    obtain ⟨w, _, rfl⟩ := hv; rfl
  refine ⟨⟨fills, hlog, hfields, hmap, ?_⟩, ?_, queueOf_nil_of_qview _ hqv, ?_⟩
  · intro pid
    have := batch_per_portfolio σ hwf pid
    rw [← hmap, List.filter_map, List.map_map] at this
    exact this
  · have : (σ.update t q).1.qview = _ := hq
    simp only [Broker.qview, List.map_map, Function.comp_def] at this
    exact this
  · rw [drained_of_qview, hq]
    simp [List.flatMap_map]

/-- **C04_conservation** (trace form: every `update` of the run returns normally). After any run of
transfers, portfolio creations, submissions and updates, what has been filled together with what is still
pending is, as a multiset of `(portfolio, order)` pairs, exactly what was filled or pending before plus the
submissions accepted along the run: nothing is dropped, duplicated or altered. -/
theorem C04_conservation (σ : Broker α) (ops : List (Op α)) (hwf : WF σ) (hops : ∀ op ∈ ops, op.isC04)
    (hret : UpdatesReturn σ ops) :
    (((run σ ops).fillLog.map (fun f => (f.1, f.2.order))) ++ (run σ ops).drained).Perm
      ((σ.fillLog.map (fun f => (f.1, f.2.order))) ++ σ.drained ++ accepted σ ops) :=
  conservation σ ops hwf hops hret

/-- **C04_exactly_once** (trace form). Order `o` is submitted to the existing portfolio `pid` after `pre`,
then `post` runs. If all order ids involved are pairwise distinct, then in the final state
* no order id occurs twice among filled and pending orders together (never filled twice, never both filled
  and still queued);
* as long as no update in exchange hours has followed the submission, `o` is still in the queue of `pid`
  and has not been filled;
* at the first update in exchange hours after the submission `o` is filled, in full, stamped with that
  update's time, and it is in the log exactly once ever after;
* hence: filled exactly once iff an open update followed the submission. -/
theorem C04_exactly_once (σ : Broker α) (pre post : List (Op α)) (pid : String) (o : Order) (hwf : WF σ)
    (hops : ∀ op ∈ pre ++ Op.submit pid o :: post, op.isC04)
    (hret : UpdatesReturn σ (pre ++ Op.submit pid o :: post))
    (hacc : (run σ pre).has pid = true)
    (hnd : ((σ.filled ++ σ.drained ++ accepted σ (pre ++ Op.submit pid o :: post)).map (·.2.id)).Nodup) :
    (((run σ (pre ++ Op.submit pid o :: post)).filled
        ++ (run σ (pre ++ Op.submit pid o :: post)).drained).map (·.2.id)).Nodup ∧
    (∀ i, ((run σ (pre ++ Op.submit pid o :: post)).fillLog.map (·.2.orderId)).count i ≤ 1) ∧
    ((∀ t q, Op.update t q ∈ post → isOpen t = false) →
      o ∈ (run σ (pre ++ Op.submit pid o :: post)).queueOf pid ∧
      ((run σ (pre ++ Op.submit pid o :: post)).fillLog.map (·.2.orderId)).count o.id = 0) ∧
    (∀ post₁ t q post₂, post = post₁ ++ Op.update t q :: post₂ →
      (∀ t' q', Op.update t' q' ∈ post₁ → isOpen t' = false) → isOpen t = true →
      (∃ tx, (pid, tx) ∈ (run σ (pre ++ Op.submit pid o :: post)).fillLog ∧ tx.order = o ∧ tx.time = t) ∧
      ((run σ (pre ++ Op.submit pid o :: post)).fillLog.map (·.2.orderId)).count o.id = 1 ∧
      o ∉ (run σ (pre ++ Op.submit pid o :: post)).queueOf pid) ∧
    ((∃ t q, Op.update t q ∈ post ∧ isOpen t = true) ↔
      ((run σ (pre ++ Op.submit pid o :: post)).fillLog.map (·.2.orderId)).count o.id = 1) := by
  -- bookkeeping
  have hcons := conservation σ _ hwf hops hret
  have hwf' := run_wf σ _ hwf hops hret
  have hnd' := ((hcons.map (·.2.id)).nodup_iff).mpr hnd
  rw [updatesReturn_append] at hret
  obtain ⟨hret₁, hret₂, hret₃⟩ := hret
  have hops₁ : ∀ op ∈ pre, op.isC04 := fun op h => hops op (List.mem_append_left _ h)
  have hops₃ : ∀ op ∈ post, op.isC04 :=
    fun op h => hops op (List.mem_append_right _ (List.mem_cons_of_mem _ h))
  have hwf₁ := run_wf σ pre hwf hops₁ hret₁
  have hrun : run σ (pre ++ Op.submit pid o :: post) = run (step (run σ pre) (Op.submit pid o)).1 post := by
    rw [run_append]; rfl
  obtain ⟨hwf₂, _⟩ := step_summary (run σ pre) (Op.submit pid o) hwf₁ trivial trivial
  have hin : (pid, o) ∈ (step (run σ pre) (Op.submit pid o)).1.drained :=
    (drained_submit (run σ pre) pid o hwf₁ hacc).symm.subset (List.mem_cons_self ..)
  have hids : ∀ c : Broker α, c.fillLog.map (·.2.orderId) = c.filled.map (·.2.id) := by
    intro c; simp [Broker.filled, List.map_map, Function.comp_def, Txn.order]
  rw [List.map_append, List.nodup_append] at hnd'
  obtain ⟨hndF, _, hdisj⟩ := hnd'
  -- (ii) still pending while no open update
  have hclosed : (∀ t q, Op.update t q ∈ post → isOpen t = false) →
      o ∈ (run σ (pre ++ Op.submit pid o :: post)).queueOf pid ∧
      ((run σ (pre ++ Op.submit pid o :: post)).fillLog.map (·.2.orderId)).count o.id = 0 := by
    intro hc
    have hst := stays_pending _ post hwf₂ hops₃ hret₃ ((isOpenUpdate_iff post).mpr hc)
    have hmem : (pid, o) ∈ (run σ (pre ++ Op.submit pid o :: post)).drained := by
      rw [hrun]; exact hst.2 _ hin
    refine ⟨(mem_drained_iff _ hwf' pid o).mp hmem, ?_⟩
    rw [List.count_eq_zero, hids]
    intro hf
    exact hdisj _ hf _ (List.mem_map.mpr ⟨(pid, o), hmem, rfl⟩) rfl
  -- (iii) filled at the first open update
  have hopen : ∀ post₁ t q post₂, post = post₁ ++ Op.update t q :: post₂ →
      (∀ t' q', Op.update t' q' ∈ post₁ → isOpen t' = false) → isOpen t = true →
      (∃ tx, (pid, tx) ∈ (run σ (pre ++ Op.submit pid o :: post)).fillLog ∧ tx.order = o ∧ tx.time = t) ∧
      ((run σ (pre ++ Op.submit pid o :: post)).fillLog.map (·.2.orderId)).count o.id = 1 ∧
      o ∉ (run σ (pre ++ Op.submit pid o :: post)).queueOf pid := by
    intro post₁ t q post₂ hpost hc ho
    subst hpost
    rw [updatesReturn_append] at hret₃
    have hopsA : ∀ op ∈ post₁, op.isC04 := fun op h => hops₃ op (List.mem_append_left _ h)
    have hopsB : ∀ op ∈ post₂, op.isC04 :=
      fun op h => hops₃ op (List.mem_append_right _ (List.mem_cons_of_mem _ h))
    have hst := stays_pending _ post₁ hwf₂ hopsA hret₃.1 ((isOpenUpdate_iff post₁).mpr hc)
    have hwf₃ := run_wf _ post₁ hwf₂ hopsA hret₃.1
    obtain ⟨f, hf, hf1, hf2, hf3⟩ := filled_at_open _ t q post₂ hwf₃ hopsB hret₃.2 ho _ (hst.2 _ hin)
    rw [← run_append, ← hrun] at hf
    have hmem : o.id ∈ (run σ (pre ++ Op.submit pid o :: (post₁ ++ Op.update t q :: post₂))).filled.map (·.2.id) :=
      List.mem_map.mpr ⟨(f.1, f.2.order), List.mem_map.mpr ⟨f, hf, rfl⟩, by rw [hf2]⟩
    refine ⟨⟨f.2, ?_, hf2, hf3⟩, ?_, ?_⟩
    · have h1 : f.1 = pid := hf1
      have : (pid, f.2) = f := by rw [← h1]
      rw [this]; exact hf
    · rw [hids]; exact List.count_eq_one_of_mem hndF hmem
    · intro hq
      have := (mem_drained_iff _ hwf' pid o).mpr hq
      exact hdisj _ hmem _ (List.mem_map.mpr ⟨(pid, o), this, rfl⟩) rfl
  refine ⟨?_, ?_, hclosed, hopen, ?_⟩
  · rw [List.map_append, List.nodup_append]; exact ⟨hndF, by assumption, hdisj⟩
  · intro i; rw [hids]; exact List.nodup_iff_count.mp hndF i
  · constructor
    · rintro ⟨t, q, hm, ho⟩
      obtain ⟨l₁, t', q', l₂, hl, ho', hno⟩ := exists_first_open post ⟨_, hm, ho⟩
      exact (hopen l₁ t' q' l₂ hl ((isOpenUpdate_iff l₁).mp hno) ho').2.1
    · intro h1
      by_contra hne
      have : ∀ t q, Op.update t q ∈ post → isOpen t = false := by
        intro t q hm
        by_contra ho
        exact hne ⟨t, q, hm, by simpa using ho⟩
      rw [(hclosed this).2] at h1
      cases h1

end structural

section field
variable {α : Type} [Field α] [LinearOrder α] [IsStrictOrderedRing α] [FloorRing α] [NumOps α] [LawfulNumOps α]

/-- **No execution error.** Under the quantifier's hypotheses (no portfolio/position clock ahead of the broker
clock, `σ.clock ≤ t`, positive quotes, every queued order's asset quoted when the exchange is open)
`update` returns normally, and the clock hypothesis holds again afterwards. -/
theorem C04_update_ok (σ : Broker α) (t : Int) (q : Quotes α) (h : UpdateOK σ t q) :
    (σ.update t q).2 = none ∧ ClocksOK (σ.update t q).1 :=
  update_ok σ t q h

/-- **C04_conservation** from the quantifier's hypotheses (`TraceOK`: queue-level operations only,
non-decreasing update times, positive quotes, every queued asset quoted at an open update) on a state whose
portfolio and position clocks are not ahead of the broker clock. -/
theorem C04_conservation_ok (σ : Broker α) (ops : List (Op α)) (hwf : WF σ) (hc : ClocksOK σ)
    (hok : TraceOK σ ops) :
    (((run σ ops).fillLog.map (fun f => (f.1, f.2.order))) ++ (run σ ops).drained).Perm
      ((σ.fillLog.map (fun f => (f.1, f.2.order))) ++ σ.drained ++ accepted σ ops) :=
  C04_conservation σ ops hwf (traceOK_returns σ ops hc hok).1 (traceOK_returns σ ops hc hok).2

/-- **C04_exactly_once** from the quantifier's hypotheses (`TraceOK`, `ClocksOK`) instead of the trace
hypothesis; same conclusion as `C04_exactly_once`. -/
theorem C04_exactly_once_ok (σ : Broker α) (pre post : List (Op α)) (pid : String) (o : Order) (hwf : WF σ)
    (hc : ClocksOK σ) (hok : TraceOK σ (pre ++ Op.submit pid o :: post))
    (hacc : (run σ pre).has pid = true)
    (hnd : ((σ.filled ++ σ.drained ++ accepted σ (pre ++ Op.submit pid o :: post)).map (·.2.id)).Nodup) :
    (((run σ (pre ++ Op.submit pid o :: post)).filled
        ++ (run σ (pre ++ Op.submit pid o :: post)).drained).map (·.2.id)).Nodup ∧
    (∀ i, ((run σ (pre ++ Op.submit pid o :: post)).fillLog.map (·.2.orderId)).count i ≤ 1) ∧
    ((∀ t q, Op.update t q ∈ post → isOpen t = false) →
      o ∈ (run σ (pre ++ Op.submit pid o :: post)).queueOf pid ∧
      ((run σ (pre ++ Op.submit pid o :: post)).fillLog.map (·.2.orderId)).count o.id = 0) ∧
    (∀ post₁ t q post₂, post = post₁ ++ Op.update t q :: post₂ →
      (∀ t' q', Op.update t' q' ∈ post₁ → isOpen t' = false) → isOpen t = true →
      (∃ tx, (pid, tx) ∈ (run σ (pre ++ Op.submit pid o :: post)).fillLog ∧ tx.order = o ∧ tx.time = t) ∧
      ((run σ (pre ++ Op.submit pid o :: post)).fillLog.map (·.2.orderId)).count o.id = 1 ∧
      o ∉ (run σ (pre ++ Op.submit pid o :: post)).queueOf pid) ∧
    ((∃ t q, Op.update t q ∈ post ∧ isOpen t = true) ↔
      ((run σ (pre ++ Op.submit pid o :: post)).fillLog.map (·.2.orderId)).count o.id = 1) :=
  C04_exactly_once σ pre post pid o hwf (traceOK_returns σ _ hc hok).1 (traceOK_returns σ _ hc hok).2 hacc hnd

/-- **C04_open** from the quantifier's hypotheses: the update returns normally and `C04_open` applies. -/
theorem C04_open_ok (σ : Broker α) (t : Int) (q : Quotes α) (hwf : WF σ) (hopen : isOpen t = true)
    (hok : UpdateOK σ t q) :
    (σ.update t q).2 = none ∧
    (σ.update t q).1.filled = σ.filled ++ sellsFirst (fun (x : String × Order) => x.2.isSell) σ.drained ∧
    (∀ f ∈ (σ.update t q).1.fillLog, f ∈ σ.fillLog ∨ f.2.time = t) ∧
    (σ.update t q).1.drained = [] := by
  have hret := (update_ok σ t q hok).1
  obtain ⟨⟨fills, hlog, hf2, hmap, _⟩, _, _, hdr⟩ := C04_open σ t q hwf hopen hret
  refine ⟨hret, ?_, ?_, hdr⟩
  · simp only [Broker.filled, hlog, List.map_append]; rw [← hmap]
  · intro f hf
    rw [hlog] at hf
    rcases List.mem_append.mp hf with hf | hf
    · exact Or.inl hf
    · obtain ⟨x, _, hx⟩ := forall₂_exists_of_mem_left hf2.flip hf
      exact Or.inr hx.2.2.2.2.1

/-- the initial broker satisfies the state hypotheses `WF` and `ClocksOK` -/
theorem C04_new_ok (t : Int) (funds : α) (fee : FeeModel α) (b : Broker α) (h : Broker.new t funds fee = .ok b) :
    WF b ∧ ClocksOK b ∧ b.fillLog = [] ∧ b.drained = [] := by
  unfold Broker.new at h
  split at h
  · cases h
  · simp only [Except.ok.injEq] at h
    subst h
    exact ⟨List.nodup_nil, (by intro e he; cases he), rfl, rfl⟩

/-- the trace hypotheses of `C04_exactly_once` follow from the quantifier's hypotheses -/
theorem C04_trace_ok (σ : Broker α) (ops : List (Op α)) (hc : ClocksOK σ) (hok : TraceOK σ ops) :
    (∀ op ∈ ops, op.isC04) ∧ UpdatesReturn σ ops :=
  traceOK_returns σ ops hc hok

end field

/-! ## Non-vacuity at `α := ℚ` (`fieldNumOps ℚ`): the concrete broker `Ex.σ₀` of `Lemmas/OrdersExample.lean`

`p1` (cash 10000, holds 10 `A`) has queued `buy 10 A (#1)`, `sell 5 B (#2)`; `p2` (cash 500) has queued
`sell 2 A (#3)`; quotes `A ↦ (99, 101)`, `B ↦ (49, 51)`; `tOpen` = Monday 15:00, `tClosed` = Monday 13:00. -/

section examples
open Ex

-- C04_submit_pure: both branches are inhabited, and the new order lands at the end of the queue
example : WF σ₀ ∧ σ₀.has "p2" = true ∧ σ₀.has "nope" = false ∧
    (step σ₀ (.submit "p2" oBuyB)).1.queueOf "p2" = [oSellA, oBuyB] ∧
    step σ₀ (.submit "nope" oBuyB) = (σ₀, some .key) := by
  refine ⟨wf, has_p2, by decide, ?_, (C04_submit_pure σ₀ "nope" oBuyB wf).1 (by decide)⟩
  rw [((C04_submit_pure σ₀ "p2" oBuyB wf).2 has_p2).2.2.2.2.2.2.1]; rfl

-- C04_closed: an update on Monday 13:00 leaves queues, cash and the (empty) fill log alone
example : isOpen tClosed = false ∧ (σ₀.update tClosed quotes).1.queueOf "p1" = [oBuyA, oSellB] ∧
    (σ₀.update tClosed quotes).1.cashOf "p1" = some 10000 ∧ (σ₀.update tClosed quotes).1.fillLog = [] := by
  have h := C04_closed σ₀ tClosed quotes wf (by decide)
  refine ⟨by decide, ?_, ?_, h.2.1⟩
  · rw [h.2.2.2.1]; rfl
  · rw [h.2.2.2.2]; rfl

-- C04_update_ok / C04_open: the hypotheses hold for `σ₀` on Monday 15:00; the update returns normally and
-- fills #2 (sell, p1), #3 (sell, p2), #1 (buy, p1) in this order; p1's own fills are sell #2 then buy #1
example : UpdateOK σ₀ tOpen quotes ∧ isOpen tOpen = true ∧ (σ₀.update tOpen quotes).2 = none ∧
    (σ₀.update tOpen quotes).1.filled = [("p1", oSellB), ("p2", oSellA), ("p1", oBuyA)] ∧
    (σ₀.update tOpen quotes).1.drained = [] ∧
    sellsFirst Order.isSell (σ₀.queueOf "p1") = [oSellB, oBuyA] := by
  have hret := (C04_update_ok σ₀ tOpen quotes updateOK_open).1
  obtain ⟨⟨fills, hlog, _, hmap, _⟩, _, _, hdr⟩ := C04_open σ₀ tOpen quotes wf (by decide) hret
  refine ⟨updateOK_open, by decide, hret, ?_, hdr, by decide⟩
  rw [Broker.filled, hlog, ← batch_eq, ← hmap]; rfl

-- C04_conservation / C04_exactly_once on the run `ops` = submit #4 to p2; update (closed); update (open):
-- the quantifier's hypotheses hold, all four orders end up filled, #4 exactly once
example : TraceOK σ₀ ops ∧ ClocksOK σ₀ ∧
    (((run σ₀ ops).fillLog.map (fun f => (f.1, f.2.order))) ++ (run σ₀ ops).drained).Perm
      [("p1", oBuyA), ("p1", oSellB), ("p2", oSellA), ("p2", oBuyB)] ∧
    ((run σ₀ ops).fillLog.map (·.2.orderId)).count oBuyB.id = 1 := by
  have hc := C04_conservation_ok σ₀ ops wf clocksOK traceOK
  rw [accepted_eq, drained_eq] at hc
  obtain ⟨hops, hret⟩ := C04_trace_ok σ₀ ops clocksOK traceOK
  have hx := C04_exactly_once σ₀ [] [.update tClosed quotes, .update tOpen quotes] "p2" oBuyB wf hops hret
    has_p2 ids_nodup
  refine ⟨traceOK, clocksOK, hc, ?_⟩
  exact hx.2.2.2.2.mp ⟨tOpen, quotes, by simp, by decide⟩

end examples
end Qs
