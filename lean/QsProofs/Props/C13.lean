import QsProofs.Lemmas.Calendar

/-!
# C13 — Rebalance schedules hold exactly the intended dates and meet a clock event

With `n = (dayOf end + 1 - dayOf start).toNat` (the dates `dayOf start … dayOf end`), for `(start, end)` whose
end time-of-day is not before the start's:

* `C13_weekly`  the weekly schedule = the dates of the range that fall on the chosen weekday, stamped;
* `C13_daily`   the daily schedule = the Monday–Friday dates of the range, stamped (any `start`, `end`: pandas
                normalises both ends to midnight);
* `C13_eom`     the end-of-month schedule = the dates of the range that are the last Monday–Friday date of
                their month (`isBMonthEnd`), stamped; `C13_eom_char`, `C13_eom_last` characterise `isBMonthEnd`;
* `C13_bh`      buy-and-hold = the start if a business day, else the same time on the next business day
                (`C13_bh_next`: which is the following Monday, the least later business day);
* `C13_sorted_*`, `C13_stamp_*`  strictly increasing, stamped 21:00 (14:30 when `pre`);
* `C13_meets_*` every weekly / daily / end-of-month instant is the time of a market-close (market-open when
                `pre`) event of the simulation clock for the same range;
* `C13_reject`, `C13_parseWeekday_*`  an unknown weekday is an error; `parseWeekday` accepts exactly MON..FRI.

Month-based schedules carry `M0 ≤ dayOf start` (`M0` = 1600-01-01, where the model starts counting months): every instant pandas can represent (from 1677-09-21) satisfies it, so the hypothesis excludes no input of the code.
-/

namespace Qs.C13
open Qs Qs.Cal

/-! ## `parseWeekday` -/

/-- `parseWeekday` is `some` exactly on the (ASCII upper-cased) names MON..FRI, numbered 0..4 -/
theorem C13_parseWeekday_some (s : String) (k : Int) : parseWeekday s = some k ↔
    (s.toUpper = "MON" ∧ k = 0) ∨ (s.toUpper = "TUE" ∧ k = 1) ∨ (s.toUpper = "WED" ∧ k = 2) ∨
    (s.toUpper = "THU" ∧ k = 3) ∨ (s.toUpper = "FRI" ∧ k = 4) := by
  unfold parseWeekday
  split
  next h => simp only [h, Option.some.injEq]; constructor <;> intro h' <;> simp_all <;> omega
  next h => simp only [h, Option.some.injEq]; constructor <;> intro h' <;> simp_all <;> omega
  next h => simp only [h, Option.some.injEq]; constructor <;> intro h' <;> simp_all <;> omega
  next h => simp only [h, Option.some.injEq]; constructor <;> intro h' <;> simp_all <;> omega
  next h => simp only [h, Option.some.injEq]; constructor <;> intro h' <;> simp_all <;> omega
  next h1 h2 h3 h4 h5 =>
    constructor
    · intro h; cases h
    · rintro (⟨h, _⟩ | ⟨h, _⟩ | ⟨h, _⟩ | ⟨h, _⟩ | ⟨h, _⟩)
      · exact (h1 h).elim
      · exact (h2 h).elim
      · exact (h3 h).elim
      · exact (h4 h).elim
      · exact (h5 h).elim

theorem C13_parseWeekday_isSome (s : String) :
    (parseWeekday s).isSome = true ↔ s.toUpper ∈ ["MON", "TUE", "WED", "THU", "FRI"] := by
  rw [Option.isSome_iff_exists]
  simp only [C13_parseWeekday_some, List.mem_cons, List.not_mem_nil, or_false]
  constructor
  · rintro ⟨k, (h | h | h | h | h)⟩ <;> simp [h.1]
  · rintro (h | h | h | h | h)
    · exact ⟨0, Or.inl ⟨h, rfl⟩⟩
    · exact ⟨1, Or.inr (Or.inl ⟨h, rfl⟩)⟩
    · exact ⟨2, Or.inr (Or.inr (Or.inl ⟨h, rfl⟩))⟩
    · exact ⟨3, Or.inr (Or.inr (Or.inr (Or.inl ⟨h, rfl⟩)))⟩
    · exact ⟨4, Or.inr (Or.inr (Or.inr (Or.inr ⟨h, rfl⟩)))⟩

theorem C13_parseWeekday_none (s : String) :
    parseWeekday s = none ↔ s.toUpper ∉ ["MON", "TUE", "WED", "THU", "FRI"] := by
  rw [← C13_parseWeekday_isSome]
  cases parseWeekday s <;> simp

/-- an accepted weekday is Monday..Friday -/
theorem C13_parseWeekday_range (s : String) (k : Int) (h : parseWeekday s = some k) : 0 ≤ k ∧ k ≤ 4 := by
  rw [C13_parseWeekday_some] at h
  omega

/-- C13: an unknown weekday is rejected -/
theorem C13_reject (start end_ : Int) (s : String) (pre : Bool) (h : parseWeekday s = none) :
    weeklyRebalances start end_ s pre = .error .value := by
  unfold weeklyRebalances
  rw [h]

/-! ## The three range schedules as filters of the date range -/

/-- general form (any `start`, `end`): dates up to `hiOf start end` -/
theorem weekly_general (start end_ : Int) (s : String) (k : Int) (pre : Bool) (hp : parseWeekday s = some k) :
    weeklyRebalances start end_ s pre =
      .ok (((daysFrom (dayOf start) (hiOf start end_ + 1 - dayOf start).toNat).filter
        (fun d => decide (weekday d = k))).map (stamp pre)) := by
  have hk := C13_parseWeekday_range s k hp
  unfold weeklyRebalances
  rw [hp]
  simp only []
  rw [weeklyDays_eq k hk.1 (by omega)]

/-- C13 (weekly): exactly the dates of the range that fall on the chosen weekday -/
theorem C13_weekly (start end_ : Int) (s : String) (k : Int) (pre : Bool)
    (htod : todOf start ≤ todOf end_) (hp : parseWeekday s = some k) :
    weeklyRebalances start end_ s pre =
      .ok (((daysFrom (dayOf start) (dayOf end_ + 1 - dayOf start).toNat).filter
        (fun d => decide (weekday d = k))).map (stamp pre)) := by
  rw [weekly_general start end_ s k pre hp, hiOf_eq start end_ htod]

/-- C13 (daily): exactly the Monday–Friday dates of the range — for ANY `start`, `end` (both normalised) -/
theorem C13_daily (start end_ : Int) (pre : Bool) :
    dailyRebalances start end_ pre =
      ((daysFrom (dayOf start) (dayOf end_ + 1 - dayOf start).toNat).filter isBDay).map (stamp pre) := by
  unfold dailyRebalances
  rw [bdayRange_eq, hiOf_midnight]
  have : dayOf (dayOf start * 86400) = dayOf start := by generalize dayOf start = a; unfold dayOf; omega
  rw [this]

theorem eom_general (start end_ : Int) (pre : Bool) (h0 : M0 ≤ dayOf start) :
    eomRebalances start end_ pre =
      ((daysFrom (dayOf start) (hiOf start end_ + 1 - dayOf start).toNat).filter isBMonthEnd).map (stamp pre) := by
  unfold eomRebalances
  rw [bmeRangeDays_eq_filter start end_ h0]

/-- C13 (end of month): exactly the dates of the range that are the last Mon–Fri date of their month -/
theorem C13_eom (start end_ : Int) (pre : Bool) (h0 : M0 ≤ dayOf start) (htod : todOf start ≤ todOf end_) :
    eomRebalances start end_ pre =
      ((daysFrom (dayOf start) (dayOf end_ + 1 - dayOf start).toNat).filter isBMonthEnd).map (stamp pre) := by
  rw [eom_general start end_ pre h0, hiOf_eq start end_ htod]

/-- membership form of `C13_eom` on the dates -/
theorem C13_eom_sound_complete (start end_ x : Int) (h0 : M0 ≤ dayOf start) (htod : todOf start ≤ todOf end_) :
    x ∈ bmeRangeDays start end_ ↔ dayOf start ≤ x ∧ x ≤ dayOf end_ ∧ isBMonthEnd x = true := by
  rw [bmeRangeDays_eq_filter start end_ h0, hiOf_eq start end_ htod, mem_filter_daysFrom]
  constructor
  · rintro ⟨a, b, c⟩; exact ⟨a, by omega, c⟩
  · rintro ⟨a, b, c⟩; exact ⟨a, by omega, c⟩

/-- `isBMonthEnd d` ⇔ `d` is a business day whose next business day lies in another month -/
theorem C13_eom_char (d : Int) (hd : M0 ≤ d) :
    isBMonthEnd d = true ↔ isBDay d = true ∧ (findMonth (nextBDay d)).1 ≠ (findMonth d).1 :=
  isBMonthEnd_char hd

/-- `isBMonthEnd d` ⇔ `d` is a Monday–Friday date and every later date of its month is a weekend day.
Months: `findMonth d = (k, monthStart k)` with `monthStart k ≤ d < monthStart (k+1)`. -/
theorem C13_eom_last (d : Int) (hd : M0 ≤ d) :
    ∃ k, findMonth d = (k, monthStart k) ∧ monthStart k ≤ d ∧ d < monthStart (k + 1) ∧
      28 ≤ monthLen k ∧ monthLen k ≤ 31 ∧ monthStart (k + 1) = monthStart k + monthLen k ∧
      (isBMonthEnd d = true ↔
        isBDay d = true ∧ ∀ x, d < x → x < monthStart (k + 1) → isBDay x = false) := by
  obtain ⟨k, he, hk⟩ := findMonth_spec d hd
  have hl := lbd_spec k
  have hli := lbd_inMonth k
  refine ⟨k, he, hk.1, hk.2, (monthLen_bounds k).1, (monthLen_bounds k).2, rfl, ?_⟩
  rw [isBMonthEnd_of_inMonth hk]
  unfold InMonth at hk hli
  constructor
  · intro h; subst h; exact ⟨hl.2.2.1, hl.2.2.2⟩
  · rintro ⟨hb, hlater⟩
    by_cases h1 : d < lbd k
    · have := hlater (lbd k) h1 hl.2.1
      rw [hl.2.2.1] at this; cases this
    · by_cases h2 : lbd k < d
      · have := hl.2.2.2 d h2 hk.2
        rw [hb] at this; cases this
      · omega

/-! ## Buy and hold -/

/-- C13 (buy and hold): the start itself on a business day, else the same time on the next business day -/
theorem C13_bh (start : Int) :
    buyAndHold start =
      [if isBDay (dayOf start) then start else nextBDay (dayOf start) * 86400 + todOf start] := by
  unfold buyAndHold
  split <;> rfl

/-- on a weekend day, `nextBDay` is the following Monday: the least later business day; and the instant
`nextBDay d * 86400 + todOf start` lies on that date at the start's time of day -/
theorem C13_bh_next (start : Int) (h : isBDay (dayOf start) = false) :
    let m := nextBDay (dayOf start)
    dayOf start < m ∧ m ≤ dayOf start + 2 ∧ weekday m = 0 ∧ isBDay m = true ∧
    (∀ x, dayOf start < x → x < m → isBDay x = false) ∧
    dayOf (m * 86400 + todOf start) = m ∧ todOf (m * 86400 + todOf start) = todOf start := by
  intro m
  obtain ⟨n1, n2, n3⟩ := nextBDay_spec (dayOf start)
  refine ⟨n1, ?_, ?_, n2, n3, ?_, ?_⟩
  · rw [not_isBDay_iff] at h
    have hw : weekday (dayOf start) = (dayOf start + 3) % 7 := rfl
    show nextBDay (dayOf start) ≤ _
    unfold nextBDay
    by_cases h5 : weekday (dayOf start) = 5
    · rw [if_neg (by omega), if_pos h5]; omega
    · rw [if_neg (by omega), if_neg h5]; omega
  · rw [not_isBDay_iff] at h
    have hw : weekday (dayOf start) = (dayOf start + 3) % 7 := rfl
    show weekday (nextBDay (dayOf start)) = 0
    unfold nextBDay
    by_cases h5 : weekday (dayOf start) = 5
    · rw [if_neg (by omega), if_pos h5]
      show (dayOf start + 2 + 3) % 7 = 0
      omega
    · rw [if_neg (by omega), if_neg h5]
      show (dayOf start + 1 + 3) % 7 = 0
      omega
  · generalize m = a; unfold dayOf todOf; omega
  · generalize m = a; unfold todOf; omega

/-- on a business day the single instant is the start -/
theorem C13_bh_bday (start : Int) (h : isBDay (dayOf start) = true) : buyAndHold start = [start] := by
  rw [C13_bh, if_pos h]

/-! ## Stamps and order -/

/-- C13: every weekly instant is stamped 21:00 (14:30 when `pre`) on its date -/
theorem C13_stamp_weekly (start end_ : Int) (s : String) (pre : Bool) (l : List Int)
    (h : weeklyRebalances start end_ s pre = .ok l) (x : Int) (hx : x ∈ l) :
    todOf x = if pre then OPEN else CLOSE := by
  unfold weeklyRebalances at h
  split at h
  · cases h
  · injection h with h
    subst h
    obtain ⟨d, _, rfl⟩ := List.mem_map.1 hx
    exact todOf_stamp pre d

theorem C13_stamp_daily (start end_ : Int) (pre : Bool) (x : Int) (hx : x ∈ dailyRebalances start end_ pre) :
    todOf x = if pre then OPEN else CLOSE := by
  obtain ⟨d, _, rfl⟩ := List.mem_map.1 hx
  exact todOf_stamp pre d

theorem C13_stamp_eom (start end_ : Int) (pre : Bool) (x : Int) (hx : x ∈ eomRebalances start end_ pre) :
    todOf x = if pre then OPEN else CLOSE := by
  obtain ⟨d, _, rfl⟩ := List.mem_map.1 hx
  exact todOf_stamp pre d

/-- the stamps are 21:00:00 and 14:30:00 -/
theorem C13_stamp_values : CLOSE = 21 * 3600 ∧ OPEN = 14 * 3600 + 30 * 60 := ⟨rfl, rfl⟩

/-- C13: the weekly schedule is strictly increasing -/
theorem C13_sorted_weekly (start end_ : Int) (s : String) (pre : Bool) (l : List Int)
    (h : weeklyRebalances start end_ s pre = .ok l) : l.Pairwise (· < ·) := by
  cases hp : parseWeekday s with
  | none => rw [C13_reject start end_ s pre hp] at h; cases h
  | some k =>
    rw [weekly_general start end_ s k pre hp] at h
    injection h with h
    subst h
    exact map_stamp_pairwise pre _ (filter_daysFrom_pairwise _ _ _)

/-- C13: the daily schedule is strictly increasing -/
theorem C13_sorted_daily (start end_ : Int) (pre : Bool) : (dailyRebalances start end_ pre).Pairwise (· < ·) := by
  rw [C13_daily]
  exact map_stamp_pairwise pre _ (filter_daysFrom_pairwise _ _ _)

/-- C13: the end-of-month schedule is strictly increasing -/
theorem C13_sorted_eom (start end_ : Int) (pre : Bool) (h0 : M0 ≤ dayOf start) :
    (eomRebalances start end_ pre).Pairwise (· < ·) := by
  rw [eom_general start end_ pre h0]
  exact map_stamp_pairwise pre _ (filter_daysFrom_pairwise _ _ _)

/-- C13: each range schedule is strictly increasing (buy-and-hold is a single instant) -/
theorem C13_sorted (start end_ : Int) (s : String) (pre : Bool) (h0 : M0 ≤ dayOf start) :
    (∀ l, weeklyRebalances start end_ s pre = .ok l → l.Pairwise (· < ·)) ∧
    (dailyRebalances start end_ pre).Pairwise (· < ·) ∧
    (eomRebalances start end_ pre).Pairwise (· < ·) ∧
    (buyAndHold start).length = 1 :=
  ⟨fun l h => C13_sorted_weekly start end_ s pre l h, C13_sorted_daily start end_ pre,
    C13_sorted_eom start end_ pre h0, by rw [C13_bh]; rfl⟩

/-- C13: every instant of a range schedule is stamped 21:00 UTC (14:30 when `pre`) -/
theorem C13_stamp (start end_ : Int) (s : String) (pre : Bool) (x : Int)
    (hx : (∃ l, weeklyRebalances start end_ s pre = .ok l ∧ x ∈ l) ∨ x ∈ dailyRebalances start end_ pre ∨
      x ∈ eomRebalances start end_ pre) :
    todOf x = if pre then OPEN else CLOSE := by
  rcases hx with ⟨l, hl, hx⟩ | hx | hx
  · exact C13_stamp_weekly start end_ s pre l hl x hx
  · exact C13_stamp_daily start end_ pre x hx
  · exact C13_stamp_eom start end_ pre x hx

/-! ## Every scheduled instant meets a clock event -/

/-- C13 (weekly meets the clock): for any `start ≤ end` (the time-of-day precondition is not needed: both
ranges keep the start's time of day) -/
theorem C13_meets_weekly (start end_ : Int) (s : String) (pre spre spost : Bool) (l : List Int)
    (hle : start ≤ end_) (h : weeklyRebalances start end_ s pre = .ok l) (x : Int) (hx : x ∈ l) :
    ∃ evs, simEvents start end_ spre spost = .ok evs ∧
      ∃ e ∈ evs, e.time = x ∧ e.kind = (if pre then EvKind.marketOpen else EvKind.marketClose) := by
  cases hp : parseWeekday s with
  | none => rw [C13_reject start end_ s pre hp] at h; cases h
  | some k =>
    have hk := C13_parseWeekday_range s k hp
    rw [weekly_general start end_ s k pre hp] at h
    injection h with h
    subst h
    obtain ⟨d, hd, rfl⟩ := List.mem_map.1 hx
    rw [mem_filter_daysFrom] at hd
    refine meets_core start end_ pre spre spost hle d ?_
    rw [bdayRange_eq, mem_filter_daysFrom]
    refine ⟨hd.1, hd.2.1, ?_⟩
    have := hd.2.2
    simp only [decide_eq_true_eq] at this
    simp only [isBDay, decide_eq_true_eq]
    omega

/-- C13 (daily meets the clock): needs the end's time of day not before the start's — otherwise the clock
drops the end date while the (normalised) daily schedule keeps it -/
theorem C13_meets_daily (start end_ : Int) (pre spre spost : Bool)
    (hle : start ≤ end_) (htod : todOf start ≤ todOf end_) (x : Int) (hx : x ∈ dailyRebalances start end_ pre) :
    ∃ evs, simEvents start end_ spre spost = .ok evs ∧
      ∃ e ∈ evs, e.time = x ∧ e.kind = (if pre then EvKind.marketOpen else EvKind.marketClose) := by
  rw [C13_daily] at hx
  obtain ⟨d, hd, rfl⟩ := List.mem_map.1 hx
  refine meets_core start end_ pre spre spost hle d ?_
  rw [bdayRange_eq, hiOf_eq start end_ htod]
  exact hd

/-- C13 (end-of-month meets the clock) -/
theorem C13_meets_eom (start end_ : Int) (pre spre spost : Bool)
    (hle : start ≤ end_) (h0 : M0 ≤ dayOf start) (x : Int) (hx : x ∈ eomRebalances start end_ pre) :
    ∃ evs, simEvents start end_ spre spost = .ok evs ∧
      ∃ e ∈ evs, e.time = x ∧ e.kind = (if pre then EvKind.marketOpen else EvKind.marketClose) := by
  rw [eom_general start end_ pre h0] at hx
  obtain ⟨d, hd, rfl⟩ := List.mem_map.1 hx
  rw [mem_filter_daysFrom] at hd
  refine meets_core start end_ pre spre spost hle d ?_
  rw [bdayRange_eq, mem_filter_daysFrom]
  have hd0 : M0 ≤ d := by omega
  exact ⟨hd.1, hd.2.1, ((isBMonthEnd_char hd0).1 hd.2.2).1⟩

/-- C13 in the stated form (`pre = false`, clock without pre/post events): every weekly, daily and
end-of-month instant is the time of a market-close event of the clock for the same range -/
theorem C13_meets (start end_ : Int) (s : String) (hle : start ≤ end_) (htod : todOf start ≤ todOf end_) (x : Int) :
    ((∃ l, weeklyRebalances start end_ s false = .ok l ∧ x ∈ l) ∨ x ∈ dailyRebalances start end_ false ∨
      (M0 ≤ dayOf start ∧ x ∈ eomRebalances start end_ false)) →
    ∃ evs, simEvents start end_ false false = .ok evs ∧
      ∃ e ∈ evs, e.time = x ∧ e.kind = EvKind.marketClose := by
  rintro (⟨l, hl, hx⟩ | hx | ⟨h0, hx⟩)
  · exact C13_meets_weekly start end_ s false false false l hle hl x hx
  · exact C13_meets_daily start end_ false false false hle htod x hx
  · exact C13_meets_eom start end_ false false false hle h0 x hx

/-! ## Non-vacuity -/

section Examples

/-- the hypotheses of `C13_weekly` are satisfiable; lower-case names are accepted -/
example : parseWeekday "wed" = some 2 ∧ parseWeekday "FRI" = some 4 ∧ parseWeekday "Sat" = none ∧
    parseWeekday "" = none := by decide +kernel

/-- 2020-02-24 (Mon, day 18316) 09:00 … 2020-03-31 (Tue, day 18352) 17:00.
Wednesdays: 02-26, 03-04, 03-11, 03-18, 03-25 (days 18318 + 7 i). -/
example :
    let start : Int := 18316 * 86400 + 32400
    let end_ : Int := 18352 * 86400 + 61200
    start ≤ end_ ∧ todOf start ≤ todOf end_ ∧ M0 ≤ dayOf start ∧
    ((dateRangeDays (fun d => decide (weekday d = 2)) (fun d => d + ((2 - weekday d - 1) % 7 + 1)) start end_).map
        (stamp false)) =
      [18318 * 86400 + 75600, 18325 * 86400 + 75600, 18332 * 86400 + 75600, 18339 * 86400 + 75600,
       18346 * 86400 + 75600] ∧
    -- month ends: February 2020 ends on Saturday 02-29 (day 18321) so its business month end is Friday 02-28
    -- (day 18320); March ends on Tuesday 03-31 (day 18352)
    weekday 18321 = 5 ∧ isBMonthEnd 18321 = false ∧
    eomRebalances start end_ false = [18320 * 86400 + 75600, 18352 * 86400 + 75600] ∧
    eomRebalances start end_ true = [18320 * 86400 + 52200, 18352 * 86400 + 52200] := by
  refine ⟨by decide, by decide, by decide, by decide +kernel, by decide +kernel, by decide +kernel,
    by decide +kernel, by decide +kernel⟩

/-- weekly through the public function (the weekday name is evaluated by the kernel) -/
example : ∃ l, weeklyRebalances (18316 * 86400 + 32400) (18330 * 86400 + 61200) "wed" false = .ok l ∧
    l = [18318 * 86400 + 75600, 18325 * 86400 + 75600] := by
  have hp : parseWeekday "wed" = some 2 := by decide +kernel
  refine ⟨_, C13_weekly _ _ "wed" 2 false (by decide) hp, by rfl⟩

/-- 2019-03-31 is a Sunday (day 17986): the business month end of March 2019 is Friday 03-29 (day 17984);
a range 03-28 … 04-01 contains it and nothing else; the daily schedule skips the weekend. -/
example :
    weekday 17986 = 6 ∧ bmeRangeDays (17983 * 86400) (17987 * 86400) = [17984] ∧
    dailyRebalances (17983 * 86400 + 100) (17987 * 86400 + 5) false =
      [17983 * 86400 + 75600, 17984 * 86400 + 75600, 17987 * 86400 + 75600] := by
  refine ⟨by decide +kernel, by decide +kernel, by decide +kernel⟩

/-- buy and hold from Saturday 2020-02-29 10:00 → Monday 2020-03-02 10:00; from Friday → itself -/
example : buyAndHold (18321 * 86400 + 36000) = [18323 * 86400 + 36000] ∧
    buyAndHold (18320 * 86400 + 36000) = [18320 * 86400 + 36000] := by
  refine ⟨by rfl, by rfl⟩

/-- `C13_eom_char` both ways on concrete days: 2020-02-28 (Fri) is a month end, 2020-02-27 (Thu) is not -/
example : isBMonthEnd 18320 = true ∧ (findMonth (nextBDay 18320)).1 = 5042 ∧ (findMonth 18320).1 = 5041 ∧
    isBMonthEnd 18319 = false ∧ (findMonth (nextBDay 18319)).1 = (findMonth 18319).1 := by
  refine ⟨by decide +kernel, by decide +kernel, by decide +kernel, by decide +kernel, by decide +kernel⟩

end Examples

end Qs.C13
