import QsProofs.Lemmas.SessionLifts
import QsProofs.Props.C09
import QsProofs.Props.C08
import Mathlib.Data.Rat.Floor
import Mathlib.Tactic.NormNum

/-!
# C09 (session level) — once the rebalance orders fill, holdings equal the target

Property C09: "… once those orders fill, holdings equal the target", "repeated over successive rebalances".

`Props/C09.lean` proves the arithmetic (`C09_reach_exact`: `applyOrders held orders = target`, where `applyOrders` is
*defined* as held + ordered quantity) and C04 proves that the broker fills every queued order in full.  Here the two
are joined on the model's own state: the positions the broker stores after the fills (`heldOf`, what the next
portfolio construction reads) are the target, as finite maps.

* `C09_session_reach_close`  a rebalance (`rebalanceAt`, any alpha model) at an instant outside exchange hours, from
                             holdings `held` with nothing pending and sizer output `target`: the holdings stay, the queue
                             becomes `rebalanceOrders target held`; after the next `broker.update` inside exchange hours
                             that returns normally, `heldOf` has distinct keys, no zero quantity and quantity
                             `target a` for every asset `a` (`0` where the target is silent); nothing is pending.
* `C09_session_reach_open`   a rebalance at an instant inside exchange hours (buy-and-hold at 14:30): the same holds
                             immediately after `rebalanceAt`.
* `C09_session_reach_run`    the same for a session constructed by `Session.init` and run without error up to a
                             close-time rebalance followed by a market open: the holdings after the open event are the
                             target sized at the close — for every rebalance of the run ("repeated").

"`b` represents `st`" (`Ref.BR`, the abstraction relation of C08) is the reachable-state invariant: one portfolio
`PORTFOLIO_ID`, distinct position keys, clocks not after `t`, integer holdings `st.hold` without zero entries, queue
`st.pending`.  `Lift.init_rep` / `Lift.step_rep` / `Lift.run_rep` prove it for `Session.init` and along every run
without error, for any alpha model (with or without signals).  `qtyOf l a = (l.lookup a).getD 0`.

Hypotheses:
* `hpos` — prices are positive (a non-positive price is refused by the position handler);
* every held asset is quoted at the update instant (`hq`) — a held asset without a quote is left unmarked by the
  model (outside every quantifier of the property); an *ordered* asset without a quote makes the update raise, which
  "returns normally" excludes;
* `hα` — the alpha model's weights are a dict (pairwise distinct keys).
-/

set_option linter.unusedSectionVars false
set_option linter.unusedVariables false

namespace Qs
open NumOps Num Qs.Sess Qs.Lift Qs.Ref

section
variable {α : Type} [Field α] [LinearOrder α] [IsStrictOrderedRing α] [FloorRing α] [NumOps α] [LawfulNumOps α]

/-- **C09 (session, reach at the next open).** A rebalance outside exchange hours (a market close) of a session
whose broker represents `st` with nothing pending, returning normally.  Then the sizer returned some `target`; the
holdings are untouched and the pending orders are exactly `rebalanceOrders target held`; and for every later instant
`t'` inside exchange hours at which the held assets are quoted, if `broker.update t'` returns normally then afterwards
`heldOf` — a list with distinct keys and no zero quantity — gives every asset its target quantity (`0` for an asset the
target does not mention), the queue is empty again, and the broker is again represented with nothing pending. -/
theorem C09_session_reach_close (cfg : SessionCfg α) (alpha : Alpha α) (px : Px α)
    (hpos : ∀ t a p, px t a = some p → 0 < p) (s s1 : Session α) (st : RefState α) (t : Int)
    (hbr : BR cfg.fee s.broker st t) (hm : Marked px t s.broker) (hp : st.pending = [])
    (hclosed : isOpen t = false)
    (hα : ((alpha t s.signals (cfg.uni.assets t)).map (·.1)).Nodup)
    (hreb : rebalanceAt cfg alpha px t s = (s1, none)) :
    ∃ target, sizerOf cfg (equityOf s.broker) (px t) (recordedWeights cfg alpha t s) = .ok target ∧
      heldOf s1.broker = heldOf s.broker ∧
      pendingOf s1.broker = rebalanceOrders target (heldOf s.broker) ∧
      ∀ t' b2, t ≤ t' → isOpen t' = true → (∀ x ∈ heldOf s.broker, (px t' x.1).isSome) →
        s1.broker.update t' (quotesAt px t') = (b2, none) →
        (∀ a, qtyOf (heldOf b2) a = qtyOf target a) ∧
        ((heldOf b2).map (·.1)).Nodup ∧ (∀ x ∈ heldOf b2, x.2 ≠ 0) ∧
        pendingOf b2 = [] ∧ QueuesEmpty b2 ∧
        ∃ st', BR cfg.fee b2 st' t' ∧ Marked px t' b2 ∧ st'.pending = [] :=
  reach_close cfg alpha px hpos s s1 st t hbr hm hp hclosed hα hreb

/-- **C09 (session, reach at once).** A rebalance at an instant inside exchange hours (buy-and-hold started at
14:30) of a session whose broker represents `st` with nothing pending, returning normally: immediately after
`rebalanceAt`, `heldOf` gives every asset its target quantity, with distinct keys and no zero quantity, and the queue
is empty. -/
theorem C09_session_reach_open (cfg : SessionCfg α) (alpha : Alpha α) (px : Px α)
    (hpos : ∀ t a p, px t a = some p → 0 < p) (s s1 : Session α) (st : RefState α) (t : Int)
    (hbr : BR cfg.fee s.broker st t) (hm : Marked px t s.broker) (hp : st.pending = [])
    (hopen : isOpen t = true)
    (hα : ((alpha t s.signals (cfg.uni.assets t)).map (·.1)).Nodup)
    (hreb : rebalanceAt cfg alpha px t s = (s1, none)) :
    ∃ target, sizerOf cfg (equityOf s.broker) (px t) (recordedWeights cfg alpha t s) = .ok target ∧
      (∀ a, qtyOf (heldOf s1.broker) a = qtyOf target a) ∧
      ((heldOf s1.broker).map (·.1)).Nodup ∧ (∀ x ∈ heldOf s1.broker, x.2 ≠ 0) ∧
      pendingOf s1.broker = [] ∧ QueuesEmpty s1.broker ∧
      ∃ st', BR cfg.fee s1.broker st' t ∧ Marked px t s1.broker ∧ st'.pending = [] :=
  reach_open cfg alpha px hpos s s1 st t hbr hm hp hopen hα hreb

/-- **C09 (session, along a run).** A session constructed by `Session.init` (any alpha model, any universe, with or
without signals) run without error over events `pre ++ [evc, evo]` in time order, where `evc` is a rebalance instant
outside exchange hours (a market close), `evo` is inside exchange hours and not a rebalance instant (the next market
open), and the event before `evc` (if any) was inside exchange hours (so nothing is pending at `evc`).  Then the
holdings after `evo` are exactly the target the sizer produced at `evc`: quantity `target a` for every asset, distinct
keys, no zero quantity, and the queue is empty.  The target is the sizer's output on the weight vector recorded at
`evc` (the last allocation record), from the equity of the state after `evc`'s broker update and signals stage.
Nothing is assumed about earlier rebalances, so this holds for each rebalance of a run in turn.

`A` is any set of assets containing every universe member and every key the alpha model can produce; its members
must be quoted at every event (as in `C08_refines`). -/
theorem C09_session_reach_run (cfg : SessionCfg α) (alpha : Alpha α) (px : Px α)
    (hpos : ∀ t a p, px t a = some p → 0 < p) (A : String → Prop)
    (hA : ∀ t a, a ∈ cfg.uni.assets t → A a)
    (hAw : ∀ t sg u, ∀ a ∈ (alpha t sg u).map (·.1), A a)
    (hα : ∀ t sg u, ((alpha t sg u).map (·.1)).Nodup)
    (s0 : Session α) (events : List SimEvent) (sched : List Int)
    (hinit : Session.init cfg = .ok (s0, events, sched))
    (pre : List SimEvent) (evc evo : SimEvent)
    (hsorted : ((pre ++ [evc, evo]).map (·.time)).Pairwise (· ≤ ·))
    (hstart : ∀ ev ∈ pre ++ [evc, evo], cfg.start ≤ ev.time)
    (hq : ∀ ev ∈ pre ++ [evc, evo], ∀ a, A a → (px ev.time a).isSome)
    (hpre : ∀ ev, pre.getLast? = some ev → isOpen ev.time = true)
    (hc : isOpen evc.time = false) (hrebc : isReb cfg sched evc.time = true)
    (ho : isOpen evo.time = true) (hrebo : isReb cfg sched evo.time = false)
    (s' : Session α) (hrun : Session.runEvents cfg alpha px sched s0 (pre ++ [evc, evo]) = (s', none)) :
    ∃ sm b smid target,
      Session.runEvents cfg alpha px sched s0 pre = (sm, none) ∧
      sm.broker.update evc.time (quotesAt px evc.time) = (b, none) ∧
      sigStage cfg px evc { sm with broker := b } = (smid, none) ∧
      sizerOf cfg (equityOf smid.broker) (px evc.time) (recordedWeights cfg alpha evc.time smid) = .ok target ∧
      s'.allocations.getLast? = some (evc.time, recordedWeights cfg alpha evc.time smid) ∧
      (∀ a, qtyOf (heldOf s'.broker) a = qtyOf target a) ∧
      ((heldOf s'.broker).map (·.1)).Nodup ∧ (∀ x ∈ heldOf s'.broker, x.2 ≠ 0) ∧
      pendingOf s'.broker = [] ∧ QueuesEmpty s'.broker :=
  reach_run cfg alpha px hpos A hA hAw hα s0 events sched hinit pre evc evo hsorted hstart hq hpre hc hrebc ho
    hrebo s' hrun

end

/-! ## Non-vacuity at `α := ℚ` (`fieldNumOps ℚ`)

The session of the C08 example: Monday 2021-01-04 00:00 … Wednesday 2021-01-06 00:00, universe `["A"]`, weight `A ↦ 1`,
weekly rebalance on Tuesday, long-only without cash buffer, no fees, cash 1000; `A` trades at 9 at every open and at 10
otherwise.  `pre` = Monday's open and close and Tuesday's open, `evc` = Tuesday's close (sizes `⌊1000 / 10⌋ = 100`),
`evo` = Wednesday's open (the 100 shares fill). -/

section nonvacuity

noncomputable local instance (priority := high) ratOps09s : NumOps ℚ := fieldNumOps ℚ
local instance (priority := high) ratLawful09s : LawfulNumOps ℚ := fieldNumOps_lawful ℚ

def exPx09s : Px ℚ := fun t a => if a = "A" then (if t % 86400 = 52200 then some 9 else some 10) else none

noncomputable def exCfg09s : SessionCfg ℚ :=
  { start := 18631 * 86400, end_ := 18633 * 86400, rebalance := .weekly "TUE", longOnly := true, param := 0,
    fee := .zero, initialCash := 1000, uni := .static ["A"], nan := 0 }

def exAlpha09s : Alpha ℚ := fixedAlpha [("A", 1)]

def exPre09s : List SimEvent :=
  [⟨18631 * 86400 + 52200, .marketOpen⟩, ⟨18631 * 86400 + 75600, .marketClose⟩, ⟨18632 * 86400 + 52200, .marketOpen⟩]
def exEvc09s : SimEvent := ⟨18632 * 86400 + 75600, .marketClose⟩
def exEvo09s : SimEvent := ⟨18633 * 86400 + 52200, .marketOpen⟩
def exSched09s : List Int := [18632 * 86400 + 75600]

def okInit09s {β γ : Type} (sc : List Int) : Except Err (β × γ × List Int) → Bool
  | .ok (_, _, s) => decide (s = sc)
  | _ => false

theorem exInit09s : ∃ s0 events, Session.init exCfg09s = .ok (s0, events, exSched09s) := by
  have h : okInit09s exSched09s (Session.init exCfg09s) = true := by decide +kernel
  rcases hi : Session.init exCfg09s with e | ⟨s0, evs, sc⟩
  · rw [hi] at h; cases h
  · rw [hi] at h
    simp only [okInit09s, decide_eq_true_eq] at h
    subst h
    exact ⟨s0, evs, rfl⟩

noncomputable def exAfter09s : Option (Session ℚ × Option (Int × Err)) :=
  (Session.init exCfg09s).toOption.map fun r =>
    Session.runEvents exCfg09s exAlpha09s exPx09s r.2.2 r.1 (exPre09s ++ [exEvc09s, exEvo09s])

theorem exRun09s_ok : exAfter09s.map (fun r => r.2.isNone) = some true := by decide +kernel
theorem exRun09s_held : exAfter09s.map (fun r => heldOf r.1.broker) = some [("A", 100)] := by decide +kernel

theorem exPx09s_pos : ∀ t a p, exPx09s t a = some p → 0 < p := by
  intro t a p h
  unfold exPx09s at h
  split at h
  · split at h <;> (cases h; norm_num)
  · cases h

/-- every hypothesis of `C09_session_reach_run` holds on the example; its conclusion is about the holdings
`[("A", 100)]` (kernel evaluation), i.e. the target `A ↦ 100` sized on Tuesday's close has been reached on Wednesday's
open -/
example : ∃ s0 events s' target, Session.init exCfg09s = .ok (s0, events, exSched09s) ∧
    Session.runEvents exCfg09s exAlpha09s exPx09s exSched09s s0 (exPre09s ++ [exEvc09s, exEvo09s]) = (s', none) ∧
    heldOf s'.broker = [("A", 100)] ∧ (∀ a, qtyOf (heldOf s'.broker) a = qtyOf target a) ∧
    qtyOf target "A" = 100 ∧ pendingOf s'.broker = [] := by
  obtain ⟨s0, events, h0⟩ := exInit09s
  have hok := exRun09s_ok
  have hheld := exRun09s_held
  simp only [exAfter09s, h0, Except.toOption, Option.map_some, Option.some.injEq,
    Option.isNone_iff_eq_none] at hok hheld
  have hrun : Session.runEvents exCfg09s exAlpha09s exPx09s exSched09s s0 (exPre09s ++ [exEvc09s, exEvo09s]) =
      ((Session.runEvents exCfg09s exAlpha09s exPx09s exSched09s s0 (exPre09s ++ [exEvc09s, exEvo09s])).1, none) :=
    Prod.ext rfl hok
  obtain ⟨_, _, _, target, _, _, _, _, _, hq, _, _, hp, _⟩ :=
    C09_session_reach_run exCfg09s exAlpha09s exPx09s exPx09s_pos (fun a => a = "A")
      (by intro t a ha; simpa [exCfg09s, UniverseSpec.assets, staticAssets] using ha)
      (by intro t sg u a ha; simpa [exAlpha09s, fixedAlpha] using ha)
      (by intro t sg u; simp [exAlpha09s, fixedAlpha])
      s0 events exSched09s h0 exPre09s exEvc09s exEvo09s (by decide) (by decide)
      (by
        intro ev _ a ha
        subst ha
        unfold exPx09s
        simp only [if_true]
        split <;> rfl)
      (by intro ev hev; simp only [exPre09s, List.getLast?_cons_cons, List.getLast?_singleton,
            Option.some.injEq] at hev; subst hev; decide)
      (by decide) (by decide) (by decide) (by decide) _ hrun
  refine ⟨s0, events, _, target, h0, hrun, hheld, hq, ?_, hp⟩
  rw [← hq "A", hheld]
  rfl

/-- the rebalance-at-the-open branch: Monday 14:30, buy-and-hold; sized from the open price 9 (`⌊1000 / 9⌋ = 111`)
and filled at once.  The constructed session is represented (`Lift.init_rep`), holds nothing, and is at its own start
instant, which is inside exchange hours: all hypotheses of `C09_session_reach_open` hold. -/
noncomputable def exCfg09b : SessionCfg ℚ :=
  { exCfg09s with start := 18631 * 86400 + 52200, end_ := 18632 * 86400 + 52200, rebalance := .buyAndHold }

def okInit09b {β : Type} : Except Err β → Bool
  | .ok _ => true
  | _ => false

theorem exInit09b : ∃ s0 events sched, Session.init exCfg09b = .ok (s0, events, sched) := by
  have h : okInit09b (Session.init exCfg09b) = true := by decide +kernel
  rcases hi : Session.init exCfg09b with e | ⟨s0, evs, sc⟩
  · rw [hi] at h; cases h
  · exact ⟨s0, evs, sc, rfl⟩

theorem exReb09b_ok : (Session.init exCfg09b).toOption.map
    (fun r => (rebalanceAt exCfg09b exAlpha09s exPx09s exCfg09b.start r.1).2.isNone) = some true := by
  decide +kernel
theorem exReb09b_held : (Session.init exCfg09b).toOption.map
    (fun r => heldOf (rebalanceAt exCfg09b exAlpha09s exPx09s exCfg09b.start r.1).1.broker) = some [("A", 111)] := by
  decide +kernel

example : ∃ s0 s1 target, rebalanceAt exCfg09b exAlpha09s exPx09s exCfg09b.start s0 = (s1, none) ∧
    heldOf s1.broker = [("A", 111)] ∧ (∀ a, qtyOf (heldOf s1.broker) a = qtyOf target a) ∧
    pendingOf s1.broker = [] := by
  obtain ⟨s0, events, sched, h0⟩ := exInit09b
  have hok := exReb09b_ok
  have hheld := exReb09b_held
  simp only [h0, Except.toOption, Option.map_some, Option.some.injEq, Option.isNone_iff_eq_none] at hok hheld
  have hreb : rebalanceAt exCfg09b exAlpha09s exPx09s exCfg09b.start s0 =
      ((rebalanceAt exCfg09b exAlpha09s exPx09s exCfg09b.start s0).1, none) := Prod.ext rfl hok
  have hbr := init_rep exCfg09b s0 events sched h0
  have hm : Marked exPx09s exCfg09b.start s0.broker := by
    have := (init_occ exCfg09b s0 events sched h0).pos
    intro e he p hp
    exact (this e he p hp).elim
  obtain ⟨target, _, hq, _, _, hp, _⟩ := C09_session_reach_open exCfg09b exAlpha09s exPx09s exPx09s_pos s0 _ _ _
    hbr hm rfl (by decide) (by simp [exAlpha09s, fixedAlpha]) hreb
  exact ⟨s0, _, target, hreb, hheld, hq, hp⟩

end nonvacuity

end Qs
