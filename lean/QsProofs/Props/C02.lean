import QsProofs.Lemmas.Holdings
import QsProofs.Lemmas.HoldingsBroker
import Mathlib.Data.Rat.Floor

/-!
# C02 — Holdings equal the net of all fills and are valued at the latest price

For every valid event list `es` (fills and price marks, see `Qs.C02.Valid`) applied with the model's own
`Portfolio.transactAsset` / `Portfolio.mark` to a portfolio `p0` that holds nothing
(`p0.positions = []`, e.g. `Portfolio.new id t0`; cash and history arbitrary) whose clock is `≤ c`:

* `C02_no_error`      no step raises;
* `C02_quantity`      quantity of `a` = signed sum of all fills of `a`; absent ⇒ the sum is `0`;
* `C02_membership`    `a` is in the dictionary ⇔ that sum is non-zero; keys are pairwise distinct;
* `C02_last_price`    the stored price is `lastSeen a es`;
* `C02_value`         market value = Σ net·price = Σ_{a held} (Σ fills)·lastSeen; equity = value + cash.

The `_from` versions in `QsProofs/Lemmas/Holdings.lean` (`run_ok`) start from ANY portfolio satisfying
the invariants `WF`/`Tracks`.
-/

namespace Qs.C02
open NumOps Num

section
variable {α : Type} [Field α] [LinearOrder α] [IsStrictOrderedRing α] [FloorRing α] [NumOps α] [LawfulNumOps α]

/-- combined consequence of `run_ok` for an initially empty portfolio -/
theorem run_empty (p0 : Portfolio α) (c : Int) (es : List (PEv α))
    (hempty : p0.positions = []) (hclock : p0.clock ≤ c) (hv : Valid c es) :
    NoErr p0 es ∧ (∃ c', WF (run p0 es) c') ∧ Tracks (run p0 es) (fun a => seen a es) :=
  run_ok es p0 c (fun _ => (0, none)) (WF_of_empty hempty hclock) (Tracks_of_empty hempty) hv

/-- Under `Valid` no step returns an error. -/
theorem C02_no_error (p0 : Portfolio α) (c : Int) (es : List (PEv α))
    (hempty : p0.positions = []) (hclock : p0.clock ≤ c) (hv : Valid c es) :
    NoErr p0 es :=
  (run_empty p0 c es hempty hclock hv).1

/-- **C02 (quantity).** The quantity held in `a` is the signed sum of all quantities filled in `a`;
if `a` is not in the dictionary that sum is zero. -/
theorem C02_quantity (p0 : Portfolio α) (c : Int) (es : List (PEv α))
    (hempty : p0.positions = []) (hclock : p0.clock ≤ c) (hv : Valid c es) (a : String) :
    (∀ pos, (run p0 es).positions.find? a = some pos → pos.net = ((fillSum a es : Int) : α)) ∧
    ((run p0 es).positions.find? a = none → fillSum a es = 0) := by
  obtain ⟨_, _, htr⟩ := run_empty p0 c es hempty hclock hv
  have h := htr a
  simp only [seen_fst] at h
  exact ⟨fun pos hf => (h.1 pos hf).1, h.2⟩

/-- **C02 (membership).** `a` appears in the holdings iff the signed sum of its fills is non-zero. -/
theorem C02_membership (p0 : Portfolio α) (c : Int) (es : List (PEv α))
    (hempty : p0.positions = []) (hclock : p0.clock ≤ c) (hv : Valid c es) (a : String) :
    (run p0 es).positions.contains a = true ↔ fillSum a es ≠ 0 := by
  obtain ⟨_, _, htr⟩ := run_empty p0 c es hempty hclock hv
  rw [Positions.contains_iff_mem_keys, mem_keys_iff_ghost _ _ htr a, seen_fst]

/-- **C02 (dictionary invariant).** Asset keys are pairwise distinct: no duplicates in the report. -/
theorem C02_keys_nodup (p0 : Portfolio α) (c : Int) (es : List (PEv α))
    (hempty : p0.positions = []) (hclock : p0.clock ≤ c) (hv : Valid c es) :
    ((run p0 es).positions.map (·.asset)).Nodup := by
  obtain ⟨_, ⟨_, hwf⟩, _⟩ := run_empty p0 c es hempty hclock hv
  exact hwf.nodup

/-- **C02 (latest price).** The price stored for a held asset is the price of the last event that is
a fill of `a` or a mark of `a` made while `a` was held (`lastSeen`, characterised by the
`lastSeen_snoc_*` equations). -/
theorem C02_last_price (p0 : Portfolio α) (c : Int) (es : List (PEv α))
    (hempty : p0.positions = []) (hclock : p0.clock ≤ c) (hv : Valid c es) (a : String)
    (pos : Position α) (hf : (run p0 es).positions.find? a = some pos) :
    lastSeen a es = some pos.price := by
  obtain ⟨_, _, htr⟩ := run_empty p0 c es hempty hclock hv
  exact ((htr a).1 pos hf).2.2

/-- **C02 (value).** Market value is the sum over the dictionary of `net * price`, which is the sum
over the held assets (`heldAssets es`: non-zero fill sum, each once) of fill-sum × last seen price;
equity is market value plus cash. -/
theorem C02_value (p0 : Portfolio α) (c : Int) (es : List (PEv α))
    (hempty : p0.positions = []) (hclock : p0.clock ≤ c) (hv : Valid c es) :
    (run p0 es).totalMarketValue
        = ((run p0 es).positions.map (fun pos => pos.net * pos.price)).sum ∧
    (run p0 es).totalMarketValue
        = ((heldAssets es).map
            (fun a => ((fillSum a es : Int) : α) * (lastSeen a es).getD 0)).sum ∧
    (run p0 es).totalEquity = (run p0 es).totalMarketValue + (run p0 es).cash := by
  obtain ⟨_, ⟨c', hwf⟩, htr⟩ := run_empty p0 c es hempty hclock hv
  refine ⟨totalMarketValue_eq_sum _, ?_, rfl⟩
  have h := totalMarketValue_ghost (run p0 es) c' (fun a => seen a es) hwf htr (heldAssets es)
    (heldAssets_nodup es) (fun a => by rw [mem_heldAssets, seen_fst])
  rw [h]
  congr 1
  apply List.map_congr_left
  intro a _
  simp only [ghostValue, seen_fst, lastSeen]

/-- the same value identity for ANY duplicate-free enumeration `L` of the assets with non-zero fill sum -/
theorem C02_value_any_enumeration (p0 : Portfolio α) (c : Int) (es : List (PEv α))
    (hempty : p0.positions = []) (hclock : p0.clock ≤ c) (hv : Valid c es)
    (L : List String) (hL : L.Nodup) (hmem : ∀ a, a ∈ L ↔ fillSum a es ≠ 0) :
    (run p0 es).totalMarketValue
        = (L.map (fun a => ((fillSum a es : Int) : α) * (lastSeen a es).getD 0)).sum := by
  obtain ⟨_, ⟨c', hwf⟩, htr⟩ := run_empty p0 c es hempty hclock hv
  have h := totalMarketValue_ghost (run p0 es) c' (fun a => seen a es) hwf htr L hL
    (fun a => by rw [hmem, seen_fst])
  rw [h]
  congr 1
  apply List.map_congr_left
  intro a _
  simp only [ghostValue, seen_fst, lastSeen]

/-! ## Lift to the broker: the marks of `Broker.update`

Domain (`BWF b t`): portfolio ids pairwise distinct; in every portfolio the asset keys are pairwise
distinct and the portfolio clock and all position clocks are `≤ t`.  Quotes: every quoted held asset
has a positive mid `(bid + ask) / 2`. -/

/-- **C02 (mark targets).** `markTargets` is, portfolio by portfolio in insertion order, the held
assets that have a quote in dictionary order, each with its mid price; the `(portfolio, asset)` keys
of the targets are pairwise distinct (exactly one target per slot); when every held asset has a quote
the list has exactly one entry per (portfolio, held asset). -/
theorem C02_markTargets (b : Broker α) (q : Quotes α) :
    b.markTargets q = b.entries.flatMap (fun e =>
      (e.pf.positions.filter (fun pos => (q pos.asset).isSome)).map
        (fun pos => (e.pf.id, pos.asset, mid q pos.asset))) ∧
    (∀ t, BWF b t → ((b.markTargets q).map (fun m => (m.1, m.2.1))).Nodup) ∧
    ((∀ e ∈ b.entries, ∀ pos ∈ e.pf.positions, (q pos.asset).isSome = true) →
      b.markTargets q = b.entries.flatMap (fun e =>
        e.pf.positions.map (fun pos => (e.pf.id, pos.asset, mid q pos.asset)))) :=
  ⟨markTargets_eq b q, fun t hb => markTargets_keys_nodup b q t hb,
    markTargets_eq_of_all_quoted b q⟩

/-- **C02 (effect of one mark).** In the domain (`WF p t`: clocks `≤ t`, distinct keys; `0 < pr`) a
mark raises nothing, changes no quantity (nor any field other than `price`/`clock` of the marked
asset), sets the marked position's price to `pr` and clock to `t`, and leaves cash alone. -/
theorem C02_mark_effect (p : Portfolio α) (t : Int) (hwf : WF p t) (a : String) (pr : α)
    (hp : 0 < pr) :
    ∃ p', p.mark a pr t = (p', none) ∧ p'.cash = p.cash ∧
      p'.positions.map (fun x => (x.asset, x.buyQ, x.sellQ, x.avgB, x.avgS, x.comB, x.comS))
        = p.positions.map (fun x => (x.asset, x.buyQ, x.sellQ, x.avgB, x.avgS, x.comB, x.comS)) ∧
      (∀ pos, p.positions.find? a = some pos →
        p'.positions.find? a = some { pos with clock := t, price := pr }) ∧
      (∀ b, b ≠ a → p'.positions.find? b = p.positions.find? b) := by
  obtain ⟨_, hms⟩ := mark_spec p t hwf a hp (le_refl t)
  refine ⟨_, mark_map_form p t hwf a hp, rfl, ?_, ?_, ?_⟩
  · show List.map _ (List.map (upd a pr t) p.positions) = _
    rw [List.map_map]
    apply List.map_congr_left
    intro x _
    unfold upd
    by_cases h : x.asset = a <;> simp [h]
  · intro pos hf
    have h1 := mark_map_form p t hwf a hp
    rw [hms pos hf] at h1
    have h2 : (p.positions.map (upd a pr t)) = Positions.set p.positions { pos with clock := t, price := pr } := by
      have := congrArg (fun r => r.1.positions) h1
      exact this.symm
    show Positions.find? (List.map (upd a pr t) p.positions) a = _
    rw [h2]
    have hpos := Positions.find?_some hf
    have := Positions.find?_set_self p.positions { pos with clock := t, price := pr }
      (show pos.asset ∈ Positions.keys p.positions from List.mem_map.mpr ⟨pos, hpos.2, rfl⟩)
    rw [← hpos.1]; exact this
  · intro b hb
    show Positions.find? (List.map (upd a pr t) p.positions) b = _
    unfold Positions.find?
    rw [List.find?_map]
    have : ((fun x : Position α => x.asset == b) ∘ upd a pr t) = fun x : Position α => x.asset == b := by
      funext x; simp [upd_asset]
    rw [this]
    cases hf : List.find? (fun x : Position α => x.asset == b) p.positions with
    | none => rfl
    | some x =>
      have hx : x.asset = b := by simpa using List.find?_some hf
      simp [upd, hx, hb]

/-- **C02 (marks phase of `update`).** In the domain the marks raise nothing and the broker after
them is the old broker with clock `t` and every quoted held position re-priced at the mid and stamped
`t` (`markEntry`/`markPos`: nothing else changes — no quantity, no cash, no order queue); if the
exchange is closed at `t` that is the result of `update`. -/
theorem C02_update_marks_phase (b : Broker α) (t : Int) (q : Quotes α) (hb : BWF b t)
    (hpos : ∀ e ∈ b.entries, ∀ pos ∈ e.pf.positions, ∀ bid ask,
      q pos.asset = some (bid, ask) → 0 < (bid + ask) / 2) :
    Broker.runUntilErr (fun b (m : String × String × α) => b.applyMark m.1 m.2.1 m.2.2 t)
        { b with clock := t } (Broker.markTargets { b with clock := t } q)
      = ({ b with clock := t, entries := b.entries.map (markEntry q t) }, none) ∧
    (isOpen t = false →
      b.update t q = ({ b with clock := t, entries := b.entries.map (markEntry q t) }, none)) := by
  refine ⟨marks_phase b t q hb hpos, fun hclosed => ?_⟩
  rw [update_eq b t q hb hpos, hclosed]
  rfl

/-- **C02 (update marks).** After `Broker.update b t q` (exchange open or closed, whether or not the
order phase raises), every held position `(pid, a)` whose asset has a quote and for which no order is
queued (so it is not filled in this update) is the old position with `price = (bid + ask) / 2` and
`clock = t` — in particular its quantity is unchanged. -/
theorem C02_update_marks (b : Broker α) (t : Int) (q : Quotes α) (hb : BWF b t)
    (hpos : ∀ e ∈ b.entries, ∀ pos ∈ e.pf.positions, ∀ bid ask,
      q pos.asset = some (bid, ask) → 0 < (bid + ask) / 2)
    (pid a : String) (pos : Position α) (bid ask : α)
    (hheld : posOf b pid a = some pos) (hq : q a = some (bid, ask))
    (hnofill : ∀ x ∈ b.drained, ¬ (x.1 = pid ∧ x.2.asset = a)) :
    posOf (b.update t q).1 pid a = some { pos with clock := t, price := (bid + ask) / 2 } := by
  have hasset : pos.asset = a := by
    unfold posOf at hheld
    cases hf : b.find? pid with
    | none => rw [hf] at hheld; cases hheld
    | some e => rw [hf] at hheld; exact (Positions.find?_some hheld).1
  have hmarked : posOf { b with clock := t, entries := b.entries.map (markEntry q t) } pid a
      = some { pos with clock := t, price := (bid + ask) / 2 } := by
    rw [posOf_marked, hheld]
    simp only [Option.map_some, markPos, hasset, hq]
  rw [update_eq b t q hb hpos]
  by_cases ho : isOpen t = true
  · rw [if_pos ho, runOrders_frame, posOf_clearQueues, hmarked]
    intro x hx
    rw [mem_sellsFirst, drained_marked] at hx
    intro h
    exact hnofill x hx ⟨h.1.symm, h.2.symm⟩
  · rw [if_neg ho]; exact hmarked

end

/-! ## Non-vacuity at `ℚ` -/

section nonvacuity

noncomputable local instance (priority := high) ratOps : NumOps ℚ := fieldNumOps ℚ
local instance (priority := high) ratLawful : LawfulNumOps ℚ := fieldNumOps_lawful ℚ

/-- buy 10 A, mark A, short 5 B, sell 10 A (close to exactly zero), mark A while not held (ignored),
buy 3 A (re-open), sell 7 A (flip long → short in one fill), mark B. -/
def exEvents : List (PEv ℚ) :=
  [ .fill { asset := "A", qty := 10, time := 1, price := 100, commission := 1 },
    .mark "A" 101 2,
    .fill { asset := "B", qty := -5, time := 2, price := 50, commission := 0 },
    .fill { asset := "A", qty := -10, time := 3, price := 102, commission := 1 },
    .mark "A" 99 4,
    .fill { asset := "A", qty := 3, time := 5, price := 98, commission := 1/2 },
    .fill { asset := "A", qty := -7, time := 6, price := 97, commission := 1/2 },
    .mark "B" 51 7 ]

theorem exEvents_valid : Valid 0 exEvents := by
  norm_num [exEvents, Valid, PEv.Ok, PEv.time]

example : fillSum "A" exEvents = -4 ∧ fillSum "B" exEvents = -5 ∧ fillSum "C" exEvents = 0 := by
  decide

/-- the running sum of A is exactly zero after the fourth event (close), and the mark that follows
is ignored: the price seen for A stays that of the closing fill until the re-opening fill -/
example : fillSum "A" (exEvents.take 4) = 0 ∧ lastSeen "A" (exEvents.take 5) = some 102 ∧
    fillSum "A" (exEvents.take 6) = 3 ∧ fillSum "A" (exEvents.take 7) = -4 := by
  refine ⟨by decide, ?_, by decide, by decide⟩
  decide

example : lastSeen "A" exEvents = some 97 ∧ lastSeen "B" exEvents = some 51 := by
  constructor <;> decide

example : heldAssets exEvents = ["B", "A"] := by decide

/-- the theorems instantiated on the example: A is held short 4 at 97, B short 5 at 51, C absent -/
example : NoErr (Portfolio.new "p" 0 : Portfolio ℚ) exEvents :=
  C02_no_error _ 0 exEvents rfl (le_refl _) exEvents_valid

example : (run (Portfolio.new "p" 0 : Portfolio ℚ) exEvents).positions.contains "A" = true :=
  (C02_membership _ 0 exEvents rfl (le_refl _) exEvents_valid "A").mpr (by decide)

example : (run (Portfolio.new "p" 0 : Portfolio ℚ) exEvents).positions.contains "C" = false := by
  have h := (C02_membership (Portfolio.new "p" 0 : Portfolio ℚ) 0 exEvents rfl (le_refl _)
    exEvents_valid "C").not
  simpa using h.mpr (by decide)

example : (run (Portfolio.new "p" 0 : Portfolio ℚ) exEvents).totalMarketValue
    = (-4) * 97 + (-5) * 51 := by
  have h := (C02_value (Portfolio.new "p" 0 : Portfolio ℚ) 0 exEvents rfl (le_refl _)
    exEvents_valid).2.1
  rw [h, show heldAssets exEvents = ["B", "A"] by decide]
  have hA : lastSeen "A" exEvents = some 97 := by
    decide
  have hB : lastSeen "B" exEvents = some 51 := by
    decide
  have hsA : fillSum "A" exEvents = -4 := by decide
  have hsB : fillSum "B" exEvents = -5 := by decide
  simp [hA, hB, hsA, hsB]; ring

/-! ### broker lift -/

def exPosA : Position ℚ :=
  { asset := "A", price := 100, clock := 3, buyQ := 10, sellQ := 0, avgB := 100, avgS := 0,
    comB := 1, comS := 0 }

def exPosB : Position ℚ :=
  { asset := "B", price := 50, clock := 5, buyQ := 0, sellQ := 5, avgB := 0, avgS := 50,
    comB := 0, comS := 0 }

/-- two portfolios; `p1` holds A (long 10) and B (short 5) and has an order for B queued -/
noncomputable def exBroker : Broker ℚ :=
  { clock := 5, master := 0, fee := .zero,
    entries := [ { pf := { id := "p1", clock := 5, cash := 0, positions := [exPosA, exPosB] },
                   queue := [ { id := 1, asset := "B", qty := 5 } ] },
                 { pf := Portfolio.new "p2" 0 } ] }

def exQuotes : Quotes ℚ := fun a =>
  if a = "A" then some (99, 103) else if a = "B" then some (49, 51) else none

theorem exBroker_BWF : BWF exBroker 10 := by
  constructor
  · decide
  · intro e he
    simp only [exBroker, List.mem_cons, List.not_mem_nil, or_false] at he
    rcases he with rfl | rfl
    · refine ⟨by decide, ?_, by decide⟩
      intro pos hp
      simp only [List.mem_cons, List.not_mem_nil, or_false] at hp
      rcases hp with rfl | rfl <;> decide
    · exact ⟨by decide, (by intro pos hp; cases hp), by decide⟩

theorem exQuotes_pos : ∀ e ∈ exBroker.entries, ∀ pos ∈ e.pf.positions, ∀ bid ask,
    exQuotes pos.asset = some (bid, ask) → 0 < (bid + ask) / 2 := by
  intro e he pos hp bid ask hq
  simp only [exBroker, List.mem_cons, List.not_mem_nil, or_false] at he
  rcases he with rfl | rfl
  · simp only [List.mem_cons, List.not_mem_nil, or_false] at hp
    rcases hp with rfl | rfl
    · have : exQuotes exPosA.asset = some (99, 103) := by decide
      rw [this] at hq; cases hq; norm_num
    · have : exQuotes exPosB.asset = some (49, 51) := by decide
      rw [this] at hq; cases hq; norm_num
  · cases hp

/-- A is held in `p1`, quoted, and has no queued order: after `update` at `t = 10` (whatever the
exchange hours) it is the same position priced at the mid 101 with clock 10 -/
example : posOf (exBroker.update 10 exQuotes).1 "p1" "A"
    = some { exPosA with clock := 10, price := (99 + 103) / 2 } :=
  C02_update_marks exBroker 10 exQuotes exBroker_BWF exQuotes_pos "p1" "A" exPosA 99 103
    (by simp [posOf, Broker.find?, exBroker, Positions.find?, exPosA]) (by decide) (by decide)

example : (exBroker.markTargets exQuotes).map (fun m => (m.1, m.2.1)) = [("p1", "A"), ("p1", "B")] := by
  rw [(C02_markTargets exBroker exQuotes).1]
  decide

end nonvacuity
end Qs.C02
