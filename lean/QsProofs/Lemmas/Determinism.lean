import QsProofs.Props.C06
import QsProofs.Props.C09
import QsProofs.Props.C16
import QsModel.Session
import Mathlib.Data.List.Perm.Basic
import Mathlib.Algebra.BigOperators.Group.List.Basic

/-!
# Helper lemmas for C18 (determinism: hidden inputs do not influence the observable result)

* `sortDedup`, `fullAssetList`, `sortByKey`, `List.lookup`, `rebalanceOrders` under permutations;
* the two sizers under a permutation of the weight list (field carrier: sums are permutation invariant);
* a sequence of memoised lookups;
* `Signal.append` as a function of the buffer lookup function, commutation of appends to different assets;
* order identifiers: `eraseIds` commutes with every broker operation, and the session loop.

Nothing in this file unfolds `Position.transact`, `Positions.transactPosition` or `Portfolio.transactAsset`:
the only fact used about them is that they are applied to a `Txn` whose `orderId` they do not read
(`transactAsset_orderId`, proved by `rfl`).
-/

set_option linter.unusedSectionVars false
set_option linter.unusedVariables false

namespace Qs
namespace Det
open NumOps Num

/-! ## A. sorted asset unions -/

/-- `sortDedup` depends on the member set only -/
theorem sortDedup_congr {l l' : List String} (h : ∀ a, a ∈ l ↔ a ∈ l') : sortDedup l = sortDedup l' :=
  sortDedup_eq_of (C09_sortDedup l').1 (fun a => by rw [(C09_sortDedup l').2.2 a, h a])

theorem sortDedup_perm {l l' : List String} (h : l.Perm l') : sortDedup l = sortDedup l' :=
  sortDedup_congr (fun _ => h.mem_iff)

theorem fullAssetList_congr {held held' : List (String × Int)} {uni uni' : List String}
    (hh : ∀ a, a ∈ held.map (·.1) ↔ a ∈ held'.map (·.1)) (hu : ∀ a, a ∈ uni ↔ a ∈ uni') :
    fullAssetList held uni = fullAssetList held' uni' := by
  unfold fullAssetList
  apply sortDedup_congr
  intro a
  rw [List.mem_append, List.mem_append, hh a, hu a]

theorem fullAssetList_perm {held held' : List (String × Int)} {uni uni' : List String}
    (hh : held.Perm held') (hu : uni.Perm uni') : fullAssetList held uni = fullAssetList held' uni' :=
  fullAssetList_congr (fun _ => (hh.map _).mem_iff) (fun _ => hu.mem_iff)

/-! ## B. `sortByKey`, `lookup` under permutations -/

section Assoc
variable {β : Type}

/-- with pairwise distinct keys the sorted list is determined by the members -/
theorem sortByKey_perm_eq {w w' : List (String × β)} (hp : w.Perm w') (hk : (w.map (·.1)).Nodup) :
    sortByKey w = sortByKey w' := by
  have hperm : (sortByKey w).Perm (sortByKey w') :=
    ((Qs.sortByKey_perm w).trans hp).trans (Qs.sortByKey_perm w').symm
  refine hperm.eq_of_pairwise (le := fun a b => a.1 ≤ b.1) ?_ (sortByKey_pairwise w) (sortByKey_pairwise w')
  intro a b ha hb hab hba
  have ha' : a ∈ w := mem_sortByKey.mp ha
  have hb' : b ∈ w := hp.mem_iff.mpr (mem_sortByKey.mp hb)
  exact List.inj_on_of_nodup_map hk ha' hb' (String.le_antisymm hab hba)

/-- with pairwise distinct keys a dictionary lookup does not depend on the insertion order -/
theorem lookup_perm {d d' : List (String × β)} (hp : d.Perm d') (hk : (d.map (·.1)).Nodup) (k : String) :
    d.lookup k = d'.lookup k := by
  have hk' : (d'.map (·.1)).Nodup := (hp.map _).nodup_iff.mp hk
  cases h : d.lookup k with
  | none =>
    have h1 : k ∉ d.map (·.1) := (lookup_eq_none_iff d k).mp h
    have h2 : k ∉ d'.map (·.1) := fun hm => h1 ((hp.map _).mem_iff.mpr hm)
    cases h' : d'.lookup k with
    | none => rfl
    | some v =>
      exact absurd (List.mem_map.mpr ⟨(k, v), mem_of_lookup_eq_some h', rfl⟩) h2
  | some v =>
    exact (lookup_eq_some_of_mem hk' (hp.mem_iff.mp (mem_of_lookup_eq_some h))).symm

end Assoc

/-! ## C. rebalance orders -/

theorem rebalanceOrders_perm {target target' held held' : List (String × Int)}
    (ht : target.Perm target') (htk : (target.map (·.1)).Nodup)
    (hh : held.Perm held') (hhk : (held.map (·.1)).Nodup) :
    rebalanceOrders target held = rebalanceOrders target' held' := by
  rw [rebalanceOrders_eq, rebalanceOrders_eq, sortByKey_perm_eq ht htk]
  have : diffOf held = diffOf held' := by
    funext x
    simp only [diffOf, lookup_perm hh hhk]
  rw [this]

/-! ## D. the order sizers under a permutation of the weight list (lawful field carrier) -/

section Sizers
variable {α : Type} [Field α] [LinearOrder α] [IsStrictOrderedRing α] [FloorRing α] [NumOps α] [LawfulNumOps α]

theorem isEmpty_perm {β : Type} {w w' : List β} (hp : w.Perm w') : w.isEmpty = w'.isEmpty := by
  cases w with
  | nil => rw [hp.nil_eq]
  | cons x xs =>
    cases w' with
    | nil => exact absurd hp.symm.nil_eq (by simp)
    | cons y ys => rfl

theorem any_perm {β : Type} {w w' : List β} (hp : w.Perm w') (f : β → Bool) : w.any f = w'.any f := by
  rw [Bool.eq_iff_iff, List.any_eq_true, List.any_eq_true]
  exact ⟨fun ⟨x, hx, h⟩ => ⟨x, hp.mem_iff.mp hx, h⟩, fun ⟨x, hx, h⟩ => ⟨x, hp.mem_iff.mpr hx, h⟩⟩

/-- the normalising sum of the long-only sizer is permutation invariant in a field -/
theorem sumNeumaier_perm {l l' : List α} (hp : l.Perm l') : sumNeumaier l = sumNeumaier l' := by
  rw [sumNeumaier_eq, sumNeumaier_eq, hp.sum_eq]

theorem sumNaive_perm {l l' : List α} (hp : l.Perm l') : sumNaive l = sumNaive l' := by
  rw [sumNaive_eq, sumNaive_eq, hp.sum_eq]

/-- `dwNormalise` of permuted weights: both fail, or both succeed with permuted normalised weights -/
theorem dwNormalise_perm {w w' : Weights α} (hp : w.Perm w') :
    (dwNormalise w = .error .value ∧ dwNormalise w' = .error .value) ∨
    ∃ nw nw', dwNormalise w = .ok nw ∧ dwNormalise w' = .ok nw' ∧ nw.Perm nw' ∧
      nw.map (·.1) = w.map (·.1) := by
  unfold dwNormalise
  rw [any_perm hp, sumNeumaier_perm (hp.map (·.2))]
  split
  · exact Or.inl ⟨rfl, rfl⟩
  · right
    simp only
    split
    · exact ⟨w, w', rfl, rfl, hp, rfl⟩
    · exact ⟨_, _, rfl, rfl, hp.map _, by rw [List.map_map]; rfl⟩

theorem lsNormalise_perm (L : α) {w w' : Weights α} (hp : w.Perm w') :
    (lsNormalise L w).Perm (lsNormalise L w') ∧ (lsNormalise L w).map (·.1) = w.map (·.1) := by
  unfold lsNormalise
  rw [sumNaive_perm (hp.map fun (x : String × α) => NumOps.abs x.2)]
  simp only
  split
  · exact ⟨hp, rfl⟩
  · exact ⟨hp.map _, by rw [List.map_map]; rfl⟩

theorem dwSize_perm (fee : FeeModel α) (E b : α) (price : String → Option α) {w w' : Weights α}
    (hp : w.Perm w') (hk : (w.map (·.1)).Nodup) : dwSize fee E b price w = dwSize fee E b price w' := by
  unfold dwSize
  rw [isEmpty_perm hp]
  rcases dwNormalise_perm hp with ⟨h1, h2⟩ | ⟨nw, nw', h1, h2, h3, h4⟩
  · rw [h1, h2]
  · rw [h1, h2]
    have : sortByKey nw = sortByKey nw' := sortByKey_perm_eq h3 (by rw [h4]; exact hk)
    simp only [bind, Except.bind, this]

theorem lsSize_perm (fee : FeeModel α) (E L : α) (price : String → Option α) {w w' : Weights α}
    (hp : w.Perm w') (hk : (w.map (·.1)).Nodup) : lsSize fee E L price w = lsSize fee E L price w' := by
  unfold lsSize
  obtain ⟨h3, h4⟩ := lsNormalise_perm L hp
  rw [isEmpty_perm hp, sortByKey_perm_eq h3 (by rw [h4]; exact hk)]

end Sizers

/-! ## E. a sequence of memoised lookups -/

section Memo
variable {κ ν : Type} [BEq κ] [LawfulBEq κ]

/-- a sequence of memoised calls threading the memo table: the values returned and the final table -/
def cachedSeq (f : κ → ν) : List (κ × ν) → List κ → List ν × List (κ × ν)
  | tbl, [] => ([], tbl)
  | tbl, k :: ks => ((cachedGet f tbl k).1 :: (cachedSeq f (cachedGet f tbl k).2 ks).1,
                     (cachedSeq f (cachedGet f tbl k).2 ks).2)

theorem cachedSeq_spec (f : κ → ν) (tbl : List (κ × ν)) (ks : List κ) (hc : ∀ p ∈ tbl, p.2 = f p.1) :
    (cachedSeq f tbl ks).1 = ks.map f ∧ ∀ p ∈ (cachedSeq f tbl ks).2, p.2 = f p.1 := by
  induction ks generalizing tbl with
  | nil => exact ⟨rfl, hc⟩
  | cons k ks ih =>
    obtain ⟨h1, h2⟩ := C06_memo f tbl k hc
    obtain ⟨h3, h4⟩ := ih (cachedGet f tbl k).2 h2
    refine ⟨?_, h4⟩
    simp only [cachedSeq, List.map_cons, h1, h3]

end Memo

/-! ## F. signal buffers: the enumeration order of newly tracked assets -/

section Buffers
variable {α : Type} [Field α] [LinearOrder α] [IsStrictOrderedRing α] [FloorRing α] [NumOps α] [LawfulNumOps α]

/-- the observable content of a signal's buffer store: the configured lookbacks and the lookup function -/
def BufEq (s s' : Signal α) : Prop :=
  s.lookbacks = s'.lookbacks ∧ ∀ a l, s.findBuffer a l = s'.findBuffer a l

theorem BufEq.refl (s : Signal α) : BufEq s s := ⟨rfl, fun _ _ => rfl⟩
theorem BufEq.symm {s s' : Signal α} (h : BufEq s s') : BufEq s' s := ⟨h.1.symm, fun a l => (h.2 a l).symm⟩
theorem BufEq.trans {s s' s'' : Signal α} (h : BufEq s s') (h' : BufEq s' s'') : BufEq s s'' :=
  ⟨h.1.trans h'.1, fun a l => (h.2 a l).trans (h'.2 a l)⟩

theorem append_nolb (s : Signal α) (a : String) (p : α) (hL : s.lookbacks = []) :
    s.append a p = (s, some .value) := by
  unfold Signal.append
  split
  · rfl
  · rw [hL]

/-- the buffer of the appended asset after an accepted append, as a function of the old lookup function -/
theorem append_findBuffer_self (s : Signal α) (a : String) (p : α) (l : Nat) (hp : 0 < p) (l0 : Nat)
    (L' : List Nat) (hL : s.lookbacks = l0 :: L') :
    (s.append a p).1.findBuffer a l =
      (if (s.findBuffer a l0).isSome then s.findBuffer a l
       else (s.findBuffer a l).or
         (List.find? (fun b' : Buffer α => b'.asset == a && b'.lookback == l)
           (s.lookbacks.map fun l => ({ asset := a, lookback := l, items := [] } : Buffer α)))).map
        (Sig.pushStep s.lookbacks a p) := by
  rw [Sig.append_eq s a p hp l0 L' hL]
  unfold Signal.findBuffer
  simp only
  rw [List.find?_map]
  have hcomp : ((fun b' : Buffer α => b'.asset == a && b'.lookback == l) ∘ Sig.pushStep s.lookbacks a p) =
      (fun b' : Buffer α => b'.asset == a && b'.lookback == l) := by
    funext b'
    simp only [Function.comp, Sig.pushStep]
    split <;> rfl
  rw [hcomp]
  congr 1
  unfold Sig.appendBufs Signal.findBuffer
  split
  · rfl
  · rw [List.find?_append]

/-- the new buffers of the appended asset depend only on its own old buffers and the lookbacks -/
theorem append_findBuffer_local {s s' : Signal α} (a : String) (p : α) (hL : s.lookbacks = s'.lookbacks)
    (hf : ∀ l, s.findBuffer a l = s'.findBuffer a l) (l : Nat) :
    (s.append a p).1.findBuffer a l = (s'.append a p).1.findBuffer a l := by
  by_cases hp : 0 < p
  · cases hL' : s.lookbacks with
    | nil => rw [append_nolb s a p hL', append_nolb s' a p (hL ▸ hL')]; exact hf l
    | cons l0 L' =>
      rw [append_findBuffer_self s a p l hp l0 L' hL', append_findBuffer_self s' a p l hp l0 L' (hL ▸ hL'),
        hf l, hf l0, hL]
  · rw [Sig.append_refuse s a p hp, Sig.append_refuse s' a p hp]; exact hf l

theorem append_snd_congr {s s' : Signal α} (a : String) (p : α) (hL : s.lookbacks = s'.lookbacks) :
    (s.append a p).2 = (s'.append a p).2 := by
  by_cases hp : 0 < p
  · cases hL' : s.lookbacks with
    | nil => rw [append_nolb s a p hL', append_nolb s' a p (hL ▸ hL')]
    | cons l0 L' =>
      rw [Sig.append_eq s a p hp l0 L' hL', Sig.append_eq s' a p hp l0 L' (hL ▸ hL')]
  · rw [Sig.append_refuse s a p hp, Sig.append_refuse s' a p hp]

/-- `append` is a function of the observable buffer content -/
theorem append_congr {s s' : Signal α} (h : BufEq s s') (a : String) (p : α) :
    BufEq (s.append a p).1 (s'.append a p).1 := by
  refine ⟨by rw [Sig.append_lookbacks, Sig.append_lookbacks]; exact h.1, ?_⟩
  intro b l
  by_cases hb : b = a
  · subst hb
    exact append_findBuffer_local b p h.1 (fun l => h.2 b l) l
  · rw [C16_indep s a b p l hb, C16_indep s' a b p l hb]
    exact h.2 b l

/-- appends to two different assets commute (`C16_indep`) -/
theorem append_comm (s : Signal α) {a b : String} (hab : a ≠ b) (p q : α) :
    BufEq ((s.append a p).1.append b q).1 ((s.append b q).1.append a p).1 := by
  refine ⟨by simp only [Sig.append_lookbacks], ?_⟩
  intro c l
  by_cases hca : c = a
  · subst hca
    rw [C16_indep _ b c q l hab]
    exact append_findBuffer_local c p (by rw [Sig.append_lookbacks])
      (fun l => (C16_indep s b c q l hab).symm) l
  · by_cases hcb : c = b
    · subst hcb
      rw [C16_indep _ a c p l hca]
      exact append_findBuffer_local c q (by rw [Sig.append_lookbacks])
        (fun l => C16_indep s a c p l hca) l
    · rw [C16_indep _ b c q l hcb, C16_indep _ a c p l hca, C16_indep _ a c p l hca, C16_indep _ b c q l hcb]

theorem appendAll_congr {s s' : Signal α} (h : BufEq s s') (ops : List (String × α)) :
    BufEq (Sig.appendAll s ops) (Sig.appendAll s' ops) := by
  induction ops generalizing s s' with
  | nil => exact h
  | cons op ops ih =>
    rw [Sig.appendAll_cons, Sig.appendAll_cons]
    exact ih (append_congr h op.1 op.2)

/-- a sequence of appends to pairwise different assets may be carried out in any order -/
theorem appendAll_perm (s : Signal α) {ops ops' : List (String × α)} (hp : ops.Perm ops')
    (hk : (ops.map (·.1)).Nodup) : BufEq (Sig.appendAll s ops) (Sig.appendAll s ops') := by
  induction hp generalizing s with
  | nil => exact BufEq.refl _
  | cons x _ ih =>
    rw [Sig.appendAll_cons, Sig.appendAll_cons]
    exact ih _ (List.nodup_cons.mp hk).2
  | swap x y l =>
    simp only [Sig.appendAll_cons]
    apply appendAll_congr
    apply append_comm
    intro e
    simp only [List.map_cons, List.nodup_cons, List.mem_cons] at hk
    exact hk.1 (Or.inl e)
  | trans h1 _ ih1 ih2 =>
    exact (ih1 s hk).trans (ih2 s ((h1.map _).nodup_iff.mp hk))

/-- `Signal.update_assets` with a given enumeration `extra` of the set difference `universe − tracked` -/
def updateAssetsWith (s : Signal α) (extra : List String) : Signal α :=
  { s with assets := s.assets ++ extra }

/-- the model's `updateAssets` is the instance that enumerates the new members in universe order -/
theorem updateAssets_eq_with (s : Signal α) (uni : List String) :
    s.updateAssets uni = updateAssetsWith s ((uni.filter fun a => !s.assets.contains a).eraseDups) := rfl

theorem feed_nolb (mid : String → α) (s : Signal α) (as : List String) (hL : s.lookbacks = []) :
    Signal.feed mid s as = (s, if as = [] then none else some .value) := by
  cases as with
  | nil => rw [Sig.feed_nil]; rfl
  | cons a as =>
    rw [Sig.feed_cons_err mid s a as .value (by rw [append_nolb s a _ hL]), append_nolb s a _ hL]
    rfl

theorem feed_assets (mid : String → α) (s : Signal α) (as : List String) :
    (Signal.feed mid s as).1.assets = s.assets := by
  induction as generalizing s with
  | nil => rw [Sig.feed_nil]
  | cons a as ih =>
    cases h : (s.append a (mid a)).2 with
    | none => rw [Sig.feed_cons_ok mid s a as h, ih, Sig.append_assets]
    | some e => rw [Sig.feed_cons_err mid s a as e h, Sig.append_assets]

/-- feeding the day's (positive) prices after tracking the new assets: the enumeration order of the new assets
does not influence the buffers, the outcome, or the tracked set -/
theorem feed_with_perm (mid : String → α) (s : Signal α) {extra extra' : List String}
    (hp : extra.Perm extra') (hnd : extra.Nodup) (hpos : ∀ a ∈ s.assets ++ extra, 0 < mid a) :
    BufEq (Signal.feed mid (updateAssetsWith s extra) (updateAssetsWith s extra).assets).1
          (Signal.feed mid (updateAssetsWith s extra') (updateAssetsWith s extra').assets).1 ∧
    (Signal.feed mid (updateAssetsWith s extra) (updateAssetsWith s extra).assets).2 =
      (Signal.feed mid (updateAssetsWith s extra') (updateAssetsWith s extra').assets).2 := by
  have hpos' : ∀ a ∈ s.assets ++ extra', 0 < mid a := fun a ha => hpos a (by
    rcases List.mem_append.mp ha with h | h
    · exact List.mem_append_left _ h
    · exact List.mem_append_right _ (hp.mem_iff.mpr h))
  by_cases hL : s.lookbacks = []
  · rw [feed_nolb mid _ _ (show (updateAssetsWith s extra).lookbacks = [] from hL),
      feed_nolb mid _ _ (show (updateAssetsWith s extra').lookbacks = [] from hL)]
    refine ⟨⟨rfl, fun _ _ => rfl⟩, ?_⟩
    simp only [updateAssetsWith, List.append_eq_nil_iff]
    have : extra = [] ↔ extra' = [] := ⟨fun h => (h ▸ hp).nil_eq.symm, fun h => (h ▸ hp.symm).nil_eq.symm⟩
    simp only [this]
  · rw [Sig.feed_eq mid (updateAssetsWith s extra) (updateAssetsWith s extra).assets hL hpos,
      Sig.feed_eq mid (updateAssetsWith s extra') (updateAssetsWith s extra').assets hL hpos']
    refine ⟨?_, rfl⟩
    simp only [updateAssetsWith, List.map_append, Sig.appendAll_append]
    refine (appendAll_perm _ (hp.map _) (by rw [List.map_map]; simpa [Function.comp_def] using hnd)).trans ?_
    apply appendAll_congr
    apply appendAll_congr
    exact ⟨rfl, fun _ _ => rfl⟩

end Buffers

/-! ## G. order identifiers never influence accounting -/

section Ids
variable {α : Type} [Add α] [Sub α] [Mul α] [Div α] [Neg α] [NumOps α]

/-- forget the identifier of an order -/
def eraseId (o : Order) : Order := { o with id := 0 }
/-- forget the order identifier a transaction carries -/
def eraseTxn (t : Txn α) : Txn α := { t with orderId := 0 }
def eraseEntry (e : PfEntry α) : PfEntry α := { e with queue := e.queue.map eraseId }
/-- forget every order identifier stored in a broker: queued orders and the fill log -/
def eraseIds (b : Broker α) : Broker α :=
  { b with entries := b.entries.map eraseEntry, fillLog := b.fillLog.map fun x => (x.1, eraseTxn x.2) }

/-- `transact_asset` does not read the order id of the transaction -/
theorem transactAsset_orderId (p : Portfolio α) (t : Txn α) (k : Nat) :
    p.transactAsset { t with orderId := k } = p.transactAsset t := rfl

theorem eraseId_with (o : Order) (k : Nat) : eraseId { o with id := k } = eraseId o := rfl

theorem eraseId_eq_of {o o' : Order} (ha : o.asset = o'.asset) (hq : o.qty = o'.qty) : eraseId o = eraseId o' := by
  cases o; cases o'; simp only at ha hq; subst ha hq; rfl

theorem find?_eraseIds (b : Broker α) (pid : String) : (eraseIds b).find? pid = (b.find? pid).map eraseEntry := by
  unfold Broker.find? eraseIds
  simp only
  rw [List.find?_map]
  rfl

theorem setPf_eraseIds (b : Broker α) (p : Portfolio α) : eraseIds (b.setPf p) = (eraseIds b).setPf p := by
  unfold Broker.setPf eraseIds
  simp only [List.map_map]
  congr 1
  apply List.map_congr_left
  intro x _
  by_cases hc : x.pf.id = p.id <;> simp [eraseEntry, hc]

theorem setEntry_eraseIds (b : Broker α) (e : PfEntry α) :
    eraseIds (b.setEntry e) = (eraseIds b).setEntry (eraseEntry e) := by
  unfold Broker.setEntry eraseIds
  simp only [List.map_map]
  congr 1
  apply List.map_congr_left
  intro x _
  by_cases hc : x.pf.id = e.pf.id <;> simp [eraseEntry, hc]

/-- submitting commutes with id erasure -/
theorem submitOrder_eraseIds (b : Broker α) (pid : String) (o : Order) :
    eraseIds (b.submitOrder pid o).1 = ((eraseIds b).submitOrder pid (eraseId o)).1 ∧
    (b.submitOrder pid o).2 = ((eraseIds b).submitOrder pid (eraseId o)).2 := by
  unfold Broker.submitOrder
  rw [find?_eraseIds]
  cases b.find? pid with
  | none => exact ⟨rfl, rfl⟩
  | some e =>
    refine ⟨?_, rfl⟩
    simp only [Option.map_some]
    rw [setEntry_eraseIds]
    congr 1
    simp only [eraseEntry, List.map_append, List.map_cons, List.map_nil]

/-- `makeTxn` copies the order id into `orderId` and reads it nowhere else -/
theorem makeTxn_eraseIds (b : Broker α) (q : Quotes α) (o : Order) :
    (eraseIds b).makeTxn q (eraseId o) = (b.makeTxn q o).map eraseTxn := by
  cases o with
  | mk id a qty =>
    unfold Broker.makeTxn
    simp only [eraseId]
    cases q a with
    | none => rfl
    | some ba => rfl

theorem applyTxn_eraseIds (b : Broker α) (pid : String) (t : Txn α) :
    eraseIds (b.applyTxn pid t).1 = ((eraseIds b).applyTxn pid (eraseTxn t)).1 ∧
    (b.applyTxn pid t).2 = ((eraseIds b).applyTxn pid (eraseTxn t)).2 := by
  unfold Broker.applyTxn
  rw [find?_eraseIds]
  cases b.find? pid with
  | none => exact ⟨rfl, rfl⟩
  | some e =>
    simp only [Option.map_some]
    have h : (eraseEntry e).pf.transactAsset (eraseTxn t) = e.pf.transactAsset t :=
      transactAsset_orderId e.pf t 0
    rw [h]
    rcases e.pf.transactAsset t with ⟨pf, _ | err⟩
    · refine ⟨?_, rfl⟩
      simp only
      have := setPf_eraseIds b pf
      unfold eraseIds at this ⊢
      simp only [List.map_append, List.map_cons, List.map_nil] at this ⊢
      rw [Broker.mk.injEq] at this
      obtain ⟨_, _, _, h4, _⟩ := this
      simp only [Broker.setPf] at h4 ⊢
      rw [h4]
    · exact ⟨setPf_eraseIds b pf, rfl⟩

theorem executeOrder_eraseIds (b : Broker α) (q : Quotes α) (pid : String) (o : Order) :
    eraseIds (b.executeOrder q pid o).1 = ((eraseIds b).executeOrder q pid (eraseId o)).1 ∧
    (b.executeOrder q pid o).2 = ((eraseIds b).executeOrder q pid (eraseId o)).2 := by
  unfold Broker.executeOrder
  rw [makeTxn_eraseIds]
  cases b.makeTxn q o with
  | error e => exact ⟨rfl, rfl⟩
  | ok t => exact applyTxn_eraseIds b pid t

theorem applyMark_eraseIds (b : Broker α) (pid a : String) (p : α) (t : Int) :
    eraseIds (b.applyMark pid a p t).1 = ((eraseIds b).applyMark pid a p t).1 ∧
    (b.applyMark pid a p t).2 = ((eraseIds b).applyMark pid a p t).2 := by
  unfold Broker.applyMark
  rw [find?_eraseIds]
  cases b.find? pid with
  | none => exact ⟨rfl, rfl⟩
  | some e =>
    simp only [Option.map_some]
    have h : (eraseEntry e).pf = e.pf := rfl
    rw [h]
    rcases e.pf.mark a p t with ⟨pf, err⟩
    exact ⟨setPf_eraseIds b pf, rfl⟩

theorem markTargets_eraseIds (b : Broker α) (q : Quotes α) : (eraseIds b).markTargets q = b.markTargets q := by
  unfold Broker.markTargets eraseIds
  simp only [List.flatMap_map]
  rfl

theorem drained_eraseIds (b : Broker α) :
    (eraseIds b).drained = b.drained.map fun x => (x.1, eraseId x.2) := by
  unfold Broker.drained eraseIds
  simp only [List.flatMap_map, List.map_flatMap, eraseEntry, List.map_map]
  rfl

theorem clearQueues_eraseIds (b : Broker α) : eraseIds b.clearQueues = (eraseIds b).clearQueues := by
  unfold Broker.clearQueues eraseIds
  simp only [List.map_map]
  rfl

/-- the stable batch sort looks at the sign of the quantity only -/
theorem sellsFirst_map {β γ : Type} (isSell : β → Bool) (isSell' : γ → Bool) (h : β → γ)
    (hs : ∀ x, isSell' (h x) = isSell x) (l : List β) :
    sellsFirst isSell' (l.map h) = (sellsFirst isSell l).map h := by
  unfold sellsFirst
  have e1 : isSell' ∘ h = isSell := funext hs
  have e2 : (fun o => !isSell' o) ∘ h = fun o => !isSell o := funext fun x => by simp only [Function.comp, hs x]
  rw [List.map_append, List.filter_map, List.filter_map, e1, e2]

/-- a run of effects commutes with id erasure when every effect does -/
theorem runUntilErr_eraseIds {β γ : Type} (f : Broker α → β → Broker α × Option Err)
    (g : Broker α → γ → Broker α × Option Err) (h : β → γ)
    (H : ∀ b x, eraseIds (f b x).1 = (g (eraseIds b) (h x)).1 ∧ (f b x).2 = (g (eraseIds b) (h x)).2)
    (b : Broker α) (xs : List β) :
    eraseIds (Broker.runUntilErr f b xs).1 = (Broker.runUntilErr g (eraseIds b) (xs.map h)).1 ∧
    (Broker.runUntilErr f b xs).2 = (Broker.runUntilErr g (eraseIds b) (xs.map h)).2 := by
  induction xs generalizing b with
  | nil => exact ⟨rfl, rfl⟩
  | cons x xs ih =>
    obtain ⟨h1, h2⟩ := H b x
    rw [List.map_cons, Broker.runUntilErr, Broker.runUntilErr]
    rcases hf : f b x with ⟨b1, _ | e⟩ <;> rcases hg : g (eraseIds b) (h x) with ⟨b1', _ | e'⟩ <;>
      rw [hf, hg] at h1 h2 <;> simp only at h1 h2 ⊢
    · subst h1; exact ih b1
    · cases h2
    · cases h2
    · cases h2; exact ⟨h1, rfl⟩

/-- `update` in projection form -/
theorem update_eq (b : Broker α) (t : Int) (q : Quotes α) :
    b.update t q =
      (match (Broker.runUntilErr (fun b (m : String × String × α) => b.applyMark m.1 m.2.1 m.2.2 t)
          { b with clock := t } (Broker.markTargets { b with clock := t } q)).2 with
       | some e => ((Broker.runUntilErr (fun b (m : String × String × α) => b.applyMark m.1 m.2.1 m.2.2 t)
          { b with clock := t } (Broker.markTargets { b with clock := t } q)).1, some e)
       | none =>
         if isOpen t then
           Broker.runUntilErr (fun b (x : String × Order) => b.executeOrder q x.1 x.2)
             (Broker.runUntilErr (fun b (m : String × String × α) => b.applyMark m.1 m.2.1 m.2.2 t)
               { b with clock := t } (Broker.markTargets { b with clock := t } q)).1.clearQueues
             (sellsFirst (fun (x : String × Order) => x.2.isSell)
               (Broker.runUntilErr (fun b (m : String × String × α) => b.applyMark m.1 m.2.1 m.2.2 t)
                 { b with clock := t } (Broker.markTargets { b with clock := t } q)).1.drained)
         else ((Broker.runUntilErr (fun b (m : String × String × α) => b.applyMark m.1 m.2.1 m.2.2 t)
          { b with clock := t } (Broker.markTargets { b with clock := t } q)).1, none)) := by
  unfold Broker.update
  simp only
  rcases Broker.runUntilErr (fun b (m : String × String × α) => b.applyMark m.1 m.2.1 m.2.2 t)
    { b with clock := t } (Broker.markTargets { b with clock := t } q) with ⟨b1, _ | e⟩ <;> rfl

/-- **`Broker.update` commutes with id erasure.** -/
theorem update_eraseIds (b : Broker α) (t : Int) (q : Quotes α) :
    eraseIds (b.update t q).1 = ((eraseIds b).update t q).1 ∧ (b.update t q).2 = ((eraseIds b).update t q).2 := by
  rw [update_eq b, update_eq (eraseIds b)]
  have hb0 : ({ eraseIds b with clock := t } : Broker α) = eraseIds { b with clock := t } := rfl
  rw [hb0, markTargets_eraseIds]
  obtain ⟨h1, h2⟩ := runUntilErr_eraseIds
    (fun b (m : String × String × α) => b.applyMark m.1 m.2.1 m.2.2 t)
    (fun b (m : String × String × α) => b.applyMark m.1 m.2.1 m.2.2 t) id
    (fun b m => applyMark_eraseIds b m.1 m.2.1 m.2.2 t) { b with clock := t }
    (Broker.markTargets { b with clock := t } q)
  rw [List.map_id] at h1 h2
  rw [← h1, ← h2]
  generalize Broker.runUntilErr (fun b (m : String × String × α) => b.applyMark m.1 m.2.1 m.2.2 t)
    { b with clock := t } (Broker.markTargets { b with clock := t } q) = r
  rcases r with ⟨b1, _ | e⟩
  · simp only
    split
    · rw [drained_eraseIds, ← clearQueues_eraseIds,
        sellsFirst_map (fun (x : String × Order) => x.2.isSell) (fun (x : String × Order) => x.2.isSell)
          (fun x => (x.1, eraseId x.2)) (fun _ => rfl)]
      exact runUntilErr_eraseIds _ _ _ (fun b x => executeOrder_eraseIds b q x.1 x.2) _ _
    · exact ⟨rfl, rfl⟩
  · exact ⟨rfl, rfl⟩

/-! ### two-sided forms -/

theorem submitOrder_sim {b b' : Broker α} (h : eraseIds b = eraseIds b') (pid : String) {o o' : Order}
    (ha : o.asset = o'.asset) (hq : o.qty = o'.qty) :
    eraseIds (b.submitOrder pid o).1 = eraseIds (b'.submitOrder pid o').1 ∧
    (b.submitOrder pid o).2 = (b'.submitOrder pid o').2 := by
  obtain ⟨h1, h2⟩ := submitOrder_eraseIds b pid o
  obtain ⟨h1', h2'⟩ := submitOrder_eraseIds b' pid o'
  rw [h1, h2, h1', h2', h, eraseId_eq_of ha hq]
  exact ⟨rfl, rfl⟩

theorem update_sim {b b' : Broker α} (h : eraseIds b = eraseIds b') (t : Int) (q : Quotes α) :
    eraseIds (b.update t q).1 = eraseIds (b'.update t q).1 ∧ (b.update t q).2 = (b'.update t q).2 := by
  obtain ⟨h1, h2⟩ := update_eraseIds b t q
  obtain ⟨h1', h2'⟩ := update_eraseIds b' t q
  rw [h1, h2, h1', h2', h]
  exact ⟨rfl, rfl⟩

end Ids

/-! ## H. the session loop is blind to order identifiers -/

section SessionIds
variable {α : Type} [Add α] [Sub α] [Mul α] [Div α] [Neg α] [NumOps α]

/-- forget every order identifier of a session: those stored in the broker and the id counter -/
def eraseIdsS (s : Session α) : Session α := { s with broker := eraseIds s.broker, nextId := 0 }

theorem eraseIdsS_eq_iff (s s' : Session α) :
    eraseIdsS s = eraseIdsS s' ↔
      eraseIds s.broker = eraseIds s'.broker ∧ s.signals = s'.signals ∧ s.allocations = s'.allocations ∧
        s.equity = s'.equity := by
  cases s; cases s'
  simp only [eraseIdsS, Session.mk.injEq, and_true]

theorem heldOf_eraseIds (b : Broker α) : heldOf (eraseIds b) = heldOf b := by
  unfold heldOf
  rw [find?_eraseIds]
  cases b.find? PORTFOLIO_ID <;> rfl

theorem equityOf_eraseIds (b : Broker α) : equityOf (eraseIds b) = equityOf b := by
  unfold equityOf
  rw [find?_eraseIds]
  cases b.find? PORTFOLIO_ID <;> rfl

theorem accountTotalEquity_eraseIds (b : Broker α) : (eraseIds b).accountTotalEquity = b.accountTotalEquity := by
  unfold Broker.accountTotalEquity eraseIds
  simp only [List.map_map]
  rfl

/-- `Session.fills` never contained the ids -/
theorem fills_eraseIdsS (s : Session α) : (eraseIdsS s).fills = s.fills := by
  unfold Session.fills eraseIdsS eraseIds
  simp only [List.map_map]
  rfl

theorem heldOf_sim {b b' : Broker α} (h : eraseIds b = eraseIds b') : heldOf b = heldOf b' := by
  rw [← heldOf_eraseIds b, h, heldOf_eraseIds]

theorem equityOf_sim {b b' : Broker α} (h : eraseIds b = eraseIds b') : equityOf b = equityOf b' := by
  rw [← equityOf_eraseIds b, h, equityOf_eraseIds]

theorem accountTotalEquity_sim {b b' : Broker α} (h : eraseIds b = eraseIds b') :
    b.accountTotalEquity = b'.accountTotalEquity := by
  rw [← accountTotalEquity_eraseIds b, h, accountTotalEquity_eraseIds]

/-- `ExecutionHandler.__call__` with two different id streams -/
theorem executeOrders_sim (px : Px α) (t : Int) {b b' : Broker α} (h : eraseIds b = eraseIds b') (n m : Nat)
    (os : List (String × Int)) :
    eraseIds (executeOrders px t b n os).1 = eraseIds (executeOrders px t b' m os).1 ∧
    (executeOrders px t b n os).2.2 = (executeOrders px t b' m os).2.2 := by
  induction os generalizing b b' n m with
  | nil => exact ⟨h, rfl⟩
  | cons o os ih =>
    obtain ⟨a, q⟩ := o
    rw [executeOrders, executeOrders]
    obtain ⟨h1, h2⟩ := submitOrder_sim h PORTFOLIO_ID (o := { id := n, asset := a, qty := q })
      (o' := { id := m, asset := a, qty := q }) rfl rfl
    rcases hs : b.submitOrder PORTFOLIO_ID { id := n, asset := a, qty := q } with ⟨b1, _ | e⟩ <;>
      rcases hs' : b'.submitOrder PORTFOLIO_ID { id := m, asset := a, qty := q } with ⟨b1', _ | e'⟩ <;>
      rw [hs, hs'] at h1 h2 <;> simp only at h1 h2 ⊢
    · obtain ⟨h3, h4⟩ := update_sim h1 t (quotesAt px t)
      rcases hu : b1.update t (quotesAt px t) with ⟨b2, _ | e⟩ <;>
        rcases hu' : b1'.update t (quotesAt px t) with ⟨b2', _ | e'⟩ <;>
        rw [hu, hu'] at h3 h4 <;> simp only at h3 h4 ⊢
      · exact ih h3 (n + 1) (m + 1)
      · cases h4
      · cases h4
      · exact ⟨h3, h4⟩
    · cases h2
    · cases h2
    · exact ⟨h1, h2⟩

/-- a stage of the loop body whose result, up to ids, depends on the session only up to ids -/
def IdBlind (f : Session α → Session α × Option Err) : Prop :=
  ∀ s s', eraseIdsS s = eraseIdsS s' → eraseIdsS (f s).1 = eraseIdsS (f s').1 ∧ (f s).2 = (f s').2

/-- run the next stage unless the previous one raised -/
def andThen (r : Session α × Option Err) (g : Session α → Session α × Option Err) : Session α × Option Err :=
  match r with
  | (s, some e) => (s, some e)
  | (s, none) => g s

theorem IdBlind.andThen {f g : Session α → Session α × Option Err} (hf : IdBlind f) (hg : IdBlind g) :
    IdBlind (fun s => andThen (f s) g) := by
  intro s s' h
  obtain ⟨h1, h2⟩ := hf s s' h
  simp only
  rcases hfs : f s with ⟨s1, _ | e⟩ <;> rcases hfs' : f s' with ⟨s1', _ | e'⟩ <;>
    rw [hfs, hfs'] at h1 h2 <;> simp only [Det.andThen] at h1 h2 ⊢
  · exact hg s1 s1' h1
  · cases h2
  · cases h2
  · exact ⟨h1, h2⟩

theorem rebalanceAt_blind (cfg : SessionCfg α) (alpha : Alpha α) (px : Px α) (t : Int) :
    IdBlind (rebalanceAt cfg alpha px t) := by
  intro s s' h
  obtain ⟨hb, hsig, hal, heq⟩ := (eraseIdsS_eq_iff s s').mp h
  obtain ⟨b, sig, al, eq, n⟩ := s
  obtain ⟨b', sig', al', eq', n'⟩ := s'
  simp only at hb hsig hal heq
  subst hsig hal heq
  unfold rebalanceAt
  simp only [heldOf_sim hb, equityOf_sim hb]
  split
  · simp only [eraseIdsS, hb, and_self]
  · simp only
    obtain ⟨h1, h2⟩ := executeOrders_sim px t hb n n' (rebalanceOrders ‹_› (heldOf b'))
    simp only [eraseIdsS, h1, h2, and_self]

/-- stage 1: `broker.update(dt)` -/
def updStage (px : Px α) (ev : SimEvent) (s : Session α) : Session α × Option Err :=
  ({ s with broker := (s.broker.update ev.time (quotesAt px ev.time)).1 },
   (s.broker.update ev.time (quotesAt px ev.time)).2)

/-- stage 2: the signals on market close -/
def sigStage (cfg : SessionCfg α) (px : Px α) (ev : SimEvent) (s1 : Session α) : Session α × Option Err :=
  match s1.signals with
  | some c =>
    if ev.kind = .marketClose then
      match c.update (cfg.uni.assets ev.time) (fun a => (px ev.time a).getD cfg.nan) with
      | (c', e) => ({ s1 with signals := some c' }, e)
    else (s1, none)
  | none => (s1, none)

/-- stage 3: the rebalance, when scheduled -/
def rebStage (cfg : SessionCfg α) (alpha : Alpha α) (px : Px α) (sched : List Int) (ev : SimEvent)
    (s2 : Session α) : Session α × Option Err :=
  if burnOk cfg ev.time && sched.contains ev.time then rebalanceAt cfg alpha px ev.time s2 else (s2, none)

/-- stage 4: the equity curve on market close -/
def eqStage (cfg : SessionCfg α) (ev : SimEvent) (s3 : Session α) : Session α × Option Err :=
  if ev.kind = .marketClose && burnOk cfg ev.time then
    ({ s3 with equity := s3.equity ++ [(ev.time, (s3.broker.accountTotalEquity).2)] }, none)
  else (s3, none)

/-- the loop body is the four stages in sequence -/
theorem step_eq (cfg : SessionCfg α) (alpha : Alpha α) (px : Px α) (sched : List Int) (s : Session α)
    (ev : SimEvent) :
    s.step cfg alpha px sched ev =
      andThen (updStage px ev s) fun s1 => andThen (sigStage cfg px ev s1) fun s2 =>
        andThen (rebStage cfg alpha px sched ev s2) (eqStage cfg ev) := by
  unfold Session.step updStage
  simp only
  rcases s.broker.update ev.time (quotesAt px ev.time) with ⟨b, _ | e⟩
  · rfl
  · rfl

theorem updStage_blind (px : Px α) (ev : SimEvent) : IdBlind (updStage px ev) := by
  intro s s' h
  obtain ⟨hb, hsig, hal, heq⟩ := (eraseIdsS_eq_iff s s').mp h
  obtain ⟨h1, h2⟩ := update_sim hb ev.time (quotesAt px ev.time)
  refine ⟨?_, h2⟩
  rw [eraseIdsS_eq_iff]
  exact ⟨h1, hsig, hal, heq⟩

theorem sigStage_blind (cfg : SessionCfg α) (px : Px α) (ev : SimEvent) : IdBlind (sigStage cfg px ev) := by
  intro s s' h
  obtain ⟨hb, hsig, hal, heq⟩ := (eraseIdsS_eq_iff s s').mp h
  obtain ⟨b, sig, al, eq, n⟩ := s
  obtain ⟨b', sig', al', eq', n'⟩ := s'
  simp only at hb hsig hal heq
  subst hsig hal heq
  unfold sigStage
  cases sig with
  | none => exact ⟨h, rfl⟩
  | some c =>
    simp only
    split
    · simp only [eraseIdsS, hb, and_self]
    · exact ⟨h, rfl⟩

theorem rebStage_blind (cfg : SessionCfg α) (alpha : Alpha α) (px : Px α) (sched : List Int) (ev : SimEvent) :
    IdBlind (rebStage cfg alpha px sched ev) := by
  intro s s' h
  unfold rebStage
  split
  · exact rebalanceAt_blind cfg alpha px ev.time s s' h
  · exact ⟨h, rfl⟩

theorem eqStage_blind (cfg : SessionCfg α) (ev : SimEvent) : IdBlind (eqStage cfg ev) := by
  intro s s' h
  obtain ⟨hb, hsig, hal, heq⟩ := (eraseIdsS_eq_iff s s').mp h
  unfold eqStage
  split
  · refine ⟨?_, rfl⟩
    rw [eraseIdsS_eq_iff]
    simp only [accountTotalEquity_sim hb, heq]
    exact ⟨hb, hsig, hal, trivial⟩
  · exact ⟨h, rfl⟩

/-- **the loop body is blind to ids** -/
theorem step_blind (cfg : SessionCfg α) (alpha : Alpha α) (px : Px α) (sched : List Int) (ev : SimEvent) :
    IdBlind (fun s => s.step cfg alpha px sched ev) := by
  have := (updStage_blind (α := α) px ev).andThen
    ((sigStage_blind cfg px ev).andThen ((rebStage_blind cfg alpha px sched ev).andThen (eqStage_blind cfg ev)))
  intro s s' h
  simp only [step_eq]
  exact this s s' h

theorem runEvents_sim (cfg : SessionCfg α) (alpha : Alpha α) (px : Px α) (sched : List Int)
    (evs : List SimEvent) {s s' : Session α} (h : eraseIdsS s = eraseIdsS s') :
    eraseIdsS (Session.runEvents cfg alpha px sched s evs).1 =
      eraseIdsS (Session.runEvents cfg alpha px sched s' evs).1 ∧
    (Session.runEvents cfg alpha px sched s evs).2 = (Session.runEvents cfg alpha px sched s' evs).2 := by
  induction evs generalizing s s' with
  | nil => exact ⟨h, rfl⟩
  | cons ev evs ih =>
    obtain ⟨h1, h2⟩ := step_blind cfg alpha px sched ev s s' h
    simp only at h1 h2
    rw [Session.runEvents, Session.runEvents]
    rcases hs : s.step cfg alpha px sched ev with ⟨s1, _ | e⟩ <;>
      rcases hs' : s'.step cfg alpha px sched ev with ⟨s1', _ | e'⟩ <;>
      rw [hs, hs'] at h1 h2 <;> simp only at h1 h2 ⊢
    · exact ih h1
    · cases h2
    · cases h2
    · cases h2; exact ⟨h1, rfl⟩

end SessionIds

/-! ## I. additions: held order in `rebalanceOrders`, signal kind, enumerations of a set difference -/

theorem rebalanceOrders_held_perm (target : List (String × Int)) {held held' : List (String × Int)}
    (hh : held.Perm held') (hhk : (held.map (·.1)).Nodup) :
    rebalanceOrders target held = rebalanceOrders target held' := by
  rw [rebalanceOrders_eq, rebalanceOrders_eq]
  have : diffOf held = diffOf held' := by
    funext x
    simp only [diffOf, lookup_perm hh hhk]
  rw [this]

section Buffers2
variable {α : Type} [Field α] [LinearOrder α] [IsStrictOrderedRing α] [FloorRing α] [NumOps α] [LawfulNumOps α]

theorem feed_kind (mid : String → α) (s : Signal α) (as : List String) :
    (Signal.feed mid s as).1.kind = s.kind := by
  induction as generalizing s with
  | nil => rw [Sig.feed_nil]
  | cons a as ih =>
    cases h : (s.append a (mid a)).2 with
    | none => rw [Sig.feed_cons_ok mid s a as h, ih, Sig.append_kind]
    | some e => rw [Sig.feed_cons_err mid s a as e h, Sig.append_kind]

/-- `signal(asset, lookback)` reads the kind and the buffer lookup function only -/
theorem call_congr [TransOps α] {s s' : Signal α} (hk : s.kind = s'.kind)
    (hf : ∀ a l, s.findBuffer a l = s'.findBuffer a l) (a : String) (l : Nat) : s.call a l = s'.call a l := by
  unfold Signal.call
  rw [hk, hf]

/-- every duplicate-free enumeration of `set(universe) - set(tracked)` is a permutation of the model's -/
theorem enum_perm (s : Signal α) (uni extra : List String) (hnd : extra.Nodup)
    (hm : ∀ a, a ∈ extra ↔ a ∈ uni ∧ a ∉ s.assets) :
    extra.Perm ((uni.filter fun a => !s.assets.contains a).eraseDups) := by
  rw [List.perm_ext_iff_of_nodup hnd (Sig.nodup_eraseDups _)]
  intro a
  rw [hm a, List.mem_eraseDups, List.mem_filter]
  simp

end Buffers2

/-! ## J. the whole `SignalsCollection.update` with arbitrary enumerations of the set differences -/

section Collection
variable {α : Type} [Field α] [LinearOrder α] [IsStrictOrderedRing α] [FloorRing α] [NumOps α] [LawfulNumOps α]

/-- `SignalsCollection.update` where signal `s` enumerates its new assets as `enum s` -/
def updateWith (c : SignalsCollection α) (enum : Signal α → List String) (mid : String → α) :
    SignalsCollection α × Option Err :=
  match feedAll mid (c.signals.map fun s => updateAssetsWith s (enum s)) with
  | (sigs, some e) => ({ c with signals := sigs }, some e)
  | (sigs, none) => ({ signals := sigs, warmup := c.warmup + 1 }, none)

theorem update_eq_updateWith (c : SignalsCollection α) (uni : List String) (mid : String → α) :
    c.update uni mid = updateWith c (fun s => (uni.filter fun a => !s.assets.contains a).eraseDups) mid := rfl

/-- two signals with the same observable content: buffers, lookbacks, kind, tracked set -/
def SigEq (r r' : Signal α) : Prop :=
  BufEq r r' ∧ r.kind = r'.kind ∧ ∀ a, a ∈ r.assets ↔ a ∈ r'.assets

theorem sigEq_with (s : Signal α) {extra extra' : List String} (hp : extra.Perm extra') :
    SigEq (updateAssetsWith s extra) (updateAssetsWith s extra') :=
  ⟨⟨rfl, fun _ _ => rfl⟩, rfl, fun a => by simp only [updateAssetsWith, List.mem_append, hp.mem_iff]⟩

theorem feedAll_with_perm (mid : String → α) (enum enum' : Signal α → List String) (sigs : List (Signal α))
    (H : ∀ s ∈ sigs, (enum s).Perm (enum' s) ∧ (enum s).Nodup ∧ ∀ a ∈ s.assets ++ enum s, 0 < mid a) :
    List.Forall₂ SigEq (feedAll mid (sigs.map fun s => updateAssetsWith s (enum s))).1
      (feedAll mid (sigs.map fun s => updateAssetsWith s (enum' s))).1 ∧
    (feedAll mid (sigs.map fun s => updateAssetsWith s (enum s))).2 =
      (feedAll mid (sigs.map fun s => updateAssetsWith s (enum' s))).2 := by
  induction sigs with
  | nil => rw [List.map_nil, List.map_nil, Sig.feedAll_nil]; exact ⟨List.Forall₂.nil, rfl⟩
  | cons s rest ih =>
    obtain ⟨hp, hnd, hpos⟩ := H s (by simp)
    have H' : ∀ s ∈ rest, (enum s).Perm (enum' s) ∧ (enum s).Nodup ∧ ∀ a ∈ s.assets ++ enum s, 0 < mid a :=
      fun t ht => H t (List.mem_cons_of_mem _ ht)
    obtain ⟨ih1, ih2⟩ := ih H'
    obtain ⟨h1, h2⟩ := feed_with_perm mid s hp hnd hpos
    have hk : (Signal.feed mid (updateAssetsWith s (enum s)) (updateAssetsWith s (enum s)).assets).1.kind =
        (Signal.feed mid (updateAssetsWith s (enum' s)) (updateAssetsWith s (enum' s)).assets).1.kind := by
      rw [feed_kind, feed_kind]; rfl
    have ha : ∀ a, a ∈ (Signal.feed mid (updateAssetsWith s (enum s)) (updateAssetsWith s (enum s)).assets).1.assets ↔
        a ∈ (Signal.feed mid (updateAssetsWith s (enum' s)) (updateAssetsWith s (enum' s)).assets).1.assets := by
      intro a
      rw [feed_assets, feed_assets]
      exact (sigEq_with s hp).2.2 a
    rw [List.map_cons, List.map_cons, feedAll, feedAll]
    rcases hf : Signal.feed mid (updateAssetsWith s (enum s)) (updateAssetsWith s (enum s)).assets with ⟨s1, _ | e⟩ <;>
      rcases hf' : Signal.feed mid (updateAssetsWith s (enum' s)) (updateAssetsWith s (enum' s)).assets
        with ⟨s1', _ | e'⟩ <;>
      rw [hf, hf'] at h1 h2 hk ha <;> simp only at h1 h2 hk ha ⊢
    · exact ⟨List.Forall₂.cons ⟨h1, hk, ha⟩ ih1, ih2⟩
    · cases h2
    · cases h2
    · refine ⟨List.Forall₂.cons ⟨h1, hk, ha⟩ ?_, h2⟩
      rw [List.forall₂_map_left_iff, List.forall₂_map_right_iff, List.forall₂_same]
      intro t ht
      exact sigEq_with t (H' t ht).1

/-- the day's update of the whole collection: the enumeration orders do not influence the observable content of
any signal, the warm-up counter, or the outcome -/
theorem updateWith_perm (c : SignalsCollection α) (mid : String → α) (enum enum' : Signal α → List String)
    (H : ∀ s ∈ c.signals, (enum s).Perm (enum' s) ∧ (enum s).Nodup ∧ ∀ a ∈ s.assets ++ enum s, 0 < mid a) :
    List.Forall₂ SigEq (updateWith c enum mid).1.signals (updateWith c enum' mid).1.signals ∧
    (updateWith c enum mid).1.warmup = (updateWith c enum' mid).1.warmup ∧
    (updateWith c enum mid).2 = (updateWith c enum' mid).2 := by
  obtain ⟨h1, h2⟩ := feedAll_with_perm mid enum enum' c.signals H
  unfold updateWith
  rcases hf : feedAll mid (c.signals.map fun s => updateAssetsWith s (enum s)) with ⟨r, _ | e⟩ <;>
    rcases hf' : feedAll mid (c.signals.map fun s => updateAssetsWith s (enum' s)) with ⟨r', _ | e'⟩ <;>
    rw [hf, hf'] at h1 h2 <;> simp only at h1 h2 ⊢
  · exact ⟨h1, trivial, trivial⟩
  · cases h2
  · cases h2
  · exact ⟨h1, trivial, h2⟩

end Collection

end Det
end Qs
