import QsProofs.Lemmas.Orders
import Mathlib.Tactic.NormNum
import Mathlib.Tactic.Push

/-!
# Helper lemmas for C05: rounding, fee models, the transaction built by `makeTxn`, the cash debit
-/

set_option linter.unusedSectionVars false

namespace Qs
open NumOps Num

section
variable {α : Type} [Field α] [LinearOrder α] [IsStrictOrderedRing α] [FloorRing α] [NumOps α] [LawfulNumOps α]

/-! ## `roundHalfEvenI` -/

/-- the three branches of `roundHalfEvenI`, in terms of the fractional part -/
theorem rhe_spec (x : α) :
    (x - (⌊x⌋ : α) < 1 / 2 → roundHalfEvenI x = ⌊x⌋) ∧
    (1 / 2 < x - (⌊x⌋ : α) → roundHalfEvenI x = ⌊x⌋ + 1) ∧
    (x - (⌊x⌋ : α) = 1 / 2 → roundHalfEvenI x = if ⌊x⌋ % 2 = 0 then ⌊x⌋ else ⌊x⌋ + 1) := by
  have hhalf : ((1 : Int) : α) / ((2 : Int) : α) = 1 / 2 := by norm_num
  simp only [roundHalfEvenI, ofInt_eq, lt_eq, floorI_eq, hhalf, decide_eq_true_eq]
  refine ⟨fun h => if_pos h, fun h => ?_, fun h => ?_⟩
  · rw [if_neg (not_lt.mpr h.le), if_pos h]
  · rw [if_neg (by rw [h]; exact lt_irrefl _), if_neg (by rw [h]; exact lt_irrefl _)]

theorem rhe_cases (x : α) :
    (x - (⌊x⌋ : α) < 1 / 2 ∧ roundHalfEvenI x = ⌊x⌋) ∨
    (1 / 2 < x - (⌊x⌋ : α) ∧ roundHalfEvenI x = ⌊x⌋ + 1) ∨
    (x - (⌊x⌋ : α) = 1 / 2 ∧ ⌊x⌋ % 2 = 0 ∧ roundHalfEvenI x = ⌊x⌋) ∨
    (x - (⌊x⌋ : α) = 1 / 2 ∧ ⌊x⌋ % 2 = 1 ∧ roundHalfEvenI x = ⌊x⌋ + 1) := by
  obtain ⟨h1, h2, h3⟩ := rhe_spec x
  rcases lt_trichotomy (x - (⌊x⌋ : α)) (1 / 2) with h | h | h
  · exact Or.inl ⟨h, h1 h⟩
  · have := h3 h
    by_cases hp : ⌊x⌋ % 2 = 0
    · rw [if_pos hp] at this; exact Or.inr (Or.inr (Or.inl ⟨h, hp, this⟩))
    · rw [if_neg hp] at this; exact Or.inr (Or.inr (Or.inr ⟨h, by omega, this⟩))
  · exact Or.inr (Or.inl ⟨h, h2 h⟩)

/-- distance to the rounded value is at most one half -/
theorem rhe_dist (x : α) : |((roundHalfEvenI x : Int) : α) - x| ≤ 1 / 2 := by
  have hf1 := Int.floor_le x
  have hf2 := Int.lt_floor_add_one x
  rw [abs_le]
  rcases rhe_cases x with ⟨h, hr⟩ | ⟨h, hr⟩ | ⟨h, _, hr⟩ | ⟨h, _, hr⟩ <;> rw [hr] <;> push_cast <;>
    constructor <;> linarith

/-- round to nearest: an integer strictly closer than one half is the result -/
theorem rhe_nearest (x : α) (n : Int) (h : |(n : α) - x| < 1 / 2) : roundHalfEvenI x = n := by
  rw [abs_lt] at h
  have hd := rhe_dist x
  rw [abs_le] at hd
  have h1 : ((roundHalfEvenI x : Int) : α) - n < 1 := by linarith [hd.2, h.1]
  have h2 : (n : α) - (roundHalfEvenI x : Int) < 1 := by linarith [hd.1, h.2]
  have h1' : roundHalfEvenI x - n < 1 := by exact_mod_cast h1
  have h2' : n - roundHalfEvenI x < 1 := by exact_mod_cast h2
  omega

/-- ties go to the even integer -/
theorem rhe_tie (x : α) (h : |((roundHalfEvenI x : Int) : α) - x| = 1 / 2) : roundHalfEvenI x % 2 = 0 := by
  have hf1 := Int.floor_le x
  have hf2 := Int.lt_floor_add_one x
  rcases rhe_cases x with ⟨hd, hr⟩ | ⟨hd, hr⟩ | ⟨hd, hp, hr⟩ | ⟨hd, hp, hr⟩
  · rw [hr] at h
    rw [abs_sub_comm, abs_of_nonneg (by linarith)] at h
    linarith
  · rw [hr] at h
    push_cast at h
    rw [abs_of_nonneg (by linarith)] at h
    linarith
  · rw [hr]; exact hp
  · rw [hr]; omega

/-- rounding is odd: `round(-x) = -round(x)` -/
theorem rhe_neg (x : α) : roundHalfEvenI (-x) = - roundHalfEvenI x := by
  have hf1 := Int.floor_le x
  have hf2 := Int.lt_floor_add_one x
  rcases eq_or_lt_of_le hf1 with heq | hlt
  · -- `x` is an integer
    have hfl : ⌊-x⌋ = -⌊x⌋ := by
      rw [Int.floor_eq_iff]; push_cast; constructor <;> linarith
    have h1 := (rhe_spec x).1 (by rw [← heq]; norm_num)
    have h2 := (rhe_spec (-x)).1 (by rw [hfl]; push_cast; rw [← heq]; norm_num)
    rw [h1, h2, hfl]
  · have hfl : ⌊-x⌋ = -⌊x⌋ - 1 := by
      rw [Int.floor_eq_iff]; push_cast; constructor <;> linarith
    have hd' : -x - ((⌊-x⌋ : Int) : α) = 1 - (x - (⌊x⌋ : α)) := by rw [hfl]; push_cast; ring
    obtain ⟨n1, n2, n3⟩ := rhe_spec (-x)
    rw [hd'] at n1 n2 n3
    rcases rhe_cases x with ⟨hd, hr⟩ | ⟨hd, hr⟩ | ⟨hd, hp, hr⟩ | ⟨hd, hp, hr⟩
    · rw [hr, n2 (by linarith), hfl]; ring
    · rw [hr, n1 (by linarith), hfl]; ring
    · rw [hr, n3 (by linarith), hfl, if_neg (by omega)]; ring
    · rw [hr, n3 (by linarith), hfl, if_pos (by omega)]; ring

/-! ## Fee models -/

theorem totalCost_zero (x : α) : (FeeModel.zero : FeeModel α).totalCost x = 0 := by
  simp [FeeModel.totalCost]

theorem totalCost_percent (c τ x : α) : (FeeModel.percent c τ).totalCost x = (c + τ) * |x| := by
  simp only [FeeModel.totalCost, abs_eq']; ring

theorem totalCost_neg (f : FeeModel α) (x : α) : f.totalCost (-x) = f.totalCost x := by
  cases f <;> simp [FeeModel.totalCost]

theorem totalCost_nonneg (f : FeeModel α)
    (hf : match f with | .zero => True | .percent c τ => 0 ≤ c ∧ 0 ≤ τ) (x : α) : 0 ≤ f.totalCost x := by
  cases f with
  | zero => simp [FeeModel.totalCost]
  | percent c τ =>
    rw [totalCost_percent]
    exact mul_nonneg (add_nonneg hf.1 hf.2) (abs_nonneg x)

/-! ## The transaction of a fill -/

theorem direction_pos_iff (o : Order) : 0 < o.direction ↔ ¬ o.qty < 0 := by
  simp only [Order.direction, dirOf]
  split <;> simp_all

theorem makeTxn_spec {b : Broker α} {q : Quotes α} {o : Order} {tx : Txn α} (h : b.makeTxn q o = .ok tx) :
    ∃ bid ask, q o.asset = some (bid, ask) ∧ tx.time = b.clock ∧
      tx.price = (if o.qty < 0 then bid else ask) ∧ tx.qty = o.qty ∧ tx.asset = o.asset ∧
      tx.orderId = o.id ∧
      tx.commission = b.fee.totalCost ((roundHalfEvenI (tx.price * (o.qty : α)) : Int) : α) := by
  unfold Broker.makeTxn at h
  split at h
  · cases h
  · rename_i bid ask hq
    simp only [Except.ok.injEq] at h
    subst h
    refine ⟨bid, ask, hq, rfl, ?_, rfl, rfl, rfl, ?_⟩
    · simp only [direction_pos_iff]
      split <;> simp_all
    · simp only [ofInt_eq]

theorem makeTxn_none {b : Broker α} {q : Quotes α} {o : Order} (h : q o.asset = none) :
    b.makeTxn q o = .error .value := by
  unfold Broker.makeTxn; rw [h]

/-! ## The cash debit -/

theorem applyTxn_cash (b : Broker α) (hwf : WF b) (pid : String) (t : Txn α) (h : (b.applyTxn pid t).2 = none) :
    (b.applyTxn pid t).1.entries.map (fun e => (e.pf.id, e.pf.cash))
      = b.entries.map (fun e => (e.pf.id,
          if e.pf.id = pid then e.pf.cash - (t.price * (t.qty : α) + t.commission) else e.pf.cash)) ∧
    (b.applyTxn pid t).1.master = b.master := by
  refine ⟨?_, (applyTxn_other b pid t).1⟩
  unfold Broker.applyTxn at h ⊢
  split
  · rename_i hf; rw [hf] at h; simp at h
  · rename_i e hf
    rw [hf] at h
    simp only at h
    have hid := transactAsset_id e.pf t
    have hcash := transactAsset_cash e.pf t
    rcases hta : e.pf.transactAsset t with ⟨pf, _ | err⟩
    · rw [hta] at h hid hcash
      simp only at hid hcash ⊢
      have hpid : pf.id = pid := by rw [hid]; exact find_id hf
      have := setPf_map hwf hf pf hpid (fun e => (e.pf.id, e.pf.cash))
      show (b.setPf pf).entries.map _ = _
      rw [this]
      apply List.map_congr_left
      intro x hx
      by_cases hx' : x.pf.id = pid
      · have hxe := wf_unique hwf hf hx hx'
        have he : e.pf.id = pid := find_id hf
        subst hxe
        simp only [he, if_true, hpid, hcash trivial, ofInt_eq]
      · simp only [hx', if_false]
    · rw [hta] at h; simp at h

theorem cashOf_of_idcash (b : Broker α) (pid : String) :
    b.cashOf pid = ((b.entries.map (fun e => (e.pf.id, e.pf.cash))).find? (fun v => v.1 == pid)).map (·.2) := by
  simp only [Broker.cashOf, Broker.find?, List.find?_map, Function.comp_def, Option.map_map]

theorem find?_idcash (b : Broker α) (g : PfEntry α → α) (p : String) :
    ((b.entries.map (fun e => (e.pf.id, g e))).find? (fun v => v.1 == p)).map (·.2)
      = (b.find? p).map g := by
  simp only [Broker.find?, List.find?_map, Function.comp_def, Option.map_map]

theorem applyTxn_cashOf (b : Broker α) (hwf : WF b) (pid : String) (t : Txn α) (h : (b.applyTxn pid t).2 = none)
    (p : String) :
    (b.applyTxn pid t).1.cashOf p
      = if p = pid then (b.cashOf p).map (fun c => c - (t.price * (t.qty : α) + t.commission)) else b.cashOf p := by
  rw [cashOf_of_idcash, (applyTxn_cash b hwf pid t h).1, find?_idcash]
  unfold Broker.cashOf
  rcases hf : b.find? p with _ | e
  · simp
  · have hid : e.pf.id = p := find_id hf
    simp only [Option.map_some, hid]
    split <;> rfl

end
end Qs
