import QsProofs.Lemmas.Orders
import QsProofs.Lemmas.Calendar
import QsProofs.Lemmas.Market
import QsModel.Session

/-!
# Helper lemmas on the session loop (`Session.step`, `Session.runEvents`, `rebalanceAt`, `executeOrders`)

Used by C14 (trades only at scheduled rebalances after burn-in; equity is daily) and C07 (no look-ahead).
Everything here is structural: it holds over every carrier `α` (no order/field laws are used).
The broker is used only through `Broker.update` / `applyTxn`-level frame facts from `Lemmas/Orders.lean`.
-/

set_option linter.unusedSectionVars false

namespace Qs.Sess
open Qs NumOps Num

section
variable {α : Type} [Add α] [Sub α] [Mul α] [Div α] [Neg α] [NumOps α]

/-! ## The stages of `Session.step` -/

/-- stage 2 of `step`: the signals update on a market close -/
def sigStage (cfg : SessionCfg α) (px : Px α) (ev : SimEvent) (s1 : Session α) : Session α × Option Err :=
  match s1.signals with
  | some c =>
    if ev.kind = .marketClose then
      match c.update (cfg.uni.assets ev.time) (fun a => (px ev.time a).getD cfg.nan) with
      | (c', e) => ({ s1 with signals := some c' }, e)
    else (s1, none)
  | none => (s1, none)

/-- the rebalance test of `step` -/
def isReb (cfg : SessionCfg α) (sched : List Int) (t : Int) : Bool := burnOk cfg t && sched.contains t

/-- stage 3 of `step`: the rebalance -/
def rebStage (cfg : SessionCfg α) (alpha : Alpha α) (px : Px α) (sched : List Int) (t : Int) (s2 : Session α) :
    Session α × Option Err :=
  if isReb cfg sched t then rebalanceAt cfg alpha px t s2 else (s2, none)

/-- the equity test of `step` -/
def isEq (cfg : SessionCfg α) (ev : SimEvent) : Bool := ev.kind = .marketClose && burnOk cfg ev.time

/-- stage 4 of `step`: the equity point on a market close past the burn-in -/
def eqStage (cfg : SessionCfg α) (ev : SimEvent) (s3 : Session α) : Session α × Option Err :=
  if isEq cfg ev then
    ({ s3 with equity := s3.equity ++ [(ev.time, (s3.broker.accountTotalEquity).2)] }, none)
  else (s3, none)

/-- `Session.step` is the composition of its four stages, each stopping at the first error -/
theorem step_eq (cfg : SessionCfg α) (alpha : Alpha α) (px : Px α) (sched : List Int) (s : Session α)
    (ev : SimEvent) :
    s.step cfg alpha px sched ev =
      match s.broker.update ev.time (quotesAt px ev.time) with
      | (b, some e) => ({ s with broker := b }, some e)
      | (b, none) =>
        match sigStage cfg px ev { s with broker := b } with
        | (s2, some e) => (s2, some e)
        | (s2, none) =>
          match rebStage cfg alpha px sched ev.time s2 with
          | (s3, some e) => (s3, some e)
          | (s3, none) => eqStage cfg ev s3 := rfl

/-! ## Congruence in the market view (C07) -/

theorem quotesAt_congr {px₁ px₂ : Px α} {t : Int} (h : px₁ t = px₂ t) : quotesAt px₁ t = quotesAt px₂ t := by
  unfold quotesAt; rw [h]

theorem executeOrders_congr {px₁ px₂ : Px α} {t : Int} (h : px₁ t = px₂ t) :
    ∀ (l : List (String × Int)) (b : Broker α) (n : Nat),
      executeOrders px₁ t b n l = executeOrders px₂ t b n l
  | [], b, n => rfl
  | (a, q) :: rest, b, n => by
    simp only [executeOrders, quotesAt_congr h]
    split
    · rfl
    · split
      · rfl
      · exact executeOrders_congr h rest _ _

theorem rebalanceAt_congr {px₁ px₂ : Px α} {t : Int} (h : px₁ t = px₂ t) (cfg : SessionCfg α) (alpha : Alpha α)
    (s : Session α) : rebalanceAt cfg alpha px₁ t s = rebalanceAt cfg alpha px₂ t s := by
  simp only [rebalanceAt, h, executeOrders_congr h]

theorem sigStage_congr {px₁ px₂ : Px α} {ev : SimEvent} (h : px₁ ev.time = px₂ ev.time) (cfg : SessionCfg α)
    (s : Session α) : sigStage cfg px₁ ev s = sigStage cfg px₂ ev s := by
  simp only [sigStage, h]

theorem rebStage_congr {px₁ px₂ : Px α} {t : Int} (h : px₁ t = px₂ t) (cfg : SessionCfg α) (alpha : Alpha α)
    (sched : List Int) (s : Session α) :
    rebStage cfg alpha px₁ sched t s = rebStage cfg alpha px₂ sched t s := by
  simp only [rebStage, rebalanceAt_congr h]

theorem step_congr {px₁ px₂ : Px α} {ev : SimEvent} (h : px₁ ev.time = px₂ ev.time) (cfg : SessionCfg α)
    (alpha : Alpha α) (sched : List Int) (s : Session α) :
    s.step cfg alpha px₁ sched ev = s.step cfg alpha px₂ sched ev := by
  simp only [step_eq, quotesAt_congr h, sigStage_congr h, rebStage_congr h]

theorem runEvents_congr {px₁ px₂ : Px α} (cfg : SessionCfg α) (alpha : Alpha α) (sched : List Int) :
    ∀ (events : List SimEvent) (s : Session α), (∀ ev ∈ events, px₁ ev.time = px₂ ev.time) →
      Session.runEvents cfg alpha px₁ sched s events = Session.runEvents cfg alpha px₂ sched s events
  | [], s, _ => rfl
  | ev :: rest, s, h => by
    simp only [Session.runEvents, step_congr (h ev (List.mem_cons_self ..))]
    split
    · rfl
    · exact runEvents_congr cfg alpha sched rest _ (fun e he => h e (List.mem_cons_of_mem _ he))


/-! ## Broker frames: the fill log only grows, by fills stamped with the update time -/

/-- `b'` extends the fill log of `b` by fills stamped `t`, and by nothing when the exchange is closed at `t` -/
def FillsExt (t : Int) (b b' : Broker α) : Prop :=
  ∃ ef, b'.fillLog = b.fillLog ++ ef ∧ (∀ f ∈ ef, f.2.time = t) ∧ (isOpen t = false → ef = [])

theorem FillsExt.refl (t : Int) (b : Broker α) : FillsExt t b b := ⟨[], by simp, by simp, fun _ => rfl⟩

theorem FillsExt.of_eq {t : Int} {b b' : Broker α} (h : b'.fillLog = b.fillLog) : FillsExt t b b' :=
  ⟨[], by simp [h], by simp, fun _ => rfl⟩

theorem FillsExt.trans {t : Int} {b b' b'' : Broker α} (h1 : FillsExt t b b') (h2 : FillsExt t b' b'') :
    FillsExt t b b'' := by
  obtain ⟨e1, a1, b1, c1⟩ := h1
  obtain ⟨e2, a2, b2, c2⟩ := h2
  refine ⟨e1 ++ e2, by rw [a2, a1, List.append_assoc], ?_, fun h => by rw [c1 h, c2 h]; rfl⟩
  intro f hf
  rcases List.mem_append.1 hf with h | h
  · exact b1 f h
  · exact b2 f h

/-- one execution appends at most one fill, stamped with the broker's clock, and keeps the clock -/
theorem executeOrder_stamp (b : Broker α) (q : Quotes α) (pid : String) (o : Order) :
    ∃ ef, (b.executeOrder q pid o).1.fillLog = b.fillLog ++ ef ∧ ∀ f ∈ ef, f.2.time = b.clock := by
  rcases hm : b.makeTxn q o with e | tx
  · exact ⟨[], by simp [Broker.executeOrder, hm], by simp⟩
  · have hx : b.executeOrder q pid o = b.applyTxn pid tx := by simp [Broker.executeOrder, hm]
    rw [hx]
    by_cases hn : (b.applyTxn pid tx).2 = none
    · refine ⟨[(pid, tx)], (applyTxn_log b pid tx).1 hn, ?_⟩
      intro f hf
      simp only [List.mem_singleton] at hf
      subst hf
      exact (makeTxn_fields hm).2
    · exact ⟨[], by simp [(applyTxn_log b pid tx).2 hn], by simp⟩

theorem runExec_stamps (q : Quotes α) : ∀ (l : List (String × Order)) (b : Broker α),
    ∃ ef, (Broker.runUntilErr (fun b (x : String × Order) => b.executeOrder q x.1 x.2) b l).1.fillLog
        = b.fillLog ++ ef ∧ ∀ f ∈ ef, f.2.time = b.clock
  | [], b => ⟨[], by simp [Broker.runUntilErr], by simp⟩
  | x :: xs, b => by
    obtain ⟨e1, h1, s1⟩ := executeOrder_stamp b q x.1 x.2
    have hc := (executeOrder_other b q x.1 x.2).2.1
    simp only [Broker.runUntilErr]
    rcases hfx : b.executeOrder q x.1 x.2 with ⟨b', _ | e⟩
    · rw [hfx] at h1 hc
      simp only at h1 hc ⊢
      obtain ⟨e2, h2, s2⟩ := runExec_stamps q xs b'
      refine ⟨e1 ++ e2, by rw [h2, h1, List.append_assoc], ?_⟩
      intro f hf
      rcases List.mem_append.1 hf with h | h
      · exact s1 f h
      · rw [← hc]; exact s2 f h
    · rw [hfx] at h1
      exact ⟨e1, h1, s1⟩

/-- `update t` only appends fills stamped `t`, and none outside exchange hours — whether or not it raises -/
theorem update_fillsExt (b : Broker α) (t : Int) (q : Quotes α) : FillsExt t b (b.update t q).1 := by
  have hf := marked_frame b t q
  rw [update_eq]
  rcases hm : b.marked t q with ⟨b1, _ | e⟩
  · rw [hm] at hf
    simp only at hf ⊢
    by_cases ho : isOpen t = true
    · simp only [ho, if_true]
      obtain ⟨ef, h1, h2⟩ := runExec_stamps q
        (sellsFirst (fun (x : String × Order) => x.2.isSell) b1.drained) b1.clearQueues
      refine ⟨ef, ?_, ?_, fun h => by rw [ho] at h; cases h⟩
      · rw [h1]; show b1.fillLog ++ ef = _; rw [hf.2.1]
      · intro f hf'; rw [h2 f hf']; exact hf.2.2.2.1
    · simp only [ho]
      exact FillsExt.of_eq hf.2.1
  · rw [hm] at hf
    exact FillsExt.of_eq hf.2.1

theorem submitOrder_fillLog (b : Broker α) (pid : String) (o : Order) :
    (b.submitOrder pid o).1.fillLog = b.fillLog := by
  unfold Broker.submitOrder
  split <;> rfl

theorem executeOrders_fillsExt (px : Px α) (t : Int) :
    ∀ (l : List (String × Int)) (b : Broker α) (n : Nat), FillsExt t b (executeOrders px t b n l).1
  | [], b, n => FillsExt.refl t b
  | (a, q) :: rest, b, n => by
    have h1 := submitOrder_fillLog b PORTFOLIO_ID { id := n, asset := a, qty := q }
    simp only [executeOrders]
    rcases hs : b.submitOrder PORTFOLIO_ID { id := n, asset := a, qty := q } with ⟨b1, _ | e⟩
    · rw [hs] at h1
      simp only at h1 ⊢
      have h2 := update_fillsExt b1 t (quotesAt px t)
      rcases hu : b1.update t (quotesAt px t) with ⟨b2, _ | e⟩
      · rw [hu] at h2
        exact (FillsExt.of_eq h1).trans (h2.trans (executeOrders_fillsExt px t rest b2 (n + 1)))
      · rw [hu] at h2
        exact (FillsExt.of_eq h1).trans h2
    · rw [hs] at h1
      exact FillsExt.of_eq h1

/-! ## Empty queues: an update with nothing queued fills nothing -/

/-- no order is pending in any portfolio -/
def QueuesEmpty (b : Broker α) : Prop := ∀ e ∈ b.entries, e.queue = []

theorem queuesEmpty_iff_qview (b : Broker α) : QueuesEmpty b ↔ ∀ v ∈ b.qview, v.2 = [] := by
  simp only [QueuesEmpty, Broker.qview, List.mem_map]
  constructor
  · rintro h v ⟨e, he, rfl⟩; exact h e he
  · intro h e he; exact h _ ⟨e, he, rfl⟩

theorem queuesEmpty_congr {b b' : Broker α} (h : b'.qview = b.qview) (hq : QueuesEmpty b) : QueuesEmpty b' := by
  rw [queuesEmpty_iff_qview] at *; rw [h]; exact hq

theorem drained_of_queuesEmpty {b : Broker α} (h : QueuesEmpty b) : b.drained = [] := by
  simp only [Broker.drained, List.flatMap_eq_nil_iff]
  intro e he; rw [h e he]; rfl

theorem queuesEmpty_clear (b : Broker α) : QueuesEmpty b.clearQueues := by
  intro e he
  simp only [Broker.clearQueues, List.mem_map] at he
  obtain ⟨x, _, rfl⟩ := he
  rfl

/-- with nothing queued, `update` (open or closed, raising or not) logs no fill and leaves the queues empty -/
theorem update_idle (b : Broker α) (t : Int) (q : Quotes α) (hq : QueuesEmpty b) :
    (b.update t q).1.fillLog = b.fillLog ∧ QueuesEmpty (b.update t q).1 := by
  have hf := marked_frame b t q
  rw [update_eq]
  rcases hm : b.marked t q with ⟨b1, _ | e⟩
  · rw [hm] at hf
    simp only at hf ⊢
    have hq1 : QueuesEmpty b1 := queuesEmpty_congr hf.1 hq
    by_cases ho : isOpen t = true
    · simp only [ho, if_true, drained_of_queuesEmpty hq1, sellsFirst, List.filter_nil, List.append_nil,
        Broker.runUntilErr]
      exact ⟨hf.2.1, queuesEmpty_clear b1⟩
    · simp only [ho]
      exact ⟨hf.2.1, hq1⟩
  · rw [hm] at hf
    exact ⟨hf.2.1, queuesEmpty_congr hf.1 hq⟩


/-! ## Stage frames -/

theorem sigStage_frame (cfg : SessionCfg α) (px : Px α) (ev : SimEvent) (s : Session α) :
    (sigStage cfg px ev s).1.broker = s.broker ∧ (sigStage cfg px ev s).1.allocations = s.allocations ∧
    (sigStage cfg px ev s).1.equity = s.equity ∧ (sigStage cfg px ev s).1.nextId = s.nextId := by
  unfold sigStage
  split
  · split
    · exact ⟨rfl, rfl, rfl, rfl⟩
    · exact ⟨rfl, rfl, rfl, rfl⟩
  · exact ⟨rfl, rfl, rfl, rfl⟩

/-- the weight vector `rebalanceAt` records -/
def recordedWeights (cfg : SessionCfg α) (alpha : Alpha α) (t : Int) (s : Session α) : List (String × α) :=
  fullWeightVector (heldOf s.broker) (cfg.uni.assets t) (fixedWeight (alpha t s.signals (cfg.uni.assets t)))

/-- `rebalanceAt` always records exactly one allocation `(t, weights)` (before sizing, so also when it raises),
never touches equity or signals, and changes the broker only by `executeOrders` at `t` -/
theorem rebalanceAt_frame (cfg : SessionCfg α) (alpha : Alpha α) (px : Px α) (t : Int) (s : Session α) :
    (rebalanceAt cfg alpha px t s).1.allocations = s.allocations ++ [(t, recordedWeights cfg alpha t s)] ∧
    (rebalanceAt cfg alpha px t s).1.equity = s.equity ∧
    (rebalanceAt cfg alpha px t s).1.signals = s.signals ∧
    FillsExt t s.broker (rebalanceAt cfg alpha px t s).1.broker := by
  simp only [rebalanceAt, recordedWeights]
  split
  · exact ⟨rfl, rfl, rfl, FillsExt.refl _ _⟩
  · refine ⟨rfl, rfl, rfl, ?_⟩
    exact executeOrders_fillsExt px t _ _ _

theorem eqStage_none (cfg : SessionCfg α) (ev : SimEvent) (s : Session α) : (eqStage cfg ev s).2 = none := by
  unfold eqStage; split <;> rfl

theorem eqStage_frame (cfg : SessionCfg α) (ev : SimEvent) (s : Session α) :
    (eqStage cfg ev s).1.broker = s.broker ∧ (eqStage cfg ev s).1.allocations = s.allocations ∧
    (eqStage cfg ev s).1.signals = s.signals ∧
    (eqStage cfg ev s).1.equity =
      s.equity ++ (if isEq cfg ev then [(ev.time, (s.broker.accountTotalEquity).2)] else []) := by
  unfold eqStage
  split
  · exact ⟨rfl, rfl, rfl, rfl⟩
  · exact ⟨rfl, rfl, rfl, by simp⟩

/-- the four ways `step` can end, with the intermediate states -/
theorem step_cases (cfg : SessionCfg α) (alpha : Alpha α) (px : Px α) (sched : List Int) (s : Session α)
    (ev : SimEvent) :
    (∃ b e, s.broker.update ev.time (quotesAt px ev.time) = (b, some e) ∧
        s.step cfg alpha px sched ev = ({ s with broker := b }, some e)) ∨
    (∃ b s2 e, s.broker.update ev.time (quotesAt px ev.time) = (b, none) ∧
        sigStage cfg px ev { s with broker := b } = (s2, some e) ∧
        s.step cfg alpha px sched ev = (s2, some e)) ∨
    (∃ b s2 s3 e, s.broker.update ev.time (quotesAt px ev.time) = (b, none) ∧
        sigStage cfg px ev { s with broker := b } = (s2, none) ∧
        rebStage cfg alpha px sched ev.time s2 = (s3, some e) ∧
        s.step cfg alpha px sched ev = (s3, some e)) ∨
    (∃ b s2 s3, s.broker.update ev.time (quotesAt px ev.time) = (b, none) ∧
        sigStage cfg px ev { s with broker := b } = (s2, none) ∧
        rebStage cfg alpha px sched ev.time s2 = (s3, none) ∧
        s.step cfg alpha px sched ev = eqStage cfg ev s3) := by
  rw [step_eq]
  rcases hu : s.broker.update ev.time (quotesAt px ev.time) with ⟨b, _ | e⟩
  · rcases hs : sigStage cfg px ev { s with broker := b } with ⟨s2, _ | e⟩
    · rcases hr : rebStage cfg alpha px sched ev.time s2 with ⟨s3, _ | e⟩
      · exact Or.inr (Or.inr (Or.inr ⟨b, s2, s3, rfl, hs, hr, by simp only [hs, hr]⟩))
      · exact Or.inr (Or.inr (Or.inl ⟨b, s2, s3, e, rfl, hs, hr, by simp only [hs, hr]⟩))
    · exact Or.inr (Or.inl ⟨b, s2, e, rfl, hs, by simp only [hs]⟩)
  · exact Or.inl ⟨b, e, rfl, rfl⟩

/-- what the rebalance stage does to the session, in one statement -/
theorem rebStage_frame (cfg : SessionCfg α) (alpha : Alpha α) (px : Px α) (sched : List Int) (t : Int)
    (s : Session α) :
    (rebStage cfg alpha px sched t s).1.allocations =
      s.allocations ++ (if isReb cfg sched t then [(t, recordedWeights cfg alpha t s)] else []) ∧
    (rebStage cfg alpha px sched t s).1.equity = s.equity ∧
    (rebStage cfg alpha px sched t s).1.signals = s.signals ∧
    FillsExt t s.broker (rebStage cfg alpha px sched t s).1.broker ∧
    (isReb cfg sched t = false → rebStage cfg alpha px sched t s = (s, none)) := by
  unfold rebStage
  split
  · rename_i h
    have := rebalanceAt_frame cfg alpha px t s
    exact ⟨this.1, this.2.1, this.2.2.1, this.2.2.2, fun h' => by rw [h] at h'; cases h'⟩
  · exact ⟨by simp, rfl, rfl, FillsExt.refl _ _, fun _ => rfl⟩

/-! ## One step: allocations, equity, fills -/

/-- the allocation records a step appends: none unless `t` is a scheduled instant past the burn-in, and then
exactly one, stamped `t` — unless the step raised before reaching the rebalance -/
theorem step_allocations (cfg : SessionCfg α) (alpha : Alpha α) (px : Px α) (sched : List Int) (s : Session α)
    (ev : SimEvent) :
    ∃ ea, (s.step cfg alpha px sched ev).1.allocations = s.allocations ++ ea ∧
      (ea = [] ∨ (isReb cfg sched ev.time = true ∧ ∃ w, ea = [(ev.time, w)])) ∧
      ((s.step cfg alpha px sched ev).2 = none →
        ea.map (·.1) = if isReb cfg sched ev.time then [ev.time] else []) := by
  rcases step_cases cfg alpha px sched s ev with ⟨b, e, _, hst⟩ | ⟨b, s2, e, _, hs, hst⟩ |
      ⟨b, s2, s3, e, _, hs, hr, hst⟩ | ⟨b, s2, s3, _, hs, hr, hst⟩
  · rw [hst]
    exact ⟨[], by simp, Or.inl rfl, by simp⟩
  · have h2 := (sigStage_frame cfg px ev { s with broker := b }).2.1
    rw [hs] at h2
    rw [hst]
    exact ⟨[], by simpa using h2, Or.inl rfl, by simp⟩
  · have h2 := (sigStage_frame cfg px ev { s with broker := b }).2.1
    have h3 := (rebStage_frame cfg alpha px sched ev.time s2).1
    rw [hs] at h2; rw [hr] at h3
    simp only at h2 h3
    rw [hst]
    refine ⟨_, by rw [h3, h2], ?_, by simp⟩
    split
    · rename_i h; exact Or.inr ⟨h, _, rfl⟩
    · exact Or.inl rfl
  · have h2 := (sigStage_frame cfg px ev { s with broker := b }).2.1
    have h3 := (rebStage_frame cfg alpha px sched ev.time s2).1
    have h4 := (eqStage_frame cfg ev s3).2.1
    rw [hs] at h2; rw [hr] at h3
    simp only at h2 h3
    rw [hst]
    refine ⟨_, by rw [h4, h3, h2], ?_, fun _ => ?_⟩
    · split
      · rename_i h; exact Or.inr ⟨h, _, rfl⟩
      · exact Or.inl rfl
    · split <;> rfl

/-- **equity, one step.** A step that returns normally appends exactly one equity point on a market close past the
burn-in — the account equity of the state the step leaves — and none otherwise; a step that raises leaves the
equity curve alone. -/
theorem step_equity (cfg : SessionCfg α) (alpha : Alpha α) (px : Px α) (sched : List Int) (s : Session α)
    (ev : SimEvent) :
    ((s.step cfg alpha px sched ev).2 = none →
      (s.step cfg alpha px sched ev).1.equity = s.equity ++
        (if isEq cfg ev then
          [(ev.time, ((s.step cfg alpha px sched ev).1.broker.accountTotalEquity).2)] else [])) ∧
    ((s.step cfg alpha px sched ev).2 ≠ none → (s.step cfg alpha px sched ev).1.equity = s.equity) := by
  rcases step_cases cfg alpha px sched s ev with ⟨b, e, _, hst⟩ | ⟨b, s2, e, _, hs, hst⟩ |
      ⟨b, s2, s3, e, _, hs, hr, hst⟩ | ⟨b, s2, s3, _, hs, hr, hst⟩
  · rw [hst]; exact ⟨by simp, fun _ => rfl⟩
  · have h2 := (sigStage_frame cfg px ev { s with broker := b }).2.2.1
    rw [hs] at h2
    rw [hst]; exact ⟨by simp, fun _ => h2⟩
  · have h2 := (sigStage_frame cfg px ev { s with broker := b }).2.2.1
    have h3 := (rebStage_frame cfg alpha px sched ev.time s2).2.1
    rw [hs] at h2; rw [hr] at h3
    simp only at h2 h3
    rw [hst]; exact ⟨by simp, fun _ => by rw [h3, h2]⟩
  · have h2 := (sigStage_frame cfg px ev { s with broker := b }).2.2.1
    have h3 := (rebStage_frame cfg alpha px sched ev.time s2).2.1
    have h4 := eqStage_frame cfg ev s3
    rw [hs] at h2; rw [hr] at h3
    simp only at h2 h3
    rw [hst]
    refine ⟨fun _ => ?_, fun h => absurd (eqStage_none cfg ev s3) h⟩
    rw [h4.2.2.2, h4.1, h3, h2]

/-- the fills a step appends are stamped with the event time and exist only inside exchange hours -/
theorem step_fillsExt (cfg : SessionCfg α) (alpha : Alpha α) (px : Px α) (sched : List Int) (s : Session α)
    (ev : SimEvent) : FillsExt ev.time s.broker (s.step cfg alpha px sched ev).1.broker := by
  have hu0 := update_fillsExt s.broker ev.time (quotesAt px ev.time)
  rcases step_cases cfg alpha px sched s ev with ⟨b, e, hu, hst⟩ | ⟨b, s2, e, hu, hs, hst⟩ |
      ⟨b, s2, s3, e, hu, hs, hr, hst⟩ | ⟨b, s2, s3, hu, hs, hr, hst⟩
  · rw [hst]; rw [hu] at hu0; exact hu0
  · have h2 := (sigStage_frame cfg px ev { s with broker := b }).1
    rw [hs] at h2; simp only at h2
    rw [hst]; rw [hu] at hu0
    show FillsExt ev.time s.broker s2.broker
    rw [h2]; exact hu0
  · have h2 := (sigStage_frame cfg px ev { s with broker := b }).1
    have h3 := (rebStage_frame cfg alpha px sched ev.time s2).2.2.2.1
    rw [hs] at h2; rw [hr] at h3; simp only at h2 h3
    rw [hst]; rw [hu] at hu0
    rw [h2] at h3
    exact hu0.trans h3
  · have h2 := (sigStage_frame cfg px ev { s with broker := b }).1
    have h3 := (rebStage_frame cfg alpha px sched ev.time s2).2.2.2.1
    have h4 := (eqStage_frame cfg ev s3).1
    rw [hs] at h2; rw [hr] at h3; simp only at h2 h3
    rw [hst, h4]; rw [hu] at hu0
    rw [h2] at h3
    exact hu0.trans h3

/-- a step at an instant that is not a rebalance, started with empty queues, logs no fill, records no allocation
and leaves the queues empty -/
theorem step_idle (cfg : SessionCfg α) (alpha : Alpha α) (px : Px α) (sched : List Int) (s : Session α)
    (ev : SimEvent) (hq : QueuesEmpty s.broker) (hn : isReb cfg sched ev.time = false) :
    (s.step cfg alpha px sched ev).1.broker.fillLog = s.broker.fillLog ∧
    QueuesEmpty (s.step cfg alpha px sched ev).1.broker ∧
    (s.step cfg alpha px sched ev).1.allocations = s.allocations := by
  have hu0 := update_idle s.broker ev.time (quotesAt px ev.time) hq
  rcases step_cases cfg alpha px sched s ev with ⟨b, e, hu, hst⟩ | ⟨b, s2, e, hu, hs, hst⟩ |
      ⟨b, s2, s3, e, hu, hs, hr, hst⟩ | ⟨b, s2, s3, hu, hs, hr, hst⟩
  · rw [hst]; rw [hu] at hu0; exact ⟨hu0.1, hu0.2, rfl⟩
  · have h2 := sigStage_frame cfg px ev { s with broker := b }
    rw [hs] at h2; simp only at h2
    rw [hst]; rw [hu] at hu0
    show s2.broker.fillLog = _ ∧ QueuesEmpty s2.broker ∧ s2.allocations = _
    rw [h2.1, h2.2.1]; exact ⟨hu0.1, hu0.2, rfl⟩
  · rw [(rebStage_frame cfg alpha px sched ev.time s2).2.2.2.2 hn] at hr
    cases hr
  · have h2 := sigStage_frame cfg px ev { s with broker := b }
    rw [hs] at h2; simp only at h2
    rw [(rebStage_frame cfg alpha px sched ev.time s2).2.2.2.2 hn] at hr
    cases hr
    have h4 := eqStage_frame cfg ev s2
    rw [hst, h4.1, h4.2.1, h2.1, h2.2.1]; rw [hu] at hu0
    exact ⟨hu0.1, hu0.2, rfl⟩


/-- every record a step appends to `allocations` / `equity` is stamped with the event time -/
theorem step_ext (cfg : SessionCfg α) (alpha : Alpha α) (px : Px α) (sched : List Int) (s : Session α)
    (ev : SimEvent) :
    (∃ ea, (s.step cfg alpha px sched ev).1.allocations = s.allocations ++ ea ∧ ∀ x ∈ ea, x.1 = ev.time) ∧
    (∃ ee, (s.step cfg alpha px sched ev).1.equity = s.equity ++ ee ∧ ∀ x ∈ ee, x.1 = ev.time) := by
  constructor
  · obtain ⟨ea, h1, h2, _⟩ := step_allocations cfg alpha px sched s ev
    refine ⟨ea, h1, ?_⟩
    rcases h2 with rfl | ⟨_, w, rfl⟩
    · simp
    · simp
  · have h := step_equity cfg alpha px sched s ev
    by_cases hn : (s.step cfg alpha px sched ev).2 = none
    · refine ⟨_, h.1 hn, ?_⟩
      split
      · simp
      · simp
    · exact ⟨[], by simp [h.2 hn], by simp⟩

/-! ## Runs -/

theorem runEvents_append (cfg : SessionCfg α) (alpha : Alpha α) (px : Px α) (sched : List Int) :
    ∀ (l₁ l₂ : List SimEvent) (s : Session α),
      Session.runEvents cfg alpha px sched s (l₁ ++ l₂) =
        match Session.runEvents cfg alpha px sched s l₁ with
        | (s', none) => Session.runEvents cfg alpha px sched s' l₂
        | (s', some e) => (s', some e)
  | [], l₂, s => rfl
  | ev :: rest, l₂, s => by
    simp only [List.cons_append, Session.runEvents]
    rcases hst : s.step cfg alpha px sched ev with ⟨s1, _ | e⟩
    · exact runEvents_append cfg alpha px sched rest l₂ s1
    · rfl

/-- a run that ends in an error at `te`: the events before the failing one ran normally, and the failing event's
step raised the error -/
theorem runEvents_err_split (cfg : SessionCfg α) (alpha : Alpha α) (px : Px α) (sched : List Int) :
    ∀ (events : List SimEvent) (s s' : Session α) (te : Int) (e : Err),
      Session.runEvents cfg alpha px sched s events = (s', some (te, e)) →
      ∃ pre ev post sm, events = pre ++ ev :: post ∧ te = ev.time ∧
        Session.runEvents cfg alpha px sched s pre = (sm, none) ∧
        sm.step cfg alpha px sched ev = (s', some e)
  | [], s, s', te, e, h => by simp [Session.runEvents] at h
  | ev :: rest, s, s', te, e, h => by
    simp only [Session.runEvents] at h
    rcases hst : s.step cfg alpha px sched ev with ⟨s1, _ | e1⟩
    · rw [hst] at h
      obtain ⟨pre, ev', post, sm, h1, h2, h3, h4⟩ := runEvents_err_split cfg alpha px sched rest s1 s' te e h
      refine ⟨ev :: pre, ev', post, sm, by rw [h1]; rfl, h2, ?_, h4⟩
      simp only [Session.runEvents, hst]
      exact h3
    · rw [hst] at h
      simp only [Prod.mk.injEq, Option.some.injEq] at h
      obtain ⟨rfl, rfl, rfl⟩ := h
      exact ⟨[], ev, rest, s, rfl, rfl, rfl, hst⟩

/-- **allocations of a normal run**: one record per event time that is a scheduled instant past the burn-in, in
event order, and nothing else -/
theorem runEvents_allocations (cfg : SessionCfg α) (alpha : Alpha α) (px : Px α) (sched : List Int) :
    ∀ (events : List SimEvent) (s s' : Session α),
      Session.runEvents cfg alpha px sched s events = (s', none) →
      s'.allocations.map (·.1) =
        s.allocations.map (·.1) ++ (events.map (·.time)).filter (isReb cfg sched)
  | [], s, s', h => by
    simp only [Session.runEvents, Prod.mk.injEq] at h
    rw [← h.1]; simp
  | ev :: rest, s, s', h => by
    simp only [Session.runEvents] at h
    obtain ⟨ea, h1, _, h3⟩ := step_allocations cfg alpha px sched s ev
    rcases hst : s.step cfg alpha px sched ev with ⟨s1, _ | e1⟩
    · rw [hst] at h h1 h3
      simp only at h h1 h3
      rw [runEvents_allocations cfg alpha px sched rest s1 s' h, h1, List.map_append, h3 trivial,
        List.map_cons, List.filter_cons]
      split <;> simp
    · rw [hst] at h; simp at h

/-- **equity of a normal run**: one point per market-close event past the burn-in, in event order -/
theorem runEvents_equity (cfg : SessionCfg α) (alpha : Alpha α) (px : Px α) (sched : List Int) :
    ∀ (events : List SimEvent) (s s' : Session α),
      Session.runEvents cfg alpha px sched s events = (s', none) →
      s'.equity.map (·.1) = s.equity.map (·.1) ++ (events.filter (isEq cfg)).map (·.time)
  | [], s, s', h => by
    simp only [Session.runEvents, Prod.mk.injEq] at h
    rw [← h.1]; simp
  | ev :: rest, s, s', h => by
    simp only [Session.runEvents] at h
    have h1 := (step_equity cfg alpha px sched s ev).1
    rcases hst : s.step cfg alpha px sched ev with ⟨s1, _ | e1⟩
    · rw [hst] at h h1
      simp only at h h1
      rw [runEvents_equity cfg alpha px sched rest s1 s' h, h1 trivial, List.map_append, List.filter_cons]
      split <;> simp
    · rw [hst] at h; simp at h

/-- each equity point a normal run appends is `(ev.time, account equity of the state right after ev)` for a
market-close event `ev` past the burn-in -/
theorem runEvents_equity_points (cfg : SessionCfg α) (alpha : Alpha α) (px : Px α) (sched : List Int) :
    ∀ (events : List SimEvent) (s s' : Session α),
      Session.runEvents cfg alpha px sched s events = (s', none) →
      ∃ ee, s'.equity = s.equity ++ ee ∧
        ∀ p ∈ ee, ∃ pre ev post sm, events = pre ++ ev :: post ∧ isEq cfg ev = true ∧
          Session.runEvents cfg alpha px sched s pre = (sm, none) ∧
          (sm.step cfg alpha px sched ev).2 = none ∧
          p = (ev.time, ((sm.step cfg alpha px sched ev).1.broker.accountTotalEquity).2)
  | [], s, s', h => by
    simp only [Session.runEvents, Prod.mk.injEq] at h
    exact ⟨[], by rw [← h.1]; simp, by simp⟩
  | ev :: rest, s, s', h => by
    simp only [Session.runEvents] at h
    have h1 := (step_equity cfg alpha px sched s ev).1
    rcases hst : s.step cfg alpha px sched ev with ⟨s1, _ | e1⟩
    · rw [hst] at h h1
      simp only at h h1
      obtain ⟨ee, hee, hp⟩ := runEvents_equity_points cfg alpha px sched rest s1 s' h
      refine ⟨(if isEq cfg ev then [(ev.time, (s1.broker.accountTotalEquity).2)] else []) ++ ee,
        by rw [hee, h1 trivial, List.append_assoc], ?_⟩
      intro p hp'
      rcases List.mem_append.1 hp' with hp' | hp'
      · by_cases hq : isEq cfg ev = true
        · simp only [hq, if_true, List.mem_singleton] at hp'
          refine ⟨[], ev, rest, s, rfl, hq, rfl, by rw [hst], ?_⟩
          rw [hst]; exact hp'
        · simp [hq] at hp'
      · obtain ⟨pre, ev', post, sm, e1, e2, e3, e4, e5⟩ := hp p hp'
        refine ⟨ev :: pre, ev', post, sm, by rw [e1]; rfl, e2, ?_, e4, e5⟩
        simp only [Session.runEvents, hst]
        exact e3
    · rw [hst] at h; simp at h

/-- **every record of a run carries the time of one of its events** — allocations, equity points, fills (which
moreover exist only for events inside exchange hours) and the error, whether or not the run raises -/
theorem runEvents_ext (cfg : SessionCfg α) (alpha : Alpha α) (px : Px α) (sched : List Int) :
    ∀ (events : List SimEvent) (s : Session α),
      (∃ ea, (Session.runEvents cfg alpha px sched s events).1.allocations = s.allocations ++ ea ∧
        ∀ x ∈ ea, ∃ ev ∈ events, x.1 = ev.time) ∧
      (∃ ee, (Session.runEvents cfg alpha px sched s events).1.equity = s.equity ++ ee ∧
        ∀ x ∈ ee, ∃ ev ∈ events, x.1 = ev.time) ∧
      (∃ ef, (Session.runEvents cfg alpha px sched s events).1.broker.fillLog = s.broker.fillLog ++ ef ∧
        ∀ f ∈ ef, ∃ ev ∈ events, f.2.time = ev.time ∧ isOpen ev.time = true) ∧
      (∀ te e, (Session.runEvents cfg alpha px sched s events).2 = some (te, e) → ∃ ev ∈ events, te = ev.time)
  | [], s => by
    simp only [Session.runEvents]
    exact ⟨⟨[], by simp, by simp⟩, ⟨[], by simp, by simp⟩, ⟨[], by simp, by simp⟩, by simp⟩
  | ev :: rest, s => by
    obtain ⟨⟨ea, a1, a2⟩, ⟨ee, e1, e2⟩⟩ := step_ext cfg alpha px sched s ev
    obtain ⟨ef, f1, f2, f3⟩ := step_fillsExt cfg alpha px sched s ev
    have f4 : ∀ f ∈ ef, f.2.time = ev.time ∧ isOpen ev.time = true := by
      intro f hf
      refine ⟨f2 f hf, ?_⟩
      cases ho : isOpen ev.time with
      | true => rfl
      | false => rw [f3 ho] at hf; simp at hf
    simp only [Session.runEvents]
    rcases hst : s.step cfg alpha px sched ev with ⟨s1, _ | er⟩
    · rw [hst] at a1 e1 f1
      simp only at a1 e1 f1 ⊢
      obtain ⟨⟨ea', a1', a2'⟩, ⟨ee', e1', e2'⟩, ⟨ef', f1', f2'⟩, herr⟩ := runEvents_ext cfg alpha px sched rest s1
      refine ⟨⟨ea ++ ea', by rw [a1', a1, List.append_assoc], ?_⟩,
        ⟨ee ++ ee', by rw [e1', e1, List.append_assoc], ?_⟩,
        ⟨ef ++ ef', by rw [f1', f1, List.append_assoc], ?_⟩, ?_⟩
      · intro x hx
        rcases List.mem_append.1 hx with h | h
        · exact ⟨ev, List.mem_cons_self .., a2 x h⟩
        · obtain ⟨ev', m, h'⟩ := a2' x h; exact ⟨ev', List.mem_cons_of_mem _ m, h'⟩
      · intro x hx
        rcases List.mem_append.1 hx with h | h
        · exact ⟨ev, List.mem_cons_self .., e2 x h⟩
        · obtain ⟨ev', m, h'⟩ := e2' x h; exact ⟨ev', List.mem_cons_of_mem _ m, h'⟩
      · intro x hx
        rcases List.mem_append.1 hx with h | h
        · exact ⟨ev, List.mem_cons_self .., f4 x h⟩
        · obtain ⟨ev', m, h'⟩ := f2' x h; exact ⟨ev', List.mem_cons_of_mem _ m, h'⟩
      · intro te e h
        obtain ⟨ev', m, h'⟩ := herr te e h; exact ⟨ev', List.mem_cons_of_mem _ m, h'⟩
    · rw [hst] at a1 e1 f1
      simp only at a1 e1 f1 ⊢
      refine ⟨⟨ea, a1, fun x hx => ⟨ev, List.mem_cons_self .., a2 x hx⟩⟩,
        ⟨ee, e1, fun x hx => ⟨ev, List.mem_cons_self .., e2 x hx⟩⟩,
        ⟨ef, f1, fun x hx => ⟨ev, List.mem_cons_self .., f4 x hx⟩⟩, ?_⟩
      intro te e h
      simp only [Option.some.injEq, Prod.mk.injEq] at h
      exact ⟨ev, List.mem_cons_self .., h.1.symm⟩

/-- before the first rebalance instant nothing happens: started with empty queues, a run over events none of
which is a scheduled instant past the burn-in logs no fill, records no allocation, and leaves the queues empty -/
theorem runEvents_idle (cfg : SessionCfg α) (alpha : Alpha α) (px : Px α) (sched : List Int) :
    ∀ (events : List SimEvent) (s : Session α), QueuesEmpty s.broker →
      (∀ ev ∈ events, isReb cfg sched ev.time = false) →
      (Session.runEvents cfg alpha px sched s events).1.broker.fillLog = s.broker.fillLog ∧
      QueuesEmpty (Session.runEvents cfg alpha px sched s events).1.broker ∧
      (Session.runEvents cfg alpha px sched s events).1.allocations = s.allocations
  | [], s, hq, _ => ⟨rfl, hq, rfl⟩
  | ev :: rest, s, hq, hn => by
    have h1 := step_idle cfg alpha px sched s ev hq (hn ev (List.mem_cons_self ..))
    simp only [Session.runEvents]
    rcases hst : s.step cfg alpha px sched ev with ⟨s1, _ | er⟩
    · rw [hst] at h1
      simp only at h1 ⊢
      have ih := runEvents_idle cfg alpha px sched rest s1 h1.2.1
        (fun e he => hn e (List.mem_cons_of_mem _ he))
      exact ⟨by rw [ih.1, h1.1], ih.2.1, by rw [ih.2.2, h1.2.2]⟩
    · rw [hst] at h1
      exact h1

/-- **no fill precedes the first rebalance**: over time-sorted events, started with empty queues, every fill of
the run is dated at or after an event time that is a scheduled instant past the burn-in -/
theorem runEvents_fills_after_reb (cfg : SessionCfg α) (alpha : Alpha α) (px : Px α) (sched : List Int) :
    ∀ (events : List SimEvent) (s : Session α), QueuesEmpty s.broker →
      (events.map (·.time)).Pairwise (· < ·) →
      ∃ ef, (Session.runEvents cfg alpha px sched s events).1.broker.fillLog = s.broker.fillLog ++ ef ∧
        ∀ f ∈ ef, ∃ ev0 ∈ events, isReb cfg sched ev0.time = true ∧ ev0.time ≤ f.2.time
  | [], s, _, _ => ⟨[], by simp [Session.runEvents], by simp⟩
  | ev :: rest, s, hq, hs => by
    by_cases hr : isReb cfg sched ev.time = true
    · obtain ⟨ef, f1, f2⟩ := (runEvents_ext cfg alpha px sched (ev :: rest) s).2.2.1
      refine ⟨ef, f1, fun f hf => ⟨ev, List.mem_cons_self .., hr, ?_⟩⟩
      obtain ⟨ev', hm, ht, _⟩ := f2 f hf
      rw [ht]
      rcases List.mem_cons.1 hm with rfl | hm
      · exact Int.le_refl _
      · simp only [List.map_cons, List.pairwise_cons, List.mem_map, forall_exists_index, and_imp,
          forall_apply_eq_imp_iff₂] at hs
        exact Int.le_of_lt (hs.1 ev' hm)
    · have hr' : isReb cfg sched ev.time = false := by simpa using hr
      have h1 := step_idle cfg alpha px sched s ev hq hr'
      simp only [Session.runEvents]
      rcases hst : s.step cfg alpha px sched ev with ⟨s1, _ | er⟩
      · rw [hst] at h1
        simp only at h1 ⊢
        obtain ⟨ef, f1, f2⟩ := runEvents_fills_after_reb cfg alpha px sched rest s1 h1.2.1
          (by simp only [List.map_cons, List.pairwise_cons] at hs; exact hs.2)
        refine ⟨ef, by rw [f1, h1.1], fun f hf => ?_⟩
        obtain ⟨ev0, m, h⟩ := f2 f hf
        exact ⟨ev0, List.mem_cons_of_mem _ m, h⟩
      · rw [hst] at h1
        exact ⟨[], by simpa using h1.1, by simp⟩


/-! ## What is observable up to a time `T` (C07) -/

/-- the part of a run result dated on or before `T`: allocation records, fills, equity points, and the error if
it was raised at a time `≤ T` -/
def upTo (T : Int) (r : Session α × Option (Int × Err)) :
    List (Int × List (String × α)) × List (Fill α) × List (Int × α) × Option (Int × Err) :=
  (r.1.allocations.filter (fun x => decide (x.1 ≤ T)),
   r.1.fills.filter (fun f => decide (f.time ≤ T)),
   r.1.equity.filter (fun x => decide (x.1 ≤ T)),
   r.2.filter (fun x => decide (x.1 ≤ T)))

theorem filter_append_late {β : Type} (p : β → Bool) (l ext : List β) (h : ∀ x ∈ ext, p x = false) :
    (l ++ ext).filter p = l.filter p := by
  have he : ext.filter p = [] := List.filter_eq_nil_iff.2 (fun x hx => by simp [h x hx])
  rw [List.filter_append, he, List.append_nil]

/-- events later than `T` leave everything dated `≤ T` alone: they only append records stamped with their own
times, and an error they raise is dated after `T` -/
theorem upTo_late (cfg : SessionCfg α) (alpha : Alpha α) (px : Px α) (sched : List Int) (T : Int)
    (events : List SimEvent) (s : Session α) (hl : ∀ ev ∈ events, T < ev.time) :
    upTo T (Session.runEvents cfg alpha px sched s events) = upTo T (s, none) := by
  obtain ⟨⟨ea, a1, a2⟩, ⟨ee, e1, e2⟩, ⟨ef, f1, f2⟩, herr⟩ := runEvents_ext cfg alpha px sched events s
  have late : ∀ {t : Int}, (∃ ev ∈ events, t = ev.time) → decide (t ≤ T) = false := by
    rintro t ⟨ev, hm, rfl⟩
    have := hl ev hm
    simp only [decide_eq_false_iff_not]; omega
  unfold upTo
  refine Prod.ext ?_ (Prod.ext ?_ (Prod.ext ?_ ?_))
  · simp only [a1]
    exact filter_append_late _ _ _ (fun x hx => late (a2 x hx))
  · simp only [Session.fills, f1, List.map_append]
    apply filter_append_late
    intro x hx
    simp only [List.mem_map] at hx
    obtain ⟨f, hf, rfl⟩ := hx
    obtain ⟨ev, hm, ht, _⟩ := f2 f hf
    exact late ⟨ev, hm, ht⟩
  · simp only [e1]
    exact filter_append_late _ _ _ (fun x hx => late (e2 x hx))
  · simp only
    rcases hr : (Session.runEvents cfg alpha px sched s events).2 with _ | ⟨te, e⟩
    · rfl
    · have := late (herr te e hr)
      simp [Option.filter, this]

/-- **causality of a run**: over time-sorted events, two market views that agree at every time `≤ T` give runs
that agree on everything dated `≤ T` -/
theorem runEvents_upTo {px₁ px₂ : Px α} (cfg : SessionCfg α) (alpha : Alpha α) (sched : List Int) (T : Int)
    (hpx : ∀ t, t ≤ T → px₁ t = px₂ t) :
    ∀ (events : List SimEvent) (s : Session α), (events.map (·.time)).Pairwise (· < ·) →
      upTo T (Session.runEvents cfg alpha px₁ sched s events) =
        upTo T (Session.runEvents cfg alpha px₂ sched s events)
  | [], s, _ => rfl
  | ev :: rest, s, hs => by
    by_cases ht : ev.time ≤ T
    · simp only [Session.runEvents, step_congr (hpx _ ht)]
      split
      · rfl
      · exact runEvents_upTo cfg alpha sched T hpx rest _
          (by simp only [List.map_cons, List.pairwise_cons] at hs; exact hs.2)
    · have hl : ∀ e ∈ ev :: rest, T < e.time := by
        intro e he
        rcases List.mem_cons.1 he with rfl | he
        · omega
        · simp only [List.map_cons, List.pairwise_cons, List.mem_map, forall_exists_index, and_imp,
            forall_apply_eq_imp_iff₂] at hs
          have := hs.1 e he
          omega
      rw [upTo_late cfg alpha px₁ sched T _ s hl, upTo_late cfg alpha px₂ sched T _ s hl]

/-! ## The session's own clock: `simEvents start end false false` -/

theorem isOpen_close (d : Int) : isOpen (d * 86400 + CLOSE) = false := by
  cases h : isOpen (d * 86400 + CLOSE) with
  | false => rfl
  | true =>
    rw [isOpen_iff] at h
    unfold CLOSE at h
    omega

theorem isOpen_open (d : Int) (hd : isBDay d = true) : isOpen (d * 86400 + OPEN) = true := by
  rw [isOpen_iff]
  rw [Cal.isBDay_iff] at hd
  unfold OPEN dayOf
  omega

theorem template_ff (d : Int) :
    dayTemplate false false d = [⟨d * 86400 + OPEN, .marketOpen⟩, ⟨d * 86400 + CLOSE, .marketClose⟩] := rfl

/-- every event of the session clock is the 14:30 open or the 21:00 close of a business day -/
theorem mem_simEvents_ff {start end_ : Int} {evs : List SimEvent}
    (h : simEvents start end_ false false = .ok evs) {ev : SimEvent} (hev : ev ∈ evs) :
    ∃ d, d ∈ bdayRange start end_ ∧ isBDay d = true ∧
      (ev = ⟨d * 86400 + OPEN, .marketOpen⟩ ∨ ev = ⟨d * 86400 + CLOSE, .marketClose⟩) := by
  unfold simEvents at h
  split at h
  · cases h
  · injection h with h
    subst h
    simp only [List.mem_flatMap, template_ff, List.mem_cons, List.not_mem_nil, or_false] at hev
    obtain ⟨d, hd, hev⟩ := hev
    refine ⟨d, hd, ?_, hev⟩
    rw [Cal.bdayRange_eq, Cal.mem_filter_daysFrom] at hd
    exact hd.2.2

/-- on the session clock, "inside exchange hours" means "a market-open event" -/
theorem open_of_simEvents_ff {start end_ : Int} {evs : List SimEvent}
    (h : simEvents start end_ false false = .ok evs) {ev : SimEvent} (hev : ev ∈ evs) :
    isOpen ev.time = true ↔ ev.kind = .marketOpen := by
  obtain ⟨d, _, hd, rfl | rfl⟩ := mem_simEvents_ff h hev
  · simp [isOpen_open d hd]
  · simp [isOpen_close d]

/-- the close events past the burn-in among the templates of a list of days -/
theorem filter_isEq_templates (cfg : SessionCfg α) (days : List Int) :
    ((days.flatMap (dayTemplate false false)).filter (isEq cfg)).map (·.time) =
      (days.filter (fun d => burnOk cfg (d * 86400 + CLOSE))).map (fun d => d * 86400 + CLOSE) := by
  induction days with
  | nil => rfl
  | cons d rest ih =>
    rw [List.flatMap_cons, List.filter_append, List.map_append, ih, template_ff]
    simp only [List.filter_cons, isEq]
    cases hb : burnOk cfg (d * 86400 + CLOSE) <;> simp

/-! ## `targetAllocationTable` -/

theorem getLast?_filter_eq_none {β : Type} (p : β → Bool) (l : List β) :
    (l.filter p).getLast? = none ↔ ∀ y ∈ l, p y = false := by
  rw [List.getLast?_eq_none_iff, List.filter_eq_nil_iff]
  simp

/-- the last element satisfying `p`: everything after it fails `p` -/
theorem getLast?_filter_eq_some {β : Type} (p : β → Bool) (l : List β) (x : β) :
    (l.filter p).getLast? = some x ↔
      ∃ pre post, l = pre ++ x :: post ∧ p x = true ∧ ∀ y ∈ post, p y = false := by
  constructor
  · intro h
    obtain ⟨ys, hys⟩ := List.getLast?_eq_some_iff.1 h
    obtain ⟨l₁, l₂, rfl, -, h2⟩ := List.filter_eq_append_iff.1 hys
    obtain ⟨m₁, m₂, rfl, -, hx, hm⟩ := List.filter_eq_cons_iff.1 h2
    refine ⟨l₁ ++ m₁, m₂, by simp, hx, ?_⟩
    intro y hy
    have := List.filter_eq_nil_iff.1 hm y hy
    simpa using this
  · rintro ⟨pre, post, rfl, hx, hpost⟩
    have : post.filter p = [] := List.filter_eq_nil_iff.2 (fun y hy => by simp [hpost y hy])
    simp [List.filter_append, hx, this]


/-! ## The data source: bars dated after `T` are never read at a time on or before `T` -/

theorem barLookup_upTo (adjust : Bool) (bars bars' : List (Bar α)) (dayT t : Int)
    (hd : bars.Pairwise (fun a b => a.day ≠ b.day)) (hd' : bars'.Pairwise (fun a b => a.day ≠ b.day))
    (h : ∀ b, (b ∈ bars ∧ b.day ≤ dayT) ↔ (b ∈ bars' ∧ b.day ≤ dayT))
    (ht : t ≤ dayT * 86400 + 86399) :
    barLookup adjust bars t = barLookup adjust bars' t := by
  apply barLookup_bars_causal adjust bars bars' t hd hd'
  intro b
  have key : b.day * 86400 + OPEN ≤ t → b.day ≤ dayT := by
    intro hb; unfold OPEN at hb; omega
  constructor
  · rintro ⟨hb, hbt⟩; exact ⟨((h b).1 ⟨hb, key hbt⟩).1, hbt⟩
  · rintro ⟨hb, hbt⟩; exact ⟨((h b).2 ⟨hb, key hbt⟩).1, hbt⟩

/-- the bars a source holds for an asset (`[]` for an asset it does not know: the handler swallows the
`KeyError` and moves on, exactly as for a file with no bar yet) -/
def barsOf (ds : DataSource α) (a : String) : List (Bar α) := (ds.assets.lookup a).getD []

/-- no two bars of one file carry the same date (the model's stated scope) -/
def DistinctDays (ds : DataSource α) : Prop := ∀ a, (barsOf ds a).Pairwise (fun x y => x.day ≠ y.day)

/-- two sources hold the same bars dated on or before day `dayT` for every asset (and use the same adjustment) -/
def AgreeUpTo (dayT : Int) (ds ds' : DataSource α) : Prop :=
  ds.adjust = ds'.adjust ∧ ∀ a b, (b ∈ barsOf ds a ∧ b.day ≤ dayT) ↔ (b ∈ barsOf ds' a ∧ b.day ≤ dayT)

theorem srcVal_barsOf (ds : DataSource α) (t : Int) (a : String) :
    srcVal t a ds = barLookup ds.adjust (barsOf ds a) t := by
  unfold srcVal DataSource.getBid barsOf
  cases ds.assets.lookup a with
  | none => exact (barLookup_before ds.adjust [] t (by simp)).symm
  | some bars => rfl

theorem srcVal_upTo {dayT t : Int} {ds ds' : DataSource α} (hd : DistinctDays ds) (hd' : DistinctDays ds')
    (h : AgreeUpTo dayT ds ds') (ht : t ≤ dayT * 86400 + 86399) (a : String) :
    srcVal t a ds = srcVal t a ds' := by
  rw [srcVal_barsOf, srcVal_barsOf, ← h.1]
  exact barLookup_upTo ds.adjust _ _ dayT t (hd a) (hd' a) (h.2 a) ht

theorem handlerBid_upTo {dayT t : Int} {sources sources' : List (DataSource α)}
    (h : List.Forall₂ (AgreeUpTo dayT) sources sources')
    (hd : ∀ ds ∈ sources, DistinctDays ds) (hd' : ∀ ds ∈ sources', DistinctDays ds)
    (ht : t ≤ dayT * 86400 + 86399) (a : String) :
    handlerBid sources t a = handlerBid sources' t a := by
  induction h with
  | nil => rfl
  | cons hab _ ih =>
    rw [handlerBid_cons, handlerBid_cons,
      srcVal_upTo (hd _ (List.mem_cons_self ..)) (hd' _ (List.mem_cons_self ..)) hab ht a,
      ih (fun d m => hd d (List.mem_cons_of_mem _ m)) (fun d m => hd' d (List.mem_cons_of_mem _ m))]

/-! ## The initial state of a session -/

theorem createPortfolio_frame (b : Broker α) (pid : String) (hq : QueuesEmpty b) :
    QueuesEmpty (b.createPortfolio pid).1 ∧ (b.createPortfolio pid).1.fillLog = b.fillLog := by
  unfold Broker.createPortfolio
  split
  · exact ⟨hq, rfl⟩
  · refine ⟨?_, rfl⟩
    intro e he
    simp only [List.mem_append, List.mem_singleton] at he
    rcases he with he | rfl
    · exact hq e he
    · rfl

theorem subscribePortfolio_frame (b : Broker α) (pid : String) (amount : α) (hq : QueuesEmpty b) :
    QueuesEmpty (b.subscribePortfolio pid amount).1 ∧ (b.subscribePortfolio pid amount).1.fillLog = b.fillLog := by
  unfold Broker.subscribePortfolio
  split
  · exact ⟨hq, rfl⟩
  · split
    · exact ⟨hq, rfl⟩
    · split
      · exact ⟨hq, rfl⟩
      · split
        · exact ⟨queuesEmpty_congr (setPf_qview _ _) hq, rfl⟩
        · refine ⟨?_, rfl⟩
          apply queuesEmpty_congr (b := b) _ hq
          exact setPf_qview _ _

/-- a freshly constructed session has no pending order, no fill, no allocation record and no equity point -/
theorem init_fresh (cfg : SessionCfg α) (s0 : Session α) (events : List SimEvent) (sched : List Int)
    (h : Session.init cfg = .ok (s0, events, sched)) :
    QueuesEmpty s0.broker ∧ s0.broker.fillLog = [] ∧ s0.allocations = [] ∧ s0.equity = [] ∧
    simEvents cfg.start cfg.end_ false false = .ok events ∧ scheduleOf cfg = .ok sched := by
  unfold Session.init at h
  simp only [bind, Except.bind, pure, Except.pure] at h
  split at h
  · cases h
  · rename_i b0 hb0
    have q0 : QueuesEmpty b0 ∧ b0.fillLog = [] := by
      unfold Broker.new at hb0
      split at hb0
      · cases hb0
      · injection hb0 with hb0; subst hb0
        exact ⟨fun e he => by simp at he, rfl⟩
    have c1 := createPortfolio_frame b0 PORTFOLIO_ID q0.1
    split at h
    · cases h
    · rename_i b1 hb1
      have q1 : QueuesEmpty b1 ∧ b1.fillLog = [] := by
        split at hb1
        · rename_i b hb; injection hb1 with hb1; subst hb1
          rw [hb] at c1; exact ⟨c1.1, by rw [c1.2, q0.2]⟩
        · cases hb1
      have c2 := subscribePortfolio_frame b1 PORTFOLIO_ID cfg.initialCash q1.1
      split at h
      · cases h
      · rename_i b2 hb2
        have q2 : QueuesEmpty b2 ∧ b2.fillLog = [] := by
          split at hb2
          · rename_i b hb; injection hb2 with hb2; subst hb2
            rw [hb] at c2; exact ⟨c2.1, by rw [c2.2, q1.2]⟩
          · cases hb2
        split at h
        · cases h
        · rename_i evs hevs
          split at h
          · cases h
          · rename_i sc hsc
            split at h
            · cases h
            · injection h with h
              simp only [Prod.mk.injEq] at h
              obtain ⟨rfl, rfl, rfl⟩ := h
              exact ⟨q2.1, q2.2, rfl, rfl, hevs, hsc⟩

/-- `Session.run` = construct, then run the constructed session over its own clock and schedule -/
theorem run_eq (cfg : SessionCfg α) (alpha : Alpha α) (px : Px α) :
    Session.run cfg alpha px =
      (Session.init cfg).map (fun r => Session.runEvents cfg alpha px r.2.2 r.1 r.2.1) := by
  unfold Session.run
  cases Session.init cfg with
  | error e => rfl
  | ok r => rfl

end
end Qs.Sess
