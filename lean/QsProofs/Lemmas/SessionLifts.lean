import QsProofs.Lemmas.Session
import QsProofs.Lemmas.Signals
import QsProofs.Props.C08
import QsProofs.Props.C19
import QsProofs.Props.C09

/-!
# Session-level lifts: helper lemmas

Component theorems (C16 signals, C19 universe membership, C09 rebalance reach) lifted to whole runs of
`Session.runEvents`.

* Part A (signals): `Session.step` changes `signals` only through `sigStage`, i.e. by exactly one
  `SignalsCollection.update` at a market-close event; a run is `Sig.updateAll` over the close events.
* Part B (asset sets): an invariant `Occ P Q b` on brokers ("every stored position and queued order has an
  asset satisfying `P`, every logged fill satisfies `Q`") preserved by `update`, `submitOrder`,
  `executeOrders` — whether or not they raise — and its lift to `rebalanceAt`, `step`, `runEvents` with
  `P := entered the dynamic universe by the latest rebalance`.
* Part C (reach): `holdAdd` realises `applyOrders` (`holdAdd_qty`, `refFillAll_qty`); a rebalance and the next
  in-hours update of a represented broker for any alpha model (`rebalanceAt_rep`, `update_reach`); the representation
  invariant `Ref.BR` from `Session.init` along any run without error, with or without signals (`init_rep`, `step_rep`,
  `run_rep`); the reach theorems `reach_close`, `reach_open`, `reach_run`.
* Part A also contains `updateAll_daysPos`: updates that returned normally were fed positive prices.
-/

set_option linter.unusedSectionVars false
set_option linter.unusedVariables false
set_option linter.unusedSimpArgs false

namespace Qs.Lift
open Qs NumOps Num Qs.Sess

/-! ## Part A — signals -/

section Signals
variable {α : Type} [Add α] [Sub α] [Mul α] [Div α] [Neg α] [NumOps α]

/-- is the event a market close? -/
def isClose (ev : SimEvent) : Bool := decide (ev.kind = .marketClose)

/-- the universe and the mid prices a signals update at event `ev` sees -/
def dayOfEvent (cfg : SessionCfg α) (px : Px α) (ev : SimEvent) : List String × (String → α) :=
  (cfg.uni.assets ev.time, fun a => (px ev.time a).getD cfg.nan)

/-- the `(universe, mid prices)` of the market-close events of an event list, in order -/
def closeDays (cfg : SessionCfg α) (px : Px α) (events : List SimEvent) : List (List String × (String → α)) :=
  (events.filter isClose).map (dayOfEvent cfg px)

theorem closeDays_cons (cfg : SessionCfg α) (px : Px α) (ev : SimEvent) (rest : List SimEvent) :
    closeDays cfg px (ev :: rest) =
      if ev.kind = .marketClose then dayOfEvent cfg px ev :: closeDays cfg px rest else closeDays cfg px rest := by
  unfold closeDays isClose
  by_cases h : ev.kind = .marketClose
  · simp [h]
  · simp [h]

theorem closeDays_length (cfg : SessionCfg α) (px : Px α) (events : List SimEvent) :
    (closeDays cfg px events).length = (events.filter isClose).length := by
  simp [closeDays]

/-- what the signals stage does to the `signals` component: nothing unless the event is a market close and a
collection is configured, and then exactly one `SignalsCollection.update` with the universe and the prices of
that instant -/
theorem sigStage_signals (cfg : SessionCfg α) (px : Px α) (ev : SimEvent) (s : Session α) :
    (sigStage cfg px ev s).1.signals =
      match s.signals with
      | none => none
      | some c =>
        if ev.kind = .marketClose then some (c.update (dayOfEvent cfg px ev).1 (dayOfEvent cfg px ev).2).1
        else some c := by
  unfold sigStage dayOfEvent
  cases hs : s.signals with
  | none => simp [hs]
  | some c =>
    simp only
    split
    · rfl
    · simp [hs]

theorem sigStage_err (cfg : SessionCfg α) (px : Px α) (ev : SimEvent) (s : Session α) :
    (sigStage cfg px ev s).2 =
      match s.signals with
      | none => none
      | some c =>
        if ev.kind = .marketClose then (c.update (dayOfEvent cfg px ev).1 (dayOfEvent cfg px ev).2).2
        else none := by
  unfold sigStage dayOfEvent
  cases hs : s.signals with
  | none => rfl
  | some c =>
    simp only
    split
    · rfl
    · rfl

/-- **signals, one step.** Whatever way the step ends, the `signals` component it leaves is the one the signals
stage produced (or the old one when the broker update raised before that stage); the rebalance, the order
execution and the equity stage never touch it. -/
theorem step_signals (cfg : SessionCfg α) (alpha : Alpha α) (px : Px α) (sched : List Int) (s : Session α)
    (ev : SimEvent) :
    (s.step cfg alpha px sched ev).1.signals =
      if (s.broker.update ev.time (quotesAt px ev.time)).2 = none then (sigStage cfg px ev s).1.signals
      else s.signals := by
  have hsig : ∀ b : Broker α, (sigStage cfg px ev { s with broker := b }).1.signals =
      (sigStage cfg px ev s).1.signals := by
    intro b; rw [sigStage_signals, sigStage_signals]
  rcases step_cases cfg alpha px sched s ev with ⟨b, e, hu, hst⟩ | ⟨b, s2, e, hu, hs, hst⟩ |
      ⟨b, s2, s3, e, hu, hs, hr, hst⟩ | ⟨b, s2, s3, hu, hs, hr, hst⟩
  · rw [hst, hu]; simp
  · rw [hst, hu, ← hsig b, hs]; simp
  · have h3 := (rebStage_frame cfg alpha px sched ev.time s2).2.2.1
    rw [hr] at h3
    rw [hst, hu, ← hsig b, hs]; simpa using h3
  · have h3 := (rebStage_frame cfg alpha px sched ev.time s2).2.2.1
    have h4 := (eqStage_frame cfg ev s3).2.2.1
    rw [hr] at h3
    rw [hst, hu, ← hsig b, hs, h4]; simpa using h3

/-- a step that returns normally: the signals stage returned normally -/
theorem step_ok_sig (cfg : SessionCfg α) (alpha : Alpha α) (px : Px α) (sched : List Int) (s s' : Session α)
    (ev : SimEvent) (h : s.step cfg alpha px sched ev = (s', none)) :
    (s.broker.update ev.time (quotesAt px ev.time)).2 = none ∧ (sigStage cfg px ev s).2 = none := by
  have herr : ∀ b : Broker α, (sigStage cfg px ev { s with broker := b }).2 = (sigStage cfg px ev s).2 := by
    intro b; rw [sigStage_err, sigStage_err]
  rcases step_cases cfg alpha px sched s ev with ⟨b, e, hu, hst⟩ | ⟨b, s2, e, hu, hs, hst⟩ |
      ⟨b, s2, s3, e, hu, hs, hr, hst⟩ | ⟨b, s2, s3, hu, hs, hr, hst⟩
  · rw [hst] at h; simp at h
  · rw [hst] at h; simp at h
  · rw [hst] at h; simp at h
  · rw [hu, ← herr b, hs]; exact ⟨rfl, rfl⟩

/-- **signals, one normal step at a market close**: exactly one update, which returned normally -/
theorem step_signals_close (cfg : SessionCfg α) (alpha : Alpha α) (px : Px α) (sched : List Int) (s s' : Session α)
    (ev : SimEvent) (c : SignalsCollection α) (hc : s.signals = some c) (hk : ev.kind = .marketClose)
    (h : s.step cfg alpha px sched ev = (s', none)) :
    ∃ c', c.update (cfg.uni.assets ev.time) (fun a => (px ev.time a).getD cfg.nan) = (c', none) ∧
      s'.signals = some c' := by
  obtain ⟨h1, h2⟩ := step_ok_sig cfg alpha px sched s s' ev h
  have h3 := step_signals cfg alpha px sched s ev
  rw [h, if_pos h1, sigStage_signals, hc] at h3
  rw [sigStage_err, hc] at h2
  simp only [hk, if_true, dayOfEvent] at h2 h3
  exact ⟨_, Prod.ext rfl h2, h3⟩

/-- **signals, any step at another event kind** (or without a collection): untouched, whether the step raises or not -/
theorem step_signals_other (cfg : SessionCfg α) (alpha : Alpha α) (px : Px α) (sched : List Int) (s : Session α)
    (ev : SimEvent) (hk : ev.kind ≠ .marketClose ∨ s.signals = none) :
    (s.step cfg alpha px sched ev).1.signals = s.signals := by
  rw [step_signals]
  split
  · rw [sigStage_signals]
    rcases hk with hk | hk
    · cases hs : s.signals with
      | none => rfl
      | some c => simp [hk]
    · rw [hk]
  · rfl

/-- **signals of a normal run**: the collection after the run is `Sig.updateAll` — one
`SignalsCollection.update` per market-close event, with the universe and the prices of that instant, in event
order — applied to the collection before the run, and none of these updates raised. -/
theorem runEvents_signals (cfg : SessionCfg α) (alpha : Alpha α) (px : Px α) (sched : List Int) :
    ∀ (events : List SimEvent) (s s' : Session α) (c : SignalsCollection α), s.signals = some c →
      Session.runEvents cfg alpha px sched s events = (s', none) →
      ∃ c', Sig.updateAll c (closeDays cfg px events) = (c', none) ∧ s'.signals = some c'
  | [], s, s', c, hc, h => by
    simp only [Session.runEvents, Prod.mk.injEq, and_true] at h
    subst h
    exact ⟨c, rfl, hc⟩
  | ev :: rest, s, s', c, hc, h => by
    simp only [Session.runEvents] at h
    rcases hst : s.step cfg alpha px sched ev with ⟨s1, _ | e1⟩
    · rw [hst] at h
      simp only at h
      rw [closeDays_cons]
      by_cases hk : ev.kind = .marketClose
      · obtain ⟨c1, hu, hc1⟩ := step_signals_close cfg alpha px sched s s1 ev c hc hk hst
        obtain ⟨c', hall, hc'⟩ := runEvents_signals cfg alpha px sched rest s1 s' c1 hc1 h
        refine ⟨c', ?_, hc'⟩
        rw [if_pos hk, Sig.updateAll]
        simp only [dayOfEvent, hu]
        exact hall
      · have h1 := step_signals_other cfg alpha px sched s ev (Or.inl hk)
        rw [hst] at h1
        rw [if_neg hk]
        exact runEvents_signals cfg alpha px sched rest s1 s' c (h1.trans hc) h
    · rw [hst] at h; simp at h

/-- without a configured collection the `signals` component stays `none` -/
theorem runEvents_signals_none (cfg : SessionCfg α) (alpha : Alpha α) (px : Px α) (sched : List Int) :
    ∀ (events : List SimEvent) (s : Session α), s.signals = none →
      (Session.runEvents cfg alpha px sched s events).1.signals = none
  | [], s, hc => hc
  | ev :: rest, s, hc => by
    have h1 := step_signals_other cfg alpha px sched s ev (Or.inr hc)
    simp only [Session.runEvents]
    rcases hst : s.step cfg alpha px sched ev with ⟨s1, _ | e1⟩
    · rw [hst] at h1
      exact runEvents_signals_none cfg alpha px sched rest s1 (h1.trans hc)
    · rw [hst] at h1
      exact h1.trans hc

/-- the `signals` component `Session.init` builds: one fresh signal per configured `(kind, lookbacks)`, tracking
the universe at the start instant, `warmup = 0` -/
theorem init_signals (cfg : SessionCfg α) (s0 : Session α) (events : List SimEvent) (sched : List Int)
    (h : Session.init cfg = .ok (s0, events, sched)) :
    s0.signals = cfg.signalSpecs.map fun specs =>
      ({ signals := specs.map fun sp => Signal.new sp.1 sp.2 (cfg.uni.assets cfg.start) } : SignalsCollection α) := by
  unfold Session.init at h
  simp only [bind, Except.bind, pure, Except.pure] at h
  split at h
  · cases h
  · split at h
    · cases h
    · split at h
      · cases h
      · split at h
        · cases h
        · split at h
          · cases h
          · split at h
            · cases h
            · injection h with h
              simp only [Prod.mk.injEq] at h
              obtain ⟨rfl, rfl, rfl⟩ := h
              rfl

end Signals

/-! ### Part A, continued — a run without error has fed positive prices only -/

section SigPos
variable {α : Type} [Field α] [LinearOrder α] [IsStrictOrderedRing α] [FloorRing α] [NumOps α] [LawfulNumOps α]

theorem feedAll_none (mid : String → α) : ∀ (sigs sigs' : List (Signal α)), feedAll mid sigs = (sigs', none) →
    ∀ s ∈ sigs, (Signal.feed mid s s.assets).2 = none
  | [], _, _, s, hs => by simp at hs
  | s0 :: rest, sigs', h, s, hs => by
    rw [feedAll] at h
    cases hh : Signal.feed mid s0 s0.assets with
    | mk s1 e =>
      rw [hh] at h
      cases e with
      | some e => simp at h
      | none =>
        simp only at h
        cases hr : feedAll mid rest with
        | mk rest' e' =>
          rw [hr] at h
          simp only [Prod.mk.injEq] at h
          obtain ⟨_, rfl⟩ := h
          rcases List.mem_cons.mp hs with rfl | hs
          · rw [hh]
          · exact feedAll_none mid rest rest' hr s hs

theorem update_none (c c' : SignalsCollection α) (uni : List String) (mid : String → α)
    (h : c.update uni mid = (c', none)) :
    ∀ s ∈ c.signals, (Signal.feed mid (s.updateAssets uni) (s.updateAssets uni).assets).2 = none := by
  unfold SignalsCollection.update at h
  cases hf : feedAll mid (c.signals.map fun s => s.updateAssets uni) with
  | mk sigs e =>
    rw [hf] at h
    cases e with
    | some e => simp at h
    | none =>
      intro s hs
      exact feedAll_none mid _ sigs hf (s.updateAssets uni) (List.mem_map.mpr ⟨s, hs, rfl⟩)

/-- **no error ⇒ positive prices**: if the updates of all days returned normally, then on every day every asset tracked
by a (well-formed) signal of the collection had a positive mid price -/
theorem updateAll_daysPos : ∀ (days : List (List String × (String → α))) (c c' : SignalsCollection α),
    (∀ s ∈ c.signals, ∃ σ, Sig.Holds s σ) → Sig.updateAll c days = (c', none) →
    ∀ s ∈ c.signals, Sig.DaysPos s.assets days
  | [], c, c', _, _, s, _ => by
    intro pre d post hsplit
    simp at hsplit
  | d :: ds, c, c', hwf, h, s, hs => by
    rw [Sig.updateAll] at h
    cases hu : c.update d.1 d.2 with
    | mk c1 e =>
      rw [hu] at h
      cases e with
      | some e => simp at h
      | none =>
        simp only at h
        have hfeed := update_none c c1 d.1 d.2 hu
        have hp0 : ∀ s ∈ c.signals, ∀ a, a ∈ s.assets ∨ a ∈ d.1 → 0 < d.2 a := by
          intro s hs a ha
          obtain ⟨σ, hσ⟩ := hwf s hs
          have hL : (s.updateAssets d.1).lookbacks ≠ [] := hσ.store.lbs_ne
          exact (Sig.feed_snd d.2 _ _ hL).mp (hfeed s hs) a ((Sig.mem_updateAssets s d.1 a).mpr ha)
        have hc1 : c1 = { signals := c.signals.map (Sig.dayStep d.1 d.2), warmup := c.warmup + 1 } := by
          have := Sig.update_ok c d.1 d.2 hfeed
          rw [hu] at this
          exact (Prod.mk.inj this).1
        have hwf1 : ∀ s' ∈ c1.signals, ∃ σ, Sig.Holds s' σ := by
          intro s' hs'
          rw [hc1] at hs'
          obtain ⟨s0, hs0, rfl⟩ := List.mem_map.mp hs'
          obtain ⟨σ, hσ⟩ := hwf s0 hs0
          exact ⟨_, (Sig.dayStep_spec hσ d.1 d.2 (hp0 s0 hs0)).2.2.2.2⟩
        have hmem1 : Sig.dayStep d.1 d.2 s ∈ c1.signals := by
          rw [hc1]; exact List.mem_map.mpr ⟨s, hs, rfl⟩
        have ih := updateAll_daysPos ds c1 c' hwf1 h _ hmem1
        obtain ⟨σ, hσ⟩ := hwf s hs
        have has : ∀ a, a ∈ (Sig.dayStep d.1 d.2 s).assets ↔ a ∈ s.assets ∨ a ∈ d.1 := by
          intro a
          rw [(Sig.dayStep_spec hσ d.1 d.2 (hp0 s hs)).2.2.2.1, Sig.mem_updateAssets]
        intro pre e post hsplit a ha
        cases pre with
        | nil =>
          simp only [List.nil_append, List.cons.injEq] at hsplit
          obtain ⟨rfl, _⟩ := hsplit
          apply hp0 s hs a
          rcases ha with ha | ⟨e', he', hae⟩
          · exact Or.inl ha
          · simp only [List.nil_append, List.mem_singleton] at he'
            subst he'
            exact Or.inr hae
        | cons p pre' =>
          simp only [List.cons_append, List.cons.injEq] at hsplit
          obtain ⟨rfl, hds⟩ := hsplit
          apply ih pre' e post hds a
          rcases ha with ha | ⟨e', he', hae⟩
          · exact Or.inl ((has a).mpr (Or.inl ha))
          · simp only [List.cons_append, List.mem_cons] at he'
            rcases he' with rfl | he'
            · exact Or.inl ((has a).mpr (Or.inr hae))
            · exact Or.inr ⟨e', he', hae⟩

end SigPos

/-! ## Part B — asset sets: positions, queued orders, fills -/

section Occ
variable {α : Type} [Add α] [Sub α] [Mul α] [Div α] [Neg α] [NumOps α]

/-- every stored position and every queued order (of every portfolio) has an asset satisfying `P`; every logged fill
satisfies `Q` -/
structure Occ (P : String → Prop) (Q : Txn α → Prop) (b : Broker α) : Prop where
  pos : ∀ e ∈ b.entries, ∀ p ∈ e.pf.positions, P p.asset
  queue : ∀ e ∈ b.entries, ∀ o ∈ e.queue, P o.asset
  log : ∀ f ∈ b.fillLog, Q f.2

theorem Occ.mono {P P' : String → Prop} {Q Q' : Txn α → Prop} {b : Broker α} (h : Occ P Q b)
    (hP : ∀ a, P a → P' a) (hQ : ∀ t, Q t → Q' t) : Occ P' Q' b :=
  ⟨fun e he p hp => hP _ (h.pos e he p hp), fun e he o ho => hP _ (h.queue e he o ho),
   fun f hf => hQ _ (h.log f hf)⟩

/-- the broker's observation of the session's holdings sees stored positions only -/
theorem Occ.held {P : String → Prop} {Q : Txn α → Prop} {b : Broker α} (h : Occ P Q b) :
    ∀ a ∈ (heldOf b).map (·.1), P a := by
  intro a ha
  unfold heldOf at ha
  split at ha
  · simp at ha
  · rename_i e hf
    simp only [List.map_map, List.mem_map, Function.comp_def] at ha
    obtain ⟨p, hp, rfl⟩ := ha
    exact h.pos e (find_mem hf) p hp

theorem set_asset {ps : Positions α} {p x : Position α} (h : x ∈ Positions.set ps p) :
    ∃ y ∈ ps, x.asset = y.asset := by
  unfold Positions.set at h
  obtain ⟨y, hy, rfl⟩ := List.mem_map.mp h
  refine ⟨y, hy, ?_⟩
  split
  · rename_i hb; exact (beq_iff_eq.mp hb).symm
  · rfl

theorem openFrom_asset' (t : Txn α) : (Position.openFrom t).asset = t.asset := by
  unfold Position.openFrom; split <;> rfl

/-- a mark keeps the asset of every stored position -/
theorem mark_pos (p : Portfolio α) (a : String) (price : α) (t : Int) :
    ∀ x ∈ (p.mark a price t).1.positions, ∃ y ∈ p.positions, x.asset = y.asset := by
  intro x hx
  unfold Portfolio.mark at hx
  split at hx
  · exact ⟨x, hx, rfl⟩
  · split at hx
    · exact ⟨x, hx, rfl⟩
    · split at hx
      · exact ⟨x, hx, rfl⟩
      · split at hx
        exact set_asset hx

/-- a fill keeps the stored assets and adds at most the traded one -/
theorem transactPosition_pos (ps : Positions α) (t : Txn α) :
    ∀ x ∈ (Positions.transactPosition ps t).1, (∃ y ∈ ps, x.asset = y.asset) ∨ x.asset = t.asset := by
  intro x hx
  unfold Positions.transactPosition at hx
  split at hx
  · split at hx
    · exact Or.inl (set_asset hx)
    · split at hx
      · exact Or.inl ⟨x, (List.mem_filter.mp hx).1, rfl⟩
      · exact Or.inl (set_asset hx)
  · dsimp only at hx
    split at hx
    · exact Or.inl ⟨x, hx, rfl⟩
    · rcases List.mem_append.mp hx with h | h
      · exact Or.inl ⟨x, h, rfl⟩
      · simp only [List.mem_singleton] at h
        subst h
        exact Or.inr (openFrom_asset' t)

theorem transactAsset_pos (p : Portfolio α) (t : Txn α) :
    ∀ x ∈ (p.transactAsset t).1.positions, (∃ y ∈ p.positions, x.asset = y.asset) ∨ x.asset = t.asset := by
  intro x hx
  unfold Portfolio.transactAsset at hx
  split at hx
  · exact Or.inl ⟨x, hx, rfl⟩
  · have := transactPosition_pos p.positions t
    dsimp only at hx
    split at hx
    · rename_i ps e heq
      have h2 := this x
      simp only [heq] at h2
      exact h2 hx
    · rename_i ps heq
      have h2 := this x
      simp only [heq] at h2
      exact h2 hx

theorem mem_setPf {b : Broker α} {p : Portfolio α} {e' : PfEntry α} (h : e' ∈ (b.setPf p).entries) :
    e' ∈ b.entries ∨ ∃ e ∈ b.entries, e.pf.id = p.id ∧ e' = { e with pf := p } := by
  simp only [Broker.setPf, List.mem_map] at h
  obtain ⟨e, he, rfl⟩ := h
  split
  · rename_i hb; exact Or.inr ⟨e, he, beq_iff_eq.mp hb, rfl⟩
  · exact Or.inl he

/-- replacing the portfolio `pid` by one whose positions satisfy `P` -/
theorem occ_setPf {P : String → Prop} {Q : Txn α → Prop} {b : Broker α} (h : Occ P Q b) (p : Portfolio α)
    (hp : ∀ x ∈ p.positions, P x.asset) : Occ P Q (b.setPf p) := by
  refine ⟨?_, ?_, h.log⟩
  · intro e' he' x hx
    rcases mem_setPf he' with h1 | ⟨e, he, _, rfl⟩
    · exact h.pos e' h1 x hx
    · exact hp x hx
  · intro e' he' o ho
    rcases mem_setPf he' with h1 | ⟨e, he, _, rfl⟩
    · exact h.queue e' h1 o ho
    · exact h.queue e he o ho

theorem applyMark_occ {P : String → Prop} {Q : Txn α → Prop} {b : Broker α} (h : Occ P Q b)
    (pid a : String) (price : α) (t : Int) : Occ P Q (b.applyMark pid a price t).1 := by
  unfold Broker.applyMark
  split
  · exact h
  · rename_i e hf
    split
    rename_i pf err heq
    apply occ_setPf h
    intro x hx
    have := mark_pos e.pf a price t x
    rw [heq] at this
    obtain ⟨y, hy, hxy⟩ := this hx
    rw [hxy]
    exact h.pos e (find_mem hf) y hy

theorem marked_occ {P : String → Prop} {Q : Txn α → Prop} {b : Broker α} (h : Occ P Q b) (t : Int) (q : Quotes α) :
    Occ P Q (b.marked t q).1 := by
  unfold Broker.marked
  apply runUntilErr_inv _ (Occ P Q)
  · intro b' x hb'
    exact applyMark_occ hb' _ _ _ _
  · exact ⟨h.pos, h.queue, h.log⟩

theorem applyTxn_occ {P : String → Prop} {Q : Txn α → Prop} {b : Broker α} (h : Occ P Q b)
    (pid : String) (tx : Txn α) (hP : P tx.asset) (hQ : Q tx) : Occ P Q (b.applyTxn pid tx).1 := by
  unfold Broker.applyTxn
  split
  · exact h
  · rename_i e hf
    have hpos : ∀ x ∈ (e.pf.transactAsset tx).1.positions, P x.asset := by
      intro x hx
      rcases transactAsset_pos e.pf tx x hx with ⟨y, hy, hxy⟩ | hxa
      · rw [hxy]; exact h.pos e (find_mem hf) y hy
      · rw [hxa]; exact hP
    split
    · rename_i pf err heq
      rw [heq] at hpos
      exact occ_setPf h pf hpos
    · rename_i pf heq
      rw [heq] at hpos
      have h1 := occ_setPf h pf hpos
      refine ⟨h1.pos, h1.queue, ?_⟩
      intro f hf'
      rcases List.mem_append.mp hf' with h2 | h2
      · exact h.log f h2
      · simp only [List.mem_singleton] at h2
        subst h2
        exact hQ

theorem makeTxn_asset {b : Broker α} {q : Quotes α} {o : Order} {tx : Txn α} (h : b.makeTxn q o = .ok tx) :
    tx.asset = o.asset ∧ tx.qty = o.qty ∧ tx.time = b.clock := by
  obtain ⟨h1, h2⟩ := makeTxn_fields h
  refine ⟨?_, ?_, h2⟩
  · have := congrArg Order.asset h1; exact this
  · have := congrArg Order.qty h1; exact this

theorem executeOrder_occ {P : String → Prop} {Q : Txn α → Prop} {b : Broker α} (h : Occ P Q b)
    (q : Quotes α) (pid : String) (o : Order) (hP : P o.asset)
    (hQ : ∀ tx, tx.asset = o.asset → tx.time = b.clock → Q tx) : Occ P Q (b.executeOrder q pid o).1 := by
  unfold Broker.executeOrder
  split
  · exact h
  · rename_i tx hm
    obtain ⟨h1, _, h3⟩ := makeTxn_asset hm
    exact applyTxn_occ h pid tx (by rw [h1]; exact hP) (hQ tx h1 h3)

theorem runExec_occ {P : String → Prop} {Q : Txn α → Prop} (q : Quotes α) (t : Int)
    (hQ : ∀ tx, P tx.asset → tx.time = t → Q tx) :
    ∀ (l : List (String × Order)) (b : Broker α), Occ P Q b → b.clock = t → (∀ x ∈ l, P x.2.asset) →
      Occ P Q (Broker.runUntilErr (fun b (x : String × Order) => b.executeOrder q x.1 x.2) b l).1
  | [], b, h, _, _ => h
  | x :: xs, b, h, hc, hl => by
    have hx : P x.2.asset := hl x (List.mem_cons_self ..)
    have h1 := executeOrder_occ h q x.1 x.2 hx
      (fun tx ha ht => hQ tx (by rw [ha]; exact hx) (by rw [ht, hc]))
    have hc1 := (executeOrder_other b q x.1 x.2).2.1
    simp only [Broker.runUntilErr]
    rcases hfx : b.executeOrder q x.1 x.2 with ⟨b', _ | e⟩
    · rw [hfx] at h1 hc1
      exact runExec_occ q t hQ xs b' h1 (hc1.trans hc) (fun y hy => hl y (List.mem_cons_of_mem _ hy))
    · rw [hfx] at h1; exact h1

theorem clearQueues_occ {P : String → Prop} {Q : Txn α → Prop} {b : Broker α} (h : Occ P Q b) :
    Occ P Q b.clearQueues := by
  refine ⟨?_, ?_, h.log⟩
  · intro e' he' x hx
    simp only [Broker.clearQueues, List.mem_map] at he'
    obtain ⟨e, he, rfl⟩ := he'
    exact h.pos e he x hx
  · intro e' he' o ho
    simp only [Broker.clearQueues, List.mem_map] at he'
    obtain ⟨e, he, rfl⟩ := he'
    simp at ho

/-- **`broker.update(dt)` creates no asset**: marks keep every stored asset, fills only move queued orders into the
positions and the fill log (each fill stamped `t`) — whether the update returns or raises. -/
theorem update_occ {P : String → Prop} {Q : Txn α → Prop} {b : Broker α} (h : Occ P Q b) (t : Int) (q : Quotes α)
    (hQ : ∀ tx, P tx.asset → tx.time = t → Q tx) : Occ P Q (b.update t q).1 := by
  have hm := marked_occ h t q
  have hc := (marked_frame b t q).2.2.2.1
  rw [update_eq]
  rcases hmk : b.marked t q with ⟨b1, _ | e⟩
  · rw [hmk] at hm hc
    simp only at hm hc ⊢
    split
    · apply runExec_occ q t hQ _ _ (clearQueues_occ hm) (by simpa [Broker.clearQueues] using hc)
      intro x hx
      have hx' : x ∈ b1.drained := (sellsFirst_perm _ _).mem_iff.mp hx
      obtain ⟨e, he, _, ho⟩ := mem_drained hx'
      exact hm.queue e he x.2 ho
    · exact hm
  · rw [hmk] at hm
    exact hm

theorem submit_occ {P : String → Prop} {Q : Txn α → Prop} {b : Broker α} (h : Occ P Q b) (pid : String) (o : Order)
    (hP : P o.asset) : Occ P Q (b.submitOrder pid o).1 := by
  unfold Broker.submitOrder
  split
  · exact h
  · rename_i e hf
    refine ⟨?_, ?_, h.log⟩
    · intro e' he' x hx
      simp only [Broker.setEntry, List.mem_map] at he'
      obtain ⟨e0, he0, rfl⟩ := he'
      split at hx
      · exact h.pos e (find_mem hf) x hx
      · exact h.pos e0 he0 x hx
    · intro e' he' o' ho'
      simp only [Broker.setEntry, List.mem_map] at he'
      obtain ⟨e0, he0, rfl⟩ := he'
      split at ho'
      · rcases List.mem_append.mp ho' with h1 | h1
        · exact h.queue e (find_mem hf) o' h1
        · simp only [List.mem_singleton] at h1; subst h1; exact hP
      · exact h.queue e0 he0 o' ho'

/-- **`ExecutionHandler.__call__` creates no asset beyond the ordered ones** -/
theorem executeOrders_occ {P : String → Prop} {Q : Txn α → Prop} (px : Px α) (t : Int)
    (hQ : ∀ tx, P tx.asset → tx.time = t → Q tx) :
    ∀ (l : List (String × Int)) (b : Broker α) (n : Nat), Occ P Q b → (∀ x ∈ l, P x.1) →
      Occ P Q (executeOrders px t b n l).1
  | [], b, n, h, _ => h
  | (a, qy) :: rest, b, n, h, hl => by
    have h1 := submit_occ h PORTFOLIO_ID { id := n, asset := a, qty := qy } (hl (a, qy) (List.mem_cons_self ..))
    simp only [executeOrders]
    rcases hs : b.submitOrder PORTFOLIO_ID { id := n, asset := a, qty := qy } with ⟨b1, _ | e⟩
    · rw [hs] at h1
      simp only at h1 ⊢
      have h2 := update_occ h1 t (quotesAt px t) hQ
      rcases hu : b1.update t (quotesAt px t) with ⟨b2, _ | e⟩
      · rw [hu] at h2
        exact executeOrders_occ px t hQ rest b2 (n + 1) h2 (fun x hx => hl x (List.mem_cons_of_mem _ hx))
      · rw [hu] at h2; exact h2
    · rw [hs] at h1; exact h1

end Occ

/-! ### the freshly constructed session stores nothing -/

section InitOcc
variable {α : Type} [Add α] [Sub α] [Mul α] [Div α] [Neg α] [NumOps α]

/-- no portfolio stores a position -/
def NoPos (b : Broker α) : Prop := ∀ e ∈ b.entries, e.pf.positions = []

theorem createPortfolio_noPos (b : Broker α) (pid : String) (h : NoPos b) : NoPos (b.createPortfolio pid).1 := by
  unfold Broker.createPortfolio
  split
  · exact h
  · intro e he
    rcases List.mem_append.mp he with h1 | h1
    · exact h e h1
    · simp only [List.mem_singleton] at h1
      subst h1
      rfl

theorem subscribe_positions (p : Portfolio α) (t : Int) (a : α) : (p.subscribe t a).1.positions = p.positions := by
  unfold Portfolio.subscribe
  split
  · rfl
  · dsimp only
    split <;> rfl

theorem subscribePortfolio_noPos (b : Broker α) (pid : String) (a : α) (h : NoPos b) :
    NoPos (b.subscribePortfolio pid a).1 := by
  have key : ∀ (e : PfEntry α), e ∈ b.entries → NoPos (b.setPf (e.pf.subscribe b.clock a).1) := by
    intro e he e' he'
    rcases mem_setPf he' with h1 | ⟨e0, _, _, rfl⟩
    · exact h e' h1
    · show (e.pf.subscribe b.clock a).1.positions = []
      rw [subscribe_positions]; exact h e he
  unfold Broker.subscribePortfolio
  split
  · exact h
  · split
    · exact h
    · rename_i e hf
      split
      · exact h
      · have hk := key e (find_mem hf)
        split
        · rename_i pf err heq
          rw [heq] at hk; exact hk
        · rename_i pf heq
          rw [heq] at hk; exact hk

/-- a freshly constructed session holds no position, no pending order, no fill -/
theorem init_occ (cfg : SessionCfg α) (s0 : Session α) (events : List SimEvent) (sched : List Int)
    (h : Session.init cfg = .ok (s0, events, sched)) :
    Occ (fun _ => False) (fun _ => False) s0.broker := by
  obtain ⟨hq, hf, _, _, _, _⟩ := init_fresh cfg s0 events sched h
  have hp : NoPos s0.broker := by
    unfold Session.init at h
    simp only [bind, Except.bind, pure, Except.pure] at h
    split at h
    · cases h
    · rename_i b0 hb0
      have q0 : NoPos b0 := by
        unfold Broker.new at hb0
        split at hb0
        · cases hb0
        · injection hb0 with hb0; subst hb0
          intro e he; simp at he
      have c1 := createPortfolio_noPos b0 PORTFOLIO_ID q0
      split at h
      · cases h
      · rename_i b1 hb1
        have q1 : NoPos b1 := by
          split at hb1
          · rename_i b hb; injection hb1 with hb1; subst hb1
            rw [hb] at c1; exact c1
          · cases hb1
        have c2 := subscribePortfolio_noPos b1 PORTFOLIO_ID cfg.initialCash q1
        split at h
        · cases h
        · rename_i b2 hb2
          have q2 : NoPos b2 := by
            split at hb2
            · rename_i b hb; injection hb2 with hb2; subst hb2
              rw [hb] at c2; exact c2
            · cases hb2
          split at h
          · cases h
          · split at h
            · cases h
            · split at h
              · cases h
              · injection h with h
                simp only [Prod.mk.injEq] at h
                obtain ⟨rfl, rfl, rfl⟩ := h
                exact q2
  refine ⟨?_, ?_, ?_⟩
  · intro e he p hpp; rw [hp e he] at hpp; simp at hpp
  · intro e he o ho; rw [hq e he] at ho; simp at ho
  · intro f hf'; rw [hf] at hf'; simp at hf'

end InitOcc

/-- the allocation records of a run over events in time order are in time order -/
theorem runEvents_alloc_sorted {α : Type} [Add α] [Sub α] [Mul α] [Div α] [Neg α] [NumOps α]
    (cfg : SessionCfg α) (alpha : Alpha α) (px : Px α) (sched : List Int) :
    ∀ (evs : List SimEvent) (s1 : Session α) (b : Int),
      (evs.map (·.time)).Pairwise (· ≤ ·) → (∀ ev ∈ evs, b ≤ ev.time) →
      (s1.allocations.map (·.1)).Pairwise (· ≤ ·) → (∀ r ∈ s1.allocations, r.1 ≤ b) →
      ((Session.runEvents cfg alpha px sched s1 evs).1.allocations.map (·.1)).Pairwise (· ≤ ·) := by
  intro evs
  induction evs with
  | nil => intro s1 b _ _ h _; exact h
  | cons ev rest ih =>
    intro s1 b hs hb hp hle
    obtain ⟨ea, h1, h2, _⟩ := step_allocations cfg alpha px sched s1 ev
    have hb0 := hb ev (List.mem_cons_self ..)
    simp only [List.map_cons, List.pairwise_cons, List.mem_map, forall_exists_index, and_imp,
      forall_apply_eq_imp_iff₂] at hs
    have hstep : (((s1.step cfg alpha px sched ev).1.allocations).map (·.1)).Pairwise (· ≤ ·) ∧
        ∀ r ∈ (s1.step cfg alpha px sched ev).1.allocations, r.1 ≤ ev.time := by
      rw [h1]
      rcases h2 with rfl | ⟨_, w, rfl⟩
      · simp only [List.append_nil]
        exact ⟨hp, fun r hr => (hle r hr).trans hb0⟩
      · constructor
        · rw [List.map_append, List.pairwise_append]
          refine ⟨hp, by simp, ?_⟩
          intro x hx y hy
          simp only [List.map_cons, List.map_nil, List.mem_singleton] at hy
          subst hy
          obtain ⟨r, hr, rfl⟩ := List.mem_map.mp hx
          exact (hle r hr).trans hb0
        · intro r hr
          rcases List.mem_append.mp hr with h | h
          · exact (hle r h).trans hb0
          · simp only [List.mem_singleton] at h; subst h; exact le_refl _
    simp only [Session.runEvents]
    rcases hst : s1.step cfg alpha px sched ev with ⟨s2, _ | e⟩
    · rw [hst] at hstep
      exact ih s2 ev.time hs.2 (fun e he => hs.1 e he) hstep.1 hstep.2
    · rw [hst] at hstep
      exact hstep.1

/-- a list of events in non-decreasing time order has a lower bound for its times -/
theorem exists_time_lower (events : List SimEvent) (hsorted : (events.map (·.time)).Pairwise (· ≤ ·)) :
    ∃ lo : Int, ∀ ev ∈ events, lo ≤ ev.time := by
  cases events with
  | nil => exact ⟨0, by simp⟩
  | cons ev rest =>
    refine ⟨ev.time, ?_⟩
    intro e he
    rcases List.mem_cons.mp he with rfl | he
    · exact Int.le_refl _
    · simp only [List.map_cons, List.pairwise_cons, List.mem_map, forall_exists_index, and_imp,
        forall_apply_eq_imp_iff₂] at hsorted
      exact hsorted.1 e he

/-- "no position, no pending order, no fill" as the `Occ` invariant with the empty predicates -/
theorem occ_of_empty {α : Type} [Add α] [Sub α] [Mul α] [Div α] [Neg α] [NumOps α] (b : Broker α)
    (hpos : ∀ e ∈ b.entries, e.pf.positions = [] ∧ e.queue = []) (hlog : b.fillLog = []) :
    Occ (fun _ => False) (fun _ => False) b :=
  ⟨fun e he p hp => by rw [(hpos e he).1] at hp; simp at hp,
   fun e he o ho => by rw [(hpos e he).2] at ho; simp at ho,
   fun f hf => by rw [hlog] at hf; simp at hf⟩

theorem empty_of_occ {α : Type} [Add α] [Sub α] [Mul α] [Div α] [Neg α] [NumOps α] (b : Broker α)
    (h : Occ (fun _ => False) (fun _ => False) b) (hq : QueuesEmpty b) :
    ∀ e ∈ b.entries, e.pf.positions = [] ∧ e.queue = [] := by
  intro e he
  refine ⟨?_, hq e he⟩
  cases hp : e.pf.positions with
  | nil => rfl
  | cons p ps => exact (h.pos e he p (by rw [hp]; simp)).elim

/-! ### the session invariant of C19 -/

section Only
variable {α : Type} [Field α] [LinearOrder α] [IsStrictOrderedRing α] [FloorRing α] [NumOps α] [LawfulNumOps α]

/-- the asset has entered the dynamic universe by the time of the latest allocation record (= latest rebalance) -/
def EnteredLast (dates : List (String × Option Int)) (allocs : List (Int × List (String × α))) (a : String) : Prop :=
  ∃ r, allocs.getLast? = some r ∧ Entered dates r.1 a

/-- the fill's asset had entered the universe by a rebalance (allocation record) made at or before the fill time -/
def FillOk (dates : List (String × Option Int)) (allocs : List (Int × List (String × α))) (tx : Txn α) : Prop :=
  ∃ r ∈ allocs, r.1 ≤ tx.time ∧ Entered dates r.1 tx.asset

/-- the C19 session invariant; `lo` bounds the times of the allocation records made so far -/
structure Good (dates : List (String × Option Int)) (sig : α) (lo : Int) (s : Session α) : Prop where
  occ : Occ (EnteredLast dates s.allocations) (FillOk dates s.allocations) s.broker
  recs : ∀ r ∈ s.allocations, r.1 ≤ lo ∧ (∀ k ∈ r.2.map (·.1), Entered dates r.1 k) ∧
    (∀ a, Entered dates r.1 a → (a, sig) ∈ r.2)

theorem Good.congr {dates : List (String × Option Int)} {sig : α} {lo : Int} {s s' : Session α}
    (h : Good dates sig lo s) (hb : s'.broker = s.broker) (ha : s'.allocations = s.allocations) :
    Good dates sig lo s' := by
  refine ⟨?_, ?_⟩
  · rw [hb, ha]; exact h.occ
  · rw [ha]; exact h.recs

theorem Good.mono {dates : List (String × Option Int)} {sig : α} {lo lo' : Int} {s : Session α}
    (h : Good dates sig lo s) (hl : lo ≤ lo') : Good dates sig lo' s :=
  ⟨h.occ, fun r hr => ⟨(h.recs r hr).1.trans hl, (h.recs r hr).2⟩⟩

theorem good_fresh (dates : List (String × Option Int)) (sig : α) (lo : Int) (s : Session α)
    (ho : Occ (fun _ => False) (fun _ => False) s.broker) (ha : s.allocations = []) : Good dates sig lo s :=
  ⟨ho.mono (fun _ h => h.elim) (fun _ h => h.elim), by rw [ha]; intro r hr; simp at hr⟩

theorem getLast?_mem {β : Type} {l : List β} {x : β} (h : l.getLast? = some x) : x ∈ l :=
  List.mem_of_getLast? h

/-- the broker update of a step keeps the invariant -/
theorem good_update {dates : List (String × Option Int)} {sig : α} {lo t : Int} {s : Session α}
    (h : Good dates sig lo s) (ht : lo ≤ t) (q : Quotes α) :
    Good dates sig lo { s with broker := (s.broker.update t q).1 } := by
  refine ⟨?_, h.recs⟩
  apply update_occ h.occ
  rintro tx ⟨r, hr, he⟩ htime
  have hm := getLast?_mem hr
  exact ⟨r, hm, by rw [htime]; exact (h.recs r hm).1.trans ht, he⟩

/-- the keys of the weight vector a universe-driven rebalance records: held assets and universe members -/
theorem fw_entered {dates : List (String × Option Int)} {t : Int} {held : List (String × Int)} {sig : α}
    (hh : ∀ a ∈ held.map (·.1), Entered dates t a) :
    ∀ k ∈ (fullWeightVector held (dynamicAssets dates t) (singleSignal (dynamicAssets dates t) sig)).map (·.1),
      Entered dates t k := by
  intro k hk
  rcases mem_fullWeightVector_keys.mp hk with h1 | h1 | h1
  · exact hh k h1
  · exact mem_dynamicAssets.mp h1
  · rw [(C19_alpha _ sig).1] at h1
    exact mem_dynamicAssets.mp h1

theorem fw_from {dates : List (String × Option Int)} {t : Int} {held : List (String × Int)} {sig : α}
    {a : String} (ha : Entered dates t a) :
    (a, sig) ∈ fullWeightVector held (dynamicAssets dates t) (singleSignal (dynamicAssets dates t) sig) := by
  have hU : a ∈ dynamicAssets dates t := mem_dynamicAssets.mpr ha
  rw [mem_fullWeightVector]
  left
  refine ⟨mem_fullAssetList.mpr (Or.inr hU), ?_⟩
  have hk' : a ∈ (singleSignal (dynamicAssets dates t) sig).map (·.1) := by
    rw [(C19_alpha _ sig).1]; exact hU
  obtain ⟨v, hv⟩ := lookup_isSome_of_mem_keys hk'
  rw [hv]
  exact ((C19_alpha _ sig).2.1 _ (mem_of_lookup_eq_some hv)).symm

theorem sizer_keys (cfg : SessionCfg α) (E : α) (price : String → Option α) :
    SizerKeys (fun w => if cfg.longOnly then dwSize cfg.fee E cfg.param price w
      else lsSize cfg.fee E cfg.param price w) := by
  intro w target h
  dsimp only at h
  split at h
  · exact dwSize_keys _ _ _ _ _ _ h
  · exact lsSize_keys _ _ _ _ _ _ h

/-- **the rebalance step**: at a rebalance at `t` not before the earlier ones, with a dynamic universe and the
universe-driven alpha model, the new record, the submitted orders and everything they turn into satisfy the
invariant at `t` — whether sizing or execution raises or not. -/
theorem good_rebalance {dates : List (String × Option Int)} {sig : α} {lo t : Int} {s : Session α}
    (cfg : SessionCfg α) (huni : cfg.uni = .dynamic dates) (px : Px α)
    (h : Good dates sig lo s) (ht : lo ≤ t) :
    Good dates sig t (rebalanceAt cfg (singleAlpha sig) px t s).1 := by
  -- the predicates after the new record
  have hlast : ∀ fw : List (String × α), ∀ a,
      EnteredLast dates (s.allocations ++ [(t, fw)]) a ↔ Entered dates t a := by
    intro fw a
    unfold EnteredLast
    rw [List.getLast?_append_of_ne_nil _ (by simp), List.getLast?_singleton]
    constructor
    · rintro ⟨r, hr, he⟩; cases hr; exact he
    · intro he; exact ⟨_, rfl, he⟩
  have hP : ∀ a, EnteredLast dates s.allocations a → Entered dates t a := by
    rintro a ⟨r, hr, he⟩
    exact Entered.mono ((h.recs r (getLast?_mem hr)).1.trans ht) he
  have hheld : ∀ a ∈ (heldOf s.broker).map (·.1), Entered dates t a := fun a ha => hP a (h.occ.held a ha)
  have hU : cfg.uni.assets t = dynamicAssets dates t := by rw [huni]; rfl
  -- the state after the record
  have hocc1 : ∀ fw : List (String × α),
      Occ (EnteredLast dates (s.allocations ++ [(t, fw)])) (FillOk dates (s.allocations ++ [(t, fw)])) s.broker := by
    intro fw
    apply h.occ.mono
    · intro a ha; exact (hlast fw a).mpr (hP a ha)
    · rintro tx ⟨r, hr, h1, h2⟩; exact ⟨r, List.mem_append_left _ hr, h1, h2⟩
  have hrecs : ∀ r ∈ s.allocations ++ [(t, fullWeightVector (heldOf s.broker) (dynamicAssets dates t)
        (singleSignal (dynamicAssets dates t) sig))],
      r.1 ≤ t ∧ (∀ k ∈ r.2.map (·.1), Entered dates r.1 k) ∧ (∀ a, Entered dates r.1 a → (a, sig) ∈ r.2) := by
    intro r hr
    rcases List.mem_append.mp hr with h1 | h1
    · exact ⟨(h.recs r h1).1.trans ht, (h.recs r h1).2⟩
    · simp only [List.mem_singleton] at h1
      subst h1
      exact ⟨le_refl _, fw_entered hheld, fun a ha => fw_from ha⟩
  unfold rebalanceAt
  simp only [singleAlpha, fixedWeight, hU]
  split
  · exact ⟨hocc1 _, hrecs⟩
  · rename_i tq htq
    refine ⟨?_, hrecs⟩
    show Occ _ _ (executeOrders px t s.broker s.nextId (rebalanceOrders tq (heldOf s.broker))).1
    apply executeOrders_occ px t _ _ _ _ (hocc1 _)
    · -- every ordered asset has entered by `t` (C19_pcm_invariant)
      have hpcm : pcmCall (heldOf s.broker) (dynamicAssets dates t) (singleSignal (dynamicAssets dates t) sig)
          (fun w => if cfg.longOnly then dwSize cfg.fee (equityOf s.broker) cfg.param (px t) w
            else lsSize cfg.fee (equityOf s.broker) cfg.param (px t) w) =
          .ok ⟨_, rebalanceOrders tq (heldOf s.broker)⟩ :=
        pcmCall_ok_iff.mpr ⟨tq, htq, rfl⟩
      obtain ⟨_, _, _, h4, _⟩ := C19_pcm_invariant dates t t (le_refl t) (heldOf s.broker) hheld sig _
        (sizer_keys cfg (equityOf s.broker) (px t)) _ hpcm
      intro x hx
      exact (hlast _ x.1).mpr (h4 x hx)
    · intro tx hp htime
      exact ⟨_, List.mem_append_right _ (List.mem_singleton_self _), by rw [htime], (hlast _ _).mp hp⟩

/-- **one event** keeps the invariant, whether the step returns or raises -/
theorem good_step {dates : List (String × Option Int)} {sig : α} {lo : Int} {s : Session α}
    (cfg : SessionCfg α) (huni : cfg.uni = .dynamic dates) (px : Px α) (sched : List Int) (ev : SimEvent)
    (h : Good dates sig lo s) (ht : lo ≤ ev.time) :
    Good dates sig ev.time (s.step cfg (singleAlpha sig) px sched ev).1 := by
  have h1 : Good dates sig ev.time { s with broker := (s.broker.update ev.time (quotesAt px ev.time)).1 } :=
    (good_update h ht _).mono ht
  have hreb : ∀ s2 : Session α, Good dates sig ev.time s2 →
      Good dates sig ev.time (rebStage cfg (singleAlpha sig) px sched ev.time s2).1 := by
    intro s2 h2
    unfold rebStage
    split
    · exact good_rebalance cfg huni px h2 (le_refl _)
    · exact h2
  rcases step_cases cfg (singleAlpha sig) px sched s ev with ⟨b, e, hu, hst⟩ | ⟨b, s2, e, hu, hs, hst⟩ |
      ⟨b, s2, s3, e, hu, hs, hr, hst⟩ | ⟨b, s2, s3, hu, hs, hr, hst⟩
  · rw [hst]; rw [hu] at h1; exact h1
  · have hf := sigStage_frame cfg px ev { s with broker := b }
    rw [hs] at hf
    rw [hst]; rw [hu] at h1
    exact h1.congr hf.1 hf.2.1
  · have hf := sigStage_frame cfg px ev { s with broker := b }
    rw [hs] at hf
    rw [hu] at h1
    have h2 : Good dates sig ev.time s2 := h1.congr hf.1 hf.2.1
    have h3 := hreb s2 h2
    rw [hr] at h3
    rw [hst]; exact h3
  · have hf := sigStage_frame cfg px ev { s with broker := b }
    rw [hs] at hf
    rw [hu] at h1
    have h2 : Good dates sig ev.time s2 := h1.congr hf.1 hf.2.1
    have h3 := hreb s2 h2
    rw [hr] at h3
    have h4 := eqStage_frame cfg ev s3
    rw [hst]
    exact h3.congr h4.1 h4.2.1

/-- **a whole run** over events in non-decreasing time order, none before the records already made -/
theorem good_run {dates : List (String × Option Int)} {sig : α}
    (cfg : SessionCfg α) (huni : cfg.uni = .dynamic dates) (px : Px α) (sched : List Int) :
    ∀ (events : List SimEvent) (s : Session α) (lo : Int), Good dates sig lo s →
      (events.map (·.time)).Pairwise (· ≤ ·) → (∀ ev ∈ events, lo ≤ ev.time) →
      ∃ lo', Good dates sig lo' (Session.runEvents cfg (singleAlpha sig) px sched s events).1
  | [], s, lo, h, _, _ => ⟨lo, h⟩
  | ev :: rest, s, lo, h, hs, hlo => by
    have h1 := good_step cfg huni px sched ev h (hlo ev (List.mem_cons_self ..))
    simp only [Session.runEvents]
    rcases hst : s.step cfg (singleAlpha sig) px sched ev with ⟨s1, _ | e⟩
    · rw [hst] at h1
      simp only [List.map_cons, List.pairwise_cons, List.mem_map, forall_exists_index, and_imp,
        forall_apply_eq_imp_iff₂] at hs
      exact good_run cfg huni px sched rest s1 ev.time h1 hs.2 (fun e he => hs.1 e he)
    · rw [hst] at h1
      exact ⟨ev.time, h1⟩

/-- the invariant after a run from a session that stores nothing -/
theorem good_of_fresh_run {dates : List (String × Option Int)} (sig : α)
    (cfg : SessionCfg α) (huni : cfg.uni = .dynamic dates) (px : Px α) (sched : List Int) (s : Session α)
    (hpos : ∀ e ∈ s.broker.entries, e.pf.positions = [] ∧ e.queue = []) (hlog : s.broker.fillLog = [])
    (halloc : s.allocations = [])
    (events : List SimEvent) (hsorted : (events.map (·.time)).Pairwise (· ≤ ·)) :
    (∃ lo', Good dates sig lo' (Session.runEvents cfg (singleAlpha sig) px sched s events).1) ∧
    ((Session.runEvents cfg (singleAlpha sig) px sched s events).1.allocations.map (·.1)).Pairwise (· ≤ ·) := by
  obtain ⟨lo, hlo⟩ := exists_time_lower events hsorted
  exact ⟨good_run cfg huni px sched events s lo
      (good_fresh dates sig lo s (occ_of_empty s.broker hpos hlog) halloc) hsorted hlo,
    runEvents_alloc_sorted cfg (singleAlpha sig) px sched events s lo hsorted hlo (by rw [halloc]; simp)
      (by rw [halloc]; simp)⟩

end Only

/-! ## Part C — the holdings after the fills are `applyOrders`, pointwise -/

section Reach

/-- the quantity an association list of holdings gives an asset (`0` when absent) -/
def qtyOf (l : List (String × Int)) (a : String) : Int := (l.lookup a).getD 0

theorem lookup_filter_ne (l : List (String × Int)) (a b : String) (h : b ≠ a) :
    (l.filter fun x => !(x.1 == a)).lookup b = l.lookup b := by
  induction l with
  | nil => rfl
  | cons x xs ih =>
    obtain ⟨k, v⟩ := x
    by_cases hk : k = a
    · subst hk
      have : (b == k) = false := by simpa using h
      simp [List.filter_cons, List.lookup_cons, this, ih]
    · have hk' : (k == a) = false := by simpa using hk
      by_cases hb : b = k
      · subst hb
        simp [List.filter_cons, List.lookup_cons, hk']
      · have : (b == k) = false := by simpa using hb
        simp [List.filter_cons, List.lookup_cons, hk', this, ih]

theorem lookup_filter_self (l : List (String × Int)) (a : String) :
    (l.filter fun x => !(x.1 == a)).lookup a = none := by
  rw [lookup_eq_none_iff]
  intro h
  obtain ⟨x, hx, hxa⟩ := List.mem_map.mp h
  have := (List.mem_filter.mp hx).2
  simp [hxa] at this

theorem lookup_map_set (l : List (String × Int)) (a b : String) (v : Int) :
    (l.map fun x => if x.1 == a then (a, v) else x).lookup b =
      if b = a then (l.lookup a).map (fun _ => v) else l.lookup b := by
  induction l with
  | nil => simp
  | cons x xs ih =>
    obtain ⟨k, w⟩ := x
    by_cases hk : k = a
    · subst hk
      by_cases hb : b = k
      · subst hb
        simp [List.lookup_cons]
      · have : (b == k) = false := by simpa using hb
        simp only [List.map_cons, beq_self_eq_true, if_true, List.lookup_cons, this, ih, hb, if_false]
    · have hk' : (k == a) = false := by simpa using hk
      by_cases hb : b = k
      · subst hb
        have hba : ¬ b = a := hk
        have hab : (a == b) = false := by simpa using fun e : a = b => hk e.symm
        simp [List.lookup_cons, hk', hba, hab]
      · have hbk : (b == k) = false := by simpa using hb
        by_cases hba : b = a
        · subst hba
          simp only [List.map_cons, hk', Bool.false_eq_true, if_false, List.lookup_cons, hbk, ih, if_true]
        · simp only [List.map_cons, hk', Bool.false_eq_true, if_false, List.lookup_cons, hbk, ih, hba]

/-- `holdAdd` realises "add `q` to the holding of `a`", pointwise -/
theorem holdAdd_qty (hold : List (String × Int)) (a : String) (q : Int) (b : String) :
    qtyOf (holdAdd hold a q) b = qtyOf hold b + if b = a then q else 0 := by
  unfold holdAdd qtyOf
  cases h : hold.lookup a with
  | none =>
    simp only
    split
    · rename_i hq; subst hq; simp
    · by_cases hb : b = a
      · subst hb
        simp [List.lookup_append, h, List.lookup_cons]
      · have : (b == a) = false := by simpa using hb
        simp [List.lookup_append, List.lookup_cons, this, hb]
  | some h0 =>
    simp only
    split
    · rename_i hz
      by_cases hb : b = a
      · subst hb
        rw [lookup_filter_self, h]
        simp only [Option.getD_none, Option.getD_some, if_true]
        omega
      · rw [lookup_filter_ne _ _ _ hb]
        simp [hb]
    · rw [lookup_map_set]
      by_cases hb : b = a
      · subst hb
        simp [h]
      · simp [hb]

theorem orderedQty_cons (o : String × Int) (os : List (String × Int)) (b : String) :
    orderedQty (o :: os) b = (if b = o.1 then o.2 else 0) + orderedQty os b := by
  unfold orderedQty
  by_cases h : o.1 = b
  · have : (o.1 == b) = true := by simpa using h
    simp [List.filter_cons, this, h.symm]
  · have : (o.1 == b) = false := by simpa using h
    have h' : ¬ b = o.1 := fun e => h e.symm
    simp [List.filter_cons, this, h']

end Reach

section ReachRef
variable {α : Type} [Field α] [LinearOrder α] [IsStrictOrderedRing α] [FloorRing α] [NumOps α] [LawfulNumOps α]

/-- the reference holdings after filling a list of orders in full: `applyOrders`, pointwise -/
theorem refFillAll_qty (fee : FeeModel α) (px : Px α) (t : Int) :
    ∀ (os : List (String × Int)) (st st' : RefState α), refFillAll fee px t st os = some st' →
      ∀ b, qtyOf st'.hold b = applyOrders st.hold os b
  | [], st, st', h, b => by
    simp only [refFillAll, Option.some.injEq] at h
    subst h
    simp [applyOrders, orderedQty, qtyOf]
  | o :: os, st, st', h, b => by
    simp only [refFillAll] at h
    cases hf : refFill fee px t st o with
    | none => rw [hf] at h; simp at h
    | some s1 =>
      rw [hf] at h
      simp only [Option.bind_some] at h
      have ih := refFillAll_qty fee px t os s1 st' h b
      have h1 : s1.hold = holdAdd st.hold o.1 o.2 := by
        unfold refFill at hf
        split at hf
        · cases hf
        · simp only [Option.some.injEq] at hf
          subst hf
          rfl
      rw [ih]
      unfold applyOrders
      have := holdAdd_qty st.hold o.1 o.2 b
      unfold qtyOf at this
      rw [h1, this, orderedQty_cons]
      omega

end ReachRef

/-! ### rebalances and updates of a represented broker, any alpha model -/

section Rep
variable {α : Type} [Field α] [LinearOrder α] [IsStrictOrderedRing α] [FloorRing α] [NumOps α] [LawfulNumOps α]
open Qs.Ref

/-- the order sizer of the session (a name for the sub-expression of `rebalanceAt`) -/
def sizerOf (cfg : SessionCfg α) (E : α) (price : String → Option α) (w : List (String × α)) :
    Except Err (List (String × Int)) :=
  if cfg.longOnly then dwSize cfg.fee E cfg.param price w else lsSize cfg.fee E cfg.param price w

theorem sizerOf_keys (cfg : SessionCfg α) (E : α) (price : String → Option α) : SizerKeys (sizerOf cfg E price) := by
  intro w target h
  unfold sizerOf at h
  split at h
  · exact dwSize_keys _ _ _ _ _ _ h
  · exact lsSize_keys _ _ _ _ _ _ h

/-- `rebalanceAt`, with its sub-expressions named -/
theorem rebalanceAt_eq (cfg : SessionCfg α) (alpha : Alpha α) (px : Px α) (t : Int) (s : Session α) :
    rebalanceAt cfg alpha px t s =
      match sizerOf cfg (equityOf s.broker) (px t) (recordedWeights cfg alpha t s) with
      | .error e => ({ s with allocations := s.allocations ++ [(t, recordedWeights cfg alpha t s)] }, some e)
      | .ok tq =>
        match executeOrders px t s.broker s.nextId (rebalanceOrders tq (heldOf s.broker)) with
        | (b, n, e) =>
          ({ s with allocations := s.allocations ++ [(t, recordedWeights cfg alpha t s)], broker := b, nextId := n }, e) :=
  rfl

/-- **A rebalance of a represented session**, any alpha model: the sizer returned a target; when the exchange is closed
the orders `target − holdings` join the queue, when it is open (and nothing is pending) they fill at once. -/
theorem rebalanceAt_rep (cfg : SessionCfg α) (alpha : Alpha α) (px : Px α)
    (hpos : ∀ t a p, px t a = some p → 0 < p) (t : Int) (s s1 : Session α) (st : RefState α)
    (hbr : BR cfg.fee s.broker st t) (hm : Marked px t s.broker)
    (hret : rebalanceAt cfg alpha px t s = (s1, none)) :
    ∃ tq, sizerOf cfg (equityOf s.broker) (px t) (recordedWeights cfg alpha t s) = .ok tq ∧
      heldOf s.broker = st.hold ∧
      s1.allocations = s.allocations ++ [(t, recordedWeights cfg alpha t s)] ∧
      s1.signals = s.signals ∧ s1.equity = s.equity ∧
      (∀ k ∈ (rebalanceOrders tq st.hold).map (·.1), k ∈ st.hold.map (·.1) ∨ k ∈ cfg.uni.assets t ∨
        k ∈ (alpha t s.signals (cfg.uni.assets t)).map (·.1)) ∧
      (isOpen t = false →
        BR cfg.fee s1.broker { st with pending := st.pending ++ rebalanceOrders tq st.hold } t ∧
        Marked px t s1.broker) ∧
      (isOpen t = true → st.pending = [] →
        ∃ st', refFillAll cfg.fee px t st (rebalanceOrders tq st.hold) = some st' ∧
          BR cfg.fee s1.broker st' t ∧ Marked px t s1.broker ∧ st'.pending = [] ∧
          (∀ k ∈ st'.hold.map (·.1), k ∈ st.hold.map (·.1) ∨ k ∈ (rebalanceOrders tq st.hold).map (·.1))) := by
  have hheld := heldOf_sim cfg.fee s.broker st t hbr
  rw [rebalanceAt_eq] at hret
  cases htgt : sizerOf cfg (equityOf s.broker) (px t) (recordedWeights cfg alpha t s) with
  | error e => rw [htgt] at hret; simp at hret
  | ok tq =>
    rw [htgt] at hret
    simp only [hheld] at hret
    have hnz : ∀ o ∈ rebalanceOrders tq st.hold, o.2 ≠ 0 := fun o ho => rebalanceOrders_ne_zero ho
    rcases hex : executeOrders px t s.broker s.nextId (rebalanceOrders tq st.hold) with ⟨b, n, e⟩
    rw [hex] at hret
    simp only [Prod.mk.injEq] at hret
    obtain ⟨rfl, rfl⟩ := hret
    have hret' : (executeOrders px t s.broker s.nextId (rebalanceOrders tq st.hold)).2.2 = none := by rw [hex]
    refine ⟨tq, rfl, hheld, rfl, rfl, rfl, ?_, ?_, ?_⟩
    · have htgt' := htgt
      unfold sizerOf recordedWeights fixedWeight at htgt'
      rw [hheld] at htgt'
      exact orders_keys cfg _ px t st.hold _ tq htgt'
    · intro ho
      have := executeOrders_closed cfg.fee px hpos t ho _ s.broker s.nextId st hbr hm hnz hret'
      rw [hex] at this
      exact this
    · intro ho hp
      obtain ⟨st', h1, h2, h3, h4, _, _, h7⟩ :=
        executeOrders_open cfg.fee px hpos t ho _ s.broker s.nextId st hbr hm hp hnz hret'
      rw [hex] at h2 h3
      exact ⟨st', h1, h2, h3, h4, h7⟩

/-- the holdings of a represented broker, as a finite map: distinct keys, no zero quantity -/
theorem held_wf (fee : FeeModel α) (b : Broker α) (st : RefState α) (t : Int) (hbr : BR fee b st t) :
    ((heldOf b).map (·.1)).Nodup ∧ (∀ x ∈ heldOf b, x.2 ≠ 0) ∧ pendingOf b = st.pending := by
  have hh := heldOf_sim fee b st t hbr
  obtain ⟨⟨e, he, her⟩, _, _, _⟩ := hbr
  refine ⟨?_, ?_, ?_⟩
  · rw [hh, ← keys_of_view her.hold]; exact her.wf.nodup
  · rw [hh]; exact her.nz
  · unfold pendingOf
    rw [find?_single he her.id]
    exact her.queue

theorem queuesEmpty_of_rep (fee : FeeModel α) (b : Broker α) (st : RefState α) (t : Int) (hbr : BR fee b st t)
    (hp : st.pending = []) : QueuesEmpty b := by
  obtain ⟨⟨e, he, her⟩, _, _, _⟩ := hbr
  intro e' he'
  rw [he] at he'
  simp only [List.mem_singleton] at he'
  subst he'
  have := her.queue
  rw [hp] at this
  exact List.map_eq_nil_iff.mp this

/-- **the fills of the next open**: a represented broker whose queue holds exactly the orders `os` (non-zero
quantities), updated at an open instant `t' ≥ t` where every held asset is quoted, without error: the holdings become
`applyOrders hold os` pointwise and the queue is empty. -/
theorem update_reach (fee : FeeModel α) (px : Px α) (hpos : ∀ t a p, px t a = some p → 0 < p)
    (b b2 : Broker α) (st : RefState α) (t t' : Int) (hbr : BR fee b st t) (ht : t ≤ t')
    (ho : isOpen t' = true) (hq : ∀ x ∈ st.hold, (px t' x.1).isSome)
    (hret : b.update t' (quotesAt px t') = (b2, none)) :
    ∃ st', BR fee b2 st' t' ∧ Marked px t' b2 ∧ st'.pending = [] ∧
      (∀ a, qtyOf (heldOf b2) a = applyOrders st.hold st.pending a) ∧
      (∀ k ∈ st'.hold.map (·.1), k ∈ st.hold.map (·.1) ∨ k ∈ st.pending.map (·.1)) := by
  have hret' : (b.update t' (quotesAt px t')).2 = none := by rw [hret]
  obtain ⟨st', hf, hbr', hm', hp', _, _, hk⟩ := (update_sim fee px hpos b st t t' hbr ht hq hret').2 ho
  rw [hret] at hbr' hm'
  refine ⟨st', hbr', hm', hp', ?_, hk⟩
  intro a
  rw [heldOf_sim fee b2 st' t' hbr', refFillAll_qty fee px t' _ _ st' hf a]
  unfold applyOrders
  rw [orderedQty_perm (sellsFirst_perm _ st.pending) a]

end Rep

/-! ### the representation invariant along a run, any alpha model -/

section RepRun
variable {α : Type} [Field α] [LinearOrder α] [IsStrictOrderedRing α] [FloorRing α] [NumOps α] [LawfulNumOps α]
open Qs.Ref

/-- **one event of a represented session**, any alpha model: a step that returns normally leaves a represented,
marked broker; after an event inside exchange hours nothing is pending; every asset of the book stays in `A`. -/
theorem step_rep (cfg : SessionCfg α) (alpha : Alpha α) (px : Px α)
    (hpos : ∀ t a p, px t a = some p → 0 < p) (sched : List Int) (A : String → Prop)
    (hA : ∀ t a, a ∈ cfg.uni.assets t → A a)
    (hAw : ∀ t sg u, ∀ a ∈ (alpha t sg u).map (·.1), A a)
    (s s' : Session α) (st : RefState α) (t0 : Int) (ev : SimEvent)
    (hbr : BR cfg.fee s.broker st t0) (has : Assets A st) (ht : t0 ≤ ev.time)
    (hq : ∀ a, A a → (px ev.time a).isSome)
    (hret : s.step cfg alpha px sched ev = (s', none)) :
    ∃ st', BR cfg.fee s'.broker st' ev.time ∧ Marked px ev.time s'.broker ∧ Assets A st' ∧
      (isOpen ev.time = true → st'.pending = []) := by
  rcases step_cases cfg alpha px sched s ev with ⟨b, e, hu, hst⟩ | ⟨b, s2, e, hu, hs, hst⟩ |
      ⟨b, s2, s3, e, hu, hs, hr, hst⟩ | ⟨b, s2, s3, hu, hs, hr, hst⟩
  · rw [hst] at hret; simp at hret
  · rw [hst] at hret; simp at hret
  · rw [hst] at hret; simp at hret
  · have hret1 : (s.broker.update ev.time (quotesAt px ev.time)).2 = none := by rw [hu]
    have hus := update_sim cfg.fee px hpos s.broker st t0 ev.time hbr ht
      (fun x hx => hq _ (has.1 _ (List.mem_map.mpr ⟨x, hx, rfl⟩))) hret1
    rw [hu] at hus
    -- the state after the broker update
    obtain ⟨st1, hbr1, hm1, has1, hp1⟩ : ∃ st1, BR cfg.fee b st1 ev.time ∧ Marked px ev.time b ∧ Assets A st1 ∧
        (isOpen ev.time = true → st1.pending = []) := by
      cases ho : isOpen ev.time with
      | false =>
        obtain ⟨h1, h2⟩ := hus.1 ho
        exact ⟨st, h1, h2, has, fun h => by cases h⟩
      | true =>
        obtain ⟨st1, _, h1, h2, h3, _, _, hk⟩ := hus.2 ho
        refine ⟨st1, h1, h2, ⟨?_, by rw [h3]; intro k hk; cases hk⟩, fun _ => h3⟩
        intro k hk'
        rcases hk k hk' with h | h
        · exact has.1 k h
        · exact has.2 k h
    have hf2 := sigStage_frame cfg px ev { s with broker := b }
    rw [hs] at hf2
    have hb2 : s2.broker = b := hf2.1
    have h4 := eqStage_frame cfg ev s3
    have hs' : s' = (eqStage cfg ev s3).1 := by rw [hst] at hret; exact (congrArg Prod.fst hret).symm
    rw [hs', h4.1]
    unfold rebStage at hr
    split at hr
    · -- a rebalance
      rw [← hb2] at hbr1 hm1
      obtain ⟨tq, _, _, _, _, _, hk, hclosed, hopen⟩ :=
        rebalanceAt_rep cfg alpha px hpos ev.time s2 s3 st1 hbr1 hm1 hr
      have hord : ∀ k ∈ (rebalanceOrders tq st1.hold).map (·.1), A k := by
        intro k hk'
        rcases hk k hk' with h | h | h
        · exact has1.1 k h
        · exact hA _ k h
        · exact hAw _ _ _ k h
      cases ho : isOpen ev.time with
      | false =>
        obtain ⟨h1, h2⟩ := hclosed ho
        refine ⟨_, h1, h2, ⟨has1.1, ?_⟩, fun h => by cases h⟩
        intro k hk'
        simp only [List.map_append, List.mem_append] at hk'
        rcases hk' with h | h
        · exact has1.2 k h
        · exact hord k h
      | true =>
        obtain ⟨st', _, h1, h2, h3, h5⟩ := hopen ho (hp1 ho)
        refine ⟨st', h1, h2, ⟨?_, by rw [h3]; intro k hk; cases hk⟩, fun _ => h3⟩
        intro k hk'
        rcases h5 k hk' with h | h
        · exact has1.1 k h
        · exact hord k h
    · simp only [Prod.mk.injEq, and_true] at hr
      subst hr
      rw [hb2]
      exact ⟨st1, hbr1, hm1, has1, hp1⟩

/-- **a whole run of a represented session**, any alpha model; the broker clock ends at the last event time -/
theorem run_rep (cfg : SessionCfg α) (alpha : Alpha α) (px : Px α)
    (hpos : ∀ t a p, px t a = some p → 0 < p) (sched : List Int) (A : String → Prop)
    (hA : ∀ t a, a ∈ cfg.uni.assets t → A a)
    (hAw : ∀ t sg u, ∀ a ∈ (alpha t sg u).map (·.1), A a) :
    ∀ (events : List SimEvent) (s s' : Session α) (st : RefState α) (t0 : Int),
      BR cfg.fee s.broker st t0 → Assets A st →
      (events.map (·.time)).Pairwise (· ≤ ·) → (∀ ev ∈ events, t0 ≤ ev.time) →
      (∀ ev ∈ events, ∀ a, A a → (px ev.time a).isSome) →
      Session.runEvents cfg alpha px sched s events = (s', none) →
      ∃ st', BR cfg.fee s'.broker st' ((events.getLast?.map (·.time)).getD t0) ∧ Assets A st' ∧
        (events = [] → st' = st) ∧
        (∀ ev, events.getLast? = some ev → isOpen ev.time = true → st'.pending = [])
  | [], s, s', st, t0, hbr, has, _, _, _, h => by
    simp only [Session.runEvents, Prod.mk.injEq, and_true] at h
    subst h
    exact ⟨st, hbr, has, fun _ => rfl, by simp⟩
  | ev :: rest, s, s', st, t0, hbr, has, hs, hlo, hq, h => by
    simp only [Session.runEvents] at h
    rcases hst : s.step cfg alpha px sched ev with ⟨s1, _ | e⟩
    · rw [hst] at h
      simp only at h
      obtain ⟨st1, hbr1, _, has1, hp1⟩ := step_rep cfg alpha px hpos sched A hA hAw s s1 st t0 ev hbr has
        (hlo ev (List.mem_cons_self ..)) (hq ev (List.mem_cons_self ..)) hst
      simp only [List.map_cons, List.pairwise_cons, List.mem_map, forall_exists_index, and_imp,
        forall_apply_eq_imp_iff₂] at hs
      obtain ⟨st', h1, h2, h3, h5⟩ := run_rep cfg alpha px hpos sched A hA hAw rest s1 s' st1 ev.time hbr1 has1
        hs.2 (fun e he => hs.1 e he) (fun e he => hq e (List.mem_cons_of_mem _ he)) h
      cases rest with
      | nil =>
        have := h3 rfl
        subst this
        refine ⟨st', by simpa using h1, h2, by simp, ?_⟩
        intro ev' hev' ho
        simp only [List.getLast?_singleton, Option.some.injEq] at hev'
        subst hev'
        exact hp1 ho
      | cons e2 r2 =>
        refine ⟨st', ?_, h2, by simp, ?_⟩
        · rw [List.getLast?_cons_cons]
          have : ((e2 :: r2).getLast?.map (·.time)).getD ev.time = ((e2 :: r2).getLast?.map (·.time)).getD t0 := by
            cases hl : (e2 :: r2).getLast? with
            | none => simp at hl
            | some x => rfl
          rw [← this]; exact h1
        · intro ev' hev'
          rw [List.getLast?_cons_cons] at hev'
          exact h5 ev' hev'
    · rw [hst] at h; simp at h

/-- construction without a signals collection: the broker, the clock and the schedule are the same -/
theorem init_nosig (cfg : SessionCfg α) (s0 : Session α) (events : List SimEvent) (sched : List Int)
    (h : Session.init cfg = .ok (s0, events, sched)) :
    Session.init { cfg with signalSpecs := none } = .ok ({ s0 with signals := none }, events, sched) := by
  have hsch : scheduleOf ({ cfg with signalSpecs := none } : SessionCfg α) = scheduleOf cfg := rfl
  unfold Session.init at h ⊢
  simp only [bind, Except.bind, pure, Except.pure] at h ⊢
  rw [hsch]
  split at h
  · cases h
  · split at h
    · cases h
    · split at h
      · cases h
      · split at h
        · cases h
        · split at h
          · cases h
          · split at h
            · cases h
            · injection h with h
              simp only [Prod.mk.injEq] at h
              obtain ⟨rfl, rfl, rfl⟩ := h
              rfl

/-- **the constructed session is represented** (with or without a signals collection): no holdings, nothing pending,
the initial cash -/
theorem init_rep (cfg : SessionCfg α) (s0 : Session α) (events : List SimEvent) (sched : List Int)
    (h : Session.init cfg = .ok (s0, events, sched)) :
    BR cfg.fee s0.broker { cash := cfg.initialCash } cfg.start := by
  have h' := init_nosig cfg s0 events sched h
  exact (init_sim { cfg with signalSpecs := none } rfl _ events sched h').1.br

end RepRun

/-! ### decomposition of a normal step, and the target reached -/

section StepDecomp
variable {α : Type} [Add α] [Sub α] [Mul α] [Div α] [Neg α] [NumOps α]

/-- a normal step at an instant that is not a rebalance changes the broker by `broker.update` only -/
theorem step_broker_idle (cfg : SessionCfg α) (alpha : Alpha α) (px : Px α) (sched : List Int) (s s' : Session α)
    (ev : SimEvent) (hn : isReb cfg sched ev.time = false) (h : s.step cfg alpha px sched ev = (s', none)) :
    s.broker.update ev.time (quotesAt px ev.time) = (s'.broker, none) ∧ s'.allocations = s.allocations := by
  rcases step_cases cfg alpha px sched s ev with ⟨b, e, hu, hst⟩ | ⟨b, s2, e, hu, hs, hst⟩ |
      ⟨b, s2, s3, e, hu, hs, hr, hst⟩ | ⟨b, s2, s3, hu, hs, hr, hst⟩
  · rw [hst] at h; simp at h
  · rw [hst] at h; simp at h
  · rw [hst] at h; simp at h
  · have hf2 := sigStage_frame cfg px ev { s with broker := b }
    rw [hs] at hf2
    rw [(rebStage_frame cfg alpha px sched ev.time s2).2.2.2.2 hn] at hr
    simp only [Prod.mk.injEq, and_true] at hr
    subst hr
    have h4 := eqStage_frame cfg ev s2
    have hs' : s' = (eqStage cfg ev s2).1 := by rw [hst] at h; exact (congrArg Prod.fst h).symm
    rw [hs', h4.1, h4.2.1, hf2.1, hf2.2.1, hu]
    exact ⟨rfl, rfl⟩

/-- a normal step at a rebalance instant: broker update, signals stage, `rebalanceAt`, equity stage -/
theorem step_reb_decomp (cfg : SessionCfg α) (alpha : Alpha α) (px : Px α) (sched : List Int) (s s' : Session α)
    (ev : SimEvent) (hr : isReb cfg sched ev.time = true) (h : s.step cfg alpha px sched ev = (s', none)) :
    ∃ b smid s3, s.broker.update ev.time (quotesAt px ev.time) = (b, none) ∧
      sigStage cfg px ev { s with broker := b } = (smid, none) ∧ smid.broker = b ∧
      smid.allocations = s.allocations ∧
      rebalanceAt cfg alpha px ev.time smid = (s3, none) ∧
      s'.broker = s3.broker ∧ s'.allocations = s3.allocations := by
  rcases step_cases cfg alpha px sched s ev with ⟨b, e, hu, hst⟩ | ⟨b, s2, e, hu, hs, hst⟩ |
      ⟨b, s2, s3, e, hu, hs, hrb, hst⟩ | ⟨b, s2, s3, hu, hs, hrb, hst⟩
  · rw [hst] at h; simp at h
  · rw [hst] at h; simp at h
  · rw [hst] at h; simp at h
  · have hf2 := sigStage_frame cfg px ev { s with broker := b }
    rw [hs] at hf2
    unfold rebStage at hrb
    rw [if_pos hr] at hrb
    have h4 := eqStage_frame cfg ev s3
    have hs' : s' = (eqStage cfg ev s3).1 := by rw [hst] at h; exact (congrArg Prod.fst h).symm
    exact ⟨b, s2, s3, hu, hs, hf2.1, hf2.2.1, hrb, by rw [hs', h4.1], by rw [hs', h4.2.1]⟩

end StepDecomp

section Target
variable {α : Type} [Field α] [LinearOrder α] [IsStrictOrderedRing α] [FloorRing α] [NumOps α] [LawfulNumOps α]

/-- C09 (reach) for the session's sizer: filling `target − held` in full gives the target, for every asset -/
theorem reach_target (cfg : SessionCfg α) (E : α) (price : String → Option α) (held : List (String × Int))
    (uni : List String) (w : List (String × α)) (hα : (w.map (·.1)).Nodup) (tq : List (String × Int))
    (h : sizerOf cfg E price (fullWeightVector held uni w) = .ok tq) :
    ∀ a, applyOrders held (rebalanceOrders tq held) a = qtyOf tq a := by
  have hr : pcmCall held uni w (sizerOf cfg E price) = .ok ⟨fullWeightVector held uni w, rebalanceOrders tq held⟩ :=
    pcmCall_ok_iff.mpr ⟨tq, h, rfl⟩
  obtain ⟨target, hs, hall⟩ := C09_reach_exact (sizerOf_keys cfg E price) hα hr
  rw [h] at hs
  cases hs
  exact hall

end Target

/-! ### the reach theorems (statements repeated in `Props/C09Session.lean`) -/

section ReachSession
variable {α : Type} [Field α] [LinearOrder α] [IsStrictOrderedRing α] [FloorRing α] [NumOps α] [LawfulNumOps α]
open Qs.Ref

theorem reach_close (cfg : SessionCfg α) (alpha : Alpha α) (px : Px α)
    (hpos : ∀ t a p, px t a = some p → 0 < p) (s s1 : Session α) (st : RefState α) (t : Int)
    (hbr : BR cfg.fee s.broker st t) (hm : Marked px t s.broker) (hp : st.pending = [])
    (hclosed : isOpen t = false)
    (hα : ((alpha t s.signals (cfg.uni.assets t)).map (·.1)).Nodup)
    (hreb : rebalanceAt cfg alpha px t s = (s1, none)) :
    ∃ target, sizerOf cfg (equityOf s.broker) (px t) (recordedWeights cfg alpha t s) = .ok target ∧
      heldOf s1.broker = heldOf s.broker ∧
      pendingOf s1.broker = rebalanceOrders target (heldOf s.broker) ∧
      ∀ t' b2, t ≤ t' → isOpen t' = true → (∀ x ∈ heldOf s.broker, (px t' x.1).isSome) →
        s1.broker.update t' (quotesAt px t') = (b2, none) →
        (∀ a, qtyOf (heldOf b2) a = qtyOf target a) ∧
        ((heldOf b2).map (·.1)).Nodup ∧ (∀ x ∈ heldOf b2, x.2 ≠ 0) ∧
        pendingOf b2 = [] ∧ QueuesEmpty b2 ∧
        ∃ st', BR cfg.fee b2 st' t' ∧ Marked px t' b2 ∧ st'.pending = [] := by
  obtain ⟨tq, htq, hheld, _, _, _, _, hc, _⟩ := rebalanceAt_rep cfg alpha px hpos t s s1 st hbr hm hreb
  obtain ⟨hbr1, hm1⟩ := hc hclosed
  rw [hp, List.nil_append] at hbr1
  have hw1 := held_wf cfg.fee s1.broker _ t hbr1
  refine ⟨tq, htq, ?_, ?_, ?_⟩
  · rw [heldOf_sim cfg.fee s1.broker _ t hbr1, hheld]
  · rw [hw1.2.2, hheld]
  · intro t' b2 ht' ho hq hup
    obtain ⟨st', hbr2, hm2, hp2, hqty, _⟩ := update_reach cfg.fee px hpos s1.broker b2 _ t t' hbr1 ht' ho
      (by rw [← hheld]; exact hq) hup
    have hw2 := held_wf cfg.fee b2 st' t' hbr2
    refine ⟨?_, hw2.1, hw2.2.1, by rw [hw2.2.2, hp2], queuesEmpty_of_rep cfg.fee b2 st' t' hbr2 hp2,
      st', hbr2, hm2, hp2⟩
    intro a
    rw [hqty a]
    have htq' := htq
    unfold recordedWeights fixedWeight at htq'
    rw [hheld] at htq'
    exact reach_target cfg _ _ st.hold _ _ hα tq htq' a


theorem reach_open (cfg : SessionCfg α) (alpha : Alpha α) (px : Px α)
    (hpos : ∀ t a p, px t a = some p → 0 < p) (s s1 : Session α) (st : RefState α) (t : Int)
    (hbr : BR cfg.fee s.broker st t) (hm : Marked px t s.broker) (hp : st.pending = [])
    (hopen : isOpen t = true)
    (hα : ((alpha t s.signals (cfg.uni.assets t)).map (·.1)).Nodup)
    (hreb : rebalanceAt cfg alpha px t s = (s1, none)) :
    ∃ target, sizerOf cfg (equityOf s.broker) (px t) (recordedWeights cfg alpha t s) = .ok target ∧
      (∀ a, qtyOf (heldOf s1.broker) a = qtyOf target a) ∧
      ((heldOf s1.broker).map (·.1)).Nodup ∧ (∀ x ∈ heldOf s1.broker, x.2 ≠ 0) ∧
      pendingOf s1.broker = [] ∧ QueuesEmpty s1.broker ∧
      ∃ st', BR cfg.fee s1.broker st' t ∧ Marked px t s1.broker ∧ st'.pending = [] := by
  obtain ⟨tq, htq, hheld, _, _, _, _, _, ho⟩ := rebalanceAt_rep cfg alpha px hpos t s s1 st hbr hm hreb
  obtain ⟨st', hf, hbr1, hm1, hp1, _⟩ := ho hopen hp
  have hw1 := held_wf cfg.fee s1.broker st' t hbr1
  refine ⟨tq, htq, ?_, hw1.1, hw1.2.1, by rw [hw1.2.2, hp1], queuesEmpty_of_rep cfg.fee _ st' t hbr1 hp1,
    st', hbr1, hm1, hp1⟩
  intro a
  rw [heldOf_sim cfg.fee s1.broker st' t hbr1, refFillAll_qty cfg.fee px t _ st st' hf a]
  have htq' := htq
  unfold recordedWeights fixedWeight at htq'
  rw [hheld] at htq'
  exact reach_target cfg _ _ st.hold _ _ hα tq htq' a


theorem reach_run (cfg : SessionCfg α) (alpha : Alpha α) (px : Px α)
    (hpos : ∀ t a p, px t a = some p → 0 < p) (A : String → Prop)
    (hA : ∀ t a, a ∈ cfg.uni.assets t → A a)
    (hAw : ∀ t sg u, ∀ a ∈ (alpha t sg u).map (·.1), A a)
    (hα : ∀ t sg u, ((alpha t sg u).map (·.1)).Nodup)
    (s0 : Session α) (events : List SimEvent) (sched : List Int)
    (hinit : Session.init cfg = .ok (s0, events, sched))
    (pre : List SimEvent) (evc evo : SimEvent)
    (hsorted : ((pre ++ [evc, evo]).map (·.time)).Pairwise (· ≤ ·))
    (hstart : ∀ ev ∈ pre ++ [evc, evo], cfg.start ≤ ev.time)
    (hq : ∀ ev ∈ pre ++ [evc, evo], ∀ a, A a → (px ev.time a).isSome)
    (hpre : ∀ ev, pre.getLast? = some ev → isOpen ev.time = true)
    (hc : isOpen evc.time = false) (hrebc : isReb cfg sched evc.time = true)
    (ho : isOpen evo.time = true) (hrebo : isReb cfg sched evo.time = false)
    (s' : Session α) (hrun : Session.runEvents cfg alpha px sched s0 (pre ++ [evc, evo]) = (s', none)) :
    ∃ sm b smid target,
      Session.runEvents cfg alpha px sched s0 pre = (sm, none) ∧
      sm.broker.update evc.time (quotesAt px evc.time) = (b, none) ∧
      sigStage cfg px evc { sm with broker := b } = (smid, none) ∧
      sizerOf cfg (equityOf smid.broker) (px evc.time) (recordedWeights cfg alpha evc.time smid) = .ok target ∧
      s'.allocations.getLast? = some (evc.time, recordedWeights cfg alpha evc.time smid) ∧
      (∀ a, qtyOf (heldOf s'.broker) a = qtyOf target a) ∧
      ((heldOf s'.broker).map (·.1)).Nodup ∧ (∀ x ∈ heldOf s'.broker, x.2 ≠ 0) ∧
      pendingOf s'.broker = [] ∧ QueuesEmpty s'.broker := by
  -- split the run
  rw [runEvents_append] at hrun
  rcases hpre_run : Session.runEvents cfg alpha px sched s0 pre with ⟨sm, _ | e⟩
  swap
  · rw [hpre_run] at hrun; simp at hrun
  rw [hpre_run] at hrun
  simp only [Session.runEvents] at hrun
  rcases hstc : sm.step cfg alpha px sched evc with ⟨s1, _ | e⟩
  swap
  · rw [hstc] at hrun; simp at hrun
  rw [hstc] at hrun
  simp only at hrun
  rcases hsto : s1.step cfg alpha px sched evo with ⟨s2, _ | e⟩
  swap
  · rw [hsto] at hrun; simp at hrun
  rw [hsto] at hrun
  simp only [Prod.mk.injEq, and_true] at hrun
  subst hrun
  -- the state before `evc` is represented, nothing pending
  have hs_pre : (pre.map (·.time)).Pairwise (· ≤ ·) := by
    rw [List.map_append, List.pairwise_append] at hsorted
    exact hsorted.1
  have hbr0 := init_rep cfg s0 events sched hinit
  obtain ⟨stm, hbrm, hasm, hnil, hpm⟩ := run_rep cfg alpha px hpos sched A hA hAw pre s0 sm
    { cash := cfg.initialCash } cfg.start hbr0
    ⟨(by intro k hk; cases hk), (by intro k hk; cases hk)⟩ hs_pre
    (fun ev he => hstart ev (List.mem_append_left _ he))
    (fun ev he => hq ev (List.mem_append_left _ he)) hpre_run
  have hsplit := hsorted
  rw [List.map_append, List.pairwise_append] at hsplit
  obtain ⟨_, hce, hcross⟩ := hsplit
  have hco : evc.time ≤ evo.time := by
    simp only [List.map_cons, List.map_nil, List.pairwise_cons, List.mem_singleton, forall_eq] at hce
    exact hce.1
  -- the broker clock before `evc` is not after `evc`, and nothing is pending
  have htm' : (pre.getLast?.map (·.time)).getD cfg.start ≤ evc.time ∧ stm.pending = [] := by
    cases hl : pre.getLast? with
    | none =>
      have hn : pre = [] := List.getLast?_eq_none_iff.mp hl
      refine ⟨hstart evc (by simp), ?_⟩
      rw [hnil hn]
    | some evl =>
      refine ⟨?_, hpm evl hl (hpre evl hl)⟩
      simp only [Option.map_some, Option.getD_some]
      exact hcross evl.time (List.mem_map.mpr ⟨evl, List.mem_of_getLast? hl, rfl⟩) evc.time (by simp)
  obtain ⟨htm, hpend⟩ := htm'
  -- the close event
  obtain ⟨b, smid, s3, hu, hsg, hbmid, halmid, hreb, hb1, hal1⟩ :=
    step_reb_decomp cfg alpha px sched sm s1 evc hrebc hstc
  have hquoted : ∀ t, (∀ a, A a → (px t a).isSome) → ∀ x ∈ stm.hold, (px t x.1).isSome :=
    fun t h x hx => h _ (hasm.1 _ (List.mem_map.mpr ⟨x, hx, rfl⟩))
  have hret1 : (sm.broker.update evc.time (quotesAt px evc.time)).2 = none := by rw [hu]
  obtain ⟨hbrb, hmb⟩ := (update_sim cfg.fee px hpos sm.broker stm _ evc.time hbrm htm
    (hquoted evc.time (hq evc (by simp))) hret1).1 hc
  rw [hu] at hbrb hmb
  simp only at hbrb hmb
  rw [← hbmid] at hbrb hmb
  obtain ⟨target, htgt, hheld1, _, hnext⟩ := reach_close cfg alpha px hpos smid s3 stm evc.time hbrb hmb
    hpend hc (hα _ _ _) hreb
  -- the open event
  obtain ⟨hupo, halo⟩ := step_broker_idle cfg alpha px sched s1 s2 evo hrebo hsto
  rw [hb1] at hupo
  have hheldmid : heldOf smid.broker = stm.hold := heldOf_sim cfg.fee smid.broker stm evc.time hbrb
  obtain ⟨h1, h2, h3, h4, h5, _⟩ := hnext evo.time s2.broker hco ho
    (by rw [hheldmid]; exact hquoted evo.time (hq evo (by simp))) hupo
  refine ⟨sm, b, smid, target, rfl, hu, hsg, htgt, ?_, h1, h2, h3, h4, h5⟩
  have hal3 := (rebalanceAt_frame cfg alpha px evc.time smid).1
  rw [hreb] at hal3
  rw [halo, hal1, hal3, List.getLast?_append_of_ne_nil _ (by simp), List.getLast?_singleton]


end ReachSession

end Qs.Lift
