import QsProofs.Inst
import QsModel.Position
import Mathlib.Algebra.BigOperators.Group.List.Basic
import Mathlib.Algebra.Order.BigOperators.Group.List

/-!
# Helper lemmas about `Qs.Position` (used by property C03)

* `Position.applyFills`, `Position.applyMarks`, `Position.reached` : the position object obtained by
  opening with the first fill (`Position.openFrom`), applying the later fills with
  `Position.transact` (keeping the `.1` component) and then any number of re-marks
  (`Position.updatePrice`, `.1` component).
* `ValidRun` : the quantifier domain (non-zero integer quantities, positive prices, non-decreasing
  times); `transact_noerr`, `applyFills_noerr`, `applyMarks_noerr` : inside it no call returns an error.
* `Inv` : the reachability invariant linking the six accumulators of a `Position` to its fills, with
  `inv_openFrom`, `inv_transact`, `inv_applyFills`, `inv_updatePrice`, `inv_reached`.
* `totalPnl_eq` : the algebraic core of C03 on one `Position` (all three sign cases of `net`).
-/

set_option linter.unusedSectionVars false

namespace Qs
open NumOps Num

/-! ## Runs (polymorphic, same class context as the model) -/

section Defs
variable {α : Type} [Add α] [Sub α] [Mul α] [Div α] [Neg α] [NumOps α]

namespace Position

/-- apply fills left to right with `Position.transact`, keeping the position component -/
def applyFills (P : Position α) (fs : List (Txn α)) : Position α :=
  fs.foldl (fun p t => (p.transact t).1) P

/-- apply re-marks `(price, time)` left to right with `Position.updatePrice`, keeping the position -/
def applyMarks (P : Position α) (ms : List (α × Int)) : Position α :=
  ms.foldl (fun p m => (p.updatePrice m.1 m.2).1) P

/-- the position reached by: open with `f`, transact `fs`, then re-mark with `ms` -/
def reached (f : Txn α) (fs : List (Txn α)) (ms : List (α × Int)) : Position α :=
  applyMarks (applyFills (openFrom f) fs) ms

@[simp] theorem applyFills_nil (P : Position α) : applyFills P [] = P := rfl
@[simp] theorem applyFills_cons (P : Position α) (t : Txn α) (ts : List (Txn α)) :
    applyFills P (t :: ts) = applyFills (P.transact t).1 ts := rfl
@[simp] theorem applyMarks_nil (P : Position α) : applyMarks P [] = P := rfl
@[simp] theorem applyMarks_cons (P : Position α) (m : α × Int) (ms : List (α × Int)) :
    applyMarks P (m :: ms) = applyMarks (P.updatePrice m.1 m.2).1 ms := rfl

theorem applyFills_append (P : Position α) (l₁ l₂ : List (Txn α)) :
    applyFills P (l₁ ++ l₂) = applyFills (applyFills P l₁) l₂ := by
  simp [applyFills, List.foldl_append]

theorem applyMarks_append (P : Position α) (l₁ l₂ : List (α × Int)) :
    applyMarks P (l₁ ++ l₂) = applyMarks (applyMarks P l₁) l₂ := by
  simp [applyMarks, List.foldl_append]

/-! ### `updatePrice` touches only `price` and `clock` (no law needed) -/

theorem updatePrice_fst (P : Position α) (p : α) (t : Int) :
    ∃ pr c, (P.updatePrice p t).1 = { P with price := pr, clock := c } := by
  unfold updatePrice
  split
  · exact ⟨P.price, P.clock, rfl⟩
  · dsimp only
    split
    · exact ⟨P.price, t, rfl⟩
    · exact ⟨p, t, rfl⟩

/-- the two kinds of outcome of `updatePrice`: refused (`ValueError`; at most the clock moved) or
accepted (clock and price set). -/
theorem updatePrice_cases (P : Position α) (p : α) (t : Int) :
    (∃ c, P.updatePrice p t = ({ P with clock := c }, some Err.value)) ∨
    P.updatePrice p t = ({ P with price := p, clock := t }, none) := by
  unfold updatePrice
  split
  · exact Or.inl ⟨P.clock, rfl⟩
  · dsimp only
    split
    · exact Or.inl ⟨t, rfl⟩
    · exact Or.inr rfl

/-- The three kinds of outcome of `transact`:
* a zero quantity is ignored entirely;
* a refused transaction (the price / time validation of `updatePrice` failed) changes at most the
  `clock` — the running quantities, averages and commissions are **not** touched (fix F4: validation
  comes first);
* an accepted transaction applies `transactBuy` / `transactSell` and sets price and clock. -/
theorem transact_cases (P : Position α) (t : Txn α) :
    (t.qty = 0 ∧ P.transact t = (P, none)) ∨
    (t.qty ≠ 0 ∧ ∃ c, P.transact t = ({ P with clock := c }, some Err.value)) ∨
    (t.qty ≠ 0 ∧ P.transact t =
      ({ (if 0 < t.qty then P.transactBuy (ofInt t.qty) t.price t.commission
          else P.transactSell (ofInt (-t.qty)) t.price t.commission) with
            price := t.price, clock := t.time }, none)) := by
  unfold transact
  by_cases h0 : t.qty = 0
  · exact Or.inl ⟨h0, by rw [if_pos h0]⟩
  · rw [if_neg h0]
    rcases updatePrice_cases P t.price t.time with ⟨c, hu⟩ | hu
    · exact Or.inr (Or.inl ⟨h0, c, by rw [hu]⟩)
    · refine Or.inr (Or.inr ⟨h0, ?_⟩)
      rw [hu]
      dsimp only
      split <;> rfl

/-- a refused `transact` changes at most the clock -/
theorem transact_refused (P : Position α) (t : Txn α) (e : Err) (h : (P.transact t).2 = some e) :
    ∃ c, (P.transact t).1 = { P with clock := c } := by
  rcases transact_cases P t with ⟨_, h1⟩ | ⟨_, c, h1⟩ | ⟨_, h1⟩
  · rw [h1] at h; cases h
  · exact ⟨c, by rw [h1]⟩
  · rw [h1] at h; cases h

/-- an accepted `transact` of a non-zero quantity applies `transactBuy` / `transactSell` and sets price
and clock to the trade's -/
theorem transact_accepted (P : Position α) (t : Txn α) (hq : t.qty ≠ 0) (h : (P.transact t).2 = none) :
    (P.transact t).1 =
      { (if 0 < t.qty then P.transactBuy (ofInt t.qty) t.price t.commission
         else P.transactSell (ofInt (-t.qty)) t.price t.commission) with
           price := t.price, clock := t.time } := by
  rcases transact_cases P t with ⟨h0, _⟩ | ⟨_, c, h1⟩ | ⟨_, h1⟩
  · exact absurd h0 hq
  · rw [h1] at h; cases h
  · rw [h1]

/-- what `transact` does to the accumulators: nothing for a zero quantity or a refused transaction,
`transactBuy` for an accepted buy, `transactSell` for an accepted sell — up to `price` and `clock`. -/
theorem transact_fst (P : Position α) (t : Txn α) :
    ∃ pr c, (P.transact t).1 =
      { (if t.qty = 0 ∨ (P.transact t).2 ≠ none then P
         else if 0 < t.qty then P.transactBuy (ofInt t.qty) t.price t.commission
         else P.transactSell (ofInt (-t.qty)) t.price t.commission) with price := pr, clock := c } := by
  rcases transact_cases P t with ⟨h0, h1⟩ | ⟨_, c, h1⟩ | ⟨h0, h1⟩
  · rw [if_pos (Or.inl h0), h1]
    exact ⟨P.price, P.clock, rfl⟩
  · rw [if_pos (Or.inr (by rw [h1]; simp)), h1]
    exact ⟨P.price, c, rfl⟩
  · rw [if_neg (by rw [h1]; simp [h0]), h1]
    exact ⟨t.price, t.time, rfl⟩

/-- the fills of `fs` that `transact` accepted (returned no error for) when applied left to right
starting from `P`; a refused fill is skipped — it left the accumulators untouched. -/
def accepted (P : Position α) : List (Txn α) → List (Txn α)
  | [] => []
  | t :: ts =>
    if (P.transact t).2.isNone then t :: accepted (P.transact t).1 ts
    else accepted (P.transact t).1 ts

@[simp] theorem accepted_nil (P : Position α) : accepted P [] = [] := rfl

theorem accepted_cons_ok (P : Position α) (t : Txn α) (ts : List (Txn α)) (h : (P.transact t).2 = none) :
    accepted P (t :: ts) = t :: accepted (P.transact t).1 ts := by
  simp [accepted, h]

theorem accepted_cons_err (P : Position α) (t : Txn α) (ts : List (Txn α)) (e : Err)
    (h : (P.transact t).2 = some e) :
    accepted P (t :: ts) = accepted (P.transact t).1 ts := by
  simp [accepted, h]

/-- the accepted fills are a sublist of the fills -/
theorem accepted_sublist (P : Position α) (fs : List (Txn α)) : (accepted P fs).Sublist fs := by
  induction fs generalizing P with
  | nil => simp
  | cons t ts ih =>
    unfold accepted
    split
    · exact (ih _).cons_cons t
    · exact (ih _).cons t

/-- if no call of the run returns an error, every fill is accepted -/
theorem accepted_eq_self (P : Position α) (fs : List (Txn α))
    (h : ∀ pre t post, fs = pre ++ t :: post → ((P.applyFills pre).transact t).2 = none) :
    accepted P fs = fs := by
  induction fs generalizing P with
  | nil => rfl
  | cons t ts ih =>
    have h0 : (P.transact t).2 = none := h [] t ts rfl
    rw [accepted_cons_ok P t ts h0, ih]
    intro pre u post e
    have := h (t :: pre) u post (by rw [e]; rfl)
    simpa using this

end Position

/-- the buy fills of a list -/
def buys (fs : List (Txn α)) : List (Txn α) := fs.filter (fun t => decide (0 < t.qty))
/-- the sell fills of a list -/
def sells (fs : List (Txn α)) : List (Txn α) := fs.filter (fun t => decide (t.qty < 0))

end Defs

/-! ## Carrier of the theorems -/

section Carrier
variable {α : Type} [Field α] [LinearOrder α] [IsStrictOrderedRing α] [FloorRing α] [NumOps α] [LawfulNumOps α]

/-- Σ price × signed quantity -/
def consid (fs : List (Txn α)) : α := (fs.map (fun t => t.price * (t.qty : α))).sum
/-- Σ commission -/
def commis (fs : List (Txn α)) : α := (fs.map (fun t => t.commission)).sum
/-- Σ signed quantity -/
def qtySum (fs : List (Txn α)) : α := (fs.map (fun t => (t.qty : α))).sum

/-- The quantifier domain of C03: opening fill `f`, later fills `fs`, re-marks `ms`. -/
structure ValidRun (f : Txn α) (fs : List (Txn α)) (ms : List (α × Int)) : Prop where
  qty_ne : ∀ t ∈ f :: fs, t.qty ≠ 0
  price_pos : ∀ t ∈ f :: fs, 0 < t.price
  mark_pos : ∀ m ∈ ms, 0 < m.1
  times : (((f :: fs).map (fun t => t.time)) ++ ms.map (fun m => m.2)).Pairwise (· ≤ ·)

/-! ### sums over buys / sells -/

theorem buys_append (l₁ l₂ : List (Txn α)) : buys (l₁ ++ l₂) = buys l₁ ++ buys l₂ := by
  simp [buys]
theorem sells_append (l₁ l₂ : List (Txn α)) : sells (l₁ ++ l₂) = sells l₁ ++ sells l₂ := by
  simp [sells]

theorem buys_single_pos {t : Txn α} (h : 0 < t.qty) : buys [t] = [t] := by simp [buys, h]
theorem sells_single_pos {t : Txn α} (h : 0 < t.qty) : sells [t] = [] := by
  simp [sells]; omega
theorem buys_single_neg {t : Txn α} (h : t.qty < 0) : buys [t] = [] := by
  simp [buys]; omega
theorem sells_single_neg {t : Txn α} (h : t.qty < 0) : sells [t] = [t] := by simp [sells, h]

theorem consid_append (l₁ l₂ : List (Txn α)) : consid (l₁ ++ l₂) = consid l₁ + consid l₂ := by
  simp [consid]
theorem commis_append (l₁ l₂ : List (Txn α)) : commis (l₁ ++ l₂) = commis l₁ + commis l₂ := by
  simp [commis]
theorem qtySum_append (l₁ l₂ : List (Txn α)) : qtySum (l₁ ++ l₂) = qtySum l₁ + qtySum l₂ := by
  simp [qtySum]

@[simp] theorem consid_nil : consid ([] : List (Txn α)) = 0 := rfl
@[simp] theorem commis_nil : commis ([] : List (Txn α)) = 0 := rfl
@[simp] theorem qtySum_nil : qtySum ([] : List (Txn α)) = 0 := rfl
@[simp] theorem consid_single (t : Txn α) : consid [t] = t.price * (t.qty : α) := by simp [consid]
@[simp] theorem commis_single (t : Txn α) : commis [t] = t.commission := by simp [commis]
@[simp] theorem qtySum_single (t : Txn α) : qtySum [t] = (t.qty : α) := by simp [qtySum]

/-- every fill with non-zero quantity is a buy or a sell: the sums split -/
theorem consid_split (fs : List (Txn α)) (h : ∀ t ∈ fs, t.qty ≠ 0) :
    consid fs = consid (buys fs) + consid (sells fs) := by
  induction fs with
  | nil => simp [buys, sells]
  | cons t ts ih =>
    have ih := ih (fun u hu => h u (List.mem_cons_of_mem _ hu))
    have ht := h t (List.mem_cons_self ..)
    have e : t :: ts = [t] ++ ts := rfl
    rw [e, buys_append, sells_append, consid_append, consid_append, consid_append, ih]
    rcases lt_or_gt_of_ne ht with hn | hp
    · rw [buys_single_neg hn, sells_single_neg hn]; simp; ring
    · rw [buys_single_pos hp, sells_single_pos hp]; simp; ring

theorem commis_split (fs : List (Txn α)) (h : ∀ t ∈ fs, t.qty ≠ 0) :
    commis fs = commis (buys fs) + commis (sells fs) := by
  induction fs with
  | nil => simp [buys, sells]
  | cons t ts ih =>
    have ih := ih (fun u hu => h u (List.mem_cons_of_mem _ hu))
    have ht := h t (List.mem_cons_self ..)
    have e : t :: ts = [t] ++ ts := rfl
    rw [e, buys_append, sells_append, commis_append, commis_append, commis_append, ih]
    rcases lt_or_gt_of_ne ht with hn | hp
    · rw [buys_single_neg hn, sells_single_neg hn]; simp; ring
    · rw [buys_single_pos hp, sells_single_pos hp]; simp; ring

theorem qtySum_split (fs : List (Txn α)) (h : ∀ t ∈ fs, t.qty ≠ 0) :
    qtySum fs = qtySum (buys fs) + qtySum (sells fs) := by
  induction fs with
  | nil => simp [buys, sells]
  | cons t ts ih =>
    have ih := ih (fun u hu => h u (List.mem_cons_of_mem _ hu))
    have ht := h t (List.mem_cons_self ..)
    have e : t :: ts = [t] ++ ts := rfl
    rw [e, buys_append, sells_append, qtySum_append, qtySum_append, qtySum_append, ih]
    rcases lt_or_gt_of_ne ht with hn | hp
    · rw [buys_single_neg hn, sells_single_neg hn]; simp; ring
    · rw [buys_single_pos hp, sells_single_pos hp]; simp; ring

/-- `Σ sells price × |qty| = − Σ sells price × qty` -/
theorem sells_abs_consid (fs : List (Txn α)) :
    ((sells fs).map (fun t => t.price * |(t.qty : α)|)).sum = - consid (sells fs) := by
  induction fs with
  | nil => simp [sells]
  | cons t ts ih =>
    have e : t :: ts = [t] ++ ts := rfl
    rw [e, sells_append, consid_append, List.map_append, List.sum_append, ih]
    by_cases hn : t.qty < 0
    · have : (t.qty : α) < 0 := by exact_mod_cast hn
      rw [sells_single_neg hn]; simp [abs_of_neg this]; ring
    · have : sells [t] = [] := by simp [sells, hn]
      rw [this]; simp

/-- `Σ sells |qty| = − Σ sells qty` -/
theorem sells_abs_qty (fs : List (Txn α)) :
    ((sells fs).map (fun t => |(t.qty : α)|)).sum = - qtySum (sells fs) := by
  induction fs with
  | nil => simp [sells]
  | cons t ts ih =>
    have e : t :: ts = [t] ++ ts := rfl
    rw [e, sells_append, qtySum_append, List.map_append, List.sum_append, ih]
    by_cases hn : t.qty < 0
    · have : (t.qty : α) < 0 := by exact_mod_cast hn
      rw [sells_single_neg hn]; simp [abs_of_neg this]; ring
    · have : sells [t] = [] := by simp [sells, hn]
      rw [this]; simp

/-! ## The reachability invariant -/

/-- What the six accumulators of a reachable `Position` are, in terms of the fills made so far. -/
structure Inv (P : Position α) (fs : List (Txn α)) : Prop where
  buyCons : P.avgB * P.buyQ = consid (buys fs)
  buyCom : P.comB = commis (buys fs)
  buyQty : P.buyQ = qtySum (buys fs)
  sellCons : P.avgS * P.sellQ = - consid (sells fs)
  sellCom : P.comS = commis (sells fs)
  sellQty : P.sellQ = - qtySum (sells fs)
  buyQ_nonneg : 0 ≤ P.buyQ
  sellQ_nonneg : 0 ≤ P.sellQ
  buy_zero : P.buyQ = 0 → P.comB = 0
  sell_zero : P.sellQ = 0 → P.comS = 0 ∧ P.avgS * P.sellQ = 0

/-- the invariant does not mention `price` and `clock` -/
theorem Inv.set_price_clock {P : Position α} {fs : List (Txn α)} (h : Inv P fs) (pr : α) (c : Int) :
    Inv { P with price := pr, clock := c } fs :=
  ⟨h.1, h.2, h.3, h.4, h.5, h.6, h.7, h.8, h.9, h.10⟩

theorem inv_openFrom (f : Txn α) (hq : f.qty ≠ 0) : Inv (Position.openFrom f) [f] := by
  unfold Position.openFrom
  rcases lt_or_gt_of_ne hq with hn | hp
  · have h1 : ¬ (0 < f.qty) := by omega
    have h2 : (0 : α) < -(f.qty : α) := by
      have : (f.qty : α) < 0 := by exact_mod_cast hn
      linarith
    rw [if_neg h1]
    constructor <;> simp [buys_single_neg hn, sells_single_neg hn]
    · omega
    · intro h; exact absurd h hq
  · have h2 : (0 : α) < (f.qty : α) := by exact_mod_cast hp
    rw [if_pos hp]
    constructor <;> simp [buys_single_pos hp, sells_single_pos hp]
    · omega
    · intro h; exact absurd h hq

theorem inv_transactBuy {P : Position α} {fs : List (Txn α)} (h : Inv P fs) (t : Txn α) (hp : 0 < t.qty) :
    Inv (P.transactBuy (ofInt t.qty) t.price t.commission) (fs ++ [t]) := by
  have hq : (0 : α) < (t.qty : α) := by exact_mod_cast hp
  have hB := h.buyQ_nonneg
  have hne : P.buyQ + (t.qty : α) ≠ 0 := by positivity
  have eb : buys (fs ++ [t]) = buys fs ++ [t] := by rw [buys_append, buys_single_pos hp]
  have es : sells (fs ++ [t]) = sells fs := by rw [sells_append, sells_single_pos hp, List.append_nil]
  unfold Position.transactBuy
  refine ⟨?_, ?_, ?_, ?_, ?_, ?_, ?_, h.sellQ_nonneg, ?_, h.sell_zero⟩
  · simp only [ofInt_eq, eb, consid_append, consid_single]
    rw [div_mul_cancel₀ _ hne, h.buyCons]; ring
  · simp only [eb, commis_append, commis_single]; rw [h.buyCom]
  · simp only [ofInt_eq, eb, qtySum_append, qtySum_single]; rw [h.buyQty]
  · rw [es]; exact h.sellCons
  · rw [es]; exact h.sellCom
  · rw [es]; exact h.sellQty
  · simp only [ofInt_eq]; positivity
  · simp only [ofInt_eq]; intro h0; exact absurd h0 hne

theorem inv_transactSell {P : Position α} {fs : List (Txn α)} (h : Inv P fs) (t : Txn α) (hn : t.qty < 0) :
    Inv (P.transactSell (ofInt (-t.qty)) t.price t.commission) (fs ++ [t]) := by
  have hq : (0 : α) < -(t.qty : α) := by
    have : (t.qty : α) < 0 := by exact_mod_cast hn
    linarith
  have hS := h.sellQ_nonneg
  have hne : P.sellQ + -(t.qty : α) ≠ 0 := by positivity
  have eb : buys (fs ++ [t]) = buys fs := by rw [buys_append, buys_single_neg hn, List.append_nil]
  have es : sells (fs ++ [t]) = sells fs ++ [t] := by rw [sells_append, sells_single_neg hn]
  unfold Position.transactSell
  refine ⟨?_, ?_, ?_, ?_, ?_, ?_, h.buyQ_nonneg, ?_, h.buy_zero, ?_⟩
  · rw [eb]; exact h.buyCons
  · rw [eb]; exact h.buyCom
  · rw [eb]; exact h.buyQty
  · simp only [ofInt_eq, es, consid_append, consid_single, Int.cast_neg]
    rw [div_mul_cancel₀ _ hne, h.sellCons]; ring
  · simp only [es, commis_append, commis_single]; rw [h.sellCom]
  · simp only [ofInt_eq, es, qtySum_append, qtySum_single, Int.cast_neg]; rw [h.sellQty]; ring
  · simp only [ofInt_eq, Int.cast_neg]; positivity
  · simp only [ofInt_eq, Int.cast_neg]; intro h0; exact absurd h0 hne

/-- an accepted `transact` step extends the invariant by the fill -/
theorem inv_transact_ok {P : Position α} {fs : List (Txn α)} (h : Inv P fs) (t : Txn α) (hq : t.qty ≠ 0)
    (hok : (P.transact t).2 = none) : Inv (P.transact t).1 (fs ++ [t]) := by
  rw [Position.transact_accepted P t hq hok]
  apply Inv.set_price_clock
  rcases lt_or_gt_of_ne hq with hn | hp
  · rw [if_neg (by omega)]; exact inv_transactSell h t hn
  · rw [if_pos hp]; exact inv_transactBuy h t hp

/-- a refused `transact` step keeps the invariant for the *same* fills: the refused fill is not
counted, because validation comes before the accumulators are touched -/
theorem inv_transact_err {P : Position α} {fs : List (Txn α)} (h : Inv P fs) (t : Txn α) (e : Err)
    (herr : (P.transact t).2 = some e) : Inv (P.transact t).1 fs := by
  obtain ⟨c, hc⟩ := Position.transact_refused P t e herr
  rw [hc]
  exact h.set_price_clock P.price c

/-- one `transact` step preserves the invariant, the fill being counted iff it was accepted -/
theorem inv_transact {P : Position α} {fs : List (Txn α)} (h : Inv P fs) (t : Txn α) (hq : t.qty ≠ 0) :
    Inv (P.transact t).1 (fs ++ Position.accepted P [t]) := by
  rcases hr : (P.transact t).2 with _ | e
  · rw [Position.accepted_cons_ok P t [] hr]; exact inv_transact_ok h t hq hr
  · rw [Position.accepted_cons_err P t [] e hr]; simpa using inv_transact_err h t e hr

theorem inv_updatePrice {P : Position α} {fs : List (Txn α)} (h : Inv P fs) (p : α) (t : Int) :
    Inv (P.updatePrice p t).1 fs := by
  obtain ⟨pr, c, e⟩ := Position.updatePrice_fst P p t
  rw [e]; exact h.set_price_clock pr c

theorem inv_applyFills {P : Position α} {done : List (Txn α)} (h : Inv P done) (fs : List (Txn α))
    (hq : ∀ t ∈ fs, t.qty ≠ 0) : Inv (P.applyFills fs) (done ++ Position.accepted P fs) := by
  induction fs generalizing P done with
  | nil => simpa using h
  | cons t ts ih =>
    have hq' : ∀ u ∈ ts, u.qty ≠ 0 := fun u hu => hq u (List.mem_cons_of_mem _ hu)
    rw [Position.applyFills_cons]
    rcases hr : (P.transact t).2 with _ | e
    · rw [Position.accepted_cons_ok P t ts hr]
      have := ih (inv_transact_ok h t (hq t (List.mem_cons_self ..)) hr) hq'
      simpa [List.append_assoc] using this
    · rw [Position.accepted_cons_err P t ts e hr]
      exact ih (inv_transact_err h t e hr) hq'

theorem inv_applyMarks {P : Position α} {done : List (Txn α)} (h : Inv P done) (ms : List (α × Int)) :
    Inv (P.applyMarks ms) done := by
  induction ms generalizing P with
  | nil => simpa using h
  | cons m ms ih => exact ih (inv_updatePrice h m.1 m.2)

/-- every position reached from fills with non-zero quantities satisfies the invariant for the opening
fill followed by the accepted later fills -/
theorem inv_reached (f : Txn α) (fs : List (Txn α)) (ms : List (α × Int))
    (hq : ∀ t ∈ f :: fs, t.qty ≠ 0) :
    Inv (Position.reached f fs ms) (f :: Position.accepted (Position.openFrom f) fs) := by
  unfold Position.reached
  apply inv_applyMarks
  have := inv_applyFills (inv_openFrom f (hq f (List.mem_cons_self ..))) fs
    (fun u hu => hq u (List.mem_cons_of_mem _ hu))
  simpa using this

/-! ## The algebraic core -/

/-- Total P&L of any `Position` whose accumulators satisfy the four side facts equals market value
minus net consideration minus commissions — long, short and flat. -/
theorem totalPnl_eq (P : Position α) (hB : 0 ≤ P.buyQ) (hS : 0 ≤ P.sellQ)
    (hcb : P.buyQ = 0 → P.comB = 0) (hcs : P.sellQ = 0 → P.comS = 0) :
    P.totalPnl = P.price * P.net - (P.avgB * P.buyQ - P.avgS * P.sellQ) - (P.comB + P.comS) := by
  unfold Position.totalPnl Position.unrealised Position.realised Position.avgPrice
    Position.netInclCommission Position.netTotal Position.commission Position.totalSold
    Position.totalBought
  simp only [beq_eq, lt_eq, zero_eq, decide_eq_true_eq]
  unfold Position.net
  rcases lt_trichotomy (P.buyQ - P.sellQ) 0 with hlt | heq | hgt
  · -- short
    have hSpos : 0 < P.sellQ := by linarith
    have hSne : P.sellQ ≠ 0 := hSpos.ne'
    rw [if_neg hlt.ne, if_neg hlt.ne, if_neg (not_lt.mpr hlt.le), if_neg (not_lt.mpr hlt.le)]
    by_cases hb0 : P.buyQ = 0
    · rw [if_pos hb0, hcb hb0, hb0]; field_simp; ring
    · rw [if_neg hb0]; field_simp; ring
  · -- flat
    rw [if_pos heq, if_pos heq, heq]; ring
  · -- long
    have hBpos : 0 < P.buyQ := by linarith
    have hBne : P.buyQ ≠ 0 := hBpos.ne'
    rw [if_neg hgt.ne', if_neg hgt.ne', if_pos hgt, if_pos hgt]
    by_cases hs0 : P.sellQ = 0
    · rw [if_pos hs0, hcs hs0, hs0]; field_simp; ring
    · rw [if_neg hs0]; field_simp; ring

/-- `avgPrice` of a long position -/
theorem avgPrice_long (P : Position α) (h : 0 < P.net) :
    P.avgPrice = (P.avgB * P.buyQ + P.comB) / P.buyQ := by
  unfold Position.avgPrice
  simp only [beq_eq, lt_eq, zero_eq, decide_eq_true_eq]
  rw [if_neg h.ne', if_pos h]

/-- `avgPrice` of a short position -/
theorem avgPrice_short (P : Position α) (h : P.net < 0) :
    P.avgPrice = (P.avgS * P.sellQ - P.comS) / P.sellQ := by
  unfold Position.avgPrice
  simp only [beq_eq, lt_eq, zero_eq, decide_eq_true_eq]
  rw [if_neg h.ne, if_neg (not_lt.mpr h.le)]

/-! ## No errors inside the domain -/

theorem updatePrice_noerr (P : Position α) (p : α) (t : Int) (hc : P.clock ≤ t) (hp : 0 < p) :
    (P.updatePrice p t).2 = none ∧ (P.updatePrice p t).1.clock = t
      ∧ (P.updatePrice p t).1.price = p := by
  unfold Position.updatePrice
  rw [if_neg (by omega)]
  simp only [le_eq, zero_eq, decide_eq_true_eq]
  rw [if_neg (not_le.mpr hp)]
  exact ⟨rfl, rfl, rfl⟩

theorem transactBuy_clock (P : Position α) (q p c : α) : (P.transactBuy q p c).clock = P.clock := rfl
theorem transactSell_clock (P : Position α) (q p c : α) : (P.transactSell q p c).clock = P.clock := rfl

theorem transact_noerr (P : Position α) (t : Txn α) (hc : P.clock ≤ t.time) (hq : t.qty ≠ 0)
    (hp : 0 < t.price) :
    (P.transact t).2 = none ∧ (P.transact t).1.clock = t.time ∧ (P.transact t).1.price = t.price := by
  obtain ⟨h1, _, _⟩ := updatePrice_noerr P t.price t.time hc hp
  rcases Position.updatePrice_cases P t.price t.time with ⟨c, hu⟩ | hu
  · rw [hu] at h1; cases h1
  · unfold Position.transact
    rw [if_neg hq, hu]
    dsimp only
    split <;> exact ⟨rfl, rfl, rfl⟩

theorem updatePrice_clock_le (P : Position α) (p : α) (t u : Int) (hc : P.clock ≤ u) (ht : t ≤ u) :
    (P.updatePrice p t).1.clock ≤ u := by
  unfold Position.updatePrice
  split
  · exact hc
  · dsimp only
    split
    · exact ht
    · exact ht

/-- the clock never runs ahead of a time that bounds the current clock and all applied fills -/
theorem transact_clock_le (P : Position α) (t : Txn α) (u : Int) (hc : P.clock ≤ u) (ht : t.time ≤ u) :
    (P.transact t).1.clock ≤ u := by
  unfold Position.transact
  split
  · exact hc
  · have h := updatePrice_clock_le P t.price t.time u hc ht
    rcases hu : P.updatePrice t.price t.time with ⟨Q, _ | e⟩
    · exact ht
    · rw [hu] at h; exact h

theorem applyFills_clock_le (P : Position α) (fs : List (Txn α)) (u : Int) (hc : P.clock ≤ u)
    (ht : ∀ t ∈ fs, t.time ≤ u) : (P.applyFills fs).clock ≤ u := by
  induction fs generalizing P with
  | nil => simpa using hc
  | cons t ts ih =>
    rw [Position.applyFills_cons]
    exact ih _ (transact_clock_le P t u hc (ht t (List.mem_cons_self ..)))
      (fun v hv => ht v (List.mem_cons_of_mem _ hv))

/-- every `transact` call of a run inside the domain returns no error -/
theorem applyFills_noerr (P : Position α) (fs : List (Txn α))
    (hq : ∀ t ∈ fs, t.qty ≠ 0) (hp : ∀ t ∈ fs, 0 < t.price)
    (hc : ∀ t ∈ fs, P.clock ≤ t.time) (hpw : (fs.map (fun t => t.time)).Pairwise (· ≤ ·)) :
    ∀ pre t post, fs = pre ++ t :: post → ((P.applyFills pre).transact t).2 = none := by
  intro pre
  induction pre generalizing P fs with
  | nil =>
    intro t post e
    subst e
    exact (transact_noerr P t (hc t (List.mem_cons_self ..)) (hq t (List.mem_cons_self ..))
      (hp t (List.mem_cons_self ..))).1
  | cons a pre ih =>
    intro t post e
    subst e
    rw [Position.applyFills_cons]
    have ha := transact_noerr P a (hc a (List.mem_cons_self ..)) (hq a (List.mem_cons_self ..))
      (hp a (List.mem_cons_self ..))
    simp only [List.cons_append, List.map_cons, List.pairwise_cons] at hpw
    refine ih (P.transact a).1 (pre ++ t :: post)
      (fun u hu => hq u (List.mem_cons_of_mem _ hu)) (fun u hu => hp u (List.mem_cons_of_mem _ hu))
      ?_ hpw.2 t post rfl
    intro u hu
    rw [ha.2.1]
    exact hpw.1 _ (List.mem_map_of_mem hu)

/-- every `updatePrice` call of a run of re-marks inside the domain returns no error -/
theorem applyMarks_noerr (P : Position α) (ms : List (α × Int))
    (hp : ∀ m ∈ ms, 0 < m.1) (hc : ∀ m ∈ ms, P.clock ≤ m.2)
    (hpw : (ms.map (fun m => m.2)).Pairwise (· ≤ ·)) :
    ∀ pre m post, ms = pre ++ m :: post →
      ((P.applyMarks pre).updatePrice m.1 m.2).2 = none := by
  intro pre
  induction pre generalizing P ms with
  | nil =>
    intro m post e
    subst e
    exact (updatePrice_noerr P m.1 m.2 (hc m (List.mem_cons_self ..)) (hp m (List.mem_cons_self ..))).1
  | cons a pre ih =>
    intro m post e
    subst e
    rw [Position.applyMarks_cons]
    have ha := updatePrice_noerr P a.1 a.2 (hc a (List.mem_cons_self ..)) (hp a (List.mem_cons_self ..))
    simp only [List.cons_append, List.map_cons, List.pairwise_cons] at hpw
    refine ih (P.updatePrice a.1 a.2).1 (pre ++ m :: post)
      (fun u hu => hp u (List.mem_cons_of_mem _ hu)) ?_ hpw.2 m post rfl
    intro u hu
    rw [ha.2.1]
    exact hpw.1 _ (List.mem_map_of_mem hu)

end Carrier
end Qs
