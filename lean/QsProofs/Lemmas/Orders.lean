import QsProofs.Inst
import QsModel.Broker
import Mathlib.Data.List.Forall2
import Mathlib.Data.List.Perm.Basic
import Mathlib.Data.List.Nodup

/-!
# Helper lemmas on order queues, `update`, `executeOrder` (used by C04 and C05)
-/

set_option linter.unusedSectionVars false

namespace Qs
open NumOps Num

/-! ## Exchange hours -/

theorem isOpen_iff (t : Int) :
    isOpen t = true ↔ (dayOf t + 3) % 7 ≤ 4 ∧ 52200 ≤ t % 86400 ∧ t % 86400 < 75600 := by
  simp only [isOpen, weekday, todOf, OPEN, CLOSE, Bool.and_eq_true, and_assoc]
  constructor
  · rintro ⟨a, b, c⟩; exact ⟨of_decide_eq_true a, of_decide_eq_true b, of_decide_eq_true c⟩
  · rintro ⟨a, b, c⟩; exact ⟨decide_eq_true a, decide_eq_true b, decide_eq_true c⟩

/-! ## `sellsFirst` -/

theorem sellsFirst_perm {β : Type} (p : β → Bool) (l : List β) : (sellsFirst p l).Perm l := by
  unfold sellsFirst
  exact List.filter_append_perm p l

theorem sellsFirst_filter {β : Type} (p s : β → Bool) (l : List β) :
    (sellsFirst s l).filter p = sellsFirst s (l.filter p) := by
  simp only [sellsFirst, List.filter_append, List.filter_filter]
  congr 1
  · apply List.filter_congr; intro x _; exact Bool.and_comm _ _
  · apply List.filter_congr; intro x _; exact Bool.and_comm _ _

theorem sellsFirst_map {β γ : Type} (f : β → γ) (s : γ → Bool) (l : List β) :
    (sellsFirst (fun x => s (f x)) l).map f = sellsFirst s (l.map f) := by
  simp only [sellsFirst, List.map_append, List.filter_map, Function.comp_def]

section
variable {α : Type} [Add α] [Sub α] [Mul α] [Div α] [Neg α] [NumOps α]

/-! ## Observations of a broker state -/

/-- portfolio ids are pairwise distinct (an invariant of `createPortfolio`) -/
def WF (b : Broker α) : Prop := (b.entries.map (fun e => e.pf.id)).Nodup

/-- the order a transaction was built from -/
def Txn.order (t : Txn α) : Order := ⟨t.orderId, t.asset, t.qty⟩

/-- the queue of portfolio `pid` (`[]` if there is no such portfolio) -/
def Broker.queueOf (b : Broker α) (pid : String) : List Order :=
  match b.find? pid with
  | some e => e.queue
  | none => []

/-- the cash balance of portfolio `pid` -/
def Broker.cashOf (b : Broker α) (pid : String) : Option α := (b.find? pid).map (fun e => e.pf.cash)

/-- ids and queues, in portfolio order -/
def Broker.qview (b : Broker α) : List (String × List Order) := b.entries.map (fun e => (e.pf.id, e.queue))

/-- ids, queues, cash, history in portfolio order: everything a fill-free step must leave alone -/
def Broker.view (b : Broker α) : List (String × List Order × α × List (Event α)) :=
  b.entries.map (fun e => (e.pf.id, e.queue, e.pf.cash, e.pf.history))

/-- the fill log read as `(portfolio, order)` pairs -/
def Broker.filled (b : Broker α) : List (String × Order) := b.fillLog.map (fun f => (f.1, f.2.order))

theorem ids_of_qview (b : Broker α) : b.entries.map (fun e => e.pf.id) = b.qview.map (·.1) := by
  simp [Broker.qview, List.map_map, Function.comp_def]

theorem qview_of_view (b : Broker α) : b.qview = b.view.map (fun v => (v.1, v.2.1)) := by
  simp [Broker.qview, Broker.view, List.map_map, Function.comp_def]

theorem drained_of_qview (b : Broker α) :
    b.drained = b.qview.flatMap (fun v => v.2.map (fun o => (v.1, o))) := by
  simp [Broker.drained, Broker.qview, List.flatMap_map]

theorem find?_map_qview (b : Broker α) (pid : String) :
    (b.find? pid).map (fun e => (e.pf.id, e.queue)) = b.qview.find? (fun v => v.1 == pid) := by
  simp only [Broker.find?, Broker.qview, List.find?_map, Function.comp_def]

theorem queueOf_of_qview (b : Broker α) (pid : String) :
    b.queueOf pid = match b.qview.find? (fun v => v.1 == pid) with | some v => v.2 | none => [] := by
  rw [← find?_map_qview]
  unfold Broker.queueOf
  cases b.find? pid <;> rfl

theorem has_of_qview (b : Broker α) (pid : String) : b.has pid = b.qview.any (fun v => v.1 == pid) := by
  simp [Broker.has, Broker.qview, List.any_map, Function.comp_def]

theorem cashOf_of_view (b : Broker α) (pid : String) :
    b.cashOf pid = (b.view.find? (fun v => v.1 == pid)).map (fun v => v.2.2.1) := by
  simp only [Broker.cashOf, Broker.find?, Broker.view, List.find?_map, Function.comp_def, Option.map_map]

theorem wf_of_qview {b b' : Broker α} (h : b'.qview = b.qview) (hwf : WF b) : WF b' := by
  unfold WF at *
  rw [ids_of_qview, h, ← ids_of_qview]; exact hwf

theorem has_iff_find (b : Broker α) (pid : String) : b.has pid = (b.find? pid).isSome := by
  simp only [Broker.has, Broker.find?]
  induction b.entries with
  | nil => rfl
  | cons a as ih =>
    simp only [List.any_cons, List.find?_cons]
    cases h : (a.pf.id == pid) <;> simp [ih]

theorem find_id {b : Broker α} {pid : String} {e : PfEntry α} (h : b.find? pid = some e) : e.pf.id = pid := by
  have := List.find?_some h
  simpa using this

theorem find_mem {b : Broker α} {pid : String} {e : PfEntry α} (h : b.find? pid = some e) : e ∈ b.entries :=
  List.mem_of_find?_eq_some h

/-- under `WF`, the entry found for `pid` is the only one with that id -/
theorem wf_unique {b : Broker α} (hwf : WF b) {pid : String} {e : PfEntry α} (hf : b.find? pid = some e)
    {x : PfEntry α} (hx : x ∈ b.entries) (hid : x.pf.id = pid) : x = e := by
  have he := find_mem hf
  have hid' := find_id hf
  exact List.inj_on_of_nodup_map hwf hx he (by rw [hid, hid'])

theorem has_of_ids {b b' : Broker α} (h : b'.qview.map (·.1) = b.qview.map (·.1)) (pid : String) :
    b'.has pid = b.has pid := by
  have e : ∀ c : Broker α, c.has pid = (c.qview.map (·.1)).any (· == pid) := by
    intro c; rw [has_of_qview, List.any_map]; rfl
  rw [e, e, h]

theorem has_of_mem {b : Broker α} {e : PfEntry α} (h : e ∈ b.entries) : b.has e.pf.id = true := by
  simp only [Broker.has, List.any_eq_true]
  exact ⟨e, h, by simp⟩

theorem mem_drained {b : Broker α} {x : String × Order} (h : x ∈ b.drained) :
    ∃ e ∈ b.entries, x.1 = e.pf.id ∧ x.2 ∈ e.queue := by
  simp only [Broker.drained, List.mem_flatMap, List.mem_map] at h
  obtain ⟨e, he, o, ho, rfl⟩ := h
  exact ⟨e, he, rfl, ho⟩

/-! ## `setPf` / `setEntry` frames -/

theorem setPf_qview (b : Broker α) (p : Portfolio α) : (b.setPf p).qview = b.qview := by
  simp only [Broker.qview, Broker.setPf, List.map_map]
  apply List.map_congr_left
  intro x _
  simp only [Function.comp_def]
  split
  · rename_i h; simp only [beq_iff_eq] at h; simp [h]
  · rfl

@[simp] theorem setPf_fillLog (b : Broker α) (p : Portfolio α) : (b.setPf p).fillLog = b.fillLog := rfl
@[simp] theorem setPf_master (b : Broker α) (p : Portfolio α) : (b.setPf p).master = b.master := rfl
@[simp] theorem setPf_clock (b : Broker α) (p : Portfolio α) : (b.setPf p).clock = b.clock := rfl
@[simp] theorem setPf_fee (b : Broker α) (p : Portfolio α) : (b.setPf p).fee = b.fee := rfl

/-- replacing the portfolio of the entry found for `pid` acts on that entry only (needs `WF`) -/
theorem setPf_map {γ : Type} {b : Broker α} (hwf : WF b) {pid : String} {e : PfEntry α}
    (hf : b.find? pid = some e) (p : Portfolio α) (hid : p.id = pid) (g : PfEntry α → γ) :
    (b.setPf p).entries.map g =
      b.entries.map (fun x => if x.pf.id = pid then g { e with pf := p } else g x) := by
  simp only [Broker.setPf, List.map_map]
  apply List.map_congr_left
  intro x hx
  simp only [Function.comp_def, hid, beq_iff_eq]
  split
  · rename_i h; rw [wf_unique hwf hf hx h]
  · rfl

theorem setPf_map_same {γ : Type} {b : Broker α} (hwf : WF b) {pid : String} {e : PfEntry α}
    (hf : b.find? pid = some e) (p : Portfolio α) (hid : p.id = pid) (g : PfEntry α → γ)
    (hg : g { e with pf := p } = g e) :
    (b.setPf p).entries.map g = b.entries.map g := by
  rw [setPf_map hwf hf p hid g]
  apply List.map_congr_left
  intro x hx
  split
  · rename_i h; rw [hg, wf_unique hwf hf hx h]
  · rfl

/-! ## Portfolio-level frames -/

theorem mark_frame (p : Portfolio α) (a : String) (price : α) (t : Int) :
    (p.mark a price t).1.id = p.id ∧ (p.mark a price t).1.cash = p.cash ∧
    (p.mark a price t).1.history = p.history ∧ (p.mark a price t).1.clock = p.clock := by
  unfold Portfolio.mark
  split
  · simp
  · split
    · simp
    · split
      · simp
      · simp

theorem transactAsset_id (p : Portfolio α) (t : Txn α) : (p.transactAsset t).1.id = p.id := by
  simp only [Portfolio.transactAsset]
  split
  · rfl
  · split <;> rfl

theorem subscribe_id (p : Portfolio α) (t : Int) (a : α) : (p.subscribe t a).1.id = p.id := by
  simp only [Portfolio.subscribe]
  split
  · rfl
  · split <;> rfl

theorem withdraw_id (p : Portfolio α) (t : Int) (a : α) : (p.withdraw t a).1.id = p.id := by
  simp only [Portfolio.withdraw]
  split
  · rfl
  · split
    · rfl
    · split <;> rfl

/-! ## `runUntilErr` -/

theorem runUntilErr_inv {β : Type} (f : Broker α → β → Broker α × Option Err) (I : Broker α → Prop)
    (h : ∀ b x, I b → I (f b x).1) : ∀ (l : List β) (b : Broker α), I b → I (Broker.runUntilErr f b l).1
  | [], b, hb => hb
  | x :: xs, b, hb => by
    have h1 := h b x hb
    simp only [Broker.runUntilErr]
    rcases hfx : f b x with ⟨b', _ | e⟩
    · rw [hfx] at h1; exact runUntilErr_inv f I h xs b' h1
    · rw [hfx] at h1; exact h1

/-- if every step on an admissible element succeeds and keeps the invariant, the whole run succeeds -/
theorem runUntilErr_ok {β : Type} (f : Broker α → β → Broker α × Option Err) (I : Broker α → Prop)
    (P : β → Prop) (h : ∀ b x, I b → P x → (f b x).2 = none ∧ I (f b x).1) :
    ∀ (l : List β) (b : Broker α), I b → (∀ x ∈ l, P x) →
      (Broker.runUntilErr f b l).2 = none ∧ I (Broker.runUntilErr f b l).1
  | [], b, hb, _ => ⟨rfl, hb⟩
  | x :: xs, b, hb, hl => by
    have h1 := h b x hb (hl x (List.mem_cons_self ..))
    simp only [Broker.runUntilErr]
    rcases hfx : f b x with ⟨b', _ | e⟩
    · rw [hfx] at h1
      exact runUntilErr_ok f I P h xs b' h1.2 (fun y hy => hl y (List.mem_cons_of_mem _ hy))
    · rw [hfx] at h1; simp at h1

/-! ## Broker-level frames: marks -/

theorem applyMark_qview (b : Broker α) (pid a : String) (price : α) (t : Int) :
    (b.applyMark pid a price t).1.qview = b.qview := by
  unfold Broker.applyMark
  split
  · rfl
  · exact setPf_qview _ _

theorem applyMark_other (b : Broker α) (pid a : String) (price : α) (t : Int) :
    (b.applyMark pid a price t).1.fillLog = b.fillLog ∧ (b.applyMark pid a price t).1.master = b.master ∧
    (b.applyMark pid a price t).1.clock = b.clock ∧ (b.applyMark pid a price t).1.fee = b.fee := by
  unfold Broker.applyMark
  split <;> simp

theorem applyMark_view (b : Broker α) (hwf : WF b) (pid a : String) (price : α) (t : Int) :
    (b.applyMark pid a price t).1.view = b.view := by
  unfold Broker.applyMark
  split
  · rfl
  · rename_i e hf
    have hm := mark_frame e.pf a price t
    simp only [Broker.view]
    apply setPf_map_same hwf hf _ (by rw [hm.1]; exact find_id hf)
    simp [hm.1, hm.2.1, hm.2.2.1]

/-- the state after the marking phase of `update` -/
def Broker.marked (b : Broker α) (t : Int) (q : Quotes α) : Broker α × Option Err :=
  Broker.runUntilErr (fun b (m : String × String × α) => b.applyMark m.1 m.2.1 m.2.2 t)
    { b with clock := t } (Broker.markTargets { b with clock := t } q)

theorem marked_frame (b : Broker α) (t : Int) (q : Quotes α) :
    (b.marked t q).1.qview = b.qview ∧ (b.marked t q).1.fillLog = b.fillLog ∧
    (b.marked t q).1.master = b.master ∧ (b.marked t q).1.clock = t ∧ (b.marked t q).1.fee = b.fee := by
  unfold Broker.marked
  apply runUntilErr_inv _ (fun b' => b'.qview = b.qview ∧ b'.fillLog = b.fillLog ∧
    b'.master = b.master ∧ b'.clock = t ∧ b'.fee = b.fee)
  · intro b' x ⟨h1, h2, h3, h4, h5⟩
    have ho := applyMark_other b' x.1 x.2.1 x.2.2 t
    exact ⟨by rw [applyMark_qview, h1], by rw [ho.1, h2], by rw [ho.2.1, h3], by rw [ho.2.2.1, h4],
      by rw [ho.2.2.2, h5]⟩
  · exact ⟨rfl, rfl, rfl, rfl, rfl⟩

theorem marked_view (b : Broker α) (hwf : WF b) (t : Int) (q : Quotes α) :
    (b.marked t q).1.view = b.view := by
  unfold Broker.marked
  have := runUntilErr_inv (fun b (m : String × String × α) => b.applyMark m.1 m.2.1 m.2.2 t)
    (fun b' => b'.view = b.view ∧ WF b')
    (fun b' x ⟨h1, h2⟩ => ⟨by rw [applyMark_view b' h2, h1], wf_of_qview (applyMark_qview ..) h2⟩)
    (Broker.markTargets { b with clock := t } q) { b with clock := t } ⟨rfl, hwf⟩
  exact this.1

theorem update_eq (b : Broker α) (t : Int) (q : Quotes α) :
    b.update t q =
      match b.marked t q with
      | (b1, some e) => (b1, some e)
      | (b1, none) =>
        if isOpen t then
          Broker.runUntilErr (fun b (x : String × Order) => b.executeOrder q x.1 x.2) b1.clearQueues
            (sellsFirst (fun (x : String × Order) => x.2.isSell) b1.drained)
        else (b1, none) := rfl

/-! ## Broker-level frames: fills -/

theorem applyTxn_qview (b : Broker α) (pid : String) (t : Txn α) : (b.applyTxn pid t).1.qview = b.qview := by
  unfold Broker.applyTxn
  split
  · rfl
  · split
    · exact setPf_qview _ _
    · exact setPf_qview _ _

theorem applyTxn_other (b : Broker α) (pid : String) (t : Txn α) :
    (b.applyTxn pid t).1.master = b.master ∧ (b.applyTxn pid t).1.clock = b.clock ∧
    (b.applyTxn pid t).1.fee = b.fee := by
  unfold Broker.applyTxn
  split
  · simp
  · split <;> simp

theorem applyTxn_log (b : Broker α) (pid : String) (t : Txn α) :
    ((b.applyTxn pid t).2 = none → (b.applyTxn pid t).1.fillLog = b.fillLog ++ [(pid, t)]) ∧
    ((b.applyTxn pid t).2 ≠ none → (b.applyTxn pid t).1.fillLog = b.fillLog) := by
  unfold Broker.applyTxn
  split
  · simp
  · split <;> simp

theorem executeOrder_qview (b : Broker α) (q : Quotes α) (pid : String) (o : Order) :
    (b.executeOrder q pid o).1.qview = b.qview := by
  unfold Broker.executeOrder
  split
  · rfl
  · exact applyTxn_qview _ _ _

theorem executeOrder_other (b : Broker α) (q : Quotes α) (pid : String) (o : Order) :
    (b.executeOrder q pid o).1.master = b.master ∧ (b.executeOrder q pid o).1.clock = b.clock ∧
    (b.executeOrder q pid o).1.fee = b.fee := by
  unfold Broker.executeOrder
  split
  · simp
  · exact applyTxn_other _ _ _

theorem executeOrder_log (b : Broker α) (q : Quotes α) (pid : String) (o : Order)
    (h : (b.executeOrder q pid o).2 = none) :
    ∃ tx, b.makeTxn q o = .ok tx ∧ (b.executeOrder q pid o).1.fillLog = b.fillLog ++ [(pid, tx)] := by
  rcases he : b.makeTxn q o with e | tx
  · simp [Broker.executeOrder, he] at h
  · simp only [Broker.executeOrder, he] at h ⊢
    exact ⟨tx, rfl, (applyTxn_log b pid tx).1 h⟩

/-- `makeTxn` reads the broker state only through its clock and fee model -/
theorem makeTxn_congr {b b' : Broker α} (hc : b'.clock = b.clock) (hf : b'.fee = b.fee) (q : Quotes α)
    (o : Order) : b'.makeTxn q o = b.makeTxn q o := by
  unfold Broker.makeTxn
  rw [hc, hf]

theorem makeTxn_fields {b : Broker α} {q : Quotes α} {o : Order} {tx : Txn α}
    (h : b.makeTxn q o = .ok tx) : tx.order = o ∧ tx.time = b.clock := by
  unfold Broker.makeTxn at h
  split at h
  · cases h
  · simp only [Except.ok.injEq] at h
    subst h
    exact ⟨rfl, rfl⟩

/-- a successful execution run logs exactly one transaction per order of the batch, in batch order -/
theorem runExec_log (q : Quotes α) : ∀ (l : List (String × Order)) (b : Broker α),
    (Broker.runUntilErr (fun b (x : String × Order) => b.executeOrder q x.1 x.2) b l).2 = none →
    ∃ fills : List (String × Txn α),
      (Broker.runUntilErr (fun b (x : String × Order) => b.executeOrder q x.1 x.2) b l).1.fillLog
        = b.fillLog ++ fills ∧
      List.Forall₂ (fun (x : String × Order) (f : String × Txn α) =>
        f.1 = x.1 ∧ b.makeTxn q x.2 = .ok f.2) l fills
  | [], b, _ => ⟨[], by simp [Broker.runUntilErr], List.Forall₂.nil⟩
  | x :: xs, b, h => by
    simp only [Broker.runUntilErr] at h ⊢
    rcases hfx : b.executeOrder q x.1 x.2 with ⟨b', _ | e⟩
    · rw [hfx] at h
      simp only at h ⊢
      have h1 : (b.executeOrder q x.1 x.2).2 = none := by rw [hfx]
      obtain ⟨tx, htx, hlog⟩ := executeOrder_log b q x.1 x.2 h1
      have ho := executeOrder_other b q x.1 x.2
      rw [hfx] at hlog ho
      simp only at hlog ho
      obtain ⟨fills, hf1, hf2⟩ := runExec_log q xs b' h
      refine ⟨(x.1, tx) :: fills, ?_, ?_⟩
      · rw [hf1, hlog]; simp
      · refine List.Forall₂.cons ⟨rfl, htx⟩ ?_
        refine hf2.imp ?_
        intro y f hy
        rw [makeTxn_congr ho.2.1 ho.2.2] at hy
        exact hy
    · rw [hfx] at h; simp at h

theorem runExec_frame (q : Quotes α) (l : List (String × Order)) (b : Broker α) :
    let r := (Broker.runUntilErr (fun b (x : String × Order) => b.executeOrder q x.1 x.2) b l).1
    r.qview = b.qview ∧ r.master = b.master ∧ r.clock = b.clock ∧ r.fee = b.fee := by
  apply runUntilErr_inv _ (fun b' => b'.qview = b.qview ∧ b'.master = b.master ∧
    b'.clock = b.clock ∧ b'.fee = b.fee)
  · intro b' x ⟨h1, h2, h3, h4⟩
    have ho := executeOrder_other b' q x.1 x.2
    exact ⟨by rw [executeOrder_qview, h1], by rw [ho.1, h2], by rw [ho.2.1, h3], by rw [ho.2.2, h4]⟩
  · exact ⟨rfl, rfl, rfl, rfl⟩

theorem clearQueues_qview (b : Broker α) : b.clearQueues.qview = b.qview.map (fun v => (v.1, [])) := by
  simp [Broker.clearQueues, Broker.qview, List.map_map, Function.comp_def]

/-! ## `update`, closed and open -/

theorem update_closed (b : Broker α) (t : Int) (q : Quotes α) (h : isOpen t = false) :
    b.update t q = b.marked t q := by
  rw [update_eq]
  rcases hm : b.marked t q with ⟨b1, _ | e⟩
  · simp [h]
  · rfl

theorem update_marks_err (b : Broker α) (t : Int) (q : Quotes α) (h : (b.marked t q).2 ≠ none) :
    b.update t q = b.marked t q := by
  rw [update_eq]
  rcases hm : b.marked t q with ⟨b1, _ | e⟩
  · rw [hm] at h; simp at h
  · rfl

theorem update_open (b : Broker α) (t : Int) (q : Quotes α) (h : isOpen t = true)
    (hm : (b.marked t q).2 = none) :
    b.update t q =
      Broker.runUntilErr (fun b (x : String × Order) => b.executeOrder q x.1 x.2)
        (b.marked t q).1.clearQueues
        (sellsFirst (fun (x : String × Order) => x.2.isSell) b.drained) := by
  rw [update_eq]
  have hd : (b.marked t q).1.drained = b.drained := by
    rw [drained_of_qview, (marked_frame b t q).1, ← drained_of_qview]
  rcases hm' : b.marked t q with ⟨b1, _ | e⟩
  · rw [hm'] at hd
    simp only at hd
    simp [h, hd]
  · rw [hm'] at hm; simp at hm

theorem update_none_marks (b : Broker α) (t : Int) (q : Quotes α) (h : (b.update t q).2 = none) :
    (b.marked t q).2 = none := by
  rw [update_eq] at h
  rcases hm : b.marked t q with ⟨b1, _ | e⟩
  · rfl
  · rw [hm] at h; simp at h

/-! ## `submitOrder` -/

theorem submit_refused (b : Broker α) (pid : String) (o : Order) (h : b.has pid = false) :
    b.submitOrder pid o = (b, some .key) := by
  rw [has_iff_find] at h
  unfold Broker.submitOrder
  split
  · rfl
  · rename_i e hf; rw [hf] at h; simp at h

theorem submit_accepted (b : Broker α) (pid : String) (o : Order) (hwf : WF b) (h : b.has pid = true) :
    (b.submitOrder pid o).2 = none ∧
    (b.submitOrder pid o).1.entries
      = b.entries.map (fun x => if x.pf.id = pid then { x with queue := x.queue ++ [o] } else x) ∧
    (b.submitOrder pid o).1.master = b.master ∧ (b.submitOrder pid o).1.clock = b.clock ∧
    (b.submitOrder pid o).1.fee = b.fee ∧ (b.submitOrder pid o).1.fillLog = b.fillLog := by
  rw [has_iff_find] at h
  unfold Broker.submitOrder
  split
  · rename_i hf; rw [hf] at h; simp at h
  · rename_i e hf
    refine ⟨rfl, ?_, rfl, rfl, rfl, rfl⟩
    simp only [Broker.setEntry]
    apply List.map_congr_left
    intro x hx
    simp only [find_id hf, beq_iff_eq]
    split
    · rename_i hid; rw [wf_unique hwf hf hx hid]
    · rfl

/-- `find?` through an id-preserving rewrite of the entries -/
theorem find?_map_entries (l : List (PfEntry α)) (g : PfEntry α → PfEntry α) (hg : ∀ x, (g x).pf.id = x.pf.id)
    (pid : String) :
    (l.map g).find? (fun e => e.pf.id == pid) = (l.find? (fun e => e.pf.id == pid)).map g := by
  induction l with
  | nil => rfl
  | cons a as ih =>
    simp only [List.map_cons, List.find?_cons, hg]
    cases (a.pf.id == pid)
    · simpa using ih
    · rfl

theorem queueOf_submit (b : Broker α) (pid : String) (o : Order) (hwf : WF b) (h : b.has pid = true)
    (p : String) :
    (b.submitOrder pid o).1.queueOf p = if p = pid then b.queueOf p ++ [o] else b.queueOf p := by
  have hs := (submit_accepted b pid o hwf h).2.1
  have hfind : (b.submitOrder pid o).1.find? p = (b.find? p).map
      (fun x => if x.pf.id = pid then { x with queue := x.queue ++ [o] } else x) := by
    unfold Broker.find?
    rw [hs, find?_map_entries _ _ (by intro x; split <;> rfl)]
  unfold Broker.queueOf
  rw [hfind]
  rcases hf : b.find? p with _ | e
  · have hne : p ≠ pid := by
      rintro rfl
      rw [has_iff_find, hf] at h; simp at h
    simp [hne]
  · have hid : e.pf.id = p := find_id hf
    simp only [Option.map_some, hid]
    split <;> rfl

/-! ## The batch read per portfolio -/

theorem drained_filter_aux (pid : String) : ∀ (l : List (PfEntry α)), (l.map (fun e => e.pf.id)).Nodup →
    (l.flatMap (fun e => e.queue.map fun o => (e.pf.id, o))).filter (fun x => x.1 == pid)
      = match l.find? (fun e => e.pf.id == pid) with
        | some e => e.queue.map (fun o => (pid, o))
        | none => []
  | [], _ => rfl
  | a :: as, hnd => by
    simp only [List.map_cons, List.nodup_cons] at hnd
    have ih := drained_filter_aux pid as hnd.2
    simp only [List.flatMap_cons, List.filter_append, List.find?_cons]
    by_cases ha : a.pf.id = pid
    · have hnone : as.find? (fun e => e.pf.id == pid) = none := by
        rw [List.find?_eq_none]
        intro x hx hxid
        simp only [beq_iff_eq] at hxid
        exact hnd.1 (List.mem_map.mpr ⟨x, hx, by rw [hxid, ha]⟩)
      rw [ih, hnone]
      simp only [ha, beq_self_eq_true, List.append_nil]
      rw [List.filter_eq_self.mpr]
      intro x hx
      simp only [List.mem_map] at hx
      obtain ⟨o, _, rfl⟩ := hx
      simp
    · have hb : (a.pf.id == pid) = false := by simpa using ha
      rw [ih]
      simp only [hb]
      rw [List.filter_eq_nil_iff.mpr, List.nil_append]
      intro x hx
      simp only [List.mem_map] at hx
      obtain ⟨o, _, rfl⟩ := hx
      simpa using ha

/-- the part of the drained batch that belongs to `pid` is `pid`'s queue, in queue order (needs `WF`) -/
theorem drained_filter (b : Broker α) (hwf : WF b) (pid : String) :
    b.drained.filter (fun x => x.1 == pid) = (b.queueOf pid).map (fun o => (pid, o)) := by
  unfold Broker.drained Broker.queueOf Broker.find?
  rw [drained_filter_aux pid b.entries hwf]
  cases List.find? (fun e => e.pf.id == pid) b.entries <;> rfl

/-! ## `update` in exchange hours: the log and the queues -/

theorem update_open_spec (b : Broker α) (t : Int) (q : Quotes α) (hopen : isOpen t = true)
    (hret : (b.update t q).2 = none) :
    (∃ fills : List (String × Txn α), (b.update t q).1.fillLog = b.fillLog ++ fills ∧
      List.Forall₂ (fun (x : String × Order) (f : String × Txn α) =>
        f.1 = x.1 ∧ Broker.makeTxn { b with clock := t } q x.2 = .ok f.2)
        (sellsFirst (fun (x : String × Order) => x.2.isSell) b.drained) fills) ∧
    (b.update t q).1.qview = b.qview.map (fun v => (v.1, [])) ∧
    (b.update t q).1.master = b.master ∧ (b.update t q).1.clock = t ∧ (b.update t q).1.fee = b.fee := by
  have hm := update_none_marks b t q hret
  have hfr := marked_frame b t q
  have hu := update_open b t q hopen hm
  rw [hu] at hret ⊢
  obtain ⟨fills, hf1, hf2⟩ := runExec_log q _ _ hret
  have hx := runExec_frame q (sellsFirst (fun (x : String × Order) => x.2.isSell) b.drained)
    (b.marked t q).1.clearQueues
  simp only at hx
  refine ⟨⟨fills, ?_, ?_⟩, ?_, ?_, ?_, ?_⟩
  · rw [hf1]; show (b.marked t q).1.fillLog ++ fills = _; rw [hfr.2.1]
  · refine hf2.imp ?_
    intro x f ⟨h1, h2⟩
    refine ⟨h1, ?_⟩
    rw [← h2]
    exact (makeTxn_congr (b := { b with clock := t }) (b' := (b.marked t q).1.clearQueues)
      hfr.2.2.2.1 hfr.2.2.2.2 q x.2).symm
  · rw [hx.1, clearQueues_qview, hfr.1]
  · rw [hx.2.1]; exact hfr.2.2.1
  · rw [hx.2.2.1]; exact hfr.2.2.2.1
  · rw [hx.2.2.2]; exact hfr.2.2.2.2

theorem forall₂_exists_of_mem_left {β γ : Type} {R : β → γ → Prop} {l₁ : List β} {l₂ : List γ}
    (h : List.Forall₂ R l₁ l₂) {x : β} (hx : x ∈ l₁) : ∃ y ∈ l₂, R x y := by
  induction h with
  | nil => cases hx
  | @cons a c as cs hac _ ih =>
    rcases List.mem_cons.mp hx with rfl | hx
    · exact ⟨c, List.mem_cons_self .., hac⟩
    · obtain ⟨y, hy, hr⟩ := ih hx
      exact ⟨y, List.mem_cons_of_mem _ hy, hr⟩

theorem filled_of_forall₂ {l : List (String × Order)} {fills : List (String × Txn α)}
    {P : String × Order → String × Txn α → Prop}
    (h : List.Forall₂ P l fills) (hP : ∀ x f, P x f → f.1 = x.1 ∧ f.2.order = x.2) :
    fills.map (fun f => (f.1, f.2.order)) = l := by
  induction h with
  | nil => rfl
  | @cons x f xs fs hxf _ ih =>
    have := hP x f hxf
    simp only [List.map_cons, ih, this.1, this.2]

theorem queueOf_nil_of_qview (b : Broker α) (h : ∀ v ∈ b.qview, v.2 = []) (pid : String) : b.queueOf pid = [] := by
  rw [queueOf_of_qview]
  split
  · rename_i v hv; exact h v (List.mem_of_find?_eq_some hv)
  · rfl

theorem queueOf_congr {b b' : Broker α} (h : b'.qview = b.qview) (pid : String) : b'.queueOf pid = b.queueOf pid := by
  rw [queueOf_of_qview, queueOf_of_qview, h]

theorem cashOf_congr {b b' : Broker α} (h : b'.view = b.view) (pid : String) : b'.cashOf pid = b.cashOf pid := by
  rw [cashOf_of_view, cashOf_of_view, h]

/-- per portfolio, the batch is that portfolio's queue with the sells moved to the front -/
theorem batch_per_portfolio (b : Broker α) (hwf : WF b) (pid : String) :
    ((sellsFirst (fun (x : String × Order) => x.2.isSell) b.drained).filter (fun x => x.1 == pid)).map (·.2)
      = sellsFirst Order.isSell (b.queueOf pid) := by
  rw [sellsFirst_filter, drained_filter b hwf pid, sellsFirst_map (fun x : String × Order => x.2) Order.isSell]
  simp [List.map_map, Function.comp_def]

/-! ## Runs: the operations of the C04 quantifier, accepted submissions, one-step summaries -/

/-- the operations an order life-cycle is quantified over: transfers, portfolio creation, submissions, updates
(the component-level ops `setClock`/`applyTxn`/`applyMark`/`pfSubscribe`/`pfWithdraw` bypass the queue) -/
def Op.isC04 : Op α → Prop
  | .subAcct _ | .wdAcct _ | .create _ | .subPf _ _ | .wdPf _ _ | .submit _ _ | .update _ _ => True
  | _ => False

/-- if the operation is an `update`, it returns normally -/
def returnsOK (b : Broker α) : Op α → Prop
  | .update t q => (b.update t q).2 = none
  | _ => True

/-- every `update` of the run returns normally (checked along the run) -/
def UpdatesReturn : Broker α → List (Op α) → Prop
  | _, [] => True
  | b, op :: ops => returnsOK b op ∧ UpdatesReturn (step b op).1 ops

/-- what one operation adds to the accepted submissions -/
def acceptedOne (b : Broker α) : Op α → List (String × Order)
  | .submit pid o => if b.has pid then [(pid, o)] else []
  | _ => []

/-- the submissions accepted along a run, in order -/
def accepted : Broker α → List (Op α) → List (String × Order)
  | _, [] => []
  | b, op :: ops => acceptedOne b op ++ accepted (step b op).1 ops

/-- is this operation an update inside exchange hours? -/
def Op.isOpenUpdate : Op α → Prop
  | .update t _ => isOpen t = true
  | _ => False

theorem run_append (b : Broker α) (l₁ l₂ : List (Op α)) : run b (l₁ ++ l₂) = run (run b l₁) l₂ := by
  induction l₁ generalizing b with
  | nil => rfl
  | cons op os ih => simp only [List.cons_append, run, ih]

theorem accepted_append (b : Broker α) (l₁ l₂ : List (Op α)) :
    accepted b (l₁ ++ l₂) = accepted b l₁ ++ accepted (run b l₁) l₂ := by
  induction l₁ generalizing b with
  | nil => rfl
  | cons op os ih => simp only [List.cons_append, accepted, run, ih, List.append_assoc]

theorem updatesReturn_append (b : Broker α) (l₁ l₂ : List (Op α)) :
    UpdatesReturn b (l₁ ++ l₂) ↔ UpdatesReturn b l₁ ∧ UpdatesReturn (run b l₁) l₂ := by
  induction l₁ generalizing b with
  | nil => simp [UpdatesReturn, run]
  | cons op os ih => simp only [List.cons_append, UpdatesReturn, run, ih, and_assoc]

theorem drained_submit_aux (pid : String) (o : Order) : ∀ (l : List (PfEntry α)),
    (l.map (fun e => e.pf.id)).Nodup → (∃ e ∈ l, e.pf.id = pid) →
    ((l.map (fun x => if x.pf.id = pid then { x with queue := x.queue ++ [o] } else x)).flatMap
        (fun e => e.queue.map fun o => (e.pf.id, o))).Perm
      ((pid, o) :: l.flatMap (fun e => e.queue.map fun o => (e.pf.id, o)))
  | [], _, h => by obtain ⟨e, he, _⟩ := h; cases he
  | a :: as, hnd, hex => by
    simp only [List.map_cons, List.nodup_cons] at hnd
    simp only [List.map_cons, List.flatMap_cons]
    by_cases ha : a.pf.id = pid
    · have hrest : as.map (fun x => if x.pf.id = pid then { x with queue := x.queue ++ [o] } else x) = as := by
        conv => rhs; rw [← List.map_id as]
        apply List.map_congr_left
        intro x hx
        have : x.pf.id ≠ pid := fun h => hnd.1 (List.mem_map.mpr ⟨x, hx, by rw [h, ha]⟩)
        simp [this]
      rw [hrest]
      simp only [ha, if_true, List.map_append, List.map_cons, List.map_nil, List.append_assoc,
        List.singleton_append]
      exact List.perm_middle
    · have hex' : ∃ e ∈ as, e.pf.id = pid := by
        obtain ⟨e, he, hid⟩ := hex
        rcases List.mem_cons.mp he with rfl | he
        · exact absurd hid ha
        · exact ⟨e, he, hid⟩
      simp only [ha, if_false]
      exact (List.Perm.append_left _ (drained_submit_aux pid o as hnd.2 hex')).trans List.perm_middle

theorem drained_submit (b : Broker α) (pid : String) (o : Order) (hwf : WF b) (h : b.has pid = true) :
    (b.submitOrder pid o).1.drained.Perm ((pid, o) :: b.drained) := by
  unfold Broker.drained
  rw [(submit_accepted b pid o hwf h).2.1]
  apply drained_submit_aux pid o b.entries hwf
  simp only [Broker.has, List.any_eq_true, beq_iff_eq] at h
  exact h

theorem qview_submit_ids (b : Broker α) (pid : String) (o : Order) :
    (b.submitOrder pid o).1.qview.map (·.1) = b.qview.map (·.1) := by
  unfold Broker.submitOrder
  split
  · rfl
  · rename_i e hf
    simp only [Broker.setEntry, Broker.qview, List.map_map]
    apply List.map_congr_left
    intro x _
    simp only [Function.comp_def]
    split
    · rename_i hid; simp only [beq_iff_eq] at hid; exact hid.symm
    · rfl

theorem wf_of_ids {b b' : Broker α} (h : b'.qview.map (·.1) = b.qview.map (·.1)) (hwf : WF b) : WF b' := by
  unfold WF at *
  rw [ids_of_qview, h, ← ids_of_qview]; exact hwf

theorem transfers_frame (b : Broker α) (op : Op α)
    (hop : match op with | .subAcct _ | .wdAcct _ | .subPf _ _ | .wdPf _ _ => True | _ => False) :
    (step b op).1.qview = b.qview ∧ (step b op).1.fillLog = b.fillLog := by
  cases op with
  | subAcct a => simp only [step, Broker.subscribeAccount]; split <;> exact ⟨rfl, rfl⟩
  | wdAcct a =>
    simp only [step, Broker.withdrawAccount]
    split
    · exact ⟨rfl, rfl⟩
    · split <;> exact ⟨rfl, rfl⟩
  | subPf pid a =>
    simp only [step, Broker.subscribePortfolio]
    split
    · exact ⟨rfl, rfl⟩
    · split
      · exact ⟨rfl, rfl⟩
      · split
        · exact ⟨rfl, rfl⟩
        · split
          · exact ⟨setPf_qview _ _, rfl⟩
          · exact ⟨setPf_qview _ _, rfl⟩
  | wdPf pid a =>
    simp only [step, Broker.withdrawPortfolio]
    split
    · exact ⟨rfl, rfl⟩
    · split
      · exact ⟨rfl, rfl⟩
      · split
        · exact ⟨rfl, rfl⟩
        · split
          · exact ⟨setPf_qview _ _, rfl⟩
          · exact ⟨setPf_qview _ _, rfl⟩
  | _ => exact absurd hop (by simp)

theorem create_frame (b : Broker α) (pid : String) :
    (b.createPortfolio pid).1.fillLog = b.fillLog ∧ (b.createPortfolio pid).1.drained = b.drained ∧
    (WF b → WF (b.createPortfolio pid).1) ∧
    (∀ p, (b.createPortfolio pid).1.queueOf p = b.queueOf p) := by
  unfold Broker.createPortfolio
  split
  · exact ⟨rfl, rfl, id, fun _ => rfl⟩
  · rename_i hnew
    refine ⟨rfl, ?_, ?_, ?_⟩
    · simp [Broker.drained]
    · intro hwf
      unfold WF at *
      simp only [List.map_append, List.map_cons, List.map_nil]
      rw [List.nodup_append]
      refine ⟨hwf, List.nodup_singleton _, ?_⟩
      intro a ha c hc
      simp only [List.mem_singleton] at hc
      subst hc
      rintro rfl
      apply hnew
      simp only [List.mem_map] at ha
      obtain ⟨e, he, rfl⟩ := ha
      exact has_of_mem he
    · intro p
      unfold Broker.queueOf
      have hfind : Broker.find? { b with entries := b.entries ++ [{ pf := Portfolio.new pid b.clock }] } p
          = (b.find? p).or (if pid = p then some { pf := Portfolio.new pid b.clock } else none) := by
        simp [Broker.find?, List.find?_append, Portfolio.new]
      rw [hfind]
      cases b.find? p with
      | none => by_cases hp : pid = p <;> simp [hp]
      | some e => simp

/-- **One-step summary** for the operations of the quantifier: `WF` is kept, the fill log only grows, and
what is newly logged together with what is pending afterwards is a permutation of what was pending before
plus what this operation submitted. -/
theorem step_summary (b : Broker α) (op : Op α) (hwf : WF b) (hop : op.isC04)
    (hret : returnsOK b op) :
    WF (step b op).1 ∧
    ∃ fl : List (String × Txn α), (step b op).1.fillLog = b.fillLog ++ fl ∧
      (fl.map (fun f => (f.1, f.2.order)) ++ (step b op).1.drained).Perm (b.drained ++ acceptedOne b op) ∧
      (¬ op.isOpenUpdate → fl = [] ∧ ∀ x ∈ b.drained, x ∈ (step b op).1.drained) ∧
      (∀ t q, op = .update t q → isOpen t = true →
        (step b op).1.drained = [] ∧
        ∀ x ∈ b.drained, ∃ f ∈ fl, f.1 = x.1 ∧ f.2.order = x.2 ∧ f.2.time = t) := by
  cases op with
  | subAcct a =>
    have h := transfers_frame b (.subAcct a) trivial
    refine ⟨wf_of_qview h.1 hwf, [], by simp [h.2], ?_, ?_, by intro t q h; cases h⟩
    · simp [acceptedOne, drained_of_qview, h.1]
    · intro _; exact ⟨rfl, by simp [drained_of_qview, h.1]⟩
  | wdAcct a =>
    have h := transfers_frame b (.wdAcct a) trivial
    refine ⟨wf_of_qview h.1 hwf, [], by simp [h.2], ?_, ?_, by intro t q h; cases h⟩
    · simp [acceptedOne, drained_of_qview, h.1]
    · intro _; exact ⟨rfl, by simp [drained_of_qview, h.1]⟩
  | subPf pid a =>
    have h := transfers_frame b (.subPf pid a) trivial
    refine ⟨wf_of_qview h.1 hwf, [], by simp [h.2], ?_, ?_, by intro t q h; cases h⟩
    · simp [acceptedOne, drained_of_qview, h.1]
    · intro _; exact ⟨rfl, by simp [drained_of_qview, h.1]⟩
  | wdPf pid a =>
    have h := transfers_frame b (.wdPf pid a) trivial
    refine ⟨wf_of_qview h.1 hwf, [], by simp [h.2], ?_, ?_, by intro t q h; cases h⟩
    · simp [acceptedOne, drained_of_qview, h.1]
    · intro _; exact ⟨rfl, by simp [drained_of_qview, h.1]⟩
  | create pid =>
    have h := create_frame b pid
    refine ⟨h.2.2.1 hwf, [], by simp [step, h.1], ?_, ?_, by intro t q h; cases h⟩
    · simp [acceptedOne, step, h.2.1]
    · intro _; exact ⟨rfl, by simp [step, h.2.1]⟩
  | submit pid o =>
    refine ⟨wf_of_ids (qview_submit_ids b pid o) hwf, [], ?_, ?_, ?_, by intro t q h; cases h⟩
    · simp only [step, List.append_nil]
      by_cases hh : b.has pid = true
      · exact (submit_accepted b pid o hwf hh).2.2.2.2.2
      · simp only [Bool.not_eq_true] at hh; rw [submit_refused b pid o hh]
    · simp only [step, acceptedOne, List.map_nil, List.nil_append]
      by_cases hh : b.has pid = true
      · simp only [hh, if_true]
        exact (drained_submit b pid o hwf hh).trans (List.perm_append_singleton _ _).symm
      · simp only [Bool.not_eq_true] at hh
        rw [submit_refused b pid o hh]; simp [hh]
    · intro _
      refine ⟨rfl, ?_⟩
      simp only [step]
      by_cases hh : b.has pid = true
      · intro x hx
        exact (drained_submit b pid o hwf hh).symm.subset (List.mem_cons_of_mem _ hx)
      · simp only [Bool.not_eq_true] at hh
        rw [submit_refused b pid o hh]; exact fun x hx => hx
  | update t q =>
    simp only [returnsOK] at hret
    have hstep : step b (.update t q) = b.update t q := rfl
    rw [hstep]
    by_cases ho : isOpen t = true
    · obtain ⟨⟨fills, hlog, hf2⟩, hq, _⟩ := update_open_spec b t q ho hret
      have hmap := filled_of_forall₂ hf2 (fun x f h => ⟨h.1, (makeTxn_fields h.2).1⟩)
      have hdr : (b.update t q).1.drained = [] := by
        rw [drained_of_qview, hq]; simp [List.flatMap_map]
      refine ⟨wf_of_ids (by rw [hq]; simp [List.map_map, Function.comp_def]) hwf, fills, hlog, ?_, ?_, ?_⟩
      · simp only [hdr, hmap, acceptedOne, List.append_nil]
        exact sellsFirst_perm _ _
      · intro hno; exact absurd ho hno
      · intro t' q' heq _
        simp only [Op.update.injEq] at heq
        obtain ⟨rfl, rfl⟩ := heq
        refine ⟨hdr, ?_⟩
        intro x hx
        have hx' : x ∈ sellsFirst (fun (x : String × Order) => x.2.isSell) b.drained :=
          (sellsFirst_perm _ _).symm.subset hx
        obtain ⟨f, hf, hxf⟩ := forall₂_exists_of_mem_left hf2 hx'
        exact ⟨f, hf, hxf.1, (makeTxn_fields hxf.2).1, (makeTxn_fields hxf.2).2⟩
    · simp only [Bool.not_eq_true] at ho
      have hfr := marked_frame b t q
      refine ⟨?_, [], ?_, ?_, ?_, ?_⟩
      · simp only [update_closed b t q ho]; exact wf_of_qview hfr.1 hwf
      · simp only [update_closed b t q ho, List.append_nil]; exact hfr.2.1
      · simp only [update_closed b t q ho, acceptedOne, List.map_nil, List.nil_append, List.append_nil,
          drained_of_qview, hfr.1]
        exact List.Perm.refl _
      · intro _
        refine ⟨rfl, ?_⟩
        simp only [update_closed b t q ho, drained_of_qview, hfr.1]
        exact fun x hx => hx
      · intro t' q' heq ho'
        simp only [Op.update.injEq] at heq
        obtain ⟨rfl, rfl⟩ := heq
        rw [ho] at ho'; cases ho'
  | _ => exact absurd hop (by simp [Op.isC04])

theorem run_wf (b : Broker α) (ops : List (Op α)) (hwf : WF b) (hops : ∀ op ∈ ops, op.isC04)
    (hret : UpdatesReturn b ops) : WF (run b ops) := by
  induction ops generalizing b with
  | nil => exact hwf
  | cons op os ih =>
    exact ih _ (step_summary b op hwf (hops op (List.mem_cons_self ..)) hret.1).1
      (fun o ho => hops o (List.mem_cons_of_mem _ ho)) hret.2

/-- conservation: filled + pending = previously filled + previously pending + accepted, as multisets -/
theorem conservation (b : Broker α) (ops : List (Op α)) (hwf : WF b) (hops : ∀ op ∈ ops, op.isC04)
    (hret : UpdatesReturn b ops) :
    ((run b ops).filled ++ (run b ops).drained).Perm (b.filled ++ b.drained ++ accepted b ops) := by
  induction ops generalizing b with
  | nil => simp [run, accepted]
  | cons op os ih =>
    obtain ⟨hwf', fl, hlog, hperm, _⟩ := step_summary b op hwf (hops op (List.mem_cons_self ..)) hret.1
    have h := ih (step b op).1 hwf' (fun o ho => hops o (List.mem_cons_of_mem _ ho)) hret.2
    simp only [run, accepted]
    refine h.trans ?_
    have hf : (step b op).1.filled = b.filled ++ fl.map (fun f => (f.1, f.2.order)) := by
      simp only [Broker.filled, hlog, List.map_append]
    rw [hf]
    have := List.Perm.append_left b.filled (List.Perm.append_right (accepted (step b op).1 os) hperm)
    simpa only [List.append_assoc] using this

theorem fillLog_mono (b : Broker α) (ops : List (Op α)) (hwf : WF b) (hops : ∀ op ∈ ops, op.isC04)
    (hret : UpdatesReturn b ops) : ∃ fl, (run b ops).fillLog = b.fillLog ++ fl := by
  induction ops generalizing b with
  | nil => exact ⟨[], by simp [run]⟩
  | cons op os ih =>
    obtain ⟨hwf', fl, hlog, _⟩ := step_summary b op hwf (hops op (List.mem_cons_self ..)) hret.1
    obtain ⟨fl', h⟩ := ih (step b op).1 hwf' (fun o ho => hops o (List.mem_cons_of_mem _ ho)) hret.2
    exact ⟨fl ++ fl', by simp only [run, h, hlog, List.append_assoc]⟩

/-- through operations none of which is an update in exchange hours, a pending order stays pending and
nothing is filled -/
theorem stays_pending (b : Broker α) (ops : List (Op α)) (hwf : WF b) (hops : ∀ op ∈ ops, op.isC04)
    (hret : UpdatesReturn b ops) (hclosed : ∀ op ∈ ops, ¬ op.isOpenUpdate) :
    (run b ops).fillLog = b.fillLog ∧ ∀ x ∈ b.drained, x ∈ (run b ops).drained := by
  induction ops generalizing b with
  | nil => exact ⟨rfl, fun x hx => hx⟩
  | cons op os ih =>
    obtain ⟨hwf', fl, hlog, _, hno, _⟩ := step_summary b op hwf (hops op (List.mem_cons_self ..)) hret.1
    obtain ⟨hfl, hsub⟩ := hno (hclosed op (List.mem_cons_self ..))
    have h := ih (step b op).1 hwf' (fun o ho => hops o (List.mem_cons_of_mem _ ho)) hret.2
      (fun o ho => hclosed o (List.mem_cons_of_mem _ ho))
    refine ⟨?_, fun x hx => h.2 x (hsub x hx)⟩
    simp only [run, h.1, hlog, hfl, List.append_nil]

theorem mem_drained_iff (b : Broker α) (hwf : WF b) (pid : String) (o : Order) :
    (pid, o) ∈ b.drained ↔ o ∈ b.queueOf pid := by
  have h := drained_filter b hwf pid
  constructor
  · intro hx
    have : (pid, o) ∈ b.drained.filter (fun x => x.1 == pid) := by simp [List.mem_filter, hx]
    rw [h] at this
    simp only [List.mem_map, Prod.mk.injEq] at this
    obtain ⟨o', ho', _, rfl⟩ := this
    exact ho'
  · intro ho
    have : (pid, o) ∈ (b.queueOf pid).map (fun o => (pid, o)) := List.mem_map.mpr ⟨o, ho, rfl⟩
    rw [← h] at this
    exact (List.mem_filter.mp this).1

theorem isOpenUpdate_iff (l : List (Op α)) :
    (∀ op ∈ l, ¬ op.isOpenUpdate) ↔ ∀ t q, Op.update t q ∈ l → isOpen t = false := by
  constructor
  · intro h t q hm
    have := h _ hm
    simpa [Op.isOpenUpdate] using this
  · intro h op hop
    cases op with
    | update t q => simp [Op.isOpenUpdate, h t q hop]
    | _ => simp [Op.isOpenUpdate]

/-- a list containing an open update splits at its first open update -/
theorem exists_first_open (l : List (Op α)) (h : ∃ op ∈ l, op.isOpenUpdate) :
    ∃ l₁ t q l₂, l = l₁ ++ Op.update t q :: l₂ ∧ isOpen t = true ∧ ∀ op ∈ l₁, ¬ op.isOpenUpdate := by
  induction l with
  | nil => obtain ⟨op, hop, _⟩ := h; cases hop
  | cons a as ih =>
    by_cases ha : a.isOpenUpdate
    · cases a with
      | update t q => exact ⟨[], t, q, as, rfl, ha, by simp⟩
      | _ => exact absurd ha (by simp [Op.isOpenUpdate])
    · have : ∃ op ∈ as, op.isOpenUpdate := by
        obtain ⟨op, hop, ho⟩ := h
        rcases List.mem_cons.mp hop with rfl | hop
        · exact absurd ho ha
        · exact ⟨op, hop, ho⟩
      obtain ⟨l₁, t, q, l₂, rfl, ho, hl⟩ := ih this
      refine ⟨a :: l₁, t, q, l₂, rfl, ho, ?_⟩
      intro op hop
      rcases List.mem_cons.mp hop with rfl | hop
      · exact ha
      · exact hl op hop

/-- an order pending before an update in exchange hours is in the fill log ever after -/
theorem filled_at_open (b : Broker α) (t : Int) (q : Quotes α) (post : List (Op α)) (hwf : WF b)
    (hops : ∀ op ∈ post, op.isC04) (hret : UpdatesReturn b (Op.update t q :: post)) (hopen : isOpen t = true)
    (x : String × Order) (hx : x ∈ b.drained) :
    ∃ f ∈ (run b (Op.update t q :: post)).fillLog, f.1 = x.1 ∧ f.2.order = x.2 ∧ f.2.time = t := by
  obtain ⟨hwf', fl, hlog, _, _, hop⟩ := step_summary b (.update t q) hwf trivial hret.1
  obtain ⟨f, hf, hxf⟩ := (hop t q rfl hopen).2 x hx
  obtain ⟨fl', hmono⟩ := fillLog_mono (step b (.update t q)).1 post hwf' hops hret.2
  refine ⟨f, ?_, hxf⟩
  simp only [run, hmono, hlog]
  exact List.mem_append_left _ (List.mem_append_right _ hf)

theorem transactAsset_cash (p : Portfolio α) (t : Txn α) (h : (p.transactAsset t).2 = none) :
    (p.transactAsset t).1.cash = p.cash - (t.price * ofInt t.qty + t.commission) := by
  simp only [Portfolio.transactAsset] at h ⊢
  split
  · rename_i hc; simp [hc] at h
  · rename_i hc
    simp only [hc, if_false] at h
    split
    · rename_i ps e he; rw [he] at h; simp at h
    · rfl

end

/-! ## No execution error under the quantifier's hypotheses -/

section
variable {α : Type} [Field α] [LinearOrder α] [IsStrictOrderedRing α] [FloorRing α] [NumOps α] [LawfulNumOps α]

theorem updatePrice_ok (pos : Position α) (price : α) (t : Int) (hc : pos.clock ≤ t) (hp : 0 < price) :
    pos.updatePrice price t = ({ pos with clock := t, price := price }, none) := by
  simp only [Position.updatePrice, not_lt.mpr hc, if_false, le_eq, zero_eq, not_le.mpr hp, decide_false]
  rfl

theorem mem_set {ps : Positions α} {p x : Position α} (h : x ∈ Positions.set ps p) : x = p ∨ x ∈ ps := by
  simp only [Positions.set, List.mem_map] at h
  obtain ⟨y, hy, rfl⟩ := h
  split
  · exact Or.inl rfl
  · exact Or.inr hy

theorem mem_erase {ps : Positions α} {a : String} {x : Position α} (h : x ∈ Positions.erase ps a) : x ∈ ps := by
  simp only [Positions.erase, List.mem_filter] at h
  exact h.1

theorem find?_mem {ps : Positions α} {a : String} {p : Position α} (h : Positions.find? ps a = some p) : p ∈ ps :=
  List.mem_of_find?_eq_some h

theorem mark_ok (p : Portfolio α) (a : String) (price : α) (t : Int) (hc : p.clock ≤ t)
    (hp : ∀ pos ∈ p.positions, pos.clock ≤ t) (hpr : 0 < price) :
    (p.mark a price t).2 = none ∧ ∀ pos ∈ (p.mark a price t).1.positions, pos.clock ≤ t := by
  unfold Portfolio.mark
  split
  · exact ⟨rfl, hp⟩
  · rename_i pos hf
    have hpc := hp pos (find?_mem hf)
    simp only [lt_eq, zero_eq, not_lt.mpr hpr.le, decide_false, Bool.false_eq_true, if_false, not_lt.mpr hc,
      updatePrice_ok pos price t hpc hpr]
    refine ⟨trivial, ?_⟩
    intro x hx
    rcases mem_set hx with rfl | hx
    · exact le_refl _
    · exact hp x hx

theorem transact_ok (pos : Position α) (tx : Txn α) (hc : pos.clock ≤ tx.time) (hpr : 0 < tx.price) :
    (pos.transact tx).2 = none ∧ (pos.transact tx).1.clock ≤ tx.time := by
  simp only [Position.transact]
  split
  · exact ⟨rfl, hc⟩
  · rw [updatePrice_ok _ _ _ hc hpr]
    exact ⟨rfl, le_refl _⟩

theorem openFrom_clock (tx : Txn α) : (Position.openFrom tx).clock = tx.time := by
  unfold Position.openFrom; split <;> rfl

theorem transactPosition_ok (ps : Positions α) (tx : Txn α) (hp : ∀ pos ∈ ps, pos.clock ≤ tx.time)
    (hpr : 0 < tx.price) :
    (ps.transactPosition tx).2 = none ∧ ∀ pos ∈ (ps.transactPosition tx).1, pos.clock ≤ tx.time := by
  unfold Positions.transactPosition
  split
  · rename_i pos hf
    have h := transact_ok pos tx (hp pos (find?_mem hf)) hpr
    rcases ht : pos.transact tx with ⟨p', _ | e⟩
    · rw [ht] at h
      simp only
      split
      · exact ⟨rfl, fun x hx => hp x (mem_erase hx)⟩
      · refine ⟨rfl, fun x hx => ?_⟩
        rcases mem_set hx with rfl | hx
        · exact h.2
        · exact hp x hx
    · rw [ht] at h; simp at h
  · simp only
    split
    · exact ⟨rfl, hp⟩
    · refine ⟨rfl, fun x hx => ?_⟩
      rcases List.mem_append.mp hx with hx | hx
      · exact hp x hx
      · simp only [List.mem_singleton] at hx; subst hx; rw [openFrom_clock]

theorem transactAsset_ok (p : Portfolio α) (tx : Txn α) (hc : p.clock ≤ tx.time)
    (hp : ∀ pos ∈ p.positions, pos.clock ≤ tx.time) (hpr : 0 < tx.price) :
    (p.transactAsset tx).2 = none ∧ (p.transactAsset tx).1.clock ≤ tx.time ∧
    ∀ pos ∈ (p.transactAsset tx).1.positions, pos.clock ≤ tx.time := by
  have h := transactPosition_ok p.positions tx hp hpr
  simp only [Portfolio.transactAsset, not_lt.mpr hc, if_false]
  rcases ht : Positions.transactPosition p.positions tx with ⟨ps, _ | e⟩
  · rw [ht] at h
    exact ⟨rfl, le_refl _, h.2⟩
  · rw [ht] at h; simp at h

/-- no portfolio or position clock is ahead of the broker clock -/
def ClocksOK (b : Broker α) : Prop :=
  ∀ e ∈ b.entries, e.pf.clock ≤ b.clock ∧ ∀ pos ∈ e.pf.positions, pos.clock ≤ b.clock

/-- every quote is a pair of positive prices -/
def QuotesPos (q : Quotes α) : Prop := ∀ a bid ask, q a = some (bid, ask) → 0 < bid ∧ 0 < ask

theorem clocksOK_setPf {b : Broker α} (h : ClocksOK b) (p : Portfolio α) (hc : p.clock ≤ b.clock)
    (hp : ∀ pos ∈ p.positions, pos.clock ≤ b.clock) : ClocksOK (b.setPf p) := by
  intro e he
  simp only [Broker.setPf, List.mem_map] at he
  obtain ⟨x, hx, rfl⟩ := he
  split
  · exact ⟨hc, hp⟩
  · exact h x hx

theorem applyMark_ok (b : Broker α) (pid a : String) (price : α) (h : ClocksOK b)
    (hpid : b.has pid = true) (hpr : 0 < price) :
    (b.applyMark pid a price b.clock).2 = none ∧ ClocksOK (b.applyMark pid a price b.clock).1 := by
  rw [has_iff_find] at hpid
  unfold Broker.applyMark
  split
  · rename_i hf; rw [hf] at hpid; simp at hpid
  · rename_i e hf
    have he := h e (find_mem hf)
    have hm := mark_ok e.pf a price b.clock he.1 he.2 hpr
    have hfr := mark_frame e.pf a price b.clock
    exact ⟨hm.1, clocksOK_setPf h _ (by rw [hfr.2.2.2]; exact he.1) hm.2⟩

theorem makeTxn_quote {b : Broker α} {q : Quotes α} {o : Order} {bid ask : α} (hq : q o.asset = some (bid, ask)) :
    ∃ tx, b.makeTxn q o = .ok tx ∧ tx.time = b.clock ∧ tx.price = (if 0 < o.direction then ask else bid) := by
  unfold Broker.makeTxn
  rw [hq]
  exact ⟨_, rfl, rfl, rfl⟩

theorem executeOrder_ok (b : Broker α) (q : Quotes α) (pid : String) (o : Order) (h : ClocksOK b)
    (hpid : b.has pid = true) (hq : ∃ bid ask, q o.asset = some (bid, ask)) (hpos : QuotesPos q) :
    (b.executeOrder q pid o).2 = none ∧ ClocksOK (b.executeOrder q pid o).1 := by
  rw [has_iff_find] at hpid
  obtain ⟨bid, ask, hq⟩ := hq
  obtain ⟨tx, htx, htime, hprice⟩ := makeTxn_quote (b := b) hq
  have hpr : 0 < tx.price := by
    rw [hprice]; split
    · exact (hpos _ _ _ hq).2
    · exact (hpos _ _ _ hq).1
  simp only [Broker.executeOrder, htx, Broker.applyTxn]
  split
  · rename_i hf; rw [hf] at hpid; simp at hpid
  · rename_i e hf
    have he := h e (find_mem hf)
    rw [← htime] at he
    have ht := transactAsset_ok e.pf tx he.1 he.2 hpr
    rw [htime] at ht
    rcases hta : e.pf.transactAsset tx with ⟨pf, _ | err⟩
    · rw [hta] at ht
      refine ⟨rfl, ?_⟩
      have := clocksOK_setPf h pf ht.2.1 ht.2.2
      exact this
    · rw [hta] at ht; simp at ht

theorem marked_ok (b : Broker α) (t : Int) (q : Quotes α) (hc : ClocksOK b) (ht : b.clock ≤ t)
    (hpos : QuotesPos q) : (b.marked t q).2 = none ∧ ClocksOK (b.marked t q).1 := by
  unfold Broker.marked
  have := runUntilErr_ok (fun b (m : String × String × α) => b.applyMark m.1 m.2.1 m.2.2 t)
    (fun b' => ClocksOK b' ∧ b'.clock = t ∧ b'.qview = b.qview)
    (fun m => b.has m.1 = true ∧ 0 < m.2.2)
    (by
      intro b' m ⟨h1, h2, h3⟩ ⟨hm1, hm2⟩
      have hh : b'.has m.1 = true := by rw [has_of_ids (b := b) (b' := b') (by rw [h3])]; exact hm1
      have := applyMark_ok b' m.1 m.2.1 m.2.2 h1 hh hm2
      rw [h2] at this
      refine ⟨this.1, this.2, ?_, ?_⟩
      · rw [(applyMark_other ..).2.2.1, h2]
      · rw [applyMark_qview, h3])
    (Broker.markTargets { b with clock := t } q) { b with clock := t }
    ⟨fun e he => ⟨le_trans (hc e he).1 ht, fun pos hp => le_trans ((hc e he).2 pos hp) ht⟩, rfl, rfl⟩
    (by
      intro m hm
      simp only [Broker.markTargets, List.mem_flatMap, List.mem_filterMap] at hm
      obtain ⟨e, he, pos, _, hm⟩ := hm
      split at hm
      · rename_i bid ask hq
        simp only [Option.some.injEq] at hm
        subst hm
        have := hpos _ _ _ hq
        refine ⟨has_of_mem he, ?_⟩
        simp only [ofInt_eq]
        have h2 : (0:α) < ((2:Int):α) := by norm_num
        exact div_pos (add_pos this.1 this.2) h2
      · cases hm)
  exact ⟨this.1, this.2.1⟩

/-- the hypotheses of the C04/C05 quantifier for one `update`: clocks are not ahead of the broker, time does
not go backwards, quotes are positive, and (in exchange hours) every queued order's asset is quoted -/
structure UpdateOK (b : Broker α) (t : Int) (q : Quotes α) : Prop where
  clocks : ClocksOK b
  time : b.clock ≤ t
  pos : QuotesPos q
  quoted : isOpen t = true → ∀ x ∈ b.drained, ∃ bid ask, q x.2.asset = some (bid, ask)

theorem clocksOK_clearQueues {b : Broker α} (h : ClocksOK b) : ClocksOK b.clearQueues := by
  intro e he
  simp only [Broker.clearQueues, List.mem_map] at he
  obtain ⟨x, hx, rfl⟩ := he
  exact h x hx

/-- **No execution error.** Under the quantifier's hypotheses `update` returns normally. -/
theorem update_ok (b : Broker α) (t : Int) (q : Quotes α) (h : UpdateOK b t q) :
    (b.update t q).2 = none ∧ ClocksOK (b.update t q).1 := by
  have hm := marked_ok b t q h.clocks h.time h.pos
  by_cases ho : isOpen t = true
  · rw [update_open b t q ho hm.1]
    have hfr := marked_frame b t q
    have := runUntilErr_ok (fun b (x : String × Order) => b.executeOrder q x.1 x.2)
      (fun b' => ClocksOK b' ∧ b'.qview.map (·.1) = b.qview.map (·.1))
      (fun x => b.has x.1 = true ∧ ∃ bid ask, q x.2.asset = some (bid, ask))
      (by
        intro b' x ⟨h1, h2⟩ ⟨hx1, hx2⟩
        have hh : b'.has x.1 = true := by rw [has_of_ids (b := b) (b' := b') h2]; exact hx1
        have := executeOrder_ok b' q x.1 x.2 h1 hh hx2 h.pos
        exact ⟨this.1, this.2, by rw [executeOrder_qview, h2]⟩)
      (sellsFirst (fun (x : String × Order) => x.2.isSell) b.drained) (b.marked t q).1.clearQueues
      ⟨clocksOK_clearQueues hm.2, by rw [clearQueues_qview, hfr.1]; simp [List.map_map, Function.comp_def]⟩
      (by
        intro x hx
        have hx' := (sellsFirst_perm _ _).subset hx
        obtain ⟨e, he, hid, _⟩ := mem_drained hx'
        exact ⟨by rw [hid]; exact has_of_mem he, h.quoted ho x hx'⟩)
    exact ⟨this.1, this.2.1⟩
  · simp only [Bool.not_eq_true] at ho
    rw [update_closed b t q ho]
    exact hm

/-! ## From the quantifier's hypotheses to "every update returns" -/

/-- the per-operation hypotheses of the C04 quantifier: only queue-level operations; an `update` does not
move the clock backwards, carries positive quotes, and (in exchange hours) quotes every queued asset -/
def opOK (b : Broker α) : Op α → Prop
  | .update t q => b.clock ≤ t ∧ QuotesPos q ∧
      (isOpen t = true → ∀ x ∈ b.drained, ∃ bid ask, q x.2.asset = some (bid, ask))
  | .subAcct _ | .wdAcct _ | .create _ | .subPf _ _ | .wdPf _ _ | .submit _ _ => True
  | _ => False

/-- `opOK` checked along the run -/
def TraceOK : Broker α → List (Op α) → Prop
  | _, [] => True
  | b, op :: ops => opOK b op ∧ TraceOK (step b op).1 ops

theorem subscribe_clocks (p : Portfolio α) (t : Int) (a : α) (hc : p.clock ≤ t) :
    (p.subscribe t a).1.clock ≤ t ∧ (p.subscribe t a).1.positions = p.positions := by
  simp only [Portfolio.subscribe]
  split
  · exact ⟨hc, rfl⟩
  · split
    · exact ⟨le_refl _, rfl⟩
    · exact ⟨le_refl _, rfl⟩

theorem withdraw_clocks (p : Portfolio α) (t : Int) (a : α) (hc : p.clock ≤ t) :
    (p.withdraw t a).1.clock ≤ t ∧ (p.withdraw t a).1.positions = p.positions := by
  simp only [Portfolio.withdraw]
  split
  · exact ⟨hc, rfl⟩
  · split
    · exact ⟨le_refl _, rfl⟩
    · split
      · exact ⟨le_refl _, rfl⟩
      · exact ⟨le_refl _, rfl⟩

theorem step_clocksOK (b : Broker α) (op : Op α) (h : ClocksOK b) (hop : opOK b op) :
    ClocksOK (step b op).1 := by
  cases op with
  | subAcct a => simp only [step, Broker.subscribeAccount]; split <;> exact h
  | wdAcct a =>
    simp only [step, Broker.withdrawAccount]
    split
    · exact h
    · split <;> exact h
  | create pid =>
    simp only [step, Broker.createPortfolio]
    split
    · exact h
    · intro e he
      simp only [List.mem_append, List.mem_singleton] at he
      rcases he with he | rfl
      · exact h e he
      · exact ⟨le_refl _, by intro pos hp; cases hp⟩
  | subPf pid a =>
    simp only [step, Broker.subscribePortfolio]
    split
    · exact h
    · split
      · exact h
      · rename_i e hf
        have he := h e (find_mem hf)
        have hs := subscribe_clocks e.pf b.clock a he.1
        split
        · exact h
        · split
          · rename_i pf err hsub
            rw [hsub] at hs
            exact clocksOK_setPf h pf hs.1 (by rw [hs.2]; exact he.2)
          · rename_i pf hsub
            rw [hsub] at hs
            exact clocksOK_setPf h pf hs.1 (by rw [hs.2]; exact he.2)
  | wdPf pid a =>
    simp only [step, Broker.withdrawPortfolio]
    split
    · exact h
    · split
      · exact h
      · rename_i e hf
        have he := h e (find_mem hf)
        have hs := withdraw_clocks e.pf b.clock a he.1
        split
        · exact h
        · split
          · rename_i pf err hsub
            rw [hsub] at hs
            exact clocksOK_setPf h pf hs.1 (by rw [hs.2]; exact he.2)
          · rename_i pf hsub
            rw [hsub] at hs
            exact clocksOK_setPf h pf hs.1 (by rw [hs.2]; exact he.2)
  | submit pid o =>
    simp only [step, Broker.submitOrder]
    split
    · exact h
    · rename_i e hf
      intro e' he'
      simp only [Broker.setEntry, List.mem_map] at he'
      obtain ⟨x, hx, rfl⟩ := he'
      split
      · exact h e (find_mem hf)
      · exact h x hx
  | update t q => exact (update_ok b t q ⟨h, hop.1, hop.2.1, hop.2.2⟩).2
  | _ => exact absurd hop (by simp [opOK])

theorem opOK_isC04 {b : Broker α} {op : Op α} (h : opOK b op) : op.isC04 := by
  cases op <;> simp_all [opOK, Op.isC04]

/-- the quantifier's hypotheses imply the trace hypothesis "every update returns normally" -/
theorem traceOK_returns (b : Broker α) (ops : List (Op α)) (hc : ClocksOK b) (h : TraceOK b ops) :
    (∀ op ∈ ops, op.isC04) ∧ UpdatesReturn b ops := by
  induction ops generalizing b with
  | nil => exact ⟨by simp, trivial⟩
  | cons op os ih =>
    obtain ⟨h1, h2⟩ := ih (step b op).1 (step_clocksOK b op hc h.1) h.2
    refine ⟨?_, ?_, h2⟩
    · intro o ho
      rcases List.mem_cons.mp ho with rfl | ho
      · exact opOK_isC04 h.1
      · exact h1 o ho
    · cases op with
      | update t q => exact (update_ok b t q ⟨hc, h.1.1, h.1.2.1, h.1.2.2⟩).1
      | _ => trivial

end
end Qs
