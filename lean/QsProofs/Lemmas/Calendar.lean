import QsModel.Calendar

/-!
# Calendar lemmas (C12, C13)

Pure `Int`/`Nat`/`List` arithmetic about `Qs.dateRangeDays`, `Qs.bmeRangeDays` and the structural months.
Main results:

* `dateRangeDays_eq_filter` : roll-forward-then-iterate = filter of the day range `[dayOf start, hiOf start end]`;
* `bdayRange_eq`, `weeklyDays_eq` : business-day and weekly instances;
* `findMonth_spec`, `findMonth_eq`, `lbd_spec`, `isBMonthEnd_iff_lbd` : structural month facts;
* `bmeRangeDays_eq_filter` : the business-month-end range = filter of the day range by `isBMonthEnd`.
-/

namespace Qs.Cal
open Qs

/-! ## `daysFrom` -/

theorem mem_daysFrom {lo : Int} {n : Nat} {x : Int} : x ∈ daysFrom lo n ↔ lo ≤ x ∧ x < lo + n := by
  induction n generalizing lo with
  | zero =>
    simp only [daysFrom, List.not_mem_nil, false_iff]
    omega
  | succ n ih =>
    simp only [daysFrom, List.mem_cons, ih]
    omega

theorem daysFrom_pairwise (lo : Int) (n : Nat) : (daysFrom lo n).Pairwise (· < ·) := by
  induction n generalizing lo with
  | zero => simp [daysFrom]
  | succ n ih =>
    simp only [daysFrom, List.pairwise_cons]
    exact ⟨fun x hx => by have := mem_daysFrom.1 hx; omega, ih _⟩

theorem daysFrom_filter_none (p : Int → Bool) (lo : Int) (n : Nat)
    (h : ∀ x, lo ≤ x → x < lo + n → p x = false) : (daysFrom lo n).filter p = [] := by
  induction n generalizing lo with
  | zero => rfl
  | succ n ih =>
    simp only [daysFrom, List.filter_cons]
    rw [h lo (by omega) (by omega)]
    simp only [Bool.false_eq_true, if_false]
    exact ih (lo+1) (fun x h1 h2 => h x (by omega) (by omega))

theorem daysFrom_append (lo : Int) (a b : Nat) :
    daysFrom lo (a + b) = daysFrom lo a ++ daysFrom (lo + a) b := by
  induction a generalizing lo with
  | zero => simp [daysFrom]
  | succ a ih =>
    have : a + 1 + b = (a + b) + 1 := by omega
    rw [this]; simp only [daysFrom, List.cons_append]
    rw [ih (lo+1)]
    have e : lo + 1 + (a : Int) = lo + ((a + 1 : Nat) : Int) := by omega
    rw [e]

/-- filtering a day range keeps it strictly increasing -/
theorem filter_daysFrom_pairwise (p : Int → Bool) (lo : Int) (n : Nat) :
    ((daysFrom lo n).filter p).Pairwise (· < ·) :=
  (daysFrom_pairwise lo n).filter p

theorem mem_filter_daysFrom {p : Int → Bool} {lo : Int} {n : Nat} {x : Int} :
    x ∈ (daysFrom lo n).filter p ↔ lo ≤ x ∧ x < lo + n ∧ p x = true := by
  rw [List.mem_filter, mem_daysFrom]; exact and_assoc

/-! ## The generic iteration -/

/-- the last day `c` whose stamp `c*86400 + todOf start` is `≤ end` -/
def hiOf (start end_ : Int) : Int := (end_ - todOf start) / 86400

theorem hiOf_spec (start end_ c : Int) : c * 86400 + todOf start ≤ end_ ↔ c ≤ hiOf start end_ := by
  unfold hiOf todOf; omega

theorem hiOf_le (start end_ : Int) : hiOf start end_ ≤ dayOf end_ := by
  unfold hiOf todOf dayOf; omega

/-- when the end's time of day is not before the start's, the last day is the end's date -/
theorem hiOf_eq (start end_ : Int) (h : todOf start ≤ todOf end_) : hiOf start end_ = dayOf end_ := by
  unfold hiOf todOf dayOf at *; omega

theorem hiOf_midnight (a b : Int) : hiOf (a * 86400) (b * 86400) = b := by
  unfold hiOf todOf; omega

/-- Stepping from an on-offset day `cur` enumerates exactly the on-offset days in `[cur, hi]`. -/
theorem iterDays_eq_filter (p : Int → Bool) (next : Int → Int)
    (hnext : ∀ d, p d = true → d < next d ∧ p (next d) = true ∧ ∀ x, d < x → x < next d → p x = false)
    (tod end_ hi : Int) (hhi : ∀ c : Int, c * 86400 + tod ≤ end_ ↔ c ≤ hi)
    (fuel : Nat) (cur : Int) (hp : p cur = true) (hfuel : hi - cur < fuel) :
    iterDays next tod end_ fuel cur = (daysFrom cur (hi + 1 - cur).toNat).filter p := by
  induction fuel generalizing cur with
  | zero =>
    have : (hi + 1 - cur).toNat = 0 := by omega
    simp [iterDays, this, daysFrom]
  | succ fuel ih =>
    simp only [iterDays]
    by_cases hle : cur ≤ hi
    · have hc := (hhi cur).2 hle
      simp only [hc, if_true]
      obtain ⟨h1, h2, h3⟩ := hnext cur hp
      by_cases hn : next cur ≤ hi
      · have e : (hi + 1 - cur).toNat = 1 + ((next cur - cur - 1).toNat + (hi + 1 - next cur).toNat) := by
          omega
        rw [e, daysFrom_append, daysFrom_append]
        simp only [daysFrom, List.filter_append, List.filter_cons, hp, if_true,
          List.cons_append, List.nil_append]
        rw [daysFrom_filter_none p _ _ (fun x a b => h3 x (by omega) (by omega))]
        simp only [List.nil_append]
        congr 1
        have e2 : cur + (1 : Nat) + ((next cur - cur - 1).toNat : Int) = next cur := by omega
        rw [e2]
        exact ih (next cur) h2 (by omega)
      · have e : (hi + 1 - cur).toNat = 1 + (hi - cur).toNat := by omega
        rw [e, daysFrom_append]
        simp only [daysFrom, List.filter_cons, hp, if_true,
          List.cons_append, List.nil_append]
        rw [daysFrom_filter_none p _ _ (fun x a b => h3 x (by omega) (by omega))]
        have hc' : ¬ (next cur * 86400 + tod ≤ end_) := fun h => hn ((hhi _).1 h)
        cases fuel with
        | zero => simp [iterDays]
        | succ f => simp only [iterDays]; simp [hc']
    · have hc : ¬ (cur * 86400 + tod ≤ end_) := fun h => hle ((hhi _).1 h)
      have : (hi + 1 - cur).toNat = 0 := by omega
      simp [hc, this, daysFrom]

/-- `pd.date_range(start, end, freq)` = the on-offset days `d` with `dayOf start ≤ d ≤ hiOf start end`.
`next d` must be the least on-offset day strictly after `d`, for every `d`. -/
theorem dateRangeDays_eq_filter (p : Int → Bool) (next : Int → Int)
    (hnext : ∀ d, d < next d ∧ p (next d) = true ∧ ∀ x, d < x → x < next d → p x = false)
    (start end_ : Int) :
    dateRangeDays p next start end_ =
      (daysFrom (dayOf start) (hiOf start end_ + 1 - dayOf start).toNat).filter p := by
  have hle := hiOf_le start end_
  unfold dateRangeDays rollForward
  simp only []
  by_cases hp : p (dayOf start) = true
  · simp only [hp, if_true]
    exact iterDays_eq_filter p next (fun d _ => hnext d) _ _ _ (hiOf_spec start end_) _ _ hp (by omega)
  · simp only [hp]
    simp only [Bool.false_eq_true, if_false]
    obtain ⟨h1, h2, h3⟩ := hnext (dayOf start)
    have hpf : p (dayOf start) = false := by simpa using hp
    rw [iterDays_eq_filter p next (fun d _ => hnext d) _ _ _ (hiOf_spec start end_) _ _ h2 (by omega)]
    by_cases hn : next (dayOf start) ≤ hiOf start end_ + 1
    · have e : (hiOf start end_ + 1 - dayOf start).toNat =
          (next (dayOf start) - dayOf start).toNat + (hiOf start end_ + 1 - next (dayOf start)).toNat := by
        omega
      have hA : (daysFrom (dayOf start) (next (dayOf start) - dayOf start).toNat).filter p = [] :=
        daysFrom_filter_none p _ _ (fun x a b => by
          by_cases hx : x = dayOf start
          · rw [hx]; exact hpf
          · exact h3 x (by omega) (by omega))
      have e2 : dayOf start + ((next (dayOf start) - dayOf start).toNat : Int) = next (dayOf start) := by omega
      rw [e, daysFrom_append, List.filter_append, hA, e2, List.nil_append]
    · have e : (hiOf start end_ + 1 - next (dayOf start)).toNat = 0 := by omega
      rw [e]
      simp only [daysFrom, List.filter_nil]
      symm
      exact daysFrom_filter_none p _ _ (fun x a b => by
        by_cases hx : x = dayOf start
        · rw [hx]; exact hpf
        · exact h3 x (by omega) (by omega))

/-! ## Business days -/

theorem isBDay_iff (d : Int) : isBDay d = true ↔ (d + 3) % 7 ≤ 4 := by
  unfold isBDay weekday; exact decide_eq_true_iff

theorem not_isBDay_iff (d : Int) : isBDay d = false ↔ ¬ (d + 3) % 7 ≤ 4 := by
  unfold isBDay weekday; exact decide_eq_false_iff_not

/-- `nextBDay d` is the least business day strictly after `d` (for every `d`, business day or not) -/
theorem nextBDay_spec (d : Int) :
    d < nextBDay d ∧ isBDay (nextBDay d) = true ∧ ∀ x, d < x → x < nextBDay d → isBDay x = false := by
  simp only [isBDay_iff, not_isBDay_iff, nextBDay, weekday]
  by_cases h4 : (d + 3) % 7 = 4
  · simp only [h4, if_true]; exact ⟨by omega, by omega, fun x h1 h2 => by omega⟩
  · by_cases h5 : (d + 3) % 7 = 5
    · simp only [h5]
      refine ⟨by omega, ?_, fun x h1 h2 => ?_⟩
      · simp only [show ¬ ((5 : Int) = 4) by omega, if_false, if_true]; omega
      · simp only [show ¬ ((5 : Int) = 4) by omega, if_false, if_true] at h2; omega
    · simp only [h4, h5, if_false]; exact ⟨by omega, by omega, fun x h1 h2 => by omega⟩

theorem bdayRange_eq (start end_ : Int) :
    bdayRange start end_ =
      (daysFrom (dayOf start) (hiOf start end_ + 1 - dayOf start).toNat).filter isBDay :=
  dateRangeDays_eq_filter isBDay nextBDay nextBDay_spec start end_

/-! ## Weekly -/

theorem weeklyNext_spec (k : Int) (hk0 : 0 ≤ k) (hk6 : k ≤ 6) (d : Int) :
    d < d + ((k - weekday d - 1) % 7 + 1) ∧
    decide (weekday (d + ((k - weekday d - 1) % 7 + 1)) = k) = true ∧
    ∀ x, d < x → x < d + ((k - weekday d - 1) % 7 + 1) → decide (weekday x = k) = false := by
  simp only [decide_eq_true_eq, decide_eq_false_iff_not]
  simp only [weekday]
  exact ⟨by omega, by omega, fun x h1 h2 => by omega⟩

theorem weeklyDays_eq (k : Int) (hk0 : 0 ≤ k) (hk6 : k ≤ 6) (start end_ : Int) :
    dateRangeDays (fun d => decide (weekday d = k)) (fun d => d + ((k - weekday d - 1) % 7 + 1)) start end_ =
      (daysFrom (dayOf start) (hiOf start end_ + 1 - dayOf start).toNat).filter
        (fun d => decide (weekday d = k)) :=
  dateRangeDays_eq_filter _ _ (weeklyNext_spec k hk0 hk6) start end_

/-! ## Day templates -/

theorem template_time_bounds {pre post : Bool} {d : Int} {e : SimEvent} (h : e ∈ dayTemplate pre post d) :
    d * 86400 ≤ e.time ∧ e.time ≤ d * 86400 + 86340 := by
  rcases e with ⟨t, kd⟩
  cases pre <;> cases post <;> simp [dayTemplate, OPEN, CLOSE] at h <;> simp only [] <;> omega

theorem template_sorted (pre post : Bool) (d : Int) :
    ((dayTemplate pre post d).map (·.time)).Pairwise (· < ·) := by
  cases pre <;> cases post <;>
    simp [dayTemplate, OPEN, CLOSE] <;> omega

theorem template_flatMap_sorted (pre post : Bool) (l : List Int) (hl : l.Pairwise (· < ·)) :
    ((l.flatMap (dayTemplate pre post)).map (·.time)).Pairwise (· < ·) := by
  induction l with
  | nil => simp
  | cons d l ih =>
    rw [List.pairwise_cons] at hl
    rw [List.flatMap_cons, List.map_append, List.pairwise_append]
    refine ⟨template_sorted pre post d, ih hl.2, ?_⟩
    intro a ha b hb
    rw [List.mem_map] at ha hb
    obtain ⟨ea, hea, rfl⟩ := ha
    obtain ⟨eb, heb, rfl⟩ := hb
    rw [List.mem_flatMap] at heb
    obtain ⟨d', hd', heb⟩ := heb
    have h1 := template_time_bounds hea
    have h2 := template_time_bounds heb
    have h3 := hl.1 d' hd'
    omega

/-! ## Structural months -/

theorem monthLen_bounds (k : Nat) : 28 ≤ monthLen k ∧ monthLen k ≤ 31 := by
  unfold monthLen
  simp only []
  split <;> (try split) <;> omega

theorem monthStart_succ (k : Nat) : monthStart (k + 1) = monthStart k + monthLen k := rfl

theorem monthStart_nonneg (k : Nat) : M0 ≤ monthStart k := by
  induction k with
  | zero => simp [monthStart]
  | succ k ih => have := monthLen_bounds k; rw [monthStart_succ]; omega

theorem monthStart_mono {a b : Nat} (h : a ≤ b) : monthStart a ≤ monthStart b := by
  induction b with
  | zero => have : a = 0 := by omega
            subst this; exact Int.le_refl _
  | succ b ih =>
    by_cases hab : a = b + 1
    · subst hab; exact Int.le_refl _
    · have := ih (by omega)
      have := monthLen_bounds b
      rw [monthStart_succ]; omega

/-- day `d` lies in month `k` -/
def InMonth (k : Nat) (d : Int) : Prop := monthStart k ≤ d ∧ d < monthStart (k + 1)

theorem inMonth_unique {k k' : Nat} {d : Int} (h : InMonth k d) (h' : InMonth k' d) : k = k' := by
  unfold InMonth at h h'
  by_cases h1 : k < k'
  · have := monthStart_mono (show k + 1 ≤ k' by omega); omega
  · by_cases h2 : k' < k
    · have := monthStart_mono (show k' + 1 ≤ k by omega); omega
    · omega

theorem findMonthFrom_spec (d : Int) (fuel k : Nat) (hs : monthStart k ≤ d)
    (hf : d - monthStart k < 28 * (fuel : Int)) :
    ∃ k', findMonthFrom d fuel k (monthStart k) = (k', monthStart k') ∧ InMonth k' d := by
  induction fuel generalizing k with
  | zero => omega
  | succ fuel ih =>
    unfold findMonthFrom
    by_cases h : d < monthStart k + monthLen k
    · rw [if_pos h]
      exact ⟨k, rfl, hs, h⟩
    · rw [if_neg h]
      have := monthLen_bounds k
      exact ih (k + 1) (by rw [monthStart_succ]; omega) (by rw [monthStart_succ]; omega)

/-- `findMonth d = (k, monthStart k)` with `monthStart k ≤ d < monthStart (k+1)`, for `d ≥ M0` (1600-01-01) -/
theorem findMonth_spec (d : Int) (hd : M0 ≤ d) :
    ∃ k, findMonth d = (k, monthStart k) ∧ InMonth k d := by
  unfold findMonth
  exact findMonthFrom_spec d _ 0 hd (by simp only [monthStart]; omega)

theorem findMonth_eq {k : Nat} {d : Int} (h : InMonth k d) : findMonth d = (k, monthStart k) := by
  have hd : M0 ≤ d := by have := monthStart_nonneg k; unfold InMonth at h; omega
  obtain ⟨k', he, hk'⟩ := findMonth_spec d hd
  have := inMonth_unique h hk'
  subst this; exact he

theorem findMonth_fst_iff {k : Nat} {d : Int} (hd : M0 ≤ d) : (findMonth d).1 = k ↔ InMonth k d := by
  obtain ⟨k', he, hk'⟩ := findMonth_spec d hd
  rw [he]
  constructor
  · intro h; simp only at h; subst h; exact hk'
  · intro h; exact (inMonth_unique h hk').symm

/-- the last business day of month `k` -/
def lbd (k : Nat) : Int := lastBDayOfMonth k (monthStart k)

/-- `lbd k` lies in the last three days of month `k`, is a business day, and every later day of the month
is a weekend day -/
theorem lbd_spec (k : Nat) :
    monthStart (k + 1) - 3 ≤ lbd k ∧ lbd k < monthStart (k + 1) ∧ isBDay (lbd k) = true ∧
    ∀ x, lbd k < x → x < monthStart (k + 1) → isBDay x = false := by
  simp only [isBDay_iff, not_isBDay_iff, lbd, lastBDayOfMonth, weekday, monthStart_succ]
  by_cases h5 : (monthStart k + monthLen k - 1 + 3) % 7 = 5
  · simp only [h5, if_true]; exact ⟨by omega, by omega, by omega, fun x h1 h2 => by omega⟩
  · by_cases h6 : (monthStart k + monthLen k - 1 + 3) % 7 = 6
    · simp only [h6]
      simp only [show ¬ ((6 : Int) = 5) by omega, if_false, if_true]
      exact ⟨by omega, by omega, by omega, fun x h1 h2 => by omega⟩
    · simp only [h5, h6, if_false]; exact ⟨by omega, by omega, by omega, fun x h1 h2 => by omega⟩

theorem lbd_inMonth (k : Nat) : InMonth k (lbd k) := by
  have := lbd_spec k
  have := monthLen_bounds k
  unfold InMonth; rw [monthStart_succ] at *; omega

theorem lbd_lt_succ (k : Nat) : lbd k < lbd (k + 1) := by
  have h1 := lbd_spec k
  have h2 := lbd_inMonth (k + 1)
  unfold InMonth at h2; omega

theorem isBMonthEnd_of_inMonth {k : Nat} {d : Int} (h : InMonth k d) : isBMonthEnd d = true ↔ d = lbd k := by
  unfold isBMonthEnd
  rw [findMonth_eq h]
  simp only [decide_eq_true_eq, lbd]

theorem isBMonthEnd_lbd (k : Nat) : isBMonthEnd (lbd k) = true :=
  (isBMonthEnd_of_inMonth (lbd_inMonth k)).2 rfl

/-- for `d ≥ 0`: `d` is on the `BME` offset iff it is the last business day of its month -/
theorem isBMonthEnd_iff_lbd {d : Int} (hd : M0 ≤ d) : isBMonthEnd d = true ↔ d = lbd (findMonth d).1 := by
  obtain ⟨k, he, hk⟩ := findMonth_spec d hd
  rw [he]; exact isBMonthEnd_of_inMonth hk

theorem isBMonthEnd_iff_exists {d : Int} (hd : M0 ≤ d) : isBMonthEnd d = true ↔ ∃ k, d = lbd k := by
  constructor
  · intro h; exact ⟨_, (isBMonthEnd_iff_lbd hd).1 h⟩
  · rintro ⟨k, rfl⟩; exact isBMonthEnd_lbd k

/-- no on-offset day inside month `k` before its last business day -/
theorem not_bme_before {k : Nat} {x : Int} (h1 : monthStart k ≤ x) (h2 : x < lbd k) : isBMonthEnd x = false := by
  have hl := lbd_spec k
  have hm : InMonth k x := ⟨h1, by omega⟩
  cases hb : isBMonthEnd x with
  | false => rfl
  | true => have := (isBMonthEnd_of_inMonth hm).1 hb; omega

/-- no on-offset day strictly between consecutive business month ends -/
theorem not_bme_between {k : Nat} {x : Int} (h1 : lbd k < x) (h2 : x < lbd (k + 1)) : isBMonthEnd x = false := by
  by_cases hx : x < monthStart (k + 1)
  · have hl := lbd_inMonth k
    have hm : InMonth k x := ⟨by unfold InMonth at hl; omega, hx⟩
    cases hb : isBMonthEnd x with
    | false => rfl
    | true => have := (isBMonthEnd_of_inMonth hm).1 hb; omega
  · exact not_bme_before (by omega) h2

/-- "last business day of its month" ⇔ business day whose next business day lies in another month -/
theorem isBMonthEnd_char {d : Int} (hd : M0 ≤ d) :
    isBMonthEnd d = true ↔ isBDay d = true ∧ (findMonth (nextBDay d)).1 ≠ (findMonth d).1 := by
  obtain ⟨k, he, hk⟩ := findMonth_spec d hd
  obtain ⟨n1, n2, n3⟩ := nextBDay_spec d
  have hn0 : M0 ≤ nextBDay d := by omega
  have hl := lbd_spec k
  rw [he, isBMonthEnd_of_inMonth hk]
  simp only [ne_eq, findMonth_fst_iff hn0]
  unfold InMonth at *
  constructor
  · intro h
    subst h
    refine ⟨hl.2.2.1, fun hc => ?_⟩
    have := hl.2.2.2 (nextBDay (lbd k)) n1 hc.2
    rw [n2] at this; cases this
  · rintro ⟨hb, hc⟩
    have hnk : monthStart (k + 1) ≤ nextBDay d := by
      by_cases hlt : nextBDay d < monthStart (k + 1)
      · exact absurd ⟨by omega, hlt⟩ hc
      · omega
    by_cases h1 : d < lbd k
    · have := n3 (lbd k) h1 (by omega)
      rw [hl.2.2.1] at this; cases this
    · by_cases h2 : lbd k < d
      · have := hl.2.2.2 d h2 hk.2
        rw [hb] at this; cases this
      · omega

/-! ## Business month ends -/

theorem iterBME_eq_filter (tod end_ hi : Int) (hhi : ∀ c : Int, c * 86400 + tod ≤ end_ ↔ c ≤ hi)
    (fuel k : Nat) (lo : Int) (hlo : lo ≤ lbd k)
    (hnone : ∀ x, lo ≤ x → x < lbd k → isBMonthEnd x = false)
    (hfuel : hi + 3 - monthStart (k + 1) < 28 * (fuel : Int)) :
    iterBME tod end_ fuel k (monthStart k) = (daysFrom lo (hi + 1 - lo).toNat).filter isBMonthEnd := by
  induction fuel generalizing k lo with
  | zero =>
    have hl := lbd_spec k
    simp only [iterBME]
    symm
    exact daysFrom_filter_none _ _ _ (fun x a b => hnone x a (by omega))
  | succ fuel ih =>
    have hl := lbd_spec k
    unfold iterBME
    simp only []
    show (if lbd k * 86400 + tod ≤ end_ then lbd k :: iterBME tod end_ fuel (k + 1) (monthStart (k + 1)) else []) = _
    by_cases hle : lbd k ≤ hi
    · rw [if_pos ((hhi _).2 hle)]
      have e : (hi + 1 - lo).toNat = (lbd k - lo).toNat + ((hi - lbd k).toNat + 1) := by omega
      have hA : (daysFrom lo (lbd k - lo).toNat).filter isBMonthEnd = [] :=
        daysFrom_filter_none _ _ _ (fun x a b => hnone x a (by omega))
      have e2 : lo + ((lbd k - lo).toNat : Int) = lbd k := by omega
      rw [e, daysFrom_append, List.filter_append, hA, e2, List.nil_append]
      simp only [daysFrom, List.filter_cons, isBMonthEnd_lbd, if_true]
      congr 1
      have hm := monthLen_bounds (k + 1)
      have hlt := lbd_lt_succ k
      rw [ih (k + 1) (lbd k + 1) (by omega) (fun x a b => not_bme_between (by omega) b)
        (by rw [monthStart_succ (k + 1)]; omega)]
      congr 2
      omega
    · rw [if_neg (fun h => hle ((hhi _).1 h))]
      symm
      exact daysFrom_filter_none _ _ _ (fun x a b => hnone x a (by omega))

/-- `pd.date_range(start, end, freq='BME')` = the business month ends `d` with `dayOf start ≤ d ≤ hiOf start end` -/
theorem bmeRangeDays_eq_filter (start end_ : Int) (h0 : M0 ≤ dayOf start) :
    bmeRangeDays start end_ =
      (daysFrom (dayOf start) (hiOf start end_ + 1 - dayOf start).toNat).filter isBMonthEnd := by
  obtain ⟨k, he, hk⟩ := findMonth_spec (dayOf start) h0
  have hle := hiOf_le start end_
  unfold bmeRangeDays
  simp only [he]
  unfold InMonth at hk
  have hm := monthLen_bounds (k + 1)
  by_cases hd : dayOf start ≤ lastBDayOfMonth k (monthStart k)
  · rw [if_pos hd]
    simp only []
    exact iterBME_eq_filter _ _ _ (hiOf_spec start end_) _ k _ hd
      (fun x a b => not_bme_before (by omega) b) (by omega)
  · rw [if_neg hd]
    simp only []
    have hlt := lbd_lt_succ k
    have hl := lbd_spec (k + 1)
    have hd' : lbd k < dayOf start := by unfold lbd; omega
    have hs := monthStart_succ (k + 1)
    exact iterBME_eq_filter _ _ _ (hiOf_spec start end_) _ (k + 1) _ (by omega)
      (fun x a b => not_bme_between (by omega) b) (by omega)

/-! ## Stamps, and the clock event of a business day -/

theorem todOf_stamp (pre : Bool) (d : Int) : todOf (stamp pre d) = if pre then OPEN else CLOSE := by
  cases pre <;> simp only [stamp, todOf, OPEN, CLOSE, if_true, if_false, Bool.false_eq_true] <;> omega

theorem dayOf_stamp (pre : Bool) (d : Int) : dayOf (stamp pre d) = d := by
  cases pre <;> simp only [stamp, dayOf, OPEN, CLOSE, if_true, if_false, Bool.false_eq_true] <;> omega

theorem map_stamp_pairwise (pre : Bool) (l : List Int) (h : l.Pairwise (· < ·)) :
    (l.map (stamp pre)).Pairwise (· < ·) :=
  h.map _ (fun a b hab => by unfold stamp; omega)

/-- a business day of the clock's range carries an open and a close event at the stamps -/
theorem meets_core (start end_ : Int) (pre spre spost : Bool) (hle : start ≤ end_) (d : Int)
    (hd : d ∈ bdayRange start end_) :
    ∃ evs, simEvents start end_ spre spost = .ok evs ∧
      ∃ e ∈ evs, e.time = stamp pre d ∧ e.kind = (if pre then EvKind.marketOpen else EvKind.marketClose) := by
  refine ⟨_, by unfold simEvents; rw [if_neg (by omega)], ?_⟩
  refine ⟨⟨stamp pre d, if pre then .marketOpen else .marketClose⟩, ?_, rfl, rfl⟩
  rw [List.mem_flatMap]
  refine ⟨d, hd, ?_⟩
  cases pre <;> cases spre <;> cases spost <;> simp [dayTemplate, stamp]

end Qs.Cal
