import QsProofs.Inst
import QsModel.Pcm
import Mathlib.Data.List.Forall2

/-!
# Helper lemmas for C09 / C19: sorting by string key, `eraseDups`, association lists,
`dictOverlay`, `fullWeightVector`, `rebalanceOrders`, the two order sizers.
-/

set_option linter.unusedSectionVars false
set_option linter.unusedVariables false

namespace Qs
open NumOps Num

/-! ## `String` order -/

theorem str_lt_of_le_of_ne {a b : String} (h : a ≤ b) (hne : a ≠ b) : a < b :=
  String.not_le.mp (fun h' => hne (String.le_antisymm h h'))

theorem str_le_of_lt {a b : String} (h : a < b) : a ≤ b :=
  String.not_lt.mp (fun h' => String.lt_irrefl _ (String.lt_trans h h'))

theorem str_ne_of_lt {a b : String} (h : a < b) : a ≠ b :=
  fun e => String.lt_irrefl _ (e ▸ h)

theorem strLe_trans : ∀ (a b c : String), decide (a ≤ b) = true → decide (b ≤ c) = true → decide (a ≤ c) = true := by
  intro a b c h1 h2
  simp only [decide_eq_true_eq] at *
  exact String.le_trans h1 h2

theorem strLe_total : ∀ (a b : String), (decide (a ≤ b) || decide (b ≤ a)) = true := by
  intro a b
  simp only [Bool.or_eq_true, decide_eq_true_eq]
  exact String.le_total a b

theorem keyLe_trans {β : Type} : ∀ (a b c : String × β),
    decide (a.1 ≤ b.1) = true → decide (b.1 ≤ c.1) = true → decide (a.1 ≤ c.1) = true :=
  fun a b c => strLe_trans a.1 b.1 c.1

theorem keyLe_total {β : Type} : ∀ (a b : String × β), (decide (a.1 ≤ b.1) || decide (b.1 ≤ a.1)) = true :=
  fun a b => strLe_total a.1 b.1

/-- a strictly ascending list of strings has no duplicates -/
theorem nodup_of_pairwise_lt {l : List String} (h : l.Pairwise (· < ·)) : l.Nodup :=
  h.imp (fun hab => str_ne_of_lt hab)

/-- two strictly ascending lists with the same members are equal -/
theorem eq_of_pairwise_lt_of_mem_iff {l₁ l₂ : List String} (h₁ : l₁.Pairwise (· < ·)) (h₂ : l₂.Pairwise (· < ·))
    (hm : ∀ a, a ∈ l₁ ↔ a ∈ l₂) : l₁ = l₂ := by
  have hp : l₁.Perm l₂ :=
    (List.perm_ext_iff_of_nodup (nodup_of_pairwise_lt h₁) (nodup_of_pairwise_lt h₂)).mpr hm
  exact hp.eq_of_pairwise (le := (· < ·))
    (fun a b _ _ hab hba => absurd (String.lt_trans hab hba) (String.lt_irrefl _)) h₁ h₂

/-! ## `eraseDups` -/

theorem eraseDups_sublist {γ : Type} [BEq γ] : ∀ (l : List γ), l.eraseDups.Sublist l
  | [] => by simp
  | a :: as => by
    rw [List.eraseDups_cons]
    exact ((eraseDups_sublist _).trans List.filter_sublist).cons_cons a
termination_by l => l.length
decreasing_by
  simp only [List.length_cons]
  exact Nat.lt_succ_of_le (List.length_filter_le _ _)

theorem eraseDups_nodup {γ : Type} [BEq γ] [LawfulBEq γ] : ∀ (l : List γ), l.eraseDups.Nodup
  | [] => by simp
  | a :: as => by
    rw [List.eraseDups_cons, List.nodup_cons]
    refine ⟨?_, eraseDups_nodup _⟩
    rw [List.mem_eraseDups]
    simp
termination_by l => l.length
decreasing_by
  simp only [List.length_cons]
  exact Nat.lt_succ_of_le (List.length_filter_le _ _)

/-! ## `sortDedup` -/

theorem mem_sortDedup {xs : List String} {a : String} : a ∈ sortDedup xs ↔ a ∈ xs := by
  unfold sortDedup
  rw [List.mem_eraseDups]
  exact (List.mergeSort_perm xs _).mem_iff

theorem sortDedup_nodup (xs : List String) : (sortDedup xs).Nodup := eraseDups_nodup _

theorem sortDedup_pairwise_lt (xs : List String) : (sortDedup xs).Pairwise (· < ·) := by
  unfold sortDedup
  have h1 : (xs.mergeSort (fun a b => decide (a ≤ b))).Pairwise (fun a b => decide (a ≤ b) = true) :=
    List.pairwise_mergeSort strLe_trans strLe_total xs
  have h2 := List.Pairwise.sublist (eraseDups_sublist _) h1
  have h3 : ((xs.mergeSort (fun a b => decide (a ≤ b))).eraseDups).Pairwise (· ≠ ·) := eraseDups_nodup _
  exact (h2.and h3).imp (fun ⟨hle, hne⟩ => str_lt_of_le_of_ne (of_decide_eq_true hle) hne)

/-- `sortDedup` is the unique strictly ascending list with the members of its input -/
theorem sortDedup_eq_of {xs l : List String} (hl : l.Pairwise (· < ·)) (hm : ∀ a, a ∈ l ↔ a ∈ xs) :
    sortDedup xs = l :=
  eq_of_pairwise_lt_of_mem_iff (sortDedup_pairwise_lt xs) hl (fun a => by rw [mem_sortDedup, hm])

/-! ## association lists with `String` keys -/

section Assoc
variable {β : Type}

theorem any_key_iff (d : List (String × β)) (k : String) :
    (d.any fun x => x.1 == k) = true ↔ k ∈ d.map (·.1) := by
  simp only [List.any_eq_true, beq_iff_eq, List.mem_map]

theorem lookup_eq_none_iff (d : List (String × β)) (k : String) :
    d.lookup k = none ↔ k ∉ d.map (·.1) := by
  induction d with
  | nil => simp
  | cons x xs ih =>
    obtain ⟨k', v⟩ := x
    rw [List.lookup_cons]
    by_cases h : k = k'
    · subst h; simp
    · have : (k == k') = false := by simpa using h
      simp only [this, List.map_cons, List.mem_cons, not_or]
      rw [ih]
      exact ⟨fun h' => ⟨h, h'⟩, fun h' => h'.2⟩

theorem mem_of_lookup_eq_some {d : List (String × β)} {k : String} {v : β} (h : d.lookup k = some v) :
    (k, v) ∈ d := by
  induction d with
  | nil => simp at h
  | cons x xs ih =>
    obtain ⟨k', v'⟩ := x
    rw [List.lookup_cons] at h
    by_cases hk : k = k'
    · subst hk
      simp only [beq_self_eq_true, Option.some.injEq] at h
      subst h; exact List.mem_cons_self
    · have : (k == k') = false := by simpa using hk
      simp only [this] at h
      exact List.mem_cons_of_mem _ (ih h)

theorem lookup_eq_some_of_mem {d : List (String × β)} (hd : (d.map (·.1)).Nodup) {k : String} {v : β}
    (h : (k, v) ∈ d) : d.lookup k = some v := by
  induction d with
  | nil => simp at h
  | cons x xs ih =>
    obtain ⟨k', v'⟩ := x
    rw [List.map_cons, List.nodup_cons] at hd
    rw [List.lookup_cons]
    rcases List.mem_cons.mp h with h1 | h1
    · cases h1; simp
    · have hk : k ≠ k' := by
        intro e
        exact hd.1 (List.mem_map.mpr ⟨(k, v), h1, e⟩)
      have : (k == k') = false := by simpa using hk
      simp only [this]
      exact ih hd.2 h1

theorem lookup_isSome_of_mem_keys {d : List (String × β)} {k : String} (h : k ∈ d.map (·.1)) :
    ∃ v, d.lookup k = some v := by
  cases hl : d.lookup k with
  | none => exact absurd h ((lookup_eq_none_iff d k).mp hl)
  | some v => exact ⟨v, rfl⟩

/-- values of a key are unique when keys are pairwise distinct -/
theorem val_unique {d : List (String × β)} (hd : (d.map (·.1)).Nodup) {k : String} {v v' : β}
    (h : (k, v) ∈ d) (h' : (k, v') ∈ d) : v = v' := by
  have := lookup_eq_some_of_mem hd h
  rw [lookup_eq_some_of_mem hd h'] at this
  exact (Option.some.inj this).symm

/-! ## `dictOverlay` -/

theorem dictOverlay_keys (d1 d2 : List (String × β)) :
    (dictOverlay d1 d2).map (·.1) =
      d1.map (·.1) ++ (d2.map (·.1)).filter (fun k => decide (k ∉ d1.map (·.1))) := by
  unfold dictOverlay
  simp only [List.map_append, List.map_map]
  congr 1
  rw [List.filter_map]
  congr 1
  apply List.filter_congr
  intro x _
  obtain ⟨k, v⟩ := x
  simp only [Function.comp]
  by_cases h : k ∈ d1.map (·.1)
  · simp only [(any_key_iff d1 k).mpr h, Bool.not_true, h, not_true_eq_false, decide_false]
  · have : (d1.any fun x => x.1 == k) = false := by
      cases hh : (d1.any fun x => x.1 == k) with
      | false => rfl
      | true => exact absurd ((any_key_iff d1 k).mp hh) h
    simp only [this, Bool.not_false, h, not_false_eq_true, decide_true]

theorem mem_dictOverlay {d1 d2 : List (String × β)} {a : String} {w : β} :
    (a, w) ∈ dictOverlay d1 d2 ↔
      (∃ v, (a, v) ∈ d1 ∧ w = (d2.lookup a).getD v) ∨ ((a, w) ∈ d2 ∧ a ∉ d1.map (·.1)) := by
  unfold dictOverlay
  rw [List.mem_append, List.mem_filter]
  have e1 : (a, w) ∈ List.map (fun x : String × β => (x.1, (d2.lookup x.1).getD x.2)) d1 ↔
      ∃ k v, (k, v) ∈ d1 ∧ k = a ∧ (d2.lookup k).getD v = w := by
    simp only [List.mem_map, Prod.mk.injEq, Prod.exists]
  show (a, w) ∈ List.map (fun x : String × β => (x.1, (d2.lookup x.1).getD x.2)) d1 ∨ _ ↔ _
  rw [e1]
  constructor
  · rintro (⟨k, v, hkv, rfl, rfl⟩ | ⟨hm, hf⟩)
    · exact Or.inl ⟨v, hkv, rfl⟩
    · refine Or.inr ⟨hm, ?_⟩
      intro hin
      have hf' : (!d1.any fun x => x.1 == a) = true := hf
      rw [(any_key_iff d1 a).mpr hin] at hf'
      simp at hf'
  · rintro (⟨v, hv, rfl⟩ | ⟨hm, hn⟩)
    · exact Or.inl ⟨a, v, hv, rfl, rfl⟩
    · refine Or.inr ⟨hm, ?_⟩
      show (!d1.any fun x => x.1 == a) = true
      cases hh : (d1.any fun x => x.1 == a) with
      | false => rfl
      | true => exact absurd ((any_key_iff d1 a).mp hh) hn

theorem dictOverlay_keys_nodup {d1 d2 : List (String × β)} (h1 : (d1.map (·.1)).Nodup)
    (h2 : (d2.map (·.1)).Nodup) : ((dictOverlay d1 d2).map (·.1)).Nodup := by
  rw [dictOverlay_keys, List.nodup_append]
  refine ⟨h1, h2.sublist List.filter_sublist, ?_⟩
  intro a ha b hb
  rw [List.mem_filter] at hb
  rintro rfl
  exact (of_decide_eq_true hb.2) ha

end Assoc

/-! ## `fullAssetList`, `fullWeightVector` -/

section FW
variable {α : Type} [NumOps α]

theorem mem_fullAssetList {held : List (String × Int)} {uni : List String} {a : String} :
    a ∈ fullAssetList held uni ↔ a ∈ held.map (·.1) ∨ a ∈ uni := by
  unfold fullAssetList
  rw [mem_sortDedup, List.mem_append]

theorem zeroVec_keys (l : List String) : (l.map fun a => (a, (Num.zero : α))).map (·.1) = l := by
  simp [List.map_map, Function.comp_def]

theorem fullWeightVector_keys (held : List (String × Int)) (uni : List String) (opt : List (String × α)) :
    (fullWeightVector held uni opt).map (·.1) =
      fullAssetList held uni ++
        (opt.map (·.1)).filter (fun k => decide (k ∉ fullAssetList held uni)) := by
  unfold fullWeightVector
  rw [dictOverlay_keys, zeroVec_keys]

theorem mem_fullWeightVector_keys {held : List (String × Int)} {uni : List String} {opt : List (String × α)}
    {a : String} :
    a ∈ (fullWeightVector held uni opt).map (·.1) ↔
      a ∈ held.map (·.1) ∨ a ∈ uni ∨ a ∈ opt.map (·.1) := by
  rw [fullWeightVector_keys, List.mem_append, List.mem_filter]
  simp only [decide_eq_true_eq, mem_fullAssetList]
  constructor
  · rintro ((h | h) | h)
    · exact Or.inl h
    · exact Or.inr (Or.inl h)
    · exact Or.inr (Or.inr h.1)
  · rintro (h | h | h)
    · exact Or.inl (Or.inl h)
    · exact Or.inl (Or.inr h)
    · by_cases hh : a ∈ held.map (·.1) ∨ a ∈ uni
      · exact Or.inl hh
      · exact Or.inr ⟨h, hh⟩

theorem fullWeightVector_keys_nodup {held : List (String × Int)} {uni : List String} {opt : List (String × α)}
    (h : (opt.map (·.1)).Nodup) : ((fullWeightVector held uni opt).map (·.1)).Nodup := by
  unfold fullWeightVector
  apply dictOverlay_keys_nodup _ h
  rw [zeroVec_keys]
  exact sortDedup_nodup _

theorem mem_fullWeightVector {held : List (String × Int)} {uni : List String} {opt : List (String × α)}
    {a : String} {w : α} :
    (a, w) ∈ fullWeightVector held uni opt ↔
      (a ∈ fullAssetList held uni ∧ w = (opt.lookup a).getD Num.zero) ∨
      ((a, w) ∈ opt ∧ a ∉ fullAssetList held uni) := by
  unfold fullWeightVector
  rw [mem_dictOverlay, zeroVec_keys]
  simp only [List.mem_map, Prod.mk.injEq]
  constructor
  · rintro (⟨v, ⟨a', ha', rfl, rfl⟩, rfl⟩ | h)
    · exact Or.inl ⟨ha', rfl⟩
    · exact Or.inr h
  · rintro (⟨ha, rfl⟩ | h)
    · exact Or.inl ⟨_, ⟨a, ha, rfl, rfl⟩, rfl⟩
    · exact Or.inr h

/-- the recorded weight of `a` is alpha's weight where alpha has one, zero otherwise -/
theorem fullWeightVector_weight {held : List (String × Int)} {uni : List String} {opt : List (String × α)}
    (h : (opt.map (·.1)).Nodup) {a : String} {w : α} (hm : (a, w) ∈ fullWeightVector held uni opt) :
    w = (opt.lookup a).getD Num.zero := by
  rcases mem_fullWeightVector.mp hm with ⟨_, rfl⟩ | ⟨hm, _⟩
  · rfl
  · rw [lookup_eq_some_of_mem h hm]; rfl

/-- `pcmCall` succeeds exactly when the sizer does; it records the full weight vector and returns the
rebalance orders of the sizer's target against the holdings. -/
theorem pcmCall_ok_iff {held : List (String × Int)} {uni : List String} {alpha : List (String × α)}
    {sizer : List (String × α) → Except Err (List (String × Int))} {r : PcmResult α} :
    pcmCall held uni alpha sizer = .ok r ↔
      ∃ target, sizer (fullWeightVector held uni alpha) = .ok target ∧
        r = ⟨fullWeightVector held uni alpha, rebalanceOrders target held⟩ := by
  unfold pcmCall fixedWeight
  show (sizer (fullWeightVector held uni alpha) >>= fun target =>
    (pure ⟨fullWeightVector held uni alpha, rebalanceOrders target held⟩ : Except Err (PcmResult α))) = _ ↔ _
  cases hs : sizer (fullWeightVector held uni alpha) with
  | error e =>
    constructor
    · intro h; cases h
    · rintro ⟨t, ht, _⟩; cases ht
  | ok t =>
    constructor
    · intro h; cases h; exact ⟨t, rfl, rfl⟩
    · rintro ⟨t', ht, rfl⟩; cases ht; rfl

end FW

/-! ## `sortByKey` -/

section SortByKey
variable {β γ : Type}

theorem sortByKey_perm (l : List (String × β)) : (sortByKey l).Perm l := List.mergeSort_perm _ _

theorem mem_sortByKey_pcm {l : List (String × β)} {x : String × β} : x ∈ sortByKey l ↔ x ∈ l :=
  (sortByKey_perm l).mem_iff

theorem sortByKey_keys (l : List (String × β)) :
    (sortByKey l).map (·.1) = (l.map (·.1)).mergeSort (fun a b => decide (a ≤ b)) :=
  List.map_mergeSort (fun _ _ _ _ => rfl)

theorem sortByKey_keys_perm (l : List (String × β)) : ((sortByKey l).map (·.1)).Perm (l.map (·.1)) :=
  (sortByKey_perm l).map _

theorem sortByKey_keys_pairwise_le (l : List (String × β)) : ((sortByKey l).map (·.1)).Pairwise (· ≤ ·) := by
  rw [sortByKey_keys]
  exact (List.pairwise_mergeSort strLe_trans strLe_total _).imp (fun h => of_decide_eq_true h)

theorem sortByKey_keys_pairwise_lt {l : List (String × β)} (h : (l.map (·.1)).Nodup) :
    ((sortByKey l).map (·.1)).Pairwise (· < ·) := by
  have h1 := sortByKey_keys_pairwise_le l
  have h2 : ((sortByKey l).map (·.1)).Pairwise (· ≠ ·) := (sortByKey_keys_perm l).nodup_iff.mpr h
  exact (h1.and h2).imp (fun ⟨hle, hne⟩ => str_lt_of_le_of_ne hle hne)

theorem sortByKey_keys_eq_sortDedup {l : List (String × β)} (h : (l.map (·.1)).Nodup) :
    (sortByKey l).map (·.1) = sortDedup (l.map (·.1)) :=
  (sortDedup_eq_of (sortByKey_keys_pairwise_lt h) (fun a => (sortByKey_keys_perm l).mem_iff)).symm

/-- sorting commutes with any map that keeps the keys -/
theorem sortByKey_map (g : String × β → String × γ) (hg : ∀ x, (g x).1 = x.1) (l : List (String × β)) :
    sortByKey (l.map g) = (sortByKey l).map g := by
  unfold sortByKey
  exact (List.map_mergeSort (fun a _ b _ => by rw [hg a, hg b])).symm

/-- a list already strictly ascending by key is left alone -/
theorem sortByKey_of_pairwise_lt {l : List (String × β)} (h : (l.map (·.1)).Pairwise (· < ·)) :
    sortByKey l = l := by
  unfold sortByKey
  apply List.mergeSort_of_pairwise
  rw [List.pairwise_map] at h
  exact h.imp (fun hab => decide_eq_true (str_le_of_lt hab))

end SortByKey

/-! ## `rebalanceOrders` -/

/-- the signed difference for one target entry -/
abbrev diffOf (held : List (String × Int)) (x : String × Int) : String × Int :=
  (x.1, x.2 - (held.lookup x.1).getD 0)

theorem rebalanceOrders_eq (target held : List (String × Int)) :
    rebalanceOrders target held =
      ((sortByKey target).map (diffOf held)).filter (fun x => decide (x.2 ≠ 0)) := by
  unfold rebalanceOrders
  have : (target.map fun (x : String × Int) => match x with
      | (a, q) => (a, q - (held.lookup a).getD 0)) = target.map (diffOf held) := by
    apply List.map_congr_left
    rintro ⟨a, q⟩ _; rfl
  simp only [this]
  rw [sortByKey_map (diffOf held) (fun _ => rfl)]

theorem filter_map_eq_filterMap {γ δ : Type} (f : γ → δ) (p : δ → Bool) (l : List γ) :
    (l.map f).filter p = l.filterMap (fun x => if p (f x) then some (f x) else none) := by
  induction l with
  | nil => rfl
  | cons x xs ih =>
    rw [List.map_cons, List.filter_cons, List.filterMap_cons]
    by_cases h : p (f x) = true
    · simp only [h, if_true, ih]
    · simp only [h, ih]; rfl

theorem rebalanceOrders_eq_filterMap (target held : List (String × Int)) :
    rebalanceOrders target held =
      (sortByKey target).filterMap (fun x =>
        if x.2 - (held.lookup x.1).getD 0 ≠ 0 then some (x.1, x.2 - (held.lookup x.1).getD 0) else none) := by
  rw [rebalanceOrders_eq, filter_map_eq_filterMap]
  apply List.filterMap_congr
  intro x _
  by_cases h : x.2 - (held.lookup x.1).getD 0 = 0 <;> simp [diffOf, h]

theorem mem_rebalanceOrders {target held : List (String × Int)} {a : String} {d : Int} :
    (a, d) ∈ rebalanceOrders target held ↔
      ∃ q, (a, q) ∈ target ∧ d = q - (held.lookup a).getD 0 ∧ d ≠ 0 := by
  rw [rebalanceOrders_eq, List.mem_filter, List.mem_map]
  constructor
  · rintro ⟨⟨⟨a', q⟩, hm, he⟩, hd⟩
    simp only [diffOf, Prod.mk.injEq] at he
    obtain ⟨rfl, rfl⟩ := he
    exact ⟨q, mem_sortByKey_pcm.mp hm, rfl, of_decide_eq_true hd⟩
  · rintro ⟨q, hm, rfl, hd⟩
    exact ⟨⟨(a, q), mem_sortByKey_pcm.mpr hm, rfl⟩, decide_eq_true hd⟩

theorem rebalanceOrders_keys_sublist (target held : List (String × Int)) :
    ((rebalanceOrders target held).map (·.1)).Sublist ((sortByKey target).map (·.1)) := by
  rw [rebalanceOrders_eq]
  have h1 : (((sortByKey target).map (diffOf held)).filter (fun x => decide (x.2 ≠ 0))).Sublist
      ((sortByKey target).map (diffOf held)) := List.filter_sublist
  have h2 := h1.map (·.1)
  simpa [List.map_map, Function.comp_def] using h2

theorem rebalanceOrders_keys_pairwise_lt {target : List (String × Int)} (h : (target.map (·.1)).Nodup)
    (held : List (String × Int)) : ((rebalanceOrders target held).map (·.1)).Pairwise (· < ·) :=
  (sortByKey_keys_pairwise_lt h).sublist (rebalanceOrders_keys_sublist target held)

theorem rebalanceOrders_ne_zero {target held : List (String × Int)} {o : String × Int}
    (h : o ∈ rebalanceOrders target held) : o.2 ≠ 0 := by
  obtain ⟨a, d⟩ := o
  obtain ⟨_, _, _, hd⟩ := mem_rebalanceOrders.mp h
  exact hd

/-! ## executing orders on holdings (arithmetic) -/

/-- total ordered quantity for asset `a` -/
def orderedQty (orders : List (String × Int)) (a : String) : Int :=
  ((orders.filter (fun o => o.1 == a)).map (·.2)).sum

/-- holdings after every order has filled in full: `held a + Σ orders for a` -/
def applyOrders (held orders : List (String × Int)) (a : String) : Int :=
  (held.lookup a).getD 0 + orderedQty orders a

theorem orderedQty_perm {l₁ l₂ : List (String × Int)} (h : l₁.Perm l₂) (a : String) :
    orderedQty l₁ a = orderedQty l₂ a :=
  ((h.filter _).map _).sum_eq

theorem orderedQty_filter_ne_zero (l : List (String × Int)) (a : String) :
    orderedQty (l.filter (fun x => decide (x.2 ≠ 0))) a = orderedQty l a := by
  unfold orderedQty
  induction l with
  | nil => rfl
  | cons x xs ih =>
    by_cases h0 : x.2 = 0
    · have : decide (x.2 ≠ 0) = false := by simp [h0]
      rw [List.filter_cons, this]
      simp only [Bool.false_eq_true, if_false]
      rw [ih, List.filter_cons]
      by_cases hk : (x.1 == a) = true
      · simp [hk, h0]
      · simp [hk]
    · have : decide (x.2 ≠ 0) = true := by simp [h0]
      rw [List.filter_cons, this]
      simp only [if_true]
      rw [List.filter_cons, List.filter_cons (xs := xs)]
      by_cases hk : (x.1 == a) = true
      · simp only [hk, if_true, List.map_cons, List.sum_cons, ih]
      · simp only [hk, Bool.false_eq_true, if_false]; exact ih

theorem orderedQty_of_not_mem {l : List (String × Int)} {a : String} (h : a ∉ l.map (·.1)) :
    orderedQty l a = 0 := by
  unfold orderedQty
  have : l.filter (fun o => o.1 == a) = [] := by
    rw [List.filter_eq_nil_iff]
    intro x hx hxa
    exact h (List.mem_map.mpr ⟨x, hx, by simpa using hxa⟩)
  rw [this]; rfl

theorem orderedQty_diff_of_mem {target held : List (String × Int)} (ht : (target.map (·.1)).Nodup)
    {a : String} {q : Int} (hm : (a, q) ∈ target) :
    orderedQty (target.map (diffOf held)) a = q - (held.lookup a).getD 0 := by
  induction target with
  | nil => simp at hm
  | cons x xs ih =>
    rw [List.map_cons, List.nodup_cons] at ht
    have hkeys : (xs.map (diffOf held)).map (·.1) = xs.map (·.1) := by
      simp [List.map_map, Function.comp_def]
    rcases List.mem_cons.mp hm with h1 | h1
    · subst h1
      have hrest : orderedQty (xs.map (diffOf held)) a = 0 :=
        orderedQty_of_not_mem (by rw [hkeys]; exact ht.1)
      unfold orderedQty at hrest ⊢
      rw [List.map_cons, List.filter_cons]
      simp only [diffOf, beq_self_eq_true, if_true, List.map_cons, List.sum_cons]
      rw [hrest]; simp
    · have hne : x.1 ≠ a := by
        intro e
        exact ht.1 (List.mem_map.mpr ⟨(a, q), h1, e.symm⟩)
      have := ih ht.2 h1
      unfold orderedQty at this ⊢
      rw [List.map_cons, List.filter_cons]
      have hb : ((diffOf held x).1 == a) = false := by simpa [diffOf] using hne
      simp only [hb]
      exact this

theorem orderedQty_rebalanceOrders (target held : List (String × Int)) (a : String) :
    orderedQty (rebalanceOrders target held) a = orderedQty (target.map (diffOf held)) a := by
  rw [rebalanceOrders_eq, orderedQty_filter_ne_zero]
  exact orderedQty_perm ((sortByKey_perm target).map _) a

/-! ## `mapM` in `Except` -/

theorem mapM_ok_forall₂ {ε γ δ : Type} (f : γ → Except ε δ) :
    ∀ (l : List γ) (r : List δ), l.mapM f = .ok r → List.Forall₂ (fun x y => f x = .ok y) l r
  | [], r, h => by
    rw [List.mapM_nil] at h
    cases h
    exact .nil
  | x :: xs, r, h => by
    rw [List.mapM_cons] at h
    cases hx : f x with
    | error e => rw [hx] at h; cases h
    | ok y =>
      cases hxs : xs.mapM f with
      | error e => rw [hx, hxs] at h; cases h
      | ok ys =>
        rw [hx, hxs] at h
        cases h
        exact .cons hx (mapM_ok_forall₂ f xs ys hxs)

theorem forall₂_keys {γ δ : Type} {R : String × γ → String × δ → Prop} (hk : ∀ x y, R x y → y.1 = x.1)
    {l : List (String × γ)} {r : List (String × δ)} (h : List.Forall₂ R l r) :
    r.map (·.1) = l.map (·.1) := by
  induction h with
  | nil => rfl
  | cons hxy _ ih => rw [List.map_cons, List.map_cons, ih, hk _ _ hxy]

theorem forall₂_mem_left {γ δ : Type} {R : γ → δ → Prop} {l : List γ} {r : List δ} (h : List.Forall₂ R l r)
    {x : γ} (hx : x ∈ l) : ∃ y ∈ r, R x y := by
  induction h with
  | nil => simp at hx
  | cons hxy _ ih =>
    rcases List.mem_cons.mp hx with rfl | hx'
    · exact ⟨_, List.mem_cons_self, hxy⟩
    · obtain ⟨y, hy, hr⟩ := ih hx'
      exact ⟨y, List.mem_cons_of_mem _ hy, hr⟩

/-! ## the two order sizers -/

section SizerSpec
variable {α : Type} [NumOps α]

/-- the sizer returns one quantity per weight, for exactly the keys it is given, in ascending key order -/
def SizerKeys (sizer : List (String × α) → Except Err (List (String × Int))) : Prop :=
  ∀ w target, sizer w = .ok target → target.map (·.1) = (sortByKey w).map (·.1)

/-- a zero weight is sized to a zero quantity -/
def SizerZero (sizer : List (String × α) → Except Err (List (String × Int))) : Prop :=
  ∀ w target a, sizer w = .ok target → (a, (Num.zero : α)) ∈ w → (a, (0 : Int)) ∈ target

end SizerSpec

section Sizers
variable {α : Type} [Field α] [LinearOrder α] [IsStrictOrderedRing α] [FloorRing α] [NumOps α] [LawfulNumOps α]

theorem totalCost_zero_pcm (fee : FeeModel α) : fee.totalCost (0 : α) = 0 := by
  cases fee <;> simp [FeeModel.totalCost]

/-- a zero weight buys nothing (any price: in the field carrier `0 / p = 0` also at `p = 0`) -/
theorem dwQuantity_zero (fee : FeeModel α) (E p : α) : dwQuantity fee E 0 p = 0 := by
  simp [dwQuantity, totalCost_zero_pcm]

theorem truncI_zero : truncI (0 : α) = 0 := by simp [truncI]

theorem lsQuantity_zero (fee : FeeModel α) (E p : α) : lsQuantity fee E 0 p = 0 := by
  simp [lsQuantity, totalCost_zero_pcm, truncI_zero]

theorem priceStep_ok {price : String → Option α} {F : String → α → α → Int} {x : String × α}
    {y : String × Int}
    (h : (match x with
          | (a, weight) =>
            match price a with
            | none => (Except.error Err.value : Except Err (String × Int))
            | some p => Except.ok (a, F a weight p)) = Except.ok y) :
    ∃ p, price x.1 = some p ∧ y = (x.1, F x.1 x.2 p) := by
  obtain ⟨a, wt⟩ := x
  simp only at h
  cases hp : price a with
  | none => rw [hp] at h; cases h
  | some p => rw [hp] at h; cases h; exact ⟨p, rfl, rfl⟩

/-- what a successful `dwSize` call returns: the (optionally normalised, `g`) weights in ascending key order,
each priced and floored -/
theorem dwSize_ok {fee : FeeModel α} {E b : α} {price : String → Option α} {w : Weights α}
    {target : Quantities} (h : dwSize fee E b price w = .ok target) :
    ∃ g : α → α, g 0 = 0 ∧
      List.Forall₂ (fun x y => ∃ p, price x.1 = some p ∧
          y = (x.1, dwQuantity fee (E * (one - b)) (g x.2) p)) (sortByKey w) target := by
  unfold dwSize at h
  simp only at h
  split at h
  · rename_i he
    cases h
    have : w = [] := List.isEmpty_iff.mp he
    subst this
    refine ⟨id, rfl, ?_⟩
    simp only [sortByKey, List.mergeSort_nil]
    exact .nil
  · cases hn : dwNormalise w with
    | error e => rw [hn] at h; cases h
    | ok nw =>
      rw [hn] at h
      have hf := mapM_ok_forall₂ _ _ _ h
      unfold dwNormalise at hn
      split at hn
      · cases hn
      · simp only at hn
        split at hn
        · cases hn
          exact ⟨id, rfl, hf.imp (fun x y hxy => priceStep_ok (F := fun _ wt p => dwQuantity fee (E * (one - b)) wt p) hxy)⟩
        · cases hn
          rw [sortByKey_map (fun x : String × α => (x.1, x.2 / sumNeumaier (w.map (·.2)))) (fun _ => rfl),
            List.forall₂_map_left_iff] at hf
          exact ⟨(· / sumNeumaier (w.map (·.2))), zero_div _,
            hf.imp (fun x y hxy => priceStep_ok (F := fun _ wt p => dwQuantity fee (E * (one - b)) wt p) hxy)⟩

theorem lsSize_ok {fee : FeeModel α} {E lev : α} {price : String → Option α} {w : Weights α}
    {target : Quantities} (h : lsSize fee E lev price w = .ok target) :
    ∃ g : α → α, g 0 = 0 ∧
      List.Forall₂ (fun x y => ∃ p, price x.1 = some p ∧
          y = (x.1, lsQuantity fee E (g x.2) p)) (sortByKey w) target := by
  unfold lsSize at h
  split at h
  · rename_i he
    cases h
    have : w = [] := List.isEmpty_iff.mp he
    subst this
    refine ⟨id, rfl, ?_⟩
    simp only [sortByKey, List.mergeSort_nil]
    exact .nil
  · have hf := mapM_ok_forall₂ _ _ _ h
    unfold lsNormalise at hf
    simp only at hf
    split at hf
    · exact ⟨id, rfl, hf.imp (fun x y hxy => priceStep_ok (F := fun _ wt p => lsQuantity fee E wt p) hxy)⟩
    · rw [sortByKey_map (fun x : String × α => (x.1, x.2 * (lev / sumNaive (w.map fun x => NumOps.abs x.2))))
        (fun _ => rfl), List.forall₂_map_left_iff] at hf
      exact ⟨(· * (lev / sumNaive (w.map fun x => NumOps.abs x.2))), zero_mul _,
        hf.imp (fun x y hxy => priceStep_ok (F := fun _ wt p => lsQuantity fee E wt p) hxy)⟩

theorem dwSize_keys (fee : FeeModel α) (E b : α) (price : String → Option α) :
    SizerKeys (dwSize fee E b price) := by
  intro w target h
  obtain ⟨g, _, hf⟩ := dwSize_ok h
  exact forall₂_keys (fun x y ⟨p, _, hy⟩ => by rw [hy]) hf

theorem lsSize_keys (fee : FeeModel α) (E lev : α) (price : String → Option α) :
    SizerKeys (lsSize fee E lev price) := by
  intro w target h
  obtain ⟨g, _, hf⟩ := lsSize_ok h
  exact forall₂_keys (fun x y ⟨p, _, hy⟩ => by rw [hy]) hf

theorem dwSize_zero (fee : FeeModel α) (E b : α) (price : String → Option α) :
    SizerZero (dwSize fee E b price) := by
  intro w target a h hm
  obtain ⟨g, hg, hf⟩ := dwSize_ok h
  obtain ⟨y, hy, p, _, rfl⟩ := forall₂_mem_left hf (mem_sortByKey_pcm.mpr hm)
  simp only [zero_eq, hg, dwQuantity_zero] at hy
  exact hy

theorem lsSize_zero (fee : FeeModel α) (E lev : α) (price : String → Option α) :
    SizerZero (lsSize fee E lev price) := by
  intro w target a h hm
  obtain ⟨g, hg, hf⟩ := lsSize_ok h
  obtain ⟨y, hy, p, _, rfl⟩ := forall₂_mem_left hf (mem_sortByKey_pcm.mpr hm)
  simp only [zero_eq, hg, lsQuantity_zero] at hy
  exact hy

end Sizers

end Qs
