import QsProofs.Inst
import QsModel.Broker
import Mathlib.Algebra.BigOperators.Group.List.Basic
import Mathlib.Data.List.Forall2

/-!
# Helper lemmas about the simulated broker (`Qs.step`, `Qs.run`)

Used by `QsProofs/Props/C01.lean` (cash conservation) and `QsProofs/Props/C15.lean` (refusals).

Contents
1. `sumNaive = List.sum`
2. events: `signedAmount`, `histSum`, `EventOK`, `LedgerFrom`, `PfLedger`
3. specifications of the four portfolio methods (`subscribe`, `withdraw`, `transactAsset`, `mark`)
4. list surgery for `setPf` / `setEntry` under pairwise distinct ids
5. the zero-sum step lemma (`step_total`) and its lift through `runUntilErr` / `update` / `run`
6. the extension relation `Ext` (history grows by ledger-consistent events that match the new fills)
7. the well-formedness invariant `WF_c01`, `FillsOK`
-/

set_option linter.unusedSectionVars false

namespace Qs
open NumOps Num

section
variable {α : Type} [Field α] [LinearOrder α] [IsStrictOrderedRing α] [FloorRing α] [NumOps α]
  [LawfulNumOps α]

/-! ## 1. `sumNaive` -/

omit [LinearOrder α] [IsStrictOrderedRing α] [FloorRing α] [NumOps α] [LawfulNumOps α] in
theorem foldl_add_eq_c01 (l : List α) (a : α) : l.foldl (· + ·) a = a + l.sum := by
  induction l generalizing a with
  | nil => simp
  | cons x xs ih => simp only [List.foldl_cons, List.sum_cons, ih]; ring

theorem sumNaive_eq_sum (l : List α) : Num.sumNaive l = l.sum := by
  unfold Num.sumNaive
  rw [foldl_add_eq_c01, zero_eq, zero_add]

/-! ## 2. Events and ledgers -/

/-- the signed cash movement an event stands for -/
def signedAmount (e : Event α) : α :=
  match e.kind with
  | .subscription => e.rawAmount
  | .withdrawal => -e.rawAmount
  | .assetTransaction => -e.rawAmount

/-- sum of the signed movements of a list of events -/
def histSum (h : List (Event α)) : α := (h.map signedAmount).sum

/-- the stored cents fields are `round2` of the raw ones, placed in the documented column -/
def EventOK (e : Event α) : Prop :=
  e.balance = round2 e.rawBalance ∧
  match e.kind with
  | .subscription => e.credit = round2 e.rawAmount ∧ e.debit = 0
  | .withdrawal => e.debit = round2 e.rawAmount ∧ e.credit = 0
  | .assetTransaction =>
      (0 ≤ e.qty → e.long = true ∧ e.debit = round2 e.rawAmount ∧ e.credit = 0) ∧
      (e.qty < 0 → e.long = false ∧ e.credit = -(round2 e.rawAmount) ∧ e.debit = 0)

/-- running balances of `h` starting from cash `c`, every event well placed -/
def LedgerFrom (c : α) : List (Event α) → Prop
  | [] => True
  | e :: es => e.rawBalance = c + signedAmount e ∧ EventOK e ∧ LedgerFrom (c + signedAmount e) es

omit [LinearOrder α] [IsStrictOrderedRing α] [FloorRing α] [NumOps α] [LawfulNumOps α] in
@[simp] theorem histSum_nil : histSum ([] : List (Event α)) = 0 := rfl

omit [LinearOrder α] [IsStrictOrderedRing α] [FloorRing α] [NumOps α] [LawfulNumOps α] in
@[simp] theorem histSum_cons (e : Event α) (es) : histSum (e :: es) = signedAmount e + histSum es := by
  simp [histSum]

omit [LinearOrder α] [IsStrictOrderedRing α] [FloorRing α] [NumOps α] [LawfulNumOps α] in
@[simp] theorem histSum_append (h₁ h₂ : List (Event α)) : histSum (h₁ ++ h₂) = histSum h₁ + histSum h₂ := by
  simp [histSum]

omit [LinearOrder α] [IsStrictOrderedRing α] [FloorRing α] [LawfulNumOps α] in
theorem ledgerFrom_append (c : α) (h₁ h₂ : List (Event α)) :
    LedgerFrom c (h₁ ++ h₂) ↔ LedgerFrom c h₁ ∧ LedgerFrom (c + histSum h₁) h₂ := by
  induction h₁ generalizing c with
  | nil => simp [LedgerFrom]
  | cons e es ih =>
    simp only [List.cons_append, LedgerFrom, ih, histSum_cons, add_assoc, and_assoc]

/-- index form of `LedgerFrom` -/
theorem ledgerFrom_iff_index (c : α) (h : List (Event α)) :
    LedgerFrom c h ↔
      ∀ i (hi : i < h.length), h[i].rawBalance = c + histSum (h.take (i + 1)) ∧ EventOK h[i] := by
  induction h generalizing c with
  | nil => simp [LedgerFrom]
  | cons e es ih =>
    simp only [LedgerFrom, ih]
    constructor
    · rintro ⟨h0, hok, hrest⟩ i hi
      cases i with
      | zero => simpa using ⟨h0, hok⟩
      | succ j =>
        have := hrest j (by simpa using hi)
        simpa [add_assoc] using this
    · intro hall
      have h0 := hall 0 (by simp)
      simp only [List.getElem_cons_zero, zero_add, List.take_succ_cons, List.take_zero,
        histSum_cons, histSum_nil, add_zero] at h0
      refine ⟨h0.1, h0.2, ?_⟩
      · intro i hi
        have := hall (i + 1) (by simpa using hi)
        simpa [add_assoc] using this

/-- The ledger invariant of one portfolio: cash is the sum of the signed history amounts, every
event's raw balance is the running sum up to and including it, and its cents fields are the
rounded raw ones in the documented column. -/
def PfLedger (p : Portfolio α) : Prop :=
  p.cash = histSum p.history ∧
  ∀ i (hi : i < p.history.length),
    p.history[i].rawBalance = histSum (p.history.take (i + 1)) ∧ EventOK p.history[i]

theorem pfLedger_iff (p : Portfolio α) :
    PfLedger p ↔ p.cash = histSum p.history ∧ LedgerFrom 0 p.history := by
  unfold PfLedger
  rw [ledgerFrom_iff_index]
  simp only [zero_add]

/-! ## 3. Position and portfolio methods -/

theorem updatePrice_asset (p : Position α) (pr : α) (t : Int) : (p.updatePrice pr t).1.asset = p.asset := by
  unfold Position.updatePrice
  split
  · rfl
  · split <;> rfl

theorem updatePrice_qty (p : Position α) (pr : α) (t : Int) :
    (p.updatePrice pr t).1.buyQ = p.buyQ ∧ (p.updatePrice pr t).1.sellQ = p.sellQ := by
  unfold Position.updatePrice
  split
  · exact ⟨rfl, rfl⟩
  · split <;> exact ⟨rfl, rfl⟩

theorem transact_asset (p : Position α) (t : Txn α) : (p.transact t).1.asset = p.asset := by
  unfold Position.transact
  split
  · rfl
  · have h := updatePrice_asset p t.price t.time
    rcases hu : p.updatePrice t.price t.time with ⟨p1, _ | e⟩
    · rw [hu] at h
      dsimp only at h ⊢
      split <;> exact h
    · rw [hu] at h; exact h

theorem set_assets (ps : Positions α) (p : Position α) :
    (Positions.set ps p).map (·.asset) = ps.map (·.asset) := by
  unfold Positions.set
  rw [List.map_map]
  apply List.map_congr_left
  intro q _
  simp only [Function.comp]
  split
  · rename_i h; exact (by simpa using h : q.asset = p.asset).symm
  · rfl

theorem transactPosition_nodup (ps : Positions α) (t : Txn α)
    (h : (ps.map (·.asset)).Nodup) : ((ps.transactPosition t).1.map (·.asset)).Nodup := by
  unfold Positions.transactPosition
  split
  · split
    · simpa [set_assets] using h
    · split
      · simp only [Positions.erase]
        exact (List.filter_sublist.map _).nodup h
      · simpa [set_assets] using h
  · rename_i hnone
    simp only []
    split
    · exact h
    · simp only [List.map_append, List.map_cons, List.map_nil]
      rw [List.nodup_append]
      refine ⟨h, by simp, ?_⟩
      intro a ha b hb
      simp only [List.mem_singleton] at hb
      subst hb
      rintro rfl
      obtain ⟨q, hq, hqa⟩ := List.mem_map.mp ha
      have := List.find?_eq_none.mp hnone q hq
      have ha' : (Position.openFrom t).asset = t.asset := by
        unfold Position.openFrom; split <;> rfl
      simp [hqa, ha'] at this

/-- the event `subscribe` appends -/
def subEv (t : Int) (a bal : α) : Event α :=
  { time := t, kind := .subscription, debit := 0, credit := round2 a, balance := round2 bal,
    rawAmount := a, rawBalance := bal }

/-- the event `withdraw` appends -/
def wdEv (t : Int) (a bal : α) : Event α :=
  { time := t, kind := .withdrawal, debit := round2 a, credit := 0, balance := round2 bal,
    rawAmount := a, rawBalance := bal }

theorem subscribe_spec (p : Portfolio α) (t : Int) (a : α) :
    (t < p.clock ∧ p.subscribe t a = (p, some .value)) ∨
    (¬ t < p.clock ∧ a < 0 ∧ p.subscribe t a = ({ p with clock := t }, some .value)) ∨
    (¬ t < p.clock ∧ ¬ a < 0 ∧ p.subscribe t a =
      ({ p with clock := t, cash := p.cash + a,
                history := p.history ++ [subEv t a (p.cash + a)] }, none)) := by
  unfold Portfolio.subscribe subEv
  by_cases h1 : t < p.clock
  · simp [h1]
  · by_cases h2 : a < 0 <;> simp [h1, h2]

theorem withdraw_spec (p : Portfolio α) (t : Int) (a : α) :
    (t < p.clock ∧ p.withdraw t a = (p, some .value)) ∨
    (¬ t < p.clock ∧ (a < 0 ∨ p.cash < a) ∧ p.withdraw t a = ({ p with clock := t }, some .value)) ∨
    (¬ t < p.clock ∧ ¬ a < 0 ∧ ¬ p.cash < a ∧ p.withdraw t a =
      ({ p with clock := t, cash := p.cash - a,
                history := p.history ++ [wdEv t a (p.cash - a)] }, none)) := by
  unfold Portfolio.withdraw wdEv
  by_cases h1 : t < p.clock
  · simp [h1]
  · by_cases h2 : a < 0
    · simp [h1, h2]
    · by_cases h3 : p.cash < a <;> simp [h1, h2, h3]

/-- the three outcomes of `transactAsset` -/
theorem transactAsset_spec (p : Portfolio α) (t : Txn α) :
    (t.time < p.clock ∧ p.transactAsset t = (p, some .value)) ∨
    (¬ t.time < p.clock ∧ ∃ ps e, p.positions.transactPosition t = (ps, some e) ∧
        p.transactAsset t = ({ p with clock := t.time, positions := ps }, some e)) ∨
    (¬ t.time < p.clock ∧ ∃ ps ev, p.positions.transactPosition t = (ps, none) ∧
        ev.kind = .assetTransaction ∧ ev.time = t.time ∧ ev.qty = t.qty ∧ ev.asset = t.asset ∧
        ev.rawAmount = t.price * (t.qty : α) + t.commission ∧
        ev.rawBalance = p.cash - (t.price * (t.qty : α) + t.commission) ∧ EventOK ev ∧
        p.transactAsset t =
          ({ p with clock := t.time, positions := ps,
                    cash := p.cash - (t.price * (t.qty : α) + t.commission),
                    history := p.history ++ [ev] }, none)) := by
  unfold Portfolio.transactAsset
  by_cases h1 : t.time < p.clock
  · simp [h1]
  · right
    rw [if_neg h1]
    simp only []
    rcases hps : p.positions.transactPosition t with ⟨ps, _ | e⟩
    · right
      by_cases hq : t.qty < 0
      · have hd : ¬ (0 < dirOf t.qty) := by simp [dirOf, hq]
        simp only [hd, decide_false, Bool.false_eq_true, if_false, ofInt_eq]
        refine ⟨h1, ps, _, rfl, ?_, ?_, ?_, ?_, ?_, ?_, ?_, rfl⟩
        all_goals try rfl
        refine ⟨rfl, ?_⟩
        simp only
        exact ⟨fun h => absurd hq (not_lt.mpr h), fun _ => ⟨by simp, by push_cast; ring, by simp⟩⟩
      · have hd : 0 < dirOf t.qty := by simp [dirOf, hq]
        simp only [hd, decide_true, if_true, ofInt_eq]
        refine ⟨h1, ps, _, rfl, ?_, ?_, ?_, ?_, ?_, ?_, ?_, rfl⟩
        all_goals try rfl
        refine ⟨rfl, ?_⟩
        simp only
        exact ⟨fun _ => ⟨by simp, by simp, by simp⟩, fun h => absurd h hq⟩
    · left
      exact ⟨h1, ps, e, rfl, rfl⟩

/-! ## 4. Broker structure: distinct ids, `setPf`, `setEntry` -/

/-- portfolio ids are pairwise distinct -/
def UniqueIds (b : Broker α) : Prop := (b.entries.map (·.pf.id)).Nodup

/-- sum of the portfolios' cash -/
def cashSum (b : Broker α) : α := (b.entries.map (·.pf.cash)).sum

/-- master cash plus all portfolio cash -/
def total (b : Broker α) : α := b.master + cashSum b

/-- cash cost of a fill: `price * signed quantity + commission` -/
def fillCost (x : String × Txn α) : α := x.2.price * (x.2.qty : α) + x.2.commission

theorem find?_spec {b : Broker α} {pid : String} {e : PfEntry α} (h : b.find? pid = some e) :
    e ∈ b.entries ∧ e.pf.id = pid := by
  unfold Broker.find? at h
  exact ⟨List.mem_of_find?_eq_some h, by simpa using List.find?_some h⟩

theorem find?_none {b : Broker α} {pid : String} (h : b.find? pid = none) :
    ∀ e ∈ b.entries, e.pf.id ≠ pid := by
  unfold Broker.find? at h
  intro e he
  simpa using List.find?_eq_none.mp h e he

theorem has_iff (b : Broker α) (pid : String) : b.has pid = true ↔ ∃ e ∈ b.entries, e.pf.id = pid := by
  unfold Broker.has
  simp

theorem has_iff_find_c01 (b : Broker α) (pid : String) : b.has pid = true ↔ ∃ e, b.find? pid = some e := by
  rw [has_iff]
  constructor
  · rintro ⟨e, he, hid⟩
    cases h : b.find? pid with
    | none => exact absurd hid (find?_none h e he)
    | some e' => exact ⟨e', rfl⟩
  · rintro ⟨e, h⟩
    exact ⟨e, find?_spec h⟩

theorem find?_split {b : Broker α} {pid : String} {e : PfEntry α} (hu : UniqueIds b)
    (h : b.find? pid = some e) :
    ∃ l1 l2, b.entries = l1 ++ e :: l2 ∧ (∀ x ∈ l1, x.pf.id ≠ pid) ∧ (∀ x ∈ l2, x.pf.id ≠ pid) ∧
      e.pf.id = pid := by
  have hid := (find?_spec h).2
  unfold Broker.find? at h
  obtain ⟨_, l1, l2, hl, h1⟩ := List.find?_eq_some_iff_append.mp h
  refine ⟨l1, l2, hl, ?_, ?_, hid⟩
  · intro x hx; simpa using h1 x hx
  · intro x hx hxid
    unfold UniqueIds at hu
    rw [hl] at hu
    simp only [List.map_append, List.map_cons] at hu
    have := (List.nodup_append.mp hu).2.1
    rw [List.nodup_cons] at this
    apply this.1
    rw [hid, ← hxid]
    exact List.mem_map_of_mem hx

theorem map_upd_split (l1 l2 : List (PfEntry α)) (e : PfEntry α) (pid : String)
    (f : PfEntry α → PfEntry α) (h1 : ∀ x ∈ l1, x.pf.id ≠ pid) (h2 : ∀ x ∈ l2, x.pf.id ≠ pid)
    (he : e.pf.id = pid) :
    (l1 ++ e :: l2).map (fun x => if x.pf.id == pid then f x else x) = l1 ++ f e :: l2 := by
  have hid : ∀ l : List (PfEntry α), (∀ x ∈ l, x.pf.id ≠ pid) →
      l.map (fun x => if x.pf.id == pid then f x else x) = l := by
    intro l hl
    conv => rhs; rw [← List.map_id l]
    apply List.map_congr_left
    intro x hx
    simp [hl x hx]
  simp only [List.map_append, List.map_cons, hid l1 h1, hid l2 h2, he, beq_self_eq_true, if_true]

/-- under distinct ids, `setPf` replaces exactly the found entry's portfolio -/
theorem setPf_split {b : Broker α} {pid : String} {e : PfEntry α} (hu : UniqueIds b)
    (h : b.find? pid = some e) (p : Portfolio α) (hp : p.id = pid) :
    ∃ l1 l2, b.entries = l1 ++ e :: l2 ∧ (b.setPf p).entries = l1 ++ { e with pf := p } :: l2 ∧
      (∀ x ∈ l1, x.pf.id ≠ pid) ∧ (∀ x ∈ l2, x.pf.id ≠ pid) ∧ e.pf.id = pid := by
  obtain ⟨l1, l2, hl, h1, h2, he⟩ := find?_split hu h
  refine ⟨l1, l2, hl, ?_, h1, h2, he⟩
  unfold Broker.setPf
  simp only [hp, hl]
  exact map_upd_split l1 l2 e pid (fun x => { x with pf := p }) h1 h2 he

/-- under distinct ids, `setEntry` replaces exactly the found entry -/
theorem setEntry_split {b : Broker α} {pid : String} {e : PfEntry α} (hu : UniqueIds b)
    (h : b.find? pid = some e) (e' : PfEntry α) (hp : e'.pf.id = pid) :
    ∃ l1 l2, b.entries = l1 ++ e :: l2 ∧ (b.setEntry e').entries = l1 ++ e' :: l2 ∧
      (∀ x ∈ l1, x.pf.id ≠ pid) ∧ (∀ x ∈ l2, x.pf.id ≠ pid) ∧ e.pf.id = pid := by
  obtain ⟨l1, l2, hl, h1, h2, he⟩ := find?_split hu h
  refine ⟨l1, l2, hl, ?_, h1, h2, he⟩
  unfold Broker.setEntry
  simp only [hp, hl]
  exact map_upd_split l1 l2 e pid (fun _ => e') h1 h2 he

@[simp] theorem setPf_master_c01 (b : Broker α) (p : Portfolio α) : (b.setPf p).master = b.master := rfl
@[simp] theorem setPf_fillLog_c01 (b : Broker α) (p : Portfolio α) : (b.setPf p).fillLog = b.fillLog := rfl
@[simp] theorem setPf_clock_c01 (b : Broker α) (p : Portfolio α) : (b.setPf p).clock = b.clock := rfl
@[simp] theorem setPf_fee_c01 (b : Broker α) (p : Portfolio α) : (b.setPf p).fee = b.fee := rfl

theorem setPf_ids (b : Broker α) (p : Portfolio α) :
    (b.setPf p).entries.map (·.pf.id) = b.entries.map (·.pf.id) := by
  unfold Broker.setPf
  simp only [List.map_map]
  apply List.map_congr_left
  intro x _
  simp only [Function.comp]
  split
  · rename_i h; exact (by simpa using h : x.pf.id = p.id).symm
  · rfl

theorem setPf_cashSum {b : Broker α} {pid : String} {e : PfEntry α} (hu : UniqueIds b)
    (h : b.find? pid = some e) (p : Portfolio α) (hp : p.id = pid) :
    cashSum (b.setPf p) = cashSum b - e.pf.cash + p.cash := by
  obtain ⟨l1, l2, hl, hl', -⟩ := setPf_split hu h p hp
  unfold cashSum
  rw [hl, hl']
  simp only [List.map_append, List.map_cons, List.sum_append, List.sum_cons]
  ring

theorem uniqueIds_of_ids {b b' : Broker α}
    (h : b'.entries.map (·.pf.id) = b.entries.map (·.pf.id)) (hu : UniqueIds b) : UniqueIds b' := by
  unfold UniqueIds at *; rw [h]; exact hu

theorem subscribe_id_c01 (p : Portfolio α) (t : Int) (a : α) : (p.subscribe t a).1.id = p.id := by
  rcases subscribe_spec p t a with ⟨_, h⟩ | ⟨_, _, h⟩ | ⟨_, _, h⟩ <;> rw [h]

theorem withdraw_id_c01 (p : Portfolio α) (t : Int) (a : α) : (p.withdraw t a).1.id = p.id := by
  rcases withdraw_spec p t a with ⟨_, h⟩ | ⟨_, _, h⟩ | ⟨_, _, _, h⟩ <;> rw [h]

theorem transactAsset_id_c01 (p : Portfolio α) (t : Txn α) : (p.transactAsset t).1.id = p.id := by
  rcases transactAsset_spec p t with ⟨_, h⟩ | ⟨_, _, _, _, h⟩ | ⟨_, _, _, _, _, _, _, _, _, _, _, h⟩ <;>
    rw [h]

/-- `mark` touches nothing but the positions, and keeps their assets -/
theorem mark_spec (p : Portfolio α) (asset : String) (price : α) (t : Int) :
    ∃ ps, (p.mark asset price t).1 = { p with positions := ps } ∧
      ps.map (·.asset) = p.positions.map (·.asset) := by
  unfold Portfolio.mark
  split
  · exact ⟨p.positions, rfl, rfl⟩
  · split
    · exact ⟨p.positions, rfl, rfl⟩
    · split
      · exact ⟨p.positions, rfl, rfl⟩
      · exact ⟨_, rfl, set_assets _ _⟩

theorem mark_id (p : Portfolio α) (asset : String) (price : α) (t : Int) :
    (p.mark asset price t).1.id = p.id := by
  obtain ⟨ps, h, _⟩ := mark_spec p asset price t; rw [h]

/-! ## 5. Zero-sum -/

/-- total cost of all accepted fills so far -/
def fillTotal (b : Broker α) : α := (b.fillLog.map fillCost).sum

/-- cash entering (+) or leaving (−) the broker from outside through a transfer op -/
def transferFlow : Op α → Outcome → α
  | .subAcct a, none => a
  | .wdAcct a, none => -a
  | .pfSubscribe _ _ a, none => a
  | .pfWithdraw _ _ a, none => -a
  | _, _ => 0

/-- the quantity every step preserves up to `transferFlow` -/
def Conserved (b : Broker α) : α := total b + fillTotal b

theorem setPf_conserve {b : Broker α} {pid : String} {e : PfEntry α} (hu : UniqueIds b)
    (hf : b.find? pid = some e) (p : Portfolio α) (hp : p.id = pid) (b' : Broker α)
    (he : b'.entries = (b.setPf p).entries) :
    UniqueIds b' ∧
      Conserved b' = b'.master + (cashSum b - e.pf.cash + p.cash) + (b'.fillLog.map fillCost).sum := by
  refine ⟨uniqueIds_of_ids (by rw [he, setPf_ids]) hu, ?_⟩
  have := setPf_cashSum hu hf p hp
  unfold Conserved total fillTotal
  unfold cashSum at *
  rw [he, this]

theorem runUntilErr_inv_c01 {β : Type} (f : Broker α → β → Broker α × Option Err) (I : Broker α → Prop)
    (hstep : ∀ b x, I b → I (f b x).1) (b : Broker α) (xs : List β) (hb : I b) :
    I (Broker.runUntilErr f b xs).1 := by
  induction xs generalizing b with
  | nil => exact hb
  | cons x xs ih =>
    unfold Broker.runUntilErr
    have := hstep b x hb
    rcases hfx : f b x with ⟨b', _ | e⟩
    · rw [hfx] at this; exact ih b' this
    · rw [hfx] at this; exact this

/-- `subscribe`: refused (nothing but the clock may move) or accepted (one event appended) -/
theorem subscribe_cases (p : Portfolio α) (t : Int) (a : α) : ∃ p',
    (p.subscribe t a = (p', some .value) ∧ (t < p.clock ∨ a < 0) ∧ (p' = p ∨ p' = { p with clock := t })) ∨
    (p.subscribe t a = (p', none) ∧ ¬ t < p.clock ∧ ¬ a < 0 ∧ p'.id = p.id ∧ p'.cash = p.cash + a ∧
      p'.history = p.history ++ [subEv t a (p.cash + a)] ∧ p'.positions = p.positions ∧ p'.clock = t) := by
  rcases subscribe_spec p t a with ⟨h1, h⟩ | ⟨h1, h2, h⟩ | ⟨h1, h2, h⟩
  · exact ⟨_, .inl ⟨h, .inl h1, .inl rfl⟩⟩
  · exact ⟨_, .inl ⟨h, .inr h2, .inr rfl⟩⟩
  · exact ⟨_, .inr ⟨h, h1, h2, rfl, rfl, rfl, rfl, rfl⟩⟩

theorem withdraw_cases (p : Portfolio α) (t : Int) (a : α) : ∃ p',
    (p.withdraw t a = (p', some .value) ∧ (t < p.clock ∨ a < 0 ∨ p.cash < a) ∧
      (p' = p ∨ p' = { p with clock := t })) ∨
    (p.withdraw t a = (p', none) ∧ ¬ t < p.clock ∧ ¬ a < 0 ∧ ¬ p.cash < a ∧ p'.id = p.id ∧
      p'.cash = p.cash - a ∧ p'.history = p.history ++ [wdEv t a (p.cash - a)] ∧
      p'.positions = p.positions ∧ p'.clock = t) := by
  rcases withdraw_spec p t a with ⟨h1, h⟩ | ⟨h1, h2, h⟩ | ⟨h1, h2, h3, h⟩
  · exact ⟨_, .inl ⟨h, .inl h1, .inl rfl⟩⟩
  · exact ⟨_, .inl ⟨h, .inr h2, .inr rfl⟩⟩
  · exact ⟨_, .inr ⟨h, h1, h2, h3, rfl, rfl, rfl, rfl, rfl⟩⟩

theorem transactAsset_cases (p : Portfolio α) (t : Txn α) : ∃ p',
    (p.transactAsset t = (p', some .value) ∧ t.time < p.clock ∧ p' = p) ∨
    (∃ e ps, p.transactAsset t = (p', some e) ∧ ¬ t.time < p.clock ∧
      p.positions.transactPosition t = (ps, some e) ∧ p' = { p with clock := t.time, positions := ps }) ∨
    (∃ ev, p.transactAsset t = (p', none) ∧ ¬ t.time < p.clock ∧
      (p.positions.transactPosition t).2 = none ∧
      p'.id = p.id ∧ p'.cash = p.cash - (t.price * (t.qty : α) + t.commission) ∧
      p'.history = p.history ++ [ev] ∧ p'.positions = (p.positions.transactPosition t).1 ∧
      p'.clock = t.time ∧
      ev.kind = .assetTransaction ∧ ev.time = t.time ∧ ev.qty = t.qty ∧ ev.asset = t.asset ∧
      ev.rawAmount = t.price * (t.qty : α) + t.commission ∧
      ev.rawBalance = p.cash - (t.price * (t.qty : α) + t.commission) ∧ EventOK ev) := by
  rcases transactAsset_spec p t with ⟨h1, h⟩ | ⟨h1, ps, e, hps, h⟩ |
    ⟨h1, ps, ev, hps, k1, k2, k3, k4, k5, k6, k7, h⟩
  · exact ⟨_, .inl ⟨h, h1, rfl⟩⟩
  · exact ⟨_, .inr (.inl ⟨e, ps, h, h1, hps, rfl⟩)⟩
  · refine ⟨_, .inr (.inr ⟨ev, h, h1, ?_, rfl, rfl, rfl, ?_, rfl, k1, k2, k3, k4, k5, k6, k7⟩)⟩
    · rw [hps]
    · rw [hps]

theorem conserved_setPf {b : Broker α} {pid : String} {e : PfEntry α} (hu : UniqueIds b)
    (hf : b.find? pid = some e) (p : Portfolio α) (hp : p.id = pid) (m : α)
    (fl : List (String × Txn α)) :
    UniqueIds { (b.setPf p) with master := m, fillLog := fl } ∧
      Conserved { (b.setPf p) with master := m, fillLog := fl } =
        m + (cashSum b - e.pf.cash + p.cash) + (fl.map fillCost).sum :=
  setPf_conserve hu hf p hp _ rfl

theorem subscribePortfolio_total (b : Broker α) (pid : String) (a : α) (hu : UniqueIds b) :
    UniqueIds (b.subscribePortfolio pid a).1 ∧ Conserved (b.subscribePortfolio pid a).1 = Conserved b := by
  unfold Broker.subscribePortfolio
  split
  · exact ⟨hu, rfl⟩
  · split
    · exact ⟨hu, rfl⟩
    · rename_i e hf
      split
      · exact ⟨hu, rfl⟩
      · have hid := (find?_spec hf).2
        obtain ⟨p', ⟨h, -, rfl | rfl⟩ | ⟨h, -, -, hid', hc, -⟩⟩ := subscribe_cases e.pf b.clock a <;>
          rw [h] <;> simp only
        · obtain ⟨h1, h2⟩ := setPf_conserve hu hf e.pf hid (b.setPf e.pf) rfl
          refine ⟨h1, h2.trans ?_⟩
          unfold Conserved total fillTotal; simp
        · obtain ⟨h1, h2⟩ := setPf_conserve hu hf { e.pf with clock := b.clock } hid (b.setPf _) rfl
          refine ⟨h1, h2.trans ?_⟩
          unfold Conserved total fillTotal; simp
        · obtain ⟨h1, h2⟩ := setPf_conserve hu hf p' (hid'.trans hid)
            { (b.setPf p') with master := b.master - a } rfl
          refine ⟨h1, h2.trans ?_⟩
          rw [hc]; unfold Conserved total fillTotal; simp only [setPf_fillLog_c01]; ring

/-- bookkeeping for every op of the shape "look the portfolio up, call one of its methods, store it" -/
theorem setPf_delta {b : Broker α} {pid : String} {e : PfEntry α} (hu : UniqueIds b)
    (hf : b.find? pid = some e) (p : Portfolio α) (hp : p.id = e.pf.id) (b' : Broker α)
    (he : b'.entries = (b.setPf p).entries) (δm δc : α) (nf : List (String × Txn α))
    (hm : b'.master = b.master + δm) (hc : p.cash = e.pf.cash + δc)
    (hfl : b'.fillLog = b.fillLog ++ nf) :
    UniqueIds b' ∧ Conserved b' = Conserved b + δm + δc + (nf.map fillCost).sum := by
  obtain ⟨h1, h2⟩ := setPf_conserve hu hf p (hp.trans (find?_spec hf).2) b' he
  refine ⟨h1, h2.trans ?_⟩
  rw [hm, hc, hfl]
  unfold Conserved total fillTotal
  simp only [List.map_append, List.sum_append]
  ring

theorem withdrawPortfolio_total (b : Broker α) (pid : String) (a : α) (hu : UniqueIds b) :
    UniqueIds (b.withdrawPortfolio pid a).1 ∧ Conserved (b.withdrawPortfolio pid a).1 = Conserved b := by
  unfold Broker.withdrawPortfolio
  split
  · exact ⟨hu, rfl⟩
  · split
    · exact ⟨hu, rfl⟩
    · rename_i e hf
      split
      · exact ⟨hu, rfl⟩
      · obtain ⟨p', ⟨h, -, rfl | rfl⟩ | ⟨h, -, -, -, hid', hc, -⟩⟩ := withdraw_cases e.pf b.clock a <;>
          rw [h] <;> simp only
        · simpa using setPf_delta hu hf e.pf rfl (b.setPf e.pf) rfl 0 0 [] (by simp) (by simp) (by simp)
        · simpa using setPf_delta hu hf { e.pf with clock := b.clock } rfl (b.setPf _) rfl 0 0 []
            (by simp) (by simp) (by simp)
        · simpa using setPf_delta hu hf p' hid' { (b.setPf p') with master := b.master + a } rfl a (-a) []
            (by simp) (by rw [hc]; ring) (by simp)

theorem applyTxn_total (b : Broker α) (pid : String) (t : Txn α) (hu : UniqueIds b) :
    UniqueIds (b.applyTxn pid t).1 ∧ Conserved (b.applyTxn pid t).1 = Conserved b := by
  unfold Broker.applyTxn
  split
  · exact ⟨hu, rfl⟩
  · rename_i e hf
    obtain ⟨p', ⟨h, -, rfl⟩ | ⟨er, ps, h, -, -, rfl⟩ | ⟨ev, h, -, -, hid', hc, -⟩⟩ :=
      transactAsset_cases e.pf t <;> rw [h] <;> simp only
    · simpa using setPf_delta hu hf e.pf rfl (b.setPf e.pf) rfl 0 0 [] (by simp) (by simp) (by simp)
    · simpa using setPf_delta hu hf { e.pf with clock := t.time, positions := ps } rfl (b.setPf _) rfl
        0 0 [] (by simp) (by simp) (by simp)
    · have := setPf_delta hu hf p' hid' { (b.setPf p') with fillLog := b.fillLog ++ [(pid, t)] } rfl 0
        (-(t.price * (t.qty : α) + t.commission)) [(pid, t)] (by simp) (by rw [hc]; ring) (by simp)
      refine ⟨this.1, this.2.trans ?_⟩
      simp only [fillCost, List.map_cons, List.map_nil, List.sum_cons, List.sum_nil]
      ring

theorem applyMark_total (b : Broker α) (pid asset : String) (price : α) (t : Int) (hu : UniqueIds b) :
    UniqueIds (b.applyMark pid asset price t).1 ∧
      Conserved (b.applyMark pid asset price t).1 = Conserved b := by
  unfold Broker.applyMark
  split
  · exact ⟨hu, rfl⟩
  · rename_i e hf
    obtain ⟨ps, h, -⟩ := mark_spec e.pf asset price t
    simp only
    rw [h]
    simpa using setPf_delta hu hf { e.pf with positions := ps } rfl (b.setPf _) rfl 0 0 []
      (by simp) (by simp) (by simp)

theorem pfSubscribe_total (b : Broker α) (pid : String) (t : Int) (a : α) (hu : UniqueIds b) :
    UniqueIds (b.pfSubscribe pid t a).1 ∧
      Conserved (b.pfSubscribe pid t a).1 =
        Conserved b + transferFlow (.pfSubscribe pid t a) (b.pfSubscribe pid t a).2 := by
  unfold Broker.pfSubscribe
  split
  · exact ⟨hu, by simp [transferFlow]⟩
  · rename_i e hf
    obtain ⟨p', ⟨h, -, rfl | rfl⟩ | ⟨h, -, -, hid', hc, -⟩⟩ := subscribe_cases e.pf t a <;>
      rw [h] <;> simp only [transferFlow]
    · simpa using setPf_delta hu hf e.pf rfl (b.setPf e.pf) rfl 0 0 [] (by simp) (by simp) (by simp)
    · simpa using setPf_delta hu hf { e.pf with clock := t } rfl (b.setPf _) rfl 0 0 []
        (by simp) (by simp) (by simp)
    · simpa using setPf_delta hu hf p' hid' (b.setPf p') rfl 0 a [] (by simp) hc (by simp)

theorem pfWithdraw_total (b : Broker α) (pid : String) (t : Int) (a : α) (hu : UniqueIds b) :
    UniqueIds (b.pfWithdraw pid t a).1 ∧
      Conserved (b.pfWithdraw pid t a).1 =
        Conserved b + transferFlow (.pfWithdraw pid t a) (b.pfWithdraw pid t a).2 := by
  unfold Broker.pfWithdraw
  split
  · exact ⟨hu, by simp [transferFlow]⟩
  · rename_i e hf
    obtain ⟨p', ⟨h, -, rfl | rfl⟩ | ⟨h, -, -, -, hid', hc, -⟩⟩ := withdraw_cases e.pf t a <;>
      rw [h] <;> simp only [transferFlow]
    · simpa using setPf_delta hu hf e.pf rfl (b.setPf e.pf) rfl 0 0 [] (by simp) (by simp) (by simp)
    · simpa using setPf_delta hu hf { e.pf with clock := t } rfl (b.setPf _) rfl 0 0 []
        (by simp) (by simp) (by simp)
    · simpa [sub_eq_add_neg] using
        setPf_delta hu hf p' hid' (b.setPf p') rfl 0 (-a) [] (by simp) (by rw [hc]; ring) (by simp)

theorem executeOrder_total (b : Broker α) (q : Quotes α) (pid : String) (o : Order) (hu : UniqueIds b) :
    UniqueIds (b.executeOrder q pid o).1 ∧ Conserved (b.executeOrder q pid o).1 = Conserved b := by
  unfold Broker.executeOrder
  split
  · exact ⟨hu, rfl⟩
  · exact applyTxn_total b pid _ hu

theorem clearQueues_ids (b : Broker α) :
    b.clearQueues.entries.map (·.pf.id) = b.entries.map (·.pf.id) := by
  simp [Broker.clearQueues, List.map_map, Function.comp_def]

theorem clearQueues_conserved (b : Broker α) : Conserved b.clearQueues = Conserved b := by
  simp [Conserved, total, cashSum, fillTotal, Broker.clearQueues, List.map_map, Function.comp_def]

theorem update_total (b : Broker α) (t : Int) (q : Quotes α) (hu : UniqueIds b) :
    UniqueIds (b.update t q).1 ∧ Conserved (b.update t q).1 = Conserved b := by
  unfold Broker.update
  simp only []
  have hmark := runUntilErr_inv_c01
    (fun b (m : String × String × α) => b.applyMark m.1 m.2.1 m.2.2 t)
    (fun b' => UniqueIds b' ∧ Conserved b' = Conserved b)
    (by
      rintro b' x ⟨h1, h2⟩
      obtain ⟨k1, k2⟩ := applyMark_total b' x.1 x.2.1 x.2.2 t h1
      exact ⟨k1, k2.trans h2⟩)
    { b with clock := t } (Broker.markTargets { b with clock := t } q) ⟨hu, rfl⟩
  split
  · rename_i h; rw [h] at hmark; exact hmark
  · rename_i b1 h; rw [h] at hmark
    split
    · exact runUntilErr_inv_c01
        (fun b (x : String × Order) => b.executeOrder q x.1 x.2)
        (fun b' => UniqueIds b' ∧ Conserved b' = Conserved b)
        (by
          rintro b' x ⟨h1, h2⟩
          obtain ⟨k1, k2⟩ := executeOrder_total b' q x.1 x.2 h1
          exact ⟨k1, k2.trans h2⟩)
        b1.clearQueues _
        ⟨uniqueIds_of_ids (clearQueues_ids b1) hmark.1, (clearQueues_conserved b1).trans hmark.2⟩
    · exact hmark

theorem createPortfolio_unique (b : Broker α) (pid : String) (hu : UniqueIds b) :
    UniqueIds (b.createPortfolio pid).1 := by
  unfold Broker.createPortfolio
  split
  · exact hu
  · rename_i hh
    have hh' : ∀ e ∈ b.entries, e.pf.id ≠ pid := by
      intro e he hid
      exact hh ((has_iff b pid).mpr ⟨e, he, hid⟩)
    unfold UniqueIds at *
    simp only [List.map_append, List.map_cons, List.map_nil]
    rw [List.nodup_append]
    refine ⟨hu, by simp, ?_⟩
    intro x hx y hy
    simp only [List.mem_singleton] at hy
    subst hy
    rintro rfl
    obtain ⟨e, he, hid⟩ := List.mem_map.mp hx
    exact hh' e he hid

/-- `submit` changes no portfolio, the master cash or the fill log -/
theorem submitOrder_pfs (b : Broker α) (pid : String) (o : Order) (hu : UniqueIds b) :
    (b.submitOrder pid o).1.entries.map (·.pf) = b.entries.map (·.pf) ∧
    (b.submitOrder pid o).1.master = b.master ∧ (b.submitOrder pid o).1.fillLog = b.fillLog := by
  unfold Broker.submitOrder
  split
  · exact ⟨rfl, rfl, rfl⟩
  · rename_i e hf
    obtain ⟨l1, l2, hl, hl', -⟩ := setEntry_split hu hf { e with queue := e.queue ++ [o] } (find?_spec hf).2
    refine ⟨?_, rfl, rfl⟩
    simp only [hl, hl', List.map_append, List.map_cons]

theorem pfs_ids {b b' : Broker α} (h : b'.entries.map (·.pf) = b.entries.map (·.pf)) :
    b'.entries.map (·.pf.id) = b.entries.map (·.pf.id) := by
  have := congrArg (List.map (fun p : Portfolio α => p.id)) h
  simpa [List.map_map, Function.comp_def] using this

theorem pfs_cashSum {b b' : Broker α} (h : b'.entries.map (·.pf) = b.entries.map (·.pf)) :
    cashSum b' = cashSum b := by
  have := congrArg (List.map (fun p : Portfolio α => p.cash)) h
  unfold cashSum
  simp only [List.map_map, Function.comp_def] at this
  rw [this]

/-- One step: ids stay distinct and `master + Σ cash + Σ fill costs` moves by the external transfer. -/
theorem step_total (b : Broker α) (op : Op α) (hu : UniqueIds b) :
    UniqueIds (step b op).1 ∧
      Conserved (step b op).1 = Conserved b + transferFlow op (step b op).2 := by
  cases op with
  | subAcct a =>
    simp only [step, Broker.subscribeAccount]
    split
    · exact ⟨hu, by simp [transferFlow]⟩
    · exact ⟨hu, by simp only [transferFlow, Conserved, total, cashSum, fillTotal]; ring⟩
  | wdAcct a =>
    simp only [step, Broker.withdrawAccount]
    split
    · exact ⟨hu, by simp [transferFlow]⟩
    · split
      · exact ⟨hu, by simp [transferFlow]⟩
      · exact ⟨hu, by simp only [transferFlow, Conserved, total, cashSum, fillTotal]; ring⟩
  | create pid =>
    refine ⟨createPortfolio_unique b pid hu, ?_⟩
    simp only [step, Broker.createPortfolio]
    split
    · simp [transferFlow]
    · simp [transferFlow, Conserved, total, cashSum, fillTotal, Portfolio.new]
  | subPf pid a => simpa [step, transferFlow] using subscribePortfolio_total b pid a hu
  | wdPf pid a => simpa [step, transferFlow] using withdrawPortfolio_total b pid a hu
  | submit pid o =>
    obtain ⟨h1, h2, h3⟩ := submitOrder_pfs b pid o hu
    refine ⟨uniqueIds_of_ids (pfs_ids h1) hu, ?_⟩
    simp only [step, transferFlow, Conserved, total, fillTotal, pfs_cashSum h1, h2, h3, add_zero]
  | update t q => simpa [step, transferFlow] using update_total b t q hu
  | setClock t => exact ⟨hu, by simp [step, transferFlow, Conserved, total, cashSum, fillTotal]⟩
  | applyTxn pid t => simpa [step, transferFlow] using applyTxn_total b pid t hu
  | applyMark pid a p t => simpa [step, transferFlow] using applyMark_total b pid a p t hu
  | pfSubscribe pid t a => exact pfSubscribe_total b pid t a hu
  | pfWithdraw pid t a => exact pfWithdraw_total b pid t a hu

theorem run_unique (b : Broker α) (ops : List (Op α)) (hu : UniqueIds b) : UniqueIds (run b ops) := by
  induction ops generalizing b with
  | nil => exact hu
  | cons o os ih => exact ih _ (step_total b o hu).1

/-! ## 6. The extension relation -/

/-- asset-transaction events -/
def isTxnEv (e : Event α) : Bool := e.kind == .assetTransaction

/-- the transactions of a fill log that belong to portfolio `pid`, in order -/
def fillsIn (nf : List (String × Txn α)) (pid : String) : List (Txn α) :=
  (nf.filter (fun x => x.1 == pid)).map (·.2)

/-- what an asset-transaction event records of its fill -/
def evKey (e : Event α) : Int × Int × String × α := (e.time, e.qty, e.asset, e.rawAmount)

/-- what a fill contributes to the history -/
def txnKey (t : Txn α) : Int × Int × String × α :=
  (t.time, t.qty, t.asset, t.price * (t.qty : α) + t.commission)

/-- `p'` is `p` with the events `ev` appended: cash moved by exactly their signed amounts, running
balances continue from `p.cash`, the asset-transaction events among them are the fills `nf` of this
portfolio in order, and there are `n` transfer events. -/
structure PfExt (nf : List (String × Txn α)) (n : Nat) (p p' : Portfolio α) : Prop where
  id : p'.id = p.id
  pos : (p.positions.map (·.asset)).Nodup → (p'.positions.map (·.asset)).Nodup
  hist : ∃ ev, p'.history = p.history ++ ev ∧ p'.cash = p.cash + histSum ev ∧ LedgerFrom p.cash ev ∧
      (ev.filter isTxnEv).map evKey = (fillsIn nf p.id).map txnKey ∧
      (ev.filter (fun e => !isTxnEv e)).length = n

theorem pfExt_of_same {nf : List (String × Txn α)} {p p' : Portfolio α} (hid : p'.id = p.id)
    (hpos : (p.positions.map (·.asset)).Nodup → (p'.positions.map (·.asset)).Nodup)
    (hh : p'.history = p.history) (hc : p'.cash = p.cash) (hnf : fillsIn nf p.id = []) :
    PfExt nf 0 p p' :=
  ⟨hid, hpos, [], by simp [hh], by simp [hc], trivial, by simp [hnf], rfl⟩

theorem fillsIn_append (nf nf' : List (String × Txn α)) (pid : String) :
    fillsIn (nf ++ nf') pid = fillsIn nf pid ++ fillsIn nf' pid := by
  simp [fillsIn]

theorem PfExt.trans {nf nf' : List (String × Txn α)} {n m : Nat} {p p' p'' : Portfolio α}
    (h : PfExt nf n p p') (h' : PfExt nf' m p' p'') : PfExt (nf ++ nf') (n + m) p p'' := by
  obtain ⟨ev, e1, e2, e3, e4, e5⟩ := h.hist
  obtain ⟨ev', f1, f2, f3, f4, f5⟩ := h'.hist
  refine ⟨h'.id.trans h.id, fun hp => h'.pos (h.pos hp), ev ++ ev', ?_, ?_, ?_, ?_, ?_⟩
  · rw [f1, e1, List.append_assoc]
  · rw [f2, e2, histSum_append]; ring
  · rw [ledgerFrom_append]; rw [e2] at f3; exact ⟨e3, f3⟩
  · rw [List.filter_append, List.map_append, fillsIn_append, List.map_append, e4, f4, h.id]
  · rw [List.filter_append, List.length_append, e5, f5]

/-- `b'` extends `b`: same portfolios in the same order, the fill log grew by `nf`, and every
portfolio was extended (`PfExt`) by the events of its own new fills plus `n id` transfer events. -/
def Ext (n : String → Nat) (b b' : Broker α) : Prop :=
  ∃ nf, b'.fillLog = b.fillLog ++ nf ∧ (∀ x ∈ nf, b.has x.1 = true) ∧
    List.Forall₂ (fun e e' => PfExt nf (n e.pf.id) e.pf e'.pf) b.entries b'.entries

theorem forall₂_ids {R : PfEntry α → PfEntry α → Prop} {l l' : List (PfEntry α)}
    (h : List.Forall₂ R l l') (hR : ∀ e e', R e e' → e'.pf.id = e.pf.id) :
    l'.map (·.pf.id) = l.map (·.pf.id) := by
  induction h with
  | nil => rfl
  | cons hab _ ih => simp only [List.map_cons, ih, hR _ _ hab]

theorem Ext.ids {n : String → Nat} {b b' : Broker α} (h : Ext n b b') :
    b'.entries.map (·.pf.id) = b.entries.map (·.pf.id) := by
  obtain ⟨nf, -, -, h⟩ := h
  exact forall₂_ids h (fun _ _ h => h.id)

theorem has_of_ids_c01 {b b' : Broker α} (h : b'.entries.map (·.pf.id) = b.entries.map (·.pf.id))
    (pid : String) : b'.has pid = b.has pid := by
  have h1 : ∀ c : Broker α, c.has pid = (c.entries.map (·.pf.id)).contains pid := by
    intro c
    unfold Broker.has
    induction c.entries with
    | nil => rfl
    | cons x xs ih => simp only [List.any_cons, List.map_cons, List.contains_cons, ih]; rw [Bool.beq_comm]
  rw [h1, h1, h]

theorem forall₂_trans {β : Type} {R S T : β → β → Prop} {l1 l2 l3 : List β}
    (h1 : List.Forall₂ R l1 l2) (h2 : List.Forall₂ S l2 l3)
    (hT : ∀ a b c, R a b → S b c → T a c) : List.Forall₂ T l1 l3 := by
  induction h1 generalizing l3 with
  | nil => cases h2; exact .nil
  | cons hab _ ih =>
    cases h2 with
    | cons hbc h2' => exact .cons (hT _ _ _ hab hbc) (ih h2')

theorem Ext.trans {n m k : String → Nat} {b b' b'' : Broker α} (h : Ext n b b') (h' : Ext m b' b'')
    (hk : ∀ id, k id = n id + m id) : Ext k b b'' := by
  have hids := h.ids
  obtain ⟨nf, e1, e2, e3⟩ := h
  obtain ⟨nf', f1, f2, f3⟩ := h'
  refine ⟨nf ++ nf', by rw [f1, e1, List.append_assoc], ?_, ?_⟩
  · intro x hx
    rcases List.mem_append.mp hx with hx | hx
    · exact e2 x hx
    · rw [← has_of_ids_c01 hids]; exact f2 x hx
  · refine forall₂_trans e3 f3 ?_
    intro a a' a'' h1 h2
    rw [hk]
    rw [h1.id] at h2
    exact h1.trans h2

theorem fillsIn_nil (pid : String) : fillsIn ([] : List (String × Txn α)) pid = [] := rfl

theorem pfExt_refl (p : Portfolio α) : PfExt [] 0 p p :=
  pfExt_of_same rfl id rfl rfl rfl

/-- same portfolios (queues may differ), same fill log -/
theorem ext_of_pfs {b b' : Broker α} (h : b'.entries.map (·.pf) = b.entries.map (·.pf))
    (hfl : b'.fillLog = b.fillLog) : Ext (fun _ => 0) b b' := by
  refine ⟨[], by simp [hfl], by simp, ?_⟩
  have : List.Forall₂ (fun e e' : PfEntry α => e.pf = e'.pf) b.entries b'.entries := by
    have h2 : List.Forall₂ Eq (b.entries.map (·.pf)) (b'.entries.map (·.pf)) := by
      rw [h]; exact List.forall₂_eq_eq_eq.symm ▸ rfl
    rw [List.forall₂_map_left_iff, List.forall₂_map_right_iff] at h2
    exact h2
  refine this.imp ?_
  intro e e' hee
  rw [← hee]
  exact pfExt_refl e.pf

theorem Ext.refl (b : Broker α) : Ext (fun _ => 0) b b := ext_of_pfs rfl rfl

theorem ext_setPf {b : Broker α} {pid : String} {e : PfEntry α} (hu : UniqueIds b)
    (hf : b.find? pid = some e) (p : Portfolio α) (b' : Broker α)
    (he : b'.entries = (b.setPf p).entries) (nf : List (String × Txn α))
    (hfl : b'.fillLog = b.fillLog ++ nf) (hnf : ∀ x ∈ nf, x.1 = pid) (n : String → Nat) (k : Nat)
    (hn : ∀ id, n id = if id = pid then k else 0) (hp : PfExt nf k e.pf p) : Ext n b b' := by
  have hid := (find?_spec hf).2
  obtain ⟨l1, l2, hl, hl', h1, h2, -⟩ := setPf_split hu hf p (hp.id.trans hid)
  refine ⟨nf, hfl, ?_, ?_⟩
  · intro x hx
    rw [hnf x hx, has_iff_find_c01]
    exact ⟨e, hf⟩
  · rw [he, hl, hl']
    have hsame : ∀ l : List (PfEntry α), (∀ x ∈ l, x.pf.id ≠ pid) →
        List.Forall₂ (fun e e' => PfExt nf (n e.pf.id) e.pf e'.pf) l l := by
      intro l hl
      rw [List.forall₂_same]
      intro x hx
      rw [hn, if_neg (hl x hx)]
      refine pfExt_of_same rfl id rfl rfl ?_
      unfold fillsIn
      rw [List.filter_eq_nil_iff.mpr]
      · rfl
      · intro y hy
        rw [hnf y hy]
        simpa using fun h => hl x hx h.symm
    refine List.rel_append (hsame l1 h1) (.cons ?_ (hsame l2 h2))
    rw [hn, if_pos hid]
    exact hp

/-- number of events a transfer with this outcome appends -/
def okCount : Outcome → Nat
  | none => 1
  | some _ => 0

theorem subscribe_pfExt (p : Portfolio α) (t : Int) (a : α) :
    PfExt [] (okCount (p.subscribe t a).2) p (p.subscribe t a).1 := by
  obtain ⟨p', ⟨h, -, rfl | rfl⟩ | ⟨h, -, -, hid, hc, hh, hpos, -⟩⟩ := subscribe_cases p t a <;> rw [h]
  · exact pfExt_refl _
  · exact pfExt_of_same rfl id rfl rfl rfl
  · refine ⟨hid, by rw [hpos]; exact id, [subEv t a (p.cash + a)], hh, ?_, ?_, ?_, ?_⟩
    · simp [hc, signedAmount, subEv]
    · simp [LedgerFrom, signedAmount, subEv, EventOK]
    · simp [isTxnEv, subEv, fillsIn]
    · simp [isTxnEv, subEv, okCount]

theorem withdraw_pfExt (p : Portfolio α) (t : Int) (a : α) :
    PfExt [] (okCount (p.withdraw t a).2) p (p.withdraw t a).1 := by
  obtain ⟨p', ⟨h, -, rfl | rfl⟩ | ⟨h, -, -, -, hid, hc, hh, hpos, -⟩⟩ := withdraw_cases p t a <;> rw [h]
  · exact pfExt_refl _
  · exact pfExt_of_same rfl id rfl rfl rfl
  · refine ⟨hid, by rw [hpos]; exact id, [wdEv t a (p.cash - a)], hh, ?_, ?_, ?_, ?_⟩
    · simp [hc, signedAmount, wdEv, sub_eq_add_neg]
    · simp [LedgerFrom, signedAmount, wdEv, EventOK, sub_eq_add_neg]
    · simp [isTxnEv, wdEv, fillsIn]
    · simp [isTxnEv, wdEv, okCount]

/-- the fills an `applyTxn` with this outcome logs -/
def okFill (pid : String) (t : Txn α) : Outcome → List (String × Txn α)
  | none => [(pid, t)]
  | some _ => []

theorem transactAsset_pfExt (p : Portfolio α) (t : Txn α) :
    PfExt (okFill p.id t (p.transactAsset t).2) 0 p (p.transactAsset t).1 := by
  obtain ⟨p', ⟨h, -, rfl⟩ | ⟨er, ps, h, -, hps, rfl⟩ |
    ⟨ev, h, -, hnone, hid, hc, hh, hpos, -, k1, k2, k3, k4, k5, k6, k7⟩⟩ := transactAsset_cases p t <;>
    rw [h]
  · exact pfExt_refl _
  · refine pfExt_of_same rfl ?_ rfl rfl rfl
    intro hn
    have := transactPosition_nodup p.positions t hn
    rw [hps] at this
    exact this
  · refine ⟨hid, ?_, [ev], hh, ?_, ?_, ?_, ?_⟩
    · intro hn; rw [hpos]; exact transactPosition_nodup p.positions t hn
    · simp [hc, signedAmount, k1, k5, sub_eq_add_neg]
    · simp only [LedgerFrom, signedAmount, k1, k5, k6, and_true]
      exact ⟨by ring, k7⟩
    · simp [isTxnEv, k1, fillsIn, okFill, evKey, txnKey, k2, k3, k4, k5]
    · simp [isTxnEv, k1]

theorem mark_pfExt (p : Portfolio α) (asset : String) (price : α) (t : Int) :
    PfExt [] 0 p (p.mark asset price t).1 := by
  obtain ⟨ps, h, ha⟩ := mark_spec p asset price t
  rw [h]
  exact pfExt_of_same rfl (by intro hn; simpa [ha] using hn) rfl rfl rfl

/-- number of transfer events the op appends to portfolio `id` -/
def xferCount : Op α → Outcome → String → Nat
  | .subPf pid _, none, id => if id = pid then 1 else 0
  | .wdPf pid _, none, id => if id = pid then 1 else 0
  | .pfSubscribe pid _ _, none, id => if id = pid then 1 else 0
  | .pfWithdraw pid _ _, none, id => if id = pid then 1 else 0
  | _, _, _ => 0

theorem ext_zero_of_eq {n : String → Nat} {b b' : Broker α} (h : Ext (fun _ => 0) b b')
    (hn : ∀ id, n id = 0) : Ext n b b' := by
  have : n = fun _ => 0 := funext hn
  rw [this]; exact h

theorem subscribePortfolio_ext (b : Broker α) (pid : String) (a : α) (hu : UniqueIds b) :
    Ext (fun id => if id = pid then okCount (b.subscribePortfolio pid a).2 else 0) b
      (b.subscribePortfolio pid a).1 := by
  unfold Broker.subscribePortfolio
  split
  · exact ext_zero_of_eq (Ext.refl b) (by simp [okCount])
  · split
    · exact ext_zero_of_eq (Ext.refl b) (by simp [okCount])
    · rename_i e hf
      split
      · exact ext_zero_of_eq (Ext.refl b) (by simp [okCount])
      · have := subscribe_pfExt e.pf b.clock a
        rcases hs : e.pf.subscribe b.clock a with ⟨pf, _ | err⟩ <;> rw [hs] at this <;> simp only
        · exact ext_setPf hu hf pf _ rfl [] (by simp) (by simp) _ _ (fun _ => rfl) this
        · exact ext_setPf hu hf pf _ rfl [] (by simp) (by simp) _ _ (fun _ => rfl) this

theorem withdrawPortfolio_ext (b : Broker α) (pid : String) (a : α) (hu : UniqueIds b) :
    Ext (fun id => if id = pid then okCount (b.withdrawPortfolio pid a).2 else 0) b
      (b.withdrawPortfolio pid a).1 := by
  unfold Broker.withdrawPortfolio
  split
  · exact ext_zero_of_eq (Ext.refl b) (by simp [okCount])
  · split
    · exact ext_zero_of_eq (Ext.refl b) (by simp [okCount])
    · rename_i e hf
      split
      · exact ext_zero_of_eq (Ext.refl b) (by simp [okCount])
      · have := withdraw_pfExt e.pf b.clock a
        rcases hs : e.pf.withdraw b.clock a with ⟨pf, _ | err⟩ <;> rw [hs] at this <;> simp only
        · exact ext_setPf hu hf pf _ rfl [] (by simp) (by simp) _ _ (fun _ => rfl) this
        · exact ext_setPf hu hf pf _ rfl [] (by simp) (by simp) _ _ (fun _ => rfl) this

theorem pfSubscribe_ext (b : Broker α) (pid : String) (t : Int) (a : α) (hu : UniqueIds b) :
    Ext (fun id => if id = pid then okCount (b.pfSubscribe pid t a).2 else 0) b
      (b.pfSubscribe pid t a).1 := by
  unfold Broker.pfSubscribe
  split
  · exact ext_zero_of_eq (Ext.refl b) (by simp [okCount])
  · rename_i e hf
    exact ext_setPf hu hf _ _ rfl [] (by simp) (by simp) _ _ (fun _ => rfl) (subscribe_pfExt e.pf t a)

theorem pfWithdraw_ext (b : Broker α) (pid : String) (t : Int) (a : α) (hu : UniqueIds b) :
    Ext (fun id => if id = pid then okCount (b.pfWithdraw pid t a).2 else 0) b
      (b.pfWithdraw pid t a).1 := by
  unfold Broker.pfWithdraw
  split
  · exact ext_zero_of_eq (Ext.refl b) (by simp [okCount])
  · rename_i e hf
    exact ext_setPf hu hf _ _ rfl [] (by simp) (by simp) _ _ (fun _ => rfl) (withdraw_pfExt e.pf t a)

theorem applyMark_ext (b : Broker α) (pid asset : String) (price : α) (t : Int) (hu : UniqueIds b) :
    Ext (fun _ => 0) b (b.applyMark pid asset price t).1 := by
  unfold Broker.applyMark
  split
  · exact Ext.refl b
  · rename_i e hf
    exact ext_setPf hu hf _ _ rfl [] (by simp) (by simp) _ 0 (by simp) (mark_pfExt e.pf asset price t)

/-- `applyTxn`: the log grows by exactly `okFill` -/
theorem applyTxn_fillLog (b : Broker α) (pid : String) (t : Txn α) :
    (b.applyTxn pid t).1.fillLog = b.fillLog ++ okFill pid t (b.applyTxn pid t).2 := by
  unfold Broker.applyTxn
  split
  · simp [okFill]
  · rename_i e hf
    rcases hs : e.pf.transactAsset t with ⟨pf, _ | err⟩ <;> simp [okFill]

theorem applyTxn_ext (b : Broker α) (pid : String) (t : Txn α) (hu : UniqueIds b) :
    Ext (fun _ => 0) b (b.applyTxn pid t).1 := by
  unfold Broker.applyTxn
  split
  · exact Ext.refl b
  · rename_i e hf
    have hid := (find?_spec hf).2
    have := transactAsset_pfExt e.pf t
    rcases hs : e.pf.transactAsset t with ⟨pf, _ | err⟩ <;> rw [hs] at this <;>
      simp only <;> rw [hid] at this
    · refine ext_setPf hu hf pf _ ?_ (okFill pid t none) ?_ ?_ _ 0 ?_ this
      · rfl
      · rfl
      · simp [okFill]
      · simp
    · refine ext_setPf hu hf pf _ ?_ (okFill pid t (some err)) ?_ ?_ _ 0 ?_ this
      · rfl
      · simp [okFill]
      · simp [okFill]
      · simp

theorem executeOrder_ext (b : Broker α) (q : Quotes α) (pid : String) (o : Order) (hu : UniqueIds b) :
    Ext (fun _ => 0) b (b.executeOrder q pid o).1 := by
  unfold Broker.executeOrder
  split
  · exact Ext.refl b
  · exact applyTxn_ext b pid _ hu

theorem Ext.unique {n : String → Nat} {b b' : Broker α} (h : Ext n b b') (hu : UniqueIds b) :
    UniqueIds b' := uniqueIds_of_ids h.ids hu

theorem Ext.trans0 {b b' b'' : Broker α} (h : Ext (fun _ => 0) b b') (h' : Ext (fun _ => 0) b' b'') :
    Ext (fun _ => 0) b b'' := h.trans h' (fun _ => rfl)

theorem update_ext (b : Broker α) (t : Int) (q : Quotes α) (hu : UniqueIds b) :
    Ext (fun _ => 0) b (b.update t q).1 := by
  unfold Broker.update
  simp only []
  have hmark := runUntilErr_inv_c01
    (fun b (m : String × String × α) => b.applyMark m.1 m.2.1 m.2.2 t)
    (fun b' => UniqueIds b' ∧ Ext (fun _ => 0) b b')
    (by
      rintro b' x ⟨h1, h2⟩
      have := applyMark_ext b' x.1 x.2.1 x.2.2 t h1
      exact ⟨this.unique h1, h2.trans0 this⟩)
    { b with clock := t } (Broker.markTargets { b with clock := t } q) ⟨hu, ext_of_pfs rfl rfl⟩
  split
  · rename_i h; rw [h] at hmark; exact hmark.2
  · rename_i b1 h; rw [h] at hmark
    split
    · have hcq : Ext (fun _ => 0) b1 b1.clearQueues :=
        ext_of_pfs (by simp [Broker.clearQueues, List.map_map, Function.comp_def]) rfl
      exact (runUntilErr_inv_c01
        (fun b (x : String × Order) => b.executeOrder q x.1 x.2)
        (fun b' => UniqueIds b' ∧ Ext (fun _ => 0) b b')
        (by
          rintro b' x ⟨h1, h2⟩
          have := executeOrder_ext b' q x.1 x.2 h1
          exact ⟨this.unique h1, h2.trans0 this⟩)
        b1.clearQueues _ ⟨hcq.unique hmark.1, hmark.2.trans0 hcq⟩).2
    · exact hmark.2

/-- One step of any op other than `create` extends the broker. -/
theorem step_ext (b : Broker α) (op : Op α) (hu : UniqueIds b) (hc : ∀ pid, op ≠ .create pid) :
    Ext (xferCount op (step b op).2) b (step b op).1 := by
  cases op with
  | subAcct a =>
    refine ext_zero_of_eq (ext_of_pfs ?_ ?_) (fun _ => rfl) <;>
      (simp only [step, Broker.subscribeAccount]; split <;> rfl)
  | wdAcct a =>
    refine ext_zero_of_eq (ext_of_pfs ?_ ?_) (fun _ => rfl) <;>
      (simp only [step, Broker.withdrawAccount]; split <;> (try split) <;> rfl)
  | create pid => exact absurd rfl (hc pid)
  | subPf pid a =>
    have := subscribePortfolio_ext b pid a hu
    simp only [step]
    convert this using 2
    cases (b.subscribePortfolio pid a).2 <;> simp [xferCount, okCount]
  | wdPf pid a =>
    have := withdrawPortfolio_ext b pid a hu
    simp only [step]
    convert this using 2
    cases (b.withdrawPortfolio pid a).2 <;> simp [xferCount, okCount]
  | submit pid o =>
    obtain ⟨h1, -, h3⟩ := submitOrder_pfs b pid o hu
    exact ext_zero_of_eq (ext_of_pfs h1 h3) (fun _ => rfl)
  | update t q => exact ext_zero_of_eq (update_ext b t q hu) (fun _ => rfl)
  | setClock t => exact ext_zero_of_eq (ext_of_pfs rfl rfl) (fun _ => rfl)
  | applyTxn pid t => exact ext_zero_of_eq (applyTxn_ext b pid t hu) (fun _ => rfl)
  | applyMark pid a p t => exact ext_zero_of_eq (applyMark_ext b pid a p t hu) (fun _ => rfl)
  | pfSubscribe pid t a =>
    have := pfSubscribe_ext b pid t a hu
    simp only [step]
    convert this using 2
    cases (b.pfSubscribe pid t a).2 <;> simp [xferCount, okCount]
  | pfWithdraw pid t a =>
    have := pfWithdraw_ext b pid t a hu
    simp only [step]
    convert this using 2
    cases (b.pfWithdraw pid t a).2 <;> simp [xferCount, okCount]

/-! ## 7. Invariants -/

/-- Well-formed broker state: portfolio ids pairwise distinct and every portfolio's history
consistent with its cash (`PfLedger`). -/
def WF_c01 (b : Broker α) : Prop := UniqueIds b ∧ ∀ e ∈ b.entries, PfLedger e.pf

/-- every logged fill belongs to an existing portfolio, and each portfolio's asset-transaction
events are exactly its logged fills, in order -/
def FillsOK (b : Broker α) : Prop :=
  (∀ x ∈ b.fillLog, b.has x.1 = true) ∧
  ∀ e ∈ b.entries, (e.pf.history.filter isTxnEv).map evKey = (fillsIn b.fillLog e.pf.id).map txnKey

/-- within each portfolio the held assets are pairwise distinct (it is a dictionary keyed by asset) -/
def PosUnique (b : Broker α) : Prop := ∀ e ∈ b.entries, (e.pf.positions.map (·.asset)).Nodup

theorem forall₂_mem_right {β : Type} {R : β → β → Prop} {l l' : List β} (h : List.Forall₂ R l l')
    {y : β} (hy : y ∈ l') : ∃ x ∈ l, R x y := by
  induction h with
  | nil => cases hy
  | cons hab _ ih =>
    rcases List.mem_cons.mp hy with rfl | hy
    · exact ⟨_, List.mem_cons_self, hab⟩
    · obtain ⟨x, hx, hr⟩ := ih hy
      exact ⟨x, List.mem_cons_of_mem _ hx, hr⟩

theorem forall₂_mem_left_c01 {β : Type} {R : β → β → Prop} {l l' : List β} (h : List.Forall₂ R l l')
    {x : β} (hx : x ∈ l) : ∃ y ∈ l', R x y := by
  induction h with
  | nil => cases hx
  | cons hab _ ih =>
    rcases List.mem_cons.mp hx with rfl | hx
    · exact ⟨_, List.mem_cons_self, hab⟩
    · obtain ⟨y, hy, hr⟩ := ih hx
      exact ⟨y, List.mem_cons_of_mem _ hy, hr⟩

theorem PfExt.ledger {nf : List (String × Txn α)} {n : Nat} {p p' : Portfolio α} (h : PfExt nf n p p')
    (hp : PfLedger p) : PfLedger p' := by
  rw [pfLedger_iff] at *
  obtain ⟨ev, e1, e2, e3, -⟩ := h.hist
  rw [e1, e2, histSum_append, ledgerFrom_append, zero_add, ← hp.1]
  exact ⟨rfl, hp.2, e3⟩

theorem Ext.wf {n : String → Nat} {b b' : Broker α} (h : Ext n b b') (hw : WF_c01 b) : WF_c01 b' := by
  refine ⟨h.unique hw.1, ?_⟩
  obtain ⟨nf, -, -, hall⟩ := h
  intro e' he'
  obtain ⟨e, he, hr⟩ := forall₂_mem_right hall he'
  exact hr.ledger (hw.2 e he)

theorem Ext.posUnique {n : String → Nat} {b b' : Broker α} (h : Ext n b b') (hw : PosUnique b) :
    PosUnique b' := by
  obtain ⟨nf, -, -, hall⟩ := h
  intro e' he'
  obtain ⟨e, he, hr⟩ := forall₂_mem_right hall he'
  exact hr.pos (hw e he)

theorem Ext.fillsOK {n : String → Nat} {b b' : Broker α} (h : Ext n b b') (hw : FillsOK b) :
    FillsOK b' := by
  have hids := h.ids
  obtain ⟨nf, hfl, hhas, hall⟩ := h
  refine ⟨?_, ?_⟩
  · intro x hx
    rw [hfl] at hx
    rw [has_of_ids_c01 hids]
    rcases List.mem_append.mp hx with hx | hx
    · exact hw.1 x hx
    · exact hhas x hx
  · intro e' he'
    obtain ⟨e, he, hr⟩ := forall₂_mem_right hall he'
    obtain ⟨ev, e1, -, -, e4, -⟩ := hr.hist
    rw [e1, hfl, List.filter_append, List.map_append, fillsIn_append, List.map_append, hr.id, e4,
      hw.2 e he]

theorem create_entries (b : Broker α) (pid : String) :
    (b.createPortfolio pid).1.fillLog = b.fillLog ∧ (b.createPortfolio pid).1.master = b.master ∧
    ((b.createPortfolio pid).2 = some .value ∧ b.has pid = true ∧ (b.createPortfolio pid).1 = b ∨
     (b.createPortfolio pid).2 = none ∧ b.has pid = false ∧
       (b.createPortfolio pid).1.entries = b.entries ++ [{ pf := Portfolio.new pid b.clock }]) := by
  unfold Broker.createPortfolio
  split
  · rename_i h; exact ⟨rfl, rfl, .inl ⟨rfl, h, rfl⟩⟩
  · rename_i h; exact ⟨rfl, rfl, .inr ⟨rfl, by simpa using h, rfl⟩⟩

theorem step_wf (b : Broker α) (op : Op α) (hw : WF_c01 b) : WF_c01 (step b op).1 := by
  by_cases hc : ∀ pid, op ≠ .create pid
  · exact (step_ext b op hw.1 hc).wf hw
  · push Not at hc
    obtain ⟨pid, rfl⟩ := hc
    refine ⟨(step_total b _ hw.1).1, ?_⟩
    simp only [step]
    obtain ⟨-, -, ⟨-, -, h⟩ | ⟨-, -, h⟩⟩ := create_entries b pid <;> rw [h]
    · exact hw.2
    · intro e he
      rcases List.mem_append.mp he with he | he
      · exact hw.2 e he
      · simp only [List.mem_singleton] at he
        subst he
        simp [PfLedger, Portfolio.new]

theorem step_posUnique (b : Broker α) (op : Op α) (hu : UniqueIds b) (hw : PosUnique b) :
    PosUnique (step b op).1 := by
  by_cases hc : ∀ pid, op ≠ .create pid
  · exact (step_ext b op hu hc).posUnique hw
  · push Not at hc
    obtain ⟨pid, rfl⟩ := hc
    simp only [step]
    obtain ⟨-, -, ⟨-, -, h⟩ | ⟨-, -, h⟩⟩ := create_entries b pid
    · rw [h]; exact hw
    · intro e he
      rw [h] at he
      rcases List.mem_append.mp he with he | he
      · exact hw e he
      · simp only [List.mem_singleton] at he
        subst he
        simp [Portfolio.new]

theorem step_fillsOK (b : Broker α) (op : Op α) (hu : UniqueIds b) (hw : FillsOK b) :
    FillsOK (step b op).1 := by
  by_cases hc : ∀ pid, op ≠ .create pid
  · exact (step_ext b op hu hc).fillsOK hw
  · push Not at hc
    obtain ⟨pid, rfl⟩ := hc
    simp only [step]
    obtain ⟨hfl, -, ⟨-, -, h⟩ | ⟨-, hno, h⟩⟩ := create_entries b pid
    · rw [h]; exact hw
    · refine ⟨?_, ?_⟩
      · intro x hx
        rw [hfl] at hx
        have := hw.1 x hx
        rw [has_iff] at this ⊢
        obtain ⟨e, he, hid⟩ := this
        exact ⟨e, by rw [h]; exact List.mem_append_left _ he, hid⟩
      · intro e he
        rw [h] at he
        rw [hfl]
        rcases List.mem_append.mp he with he | he
        · exact hw.2 e he
        · simp only [List.mem_singleton] at he
          subst he
          have : fillsIn b.fillLog pid = [] := by
            unfold fillsIn
            rw [List.filter_eq_nil_iff.mpr]
            · rfl
            · intro x hx
              have := hw.1 x hx
              intro hxp
              rw [(by simpa using hxp : x.1 = pid), hno] at this
              cases this
          simp [Portfolio.new, this]

theorem run_wf_c01 (b : Broker α) (ops : List (Op α)) (hw : WF_c01 b) : WF_c01 (run b ops) := by
  induction ops generalizing b with
  | nil => exact hw
  | cons o os ih => exact ih _ (step_wf b o hw)

theorem run_fillsOK (b : Broker α) (ops : List (Op α)) (hu : UniqueIds b) (hw : FillsOK b) :
    FillsOK (run b ops) := by
  induction ops generalizing b with
  | nil => exact hw
  | cons o os ih => exact ih _ (step_total b o hu).1 (step_fillsOK b o hu hw)

theorem run_posUnique (b : Broker α) (ops : List (Op α)) (hu : UniqueIds b) (hw : PosUnique b) :
    PosUnique (run b ops) := by
  induction ops generalizing b with
  | nil => exact hw
  | cons o os ih => exact ih _ (step_total b o hu).1 (step_posUnique b o hu hw)

/-- a freshly constructed broker is well formed in every sense -/
theorem new_inv {t : Int} {funds : α} {fee : FeeModel α} {b : Broker α}
    (h : Broker.new t funds fee = .ok b) : WF_c01 b ∧ FillsOK b ∧ PosUnique b ∧ b.entries = [] ∧
      b.fillLog = [] := by
  unfold Broker.new at h
  split at h
  · cases h
  · cases h
    simp [WF_c01, FillsOK, PosUnique, UniqueIds]

/-! ## 8. New fills of a step, external flow -/

/-- the fills logged by one step -/
def newFills (b : Broker α) (op : Op α) : List (String × Txn α) :=
  (step b op).1.fillLog.drop b.fillLog.length

/-- the fill log only ever grows -/
theorem step_fillLog (b : Broker α) (op : Op α) (hu : UniqueIds b) :
    (step b op).1.fillLog = b.fillLog ++ newFills b op := by
  unfold newFills
  by_cases hc : ∀ pid, op ≠ .create pid
  · obtain ⟨nf, h, -⟩ := step_ext b op hu hc
    rw [h]; simp
  · push Not at hc
    obtain ⟨pid, rfl⟩ := hc
    simp [step, (create_entries b pid).1]

theorem newFills_applyTxn (b : Broker α) (pid : String) (t : Txn α) :
    newFills b (.applyTxn pid t) = okFill pid t (step b (.applyTxn pid t)).2 := by
  unfold newFills
  simp only [step]
  rw [applyTxn_fillLog]; simp

/-- only `applyTxn` and `update` log fills -/
theorem newFills_other (b : Broker α) (op : Op α) (h1 : ∀ pid t, op ≠ .applyTxn pid t)
    (h2 : ∀ t q, op ≠ .update t q) : newFills b op = [] := by
  have key : (step b op).1.fillLog = b.fillLog := by
    cases op with
    | applyTxn pid t => exact absurd rfl (h1 pid t)
    | update t q => exact absurd rfl (h2 t q)
    | subAcct a => simp only [step, Broker.subscribeAccount]; split <;> rfl
    | wdAcct a => simp only [step, Broker.withdrawAccount]; split <;> (try split) <;> rfl
    | create pid => exact (create_entries b pid).1
    | subPf pid a =>
      simp only [step, Broker.subscribePortfolio]
      split
      · rfl
      · split
        · rfl
        · split
          · rfl
          · split <;> rfl
    | wdPf pid a =>
      simp only [step, Broker.withdrawPortfolio]
      split
      · rfl
      · split
        · rfl
        · split
          · rfl
          · split <;> rfl
    | submit pid o => simp only [step, Broker.submitOrder]; split <;> rfl
    | setClock t => rfl
    | applyMark pid a p t => simp only [step, Broker.applyMark]; split <;> rfl
    | pfSubscribe pid t a => simp only [step, Broker.pfSubscribe]; split <;> rfl
    | pfWithdraw pid t a => simp only [step, Broker.pfWithdraw]; split <;> rfl
  unfold newFills
  rw [key]; simp

/-- Cash crossing the boundary of {master account, portfolios} in one step: external
subscriptions / withdrawals, minus the cost `price * qty + commission` of every fill it logs. -/
def extFlow (b : Broker α) (op : Op α) : α :=
  transferFlow op (step b op).2 - ((newFills b op).map fillCost).sum

theorem step_zero_sum (b : Broker α) (op : Op α) (hu : UniqueIds b) :
    total (step b op).1 = total b + extFlow b op := by
  have h := (step_total b op hu).2
  have hfl := step_fillLog b op hu
  unfold Conserved fillTotal at h
  rw [hfl] at h
  simp only [List.map_append, List.sum_append] at h
  unfold extFlow
  linarith

/-- the external flows along a run -/
def flows (b : Broker α) : List (Op α) → List α
  | [] => []
  | o :: os => extFlow b o :: flows (step b o).1 os

theorem run_zero_sum (b : Broker α) (ops : List (Op α)) (hu : UniqueIds b) :
    total (run b ops) = total b + (flows b ops).sum := by
  induction ops generalizing b with
  | nil => simp [run, flows]
  | cons o os ih =>
    simp only [run, flows, List.sum_cons]
    rw [ih _ (step_total b o hu).1, step_zero_sum b o hu]; ring

end
end Qs
