import QsProofs.Lemmas.Broker
import Mathlib.Data.List.Nodup

/-!
# Observable state, refusals (helpers for C15 and for `C01_only_these`)

* `obs`: master cash and, per portfolio in order, id, cash, (asset, net quantity) of the positions,
  pending queue, history.  Clocks and prices are not observed.
* closed forms of the outcome of every op (`*_out`): these are the error-kind table.
* "refused ⇒ `obs` unchanged" per op.
-/

set_option linter.unusedSectionVars false

namespace Qs
open NumOps Num

section
variable {α : Type} [Field α] [LinearOrder α] [IsStrictOrderedRing α] [FloorRing α] [NumOps α]
  [LawfulNumOps α]

/-- what is observed of one portfolio -/
def obsPf (e : PfEntry α) : String × α × List (String × α) × List Order × List (Event α) :=
  (e.pf.id, e.pf.cash, e.pf.positions.map (fun p => (p.asset, p.net)), e.queue, e.pf.history)

/-- the observable state of the broker -/
def obs (b : Broker α) : α × List (String × α × List (String × α) × List Order × List (Event α)) :=
  (b.master, b.entries.map obsPf)

/-- the cash balances: master, and per portfolio (id, cash) -/
def cashView (b : Broker α) : α × List (String × α) :=
  (b.master, b.entries.map (fun e => (e.pf.id, e.pf.cash)))

theorem cashView_of_obs {b b' : Broker α} (h : obs b' = obs b) : cashView b' = cashView b := by
  have h1 : ∀ c : Broker α, cashView c = ((obs c).1, (obs c).2.map (fun x => (x.1, x.2.1))) := by
    intro c; simp [cashView, obs, obsPf, List.map_map, Function.comp_def]
  rw [h1, h1, h]

/-- the observed part of a portfolio -/
def SameObs (p p' : Portfolio α) : Prop :=
  p'.id = p.id ∧ p'.cash = p.cash ∧ p'.history = p.history ∧
    p'.positions.map (fun q => (q.asset, q.net)) = p.positions.map (fun q => (q.asset, q.net))

theorem SameObs.rfl' (p : Portfolio α) : SameObs p p := ⟨rfl, rfl, rfl, rfl⟩

theorem obs_setPf {b : Broker α} {pid : String} {e : PfEntry α} (hu : UniqueIds b)
    (hf : b.find? pid = some e) (p : Portfolio α) (hp : SameObs e.pf p) (b' : Broker α)
    (he : b'.entries = (b.setPf p).entries) (hm : b'.master = b.master) : obs b' = obs b := by
  obtain ⟨l1, l2, hl, hl', -⟩ := setPf_split hu hf p (hp.1.trans (find?_spec hf).2)
  unfold obs
  rw [hm, he, hl, hl']
  simp only [List.map_append, List.map_cons]
  have : obsPf { e with pf := p } = obsPf e := by
    simp only [obsPf, hp.1, hp.2.1, hp.2.2.1, hp.2.2.2]
  rw [this]

/-! ### positions -/

theorem set_map {β : Type} (ps : Positions α) (p : Position α) (f : Position α → β) :
    (Positions.set ps p).map f = ps.map (fun q => if q.asset == p.asset then f p else f q) := by
  unfold Positions.set
  rw [List.map_map]
  apply List.map_congr_left
  intro q _
  simp only [Function.comp]
  split <;> rfl

theorem posFind_spec {ps : Positions α} {a : String} {p : Position α} (h : Positions.find? ps a = some p) :
    p ∈ ps ∧ p.asset = a := by
  unfold Positions.find? at h
  exact ⟨List.mem_of_find?_eq_some h, by simpa using List.find?_some h⟩

/-- replacing the found position by one with the same asset and net quantity is unobservable -/
theorem set_obs {ps : Positions α} {a : String} {pos pos' : Position α}
    (hn : (ps.map (·.asset)).Nodup) (hf : Positions.find? ps a = some pos)
    (ha : pos'.asset = pos.asset) (hnet : pos'.net = pos.net) :
    (Positions.set ps pos').map (fun q => (q.asset, q.net)) = ps.map (fun q => (q.asset, q.net)) := by
  rw [set_map]
  apply List.map_congr_left
  intro q hq
  split
  · rename_i h
    have hqa : q.asset = pos.asset := (by simpa using h : q.asset = pos'.asset).trans ha
    have : q = pos := List.inj_on_of_nodup_map hn hq (posFind_spec hf).1 hqa
    rw [this, ha, hnet]
  · rfl

theorem updatePrice_net (p : Position α) (pr : α) (t : Int) : (p.updatePrice pr t).1.net = p.net := by
  unfold Position.net
  rw [(updatePrice_qty p pr t).1, (updatePrice_qty p pr t).2]

/-- `mark` (accepted or refused) is unobservable -/
theorem mark_sameObs (p : Portfolio α) (asset : String) (price : α) (t : Int)
    (hn : (p.positions.map (·.asset)).Nodup) : SameObs p (p.mark asset price t).1 := by
  unfold Portfolio.mark
  split
  · exact SameObs.rfl' p
  · rename_i pos hf
    split
    · exact SameObs.rfl' p
    · split
      · exact SameObs.rfl' p
      · exact ⟨rfl, rfl, rfl, set_obs hn hf (updatePrice_asset _ _ _) (updatePrice_net _ _ _)⟩

/-! ### closed forms of the outcomes -/

theorem subscribe_out (p : Portfolio α) (t : Int) (a : α) :
    (p.subscribe t a).2 = if t < p.clock ∨ a < 0 then some .value else none := by
  rcases subscribe_spec p t a with ⟨h1, h⟩ | ⟨h1, h2, h⟩ | ⟨h1, h2, h⟩ <;> rw [h]
  · simp [h1]
  · simp [h2]
  · simp [h1, h2]

theorem withdraw_out (p : Portfolio α) (t : Int) (a : α) :
    (p.withdraw t a).2 = if t < p.clock ∨ a < 0 ∨ p.cash < a then some .value else none := by
  rcases withdraw_spec p t a with ⟨h1, h⟩ | ⟨h1, h2, h⟩ | ⟨h1, h2, h3, h⟩ <;> rw [h]
  · simp [h1]
  · simp [h2]
  · simp [h1, h2, h3]

theorem subscribe_err_sameObs (p : Portfolio α) (t : Int) (a : α) {e : Err}
    (h : (p.subscribe t a).2 = some e) : SameObs p (p.subscribe t a).1 := by
  obtain ⟨p', ⟨h', -, rfl | rfl⟩ | ⟨h', -⟩⟩ := subscribe_cases p t a <;> rw [h'] at h ⊢
  · exact SameObs.rfl' _
  · exact ⟨rfl, rfl, rfl, rfl⟩
  · cases h

theorem withdraw_err_sameObs (p : Portfolio α) (t : Int) (a : α) {e : Err}
    (h : (p.withdraw t a).2 = some e) : SameObs p (p.withdraw t a).1 := by
  obtain ⟨p', ⟨h', -, rfl | rfl⟩ | ⟨h', -⟩⟩ := withdraw_cases p t a <;> rw [h'] at h ⊢
  · exact SameObs.rfl' _
  · exact ⟨rfl, rfl, rfl, rfl⟩
  · cases h

theorem subAcct_out (b : Broker α) (a : α) :
    (b.subscribeAccount a).2 = if a < 0 then some .value else none := by
  unfold Broker.subscribeAccount; by_cases h : a < 0 <;> simp [h]

theorem wdAcct_out (b : Broker α) (a : α) :
    (b.withdrawAccount a).2 = if a < 0 ∨ b.master < a then some .value else none := by
  unfold Broker.withdrawAccount
  by_cases h : a < 0
  · simp [h]
  · by_cases h2 : b.master < a <;> simp [h, h2]

theorem create_out (b : Broker α) (pid : String) :
    (b.createPortfolio pid).2 = if b.has pid then some .value else none := by
  unfold Broker.createPortfolio; by_cases h : b.has pid <;> simp [h]

theorem subPf_out (b : Broker α) (pid : String) (a : α) :
    (b.subscribePortfolio pid a).2 =
      if a < 0 then some .value else
      match b.find? pid with
      | none => some .key
      | some e => if b.master < a ∨ b.clock < e.pf.clock then some .value else none := by
  unfold Broker.subscribePortfolio
  by_cases h : a < 0
  · simp [h]
  · simp only [lt_eq, zero_eq, h, decide_false, Bool.false_eq_true, if_false]
    cases hf : b.find? pid with
    | none => rfl
    | some e =>
      simp only
      by_cases h2 : b.master < a
      · simp [h2]
      · have := subscribe_out e.pf b.clock a
        rcases hs : e.pf.subscribe b.clock a with ⟨pf, _ | err⟩ <;> rw [hs] at this <;>
          simp only [h2, decide_false, Bool.false_eq_true, if_false, false_or] <;> simp only [h, or_false] at this
        · exact this
        · exact this

theorem wdPf_out (b : Broker α) (pid : String) (a : α) :
    (b.withdrawPortfolio pid a).2 =
      if a < 0 then some .value else
      match b.find? pid with
      | none => some .key
      | some e => if e.pf.cash < a ∨ b.clock < e.pf.clock then some .value else none := by
  unfold Broker.withdrawPortfolio
  by_cases h : a < 0
  · simp [h]
  · simp only [lt_eq, zero_eq, h, decide_false, Bool.false_eq_true, if_false]
    cases hf : b.find? pid with
    | none => rfl
    | some e =>
      simp only
      by_cases h2 : e.pf.cash < a
      · simp [h2]
      · have := withdraw_out e.pf b.clock a
        rcases hs : e.pf.withdraw b.clock a with ⟨pf, _ | err⟩ <;> rw [hs] at this <;>
          simp only [h2, decide_false, Bool.false_eq_true, if_false, false_or] <;>
          simp only [h, h2, or_false] at this
        · exact this
        · exact this

theorem submit_out (b : Broker α) (pid : String) (o : Order) :
    (b.submitOrder pid o).2 = match b.find? pid with | none => some .key | some _ => none := by
  unfold Broker.submitOrder; cases b.find? pid <;> rfl

theorem pfSubscribe_out (b : Broker α) (pid : String) (t : Int) (a : α) :
    (b.pfSubscribe pid t a).2 =
      match b.find? pid with
      | none => some .key
      | some e => if t < e.pf.clock ∨ a < 0 then some .value else none := by
  unfold Broker.pfSubscribe
  cases b.find? pid with
  | none => rfl
  | some e => exact subscribe_out e.pf t a

theorem pfWithdraw_out (b : Broker α) (pid : String) (t : Int) (a : α) :
    (b.pfWithdraw pid t a).2 =
      match b.find? pid with
      | none => some .key
      | some e => if t < e.pf.clock ∨ a < 0 ∨ e.pf.cash < a then some .value else none := by
  unfold Broker.pfWithdraw
  cases b.find? pid with
  | none => rfl
  | some e => exact withdraw_out e.pf t a

/-! ### positions: outcomes; a refused `transact` moves at most the clock -/

theorem updatePrice_out (p : Position α) (pr : α) (t : Int) :
    (p.updatePrice pr t).2 = if t < p.clock ∨ pr ≤ 0 then some .value else none := by
  unfold Position.updatePrice
  by_cases h : t < p.clock
  · simp [h]
  · by_cases h2 : pr ≤ 0 <;> simp [h, h2]

theorem transact_out (p : Position α) (t : Txn α) :
    (p.transact t).2 =
      if t.qty = 0 then none else if t.time < p.clock ∨ t.price ≤ 0 then some .value else none := by
  unfold Position.transact
  by_cases h : t.qty = 0
  · simp [h]
  · simp only [h, if_false]
    have := updatePrice_out p t.price t.time
    rcases hs : p.updatePrice t.price t.time with ⟨p2, _ | e⟩ <;> rw [hs] at this <;> exact this

/-- a refused `updatePrice` has at most moved the clock forward -/
theorem updatePrice_err_form (p : Position α) (pr : α) (t : Int) {e : Err}
    (h : (p.updatePrice pr t).2 = some e) :
    ∃ c, p.clock ≤ c ∧ (p.updatePrice pr t).1 = { p with clock := c } := by
  unfold Position.updatePrice at h ⊢
  split
  · exact ⟨p.clock, le_refl _, rfl⟩
  · rename_i h1
    rw [if_neg h1] at h
    split
    · exact ⟨t, not_lt.mp h1, rfl⟩
    · rename_i h2; rw [if_neg h2] at h; cases h

/-- a refused `Position.transact` is a refused `updatePrice`: the price / time validation comes first,
the running quantities, averages and commissions are not touched -/
theorem transact_err_eq (p : Position α) (t : Txn α) {e : Err} (h : (p.transact t).2 = some e) :
    (p.updatePrice t.price t.time).2 = some e ∧ (p.transact t).1 = (p.updatePrice t.price t.time).1 := by
  unfold Position.transact at h ⊢
  by_cases hq : t.qty = 0
  · rw [if_pos hq] at h; cases h
  · rw [if_neg hq] at h ⊢
    rcases hs : p.updatePrice t.price t.time with ⟨p2, _ | e'⟩ <;> rw [hs] at h
    · cases h
    · exact ⟨h, rfl⟩

/-- a refused `Position.transact` has changed at most the position's clock (moved forward) -/
theorem transact_err (p : Position α) (t : Txn α) {e : Err} (h : (p.transact t).2 = some e) :
    t.qty ≠ 0 ∧ (t.time < p.clock ∨ t.price ≤ 0) ∧ e = .value ∧
      ∃ c, p.clock ≤ c ∧ (p.transact t).1 = { p with clock := c } := by
  have hout := transact_out p t
  rw [h] at hout
  obtain ⟨h1, h2⟩ := transact_err_eq p t h
  rw [h2]
  by_cases hq : t.qty = 0
  · simp [hq] at hout
  · simp only [hq, if_false] at hout
    by_cases hc : t.time < p.clock ∨ t.price ≤ 0
    · simp only [hc, if_true, Option.some.injEq] at hout
      exact ⟨hq, hc, hout, updatePrice_err_form p t.price t.time h1⟩
    · simp [hc] at hout

/-- a refused `Position.transact` leaves the net quantity as it was -/
theorem transact_err_net (p : Position α) (t : Txn α) {e : Err} (h : (p.transact t).2 = some e) :
    (p.transact t).1.net = p.net := by
  obtain ⟨-, -, -, c, -, hc⟩ := transact_err p t h
  rw [hc]; rfl

theorem transactPosition_out (ps : Positions α) (t : Txn α) :
    (ps.transactPosition t).2 =
      match Positions.find? ps t.asset with
      | none => none
      | some p => (p.transact t).2 := by
  unfold Positions.transactPosition
  cases hf : Positions.find? ps t.asset with
  | none => simp only []; split <;> rfl
  | some p =>
    simp only
    rcases hs : p.transact t with ⟨p', _ | e⟩
    · simp only []; split <;> rfl
    · rfl

theorem transactPosition_err (ps : Positions α) (t : Txn α) {e : Err}
    (h : (ps.transactPosition t).2 = some e) :
    ∃ p, Positions.find? ps t.asset = some p ∧ (p.transact t).2 = some e ∧
      (ps.transactPosition t).1 = Positions.set ps (p.transact t).1 := by
  have hout := transactPosition_out ps t
  rw [h] at hout
  cases hf : Positions.find? ps t.asset with
  | none => rw [hf] at hout; cases hout
  | some p =>
    rw [hf] at hout
    simp only at hout
    refine ⟨p, rfl, hout.symm, ?_⟩
    unfold Positions.transactPosition
    rw [hf]
    simp only
    rcases hs : p.transact t with ⟨p', _ | e'⟩
    · rw [hs] at hout; cases hout
    · rfl

/-- a refused `transactPosition` is unobservable -/
theorem transactPosition_err_obs (ps : Positions α) (t : Txn α) (hn : (ps.map (·.asset)).Nodup) {e : Err}
    (h : (ps.transactPosition t).2 = some e) :
    (ps.transactPosition t).1.map (fun q => (q.asset, q.net)) = ps.map (fun q => (q.asset, q.net)) := by
  obtain ⟨p, hf, herr, hset⟩ := transactPosition_err ps t h
  rw [hset]
  exact set_obs hn hf (transact_asset p t) (transact_err_net p t herr)

theorem transactAsset_out (p : Portfolio α) (t : Txn α) :
    (p.transactAsset t).2 =
      if t.time < p.clock then some .value else (p.positions.transactPosition t).2 := by
  rcases transactAsset_spec p t with ⟨h1, h⟩ | ⟨h1, ps, e, hps, h⟩ | ⟨h1, ps, ev, hps, -, -, -, -, -, -, -, h⟩ <;>
    rw [h]
  · simp [h1]
  · simp [h1, hps]
  · simp [h1, hps]

theorem applyTxn_out (b : Broker α) (pid : String) (t : Txn α) :
    (b.applyTxn pid t).2 =
      match b.find? pid with
      | none => some .key
      | some e => (e.pf.transactAsset t).2 := by
  unfold Broker.applyTxn
  cases b.find? pid with
  | none => rfl
  | some e =>
    simp only
    rcases hs : e.pf.transactAsset t with ⟨pf, _ | err⟩ <;> rfl

theorem mark_out (p : Portfolio α) (asset : String) (price : α) (t : Int) :
    (p.mark asset price t).2 =
      match Positions.find? p.positions asset with
      | none => none
      | some pos => if price < 0 ∨ t < p.clock then some .value else (pos.updatePrice price t).2 := by
  unfold Portfolio.mark
  cases Positions.find? p.positions asset with
  | none => rfl
  | some pos =>
    simp only
    by_cases h1 : price < 0
    · simp [h1]
    · by_cases h2 : t < p.clock <;> simp [h1, h2]

theorem applyMark_out (b : Broker α) (pid asset : String) (price : α) (t : Int) :
    (b.applyMark pid asset price t).2 =
      match b.find? pid with
      | none => some .key
      | some e => (e.pf.mark asset price t).2 := by
  unfold Broker.applyMark
  cases b.find? pid <;> rfl

/-! ### refused ⇒ unobservable, per op -/

theorem subAcct_err (b : Broker α) (a : α) {e : Err} (h : (b.subscribeAccount a).2 = some e) :
    (b.subscribeAccount a).1 = b := by
  unfold Broker.subscribeAccount at h ⊢
  split
  · rfl
  · rename_i hh; rw [if_neg hh] at h; cases h

theorem wdAcct_err (b : Broker α) (a : α) {e : Err} (h : (b.withdrawAccount a).2 = some e) :
    (b.withdrawAccount a).1 = b := by
  unfold Broker.withdrawAccount at h ⊢
  split
  · rfl
  · rename_i hh; rw [if_neg hh] at h
    split
    · rfl
    · rename_i hh2; rw [if_neg hh2] at h; cases h

theorem create_err (b : Broker α) (pid : String) {e : Err} (h : (b.createPortfolio pid).2 = some e) :
    (b.createPortfolio pid).1 = b := by
  obtain ⟨-, -, ⟨-, -, h'⟩ | ⟨h', -⟩⟩ := create_entries b pid
  · exact h'
  · rw [h'] at h; cases h

theorem submit_err (b : Broker α) (pid : String) (o : Order) {e : Err}
    (h : (b.submitOrder pid o).2 = some e) : (b.submitOrder pid o).1 = b := by
  unfold Broker.submitOrder at h ⊢
  split
  · rfl
  · rename_i hf; rw [hf] at h; cases h

theorem subPf_err_obs (b : Broker α) (pid : String) (a : α) (hu : UniqueIds b) {e : Err}
    (h : (b.subscribePortfolio pid a).2 = some e) : obs (b.subscribePortfolio pid a).1 = obs b := by
  unfold Broker.subscribePortfolio at h ⊢
  split
  · rfl
  · rename_i h1
    rw [if_neg h1] at h
    split
    · rfl
    · rename_i en hf
      rw [hf] at h
      simp only at h
      split
      · rfl
      · rename_i h2
        rw [if_neg h2] at h
        rcases hs : en.pf.subscribe b.clock a with ⟨pf, _ | err⟩ <;> rw [hs] at h <;> simp only at h ⊢
        · cases h
        · have := subscribe_err_sameObs en.pf b.clock a (e := err) (by rw [hs])
          rw [hs] at this
          exact obs_setPf hu hf pf this _ rfl rfl

theorem wdPf_err_obs (b : Broker α) (pid : String) (a : α) (hu : UniqueIds b) {e : Err}
    (h : (b.withdrawPortfolio pid a).2 = some e) : obs (b.withdrawPortfolio pid a).1 = obs b := by
  unfold Broker.withdrawPortfolio at h ⊢
  split
  · rfl
  · rename_i h1
    rw [if_neg h1] at h
    split
    · rfl
    · rename_i en hf
      rw [hf] at h
      simp only at h
      split
      · rfl
      · rename_i h2
        rw [if_neg h2] at h
        rcases hs : en.pf.withdraw b.clock a with ⟨pf, _ | err⟩ <;> rw [hs] at h <;> simp only at h ⊢
        · cases h
        · have := withdraw_err_sameObs en.pf b.clock a (e := err) (by rw [hs])
          rw [hs] at this
          exact obs_setPf hu hf pf this _ rfl rfl

theorem pfSubscribe_err_obs (b : Broker α) (pid : String) (t : Int) (a : α) (hu : UniqueIds b) {e : Err}
    (h : (b.pfSubscribe pid t a).2 = some e) : obs (b.pfSubscribe pid t a).1 = obs b := by
  unfold Broker.pfSubscribe at h ⊢
  split
  · rfl
  · rename_i en hf
    rw [hf] at h
    exact obs_setPf hu hf _ (subscribe_err_sameObs en.pf t a h) _ rfl rfl

theorem pfWithdraw_err_obs (b : Broker α) (pid : String) (t : Int) (a : α) (hu : UniqueIds b) {e : Err}
    (h : (b.pfWithdraw pid t a).2 = some e) : obs (b.pfWithdraw pid t a).1 = obs b := by
  unfold Broker.pfWithdraw at h ⊢
  split
  · rfl
  · rename_i en hf
    rw [hf] at h
    exact obs_setPf hu hf _ (withdraw_err_sameObs en.pf t a h) _ rfl rfl

/-- `applyMark` never changes the observable state (whatever its outcome) -/
theorem applyMark_obs (b : Broker α) (pid asset : String) (price : α) (t : Int) (hu : UniqueIds b)
    (hp : PosUnique b) : obs (b.applyMark pid asset price t).1 = obs b := by
  unfold Broker.applyMark
  split
  · rfl
  · rename_i en hf
    exact obs_setPf hu hf _ (mark_sameObs en.pf asset price t (hp en (find?_spec hf).1)) _ rfl rfl

/-- `applyTxn` refused for an unknown portfolio or a time earlier than the portfolio clock
(special case of `applyTxn_refused_obs`, which needs no case distinction; kept because it does not
need `PosUnique`) -/
theorem applyTxn_err_obs (b : Broker α) (pid : String) (t : Txn α) (hu : UniqueIds b)
    (hdoc : ∀ en, b.find? pid = some en → t.time < en.pf.clock) :
    obs (b.applyTxn pid t).1 = obs b := by
  unfold Broker.applyTxn
  split
  · rfl
  · rename_i en hf
    obtain ⟨p', ⟨h, -, rfl⟩ | ⟨er, ps, h, hn, -⟩ | ⟨ev, h, hn, -⟩⟩ := transactAsset_cases en.pf t
    · rw [h]; exact obs_setPf hu hf _ (SameObs.rfl' _) _ rfl rfl
    · exact absurd (hdoc en hf) hn
    · exact absurd (hdoc en hf) hn

/-! ### a refused `applyTxn` is unobservable -/

/-- a refused `transactAsset` (whatever raised the error: the portfolio's clock check, or
`Position.transact`'s validation of the trade's price and time) is unobservable -/
theorem transactAsset_err_sameObs (p : Portfolio α) (t : Txn α) (hn : (p.positions.map (·.asset)).Nodup)
    {e : Err} (h : (p.transactAsset t).2 = some e) : SameObs p (p.transactAsset t).1 := by
  obtain ⟨p', ⟨h', -, rfl⟩ | ⟨er, ps, h', -, hps, rfl⟩ | ⟨ev, h', -⟩⟩ := transactAsset_cases p t <;>
    rw [h'] at h ⊢
  · exact SameObs.rfl' _
  · have := transactPosition_err_obs p.positions t hn (e := er) (by rw [hps])
    rw [hps] at this
    exact ⟨rfl, rfl, rfl, this⟩
  · cases h

/-- A refused `applyTxn` — unknown portfolio, time earlier than the portfolio's clock, or a refusal from
inside `Position.transact` (time earlier than the position's clock, non-positive price) — leaves the
observable state unchanged: the validation in `Position.transact` comes before the quantities move. -/
theorem applyTxn_refused_obs (b : Broker α) (pid : String) (t : Txn α) (hu : UniqueIds b)
    (hp : PosUnique b) {e : Err} (h : (b.applyTxn pid t).2 = some e) :
    obs (b.applyTxn pid t).1 = obs b := by
  have hout := applyTxn_out b pid t
  rw [h] at hout
  unfold Broker.applyTxn
  split
  · rfl
  · rename_i en hf
    rw [hf] at hout
    simp only at hout
    have hs := transactAsset_err_sameObs en.pf t (hp en (find?_spec hf).1) hout.symm
    rcases hta : en.pf.transactAsset t with ⟨pf, _ | err⟩ <;> rw [hta] at hs hout
    · cases hout
    · exact obs_setPf hu hf pf hs _ rfl rfl

/-- the refusal raised from inside `Position.transact`: which one it is -/
theorem applyTxn_position_err (b : Broker α) (pid : String) (t : Txn α)
    {en : PfEntry α} (hf : b.find? pid = some en) (ht : ¬ t.time < en.pf.clock)
    {e : Err} (h : (b.applyTxn pid t).2 = some e) :
    ∃ pos, Positions.find? en.pf.positions t.asset = some pos ∧ t.qty ≠ 0 ∧
      (t.time < pos.clock ∨ t.price ≤ 0) ∧ e = .value := by
  have h1 := applyTxn_out b pid t
  rw [hf, h] at h1
  simp only at h1
  rw [transactAsset_out, if_neg ht] at h1
  obtain ⟨pos, hpos, herr, -⟩ := transactPosition_err en.pf.positions t h1.symm
  obtain ⟨hq, hwhy, hval, -⟩ := transact_err pos t herr
  exact ⟨pos, hpos, hq, hwhy, hval⟩

/-! ### cash balances (for `C01_only_these`) -/

theorem cashView_setPf {b : Broker α} {pid : String} {e : PfEntry α} (hu : UniqueIds b)
    (hf : b.find? pid = some e) (p : Portfolio α) (hid : p.id = e.pf.id) (hc : p.cash = e.pf.cash)
    (b' : Broker α) (he : b'.entries = (b.setPf p).entries) (hm : b'.master = b.master) :
    cashView b' = cashView b := by
  obtain ⟨l1, l2, hl, hl', -⟩ := setPf_split hu hf p (hid.trans (find?_spec hf).2)
  unfold cashView
  rw [hm, he, hl, hl']
  simp only [List.map_append, List.map_cons, hid, hc]

theorem cashView_of_pfs {b b' : Broker α} (h : b'.entries.map (·.pf) = b.entries.map (·.pf))
    (hm : b'.master = b.master) : cashView b' = cashView b := by
  have := congrArg (List.map (fun p : Portfolio α => (p.id, p.cash))) h
  simp only [List.map_map, Function.comp_def] at this
  unfold cashView
  rw [hm, this]

theorem applyMark_cashView (b : Broker α) (pid asset : String) (price : α) (t : Int) (hu : UniqueIds b) :
    cashView (b.applyMark pid asset price t).1 = cashView b := by
  unfold Broker.applyMark
  split
  · rfl
  · rename_i en hf
    obtain ⟨ps, h, -⟩ := mark_spec en.pf asset price t
    simp only
    rw [h]
    refine cashView_setPf hu hf _ ?_ ?_ _ rfl rfl <;> rfl

theorem applyTxn_err_cashView (b : Broker α) (pid : String) (t : Txn α) (hu : UniqueIds b) {e : Err}
    (h : (b.applyTxn pid t).2 = some e) : cashView (b.applyTxn pid t).1 = cashView b := by
  unfold Broker.applyTxn at h ⊢
  split
  · rfl
  · rename_i en hf
    rw [hf] at h
    simp only at h
    obtain ⟨p', ⟨h2, -, rfl⟩ | ⟨er, ps, h2, -, -, rfl⟩ | ⟨ev, h2, -⟩⟩ := transactAsset_cases en.pf t <;>
      rw [h2] at h ⊢ <;> simp only at h ⊢
    · refine cashView_setPf hu hf _ ?_ ?_ _ rfl rfl <;> rfl
    · refine cashView_setPf hu hf _ ?_ ?_ _ rfl rfl <;> rfl
    · cases h

/-- the marking part of `update t q`: the clock is set, then every held asset with a quote is marked -/
def marked (b : Broker α) (t : Int) (q : Quotes α) : Broker α × Option Err :=
  Broker.runUntilErr (fun b (m : String × String × α) => b.applyMark m.1 m.2.1 m.2.2 t)
    { b with clock := t } (Broker.markTargets { b with clock := t } q)

/-- `update` is its marking part followed, if that succeeded and the exchange is open, by the fills -/
theorem update_eq_c01 (b : Broker α) (t : Int) (q : Quotes α) :
    b.update t q =
      match marked b t q with
      | (b1, some e) => (b1, some e)
      | (b1, none) =>
        if isOpen t then
          Broker.runUntilErr (fun b (x : String × Order) => b.executeOrder q x.1 x.2) b1.clearQueues
            (sellsFirst (fun (x : String × Order) => x.2.isSell) b1.drained)
        else (b1, none) := rfl

theorem marked_cashView (b : Broker α) (t : Int) (q : Quotes α) (hu : UniqueIds b) :
    UniqueIds (marked b t q).1 ∧ cashView (marked b t q).1 = cashView b :=
  runUntilErr_inv_c01
    (fun b (m : String × String × α) => b.applyMark m.1 m.2.1 m.2.2 t)
    (fun b' => UniqueIds b' ∧ cashView b' = cashView b)
    (by
      rintro b' x ⟨h1, h2⟩
      exact ⟨(applyMark_total b' x.1 x.2.1 x.2.2 t h1).1,
        (applyMark_cashView b' x.1 x.2.1 x.2.2 t h1).trans h2⟩)
    { b with clock := t } (Broker.markTargets { b with clock := t } q) ⟨hu, rfl⟩

/-- an `update` that fills nothing (marks refused, or exchange closed) moves no cash -/
theorem update_closed_cashView (b : Broker α) (t : Int) (q : Quotes α) (hu : UniqueIds b)
    (h : (marked b t q).2 ≠ none ∨ isOpen t = false) : cashView (b.update t q).1 = cashView b := by
  rw [update_eq_c01]
  have hm := (marked_cashView b t q hu).2
  rcases hs : marked b t q with ⟨b1, _ | e⟩ <;> rw [hs] at hm h <;> simp only
  · rcases h with h | h
    · exact absurd rfl h
    · simp only [h, Bool.false_eq_true, if_false]; exact hm
  · exact hm

/-- a refused op other than `update` moves no cash -/
theorem step_err_cashView (b : Broker α) (op : Op α) (hu : UniqueIds b) (hnu : ∀ t q, op ≠ .update t q)
    {e : Err} (h : (step b op).2 = some e) : cashView (step b op).1 = cashView b := by
  cases op with
  | subAcct a => simp only [step] at h ⊢; rw [subAcct_err b a h]
  | wdAcct a => simp only [step] at h ⊢; rw [wdAcct_err b a h]
  | create pid => simp only [step] at h ⊢; rw [create_err b pid h]
  | subPf pid a => exact cashView_of_obs (subPf_err_obs b pid a hu h)
  | wdPf pid a => exact cashView_of_obs (wdPf_err_obs b pid a hu h)
  | submit pid o => simp only [step] at h ⊢; rw [submit_err b pid o h]
  | update t q => exact absurd rfl (hnu t q)
  | setClock t => cases h
  | applyTxn pid t => exact applyTxn_err_cashView b pid t hu h
  | applyMark pid a p t => exact applyMark_cashView b pid a p t hu
  | pfSubscribe pid t a => exact cashView_of_obs (pfSubscribe_err_obs b pid t a hu h)
  | pfWithdraw pid t a => exact cashView_of_obs (pfWithdraw_err_obs b pid t a hu h)

theorem create_cashView (b : Broker α) (pid : String) :
    cashView (b.createPortfolio pid).1 =
      if b.has pid then cashView b else (b.master, (cashView b).2 ++ [(pid, 0)]) := by
  obtain ⟨-, hm, ⟨-, hh, h⟩ | ⟨-, hh, h⟩⟩ := create_entries b pid
  · rw [h, hh]; rfl
  · unfold cashView
    rw [hm, h, hh]
    simp [Portfolio.new]

theorem submit_cashView (b : Broker α) (pid : String) (o : Order) (hu : UniqueIds b) :
    cashView (b.submitOrder pid o).1 = cashView b := by
  obtain ⟨h1, h2, -⟩ := submitOrder_pfs b pid o hu
  exact cashView_of_pfs h1 h2

end
end Qs
