import QsProofs.Lemmas.Signals
import QsModel.Stats
import Mathlib.Data.List.Induction
import Mathlib.Data.List.Perm.Basic
import Mathlib.Order.Lattice

/-!
# Helper lemmas for the performance statistics (C17)

* `returnsOf`, `cumProd`/`cumReturnsOf` (telescoping: cumulative return = value / first value);
* `compound`, `groupByKey` (a partition: distinct keys, each group is the filter of the input by its key,
  the groups concatenate to a permutation of the input), products over groups;
* `highWaterMarks` (prefix maximum), `drawdownsOf`, `maxOf`, `longestRun`;
* invariance under scaling the equity curve.

Everything lives in `Qs.St`.
-/

set_option linter.unusedSectionVars false

namespace Qs
namespace St
open NumOps Num

/-! ## `groupByKey` is a partition (any element type, any key) -/

section Group
variable {β : Type}

/-- the per-group step of `groupByKey`: put `x` in front of the group with key `k` -/
def addTo (k : List Int) (x : β) (g : List Int × List β) : List Int × List β :=
  if g.1 == k then (g.1, x :: g.2) else g

theorem groupByKey_cons (key : β → List Int) (x : β) (xs : List β) :
    groupByKey key (x :: xs) =
      if (groupByKey key xs).any (fun g => g.1 == key x) then (groupByKey key xs).map (addTo (key x) x)
      else (key x, [x]) :: groupByKey key xs := rfl

theorem addTo_fst (k : List Int) (x : β) (g : List Int × List β) : (addTo k x g).1 = g.1 := by
  unfold addTo; split <;> rfl

theorem keys_map_addTo (k : List Int) (x : β) (G : List (List Int × List β)) :
    (G.map (addTo k x)).map (·.1) = G.map (·.1) := by
  rw [List.map_map]
  apply List.map_congr_left
  intro g _
  exact addTo_fst k x g

theorem any_key_iff (k : List Int) (G : List (List Int × List β)) :
    G.any (fun g => g.1 == k) = true ↔ k ∈ G.map (·.1) := by
  rw [List.any_eq_true, List.mem_map]
  constructor
  · rintro ⟨g, hg, h⟩; exact ⟨g, hg, by simpa using h⟩
  · rintro ⟨g, hg, h⟩; exact ⟨g, hg, by simpa using h⟩

theorem map_addTo_of_not_mem (k : List Int) (x : β) (G : List (List Int × List β))
    (h : k ∉ G.map (·.1)) : G.map (addTo k x) = G := by
  induction G with
  | nil => rfl
  | cons g G ih =>
    simp only [List.map_cons, List.mem_cons, not_or] at h
    rw [List.map_cons, ih h.2]
    have : (g.1 == k) = false := by simpa using fun e => h.1 e.symm
    simp [addTo, this]

/-- the keys of the groups are exactly the keys occurring in the input -/
theorem mem_keys_groupByKey (key : β → List Int) (l : List β) (k : List Int) :
    k ∈ (groupByKey key l).map (·.1) ↔ k ∈ l.map key := by
  induction l with
  | nil => simp [groupByKey]
  | cons x xs ih =>
    rw [groupByKey_cons]
    split
    · rename_i h
      rw [keys_map_addTo, ih, List.map_cons, List.mem_cons]
      constructor
      · exact Or.inr
      · rintro (rfl | h')
        · exact ih.mp ((any_key_iff _ _).mp h)
        · exact h'
    · simp only [List.map_cons, List.mem_cons, ih]

/-- every key occurs in exactly one group -/
theorem keys_nodup (key : β → List Int) (l : List β) : ((groupByKey key l).map (·.1)).Nodup := by
  induction l with
  | nil => simp [groupByKey]
  | cons x xs ih =>
    rw [groupByKey_cons]
    split
    · rw [keys_map_addTo]; exact ih
    · rename_i h
      rw [List.map_cons, List.nodup_cons]
      exact ⟨fun hk => h ((any_key_iff _ _).mpr hk), ih⟩

theorem flat_addTo (k : List Int) (x : β) (G : List (List Int × List β))
    (hnd : (G.map (·.1)).Nodup) (hk : k ∈ G.map (·.1)) :
    ((G.map (addTo k x)).flatMap (·.2)).Perm (x :: G.flatMap (·.2)) := by
  induction G with
  | nil => simp at hk
  | cons g G ih =>
    rw [List.map_cons, List.nodup_cons] at hnd
    rw [List.map_cons, List.flatMap_cons, List.flatMap_cons]
    by_cases hg : g.1 = k
    · have hnot : k ∉ G.map (·.1) := hg ▸ hnd.1
      rw [map_addTo_of_not_mem k x G hnot]
      have : addTo k x g = (g.1, x :: g.2) := by simp [addTo, hg]
      rw [this]
      exact List.Perm.refl _
    · have hk' : k ∈ G.map (·.1) := by
        rw [List.map_cons, List.mem_cons] at hk
        rcases hk with h | h
        · exact absurd h.symm hg
        · exact h
      have : addTo k x g = g := by
        have : (g.1 == k) = false := by simpa using hg
        simp [addTo, this]
      rw [this]
      exact ((ih hnd.2 hk').append_left g.2).trans List.perm_middle

/-- the groups, concatenated, are a permutation of the input -/
theorem groupByKey_perm (key : β → List Int) (l : List β) :
    ((groupByKey key l).flatMap (·.2)).Perm l := by
  induction l with
  | nil => simp [groupByKey]
  | cons x xs ih =>
    rw [groupByKey_cons]
    split
    · rename_i h
      exact (flat_addTo (key x) x _ (keys_nodup key xs) ((any_key_iff _ _).mp h)).trans (ih.cons x)
    · rw [List.flatMap_cons]
      exact ih.cons x

/-- each group holds exactly the input elements with the group's key, in input order -/
theorem group_eq_filter (key : β → List Int) (l : List β) :
    ∀ g ∈ groupByKey key l, g.2 = l.filter (fun x => key x == g.1) := by
  induction l with
  | nil => simp [groupByKey]
  | cons x xs ih =>
    intro g hg
    rw [groupByKey_cons] at hg
    split at hg
    · obtain ⟨g0, hg0, rfl⟩ := List.mem_map.mp hg
      have h0 := ih g0 hg0
      rw [List.filter_cons, addTo_fst]
      by_cases hk : g0.1 = key x
      · have : addTo (key x) x g0 = (g0.1, x :: g0.2) := by simp [addTo, hk]
        rw [this]
        have hb : (key x == g0.1) = true := by simp [hk]
        rw [hb]
        simp only [if_true]
        rw [← h0]
      · have h1 : (g0.1 == key x) = false := by simpa using hk
        have h2 : (key x == g0.1) = false := by simpa using fun e => hk e.symm
        have : addTo (key x) x g0 = g0 := by simp [addTo, h1]
        rw [this, h2]
        simpa using h0
    · rename_i h
      rw [List.mem_cons] at hg
      rcases hg with rfl | hg
      · have : xs.filter (fun y => key y == key x) = [] := by
          rw [List.filter_eq_nil_iff]
          intro y hy hc
          apply h
          rw [any_key_iff, mem_keys_groupByKey]
          simp only [beq_iff_eq] at hc
          exact List.mem_map.mpr ⟨y, hy, hc⟩
        simp [this]
      · have hne : ¬ key x = g.1 := by
          intro e
          apply h
          rw [any_key_iff]
          exact List.mem_map.mpr ⟨g, hg, e.symm⟩
        have h2 : (key x == g.1) = false := by simpa using hne
        rw [List.filter_cons, h2]
        simpa using ih g hg

/-- no group is empty -/
theorem group_ne_nil (key : β → List Int) (l : List β) : ∀ g ∈ groupByKey key l, g.2 ≠ [] := by
  induction l with
  | nil => simp [groupByKey]
  | cons x xs ih =>
    intro g hg
    rw [groupByKey_cons] at hg
    split at hg
    · obtain ⟨g0, hg0, rfl⟩ := List.mem_map.mp hg
      unfold addTo
      split
      · simp
      · exact ih g0 hg0
    · rw [List.mem_cons] at hg
      rcases hg with rfl | hg
      · simp
      · exact ih g hg

end Group

section Numeric
variable {α : Type} [Field α] [LinearOrder α] [IsStrictOrderedRing α] [FloorRing α] [NumOps α] [LawfulNumOps α]

/-! ## Returns and cumulative returns -/

theorem returnsOf_nil : returnsOf ([] : List α) = [] := rfl

theorem returnsOf_cons (e : α) (es : List α) : returnsOf (e :: es) = 0 :: pctChanges (e :: es) := by
  simp [returnsOf]

theorem returnsOf_length (eq : List α) : (returnsOf eq).length = eq.length := by
  cases eq with
  | nil => rfl
  | cons e es => rw [returnsOf_cons, List.length_cons, Sig.pctChanges_length]; simp

theorem returnsOf_zero (eq : List α) (h : eq ≠ []) : (returnsOf eq)[0]? = some 0 := by
  cases eq with
  | nil => exact absurd rfl h
  | cons e es => rw [returnsOf_cons]; rfl

theorem returnsOf_succ (eq : List α) (t : Nat) (x y : α) (hx : eq[t]? = some x) (hy : eq[t + 1]? = some y) :
    (returnsOf eq)[t + 1]? = some (y / x - 1) := by
  cases eq with
  | nil => simp at hx
  | cons e es =>
    rw [returnsOf_cons, List.getElem?_cons_succ]
    exact Sig.pctChanges_getElem? _ t x y hx hy

theorem cumProd_nil (acc : α) : cumProd acc ([] : List α) = [] := rfl

theorem cumProd_cons (acc r : α) (rs : List α) :
    cumProd acc (r :: rs) = (acc * (1 + r)) :: cumProd (acc * (1 + r)) rs := by
  simp [cumProd]

theorem cumProd_length (acc : α) (rs : List α) : (cumProd acc rs).length = rs.length := by
  induction rs generalizing acc with
  | nil => rfl
  | cons r rs ih => rw [cumProd_cons, List.length_cons, ih, List.length_cons]

/-- entry `t` of the running product is the product of the first `t + 1` gross returns -/
theorem cumProd_getElem? (acc : α) (rs : List α) (t : Nat) (ht : t < rs.length) :
    (cumProd acc rs)[t]? = some (acc * ((rs.take (t + 1)).map (1 + ·)).prod) := by
  induction rs generalizing acc t with
  | nil => simp at ht
  | cons r rs ih =>
    rw [cumProd_cons]
    cases t with
    | zero => simp
    | succ t =>
      rw [List.getElem?_cons_succ, ih _ t (by simpa using ht)]
      simp [mul_assoc]

theorem cumProd_getLastD (acc z : α) (rs : List α) (h : rs ≠ []) :
    (cumProd acc rs).getLastD z = acc * (rs.map (1 + ·)).prod := by
  induction rs generalizing acc z with
  | nil => exact absurd rfl h
  | cons r rs ih =>
    rw [cumProd_cons, List.getLastD_cons]
    cases rs with
    | nil => simp [cumProd_nil]
    | cons r' rs' =>
      rw [ih _ _ (by simp)]
      simp [mul_assoc]

/-- telescoping: the running product over the simple returns of a positive curve -/
theorem cumProd_pct (acc e : α) (es : List α) (hpos : ∀ x ∈ e :: es, 0 < x) :
    cumProd acc (pctChanges (e :: es)) = es.map (fun x => acc / e * x) := by
  induction es generalizing acc e with
  | nil => rfl
  | cons b rest ih =>
    have he : e ≠ 0 := (hpos e (by simp)).ne'
    have hb : b ≠ 0 := (hpos b (by simp)).ne'
    rw [Sig.pctChanges_cons_cons, cumProd_cons, ih _ b (fun x hx => hpos x (List.mem_cons_of_mem _ hx)),
      List.map_cons]
    congr 1
    · field_simp; ring
    · apply List.map_congr_left
      intro x _
      field_simp
      ring

/-- the cumulative returns of a positive curve are the curve divided by its first value -/
theorem cum_returns (e : α) (es : List α) (hpos : ∀ x ∈ e :: es, 0 < x) :
    cumReturnsOf (returnsOf (e :: es)) = (e :: es).map (· / e) := by
  have he : e ≠ 0 := (hpos e (by simp)).ne'
  unfold cumReturnsOf
  rw [returnsOf_cons, cumProd_cons, cumProd_pct _ e es hpos, List.map_cons]
  congr 1
  · simp [he]
  · apply List.map_congr_left
    intro x _
    simp only [one_eq]
    field_simp
    ring

/-! ## Compounding over groups -/

theorem compound_eq (rs : List α) : compound rs = (rs.map (1 + ·)).prod - 1 := by
  unfold compound; rw [Sig.foldl_gross]; simp

theorem one_add_compound (rs : List α) : 1 + compound rs = (rs.map (1 + ·)).prod := by
  rw [compound_eq]; ring

theorem prod_groups {γ : Type} (f : γ → α) (G : List (List Int × List γ)) :
    (G.map fun g => (g.2.map f).prod).prod = ((G.flatMap (·.2)).map f).prod := by
  induction G with
  | nil => rfl
  | cons g G ih => rw [List.map_cons, List.prod_cons, ih, List.flatMap_cons, List.map_append, List.prod_append]

/-- compounding the groups of any grouping compounds to the same total as the ungrouped series -/
theorem prod_groupByKey {γ : Type} (key : γ → List Int) (val : γ → α) (l : List γ) :
    ((groupByKey key l).map fun g => 1 + compound (g.2.map val)).prod = (l.map fun x => 1 + val x).prod := by
  have h1 : ((groupByKey key l).map fun g => 1 + compound (g.2.map val)) =
      (groupByKey key l).map fun g => (g.2.map fun x => 1 + val x).prod := by
    apply List.map_congr_left
    intro g _
    rw [one_add_compound, List.map_map]
    rfl
  rw [h1, prod_groups]
  exact ((groupByKey_perm key l).map _).prod_eq

theorem aggregateReturns_perm (p : Period) (dated : List (Int × α)) :
    (aggregateReturns p dated).Perm
      ((groupByKey (fun (x : Int × α) => periodKey p x.1) dated).map
        fun g => (g.1, compound (g.2.map (·.2)))) := by
  unfold aggregateReturns
  exact List.mergeSort_perm _ _

theorem prod_aggregateReturns (p : Period) (dated : List (Int × α)) :
    ((aggregateReturns p dated).map fun g => 1 + g.2).prod = (dated.map fun x => 1 + x.2).prod := by
  rw [((aggregateReturns_perm p dated).map _).prod_eq, List.map_map]
  exact prod_groupByKey (fun (x : Int × α) => periodKey p x.1) (·.2) dated

/-! ## High-water marks and drawdowns -/

theorem pmax_eq (a b : α) : pmax a b = max a b := by
  unfold pmax
  simp only [lt_eq, decide_eq_true_eq]
  split
  · rename_i h; exact (max_eq_right h.le).symm
  · rename_i h; exact (max_eq_left (not_lt.mp h)).symm

/-- a fold of `max` from `h` is the least upper bound of `h` and the list, and is attained -/
theorem foldl_max_spec (h : α) (l : List α) :
    h ≤ l.foldl max h ∧ (∀ y ∈ l, y ≤ l.foldl max h) ∧ (l.foldl max h = h ∨ l.foldl max h ∈ l) := by
  induction l generalizing h with
  | nil => simp
  | cons y ys ih =>
    obtain ⟨h1, h2, h3⟩ := ih (max h y)
    rw [List.foldl_cons]
    refine ⟨(le_max_left h y).trans h1, ?_, ?_⟩
    · intro z hz
      rcases List.mem_cons.mp hz with rfl | hz
      · exact (le_max_right h z).trans h1
      · exact h2 z hz
    · rcases h3 with h3 | h3
      · rw [h3]
        rcases max_choice h y with hm | hm
        · exact Or.inl hm
        · exact Or.inr (by rw [hm]; simp)
      · exact Or.inr (List.mem_cons_of_mem _ h3)

theorem foldl_pmax (h : α) (l : List α) : l.foldl pmax h = l.foldl max h := by
  induction l generalizing h with
  | nil => rfl
  | cons y ys ih => rw [List.foldl_cons, List.foldl_cons, pmax_eq, ih]

theorem hwmFrom_nil (h : α) : hwmFrom h ([] : List α) = [] := rfl

theorem hwmFrom_cons (h y : α) (ys : List α) : hwmFrom h (y :: ys) = max h y :: hwmFrom (max h y) ys := by
  simp [hwmFrom, pmax_eq]

theorem hwmFrom_length (h : α) (ys : List α) : (hwmFrom h ys).length = ys.length := by
  induction ys generalizing h with
  | nil => rfl
  | cons y ys ih => rw [hwmFrom_cons, List.length_cons, ih, List.length_cons]

theorem hwmFrom_getElem? (h : α) (ys : List α) (t : Nat) (ht : t < ys.length) :
    (hwmFrom h ys)[t]? = some ((ys.take (t + 1)).foldl max h) := by
  induction ys generalizing h t with
  | nil => simp at ht
  | cons y ys ih =>
    rw [hwmFrom_cons]
    cases t with
    | zero => simp
    | succ t =>
      rw [List.getElem?_cons_succ, ih _ t (by simpa using ht)]
      simp

theorem highWaterMarks_cons (x : α) (xs : List α) : highWaterMarks (x :: xs) = x :: hwmFrom x xs := rfl

theorem highWaterMarks_length (cum : List α) : (highWaterMarks cum).length = cum.length := by
  cases cum with
  | nil => rfl
  | cons x xs => rw [highWaterMarks_cons, List.length_cons, hwmFrom_length, List.length_cons]

theorem highWaterMarks_getElem? (x : α) (xs : List α) (t : Nat) (ht : t ≤ xs.length) :
    (highWaterMarks (x :: xs))[t]? = some ((xs.take t).foldl max x) := by
  rw [highWaterMarks_cons]
  cases t with
  | zero => simp
  | succ t => rw [List.getElem?_cons_succ, hwmFrom_getElem? x xs t ht]

/-- the high-water mark at `t` is the maximum of the first `t + 1` values (the first one included) -/
theorem highWaterMarks_spec (cum : List α) (t : Nat) (ht : t < cum.length) :
    ∃ M, (highWaterMarks cum)[t]? = some M ∧ (∀ u ∈ cum.take (t + 1), u ≤ M) ∧ M ∈ cum.take (t + 1) := by
  cases cum with
  | nil => simp at ht
  | cons x xs =>
    refine ⟨_, highWaterMarks_getElem? x xs t (by simpa [Nat.lt_succ_iff] using ht), ?_, ?_⟩
    · intro u hu
      rw [List.take_succ_cons, List.mem_cons] at hu
      obtain ⟨h1, h2, _⟩ := foldl_max_spec x (xs.take t)
      rcases hu with rfl | hu
      · exact h1
      · exact h2 u hu
    · rw [List.take_succ_cons, List.mem_cons]
      obtain ⟨_, _, h3⟩ := foldl_max_spec x (xs.take t)
      exact h3

theorem drawdownsOf_nil : drawdownsOf ([] : List α) = [] := rfl

theorem drawdownsOf_cons (x : α) (xs : List α) :
    drawdownsOf (x :: xs) = 0 :: List.zipWith (fun h y => (h - y) / h) (hwmFrom x xs) xs := by
  simp [drawdownsOf, highWaterMarks_cons]

theorem drawdownsOf_length (cum : List α) : (drawdownsOf cum).length = cum.length := by
  cases cum with
  | nil => rfl
  | cons x xs => rw [drawdownsOf_cons]; simp [hwmFrom_length]

theorem drawdownsOf_succ (cum : List α) (t : Nat) (M v : α) (hM : (highWaterMarks cum)[t + 1]? = some M)
    (hv : cum[t + 1]? = some v) : (drawdownsOf cum)[t + 1]? = some ((M - v) / M) := by
  cases cum with
  | nil => simp at hv
  | cons x xs =>
    rw [highWaterMarks_cons, List.getElem?_cons_succ] at hM
    rw [List.getElem?_cons_succ] at hv
    rw [drawdownsOf_cons, List.getElem?_cons_succ, List.getElem?_zipWith, hM, hv]

theorem drawdownsOf_zero (cum : List α) (h : cum ≠ []) : (drawdownsOf cum)[0]? = some 0 := by
  cases cum with
  | nil => exact absurd rfl h
  | cons x xs => rw [drawdownsOf_cons]; rfl

/-! ## Maximum and longest run -/

theorem maxOf_cons (x : α) (xs : List α) : maxOf (x :: xs) = xs.foldl max x := by
  simp [maxOf, foldl_pmax]

theorem maxOf_spec (l : List α) (h : l ≠ []) : (∀ y ∈ l, y ≤ maxOf l) ∧ maxOf l ∈ l := by
  cases l with
  | nil => exact absurd rfl h
  | cons x xs =>
    rw [maxOf_cons]
    obtain ⟨h1, h2, h3⟩ := foldl_max_spec x xs
    refine ⟨?_, ?_⟩
    · intro y hy
      rcases List.mem_cons.mp hy with rfl | hy
      · exact h1
      · exact h2 y hy
    · rcases h3 with h3 | h3
      · rw [h3]; simp
      · exact List.mem_cons_of_mem _ h3

/-- the fold step of `longestRun` -/
def lrStep (st : Nat × Nat) (x : α) : Nat × Nat :=
  (if x = 0 then 0 else st.1 + 1, max st.2 (if x = 0 then 0 else st.1 + 1))

theorem longestRun_eq (dd : List α) : longestRun dd = (dd.foldl lrStep (0, 0)).2 := by
  unfold longestRun
  have : (fun (st : Nat × Nat) (x : α) =>
      ((if beq x zero = true then 0 else st.1 + 1), max st.2 (if beq x zero = true then 0 else st.1 + 1))) =
      lrStep := by
    funext st x
    simp [lrStep, beq_eq]
  show (dd.foldl (fun (st : Nat × Nat) (x : α) =>
      ((if beq x zero = true then 0 else st.1 + 1), max st.2 (if beq x zero = true then 0 else st.1 + 1)))
      (0, 0)).2 = _
  rw [this]

/-- all entries non-zero -/
def NZ (l : List α) : Prop := ∀ x ∈ l, x ≠ 0

theorem lr_invariant (l : List α) :
    (∃ suf, suf <:+ l ∧ NZ suf ∧ suf.length = (l.foldl lrStep (0, 0)).1) ∧
    (∀ suf, suf <:+ l → NZ suf → suf.length ≤ (l.foldl lrStep (0, 0)).1) ∧
    (∃ run, run <:+: l ∧ NZ run ∧ run.length = (l.foldl lrStep (0, 0)).2) ∧
    (∀ run, run <:+: l → NZ run → run.length ≤ (l.foldl lrStep (0, 0)).2) := by
  induction l using List.reverseRecOn with
  | nil =>
    refine ⟨⟨[], List.suffix_refl _, by simp [NZ], rfl⟩, ?_, ⟨[], List.infix_refl _, by simp [NZ], rfl⟩, ?_⟩
    · intro suf hs _
      rw [List.suffix_nil] at hs
      simp [hs]
    · intro run hr _
      rw [List.infix_nil] at hr
      simp [hr]
  | append_singleton l x ih =>
    obtain ⟨⟨suf, hs1, hs2, hs3⟩, hS, ⟨run, hr1, hr2, hr3⟩, hI⟩ := ih
    rw [List.foldl_append, List.foldl_cons, List.foldl_nil]
    generalize l.foldl lrStep (0, 0) = st at *
    obtain ⟨c, b⟩ := st
    simp only at hs3 hS hr3 hI
    by_cases hx : x = 0
    · have hstep : lrStep (c, b) x = (0, b) := by simp [lrStep, hx]
      rw [hstep]
      have hsuf0 : ∀ s, s <:+ l ++ [x] → NZ s → s = [] := by
        intro s hs hnz
        rcases List.suffix_concat_iff.mp hs with h | ⟨t, rfl, _⟩
        · exact h
        · exact absurd hx (hnz x (by simp))
      refine ⟨⟨[], List.nil_suffix, by simp [NZ], rfl⟩, ?_,
        ⟨run, hr1.trans (List.infix_append' [] l [x] |>.trans (by simp)), hr2, hr3⟩, ?_⟩
      · intro s hs hnz
        simp [hsuf0 s hs hnz]
      · intro r hr hnz
        rcases List.infix_concat_iff.mp hr with h | h
        · simp [hsuf0 r h hnz]
        · exact hI r h hnz
    · have hstep : lrStep (c, b) x = (c + 1, max b (c + 1)) := by simp [lrStep, hx]
      rw [hstep]
      have hsufle : ∀ s, s <:+ l ++ [x] → NZ s → s.length ≤ c + 1 := by
        intro s hs hnz
        rcases List.suffix_concat_iff.mp hs with h | ⟨t, rfl, ht⟩
        · simp [h]
        · have : t.length ≤ c := hS t ht (fun y hy => hnz y (by simp [hy]))
          simpa using this
      have hnew : (suf ++ [x]) <:+ l ++ [x] ∧ NZ (suf ++ [x]) ∧ (suf ++ [x]).length = c + 1 := by
        refine ⟨List.suffix_concat_iff.mpr (Or.inr ⟨suf, rfl, hs1⟩), ?_, by simp [hs3]⟩
        intro y hy
        rcases List.mem_append.mp hy with h | h
        · exact hs2 y h
        · simp only [List.mem_singleton] at h; rw [h]; exact hx
      refine ⟨⟨suf ++ [x], hnew⟩, hsufle, ?_, ?_⟩
      · by_cases hbc : c + 1 ≤ b
        · rw [max_eq_left hbc]
          exact ⟨run, List.infix_concat_iff.mpr (Or.inr hr1), hr2, hr3⟩
        · rw [max_eq_right (by omega)]
          exact ⟨suf ++ [x], hnew.1.isInfix, hnew.2.1, hnew.2.2⟩
      · intro r hr hnz
        rcases List.infix_concat_iff.mp hr with h | h
        · exact (hsufle r h hnz).trans (le_max_right _ _)
        · exact (hI r h hnz).trans (le_max_left _ _)

/-! ## Scaling the curve -/

theorem pctChanges_scale (k : α) (hk : k ≠ 0) (w : List α) :
    pctChanges (w.map (k * ·)) = pctChanges w := by
  induction w with
  | nil => rfl
  | cons a t ih =>
    cases t with
    | nil => rfl
    | cons b rest =>
      rw [List.map_cons, List.map_cons, Sig.pctChanges_cons_cons, Sig.pctChanges_cons_cons]
      rw [List.map_cons] at ih
      rw [ih, mul_div_mul_left _ _ hk]

theorem returnsOf_scale (k : α) (hk : k ≠ 0) (eq : List α) :
    returnsOf (eq.map (k * ·)) = returnsOf eq := by
  cases eq with
  | nil => rfl
  | cons e es =>
    rw [List.map_cons, returnsOf_cons, returnsOf_cons, ← List.map_cons, pctChanges_scale k hk]

end Numeric

end St
end Qs
