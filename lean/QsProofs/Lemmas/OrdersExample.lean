import QsProofs.Lemmas.OrdersFees
import Mathlib.Data.Rat.Floor

/-!
# A concrete broker at `α := ℚ` for the non-vacuity examples of C04 and C05

Two portfolios; `p1` holds 10 `A` and has a buy of `A` and a sell of `B` queued, `p2` has a sell of `A`
queued; quotes with `bid ≠ ask`; percentage fee model.
-/

namespace Qs.Ex
open NumOps Num

/-- the lawful field instance on `ℚ` (takes precedence over the driver's `NumOps Rat`) -/
noncomputable scoped instance (priority := high) instNumOps : NumOps ℚ := fieldNumOps ℚ
scoped instance instLawful : LawfulNumOps ℚ := fieldNumOps_lawful ℚ

/-- Monday 2021-01-04 15:00:00 UTC (open) -/
def tOpen : Int := 1609772400
/-- Monday 2021-01-04 13:00:00 UTC (closed) -/
def tClosed : Int := 1609765200

def oBuyA : Order := ⟨1, "A", 10⟩
def oSellB : Order := ⟨2, "B", -5⟩
def oSellA : Order := ⟨3, "A", -2⟩

def posA : Position ℚ :=
  { asset := "A", price := 100, clock := 1609700000, buyQ := 10, sellQ := 0, avgB := 100, avgS := 0,
    comB := 0, comS := 0 }

def σ₀ : Broker ℚ :=
  { clock := tClosed, master := 0, fee := .percent (1 / 1000) (5 / 1000),
    entries := [
      { pf := { id := "p1", clock := 1609700000, cash := 10000, positions := [posA] },
        queue := [oBuyA, oSellB] },
      { pf := { id := "p2", clock := 1609700000, cash := 500 }, queue := [oSellA] } ] }

def quotes : Quotes ℚ := fun a =>
  if a = "A" then some (99, 101) else if a = "B" then some (49, 51) else none

theorem wf : WF σ₀ := by simp [WF, σ₀]

theorem drained_eq : σ₀.drained = [("p1", oBuyA), ("p1", oSellB), ("p2", oSellA)] := rfl

theorem batch_eq : sellsFirst (fun (x : String × Order) => x.2.isSell) σ₀.drained
    = [("p1", oSellB), ("p2", oSellA), ("p1", oBuyA)] := by decide

theorem clocksOK : ClocksOK σ₀ := by
  intro e he
  simp only [σ₀, List.mem_cons, List.mem_nil_iff, or_false] at he
  rcases he with rfl | rfl
  · refine ⟨by decide, ?_⟩
    intro pos hp
    simp only [List.mem_cons, List.mem_nil_iff, or_false] at hp
    subst hp; decide
  · exact ⟨by decide, by intro pos hp; cases hp⟩

theorem quotesPos : QuotesPos quotes := by
  intro a bid ask h
  unfold quotes at h
  split at h
  · simp only [Option.some.injEq, Prod.mk.injEq] at h; obtain ⟨rfl, rfl⟩ := h; norm_num
  · split at h
    · simp only [Option.some.injEq, Prod.mk.injEq] at h; obtain ⟨rfl, rfl⟩ := h; norm_num
    · cases h

theorem quoted : ∀ x ∈ σ₀.drained, ∃ bid ask, quotes x.2.asset = some (bid, ask) := by
  intro x hx
  rw [drained_eq] at hx
  simp only [List.mem_cons, List.mem_nil_iff, or_false] at hx
  rcases hx with rfl | rfl | rfl
  · exact ⟨99, 101, rfl⟩
  · exact ⟨49, 51, rfl⟩
  · exact ⟨99, 101, rfl⟩

theorem updateOK_open : UpdateOK σ₀ tOpen quotes := ⟨clocksOK, by decide, quotesPos, fun _ => quoted⟩
theorem updateOK_closed : UpdateOK σ₀ tClosed quotes := ⟨clocksOK, by decide, quotesPos, fun _ => quoted⟩

/-! ### a run: submit a buy of `B` to `p2`, one update outside hours, one update inside hours -/

def oBuyB : Order := ⟨4, "B", 7⟩

def ops : List (Op ℚ) := [.submit "p2" oBuyB, .update tClosed quotes, .update tOpen quotes]

theorem has_p2 : σ₀.has "p2" = true := by decide

theorem accepted_eq : accepted σ₀ ops = [("p2", oBuyB)] := by
  simp only [ops, accepted, acceptedOne, has_p2, if_true, List.append_nil]

theorem traceOK : TraceOK σ₀ ops := by
  have hs := submit_accepted σ₀ "p2" oBuyB wf has_p2
  have hd := drained_submit σ₀ "p2" oBuyB wf has_p2
  have hfr := marked_frame (σ₀.submitOrder "p2" oBuyB).1 tClosed quotes
  have hclosed : isOpen tClosed = false := by decide
  refine ⟨trivial, ⟨?_, quotesPos, ?_⟩, ⟨?_, quotesPos, ?_⟩, trivial⟩
  · show (σ₀.submitOrder "p2" oBuyB).1.clock ≤ tClosed
    rw [hs.2.2.2.1]; decide
  · intro h; rw [hclosed] at h; cases h
  · show ((σ₀.submitOrder "p2" oBuyB).1.update tClosed quotes).1.clock ≤ tOpen
    rw [update_closed _ _ _ hclosed, hfr.2.2.2.1]; decide
  · intro _ x hx
    change x ∈ ((σ₀.submitOrder "p2" oBuyB).1.update tClosed quotes).1.drained at hx
    rw [update_closed _ _ _ hclosed, drained_of_qview, hfr.1, ← drained_of_qview] at hx
    rcases List.mem_cons.mp (hd.subset hx) with rfl | hx
    · exact ⟨49, 51, rfl⟩
    · exact quoted x hx

theorem ids_nodup : ((σ₀.filled ++ σ₀.drained ++ accepted σ₀ ops).map (·.2.id)).Nodup := by
  rw [accepted_eq, drained_eq]; decide

end Qs.Ex
