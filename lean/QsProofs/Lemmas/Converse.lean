import QsProofs.Lemmas.RefinementRun
import QsProofs.Lemmas.Orders

/-!
# C08 helpers (5): the converse direction — the reference being defined forces every operational step to
return normally

The forward lemmas (`Qs.Ref.update_sim`, `executeOrders_open`, `rebalanceAt_sim`, `step_open`, …) take
"the operational step returned `none`" as a hypothesis.  Here that fact is DERIVED:

* a broker `update` returns normally because no clock is ahead of the broker (`ClocksOK`, a consequence of `BR`),
  time does not go backwards, quotes are positive, and (in exchange hours) every queued asset is quoted
  (`C04`'s `update_ok`); the last point is what `refFillAll … = some _` says (`refFillAll_quoted`);
* sizing returns `.ok` because `refOrders … = some _` says so — it is the same function on equal arguments
  (`heldOf_sim`, `equity_sim`).
-/

set_option linter.unusedSectionVars false

namespace Qs.Conv
open NumOps Num Qs.Ref

section
variable {α : Type} [Field α] [LinearOrder α] [IsStrictOrderedRing α] [FloorRing α] [NumOps α] [LawfulNumOps α]

/-! ## the broker -/

/-- the abstraction relation contains the clock invariant of C04 -/
theorem clocksOK_of_BR {fee : FeeModel α} {b : Broker α} {st : RefState α} {t : Int} (h : BR fee b st t) :
    ClocksOK b := by
  obtain ⟨⟨e, he, her⟩, hclock, _, _⟩ := h
  intro e' he'
  simp only [he, List.mem_singleton] at he'
  subst he'
  rw [hclock]
  exact ⟨her.wf.clock_le, her.wf.pos_clock_le⟩

theorem quotesPos_of_pos (px : Px α) (hpos : ∀ t a p, px t a = some p → 0 < p) (t : Int) :
    QuotesPos (quotesAt px t) := by
  intro a bid ask h
  cases hpx : px t a with
  | none => rw [quotesAt_none hpx] at h; cases h
  | some p =>
    rw [quotesAt_some hpx] at h
    have hp := hpos t a p hpx
    cases h
    exact ⟨hp, hp⟩

/-- **No error in `broker.update(dt)`**: the broker represents a reference state, time does not go backwards,
prices are positive and — in exchange hours — every pending order's asset has a price at `t`. -/
theorem update_noerr (fee : FeeModel α) (px : Px α) (hpos : ∀ t a p, px t a = some p → 0 < p)
    (b : Broker α) (st : RefState α) (t0 t : Int) (hbr : BR fee b st t0) (ht : t0 ≤ t)
    (hq : isOpen t = true → ∀ o ∈ st.pending, (px t o.1).isSome) :
    (b.update t (quotesAt px t)).2 = none := by
  refine (update_ok b t _ ⟨clocksOK_of_BR hbr, by rw [hbr.clock]; exact ht, quotesPos_of_pos px hpos t, ?_⟩).1
  intro ho x hx
  obtain ⟨⟨e, he, her⟩, _, _, _⟩ := hbr
  obtain ⟨e', he', _, hmem⟩ := mem_drained hx
  simp only [he, List.mem_singleton] at he'
  subst he'
  have hp : (x.2.asset, x.2.qty) ∈ st.pending := by
    rw [← her.queue]; exact List.mem_map.mpr ⟨x.2, hmem, rfl⟩
  obtain ⟨p, hp⟩ := Option.isSome_iff_exists.mp (hq ho _ hp)
  exact ⟨p, p, quotesAt_some hp⟩

/-! ## `refFillAll` being defined -/

theorem refFill_some {fee : FeeModel α} {px : Px α} {t : Int} {st st' : RefState α} {o : String × Int}
    (h : refFill fee px t st o = some st') : (px t o.1).isSome := by
  unfold refFill at h
  cases hpx : px t o.1 with
  | none => rw [hpx] at h; cases h
  | some p => rfl

theorem refFillAll_cons {fee : FeeModel α} {px : Px α} {t : Int} {st st' : RefState α} {o : String × Int}
    {os : List (String × Int)} (h : refFillAll fee px t st (o :: os) = some st') :
    ∃ s1, refFill fee px t st o = some s1 ∧ refFillAll fee px t s1 os = some st' := by
  simp only [refFillAll] at h
  cases hrf : refFill fee px t st o with
  | none => rw [hrf] at h; simp at h
  | some s1 => rw [hrf] at h; exact ⟨s1, rfl, by simpa using h⟩

/-- a defined `refFillAll` had a price for every order -/
theorem refFillAll_quoted {fee : FeeModel α} {px : Px α} {t : Int} :
    ∀ {os : List (String × Int)} {st st' : RefState α}, refFillAll fee px t st os = some st' →
      ∀ o ∈ os, (px t o.1).isSome
  | [], _, _, _, o, ho => by cases ho
  | x :: xs, st, st', h, o, ho => by
    obtain ⟨s1, h1, h2⟩ := refFillAll_cons h
    rcases List.mem_cons.mp ho with rfl | ho
    · exact refFill_some h1
    · exact refFillAll_quoted h2 o ho

/-! ## `ExecutionHandler.__call__` -/

/-- orders executed while the exchange is open: no error when the reference fills them all -/
theorem executeOrders_open_noerr (fee : FeeModel α) (px : Px α) (hpos : ∀ t a p, px t a = some p → 0 < p)
    (t : Int) (ho : isOpen t = true) :
    ∀ (orders : List (String × Int)) (b : Broker α) (n : Nat) (st st' : RefState α),
    BR fee b st t → Marked px t b → st.pending = [] → (∀ o ∈ orders, o.2 ≠ 0) →
    refFillAll fee px t st orders = some st' →
    (executeOrders px t b n orders).2.2 = none
  | [], b, n, st, st', _, _, _, _, _ => rfl
  | (a, q) :: rest, b, n, st, st', hbr, hm, hp, hnz, hf => by
    have hq : q ≠ 0 := hnz (a, q) List.mem_cons_self
    obtain ⟨b1, hsub, hbr1, hm1⟩ := submit_sim fee px b st t { id := n, asset := a, qty := q } hbr hq
    obtain ⟨s1, hrf, hrest⟩ := refFillAll_cons hf
    have hpa : (px t a).isSome := refFill_some hrf
    have hret1 : (b1.update t (quotesAt px t)).2 = none := by
      refine update_noerr fee px hpos b1 _ t t hbr1 (le_refl _) ?_
      intro _ o ho'
      simp only [hp, List.nil_append, List.mem_singleton] at ho'
      subst ho'
      exact hpa
    unfold executeOrders
    rw [hsub]
    simp only
    have hquoted := marked_quoted fee px b1 _ t hbr1 (hm1 hm)
    obtain ⟨st1, hf1, hbr2, hm2, hp2, _⟩ :=
      (update_sim fee px hpos b1 _ t t hbr1 (le_refl _) hquoted hret1).2 ho
    cases hup : b1.update t (quotesAt px t) with
    | mk b2 err =>
      rw [hup] at hret1 hbr2 hm2
      simp only at hret1
      subst hret1
      simp only
      have hst : ({ ({ st with pending := st.pending ++ [(a, q)] } : RefState α) with pending := [] } : RefState α) = st := by
        cases st; simp only at hp; subst hp; rfl
      simp only [hp, List.nil_append, sellsFirst_single] at hf1
      rw [hp] at hst
      simp only at hst
      rw [hst] at hf1
      simp only [refFillAll] at hf1
      rw [hrf] at hf1
      simp only [Option.bind_some, Option.some.injEq] at hf1
      subst hf1
      exact executeOrders_open_noerr fee px hpos t ho rest b2 (n + 1) s1 st' hbr2 hm2 hp2
        (fun o h => hnz o (List.mem_cons_of_mem _ h)) hrest

/-- orders executed while the exchange is closed: they queue up, nothing can fail -/
theorem executeOrders_closed_noerr (fee : FeeModel α) (px : Px α) (hpos : ∀ t a p, px t a = some p → 0 < p)
    (t : Int) (ho : isOpen t = false) :
    ∀ (orders : List (String × Int)) (b : Broker α) (n : Nat) (st : RefState α),
    BR fee b st t → Marked px t b → (∀ o ∈ orders, o.2 ≠ 0) →
    (executeOrders px t b n orders).2.2 = none
  | [], b, n, st, _, _, _ => rfl
  | (a, q) :: rest, b, n, st, hbr, hm, hnz => by
    have hq : q ≠ 0 := hnz (a, q) List.mem_cons_self
    obtain ⟨b1, hsub, hbr1, hm1⟩ := submit_sim fee px b st t { id := n, asset := a, qty := q } hbr hq
    have hret1 : (b1.update t (quotesAt px t)).2 = none :=
      update_noerr fee px hpos b1 _ t t hbr1 (le_refl _) (by intro h; rw [ho] at h; cases h)
    unfold executeOrders
    rw [hsub]
    simp only
    have hquoted := marked_quoted fee px b1 _ t hbr1 (hm1 hm)
    obtain ⟨hbr2, hm2⟩ := (update_sim fee px hpos b1 _ t t hbr1 (le_refl _) hquoted hret1).1 ho
    cases hup : b1.update t (quotesAt px t) with
    | mk b2 err =>
      rw [hup] at hret1 hbr2 hm2
      simp only at hret1
      subst hret1
      simp only
      exact executeOrders_closed_noerr fee px hpos t ho rest b2 (n + 1) _ hbr2 hm2
        (fun o h => hnz o (List.mem_cons_of_mem _ h))

/-! ## `QuantTradingSystem.__call__` -/

/-- **No error in a rebalance**: the reference's sizing is defined (`refOrders … = some os`) and, when the exchange
is open, the reference fills the orders (`refFillAll … os = some _`). -/
theorem rebalanceAt_noerr (cfg : SessionCfg α) (w : List (String × α)) (px : Px α)
    (hpos : ∀ t a p, px t a = some p → 0 < p) (t : Int) (s : Session α) (st : RefState α)
    (hbr : BR cfg.fee s.broker st t) (hm : Marked px t s.broker)
    (os : List (String × Int)) (hos : refOrders cfg w px t st = some os)
    (hopen : isOpen t = true → st.pending = [] ∧ ∃ st', refFillAll cfg.fee px t st os = some st') :
    (rebalanceAt cfg (fixedAlpha w) px t s).2 = none := by
  have hheld := heldOf_sim cfg.fee s.broker st t hbr
  obtain ⟨heq, _⟩ := equity_sim cfg.fee px s.broker st t hbr hm
  unfold refOrders at hos
  rw [heq] at hos
  simp only at hos
  unfold rebalanceAt
  simp only [fixedAlpha, fixedWeight, hheld]
  generalize htgt : (if cfg.longOnly = true then
      dwSize cfg.fee (equityOf s.broker) cfg.param (px t) (fullWeightVector st.hold (cfg.uni.assets t) w)
    else lsSize cfg.fee (equityOf s.broker) cfg.param (px t) (fullWeightVector st.hold (cfg.uni.assets t) w)) = target
    at hos ⊢
  cases target with
  | error e => simp at hos
  | ok tq =>
    simp only [Option.some.injEq] at hos ⊢
    subst hos
    have hnz : ∀ o ∈ rebalanceOrders tq st.hold, o.2 ≠ 0 := fun o ho => rebalanceOrders_ne_zero ho
    cases ho : isOpen t with
    | true =>
      obtain ⟨hp, st', hf⟩ := hopen ho
      exact executeOrders_open_noerr cfg.fee px hpos t ho _ s.broker s.nextId st st' hbr hm hp hnz hf
    | false =>
      exact executeOrders_closed_noerr cfg.fee px hpos t ho _ s.broker s.nextId st hbr hm hnz

/-! ## the events of a business day -/

/-- **No error at the market open**: stages 1–2 of `refDay` are defined. -/
theorem step_open_noerr (cfg : SessionCfg α) (w : List (String × α)) (px : Px α)
    (hpos : ∀ t a p, px t a = some p → 0 < p) (sched : List Int) (A : String → Prop)
    (s : Session α) (st : RefState α) (t0 t : Int) (hsr : SR cfg s st t0) (ht : t0 ≤ t)
    (ho : isOpen t = true) (hq : ∀ a, A a → (px t a).isSome) (has : Assets A st)
    (st1 st2 : RefState α)
    (h1 : refFillAll cfg.fee px t { st with pending := [] }
          (sellsFirst (fun (o : String × Int) => decide (o.2 < 0)) st.pending) = some st1)
    (h2 : refOpenReb cfg w px sched t st1 = some st2) :
    (s.step cfg (fixedAlpha w) px sched ⟨t, .marketOpen⟩).2 = none := by
  obtain ⟨hbr, heq, hal, hsig⟩ := hsr
  have hret1 : (s.broker.update t (quotesAt px t)).2 = none :=
    update_noerr cfg.fee px hpos s.broker st t0 t hbr ht
      (fun _ o ho' => hq _ (has.2 _ (List.mem_map.mpr ⟨o, ho', rfl⟩)))
  obtain ⟨st1', hf1, hbr1, hm1, hp1, _⟩ :=
    (update_sim cfg.fee px hpos s.broker st t0 t hbr ht
      (fun x hx => hq _ (has.1 _ (List.mem_map.mpr ⟨x, hx, rfl⟩))) hret1).2 ho
  rw [h1] at hf1
  simp only [Option.some.injEq] at hf1
  subst hf1
  unfold Session.step
  simp only
  cases hup : s.broker.update t (quotesAt px t) with
  | mk b err =>
    rw [hup] at hret1 hbr1 hm1
    simp only at hret1
    subst hret1
    simp only [hsig, reduceCtorEq, decide_false, Bool.false_and, Bool.false_eq_true, if_false]
    unfold refOpenReb at h2
    by_cases hc : (burnOk cfg t && sched.contains t) = true
    · simp only [if_pos hc] at h2 ⊢
      cases hos : refOrders cfg w px t st1 with
      | none => rw [hos] at h2; simp at h2
      | some os =>
        rw [hos] at h2
        simp only [Option.bind_eq_bind, Option.bind_some] at h2
        cases hf' : refFillAll cfg.fee px t st1 os with
        | none => rw [hf'] at h2; simp at h2
        | some st' =>
          have hret2 := rebalanceAt_noerr cfg w px hpos t
            { broker := b, allocations := s.allocations, equity := s.equity, nextId := s.nextId } st1 hbr1 hm1 os hos
            (fun _ => ⟨hp1, st', hf'⟩)
          cases hreb : rebalanceAt cfg (fixedAlpha w) px t
              { broker := b, allocations := s.allocations, equity := s.equity, nextId := s.nextId } with
          | mk s3 err =>
            rw [hreb] at hret2
            simp only at hret2
            subst hret2
            rfl
    · simp only [if_neg hc]

/-- **No error at the market close**: stage 3 of `refDay` is defined. -/
theorem step_close_noerr (cfg : SessionCfg α) (w : List (String × α)) (px : Px α)
    (hpos : ∀ t a p, px t a = some p → 0 < p) (sched : List Int) (A : String → Prop)
    (s : Session α) (st : RefState α) (t0 t : Int) (hsr : SR cfg s st t0) (ht : t0 ≤ t)
    (ho : isOpen t = false) (hq : ∀ a, A a → (px t a).isSome) (has : Assets A st)
    (st3 : RefState α) (h3 : refCloseReb cfg w px sched t st = some st3) :
    (s.step cfg (fixedAlpha w) px sched ⟨t, .marketClose⟩).2 = none := by
  obtain ⟨hbr, heq, hal, hsig⟩ := hsr
  have hret1 : (s.broker.update t (quotesAt px t)).2 = none :=
    update_noerr cfg.fee px hpos s.broker st t0 t hbr ht (by intro h; rw [ho] at h; cases h)
  obtain ⟨hbr1, hm1⟩ :=
    (update_sim cfg.fee px hpos s.broker st t0 t hbr ht
      (fun x hx => hq _ (has.1 _ (List.mem_map.mpr ⟨x, hx, rfl⟩))) hret1).1 ho
  unfold Session.step
  simp only
  cases hup : s.broker.update t (quotesAt px t) with
  | mk b err =>
    rw [hup] at hret1 hbr1 hm1
    simp only at hret1
    subst hret1
    simp only [hsig, decide_true, Bool.true_and]
    unfold refCloseReb at h3
    by_cases hc : (burnOk cfg t && sched.contains t) = true
    · simp only [if_pos hc] at h3 ⊢
      cases hos : refOrders cfg w px t st with
      | none => rw [hos] at h3; simp at h3
      | some os =>
        have hret2 := rebalanceAt_noerr cfg w px hpos t
          { broker := b, allocations := s.allocations, equity := s.equity, nextId := s.nextId } st hbr1 hm1 os hos
          (by intro h; rw [ho] at h; cases h)
        cases hreb : rebalanceAt cfg (fixedAlpha w) px t
            { broker := b, allocations := s.allocations, equity := s.equity, nextId := s.nextId } with
        | mk s3 err =>
          rw [hreb] at hret2
          simp only at hret2
          subst hret2
          simp only
          split <;> rfl
    · simp only [if_neg hc]
      split <;> rfl

/-- **One business day, converse**: when `refDay` is defined, both events return normally, and the session then
represents the reference's next state. -/
theorem day_conv (cfg : SessionCfg α) (w : List (String × α)) (px : Px α)
    (hpos : ∀ t a p, px t a = some p → 0 < p) (sched : List Int) (A : String → Prop)
    (hA : ∀ t a, a ∈ cfg.uni.assets t → A a) (hAw : ∀ a ∈ w.map (·.1), A a)
    (s : Session α) (st : RefState α) (t0 d : Int) (hsr : SR cfg s st t0) (ht : t0 ≤ d * 86400 + OPEN)
    (hd : weekday d ≤ 4)
    (hq : ∀ a, A a → (px (d * 86400 + OPEN) a).isSome ∧ (px (d * 86400 + CLOSE) a).isSome) (has : Assets A st)
    (st' : RefState α) (hday : refDay cfg w px sched st d = some st') :
    ∃ s1 s2, s.step cfg (fixedAlpha w) px sched ⟨d * 86400 + OPEN, .marketOpen⟩ = (s1, none) ∧
      s1.step cfg (fixedAlpha w) px sched ⟨d * 86400 + CLOSE, .marketClose⟩ = (s2, none) ∧
      SR cfg s2 st' (d * 86400 + CLOSE) ∧ Assets A st' := by
  rw [refDay_eq] at hday
  cases hf1 : refFillAll cfg.fee px (d * 86400 + OPEN) { st with pending := [] }
      (sellsFirst (fun (o : String × Int) => decide (o.2 < 0)) st.pending) with
  | none => rw [hf1] at hday; simp at hday
  | some st1 =>
    rw [hf1, Option.bind_some] at hday
    cases hf2 : refOpenReb cfg w px sched (d * 86400 + OPEN) st1 with
    | none => rw [hf2] at hday; simp at hday
    | some st2 =>
      rw [hf2, Option.bind_some] at hday
      cases hf3 : refCloseReb cfg w px sched (d * 86400 + CLOSE) st2 with
      | none => rw [hf3] at hday; simp at hday
      | some st3 =>
        rw [hf3, Option.bind_some] at hday
        have hret1 := step_open_noerr cfg w px hpos sched A s st t0 _ hsr ht (isOpen_open d hd)
          (fun a ha => (hq a ha).1) has st1 st2 hf1 hf2
        obtain ⟨st1', st2', hf1', hf2', hsr1, _, _, has2⟩ :=
          step_open cfg w px hpos sched A hA hAw s st t0 _ hsr ht (isOpen_open d hd)
            (fun a ha => (hq a ha).1) has hret1
        rw [hf1] at hf1'
        simp only [Option.some.injEq] at hf1'
        subst hf1'
        rw [hf2] at hf2'
        simp only [Option.some.injEq] at hf2'
        subst hf2'
        cases h1 : s.step cfg (fixedAlpha w) px sched ⟨d * 86400 + OPEN, .marketOpen⟩ with
        | mk s1 e1 =>
          rw [h1] at hret1 hsr1
          simp only at hret1 hsr1
          subst hret1
          have hle : d * 86400 + OPEN ≤ d * 86400 + CLOSE := by unfold OPEN CLOSE; omega
          have hret2 := step_close_noerr cfg w px hpos sched A s1 st2 _ _ hsr1 hle (isOpen_close d)
            (fun a ha => (hq a ha).2) has2 st3 hf3
          obtain ⟨st3', st4, hf3', hf4, hsr2, has4⟩ :=
            step_close cfg w px hpos sched A hA hAw s1 st2 _ _ hsr1 hle (isOpen_close d)
              (fun a ha => (hq a ha).2) has2 hret2
          rw [hf3] at hf3'
          simp only [Option.some.injEq] at hf3'
          subst hf3'
          rw [hday] at hf4
          simp only [Option.some.injEq] at hf4
          subst hf4
          cases h2 : s1.step cfg (fixedAlpha w) px sched ⟨d * 86400 + CLOSE, .marketClose⟩ with
          | mk s2 e2 =>
            rw [h2] at hret2 hsr2
            simp only at hret2 hsr2
            subst hret2
            exact ⟨s1, s2, rfl, h2, hsr2, has4⟩

/-- **All business days, converse**: when `refDays` is defined the event loop runs to the end without error. -/
theorem days_conv (cfg : SessionCfg α) (w : List (String × α)) (px : Px α)
    (hpos : ∀ t a p, px t a = some p → 0 < p) (sched : List Int) (A : String → Prop)
    (hA : ∀ t a, a ∈ cfg.uni.assets t → A a) (hAw : ∀ a ∈ w.map (·.1), A a) :
    ∀ (ds : List Int) (s : Session α) (st : RefState α) (t0 : Int),
    SR cfg s st t0 → Assets A st → ds.Pairwise (· < ·) →
    (∀ d ∈ ds, weekday d ≤ 4 ∧ t0 ≤ d * 86400 + OPEN) →
    (∀ d ∈ ds, ∀ a, A a → (px (d * 86400 + OPEN) a).isSome ∧ (px (d * 86400 + CLOSE) a).isSome) →
    ∀ st', refDays cfg w px sched st ds = some st' →
    ∃ s' t', Session.runEvents cfg (fixedAlpha w) px sched s (ds.flatMap (dayTemplate false false)) = (s', none) ∧
      SR cfg s' st' t' ∧ Assets A st'
  | [], s, st, t0, hsr, has, _, _, _, st', href => by
    simp only [refDays, Option.some.injEq] at href
    subst href
    exact ⟨s, t0, rfl, hsr, has⟩
  | d :: ds, s, st, t0, hsr, has, hpw, hds, hq, st', href => by
    simp only [refDays] at href
    cases hday : refDay cfg w px sched st d with
    | none => rw [hday] at href; simp at href
    | some st1 =>
      rw [hday, Option.bind_some] at href
      obtain ⟨hd, ht⟩ := hds d List.mem_cons_self
      obtain ⟨s1, s2, h1, h2, hsr1, has1⟩ :=
        day_conv cfg w px hpos sched A hA hAw s st t0 d hsr ht hd (hq d List.mem_cons_self) has st1 hday
      rw [List.pairwise_cons] at hpw
      obtain ⟨s', t', hrun, hsr', has'⟩ :=
        days_conv cfg w px hpos sched A hA hAw ds s2 st1 _ hsr1 has1 hpw.2
          (fun d' hd' => ⟨(hds d' (List.mem_cons_of_mem _ hd')).1, by
            have := hpw.1 d' hd'
            unfold OPEN CLOSE; omega⟩)
          (fun d' hd' => hq d' (List.mem_cons_of_mem _ hd')) st' href
      refine ⟨s', t', ?_, hsr', has'⟩
      have hev : (d :: ds).flatMap (dayTemplate false false) =
          ⟨d * 86400 + OPEN, .marketOpen⟩ :: ⟨d * 86400 + CLOSE, .marketClose⟩ :: ds.flatMap (dayTemplate false false) := by
        simp [List.flatMap_cons, dayTemplate]
      rw [hev]
      unfold Session.runEvents
      rw [h1]
      simp only
      unfold Session.runEvents
      rw [h2]
      simp only
      exact hrun

/-! ## construction -/

/-- the sizer's parameter validation of `__init__`: cash buffer in `[0, 1]` (long only) resp. gross leverage `> 0` -/
def ParamOK (cfg : SessionCfg α) : Prop :=
  if cfg.longOnly then 0 ≤ cfg.param ∧ cfg.param ≤ 1 else 0 < cfg.param

/-- **The session can be constructed** exactly under the four conditions `__init__` checks: non-negative initial
cash, `start ≤ end`, a valid rebalance schedule (weekday name), a valid sizer parameter. -/
theorem init_ok (cfg : SessionCfg α) (hcash : 0 ≤ cfg.initialCash) (hrange : cfg.start ≤ cfg.end_)
    (sched : List Int) (hsched : scheduleOf cfg = .ok sched) (hparam : ParamOK cfg) :
    ∃ s0, Session.init cfg = .ok (s0, (bdayRange cfg.start cfg.end_).flatMap (dayTemplate false false), sched) := by
  have hmaster : (if decide ((0 : α) < cfg.initialCash) = true then cfg.initialCash else 0) = cfg.initialCash := by
    simp only [decide_eq_true_eq]
    split
    · rfl
    · rename_i h'; exact le_antisymm hcash (not_lt.mp h')
  have hev : simEvents cfg.start cfg.end_ false false
      = .ok ((bdayRange cfg.start cfg.end_).flatMap (dayTemplate false false)) := by
    unfold simEvents
    rw [if_neg (not_lt.mpr hrange)]
  have hchk : ∃ v, (if cfg.longOnly then dwCheckBuffer cfg.param else lsCheckLeverage cfg.param) = .ok v := by
    unfold ParamOK at hparam
    cases hl : cfg.longOnly with
    | true =>
      rw [hl] at hparam
      simp only [if_true] at hparam ⊢
      refine ⟨cfg.param, ?_⟩
      unfold dwCheckBuffer
      simp [lt_eq, not_lt.mpr hparam.1, not_lt.mpr hparam.2]
    | false =>
      rw [hl] at hparam
      simp only [Bool.false_eq_true, if_false] at hparam ⊢
      refine ⟨cfg.param, ?_⟩
      unfold lsCheckLeverage
      simp [le_eq, not_le.mpr hparam]
  obtain ⟨v, hv⟩ := hchk
  unfold Session.init
  simp only [Broker.new, lt_eq, zero_eq, not_lt.mpr hcash, decide_false, Bool.false_eq_true, if_false,
    bind, Except.bind, Broker.createPortfolio, Broker.has, List.any_nil, List.nil_append,
    Broker.subscribePortfolio, Broker.find?, List.find?_cons, Portfolio.new, beq_self_eq_true,
    Portfolio.subscribe, lt_irrefl, Broker.setPf, List.map_cons, List.map_nil, if_true, hmaster, hev, hsched, hv]
  exact ⟨_, rfl⟩

/-! ## The converse WITHOUT `hquoted`

In the converse direction the hypothesis "every asset that can be held is quoted at every open and close" is not
needed: wherever the session's result depends on a mark, the reference being defined (`refEquity … = some _`,
`refFillAll … = some _`) supplies the quote.  The invariant `Marked` (every position carries the price of `t`) is
replaced by `MarkedQ` (every position whose asset HAS a price at `t` carries it), which an `update` establishes
unconditionally. -/

/-- every stored position whose asset has a price at `t` carries that price -/
def MarkedQ (px : Px α) (t : Int) (b : Broker α) : Prop :=
  ∀ e ∈ b.entries, ∀ p ∈ e.pf.positions, ∀ v, px t p.asset = some v → p.price = v

theorem mapM_quoted (px : Px α) (t : Int) : ∀ (hold : List (String × Int)) (mvs : List α),
    hold.mapM (fun (x : String × Int) => (px t x.1).map fun p => p * ofInt x.2) = some mvs →
    ∀ x ∈ hold, (px t x.1).isSome
  | [], _, _, x, hx => by cases hx
  | y :: ys, mvs, h, x, hx => by
    rw [List.mapM_cons] at h
    cases hpy : px t y.1 with
    | none => simp [hpy] at h
    | some p =>
      cases hr : ys.mapM (fun (x : String × Int) => (px t x.1).map fun p => p * ofInt x.2) with
      | none =>
        simp only [hpy, hr, Option.map_some, Option.bind_eq_bind, Option.bind_some, Option.bind_none] at h
        cases h
      | some r =>
        rcases List.mem_cons.mp hx with rfl | hx'
        · rw [hpy]; rfl
        · exact mapM_quoted px t ys r hr x hx'

/-- a defined `refEquity` had a price for every held asset -/
theorem refEquity_quoted {px : Px α} {t : Int} {st : RefState α} {v : α} (h : refEquity px t st = some v) :
    ∀ x ∈ st.hold, (px t x.1).isSome := by
  unfold refEquity at h
  cases hm : st.hold.mapM (fun (x : String × Int) => match x with | (a, q) => (px t a).map fun p => p * ofInt q) with
  | none => rw [hm] at h; simp at h
  | some mvs =>
    have hm' : st.hold.mapM (fun (x : String × Int) => (px t x.1).map fun p => p * ofInt x.2) = some mvs := hm
    exact mapM_quoted px t st.hold mvs hm'

theorem clearQueues_markedQ (px : Px α) (t : Int) (b : Broker α) (h : MarkedQ px t b) :
    MarkedQ px t b.clearQueues := by
  intro e he pos hp
  simp only [Broker.clearQueues, List.mem_map] at he
  obtain ⟨e0, he0, rfl⟩ := he
  exact h e0 he0 pos hp

/-- `MarkedQ` and all held assets priced give `Marked` -/
theorem marked_of_markedQ (fee : FeeModel α) (px : Px α) (b : Broker α) (st : RefState α) (t : Int)
    (hbr : BR fee b st t) (hm : MarkedQ px t b) (hq : ∀ x ∈ st.hold, (px t x.1).isSome) : Marked px t b := by
  obtain ⟨⟨e, he, her⟩, _, _, _⟩ := hbr
  intro e' he' pos hp
  have he'' := he'
  simp only [he, List.mem_singleton] at he''
  subst he''
  have hk : pos.asset ∈ st.hold.map (·.1) := by
    rw [← keys_of_view her.hold]; exact List.mem_map.mpr ⟨pos, hp, rfl⟩
  obtain ⟨x, hx, hxa⟩ := List.mem_map.mp hk
  have hsome := hq x hx
  rw [hxa] at hsome
  obtain ⟨v, hv⟩ := Option.isSome_iff_exists.mp hsome
  rw [hv, hm e' he' pos hp v hv]

theorem marked_to_markedQ (px : Px α) (t : Int) (b : Broker α) (h : Marked px t b) : MarkedQ px t b := by
  intro e he pos hp v hv
  have := h e he pos hp
  rw [hv] at this
  exact (Option.some.inj this).symm

/-- one executed order keeps `MarkedQ` -/
theorem executeOrder_markedQ (fee : FeeModel α) (px : Px α) (t : Int) (b : Broker α) (st : RefState α) (o : Order)
    (hbr : BR fee b st t) (hq : o.qty ≠ 0) (hpos : ∀ t a p, px t a = some p → 0 < p)
    (hret : (b.executeOrder (quotesAt px t) PORTFOLIO_ID o).2 = none) (hm : MarkedQ px t b) :
    MarkedQ px t (b.executeOrder (quotesAt px t) PORTFOLIO_ID o).1 := by
  obtain ⟨⟨e, he, her⟩, hclock, hfee, hlog⟩ := hbr
  cases hpx : px t o.asset with
  | none =>
    exfalso
    simp [Broker.executeOrder, Broker.makeTxn, quotesAt_none hpx] at hret
  | some p =>
    have hp := hpos t o.asset p hpx
    let tx : Txn α := { asset := o.asset, qty := o.qty, time := t, price := p,
                        commission := fee.totalCost (ofInt (roundHalfEvenI (p * ofInt o.qty))), orderId := o.id }
    have hmk : b.makeTxn (quotesAt px t) o = .ok tx := by
      simp only [Broker.makeTxn, quotesAt_some hpx, ite_self, hclock, hfee, tx]
    obtain ⟨ps', hps, hview, hnz', hnd', hclk', hmem'⟩ :=
      transactPosition_view e.pf.positions st.hold tx her.hold her.nz her.wf.nodup
        (fun pos h => her.wf.pos_clock_le pos h) hq hp
    have hfind := find?_single he her.id
    obtain ⟨hist, hta⟩ : ∃ hist, e.pf.transactAsset tx =
        ({ e.pf with clock := t, positions := ps', cash := e.pf.cash - (p * ofInt o.qty + tx.commission),
                     history := hist }, none) := by
      unfold Portfolio.transactAsset
      have h1 : ¬ tx.time < e.pf.clock := not_lt.mpr her.wf.clock_le
      rw [if_neg h1]
      simp only [hps]
      exact ⟨_, rfl⟩
    let pf' : Portfolio α :=
      { e.pf with clock := t, positions := ps', cash := e.pf.cash - (p * ofInt o.qty + tx.commission),
                  history := hist }
    let b' : Broker α := b.setPf pf'
    have hex : b.executeOrder (quotesAt px t) PORTFOLIO_ID o =
        ({ b' with fillLog := b.fillLog ++ [(PORTFOLIO_ID, tx)] }, none) := by
      unfold Broker.executeOrder
      rw [hmk]
      simp only [Broker.applyTxn, hfind]
      rw [hta]
    rw [hex]
    intro e' he' pos hp' v hv
    rw [show (_ : Broker α).entries = _ from setPf_single he pf' rfl] at he'
    simp only [List.mem_singleton] at he'
    subst he'
    rcases hmem' pos hp' with h | ⟨h1, h2⟩
    · exact hm e (by rw [he]; exact List.mem_singleton_self _) pos h v hv
    · rw [h1] at hv
      have : px t o.asset = some v := hv
      rw [hpx] at this
      rw [h2]
      exact Option.some.inj this

/-- the order phase of an update keeps `MarkedQ` -/
theorem runOrders_markedQ (fee : FeeModel α) (px : Px α) (t : Int) (hpos : ∀ t a p, px t a = some p → 0 < p) :
    ∀ (batch : List (String × Order)) (b : Broker α) (st : RefState α),
    BR fee b st t → (∀ x ∈ batch, x.1 = PORTFOLIO_ID ∧ x.2.qty ≠ 0) →
    (Broker.runUntilErr (fun b (x : String × Order) => b.executeOrder (quotesAt px t) x.1 x.2) b batch).2 = none →
    MarkedQ px t b →
    MarkedQ px t (Broker.runUntilErr (fun b (x : String × Order) => b.executeOrder (quotesAt px t) x.1 x.2) b batch).1
  | [], b, st, _, _, _, hm => hm
  | x :: xs, b, st, hbr, hb, hret, hm => by
    obtain ⟨hx1, hx2⟩ := hb x List.mem_cons_self
    unfold Broker.runUntilErr at hret ⊢
    simp only [hx1] at hret ⊢
    cases hex : (b.executeOrder (quotesAt px t) PORTFOLIO_ID x.2) with
    | mk b1 err =>
      cases err with
      | some e => rw [hex] at hret; simp at hret
      | none =>
        rw [hex] at hret
        simp only at hret ⊢
        have hret1 : (b.executeOrder (quotesAt px t) PORTFOLIO_ID x.2).2 = none := by rw [hex]
        obtain ⟨st1, _, hbr1, _⟩ := executeOrder_sim fee px t b st x.2 hbr hx2 hpos hret1
        have hm1 := executeOrder_markedQ fee px t b st x.2 hbr hx2 hpos hret1 hm
        rw [hex] at hbr1 hm1
        exact runOrders_markedQ fee px t hpos xs b1 st1 hbr1 (fun y hy => hb y (List.mem_cons_of_mem _ hy)) hret hm1

/-- the broker after the marks of an update at `t ≥` its clock (no quote needed) -/
theorem marks_BR (fee : FeeModel α) (px : Px α) (b : Broker α) (st : RefState α) (t0 t : Int)
    (hbr : BR fee b st t0) (ht : t0 ≤ t) :
    BR fee { b with clock := t, entries := b.entries.map (C02.markEntry (quotesAt px t) t) } st t ∧
    MarkedQ px t { b with clock := t, entries := b.entries.map (C02.markEntry (quotesAt px t) t) } := by
  obtain ⟨⟨e, he, her⟩, hclock, hfee, hlog⟩ := hbr
  refine ⟨⟨⟨C02.markEntry (quotesAt px t) t e, by simp [he], ?_⟩, rfl, hfee, hlog⟩, ?_⟩
  · refine ⟨her.id, her.cash, ⟨her.wf.clock_le.trans ht, ?_, ?_⟩, ?_, her.nz, her.queue, her.pnz⟩
    · intro pos hp
      obtain ⟨p0, hp0, rfl⟩ := List.mem_map.mp hp
      exact markPos_clock_le _ _ _ ((her.wf.pos_clock_le p0 hp0).trans ht)
    · show (Positions.keys (List.map (C02.markPos (quotesAt px t) t) e.pf.positions)).Nodup
      have : Positions.keys (List.map (C02.markPos (quotesAt px t) t) e.pf.positions) = Positions.keys e.pf.positions := by
        unfold Positions.keys
        rw [List.map_map]
        apply List.map_congr_left
        intro x _
        exact C02.markPos_asset _ _ _
      rw [this]; exact her.wf.nodup
    · rw [← her.hold]
      show posView (List.map (C02.markPos (quotesAt px t) t) e.pf.positions) = _
      unfold posView
      rw [List.map_map]
      apply List.map_congr_left
      intro x _
      simp only [Function.comp_def, C02.markPos_asset, markPos_net]
  · intro e' he' pos hp v hv
    simp only [he, List.map_cons, List.map_nil, List.mem_singleton] at he'
    subst he'
    obtain ⟨p0, hp0, rfl⟩ := List.mem_map.mp hp
    rw [C02.markPos_asset] at hv
    unfold C02.markPos
    rw [quotesAt_some hv]
    simp only
    field_simp
    ring

/-- **One `broker.update(dt)`** against the reference, without any quote hypothesis on the holdings. -/
theorem update_sim' (fee : FeeModel α) (px : Px α) (hpos : ∀ t a p, px t a = some p → 0 < p)
    (b : Broker α) (st : RefState α) (t0 t : Int)
    (hbr : BR fee b st t0) (ht : t0 ≤ t)
    (hret : (b.update t (quotesAt px t)).2 = none) :
    MarkedQ px t (b.update t (quotesAt px t)).1 ∧
    (isOpen t = false → BR fee (b.update t (quotesAt px t)).1 st t) ∧
    (isOpen t = true →
      ∃ st', refFillAll fee px t { st with pending := [] }
            (sellsFirst (fun (o : String × Int) => decide (o.2 < 0)) st.pending) = some st' ∧
        BR fee (b.update t (quotesAt px t)).1 st' t ∧
        st'.pending = [] ∧ st'.equity = st.equity ∧ st'.allocDates = st.allocDates) := by
  have hb : C02.BWF b t := by
    obtain ⟨⟨e, he, her⟩, _, _, _⟩ := hbr
    refine ⟨by simp [he], ?_⟩
    intro e' he'
    simp only [he, List.mem_singleton] at he'
    subst he'
    exact WF_mono her.wf ht
  have hpos' : ∀ e ∈ b.entries, ∀ pos ∈ e.pf.positions, ∀ bid ask,
      quotesAt px t pos.asset = some (bid, ask) → 0 < (bid + ask) / 2 := by
    intro e _ pos _ bid ask hqa
    cases hpx : px t pos.asset with
    | none => rw [quotesAt_none hpx] at hqa; cases hqa
    | some p =>
      rw [quotesAt_some hpx] at hqa
      have := hpos t _ p hpx
      cases hqa
      linarith
  have heq := C02.update_eq b t (quotesAt px t) hb hpos'
  obtain ⟨hbr1, hm1⟩ := marks_BR fee px b st t0 t hbr ht
  cases ho : isOpen t with
  | false =>
    rw [heq]
    simp only [ho, Bool.false_eq_true, if_false]
    exact ⟨hm1, fun _ => hbr1, fun h => by cases h⟩
  | true =>
    rw [heq] at hret ⊢
    simp only [ho, if_true] at hret ⊢
    obtain ⟨hbatch, hall⟩ := drained_sim fee _ st t hbr1
    obtain ⟨st', hf, hbr', _, hp', he', ha', _⟩ :=
      runOrders_sim fee px t hpos _ _ _ (clearQueues_sim fee _ st t hbr1) hall hret
    rw [hbatch] at hf
    have hmq := clearQueues_markedQ px t _ hm1
    refine ⟨runOrders_markedQ fee px t hpos _ _ _ (clearQueues_sim fee _ st t hbr1) hall hret hmq,
      (fun h => by cases h), fun _ => ⟨st', hf, hbr', hp', he', ha'⟩⟩

/-- a defined sizing had a defined equity -/
theorem refOrders_equity {cfg : SessionCfg α} {w : List (String × α)} {px : Px α} {t : Int} {st : RefState α}
    {os : List (String × Int)} (h : refOrders cfg w px t st = some os) : ∃ v, refEquity px t st = some v := by
  unfold refOrders at h
  cases he : refEquity px t st with
  | none => rw [he] at h; cases h
  | some v => exact ⟨v, rfl⟩

theorem SR_congr {cfg : SessionCfg α} {s : Session α} {st st' : RefState α} {t : Int}
    (h : BR cfg.fee s.broker st t) (hc : st'.cash = st.cash) (hh : st'.hold = st.hold)
    (hp : st'.pending = st.pending) (hf : st'.fills = st.fills) : BR cfg.fee s.broker st' t := by
  obtain ⟨⟨e, he, her⟩, h2, h3, h4⟩ := h
  exact ⟨⟨e, he, ⟨her.id, by rw [hc]; exact her.cash, her.wf, by rw [hh]; exact her.hold,
    by rw [hh]; exact her.nz, by rw [hp]; exact her.queue, by rw [hp]; exact her.pnz⟩⟩, h2, h3, by rw [hf]; exact h4⟩

/-- **The market-open event, converse without quote hypotheses**: stages 1–2 of `refDay` defined ⇒ the event
returns normally and the session represents the reference's state after stage 2. -/
theorem step_open_conv (cfg : SessionCfg α) (w : List (String × α)) (px : Px α)
    (hpos : ∀ t a p, px t a = some p → 0 < p) (sched : List Int)
    (s : Session α) (st : RefState α) (t0 t : Int) (hsr : SR cfg s st t0) (ht : t0 ≤ t)
    (ho : isOpen t = true) (st1 st2 : RefState α)
    (h1 : refFillAll cfg.fee px t { st with pending := [] }
          (sellsFirst (fun (o : String × Int) => decide (o.2 < 0)) st.pending) = some st1)
    (h2 : refOpenReb cfg w px sched t st1 = some st2) :
    (s.step cfg (fixedAlpha w) px sched ⟨t, .marketOpen⟩).2 = none ∧
    SR cfg (s.step cfg (fixedAlpha w) px sched ⟨t, .marketOpen⟩).1 st2 t ∧ st2.pending = [] := by
  obtain ⟨hbr, heq, hal, hsig⟩ := hsr
  have hret1 : (s.broker.update t (quotesAt px t)).2 = none :=
    update_noerr cfg.fee px hpos s.broker st t0 t hbr ht
      (fun _ o ho' => refFillAll_quoted h1 o ((C02.mem_sellsFirst _ _ _).mpr ho'))
  obtain ⟨hmq, _, hopen⟩ := update_sim' cfg.fee px hpos s.broker st t0 t hbr ht hret1
  obtain ⟨st1', hf1, hbr1, hp1, he1, ha1⟩ := hopen ho
  rw [h1] at hf1
  simp only [Option.some.injEq] at hf1
  subst hf1
  unfold Session.step
  simp only
  cases hup : s.broker.update t (quotesAt px t) with
  | mk b err =>
    rw [hup] at hret1 hbr1 hmq
    simp only at hret1 hbr1 hmq
    subst hret1
    simp only [hsig, reduceCtorEq, decide_false, Bool.false_and, Bool.false_eq_true, if_false]
    unfold refOpenReb at h2
    by_cases hc : (burnOk cfg t && sched.contains t) = true
    · simp only [if_pos hc] at h2 ⊢
      cases hos : refOrders cfg w px t st1 with
      | none => rw [hos] at h2; simp at h2
      | some os =>
        rw [hos] at h2
        simp only [Option.bind_eq_bind, Option.bind_some] at h2
        cases hf' : refFillAll cfg.fee px t st1 os with
        | none => rw [hf'] at h2; simp at h2
        | some st' =>
          rw [hf'] at h2
          simp only [Option.bind_some, pure, Option.some.injEq] at h2
          subst h2
          obtain ⟨v, hv⟩ := refOrders_equity hos
          have hm1 : Marked px t b := marked_of_markedQ cfg.fee px b st1 t hbr1 hmq (refEquity_quoted hv)
          have hret2 := rebalanceAt_noerr cfg w px hpos t
            { broker := b, allocations := s.allocations, equity := s.equity, nextId := s.nextId } st1 hbr1 hm1 os hos
            (fun _ => ⟨hp1, st', hf'⟩)
          obtain ⟨os', hos', hre, hrs, hra, _, hropen, _⟩ :=
            rebalanceAt_sim cfg w px hpos t _ st1 hbr1 hm1 hret2
          rw [hos] at hos'
          simp only [Option.some.injEq] at hos'
          subst hos'
          obtain ⟨st'', hf'', hbr', _, hp', he', ha', _⟩ := hropen ho hp1
          rw [hf'] at hf''
          simp only [Option.some.injEq] at hf''
          subst hf''
          cases hreb : rebalanceAt cfg (fixedAlpha w) px t
              { broker := b, allocations := s.allocations, equity := s.equity, nextId := s.nextId } with
          | mk s3 err =>
            rw [hreb] at hret2 hre hrs hra hbr'
            simp only at hret2 hre hrs hra hbr'
            subst hret2
            refine ⟨rfl, ⟨SR_congr hbr' rfl rfl rfl rfl, ?_, ?_, hrs⟩, hp'⟩
            · show s3.equity = st'.equity
              rw [hre, heq, he', he1]
            · show s3.allocations.map (·.1) = st'.allocDates ++ [t]
              rw [hra, hal, ha', ha1]
    · simp only [if_neg hc] at h2 ⊢
      simp only [pure, Option.some.injEq] at h2
      subst h2
      exact ⟨trivial, ⟨hbr1, heq.trans he1.symm, hal.trans ha1.symm, rfl⟩, hp1⟩

/-- **The market-close event, converse without quote hypotheses**: stages 3–4 of `refDay` defined ⇒ the event
returns normally and the session represents the reference's state after stage 4. -/
theorem step_close_conv (cfg : SessionCfg α) (w : List (String × α)) (px : Px α)
    (hpos : ∀ t a p, px t a = some p → 0 < p) (sched : List Int)
    (s : Session α) (st : RefState α) (t0 t : Int) (hsr : SR cfg s st t0) (ht : t0 ≤ t)
    (ho : isOpen t = false) (st3 st4 : RefState α)
    (h3 : refCloseReb cfg w px sched t st = some st3) (h4 : refCloseEq cfg px t st3 = some st4) :
    (s.step cfg (fixedAlpha w) px sched ⟨t, .marketClose⟩).2 = none ∧
    SR cfg (s.step cfg (fixedAlpha w) px sched ⟨t, .marketClose⟩).1 st4 t := by
  obtain ⟨hbr, heq, hal, hsig⟩ := hsr
  have hret1 : (s.broker.update t (quotesAt px t)).2 = none :=
    update_noerr cfg.fee px hpos s.broker st t0 t hbr ht (by intro h; rw [ho] at h; cases h)
  obtain ⟨hmq, hclosed, _⟩ := update_sim' cfg.fee px hpos s.broker st t0 t hbr ht hret1
  have hbr1 := hclosed ho
  -- the equity stage, for any state reached after the rebalance stage
  have hfin : ∀ (s3 : Session α) (st3 : RefState α), SR cfg s3 st3 t → MarkedQ px t s3.broker →
      refCloseEq cfg px t st3 = some st4 →
        SR cfg (if burnOk cfg t = true then
            ({ s3 with equity := s3.equity ++ [(t, (s3.broker.accountTotalEquity).2)] }, (none : Option Err))
          else (s3, none)).1 st4 t := by
    intro s3 st3 hsr3 hmq3 h4'
    obtain ⟨hbr3, heq3, hal3, hsig3⟩ := hsr3
    unfold refCloseEq at h4'
    by_cases hb : burnOk cfg t = true
    · simp only [if_pos hb] at h4' ⊢
      cases hre : refEquity px t st3 with
      | none => rw [hre] at h4'; simp at h4'
      | some v =>
        rw [hre] at h4'
        simp only [Option.bind_eq_bind, Option.bind_some, pure, Option.some.injEq] at h4'
        subst h4'
        have hm3 := marked_of_markedQ cfg.fee px s3.broker st3 t hbr3 hmq3 (refEquity_quoted hre)
        obtain ⟨hre', hacc⟩ := equity_sim cfg.fee px s3.broker st3 t hbr3 hm3
        rw [hre] at hre'
        simp only [Option.some.injEq] at hre'
        refine ⟨SR_congr hbr3 rfl rfl rfl rfl, ?_, hal3, hsig3⟩
        show s3.equity ++ _ = st3.equity ++ _
        rw [heq3, hacc, hre']
    · simp only [if_neg hb] at h4' ⊢
      simp only [pure, Option.some.injEq] at h4'
      subst h4'
      exact ⟨hbr3, heq3, hal3, hsig3⟩
  unfold Session.step
  simp only
  cases hup : s.broker.update t (quotesAt px t) with
  | mk b err =>
    rw [hup] at hret1 hbr1 hmq
    simp only at hret1 hbr1 hmq
    subst hret1
    simp only [hsig, decide_true, Bool.true_and]
    unfold refCloseReb at h3
    by_cases hc : (burnOk cfg t && sched.contains t) = true
    · simp only [if_pos hc] at h3 ⊢
      cases hos : refOrders cfg w px t st with
      | none => rw [hos] at h3; simp at h3
      | some os =>
        rw [hos] at h3
        simp only [Option.bind_eq_bind, Option.bind_some, pure, Option.some.injEq] at h3
        subst h3
        obtain ⟨v, hv⟩ := refOrders_equity hos
        have hm1 : Marked px t b := marked_of_markedQ cfg.fee px b st t hbr1 hmq (refEquity_quoted hv)
        have hret2 := rebalanceAt_noerr cfg w px hpos t
          { broker := b, allocations := s.allocations, equity := s.equity, nextId := s.nextId } st hbr1 hm1 os hos
          (by intro h; rw [ho] at h; cases h)
        obtain ⟨os', hos', hre, hrs, hra, _, _, hrclosed⟩ :=
          rebalanceAt_sim cfg w px hpos t _ st hbr1 hm1 hret2
        rw [hos] at hos'
        simp only [Option.some.injEq] at hos'
        subst hos'
        obtain ⟨hbr', hm'⟩ := hrclosed ho
        cases hreb : rebalanceAt cfg (fixedAlpha w) px t
            { broker := b, allocations := s.allocations, equity := s.equity, nextId := s.nextId } with
        | mk s3 err =>
          rw [hreb] at hret2 hre hrs hra hbr' hm'
          simp only at hret2 hre hrs hra hbr' hm'
          subst hret2
          simp only
          have hsr3 : SR cfg s3 { st with pending := st.pending ++ os, allocDates := st.allocDates ++ [t] } t :=
            ⟨SR_congr hbr' rfl rfl rfl rfl, by rw [hre, heq], by rw [hra, hal], hrs⟩
          have := hfin s3 _ hsr3 (marked_to_markedQ px t _ hm') h4
          refine ⟨?_, this⟩
          split <;> rfl
    · simp only [if_neg hc] at h3 ⊢
      simp only [pure, Option.some.injEq] at h3
      subst h3
      have hsr3 : SR cfg { broker := b, allocations := s.allocations, equity := s.equity, nextId := s.nextId } st t :=
        ⟨hbr1, heq, hal, rfl⟩
      have := hfin _ st hsr3 hmq h4
      refine ⟨?_, this⟩
      split <;> rfl

/-- **One business day, converse without quote hypotheses.** -/
theorem day_conv' (cfg : SessionCfg α) (w : List (String × α)) (px : Px α)
    (hpos : ∀ t a p, px t a = some p → 0 < p) (sched : List Int)
    (s : Session α) (st : RefState α) (t0 d : Int) (hsr : SR cfg s st t0) (ht : t0 ≤ d * 86400 + OPEN)
    (hd : weekday d ≤ 4) (st' : RefState α) (hday : refDay cfg w px sched st d = some st') :
    ∃ s1 s2, s.step cfg (fixedAlpha w) px sched ⟨d * 86400 + OPEN, .marketOpen⟩ = (s1, none) ∧
      s1.step cfg (fixedAlpha w) px sched ⟨d * 86400 + CLOSE, .marketClose⟩ = (s2, none) ∧
      SR cfg s2 st' (d * 86400 + CLOSE) := by
  rw [refDay_eq] at hday
  cases hf1 : refFillAll cfg.fee px (d * 86400 + OPEN) { st with pending := [] }
      (sellsFirst (fun (o : String × Int) => decide (o.2 < 0)) st.pending) with
  | none => rw [hf1] at hday; simp at hday
  | some st1 =>
    rw [hf1, Option.bind_some] at hday
    cases hf2 : refOpenReb cfg w px sched (d * 86400 + OPEN) st1 with
    | none => rw [hf2] at hday; simp at hday
    | some st2 =>
      rw [hf2, Option.bind_some] at hday
      cases hf3 : refCloseReb cfg w px sched (d * 86400 + CLOSE) st2 with
      | none => rw [hf3] at hday; simp at hday
      | some st3 =>
        rw [hf3, Option.bind_some] at hday
        obtain ⟨hret1, hsr1, _⟩ :=
          step_open_conv cfg w px hpos sched s st t0 _ hsr ht (isOpen_open d hd) st1 st2 hf1 hf2
        cases h1 : s.step cfg (fixedAlpha w) px sched ⟨d * 86400 + OPEN, .marketOpen⟩ with
        | mk s1 e1 =>
          rw [h1] at hret1 hsr1
          simp only at hret1 hsr1
          subst hret1
          have hle : d * 86400 + OPEN ≤ d * 86400 + CLOSE := by unfold OPEN CLOSE; omega
          obtain ⟨hret2, hsr2⟩ :=
            step_close_conv cfg w px hpos sched s1 st2 _ _ hsr1 hle (isOpen_close d) st3 st' hf3 hday
          cases h2 : s1.step cfg (fixedAlpha w) px sched ⟨d * 86400 + CLOSE, .marketClose⟩ with
          | mk s2 e2 =>
            rw [h2] at hret2 hsr2
            simp only at hret2 hsr2
            subst hret2
            exact ⟨s1, s2, rfl, h2, hsr2⟩

/-- **All business days, converse without quote hypotheses.** -/
theorem days_conv' (cfg : SessionCfg α) (w : List (String × α)) (px : Px α)
    (hpos : ∀ t a p, px t a = some p → 0 < p) (sched : List Int) :
    ∀ (ds : List Int) (s : Session α) (st : RefState α) (t0 : Int),
    SR cfg s st t0 → ds.Pairwise (· < ·) →
    (∀ d ∈ ds, weekday d ≤ 4 ∧ t0 ≤ d * 86400 + OPEN) →
    ∀ st', refDays cfg w px sched st ds = some st' →
    ∃ s' t', Session.runEvents cfg (fixedAlpha w) px sched s (ds.flatMap (dayTemplate false false)) = (s', none) ∧
      SR cfg s' st' t'
  | [], s, st, t0, hsr, _, _, st', href => by
    simp only [refDays, Option.some.injEq] at href
    subst href
    exact ⟨s, t0, rfl, hsr⟩
  | d :: ds, s, st, t0, hsr, hpw, hds, st', href => by
    simp only [refDays] at href
    cases hday : refDay cfg w px sched st d with
    | none => rw [hday] at href; simp at href
    | some st1 =>
      rw [hday, Option.bind_some] at href
      obtain ⟨hd, ht⟩ := hds d List.mem_cons_self
      obtain ⟨s1, s2, h1, h2, hsr1⟩ := day_conv' cfg w px hpos sched s st t0 d hsr ht hd st1 hday
      rw [List.pairwise_cons] at hpw
      obtain ⟨s', t', hrun, hsr'⟩ :=
        days_conv' cfg w px hpos sched ds s2 st1 _ hsr1 hpw.2
          (fun d' hd' => ⟨(hds d' (List.mem_cons_of_mem _ hd')).1, by
            have := hpw.1 d' hd'
            unfold OPEN CLOSE; omega⟩) st' href
      refine ⟨s', t', ?_, hsr'⟩
      have hev : (d :: ds).flatMap (dayTemplate false false) =
          ⟨d * 86400 + OPEN, .marketOpen⟩ :: ⟨d * 86400 + CLOSE, .marketClose⟩ :: ds.flatMap (dayTemplate false false) := by
        simp [List.flatMap_cons, dayTemplate]
      rw [hev]
      unfold Session.runEvents
      rw [h1]
      simp only
      unfold Session.runEvents
      rw [h2]
      simp only
      exact hrun

end
end Qs.Conv
